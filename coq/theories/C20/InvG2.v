(* C20/InvG2.v — preservation of the channel part of the invariant (cursors, who owns which receiver, the reader's to-do list,
   closed channels). *)
From ZV Require Import Base.Bytes Base.Res C19.Broadcast C19.BroadcastFacts C20.Model C20.Lemmas C20.Steps C20.Inv C20.InvG1.
From Coq Require Import Lia Permutation.

Ltac simp :=
  repeat match goal with x := _ |- _ => subst x end;
  cbn [chans senders subs streams adds drops tasks reader socket incoming dead arcs
       with_chans with_senders with_subs with_streams with_adds with_drops with_tasks with_reader with_socket with_incoming
       with_dead with_arcs set_chan bury mk_stream got_more add_at s_rule s_ch s_from s_got a_rule a_q a_pc] in *;
  autorewrite with rms in *.

Ltac rm_frame :=
  match goal with Hr : rm_apply _ _ = _ |- _ =>
    let H := fresh "Hfr" in pose proof (rm_apply_frame _ _ _ _ Hr) as H;
    destruct H as (?Esnd & ?Estr & ?Eadd & ?Edrp & ?Etsk & ?Erd & ?Esock & ?Einc & ?Edead & ?Ecl)
  end.


(* ---- channel contents after the steps that close channels ---- *)
Lemma chan_at_close_all s c : c < length (chans s) ->
  chan_at (with_chans s (close_all s)) c = if mem_nat c (map snd (senders s)) then close (chan_at s c) else chan_at s c.
Proof.
  intros H. unfold chan_at, close_all. cbn [chans with_chans]. rewrite (nth_map_combine_seq _ _ _ (new_chan 1)) by assumption. reflexivity.
Qed.

(* same receivers and same log: only the capacity or the closed flag may differ *)
Definition same_or_closed (a b : chan item) : Prop := rcv b = rcv a /\ log b = log a.

Lemma soc_cursor a b id : same_or_closed a b -> cursor b id = cursor a id.
Proof. intros [H _]. unfold cursor. now rewrite H. Qed.
Lemma soc_log a b : same_or_closed a b -> log b = log a.
Proof. intros [_ H]. exact H. Qed.
Lemma soc_rcv a b : same_or_closed a b -> rcv b = rcv a.
Proof. intros [H _]. exact H. Qed.
Lemma soc_tail a b : same_or_closed a b -> tail b = tail a.
Proof. intros [_ H]. unfold tail. now rewrite H. Qed.
Lemma soc_refl a : same_or_closed a a.  Proof. split; reflexivity. Qed.
Lemma soc_close a : same_or_closed a (close a).  Proof. split; reflexivity. Qed.
Lemma soc_grow a n : same_or_closed a (grow n a).  Proof. split; reflexivity. Qed.

Lemma rm_apply_chan s r s1 o c : rm_apply s r = (s1, o) -> same_or_closed (chan_at s c) (chan_at s1 c).
Proof.
  intros H. apply rm_apply_spec in H. destruct H; try apply soc_refl.
  destruct (Nat.eq_dec c (e_ch e)) as [->|Hne].
  - destruct (Nat.lt_ge_cases (e_ch e) (length (chans s))) as [Hlt|Hge].
    + rewrite chan_at_set_same by assumption. apply soc_close.
    + unfold chan_at, set_chan. cbn. rewrite !nth_overflow; rewrite ?length_upd; try lia. apply soc_refl.
  - rewrite chan_at_set_other by assumption. apply soc_refl.
Qed.

Lemma rm_sender_chan s r c' : same_or_closed (chan_at s c') (chan_at (rm_sender s r) c').
Proof.
  unfold rm_sender. destruct (chan_of_key (senders s) (KRule r)) as [c|]; [|apply soc_refl]. destruct (Nat.eq_dec c' c) as [->|Hne].
  - destruct (Nat.lt_ge_cases c (length (chans s))) as [Hlt|Hge].
    + rewrite chan_at_set_same by assumption. apply soc_close.
    + unfold chan_at, set_chan. cbn. rewrite !nth_overflow; rewrite ?length_upd; try lia. apply soc_refl.
  - rewrite chan_at_set_other by assumption. apply soc_refl.
Qed.

Lemma close_all_chan s c : same_or_closed (chan_at s c) (chan_at (with_chans s (close_all s)) c).
Proof.
  destruct (Nat.lt_ge_cases c (length (chans s))) as [Hlt|Hge].
  - rewrite chan_at_close_all by assumption. destruct (mem_nat c (map snd (senders s))); [apply soc_close | apply soc_refl].
  - unfold chan_at. cbn. rewrite !nth_overflow; rewrite ?length_close_all; try lia. apply soc_refl.
Qed.

(* ---- who owns the receivers ---- *)
Definition own_cur (s : sys) : Prop :=
  forall c id p, c < length (chans s) -> cursor (chan_at s c) id = Some p ->
    p <= tail (chan_at s c) /\ ((exists st, lookup (streams s) id = Some st /\ s_ch st = c) \/ (exists r, a2 s id r c)).
Definition own_stream (s : sys) : Prop :=
  forall sid st, lookup (streams s) sid = Some st ->
    s_ch st < length (chans s) /\ (exists p, cursor (chan_at s (s_ch st)) sid = Some p) /\ (s_rule st = None -> s_ch st = 0).

(* steps that move no cursor and touch neither the stream table nor the calls in A2 *)
Lemma own_frame s s' : own_cur s /\ own_stream s -> length (chans s') = length (chans s) ->
  (forall c id, c < length (chans s) -> cursor (chan_at s' c) id = cursor (chan_at s c) id /\ tail (chan_at s c) <= tail (chan_at s' c)) ->
  streams s' = streams s -> (forall sid r c, a2 s sid r c -> a2 s' sid r c) -> own_cur s' /\ own_stream s'.
Proof.
  intros [Icur Istr] Hlen Hch Hst Ha2. split.
  - intros c id p Hc Hcur. rewrite Hlen in Hc. destruct (Hch c id Hc) as [E Ht]. rewrite E in Hcur.
    destruct (Icur _ _ _ Hc Hcur) as [Hp Ho]. split; [lia|]. rewrite Hst. destruct Ho as [Ho|(r & Ho)]; [now left | right; eauto].
  - intros sid st Hl. rewrite Hst in Hl. destruct (Istr _ _ Hl) as (Hc & (p & Hp) & Hn). rewrite Hlen. split; [assumption|]. split; [|assumption].
    exists p. now rewrite (proj1 (Hch _ sid Hc)).
Qed.

Lemma a2_fwd_put s s' sid a sid' r c : adds s' = put (adds s) sid a -> (forall a0, lookup (adds s) sid = Some a0 -> forall c0, a_pc a0 <> A2 c0) ->
  a2 s sid' r c -> a2 s' sid' r c.
Proof.
  unfold a2. intros -> Hpc (a' & Ha & Hr & Hp). destruct (Nat.eq_dec sid' sid) as [->|Hne].
  - destruct (Hpc _ Ha c Hp).
  - exists a'. rewrite lookup_put_other by assumption. tauto.
Qed.
Lemma a2_fwd_del s s' sid sid' r c : adds s' = del (adds s) sid -> (forall a0, lookup (adds s) sid = Some a0 -> forall c0, a_pc a0 <> A2 c0) ->
  a2 s sid' r c -> a2 s' sid' r c.
Proof.
  unfold a2. intros -> Hpc (a' & Ha & Hr & Hp). destruct (Nat.eq_dec sid' sid) as [->|Hne].
  - destruct (Hpc _ Ha c Hp).
  - exists a'. rewrite lookup_del_other by assumption. tauto.
Qed.


(* a stream value goes away *)
Lemma own_bury s sid st : own_cur s /\ own_stream s -> lookup (streams s) sid = Some st ->
  own_cur (bury s sid st) /\ own_stream (bury s sid st).
Proof.
  intros [Icur Istr] Hl. destruct (Istr _ _ Hl) as (Hc & _ & _). split.
  - intros c id p Hlt Hcur. rewrite chans_bury, length_upd in Hlt. rewrite streams_bury. autorewrite with chat in *.
    assert (Ha2 : forall r, a2 (bury s sid st) id r c <-> a2 s id r c) by (intros r; unfold a2; now rewrite adds_bury).
    destruct (Nat.eq_dec c (s_ch st)) as [->|Hne].
    + rewrite chan_at_set_same in * by assumption. destruct (Nat.eq_dec id sid) as [->|Hid]; [now rewrite cursor_drop_same in Hcur|].
      rewrite cursor_drop_other in Hcur by assumption. destruct (Icur _ _ _ Hlt Hcur) as [Hp Ho]. split; [exact Hp|].
      destruct Ho as [(st' & Hs' & Hc')|(r & Ha)]; [left | right; exists r; now apply Ha2]. exists st'. now rewrite lookup_del_other.
    + rewrite chan_at_set_other in * by assumption. destruct (Icur _ _ _ Hlt Hcur) as [Hp Ho]. split; [exact Hp|].
      destruct Ho as [(st' & Hs' & Hc')|(r & Ha)]; [left | right; exists r; now apply Ha2]. exists st'. split; [|assumption].
      rewrite lookup_del_other; [assumption|]. intros ->. rewrite Hl in Hs'. inversion Hs'; subst. congruence.
  - intros sid' st' Hl'. rewrite streams_bury in Hl'. rewrite chans_bury, length_upd. autorewrite with chat.
    destruct (Nat.eq_dec sid' sid) as [->|Hid]; [now rewrite lookup_del_same in Hl'|].
    rewrite lookup_del_other in Hl' by assumption. destruct (Istr _ _ Hl') as (Hc' & (p & Hp) & Hn).
    split; [assumption|]. split; [|assumption]. exists p. destruct (Nat.eq_dec (s_ch st') (s_ch st)) as [E|Hne].
    + rewrite E in *. rewrite chan_at_set_same by assumption. now rewrite cursor_drop_other.
    + now rewrite chan_at_set_other.
Qed.

Ltac tsimp :=
  repeat match goal with x := _ |- _ => subst x end;
  cbn [chans senders subs streams adds drops tasks reader socket incoming dead arcs
       with_chans with_senders with_subs with_streams with_adds with_drops with_tasks with_reader with_socket with_incoming
       with_dead with_arcs mk_stream got_more add_at s_rule s_ch s_from s_got a_rule a_q a_pc] in *.

Lemma a2_same_adds s s' : adds s' = adds s -> forall sid r c, a2 s sid r c -> a2 s' sid r c.
Proof. unfold a2. intros ->. tauto. Qed.

Lemma chans_set_chan s c x : chans (set_chan s c x) = upd (chans s) c x.  Proof. reflexivity. Qed.

(* a new receiver on an existing channel (at the tail: subscribe; at another receiver's position: clone), owned by a new stream *)
Lemma own_newrcv s sid c chn q stn : own_cur s /\ own_stream s -> c < length (chans s) ->
  lookup (streams s) sid = None -> (forall r' c', ~ a2 s sid r' c') ->
  (forall id, cursor chn id = match cursor (chan_at s c) id with Some p => Some p | None => if Nat.eqb sid id then Some q else None end) ->
  tail chn = tail (chan_at s c) -> q <= tail chn -> s_ch stn = c -> (s_rule stn = None -> c = 0) ->
  forall s', chans s' = upd (chans s) c chn -> streams s' = put (streams s) sid stn ->
    (forall sid' r' c', sid' <> sid -> a2 s sid' r' c' -> a2 s' sid' r' c') ->
    own_cur s' /\ own_stream s'.
Proof.
  intros [Icur Istr] Hc Hnew Hna2 Hcur1 Htail1 Hq Hch Hr0 s' Ech Estr Ha2.
  assert (Hat : forall c', chan_at s' c' = if Nat.eqb c' c then chn else chan_at s c').
  { intros c'. unfold chan_at. rewrite Ech. destruct (Nat.eqb c' c) eqn:E.
    - apply Nat.eqb_eq in E. subst. now apply nth_upd_same.
    - apply Nat.eqb_neq in E. now apply nth_upd_other. }
  assert (Hnocur : forall c', c' < length (chans s) -> cursor (chan_at s c') sid = None).
  { intros c' Hc'. destruct (cursor (chan_at s c') sid) as [p|] eqn:E; [|reflexivity].
    destruct (Icur _ _ _ Hc' E) as [_ [(st & Hs & _)|(r' & Ha)]]; [congruence | destruct (Hna2 _ _ Ha)]. }
  split.
  - intros c' id p Hlt Hcur. rewrite Ech, length_upd in Hlt. rewrite Hat in *. rewrite Estr. destruct (Nat.eqb c' c) eqn:E.
    + apply Nat.eqb_eq in E. subst c'. rewrite Hcur1 in Hcur. rewrite Htail1 in *.
      destruct (cursor (chan_at s c) id) as [q0|] eqn:Eq.
      * inversion Hcur; subst q0. destruct (Icur _ _ _ Hlt Eq) as [Hp Ho]. split; [exact Hp|].
        assert (id <> sid) by (intros ->; rewrite (Hnocur _ Hlt) in Eq; discriminate).
        destruct Ho as [(st' & Hs' & Hc')|(r' & Ha)]; [left; exists st'; now rewrite lookup_put_other | right; exists r'; now apply Ha2].
      * destruct (Nat.eqb sid id) eqn:Ei; [|discriminate]. apply Nat.eqb_eq in Ei. subst id. inversion Hcur; subst p. split; [lia|].
        left. exists stn. rewrite lookup_put_same. split; [reflexivity | assumption].
    + destruct (Icur _ _ _ Hlt Hcur) as [Hp Ho]. split; [exact Hp|].
      assert (id <> sid) by (intros ->; rewrite (Hnocur _ Hlt) in Hcur; discriminate).
      destruct Ho as [(st' & Hs' & Hc')|(r' & Ha)]; [left; exists st'; now rewrite lookup_put_other | right; exists r'; now apply Ha2].
  - intros sid' st' Hl'. rewrite Estr in Hl'. rewrite Ech, length_upd. rewrite Hat. destruct (Nat.eq_dec sid' sid) as [->|Hne].
    + rewrite lookup_put_same in Hl'. inversion Hl'; subst st'. rewrite Hch, Nat.eqb_refl. split; [assumption|]. split; [|assumption].
      rewrite Hcur1, (Hnocur _ Hc), Nat.eqb_refl. eauto.
    + rewrite lookup_put_other in Hl' by assumption. destruct (Istr _ _ Hl') as (Hc' & (p & Hp) & Hn). split; [assumption|]. split; [|assumption].
      destruct (Nat.eqb (s_ch st') c) eqn:E; [|eauto]. apply Nat.eqb_eq in E. rewrite E in *. rewrite Hcur1, Hp. eauto.
Qed.

Lemma no_a2_pc s sid a : lookup (adds s) sid = Some a -> (forall c, a_pc a <> A2 c) -> forall r c, ~ a2 s sid r c.
Proof. intros Ha Hpc r c (a' & Ha' & _ & Hp). rewrite Ha in Ha'. inversion Ha'; subst. exact (Hpc _ Hp). Qed.
Lemma no_a2_none s sid : lookup (adds s) sid = None -> forall r c, ~ a2 s sid r c.
Proof. intros Ha r c (a' & Ha' & _). congruence. Qed.


(* ---- a registered channel that is closed has no receiver and belongs to no subscription ---- *)
Definition closed_ok (s : sys) : Prop :=
  forall k c, In (k, c) (senders s) -> closed (chan_at s c) = true ->
    2 <= c /\ rcv (chan_at s c) = [] /\ (forall r e, lookup (subs s) r = Some e -> e_ch e <> c).

Lemma closed_bury s sid st : closed_ok s -> own_stream s -> lookup (streams s) sid = Some st -> closed_ok (bury s sid st).
Proof.
  intros Hc Hos Hl k c Hin Hcl. destruct (Hos _ _ Hl) as (Hlt & (p & Hp) & _).
  change (senders (bury s sid st)) with (senders s) in Hin. change (subs (bury s sid st)) with (subs s).
  autorewrite with chat in *. destruct (Nat.eq_dec c (s_ch st)) as [->|Hne].
  - rewrite chan_at_set_same in * by assumption. rewrite closed_drop in Hcl. destruct (Hc _ _ Hin Hcl) as (_ & Hr & _).
    exfalso. eapply cursor_some_rcv; eassumption.
  - rewrite chan_at_set_other in * by assumption. exact (Hc _ _ Hin Hcl).
Qed.

(* a channel whose receivers or capacity change, but not its closed flag *)
Lemma closed_upd s c x : closed_ok s -> c < length (chans s) -> closed x = closed (chan_at s c) ->
  (closed (chan_at s c) = true -> forall k, In (k, c) (senders s) -> False) ->
  forall s', chans s' = upd (chans s) c x -> senders s' = senders s -> (forall r e', lookup (subs s') r = Some e' -> exists e, lookup (subs s) r = Some e /\ e_ch e' = e_ch e) ->
  closed_ok s'.
Proof.
  intros Hc Hlt Hx Hno s' Ech Esnd Esub k c0 Hin Hcl. rewrite Esnd in Hin.
  assert (Hat : chan_at s' c0 = if Nat.eqb c0 c then x else chan_at s c0).
  { unfold chan_at. rewrite Ech. destruct (Nat.eqb c0 c) eqn:E; [apply Nat.eqb_eq in E; subst; now apply nth_upd_same | apply Nat.eqb_neq in E; now apply nth_upd_other]. }
  rewrite Hat in *. destruct (Nat.eqb c0 c) eqn:E.
  - apply Nat.eqb_eq in E. subst c0. rewrite Hx in Hcl. destruct (Hno Hcl _ Hin).
  - destruct (Hc _ _ Hin Hcl) as (H2 & Hr & He). split; [assumption|]. split; [assumption|]. intros r e' He'. destruct (Esub _ _ He') as (e & He0 & Hch). rewrite Hch. eauto.
Qed.

Lemma closed_same s s' : closed_ok s -> chans s' = chans s -> senders s' = senders s ->
  (forall r e', lookup (subs s') r = Some e' -> exists e, lookup (subs s) r = Some e /\ e_ch e' = e_ch e) -> closed_ok s'.
Proof.
  intros Hc Ech Esnd Esub k c Hin Hcl. rewrite Esnd in Hin. unfold chan_at in *. rewrite Ech in *.
  destruct (Hc _ _ Hin Hcl) as (H2 & Hr & He). split; [assumption|]. split; [assumption|]. intros r e' He'.
  destruct (Esub _ _ He') as (e & He0 & Hch). rewrite Hch. eauto.
Qed.

Lemma chan_of_key_in l k c : chan_of_key l k = Some c -> In (k, c) l.
Proof.
  unfold chan_of_key. destruct (find (fun p => key_eqb (fst p) k) l) as [[k' c']|] eqn:E; [|discriminate]. cbn. intros H; inversion H; subst.
  apply find_some in E. destruct E as [Hin Hk]. cbn in Hk. apply key_eqb_eq in Hk. now subst.
Qed.

Section G2.
Variable matches : nat -> msg -> bool.
Notation tstep := (Steps.tstep matches).
Notation Inv := (Inv.Inv matches).
Notation targets := (Model.targets matches).
Notation key_matches := (Model.key_matches matches).

(* ---- the last message read is the last of `incoming` ---- *)
Lemma g_last_step s l s' : tstep s l s' -> Inv s ->
  forall m, reader s' = RHave (IMsg m) \/ (exists todo, reader s' = RPush (IMsg m) todo) -> exists pre, incoming s' = pre ++ [m].
Proof.
  intros Hs I m Hrd. pose proof (inv_last _ _ I) as Hold.
  destruct Hs; simp; try (exact (Hold _ Hrd)); try (rm_frame; rewrite ?Erd, ?Einc in *; simp; rewrite ?Erd, ?Einc in *; exact (Hold _ Hrd)).
  - (* read *) destruct Hrd as [E|(todo & E)]; [inversion E; subst; eauto | discriminate].
  - destruct Hrd as [E|(todo & E)]; discriminate.
  - (* fan *) destruct Hrd as [E|(todo' & E)]; [discriminate|]. inversion E; subst. apply Hold. now left.
  - (* push *) destruct Hrd as [E|(todo' & E)]; [discriminate|]. inversion E; subst. apply Hold. right. eauto.
  - destruct Hrd as [E|(todo' & E)]; [discriminate|]. inversion E; subst. apply Hold. right. eauto.
  - destruct Hrd as [E|(todo' & E)]; discriminate.
  - destruct Hrd as [E|(todo' & E)]; discriminate.
Qed.

(* ---- the channels a message has to go to are pairwise different ---- *)
Lemma targets_in senders it c : In c (targets senders it) -> exists k, In (k, c) senders /\ key_matches k it = true.
Proof.
  unfold Model.targets. intros H. apply in_map_iff in H. destruct H as ([k c'] & E & H). cbn in E. subst c'.
  apply filter_In in H. exists k. tauto.
Qed.

Lemma targets_nodup s m : Inv s -> NoDup (targets (senders s) (IMsg m)).
Proof.
  intros I. pose proof (inv_keys _ _ I) as Hk. pose proof (inv_shape _ _ I) as Hsh. pose proof (inv_inj _ _ I) as Hinj.
  unfold Model.targets.
  assert (G : forall l, NoDup (map fst l) -> (forall k c, In (k, c) l -> In (k, c) (senders s)) ->
                NoDup (map snd (filter (fun p => key_matches (fst p) (IMsg m)) l))).
  { induction l as [|[k c] l IH]; intros Hnd Hsub; cbn [filter map fst snd]; [constructor|]. inversion Hnd as [|? ? H1 Hnd']; subst.
    assert (IH' := IH Hnd' (fun k0 c0 H => Hsub k0 c0 (or_intror H))).
    destruct (key_matches k (IMsg m)) eqn:Em; [|exact IH']. cbn [filter map fst snd]. constructor; [|exact IH'].
    intros Hin. apply in_map_iff in Hin. destruct Hin as ([k' c'] & Ec & Hin). cbn in Ec. subst c'. apply filter_In in Hin.
    destruct Hin as [Hin Em']. cbn in Em'. apply H1. apply in_map_iff. exists (k', c). split; [|assumption]. cbn.
    pose proof (Hsub k c (or_introl eq_refl)) as Hkc. pose proof (Hsub k' c (or_intror Hin)) as Hkc'.
    destruct (Hsh _ _ Hkc) as [_ S1]. destruct (Hsh _ _ Hkc') as [_ S2].
    destruct k, k'; try reflexivity; try lia; cbn in Em, Em'.
    - destruct (m_type m); discriminate.
    - destruct (m_type m); discriminate.
    - f_equal. eapply Hinj; eassumption. }
  apply G; [assumption | tauto].
Qed.

Lemma g_todo_step s l s' : tstep s l s' -> Inv s -> forall it todo, reader s' = RPush it todo ->
  (forall c, In c todo -> exists k, In (k, c) (senders s') /\ key_matches k it = true) /\ (forall m, it = IMsg m -> NoDup todo).
Proof.
  intros Hs I it0 todo0 Hrd. pose proof (inv_todo _ _ I) as Hold.
  assert (Hheld : forall it t, reader s = RPush it t -> senders_held s = false -> False).
  { intros it t E. unfold senders_held. rewrite E. discriminate. }
  destruct Hs; simp; try (exact (Hold _ _ Hrd)); try discriminate;
    try (rm_frame; rewrite ?Erd, ?Esnd in *; simp; rewrite ?Erd, ?Esnd in *; exact (Hold _ _ Hrd));
    try (exfalso; eapply Hheld; eassumption).
  - (* fan *) inversion Hrd; subst. apply is_perm_spec in H0. split.
    + intros c Hc. apply targets_in. eapply Permutation_in; eassumption.
    + intros m ->. eapply Permutation_NoDup; [symmetry; eassumption | now apply targets_nodup].
  - (* push *) inversion Hrd; subst. destruct (Hold _ _ H) as [H1 H2]. split.
    + intros c0 Hc0. apply H1. now right.
    + intros m ->. specialize (H2 m eq_refl). now inversion H2.
  - inversion Hrd; subst. destruct (Hold _ _ H) as [H1 H2]. split.
    + intros c0 Hc0. apply H1. now right.
    + intros m ->. specialize (H2 m eq_refl). now inversion H2.
Qed.

Lemma Inv_own s : Inv s -> own_cur s /\ own_stream s.
Proof. intros I. split; [exact (inv_cur _ _ I) | exact (inv_stream _ _ I)]. Qed.

Lemma g_own_step s l s' : tstep s l s' -> Inv s -> own_cur s' /\ own_stream s'.
Proof.
  intros Hs I. pose proof (Inv_own _ I) as O. pose proof (inv_len _ _ I) as Hlen2.
  assert (Hsoc : forall s1, length (chans s1) = length (chans s) -> (forall c, same_or_closed (chan_at s c) (chan_at s1 c)) ->
                   streams s1 = streams s -> adds s1 = adds s -> own_cur s1 /\ own_stream s1).
  { intros s1 El Hch Es Ea. apply (own_frame s); try assumption.
    - intros c id _. rewrite (soc_cursor _ _ id (Hch c)), (soc_tail _ _ (Hch c)). split; [reflexivity | lia].
    - now apply a2_same_adds. }
  assert (Hsame : forall s1, chans s1 = chans s -> streams s1 = streams s -> (forall sid r c, a2 s sid r c -> a2 s1 sid r c) -> own_cur s1 /\ own_stream s1).
  { intros s1 Ec Es Ha. apply (own_frame s); try assumption; [now rewrite Ec|]. intros c id _. unfold chan_at. rewrite Ec. split; [reflexivity | lia]. }
  destruct Hs.
  - apply Hsame; try reflexivity. tauto.
  - apply Hsame; try reflexivity. tauto.
  - apply Hsame; try reflexivity. tauto.
  - apply Hsame; try reflexivity. tauto.
  - (* push *) apply try_push_pushed in H0. destruct H0 as (Hl & Hr & _). apply (own_frame s); try assumption; tsimp; try reflexivity; try tauto.
    + now rewrite chans_set_chan, length_upd.
    + intros c0 id Hc0. autorewrite with chat. destruct (Nat.eq_dec c0 c) as [->|Hne].
      * rewrite chan_at_set_same by assumption. unfold cursor, tail. rewrite Hr, Hl, app_length. split; [reflexivity | lia].
      * rewrite chan_at_set_other by assumption. split; [reflexivity | lia].
  - apply Hsame; try reflexivity. tauto.
  - apply Hsame; try reflexivity. tauto.
  - (* next, failure *) apply Hsoc; tsimp; try reflexivity; [apply length_close_all|]. intros c. autorewrite with chat. apply close_all_chan.
  - (* add start *) apply Hsame; try reflexivity. intros sid' r' c'. apply fresh_spec in H. eapply a2_fwd_put; [reflexivity|]. intros a0 Ha0. destruct H as (_ & Hn & _). congruence.
  - apply Hsame; try reflexivity. intros sid' r' c'. eapply a2_fwd_del; [reflexivity|]. intros a0 Ha0 c0. rewrite H in Ha0. inversion Ha0; subst. congruence.
  - apply Hsame; try reflexivity. intros sid' r' c'. eapply a2_fwd_put; [reflexivity|]. intros a0 Ha0 c0. rewrite H in Ha0. inversion Ha0; subst. congruence.
  - (* occupied *) destruct (inv_entry _ _ I _ _ H2) as [_ Hc]. subst c ch1 s1 s2.
    set (ch1 := match a_q a with Some n => grow n (chan_at s (e_ch e)) | None => chan_at s (e_ch e) end).
    assert (Et : tail ch1 = tail (chan_at s (e_ch e))) by (unfold ch1; destruct (a_q a); reflexivity).
    assert (E1 : forall id, cursor (subscribe sid ch1) id =
                   match cursor (chan_at s (e_ch e)) id with Some p => Some p | None => if Nat.eqb sid id then Some (tail (chan_at s (e_ch e))) else None end).
    { intros id. rewrite cursor_subscribe, Et. unfold ch1. destruct (a_q a); reflexivity. }
    assert (Hna : forall r' c', ~ a2 s sid r' c') by (eapply no_a2_pc; [eassumption|]; intros c0; congruence).
    assert (Etl : tail (subscribe sid ch1) = tail (chan_at s (e_ch e))) by now rewrite tail_subscribe.
    assert (Hq : tail (chan_at s (e_ch e)) <= tail (subscribe sid ch1)) by (rewrite Etl; lia).
    pose proof (own_newrcv s sid (e_ch e) (subscribe sid ch1) (tail (chan_at s (e_ch e))) (mk_stream (Some (a_rule a)) (e_ch e) (seen s (e_ch e)))
              O Hc (inv_ids _ _ I _ _ H) Hna E1 Etl Hq eq_refl ltac:(discriminate)) as K.
    apply K; [reflexivity | reflexivity |].
    intros sid' r' c' Hne. eapply a2_fwd_del; [reflexivity|]. intros a0 Ha0 c0. rewrite H in Ha0. inversion Ha0; subst. congruence.
  - (* vacant *) tsimp. destruct O as [Icur Istr]. split.
    + intros c id p Hlt Hcur. tsimp. rewrite app_length in Hlt. cbn [length] in Hlt. autorewrite with chat in Hcur. autorewrite with chat.
      destruct (Nat.eq_dec c (length (chans s))) as [->|Hne].
      * rewrite chan_at_app_new in *. unfold cursor, subscribe, with_rcv, new_chan in Hcur. cbn in Hcur.
        destruct (Nat.eqb sid id) eqn:E; [|discriminate]. apply Nat.eqb_eq in E. subst id. inversion Hcur; subst p. split; [lia|].
        right. exists (a_rule a). unfold a2. tsimp. exists (add_at a (A2 (length (chans s)))). rewrite lookup_put_same. repeat split.
      * assert (Hc' : c < length (chans s)) by lia. rewrite chan_at_app_old in * by assumption. destruct (Icur _ _ _ Hc' Hcur) as [Hp Ho]. split; [exact Hp|].
        destruct Ho as [Ho|(r' & Ha)]; [now left | right]. exists r'. eapply a2_fwd_put; [reflexivity | | exact Ha].
        intros a0 Ha0 c0. rewrite H in Ha0. inversion Ha0; subst. congruence.
    + intros sid' st' Hl'. tsimp. destruct (Istr _ _ Hl') as (Hc' & (p & Hp) & Hn). rewrite app_length. cbn [length]. split; [lia|]. split; [|assumption].
      autorewrite with chat. rewrite chan_at_app_old by assumption. eauto.
  - (* add sender *) tsimp. destruct O as [Icur Istr]. destruct (inv_a2 _ _ I sid (a_rule a) c) as (_ & _ & _ & _ & Hcur0 & Hc & _); [exists a; tauto|].
    pose proof (inv_ids _ _ I _ _ H) as Hnone. split.
    + intros c' id p Hlt Hcur. tsimp. autorewrite with chat in *. destruct (Icur _ _ _ Hlt Hcur) as [Hp Ho]. split; [exact Hp|].
      destruct (Nat.eq_dec id sid) as [->|Hne].
      * left. eexists. rewrite lookup_put_same. split; [reflexivity|]. cbn. destruct Ho as [(st' & Hs' & _)|(r' & a' & Ha' & _ & Hp')]; [congruence|].
        rewrite H in Ha'. inversion Ha'; subst. congruence.
      * destruct Ho as [(st' & Hs' & Hc')|(r' & Ha)]; [left; exists st'; now rewrite lookup_put_other | right]. exists r'.
        eapply a2_fwd_del; [reflexivity | | exact Ha]. intros a0 Ha0 c0 Hpc. apply Hne. eapply (inv_a2_uniq _ _ I); [exact Ha | exists a0; eauto].
    + intros sid' st' Hl'. tsimp. autorewrite with chat. destruct (Nat.eq_dec sid' sid) as [->|Hne].
      * rewrite lookup_put_same in Hl'. inversion Hl'; subst st'. cbn. split; [lia|]. split; [eauto | discriminate].
      * rewrite lookup_put_other in Hl' by assumption. exact (Istr _ _ Hl').
  - (* unfiltered *) apply fresh_spec in H. destruct H as (Hn1 & Hn2 & _).
    assert (E1 : forall id, cursor (subscribe sid (chan_at s 0)) id =
                   match cursor (chan_at s 0) id with Some p => Some p | None => if Nat.eqb sid id then Some (tail (chan_at s 0)) else None end).
    { intros id. now rewrite cursor_subscribe. }
    assert (Hq : tail (chan_at s 0) <= tail (subscribe sid (chan_at s 0))) by (rewrite tail_subscribe; lia).
    pose proof (own_newrcv s sid 0 (subscribe sid (chan_at s 0)) (tail (chan_at s 0)) (mk_stream None 0 (seen s 0))
              O ltac:(lia) Hn1 (no_a2_none _ _ Hn2) E1 eq_refl Hq eq_refl (fun _ => eq_refl)) as K.
    apply K; [reflexivity | reflexivity |]. intros sid' r' c' _. tauto.
  - (* poll *) destruct H as [Hl Hd]. apply try_recv_got in H0. destruct H0 as (p0 & Hc0 & Hn0 & Hlog & Hcl & Hci & Hco). tsimp.
    destruct O as [Icur Istr]. destruct (Istr _ _ Hl) as (Hc & _ & Hnone). split.
    + intros c id p Hlt Hcur. tsimp. rewrite chans_set_chan, length_upd in Hlt. autorewrite with chat in *. destruct (Nat.eq_dec c (s_ch st)) as [->|Hne].
      * rewrite chan_at_set_same in * by assumption. unfold tail. rewrite Hlog. destruct (Nat.eq_dec id sid) as [->|Hid].
        -- rewrite Hci in Hcur. inversion Hcur; subst p. assert (p0 < length (log (chan_at s (s_ch st)))) by (apply nth_error_Some; congruence).
           split; [lia|]. left. eexists. rewrite lookup_put_same. split; reflexivity.
        -- rewrite (Hco _ Hid) in Hcur. destruct (Icur _ _ _ Hlt Hcur) as [Hp Ho]. split; [exact Hp|].
           destruct Ho as [(st' & Hs' & Hc')|Ho]; [left; exists st'; now rewrite lookup_put_other | now right].
      * rewrite chan_at_set_other in * by assumption. destruct (Icur _ _ _ Hlt Hcur) as [Hp Ho]. split; [exact Hp|].
        destruct Ho as [(st' & Hs' & Hc')|Ho]; [left | now right]. exists st'. split; [|assumption]. rewrite lookup_put_other; [assumption|].
        intros ->. rewrite Hl in Hs'. inversion Hs'; subst. congruence.
    + intros sid' st' Hl'. tsimp. rewrite chans_set_chan, length_upd. autorewrite with chat. destruct (Nat.eq_dec sid' sid) as [->|Hne].
      * rewrite lookup_put_same in Hl'. inversion Hl'; subst st'. cbn [s_ch s_rule got_more]. split; [assumption|]. split; [|assumption].
        rewrite chan_at_set_same by assumption. eauto.
      * rewrite lookup_put_other in Hl' by assumption. destruct (Istr _ _ Hl') as (Hc' & (p & Hp) & Hn). split; [assumption|]. split; [|assumption].
        destruct (Nat.eq_dec (s_ch st') (s_ch st)) as [E|Hne2].
        -- rewrite E in *. rewrite chan_at_set_same by assumption. rewrite (Hco _ Hne). eauto.
        -- rewrite chan_at_set_other by assumption. eauto.
  - exact O.
  - (* drop *) destruct H as [Hl Hd]. exact (own_bury s sid st O Hl).
  - destruct H as [Hl Hd]. exact (own_bury s sid st O Hl).
  - (* clone *) destruct H as [Hl Hd]. apply fresh_spec in H0. destruct H0 as (Hn1 & Hn2 & _). pose proof O as O'. destruct O' as [Icur Istr].
    destruct (Istr _ _ Hl) as (Hc & (p0 & Hp0) & Hnone). destruct (Icur _ _ _ Hc Hp0) as [Hle _].
    assert (E1 : forall id, cursor (clone_rcv sid sid2 (chan_at s (s_ch st))) id =
                   match cursor (chan_at s (s_ch st)) id with Some p => Some p | None => if Nat.eqb sid2 id then Some p0 else None end).
    { intros id. rewrite cursor_clone. destruct (cursor (chan_at s (s_ch st)) id); [reflexivity|]. destruct (Nat.eqb sid2 id); [assumption | reflexivity]. }
    assert (Et : tail (clone_rcv sid sid2 (chan_at s (s_ch st))) = tail (chan_at s (s_ch st))) by (unfold tail; now rewrite log_clone).
    assert (Hq : p0 <= tail (clone_rcv sid sid2 (chan_at s (s_ch st)))) by (rewrite Et; exact Hle).
    pose proof (own_newrcv s sid2 (s_ch st) (clone_rcv sid sid2 (chan_at s (s_ch st))) p0 st
              O Hc Hn1 (no_a2_none _ _ Hn2) E1 Et Hq eq_refl Hnone) as K.
    apply K; [reflexivity | reflexivity |]. intros sid' r' c' _. tauto.
  - (* set capacity *) destruct H as [Hl Hd]. apply Hsoc; tsimp; try reflexivity; [now rewrite chans_set_chan, length_upd|].
    intros c. destruct (Nat.eq_dec c (s_ch st)) as [->|Hne]; [|rewrite chan_at_set_other by assumption; apply soc_refl].
    destruct (inv_stream _ _ I _ _ Hl) as (Hc & _). rewrite chan_at_set_same by assumption. apply soc_grow.
  - (* async drop starts: as drop *) destruct H as [Hl Hd]. exact (own_bury s sid st O Hl).
  - destruct H as [Hl Hd]. exact (own_bury s sid st O Hl).
  - (* async drop, subs, done *) pose proof (rm_apply_frame _ _ _ _ H3) as (_ & Estr & Eadd & _).
    assert (O1 : own_cur s1 /\ own_stream s1).
    { pose proof (fun c0 => rm_apply_chan _ _ _ _ c0 H3) as Hch. apply rm_apply_spec, rm_spec_tables in H3. destruct H3 as (_ & _ & _ & _ & _ & Hl0 & _).
      apply Hsoc; [exact Hl0 | exact Hch | exact Estr | exact Eadd]. }
    assert (Hl1 : lookup (streams s1) sid = Some st) by now rewrite Estr.
    exact (own_bury s1 sid st O1 Hl1).
  - (* wait *) pose proof (rm_apply_frame _ _ _ _ H3) as (_ & Estr & Eadd & _).
    pose proof (fun c0 => rm_apply_chan _ _ _ _ c0 H3) as Hch. apply rm_apply_spec, rm_spec_tables in H3. destruct H3 as (_ & _ & _ & _ & _ & Hl & _).
    apply Hsoc; [exact Hl | exact Hch | exact Estr | exact Eadd].
  - (* async drop, sender *)
    assert (O1 : own_cur (rm_sender s r) /\ own_stream (rm_sender s r)).
    { apply Hsoc; [apply length_chans_rm | intros c0; apply rm_sender_chan | apply streams_rm | apply adds_rm]. }
    assert (Hl1 : lookup (streams (rm_sender s r)) sid = Some st) by now rewrite streams_rm.
    exact (own_bury (rm_sender s r) sid st O1 Hl1).
  - pose proof (rm_apply_frame _ _ _ _ H1) as (_ & Estr & Eadd & _).
    pose proof (fun c0 => rm_apply_chan _ _ _ _ c0 H1) as Hch. apply rm_apply_spec, rm_spec_tables in H1. destruct H1 as (_ & _ & _ & _ & _ & Hl & _).
    apply Hsoc; [exact Hl | exact Hch | exact Estr | exact Eadd].
  - pose proof (rm_apply_frame _ _ _ _ H1) as (_ & Estr & Eadd & _).
    pose proof (fun c0 => rm_apply_chan _ _ _ _ c0 H1) as Hch. apply rm_apply_spec, rm_spec_tables in H1. destruct H1 as (_ & _ & _ & _ & _ & Hl & _).
    apply Hsoc; [exact Hl | exact Hch | exact Estr | exact Eadd].
  - apply Hsoc; tsimp; [apply length_chans_rm | intros c0; autorewrite with chat; apply rm_sender_chan | apply streams_rm | apply adds_rm].
  - (* add sender, failed: the call's receiver goes, nothing else is touched *)
    destruct O as [Icur Istr]. assert (Hme : a2 s sid (a_rule a) c) by (exists a; tauto).
    destruct (inv_a2 _ _ I _ _ _ Hme) as (_ & _ & _ & _ & Hcur0 & [Hc2 Hclt] & Hnost). split.
    + intros c' id p Hlt Hcur. tsimp. rewrite chans_set_chan, length_upd in Hlt. autorewrite with chat in *. destruct (Nat.eq_dec c' c) as [->|Hne].
      * rewrite chan_at_set_same in * by assumption. destruct (Nat.eq_dec id sid) as [->|Hid]; [now rewrite cursor_drop_same in Hcur|].
        rewrite cursor_drop_other in Hcur by assumption. rewrite tail_drop. destruct (Icur _ _ _ Hlt Hcur) as [Hp Ho]. split; [exact Hp|].
        destruct Ho as [Ho|(r' & Ha)]; [now left|]. exfalso. apply Hid. eapply (inv_a2_uniq _ _ I); [exact Ha | exact Hme].
      * rewrite chan_at_set_other in * by assumption. destruct (Icur _ _ _ Hlt Hcur) as [Hp Ho]. split; [exact Hp|].
        destruct Ho as [Ho|(r' & Ha)]; [now left|]. exfalso. pose proof (inv_a2_uniq _ _ I _ _ _ _ _ _ Ha Hme) as ->.
        destruct Ha as (a' & Ha' & _ & Hp'). rewrite H in Ha'. inversion Ha'; subst a'. congruence.
    + intros sid' st' Hl'. tsimp. rewrite chans_set_chan, length_upd. autorewrite with chat. destruct (Istr _ _ Hl') as (Hc' & (p & Hp) & Hn).
      split; [assumption|]. split; [|assumption]. rewrite chan_at_set_other by (exact (Hnost _ _ Hl')). eauto.
  - (* drop, shared rule: as drop *) destruct H as [Hl Hd]. exact (own_bury s sid st O Hl).
  - destruct H as [Hl Hd]. exact (own_bury s sid st O Hl).
Qed.

(* ---- a call in A2: its channel is fresh, unregistered, empty, open, and only it has a receiver there ---- *)
Definition a2_facts (s : sys) (sid r c : nat) : Prop :=
  (exists e, lookup (subs s) r = Some e /\ e_ch e = c) /\ (forall k, ~ In (k, c) (senders s)) /\
  log (chan_at s c) = [] /\ closed (chan_at s c) = false /\ cursor (chan_at s c) sid = Some 0 /\
  2 <= c < length (chans s) /\ (forall sid' st, lookup (streams s) sid' = Some st -> s_ch st <> c).

Lemma g_a2_step s l s' : tstep s l s' -> Inv s -> forall sid r c, a2 s' sid r c -> a2_facts s' sid r c.
Proof.
  intros Hs I sid0 r0 c0 Ha'. pose proof (len_mono _ _ _ _ Hs) as Hmono.
  (* the call was already in A2 before the step, unless this step is its own LAddSubs *)
  assert (Hbusy : forall sid r c, a2 s sid r c -> subs_busy s = false -> False) by (intros sid r c Ha Hb; exact (not_busy_a2 s sid r c Hb Ha)).
  destruct Hs.
  - (* arrive *) exact (inv_a2 _ _ I _ _ _ Ha').
  - exact (inv_a2 _ _ I _ _ _ Ha').
  - exact (inv_a2 _ _ I _ _ _ Ha').
  - exact (inv_a2 _ _ I _ _ _ Ha').
  - (* push: not to an unregistered channel *)
    assert (Ha : a2 s sid0 r0 c0) by exact Ha'. destruct (inv_a2 _ _ I _ _ _ Ha) as (F1 & F2 & F3 & F4 & F5 & F6 & F7).
    destruct (inv_todo _ _ I _ _ H) as [Htd _]. destruct (Htd c (or_introl eq_refl)) as (k & Hk & _).
    assert (Hne : c0 <> c) by (intros ->; exact (F2 _ Hk)).
    unfold a2_facts. tsimp. autorewrite with chat. rewrite chans_set_chan, length_upd, chan_at_set_other by assumption. repeat split; try assumption; lia.
  - exact (inv_a2 _ _ I _ _ _ Ha').
  - exact (inv_a2 _ _ I _ _ _ Ha').
  - (* next, failure: only registered channels are closed *)
    assert (Ha : a2 s sid0 r0 c0) by exact Ha'. destruct (inv_a2 _ _ I _ _ _ Ha) as (F1 & F2 & F3 & F4 & F5 & F6 & F7).
    unfold a2_facts. tsimp. autorewrite with chat. rewrite length_close_all. destruct F6 as [F6a F6b]. rewrite chan_at_close_all by assumption.
    assert (Hm : mem_nat c0 (map snd (senders s)) = false).
    { destruct (mem_nat c0 (map snd (senders s))) eqn:E; [|reflexivity]. apply mem_nat_in, in_map_iff in E. destruct E as ([k c1] & E1 & E2).
      cbn in E1. subst c1. destruct (F2 _ E2). }
    rewrite Hm. repeat split; try assumption. intros k [].
  - (* add start *)
    assert (Ha : a2 s sid0 r0 c0) by (eapply a2_put_other with (3 := Ha'); [reflexivity | intros c1; discriminate]).
    destruct (inv_a2 _ _ I _ _ _ Ha) as (F1 & F2 & F3 & F4 & F5 & F6 & F7). unfold a2_facts. tsimp. autorewrite with chat. repeat split; try assumption; lia.
  - assert (Ha : a2 s sid0 r0 c0) by (match type of Ha' with a2 ?s1 _ _ _ => apply (a2_del s s1 sid sid0 r0 c0 eq_refl) in Ha' end; apply Ha').
    destruct (inv_a2 _ _ I _ _ _ Ha) as (F1 & F2 & F3 & F4 & F5 & F6 & F7). unfold a2_facts. tsimp. autorewrite with chat. repeat split; try assumption; lia.
  - assert (Ha : a2 s sid0 r0 c0) by (eapply a2_put_other with (3 := Ha'); [reflexivity | intros c1; cbn; discriminate]).
    destruct (inv_a2 _ _ I _ _ _ Ha) as (F1 & F2 & F3 & F4 & F5 & F6 & F7). unfold a2_facts. tsimp. autorewrite with chat. repeat split; try assumption; lia.
  - (* occupied: needs `subscriptions` *) exfalso. match type of Ha' with a2 ?s1 _ _ _ => apply (a2_del s s1 sid sid0 r0 c0 eq_refl) in Ha' end. destruct Ha' as [Ha' _]. eapply Hbusy; eassumption.
  - (* vacant: this is the call *)
    subst c capacity s1 s2. destruct Ha' as (a' & Ha' & Hr' & Hpc'). tsimp. destruct (Nat.eq_dec sid0 sid) as [->|Hne].
    + rewrite lookup_put_same in Ha'. inversion Ha'; subst a'. cbn in Hr', Hpc'. inversion Hpc'; subst c0. subst r0.
      unfold a2_facts. tsimp. autorewrite with chat. rewrite chan_at_app_new, app_length. cbn [length]. pose proof (inv_len _ _ I).
      repeat split; try lia.
      * eexists. rewrite lookup_put_same. split; reflexivity.
      * intros k Hk. destruct (inv_shape _ _ I _ _ Hk). lia.
      * unfold cursor, subscribe, with_rcv, new_chan. cbn. now rewrite Nat.eqb_refl.
      * intros sid' st Hst. destruct (inv_stream _ _ I _ _ Hst). lia.
    + rewrite lookup_put_other in Ha' by assumption. exfalso. eapply Hbusy; [exists a'; eauto | assumption].
  - (* add sender: it is the only call in A2 and it is over *)
    exfalso. match type of Ha' with a2 ?s1 _ _ _ => apply (a2_del s s1 sid sid0 r0 c0 eq_refl) in Ha' end. destruct Ha' as [Ha' Hne]. apply Hne. eapply (inv_a2_uniq _ _ I); [exact Ha' | exists a; eauto].
  - (* unfiltered *)
    assert (Ha : a2 s sid0 r0 c0) by exact Ha'. destruct (inv_a2 _ _ I _ _ _ Ha) as (F1 & F2 & F3 & F4 & F5 & F6 & F7).
    unfold a2_facts. tsimp. autorewrite with chat. rewrite chans_set_chan, length_upd. rewrite chan_at_set_other by lia. repeat split; try assumption; try lia.
    intros sid' st Hst. destruct (Nat.eq_dec sid' sid) as [->|Hne]; [rewrite lookup_put_same in Hst; inversion Hst; subst; cbn; lia|].
    rewrite lookup_put_other in Hst by assumption. eauto.
  - (* poll *)
    assert (Ha : a2 s sid0 r0 c0) by exact Ha'. destruct (inv_a2 _ _ I _ _ _ Ha) as (F1 & F2 & F3 & F4 & F5 & F6 & F7). destruct H as [Hl Hd].
    unfold a2_facts. tsimp. autorewrite with chat. rewrite chans_set_chan, length_upd. rewrite chan_at_set_other by (apply not_eq_sym; eauto).
    repeat split; try assumption; try lia.
    intros sid' st' Hst. destruct (Nat.eq_dec sid' sid) as [->|Hne]; [rewrite lookup_put_same in Hst; inversion Hst; subst; cbn; eauto|].
    rewrite lookup_put_other in Hst by assumption. eauto.
  - exact (inv_a2 _ _ I _ _ _ Ha').
  - (* drop *)
    assert (Ha : a2 s sid0 r0 c0) by exact Ha'. destruct (inv_a2 _ _ I _ _ _ Ha) as (F1 & F2 & F3 & F4 & F5 & F6 & F7). destruct H as [Hl Hd].
    unfold a2_facts. tsimp. autorewrite with chat. rewrite chans_bury, streams_bury, length_upd. rewrite chan_at_set_other by (apply not_eq_sym; eauto).
    repeat split; try assumption; try lia. intros sid' st' Hst. apply in_del_lookup in Hst. eauto.
  - assert (Ha : a2 s sid0 r0 c0) by exact Ha'. destruct (inv_a2 _ _ I _ _ _ Ha) as (F1 & F2 & F3 & F4 & F5 & F6 & F7). destruct H as [Hl Hd].
    unfold a2_facts. tsimp. autorewrite with chat. rewrite chans_bury, streams_bury, length_upd. rewrite chan_at_set_other by (apply not_eq_sym; eauto).
    repeat split; try assumption; try lia. intros sid' st' Hst. apply in_del_lookup in Hst. eauto.
  - (* clone *)
    assert (Ha : a2 s sid0 r0 c0) by exact Ha'. destruct (inv_a2 _ _ I _ _ _ Ha) as (F1 & F2 & F3 & F4 & F5 & F6 & F7). destruct H as [Hl Hd].
    unfold a2_facts. tsimp. autorewrite with chat. rewrite chans_set_chan, length_upd. rewrite chan_at_set_other by (apply not_eq_sym; eauto).
    repeat split; try assumption; try lia.
    intros sid' st' Hst. destruct (Nat.eq_dec sid' sid2) as [->|Hne]; [rewrite lookup_put_same in Hst; inversion Hst; subst; eauto|].
    rewrite lookup_put_other in Hst by assumption. eauto.
  - (* set capacity *)
    assert (Ha : a2 s sid0 r0 c0) by exact Ha'. destruct (inv_a2 _ _ I _ _ _ Ha) as (F1 & F2 & F3 & F4 & F5 & F6 & F7). destruct H as [Hl Hd].
    unfold a2_facts. tsimp. autorewrite with chat. rewrite chans_set_chan, length_upd. rewrite chan_at_set_other by (apply not_eq_sym; eauto).
    repeat split; try assumption; lia.
  - (* async drop of a rule stream: as drop *)
    assert (Ha : a2 s sid0 r0 c0) by exact Ha'. destruct (inv_a2 _ _ I _ _ _ Ha) as (F1 & F2 & F3 & F4 & F5 & F6 & F7). destruct H as [Hl Hd].
    unfold a2_facts. tsimp. autorewrite with chat. rewrite chans_bury, streams_bury, length_upd. rewrite chan_at_set_other by (apply not_eq_sym; eauto).
    repeat split; try assumption; try lia. intros sid' st' Hst. apply in_del_lookup in Hst. eauto.
  - (* async drop of an unfiltered stream *)
    assert (Ha : a2 s sid0 r0 c0) by exact Ha'. destruct (inv_a2 _ _ I _ _ _ Ha) as (F1 & F2 & F3 & F4 & F5 & F6 & F7). destruct H as [Hl Hd].
    unfold a2_facts. tsimp. autorewrite with chat. rewrite chans_bury, streams_bury, length_upd. rewrite chan_at_set_other by (apply not_eq_sym; eauto).
    repeat split; try assumption; try lia. intros sid' st' Hst. apply in_del_lookup in Hst. eauto.
  - (* the remaining steps need `subscriptions`, or are made by somebody who holds it *)
    exfalso. pose proof (rm_apply_frame _ _ _ _ H3) as (_ & _ & Eadd & _). eapply (Hbusy sid0 r0 c0); [|assumption]. eapply a2_ext; [|exact Ha']. tsimp. rewrite adds_bury. exact Eadd.
  - exfalso. pose proof (rm_apply_frame _ _ _ _ H3) as (_ & _ & Eadd & _). eapply (Hbusy sid0 r0 c0); [|assumption]. eapply a2_ext; [|exact Ha']. tsimp. exact Eadd.
  - exfalso. eapply (inv_excl _ _ I sid0 r0 c0 r c); [eapply a2_ext; [|exact Ha']; tsimp; rewrite adds_bury; apply adds_rm|]. left. exists sid, st. tauto.
  - exfalso. pose proof (rm_apply_frame _ _ _ _ H1) as (_ & _ & Eadd & _). eapply (Hbusy sid0 r0 c0); [|assumption]. eapply a2_ext; [|exact Ha']. tsimp. exact Eadd.
  - exfalso. pose proof (rm_apply_frame _ _ _ _ H1) as (_ & _ & Eadd & _). eapply (Hbusy sid0 r0 c0); [|assumption]. eapply a2_ext; [|exact Ha']. tsimp. exact Eadd.
  - exfalso. eapply (inv_excl _ _ I sid0 r0 c0 r c); [eapply a2_ext; [|exact Ha']; tsimp; apply adds_rm|]. right. eapply nth_error_In; eassumption.
  - (* add sender, failed: it was the only call in A2 and it is over *)
    exfalso. match type of Ha' with a2 ?s1 _ _ _ => apply (a2_del s s1 sid sid0 r0 c0 eq_refl) in Ha' end. destruct Ha' as [Ha' Hne]. apply Hne. eapply (inv_a2_uniq _ _ I); [exact Ha' | exists a; eauto].
  - (* drop, shared rule: as drop *)
    assert (Ha : a2 s sid0 r0 c0) by exact Ha'. destruct (inv_a2 _ _ I _ _ _ Ha) as (F1 & F2 & F3 & F4 & F5 & F6 & F7). destruct H as [Hl Hd].
    unfold a2_facts. tsimp. autorewrite with chat. rewrite chans_bury, streams_bury, length_upd. rewrite chan_at_set_other by (apply not_eq_sym; eauto).
    repeat split; try assumption; try lia. intros sid' st' Hst. apply in_del_lookup in Hst. eauto.
  - assert (Ha : a2 s sid0 r0 c0) by exact Ha'. destruct (inv_a2 _ _ I _ _ _ Ha) as (F1 & F2 & F3 & F4 & F5 & F6 & F7). destruct H as [Hl Hd].
    unfold a2_facts. tsimp. autorewrite with chat. rewrite chans_bury, streams_bury, length_upd. rewrite chan_at_set_other by (apply not_eq_sym; eauto).
    repeat split; try assumption; try lia. intros sid' st' Hst. apply in_del_lookup in Hst. eauto.
Qed.

Lemma closed_rm_apply s r s1 o : Inv s -> rm_apply s r = (s1, o) -> closed_ok s1.
Proof.
  intros I H. pose proof (inv_closed _ _ I) as Hold. apply rm_apply_spec in H. destruct H.
  - exact Hold.
  - eapply closed_same; [exact Hold | reflexivity | reflexivity|]. intros r' e' He'. cbn [subs with_subs] in He'.
    destruct (Nat.eq_dec r' r) as [->|Hne]; [rewrite lookup_put_same in He'; inversion He'; subst; eauto | rewrite lookup_put_other in He' by assumption; eauto].
  - eapply closed_same; [exact Hold | reflexivity | reflexivity|]. intros r' e' He'. cbn [subs with_subs] in He'. apply in_del_lookup in He'. eauto.
  - (* the entry's channel has no receiver left: it closes *)
    destruct (inv_entry _ _ I _ _ H) as [He2 Helt]. intros k c Hin Hcl. cbn [senders set_chan with_chans with_subs] in Hin.
    cbn [subs set_chan with_chans with_subs]. destruct (Nat.eq_dec c (e_ch e)) as [->|Hne].
    + rewrite chan_at_set_same by assumption. split; [assumption|]. split; [now rewrite rcv_close|].
      intros r' e' He'. destruct (Nat.eq_dec r' r) as [->|Hne']; [now rewrite lookup_del_same in He'|]. rewrite lookup_del_other in He' by assumption.
      intros E. apply Hne'. eapply (inv_entry_inj _ _ I); eassumption.
    + rewrite chan_at_set_other in * by assumption. destruct (Hold _ _ Hin Hcl) as (H2' & Hr & He'). split; [assumption|]. split; [assumption|].
      intros r' e' Hl'. apply in_del_lookup in Hl'. eauto.
Qed.

Lemma closed_rm_sender s r : Inv s -> closed_ok (rm_sender s r).
Proof.
  intros I k c Hin Hcl. pose proof (inv_closed _ _ I) as Hold. rewrite senders_rm in Hin. rewrite subs_rm. apply in_del_key in Hin. destruct Hin as [Hin Hk].
  cbn in Hk. unfold rm_sender in Hcl |- *. destruct (chan_of_key (senders s) (KRule r)) as [c0|] eqn:E.
  - apply chan_of_key_in in E. assert (Hne : c <> c0).
    { intros ->. destruct (inv_shape _ _ I _ _ E) as [_ S0]. destruct (inv_shape _ _ I _ _ Hin) as [_ S1].
      destruct k; try lia. apply Hk. f_equal. eapply (inv_inj _ _ I); eassumption. }
    autorewrite with chat in *. rewrite chan_at_set_other in * by assumption. exact (Hold _ _ Hin Hcl).
  - autorewrite with chat in *. exact (Hold _ _ Hin Hcl).
Qed.

Lemma g_closed_step s l s' : tstep s l s' -> Inv s -> closed_ok s'.
Proof.
  intros Hs I. pose proof (inv_closed _ _ I) as Hold. pose proof (Inv_own _ I) as [Icur Istr].
  assert (Hnorcv : forall sid st, lookup (streams s) sid = Some st -> closed (chan_at s (s_ch st)) = true -> forall k, In (k, s_ch st) (senders s) -> False).
  { intros sid st Hl Hcl k Hin. destruct (Hold _ _ Hin Hcl) as (_ & Hr & _). destruct (Istr _ _ Hl) as (_ & (p & Hp) & _). eapply cursor_some_rcv; eassumption. }
  assert (Hsubs_same : forall r e', lookup (subs s) r = Some e' -> exists e, lookup (subs s) r = Some e /\ e_ch e' = e_ch e) by eauto.
  destruct Hs.
  1-4: exact Hold.
  - (* push *) apply try_push_pushed in H0. destruct H0 as (_ & _ & _ & Hc1 & Hc2). destruct (inv_todo _ _ I _ _ H) as [Htd _].
    destruct (Htd c (or_introl eq_refl)) as (k0 & Hk0 & _). destruct (inv_shape _ _ I _ _ Hk0) as [Hlt _].
    assert (Hcx : closed ch' = closed (chan_at s c)) by congruence.
    assert (Hno : closed (chan_at s c) = true -> forall k, In (k, c) (senders s) -> False) by (intros E; congruence).
    apply (closed_upd s c ch' Hold Hlt Hcx Hno); [reflexivity | reflexivity | exact Hsubs_same].
  - exact Hold.
  - exact Hold.
  - (* next, failure *) intros k c0 [].
  - exact Hold.
  - exact Hold.
  - exact Hold.
  - (* occupied *) subst c ch1 s1 s2. destruct (inv_entry _ _ I _ _ H2) as [_ Hlt].
    set (x := subscribe sid match a_q a with Some n => grow n (chan_at s (e_ch e)) | None => chan_at s (e_ch e) end).
    assert (Hcx : closed x = closed (chan_at s (e_ch e))) by (unfold x; destruct (a_q a); reflexivity).
    assert (Hno : closed (chan_at s (e_ch e)) = true -> forall k, In (k, e_ch e) (senders s) -> False).
    { intros Hcl k Hin. destruct (Hold _ _ Hin Hcl) as (_ & _ & He). exact (He _ _ H2 eq_refl). }
    apply (closed_upd s (e_ch e) x Hold Hlt Hcx Hno); [reflexivity | reflexivity |].
    intros r' e' He'. tsimp. destruct (Nat.eq_dec r' (a_rule a)) as [->|Hne]; [rewrite lookup_put_same in He'; inversion He'; subst; eauto | rewrite lookup_put_other in He' by assumption; eauto].
  - (* vacant *) subst c capacity s1 s2. intros k c Hin Hcl. tsimp. destruct (inv_shape _ _ I _ _ Hin) as [Hlt _].
    autorewrite with chat in *. rewrite chan_at_app_old in * by assumption. destruct (Hold _ _ Hin Hcl) as (H2' & Hr & He). split; [assumption|]. split; [assumption|].
    intros r' e' He'. destruct (Nat.eq_dec r' (a_rule a)) as [->|Hne].
    + rewrite lookup_put_same in He'. inversion He'; subst. cbn. lia.
    + rewrite lookup_put_other in He' by assumption. eauto.
  - (* add sender *) intros k c0 Hin Hcl. tsimp. autorewrite with chat in *. apply in_app_iff in Hin. destruct Hin as [Hin|[Hin|[]]].
    + exact (Hold _ _ Hin Hcl).
    + inversion Hin; subst. destruct (inv_a2 _ _ I sid (a_rule a) c0) as (_ & _ & _ & Hop & _); [exists a; tauto | congruence].
  - (* unfiltered *) assert (Hlt : 0 < length (chans s)) by (pose proof (inv_len _ _ I); lia).
    assert (Hno : closed (chan_at s 0) = true -> forall k, In (k, 0) (senders s) -> False) by (intros Hcl k Hin; destruct (Hold _ _ Hin Hcl); lia).
    apply (closed_upd s 0 (subscribe sid (chan_at s 0)) Hold Hlt eq_refl Hno); [reflexivity | reflexivity | exact Hsubs_same].
  - (* poll *) destruct H as [Hl Hd]. apply try_recv_got in H0. destruct H0 as (p0 & _ & _ & _ & Hcl0 & _). destruct (Istr _ _ Hl) as (Hlt & _).
    apply (closed_upd s (s_ch st) ch' Hold Hlt Hcl0 (Hnorcv _ _ Hl)); [reflexivity | reflexivity | exact Hsubs_same].
  - exact Hold.
  - (* drop *) destruct H as [Hl Hd]. exact (closed_bury s sid st Hold Istr Hl).
  - destruct H as [Hl Hd]. exact (closed_bury s sid st Hold Istr Hl).
  - (* clone *) destruct H as [Hl Hd]. destruct (Istr _ _ Hl) as (Hlt & _).
    apply (closed_upd s (s_ch st) (clone_rcv sid sid2 (chan_at s (s_ch st))) Hold Hlt (closed_clone _ _ _ _) (Hnorcv _ _ Hl)); [reflexivity | reflexivity | exact Hsubs_same].
  - (* set capacity *) destruct H as [Hl Hd]. destruct (Istr _ _ Hl) as (Hlt & _).
    apply (closed_upd s (s_ch st) (grow n (chan_at s (s_ch st))) Hold Hlt eq_refl (Hnorcv _ _ Hl)); [reflexivity | reflexivity | exact Hsubs_same].
  - (* async drop starts: as drop *) destruct H as [Hl Hd]. exact (closed_bury s sid st Hold Istr Hl).
  - destruct H as [Hl Hd]. exact (closed_bury s sid st Hold Istr Hl).
  - (* async drop, subs, done *)
    pose proof (closed_rm_apply _ _ _ _ I H3) as Hc1. pose proof (rm_apply_frame _ _ _ _ H3) as (_ & Estr & Eadd & _).
    assert (O1 : own_cur s1 /\ own_stream s1).
    { pose proof (fun c0 => rm_apply_chan _ _ _ _ c0 H3) as Hch. apply rm_apply_spec, rm_spec_tables in H3. destruct H3 as (_ & _ & _ & _ & _ & Hl0 & _).
      apply (own_frame s); [split; assumption | exact Hl0 | | exact Estr | now apply a2_same_adds].
      intros c0 id _. rewrite (soc_cursor _ _ id (Hch c0)), (soc_tail _ _ (Hch c0)). split; [reflexivity | lia]. }
    assert (Hl1 : lookup (streams s1) sid = Some st) by now rewrite Estr.
    exact (closed_bury s1 sid st Hc1 (proj2 O1) Hl1).
  - exact (closed_rm_apply _ _ _ _ I H3).
  - (* async drop, sender *)
    assert (O1 : own_stream (rm_sender s r)).
    { apply (own_frame s); [split; assumption | apply length_chans_rm | | apply streams_rm | apply a2_same_adds, adds_rm].
      intros c0 id _. rewrite (soc_cursor _ _ id (rm_sender_chan s r c0)), (soc_tail _ _ (rm_sender_chan s r c0)). split; [reflexivity | lia]. }
    assert (Hl1 : lookup (streams (rm_sender s r)) sid = Some st) by now rewrite streams_rm.
    exact (closed_bury _ sid st (closed_rm_sender s r I) O1 Hl1).
  - exact (closed_rm_apply _ _ _ _ I H1).
  - exact (closed_rm_apply _ _ _ _ I H1).
  - exact (closed_rm_sender s r I).
  - (* add sender, failed: no senders *) intros k c0 Hin. change (In (k, c0) (senders s)) in Hin. rewrite H2 in Hin. destruct Hin.
  - (* drop, shared rule: as drop *) destruct H as [Hl Hd]. exact (closed_bury s sid st Hold Istr Hl).
  - destruct H as [Hl Hd]. exact (closed_bury s sid st Hold Istr Hl).
Qed.

End G2.
