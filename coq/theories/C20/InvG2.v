(* C20/InvG2.v — preservation of the channel part of the invariant (cursors, who owns which receiver, the reader's to-do list,
   closed channels). *)
From ZV Require Import Base.Bytes Base.Res C19.Broadcast C19.BroadcastFacts C20.Model C20.Lemmas C20.Steps C20.Inv C20.InvG1.
From Coq Require Import Lia Permutation.

Section G2.
Variable matches : nat -> msg -> bool.
Notation tstep := (Steps.tstep matches).
Notation Inv := (Inv.Inv matches).
Notation targets := (Model.targets matches).
Notation key_matches := (Model.key_matches matches).

Ltac simp :=
  repeat match goal with x := _ |- _ => subst x end;
  cbn [chans senders subs streams adds drops tasks reader socket incoming dead cloned
       with_chans with_senders with_subs with_streams with_adds with_drops with_tasks with_reader with_socket with_incoming
       with_dead with_cloned set_chan bury rm_sender mk_stream got_more add_at s_rule s_ch s_from s_got a_rule a_q a_pc] in *.

Ltac rm_frame :=
  match goal with Hr : rm_apply _ _ = _ |- _ =>
    let H := fresh "Hfr" in pose proof (rm_apply_frame _ _ _ _ Hr) as H;
    destruct H as (?Esnd & ?Estr & ?Eadd & ?Edrp & ?Etsk & ?Erd & ?Esock & ?Einc & ?Edead & ?Ecl)
  end.

(* ---- the last message read is the last of `incoming` ---- *)
Lemma g_last_step s l s' : tstep s l s' -> Inv s ->
  forall m, reader s' = RHave (IMsg m) \/ (exists todo, reader s' = RPush (IMsg m) todo) -> exists pre, incoming s' = pre ++ [m].
Proof.
  intros Hs I m Hrd. pose proof (inv_last _ _ I) as Hold.
  destruct Hs; simp; try (exact (Hold _ Hrd)); try (rm_frame; rewrite ?Erd, ?Einc in *; simp; rewrite ?Erd, ?Einc in *; exact (Hold _ Hrd)).
  - (* read *) destruct Hrd as [E|(todo & E)]; [inversion E; subst; eauto | discriminate].
  - destruct Hrd as [E|(todo & E)]; discriminate.
  - (* fan *) destruct Hrd as [E|(todo' & E)]; [discriminate|]. inversion E; subst. apply Hold. now left.
  - (* push *) destruct Hrd as [E|(todo' & E)]; [discriminate|]. inversion E; subst. apply Hold. right. eauto.
  - destruct Hrd as [E|(todo' & E)]; [discriminate|]. inversion E; subst. apply Hold. right. eauto.
  - destruct Hrd as [E|(todo' & E)]; discriminate.
  - destruct Hrd as [E|(todo' & E)]; discriminate.
Qed.

(* ---- the channels a message has to go to are pairwise different ---- *)
Lemma targets_in senders it c : In c (targets senders it) -> exists k, In (k, c) senders /\ key_matches k it = true.
Proof.
  unfold Model.targets. intros H. apply in_map_iff in H. destruct H as ([k c'] & E & H). cbn in E. subst c'.
  apply filter_In in H. exists k. tauto.
Qed.

Lemma targets_nodup s m : Inv s -> NoDup (targets (senders s) (IMsg m)).
Proof.
  intros I. pose proof (inv_keys _ _ I) as Hk. pose proof (inv_shape _ _ I) as Hsh. pose proof (inv_inj _ _ I) as Hinj.
  unfold Model.targets.
  assert (G : forall l, NoDup (map fst l) -> (forall k c, In (k, c) l -> In (k, c) (senders s)) ->
                NoDup (map snd (filter (fun p => key_matches (fst p) (IMsg m)) l))).
  { induction l as [|[k c] l IH]; intros Hnd Hsub; cbn; [constructor|]. inversion Hnd as [|? ? H1 Hnd']; subst.
    assert (IH' := IH Hnd' (fun k0 c0 H => Hsub k0 c0 (or_intror H))).
    destruct (key_matches k (IMsg m)) eqn:Em; [|exact IH']. cbn. constructor; [|exact IH'].
    intros Hin. apply in_map_iff in Hin. destruct Hin as ([k' c'] & Ec & Hin). cbn in Ec. subst c'. apply filter_In in Hin.
    destruct Hin as [Hin Em']. cbn in Em'. apply H1. apply in_map_iff. exists (k', c). split; [|assumption]. cbn.
    pose proof (Hsub k c (or_introl eq_refl)) as Hkc. pose proof (Hsub k' c (or_intror Hin)) as Hkc'.
    destruct (Hsh _ _ Hkc) as [_ S1]. destruct (Hsh _ _ Hkc') as [_ S2].
    destruct k, k'; try reflexivity; try lia; cbn in Em, Em'.
    - destruct (m_type m); discriminate.
    - destruct (m_type m); discriminate.
    - f_equal. eapply Hinj; eassumption. }
  apply G; [assumption | tauto].
Qed.

Lemma g_todo_step s l s' : tstep s l s' -> Inv s -> forall it todo, reader s' = RPush it todo ->
  (forall c, In c todo -> exists k, In (k, c) (senders s') /\ key_matches k it = true) /\ (forall m, it = IMsg m -> NoDup todo).
Proof.
  intros Hs I it0 todo0 Hrd. pose proof (inv_todo _ _ I) as Hold.
  assert (Hheld : forall it t, reader s = RPush it t -> senders_held s = false -> False).
  { intros it t E. unfold senders_held. rewrite E. discriminate. }
  destruct Hs; simp; try (exact (Hold _ _ Hrd)); try discriminate;
    try (rm_frame; rewrite ?Erd, ?Esnd in *; simp; rewrite ?Erd, ?Esnd in *; exact (Hold _ _ Hrd));
    try (exfalso; eapply Hheld; eassumption).
  - (* fan *) inversion Hrd; subst. apply is_perm_spec in H0. split.
    + intros c Hc. apply targets_in. eapply Permutation_in; eassumption.
    + intros m ->. eapply Permutation_NoDup; [symmetry; eassumption | now apply targets_nodup].
  - (* push *) inversion Hrd; subst. destruct (Hold _ _ H) as [H1 H2]. split.
    + intros c0 Hc0. apply H1. now right.
    + intros m ->. specialize (H2 m eq_refl). now inversion H2.
  - inversion Hrd; subst. destruct (Hold _ _ H) as [H1 H2]. split.
    + intros c0 Hc0. apply H1. now right.
    + intros m ->. specialize (H2 m eq_refl). now inversion H2.
  - (* async drop, sender: the reader is not pushing *) exfalso. eapply Hheld; [|eassumption]. rm_frame. congruence.
Qed.

End G2.
