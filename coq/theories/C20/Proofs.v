(* C20/Proofs.v — the invariant holds in every reachable state; the theorems of C20 (statements repeated in Properties/C20.v). *)
From ZV Require Import Base.Bytes Base.Res C19.Broadcast C19.BroadcastFacts C20.Model C20.Lemmas C20.Steps C20.Inv C20.InvG1 C20.InvG2 C20.InvG3.
From Coq Require Import Lia Permutation.

Section Proofs.
Variable matches : nat -> msg -> bool.
Notation step := (Model.step matches).
Notation exec := (Model.exec matches).
Notation tstep := (Steps.tstep matches).
Notation Inv := (Inv.Inv matches).
Notation reach := (Model.reach matches).
Notation accepts := (Inv.accepts matches).

Theorem Inv_step s l s' : tstep s l s' -> Inv s -> Inv s'.
Proof.
  intros Hs I. pose proof (G1_step _ _ _ _ Hs I) as G. destruct (g_own_step _ _ _ _ Hs I) as [Oc Os].
  constructor.
  - apply G. - apply G. - apply G. - apply G. - apply G. - apply G. - apply G. - apply G. - apply G.
  - intros sid r c Ha. exact (g_a2_step _ _ _ _ Hs I sid r c Ha).
  - exact Oc.
  - exact Os.
  - apply G.
  - eapply g_todo_step; eassumption.
  - eapply g_last_step; eassumption.
  - eapply g_closed_step; eassumption.
  - apply G.
  - eapply g_from_step; eassumption.
  - intros sid st Hl. exact (g_deliv_step _ _ _ _ Hs I sid st Hl).
Qed.

Theorem Inv_init : Inv init.
Proof.
  constructor; unfold init; cbn [chans senders subs streams adds drops tasks reader socket incoming dead arcs].
  - cbn. lia.
  - cbn. repeat constructor; cbn; intuition discriminate.
  - intros k c [H|[H|[H|[]]]]; inversion H; subst; cbn; split; lia.
  - intros r r' c [H|[H|[H|[]]]]; discriminate.
  - intros r c [H|[H|[H|[]]]]; discriminate.
  - intros r e H. discriminate.
  - intros r r' e e' H. discriminate.
  - intros sid r c r' c' (a & Ha & _). discriminate.
  - intros sid r c sid' r' c' (a & Ha & _). discriminate.
  - intros sid r c (a & Ha & _). discriminate.
  - intros c id p Hc Hcur. unfold chan_at in Hcur. cbn in Hcur. destruct c as [|[|c]]; cbn in Hcur; try discriminate. cbn in Hc. lia.
  - intros sid st H. discriminate.
  - intros sid a H. discriminate.
  - intros it todo H. discriminate.
  - intros m [H|(todo & H)]; discriminate.
  - intros k c Hin Hcl. exfalso. destruct Hin as [H|[H|[H|[]]]]; inversion H; subst; unfold chan_at in Hcl; cbn in Hcl; discriminate.
  - intros sid pc H. discriminate.
  - intros sid st H. discriminate.
  - intros sid st H. discriminate.
Qed.

Theorem Inv_reach tr s : reach tr s -> Inv s.
Proof.
  induction 1 as [|tr s l s' Hr IH Hs]; [exact Inv_init|]. eapply Inv_step; [apply step_tstep; eassumption | assumption].
Qed.

(* ------------------------------------------------------------------ C20_delivery: the equation, for every stream whose channel
   is registered under the stream's rule *)
Theorem delivery tr s sid st : reach tr s -> lookup (streams s) sid = Some st -> In (skey st, s_ch st) (senders s) ->
  msgs (s_got st) ++ msgs (unread (chan_at s (s_ch st)) sid) =
  filter (accepts (skey st)) (skipn (s_from st) (firstn (seen s (s_ch st)) (incoming s))).
Proof. intros Hr Hl Hreg. exact (inv_deliv _ _ (Inv_reach _ _ Hr) _ _ Hl Hreg). Qed.

(* when nothing is under way and the stream has been polled to the end, it has yielded exactly the matching messages read since
   it subscribed *)
Corollary delivery_quiescent tr s sid st : reach tr s -> lookup (streams s) sid = Some st -> In (skey st, s_ch st) (senders s) ->
  reader s = RIdle -> unread (chan_at s (s_ch st)) sid = [] ->
  msgs (s_got st) = filter (accepts (skey st)) (skipn (s_from st) (incoming s)).
Proof.
  intros Hr Hl Hreg Hrd Hu. pose proof (delivery _ _ _ _ Hr Hl Hreg) as H. rewrite Hu in H. cbn in H. rewrite app_nil_r in H.
  unfold seen, pending_on in H. rewrite Hrd, Nat.sub_0_r, firstn_all in H. exact H.
Qed.

(* ------------------------------------------------------------------ since fix 90a1ccff async_drop gives up its receiver before it
   calls remove_match: no stream is ever "being dropped asynchronously while still holding its receiver".  The table `drops` of the
   model (and the labels LDropSubs / LDropSender that work on it) described exactly that state; it stays empty for ever, the
   two labels are never enabled. *)
Lemma drops_step s l s' : tstep s l s' -> drops s = [] -> drops s' = [].
Proof.
  intros Hs Hd. destruct Hs; try exact Hd; try (rewrite Hd in *; discriminate).
  - pose proof (rm_apply_frame _ _ _ _ H1) as (_ & _ & _ & Edrp & _). cbn [drops with_tasks]. now rewrite Edrp.
  - pose proof (rm_apply_frame _ _ _ _ H1) as (_ & _ & _ & Edrp & _). cbn [drops with_tasks]. now rewrite Edrp.
  - cbn [drops with_tasks]. now rewrite drops_rm.
Qed.

Theorem drops_nil tr s : reach tr s -> drops s = [].
Proof. induction 1 as [|tr s l s' Hr IH Hs]; [reflexivity|]. eapply drops_step; [apply step_tstep; eassumption | assumption]. Qed.

Corollary async_drop_labels_dead tr s sid : reach tr s -> step (LDropSubs sid) s = None /\ step (LDropSender sid) s = None.
Proof.
  intros Hr. pose proof (drops_nil _ _ Hr) as Hd. unfold Model.step. rewrite Hd. cbn [lookup]. split; destruct (lookup (streams s) sid); reflexivity.
Qed.

(* the executable replay stays inside the relation *)
Lemma exec_reach_gen : forall tr tr0 s0 s, reach tr0 s0 -> exec tr s0 = Some s -> reach (tr0 ++ tr) s.
Proof.
  induction tr as [|l tr IH]; intros tr0 s0 s Hr He; cbn [Model.exec] in He.
  - inversion He; subst. now rewrite app_nil_r.
  - destruct (step l s0) as [s1|] eqn:E; [|discriminate].
    replace (tr0 ++ l :: tr) with ((tr0 ++ [l]) ++ tr) by (now rewrite <- app_assoc).
    apply (IH _ s1); [econstructor; eassumption | assumption].
Qed.
Theorem exec_reach tr s : exec tr init = Some s -> reach tr s.
Proof. intros H. apply (exec_reach_gen tr [] init s); [constructor | assumption]. Qed.

End Proofs.
