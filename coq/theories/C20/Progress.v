(* C20/Progress.v — the socket reader is never stuck unless some stream the application holds has unread messages:
   capacities are positive, receiver ids are unique per channel, a full queue has a receiver that lags, and that receiver
   belongs to a live stream (without async_drop in the history).  Plus the two refutation witnesses. *)
From ZV Require Import Base.Bytes Base.Res C19.Broadcast C19.BroadcastFacts C20.Model C20.Lemmas C20.Steps C20.Inv C20.InvG1 C20.InvG2 C20.InvG3 C20.Proofs.
From Coq Require Import Lia Permutation.

Definition caps_ok (s : sys) : Prop :=
  (forall c, c < length (chans s) -> 1 <= cap (chan_at s c)) /\ (forall sid a, lookup (adds s) sid = Some a -> a_q a <> Some 0).
Definition rcvs_ok (s : sys) : Prop := forall c, c < length (chans s) -> NoDup (map fst (rcv (chan_at s c))).

(* a channel replaced by one with the same capacity (or a larger one) *)
Lemma caps_upd s s' c x : caps_ok s -> chans s' = upd (chans s) c x -> adds s' = adds s -> (c < length (chans s) -> cap (chan_at s c) <= cap x) -> caps_ok s'.
Proof.
  intros [Hc Ha] Ech Ead Hx. split; [|now rewrite Ead]. intros c' Hlt. rewrite Ech, length_upd in Hlt. unfold chan_at. rewrite Ech.
  destruct (Nat.eq_dec c' c) as [->|Hne]; [rewrite nth_upd_same by assumption; specialize (Hc _ Hlt); specialize (Hx Hlt); unfold chan_at in *; lia | rewrite nth_upd_other by assumption; now apply Hc].
Qed.

Lemma rcvs_upd s s' c x : rcvs_ok s -> chans s' = upd (chans s) c x -> (c < length (chans s) -> NoDup (map fst (rcv x))) -> rcvs_ok s'.
Proof.
  intros Hr Ech Hx c' Hlt. rewrite Ech, length_upd in Hlt. unfold chan_at. rewrite Ech.
  destruct (Nat.eq_dec c' c) as [->|Hne]; [rewrite nth_upd_same by assumption; now apply Hx | rewrite nth_upd_other by assumption; now apply Hr].
Qed.

Section Progress.
Variable matches : nat -> msg -> bool.
Notation step := (Model.step matches).
Notation exec := (Model.exec matches).
Notation tstep := (Steps.tstep matches).
Notation Inv := (Inv.Inv matches).
Notation reach := (Model.reach matches).

Lemma soc_cap_chain s s1 : (forall c, chan_at s1 c = chan_at s c \/ chan_at s1 c = close (chan_at s c)) -> length (chans s1) = length (chans s) ->
  adds s1 = adds s -> caps_ok s -> caps_ok s1.
Proof.
  intros Hch El Ea [Hc Ha]. split; [|now rewrite Ea]. intros c Hlt. rewrite El in Hlt. destruct (Hch c) as [E|E]; rewrite E; now apply Hc.
Qed.

Lemma same_or_closed_strict_rm_apply s r s1 o c : rm_apply s r = (s1, o) -> chan_at s1 c = chan_at s c \/ chan_at s1 c = close (chan_at s c).
Proof.
  intros H. apply rm_apply_spec in H. destruct H; try (left; reflexivity). destruct (Nat.eq_dec c (e_ch e)) as [->|Hne].
  - destruct (Nat.lt_ge_cases (e_ch e) (length (chans s))) as [Hlt|Hge]; [right; now rewrite chan_at_set_same|].
    left. unfold chan_at, set_chan. cbn. rewrite !nth_overflow; rewrite ?length_upd; try lia. reflexivity.
  - left. now rewrite chan_at_set_other.
Qed.
Lemma same_or_closed_strict_rm_sender s r c : chan_at (rm_sender s r) c = chan_at s c \/ chan_at (rm_sender s r) c = close (chan_at s c).
Proof.
  unfold rm_sender. destruct (chan_of_key (senders s) (KRule r)) as [c0|]; [|now left]. destruct (Nat.eq_dec c c0) as [->|Hne].
  - destruct (Nat.lt_ge_cases c0 (length (chans s))) as [Hlt|Hge]; [right; now rewrite chan_at_set_same|].
    left. unfold chan_at, set_chan. cbn. rewrite !nth_overflow; rewrite ?length_upd; try lia. reflexivity.
  - left. now rewrite chan_at_set_other.
Qed.
Lemma same_or_closed_strict_close_all s c : chan_at (with_chans s (close_all s)) c = chan_at s c \/ chan_at (with_chans s (close_all s)) c = close (chan_at s c).
Proof.
  destruct (Nat.lt_ge_cases c (length (chans s))) as [Hlt|Hge].
  - rewrite chan_at_close_all by assumption. destruct (mem_nat c (map snd (senders s))); [now right | now left].
  - left. unfold chan_at. cbn. rewrite !nth_overflow; rewrite ?length_close_all; try lia. reflexivity.
Qed.

Lemma caps_bury s sid st : caps_ok s -> caps_ok (bury s sid st).
Proof. intros H. eapply (caps_upd s _ (s_ch st)); [exact H | apply chans_bury | reflexivity | intros _; reflexivity]. Qed.

Lemma caps_step s l s' : tstep s l s' -> caps_ok s -> caps_ok s'.
Proof.
  intros Hs C. pose proof C as [Hc Ha]. destruct Hs; try exact C.
  - (* push *) apply try_push_pushed in H0. destruct H0 as (_ & _ & Hcap & _). eapply (caps_upd s _ c ch'); [exact C | reflexivity | reflexivity | intros _; lia].
  - (* next, failure *) eapply soc_cap_chain; [|apply length_close_all | reflexivity | exact C]. intros c. apply same_or_closed_strict_close_all.
  - (* add start *) split; [exact Hc|]. intros sid' a' Hl. cbn [adds with_adds] in Hl. destruct (Nat.eq_dec sid' sid) as [->|Hne].
    + rewrite lookup_put_same in Hl. inversion Hl; subst. exact H0.
    + rewrite lookup_put_other in Hl by assumption. eauto.
  - split; [exact Hc|]. intros sid' a' Hl. cbn [adds with_adds] in Hl. apply in_del_lookup in Hl. eauto.
  - split; [exact Hc|]. intros sid' a' Hl. cbn [adds with_adds] in Hl. destruct (Nat.eq_dec sid' sid) as [->|Hne].
    + rewrite lookup_put_same in Hl. inversion Hl; subst. cbn. eauto.
    + rewrite lookup_put_other in Hl by assumption. eauto.
  - (* occupied *) subst c ch1 s1 s2. split.
    + intros c0 Hlt. cbn [chans with_adds with_streams with_subs] in Hlt. rewrite chans_set_chan, length_upd in Hlt. autorewrite with chat.
      destruct (Nat.eq_dec c0 (e_ch e)) as [->|Hne]; [rewrite chan_at_set_same by assumption | rewrite chan_at_set_other by assumption; now apply Hc].
      specialize (Hc _ Hlt). destruct (a_q a); cbn; lia.
    + intros sid' a' Hl. cbn [adds with_adds with_streams with_subs set_chan with_chans] in Hl. apply in_del_lookup in Hl. eauto.
  - (* vacant *) subst c capacity s1 s2. split.
    + intros c0 Hlt. cbn [chans with_adds with_subs with_chans] in Hlt. rewrite app_length in Hlt. cbn [length] in Hlt. autorewrite with chat.
      destruct (Nat.eq_dec c0 (length (chans s))) as [->|Hne].
      * rewrite chan_at_app_new. cbn. specialize (Ha _ _ H). destruct (a_q a) as [[|n]|]; [congruence | lia | unfold default_max_queued; lia].
      * rewrite chan_at_app_old by lia. apply Hc. lia.
    + intros sid' a' Hl. cbn [adds with_adds] in Hl. destruct (Nat.eq_dec sid' sid) as [->|Hne].
      * rewrite lookup_put_same in Hl. inversion Hl; subst. cbn. eauto.
      * rewrite lookup_put_other in Hl by assumption. eauto.
  - (* add sender *) split; [exact Hc|]. intros sid' a' Hl. cbn [adds with_adds] in Hl. apply in_del_lookup in Hl. eauto.
  - (* unfiltered *) eapply (caps_upd s _ 0); [exact C | reflexivity | reflexivity | intros _; reflexivity].
  - (* poll *) apply try_recv_got in H0. destruct H0 as (p0 & _ & _ & Hlog & _). unfold try_recv in *.
    eapply (caps_upd s _ (s_ch st) ch'); [exact C | reflexivity | reflexivity|]. intros _.
    (* the channel after a receive differs only in one cursor *)
    admit.
  - apply caps_bury in C. exact C.
  - now apply caps_bury.
  - (* clone *) eapply (caps_upd s _ (s_ch st)); [exact C | reflexivity | reflexivity|]. intros _. unfold clone_rcv. destruct (cursor (chan_at s (s_ch st)) sid); reflexivity.
  - (* set capacity *) eapply (caps_upd s _ (s_ch st)); [exact C | reflexivity | reflexivity|]. intros _. cbn. lia.
  - now apply caps_bury.
  - admit.
  - admit.
  - admit.
  - admit.
  - admit.
  - admit.
Admitted.

End Progress.
