(* C20/Progress.v — the socket reader is never stuck unless some stream the application holds has unread messages:
   capacities are positive, receiver ids are unique per channel, a full queue has a receiver that lags, and that receiver
   belongs to a live stream (when no async_drop is in progress). *)
From ZV Require Import Base.Bytes Base.Res C19.Broadcast C19.BroadcastFacts C20.Model C20.Lemmas C20.Steps C20.Inv C20.InvG1 C20.InvG2 C20.InvG3 C20.Proofs.
From Coq Require Import Lia Permutation.

Definition chok (x : chan item) : Prop := 1 <= cap x /\ NoDup (map fst (rcv x)).
Definition shape_ok (s : sys) : Prop :=
  (forall c, c < length (chans s) -> chok (chan_at s c)) /\ (forall sid a, lookup (adds s) sid = Some a -> a_q a <> Some 0).

Lemma chok_close x : chok x -> chok (close x).  Proof. intros H. exact H. Qed.
Lemma chok_grow x n : chok x -> chok (grow n x).  Proof. intros [H1 H2]. split; [cbn; lia | exact H2]. Qed.
Lemma chok_drop x id : chok x -> chok (drop_rcv id x).
Proof. intros [H1 H2]. split; [exact H1 | cbn; now apply nodup_del_cursor]. Qed.
Lemma chok_subscribe x id : chok x -> cursor x id = None -> chok (subscribe id x).
Proof.
  intros [H1 H2] Hc. split; [exact H1|]. cbn. rewrite map_app. cbn. apply NoDup_app_one; [exact H2|]. now apply cursor_in_none_iff.
Qed.
Lemma chok_clone x a b : chok x -> cursor x b = None -> chok (clone_rcv a b x).
Proof.
  intros [H1 H2] Hc. unfold clone_rcv. destruct (cursor x a); [|split; assumption]. split; [exact H1|]. cbn. rewrite map_app. cbn.
  apply NoDup_app_one; [exact H2|]. now apply cursor_in_none_iff.
Qed.

Lemma shape_upd s s' c x : shape_ok s -> chans s' = upd (chans s) c x -> adds s' = adds s -> (c < length (chans s) -> chok (chan_at s c) -> chok x) -> shape_ok s'.
Proof.
  intros [Hc Ha] Ech Ead Hx. split; [|now rewrite Ead]. intros c' Hlt. rewrite Ech, length_upd in Hlt. unfold chan_at. rewrite Ech.
  destruct (Nat.eq_dec c' c) as [->|Hne]; [rewrite nth_upd_same by assumption; exact (Hx Hlt (Hc _ Hlt)) | rewrite nth_upd_other by assumption; now apply Hc].
Qed.

Lemma shape_soc s s1 : (forall c, chan_at s1 c = chan_at s c \/ chan_at s1 c = close (chan_at s c)) -> length (chans s1) = length (chans s) ->
  adds s1 = adds s -> shape_ok s -> shape_ok s1.
Proof.
  intros Hch El Ea [Hc Ha]. split; [|now rewrite Ea]. intros c Hlt. rewrite El in Hlt. destruct (Hch c) as [E|E]; rewrite E; [now apply Hc | apply chok_close; now apply Hc].
Qed.

Lemma strict_rm_apply s r s1 o c : rm_apply s r = (s1, o) -> chan_at s1 c = chan_at s c \/ chan_at s1 c = close (chan_at s c).
Proof.
  intros H. apply rm_apply_spec in H. destruct H; try (left; reflexivity). destruct (Nat.eq_dec c (e_ch e)) as [->|Hne].
  - destruct (Nat.lt_ge_cases (e_ch e) (length (chans s))) as [Hlt|Hge]; [right; now rewrite chan_at_set_same|].
    left. unfold chan_at, set_chan. cbn. rewrite !nth_overflow; rewrite ?length_upd; try lia. reflexivity.
  - left. now rewrite chan_at_set_other.
Qed.
Lemma strict_rm_sender s r c : chan_at (rm_sender s r) c = chan_at s c \/ chan_at (rm_sender s r) c = close (chan_at s c).
Proof.
  unfold rm_sender. destruct (chan_of_key (senders s) (KRule r)) as [c0|]; [|now left]. destruct (Nat.eq_dec c c0) as [->|Hne].
  - destruct (Nat.lt_ge_cases c0 (length (chans s))) as [Hlt|Hge]; [right; now rewrite chan_at_set_same|].
    left. unfold chan_at, set_chan. cbn. rewrite !nth_overflow; rewrite ?length_upd; try lia. reflexivity.
  - left. now rewrite chan_at_set_other.
Qed.
Lemma strict_close_all s c : chan_at (with_chans s (close_all s)) c = chan_at s c \/ chan_at (with_chans s (close_all s)) c = close (chan_at s c).
Proof.
  destruct (Nat.lt_ge_cases c (length (chans s))) as [Hlt|Hge].
  - rewrite chan_at_close_all by assumption. destruct (mem_nat c (map snd (senders s))); [now right | now left].
  - left. unfold chan_at. cbn. rewrite !nth_overflow; rewrite ?length_close_all; try lia. reflexivity.
Qed.

Lemma shape_bury s sid st : shape_ok s -> shape_ok (bury s sid st).
Proof. intros H. eapply (shape_upd s _ (s_ch st)); [exact H | apply chans_bury | reflexivity | intros _ Hk; now apply chok_drop]. Qed.

Section Progress.
Variable matches : nat -> msg -> bool.
Notation step := (Model.step matches).
Notation tstep := (Steps.tstep matches).
Notation Inv := (Inv.Inv matches).
Notation reach := (Model.reach matches).

(* an id that is neither a stream nor a call in A2 has no receiver anywhere *)
Lemma no_cursor s c id : Inv s -> c < length (chans s) -> lookup (streams s) id = None -> (forall r c', ~ a2 s id r c') -> cursor (chan_at s c) id = None.
Proof.
  intros I Hlt Hs Ha. destruct (cursor (chan_at s c) id) as [p|] eqn:E; [|reflexivity].
  destruct (inv_cur _ _ I _ _ _ Hlt E) as [_ [(st & Hst & _)|(r & Har)]]; [congruence | destruct (Ha _ _ Har)].
Qed.

Lemma shape_step s l s' : tstep s l s' -> Inv s -> shape_ok s -> shape_ok s'.
Proof.
  intros Hs I C. pose proof C as [Hc Ha]. destruct Hs; try exact C.
  - (* push *) apply try_push_pushed_cap in H0. destruct H0 as [Hcap Hrcv]. eapply (shape_upd s _ c ch'); [exact C | reflexivity | reflexivity|].
    intros _ [K1 K2]. split; [lia | now rewrite Hrcv].
  - (* next, failure *) eapply shape_soc; [|apply length_close_all | reflexivity | exact C]. intros c. apply strict_close_all.
  - (* add start *) split; [exact Hc|]. intros sid' a' Hl. cbn [adds with_arcs with_adds] in Hl. destruct (Nat.eq_dec sid' sid) as [->|Hne].
    + rewrite lookup_put_same in Hl. inversion Hl; subst. exact H0.
    + rewrite lookup_put_other in Hl by assumption. eauto.
  - split; [exact Hc|]. intros sid' a' Hl. cbn [adds with_arcs with_adds] in Hl. apply in_del_lookup in Hl. eauto.
  - split; [exact Hc|]. intros sid' a' Hl. cbn [adds with_arcs with_adds] in Hl. destruct (Nat.eq_dec sid' sid) as [->|Hne].
    + rewrite lookup_put_same in Hl. inversion Hl; subst. cbn. eauto.
    + rewrite lookup_put_other in Hl by assumption. eauto.
  - (* occupied *) subst c ch1 s1 s2. destruct (inv_entry _ _ I _ _ H2) as [_ Hlt].
    assert (Hnc : cursor (chan_at s (e_ch e)) sid = None).
    { apply (no_cursor s _ sid I Hlt); [eapply inv_ids; eassumption | eapply no_a2_pc; [eassumption | intros c0; congruence]]. }
    split.
    + intros c0 Hlt0. cbn [chans with_arcs with_adds with_streams with_subs] in Hlt0. rewrite chans_set_chan, length_upd in Hlt0. autorewrite with chat.
      destruct (Nat.eq_dec c0 (e_ch e)) as [->|Hne]; [rewrite chan_at_set_same by assumption | rewrite chan_at_set_other by assumption; now apply Hc].
      apply chok_subscribe; [destruct (a_q a); [apply chok_grow|]; now apply Hc | destruct (a_q a); exact Hnc].
    + intros sid' a' Hl. cbn [adds with_arcs with_adds with_streams with_subs set_chan with_chans] in Hl. apply in_del_lookup in Hl. eauto.
  - (* vacant *) subst c capacity s1 s2. split.
    + intros c0 Hlt. cbn [chans with_arcs with_adds with_subs with_chans] in Hlt. rewrite app_length in Hlt. cbn [length] in Hlt. autorewrite with chat.
      destruct (Nat.eq_dec c0 (length (chans s))) as [->|Hne].
      * rewrite chan_at_app_new. split; [|cbn; repeat constructor; tauto]. cbn. specialize (Ha _ _ H).
        destruct (a_q a) as [[|n]|]; [congruence | lia | unfold default_max_queued; lia].
      * rewrite chan_at_app_old by lia. apply Hc. lia.
    + intros sid' a' Hl. cbn [adds with_arcs with_adds] in Hl. destruct (Nat.eq_dec sid' sid) as [->|Hne].
      * rewrite lookup_put_same in Hl. inversion Hl; subst. cbn. eauto.
      * rewrite lookup_put_other in Hl by assumption. eauto.
  - (* add sender *) split; [exact Hc|]. intros sid' a' Hl. cbn [adds with_arcs with_adds] in Hl. apply in_del_lookup in Hl. eauto.
  - (* unfiltered *) apply fresh_spec in H. destruct H as (Hn1 & Hn2 & _). pose proof (inv_len _ _ I) as Hl2.
    eapply (shape_upd s _ 0); [exact C | reflexivity | reflexivity|]. intros Hlt Hk. apply chok_subscribe; [exact Hk|].
    apply (no_cursor s 0 sid I Hlt Hn1). now apply no_a2_none.
  - (* poll *) apply try_recv_got_shape in H0. destruct H0 as [Hcap Hrcv].
    eapply (shape_upd s _ (s_ch st) ch'); [exact C | reflexivity | reflexivity|]. intros _ [K1 K2]. split; [lia | now rewrite Hrcv].
  - apply (shape_bury s sid st) in C. exact C.
  - now apply shape_bury.
  - (* clone *) destruct H as [Hl Hd]. apply fresh_spec in H0. destruct H0 as (Hn1 & Hn2 & _). destruct (inv_stream _ _ I _ _ Hl) as (Hlt & _).
    eapply (shape_upd s _ (s_ch st)); [exact C | reflexivity | reflexivity|]. intros _ Hk. apply chok_clone; [exact Hk|].
    apply (no_cursor s _ sid2 I Hlt Hn1). now apply no_a2_none.
  - (* set capacity *) eapply (shape_upd s _ (s_ch st)); [exact C | reflexivity | reflexivity|]. intros _ Hk. now apply chok_grow.
  - (* async drop starts: as drop *) apply (shape_bury s sid st) in C. exact C.
  - now apply shape_bury.
  - (* async drop, subs, done *) pose proof (rm_apply_frame _ _ _ _ H3) as (_ & _ & Eadd & _).
    assert (C1 : shape_ok s1).
    { eapply (shape_soc s s1); [intros c; eapply strict_rm_apply; eassumption | | exact Eadd | exact C]. apply rm_apply_spec, rm_spec_tables in H3. tauto. }
    exact (shape_bury s1 sid st C1).
  - pose proof (rm_apply_frame _ _ _ _ H3) as (_ & _ & Eadd & _).
    eapply (shape_soc s); [intros c0; autorewrite with chat; eapply strict_rm_apply; eassumption | | exact Eadd | exact C]. cbn [chans with_drops]. apply rm_apply_spec, rm_spec_tables in H3. tauto.
  - (* async drop, sender *)
    assert (C1 : shape_ok (rm_sender s r)) by (eapply (shape_soc s); [intros c0; apply strict_rm_sender | apply length_chans_rm | apply adds_rm | exact C]).
    exact (shape_bury _ sid st C1).
  - pose proof (rm_apply_frame _ _ _ _ H1) as (_ & _ & Eadd & _).
    eapply (shape_soc s); [intros c0; autorewrite with chat; eapply strict_rm_apply; eassumption | | exact Eadd | exact C]. cbn [chans with_tasks]. apply rm_apply_spec, rm_spec_tables in H1. tauto.
  - pose proof (rm_apply_frame _ _ _ _ H1) as (_ & _ & Eadd & _).
    eapply (shape_soc s); [intros c0; autorewrite with chat; eapply strict_rm_apply; eassumption | | exact Eadd | exact C]. cbn [chans with_tasks]. apply rm_apply_spec, rm_spec_tables in H1. tauto.
  - eapply (shape_soc s); [intros c0; autorewrite with chat; apply strict_rm_sender | cbn [chans with_tasks]; apply length_chans_rm | cbn [adds with_tasks]; apply adds_rm | exact C].
  - (* add sender, failed *) split.
    + intros c0 Hlt. cbn [chans with_arcs with_adds with_subs] in Hlt. rewrite chans_set_chan, length_upd in Hlt. autorewrite with chat.
      destruct (Nat.eq_dec c0 c) as [->|Hne]; [rewrite chan_at_set_same by assumption; apply chok_drop; now apply Hc | rewrite chan_at_set_other by assumption; now apply Hc].
    + intros sid' a' Hl. cbn [adds with_arcs with_adds] in Hl. apply in_del_lookup in Hl. eauto.
  - (* drop, shared rule *) apply (shape_bury s sid st) in C. exact C.
  - apply (shape_bury s sid st) in C. exact C.
Qed.

Lemma shape_init : shape_ok init.
Proof.
  split; [|intros sid a H; discriminate]. intros c Hlt. unfold init, chan_at in *. cbn in *.
  destruct c as [|[|c]]; cbn; [| |lia]; split; cbn; try constructor; unfold default_max_queued, method_return_cap; lia.
Qed.

Lemma shape_reach tr s : reach tr s -> shape_ok s.
Proof.
  induction 1 as [|tr s l s' Hr IH Hs]; [exact shape_init|]. eapply shape_step; [apply step_tstep; eassumption | eapply Inv_reach; eassumption | assumption].
Qed.

(* ------------------------------------------------------------------ the reader is blocked only behind a stream the application
   can poll *)
Theorem progress tr s it c todo : reach tr s -> drops s = [] -> reader s = RPush it (c :: todo) -> try_push it (chan_at s c) = PFull ->
  exists sid st s', lookup (streams s) sid = Some st /\ s_ch st = c /\ step (LPoll sid) s = Some s'.
Proof.
  intros Hr Hd Hrd Hfull. pose proof (Inv_reach _ _ _ Hr) as I. pose proof (shape_reach _ _ Hr) as [Hshape _].
  destruct (inv_todo _ _ I _ _ Hrd) as [Htd _]. destruct (Htd c (or_introl eq_refl)) as (k & Hk & _). destruct (inv_shape _ _ I _ _ Hk) as [Hlt _].
  destruct (Hshape _ Hlt) as [Hcap Hnd].
  (* full: the queue is not empty, so some receiver lags *)
  assert (Hq : 0 < qlen (chan_at s c)).
  { unfold try_push in Hfull. destruct (closed (chan_at s c)); [discriminate|]. destruct (rcv (chan_at s c)); [discriminate|].
    destruct (cap (chan_at s c) <=? qlen (chan_at s c)) eqn:E; [|discriminate]. apply Nat.leb_le in E. lia. }
  destruct (qlen_pos_receiver _ Hq) as (id & p & Hin & Hp).
  assert (Hcur : cursor (chan_at s c) id = Some p) by (unfold cursor; now apply cursor_in_nodup).
  destruct (inv_cur _ _ I _ _ _ Hlt Hcur) as [_ [(st & Hst & Hch)|(r & Ha)]].
  - exists id, st. unfold Model.step. rewrite Hst, Hd. cbn [lookup]. rewrite Hch. unfold try_recv. rewrite Hcur.
    destruct (nth_error (log (chan_at s c)) p) as [x|] eqn:En; [eexists; repeat split; reflexivity|].
    apply nth_error_None in En. unfold tail in Hp. lia.
  - (* a call in A2 owns a receiver only on an unregistered channel *)
    destruct (inv_a2 _ _ I _ _ _ Ha) as (_ & Hno & _). destruct (Hno _ Hk).
Qed.

End Progress.
