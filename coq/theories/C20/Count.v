(* C20/Count.v — counting entries of association lists and plain lists (for the reference-count invariant). *)
From ZV Require Import Base.Bytes Base.Res C20.Model C20.Lemmas.
From Coq Require Import Lia.

Definition b2n (b : bool) : nat := if b then 1 else 0.
Definition cnt {A} (P : A -> bool) (l : list A) : nat := length (filter P l).

Lemma cnt_app {A} (P : A -> bool) l1 l2 : cnt P (l1 ++ l2) = cnt P l1 + cnt P l2.
Proof. unfold cnt. now rewrite filter_app, app_length. Qed.
Lemma cnt_one {A} (P : A -> bool) x : cnt P [x] = b2n (P x).
Proof. unfold cnt. cbn. now destruct (P x). Qed.
Lemma cnt_ext {A} (P Q : A -> bool) l : (forall x, In x l -> P x = Q x) -> cnt P l = cnt Q l.
Proof.
  unfold cnt. induction l as [|x l IH]; intros H; [reflexivity|]. cbn. rewrite (H x (or_introl eq_refl)).
  destruct (Q x); cbn; rewrite IH; auto; intros y Hy; apply H; now right.
Qed.
Lemma cnt_zero_iff {A} (P : A -> bool) l : cnt P l = 0 <-> forall x, In x l -> P x = false.
Proof.
  unfold cnt. induction l as [|x l IH]; cbn; [tauto|]. destruct (P x) eqn:E; cbn.
  - split; [discriminate|]. intros H. rewrite (H x (or_introl eq_refl)) in E. discriminate.
  - rewrite IH. split; [intros H y [->|Hy]; auto | intros H y Hy; apply H; now right].
Qed.
Lemma cnt_pos {A} (P : A -> bool) l x : In x l -> P x = true -> 1 <= cnt P l.
Proof.
  intros Hin Hp. destruct (cnt P l) eqn:E; [|lia]. rewrite cnt_zero_iff in E. rewrite (E _ Hin) in Hp. discriminate.
Qed.

(* ---- keyed lists ---- *)
Definition keys_nodup {A} (l : list (nat * A)) : Prop := NoDup (map fst l).

Lemma del_notin {A} (l : list (nat * A)) k : ~ In k (map fst l) -> del l k = l.
Proof.
  induction l as [|[i x] l IH]; cbn; intros H; [reflexivity|]. destruct (Nat.eqb i k) eqn:E.
  - apply Nat.eqb_eq in E. subst. tauto.
  - f_equal. apply IH. tauto.
Qed.
Lemma keys_del {A} (l : list (nat * A)) k : keys_nodup l -> keys_nodup (del l k).
Proof.
  unfold keys_nodup. induction l as [|[i x] l IH]; cbn; intros H; [constructor|]. inversion H; subst.
  destruct (Nat.eqb i k); [now apply IH|]. cbn. constructor; [|now apply IH].
  intros Hin. apply H2. apply in_map_iff in Hin. destruct Hin as (p & E & Hp). apply in_del in Hp. apply in_map_iff. exists p. tauto.
Qed.
Lemma keys_put {A} (l : list (nat * A)) k x : keys_nodup l -> keys_nodup (put l k x).
Proof.
  intros H. unfold put, keys_nodup. rewrite map_app. cbn. apply NoDup_app_one; [now apply keys_del|].
  intros Hin. apply in_map_iff in Hin. destruct Hin as (p & E & Hp). apply in_del in Hp. tauto.
Qed.
Lemma lookup_none_notin {A} (l : list (nat * A)) k : lookup l k = None -> ~ In k (map fst l).
Proof.
  induction l as [|[i x] l IH]; cbn; [tauto|]. destruct (Nat.eqb i k) eqn:E; [discriminate|]. apply Nat.eqb_neq in E. intros H [H1|H1]; [congruence | now apply IH].
Qed.

(* the count splits into the entry under key k and the rest *)
Lemma cnt_split {A} (P : nat * A -> bool) (l : list (nat * A)) k : keys_nodup l ->
  cnt P l = cnt P (del l k) + match lookup l k with Some x => b2n (P (k, x)) | None => 0 end.
Proof.
  unfold keys_nodup, cnt. induction l as [|[i x] l IH]; cbn; intros H; [reflexivity|]. inversion H; subst.
  destruct (Nat.eqb i k) eqn:E.
  - apply Nat.eqb_eq in E. subst i. rewrite (del_notin l k H2). destruct (P (k, x)); cbn; lia.
  - cbn. specialize (IH H3). destruct (P (i, x)); cbn; lia.
Qed.
Lemma cnt_put {A} (P : nat * A -> bool) (l : list (nat * A)) k x : cnt P (put l k x) = cnt P (del l k) + b2n (P (k, x)).
Proof. unfold put. now rewrite cnt_app, cnt_one. Qed.

(* ---- plain lists ---- *)
Lemma cnt_del_nth {A} (P : A -> bool) (l : list A) n y : nth_error l n = Some y -> cnt P (del_nth l n) + b2n (P y) = cnt P l.
Proof.
  unfold cnt. revert n; induction l as [|a l IH]; intros [|n] H; cbn in *; try discriminate.
  - inversion H; subst. destruct (P y); cbn; lia.
  - specialize (IH _ H). destruct (P a); cbn; lia.
Qed.
Lemma cnt_upd {A} (P : A -> bool) (l : list A) n x y : nth_error l n = Some y -> cnt P (upd l n x) + b2n (P y) = cnt P l + b2n (P x).
Proof.
  unfold cnt. revert n; induction l as [|a l IH]; intros [|n] H; cbn in *; try discriminate.
  - inversion H; subst. destruct (P y), (P x); cbn; lia.
  - specialize (IH _ H). destruct (P a); cbn; lia.
Qed.

Lemma del_del {A} (l : list (nat * A)) k : del (del l k) k = del l k.
Proof. induction l as [|[i x] l IH]; cbn; [reflexivity|]. destruct (Nat.eqb i k) eqn:E; [exact IH|]. cbn. rewrite E. now rewrite IH. Qed.
Lemma del_app {A} (l1 l2 : list (nat * A)) k : del (l1 ++ l2) k = del l1 k ++ del l2 k.
Proof. induction l1 as [|[i x] l1 IH]; cbn; [reflexivity|]. destruct (Nat.eqb i k); [exact IH | cbn; now rewrite IH]. Qed.
Lemma del_put {A} (l : list (nat * A)) k x : del (put l k x) k = del l k.
Proof. unfold put. rewrite del_app, del_del. cbn. rewrite Nat.eqb_refl. apply app_nil_r. Qed.
