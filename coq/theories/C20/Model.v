(* C20/Model.v — executable mirror, as a small-step system, of
     zbus/src/connection/mod.rs
        Connection::add_match(rule, max_queued)                                               (MessageStream::for_match_rule)
            if self.inner.msg_senders.lock().await.is_empty() { return Err(BrokenPipe) }      LAddCheck s
            let mut subscriptions = self.inner.subscriptions.lock().await;                    LAddSubs s   (guard kept to the end)
            match subscriptions.entry(rule) {
              Vacant(e)   => { let (sender, receiver) = broadcast(max_queued.unwrap_or(64));
                               let mut senders = self.inner.msg_senders.lock().await;            LAddSender s
                               if senders.is_empty() { return Err(BrokenPipe) }                  (fix 3703ee13)
                               e.insert((1, receiver.clone().deactivate()));
                               senders.insert(Some(rule), sender);
                               Ok(receiver) }
                             (the model inserts the entry already at LAddSubs — `subscriptions` stays locked until LAddSender, so
                              nobody can tell — and takes it back if LAddSender fails)
              Occupied(e) => { *num_subscriptions += 1; if max_queued > capacity { set_capacity(max_queued) }
                               Ok(receiver.activate_cloned()) } }
        Connection::remove_match(rule)                                      (queued by Drop / awaited by AsyncDrop::async_drop)
            let mut subscriptions = self.inner.subscriptions.lock().await;                    LTaskSubs n / LDropSubs s
            match subscriptions.entry(rule) {
              Vacant(_)   => Ok(false),
              Occupied(e) => { e.get_mut().0 -= 1;
                               if e.get().0 == 0 { e.remove();
                                                   self.inner.msg_senders.lock().await.remove(&Some(rule)); }   LTaskSender n / LDropSender s
                               Ok(true) } }
        Connection::queue_remove_match   executor.spawn(remove_match(rule)).detach()
     zbus/src/message_stream.rs
        MessageStream::from(&conn)       conn.msg_receiver.activate_cloned(), no rule                               LUnfiltered s
        Stream::poll_next                the receiver's poll_next                                                    LPoll s
        Inner { match_rule: Option<Arc<OwnedMatchRule>> }  (fix 3c4a83a4)  — [arcs]: one Arc per for_match_rule stream, its holders
        #[derive(Clone)]                 clones the receiver (same cursor) and the Arc (one more holder)             LClone s s2
        Drop for Inner                   if let Some(rule) = match_rule.take().and_then(Arc::into_inner)             LDrop s
                                           { conn.queue_remove_match(rule) }      (only the LAST holder gets the rule back)
        AsyncDrop::async_drop(mut self)  let rule = match_rule.take().and_then(Arc::into_inner); drop(self);
                                         if let Some(rule) = rule { conn.remove_match(rule).await }                   LDropStart s, then
                                         (since fix 90a1ccff the receiver is released BEFORE remove_match)            LTaskSubs n / LTaskSender n
        set_max_queued(n)                set_capacity(n) if n > capacity                                             LSetCap s n
     zbus/src/connection/socket_reader.rs
        SocketReader::receive_msg        loop { let msg = self.read_socket().await;                                  LRead
                                                let mut senders = self.senders.lock().await;                         LFan todo
                                                for (rule, sender) in &*senders {      (HashMap order: any)
                                                    if msg is Ok and rule is Some and !rule.matches(msg) { continue }
                                                    sender.broadcast_direct(msg.clone()).await  (errors ignored) }    LPush
                                                if msg.is_err() { senders.clear(); return } }                        LNext
   The two async mutexes: `subscriptions` is held from L*Subs to the end of the call, so it is busy exactly while some
   add_match sits between its two steps on the Vacant path or some remove_match between its two steps on the last-reference
   path; `msg_senders` is held across steps only by the socket reader during a fan-out (everybody else takes and releases it
   within one step).  Which waiter gets a free mutex is not modelled: any of them may.
   The peer and the transport are LArrive.  Receiver ids on the channels are stream ids.  `matches` is a parameter (C21).
   No proofs in this file. *)
From ZV Require Import Base.Bytes Base.Res C19.Broadcast.

Inductive mtype := TSignal | TReturn | TError | TCall.
Record msg := { m_id : nat; m_type : mtype; m_iface : nat; m_member : nat }.
Inductive ioerr := EEof | EOther.
Inductive item := IMsg (m : msg) | IFail (e : ioerr).

Inductive key := KAll | KRet | KErr | KRule (r : nat).
Record entry := { e_ref : nat; e_ch : nat }.
(* s_from / s_got are ghosts: how many incoming messages had been decided for its channel when it subscribed; what it yielded *)
Record stream := { s_rule : option nat; s_ch : nat; s_from : nat; s_got : list item }.
Inductive addpc := A0 | A1 | A2 (c : nat).
Inductive rmpc := R0 | R1 (c : nat).
Record addst := { a_rule : nat; a_q : option nat; a_pc : addpc }.
Inductive rstate := RIdle | RHave (it : item) | RPush (it : item) (todo : list nat) | RStopped.

Record sys := {
  chans : list (chan item);            (* by channel id; 0 = unfiltered, 1 = method return / error *)
  senders : list (key * nat);          (* msg_senders *)
  subs : list (nat * entry);           (* subscriptions: rule -> (refcount, channel) *)
  streams : list (nat * stream);       (* streams the application holds, by stream id *)
  adds : list (nat * addst);           (* add_match calls in progress, by the id of the stream they will give *)
  drops : list (nat * rmpc);           (* async_drop calls in progress (the stream is still in [streams]) *)
  tasks : list (nat * rmpc);           (* queued remove_match tasks: rule, progress *)
  reader : rstate;
  socket : list item;
  incoming : list msg;                 (* ghost: the messages the socket reader has read, in order *)
  dead : list (nat * stream);          (* ghost: dropped streams, as they were *)
  arcs : list (nat * list nat)         (* the Arc<OwnedMatchRule> values that exist: rule, the streams holding it *)
}.

Definition default_max_queued : nat := 64.
Definition method_return_cap : nat := 8.

Definition init : sys :=
  {| chans := [new_chan default_max_queued; new_chan method_return_cap];
     senders := [(KAll, 0); (KRet, 1); (KErr, 1)]; subs := []; streams := []; adds := []; drops := []; tasks := [];
     reader := RIdle; socket := []; incoming := []; dead := []; arcs := [] |}.

(* ---- association lists ---- *)
Fixpoint lookup {A} (l : list (nat * A)) (k : nat) : option A :=
  match l with
  | [] => None
  | (i, x) :: r => if Nat.eqb i k then Some x else lookup r k
  end.
Fixpoint del {A} (l : list (nat * A)) (k : nat) : list (nat * A) :=
  match l with
  | [] => []
  | (i, x) :: r => if Nat.eqb i k then del r k else (i, x) :: del r k
  end.
Definition put {A} (l : list (nat * A)) (k : nat) (x : A) : list (nat * A) := del l k ++ [(k, x)].

Fixpoint upd {A} (l : list A) (i : nat) (x : A) : list A :=
  match l, i with
  | [], _ => []
  | _ :: r, O => x :: r
  | y :: r, S j => y :: upd r j x
  end.
Fixpoint del_nth {A} (l : list A) (i : nat) : list A :=
  match l, i with
  | [], _ => []
  | _ :: r, O => r
  | y :: r, S j => y :: del_nth r j
  end.

Definition key_eqb (a b : key) : bool :=
  match a, b with
  | KAll, KAll | KRet, KRet | KErr, KErr => true
  | KRule x, KRule y => Nat.eqb x y
  | _, _ => false
  end.
Definition del_key (l : list (key * nat)) (k : key) : list (key * nat) := filter (fun p => negb (key_eqb (fst p) k)) l.

(* ---- setters ---- *)
Definition with_chans (s : sys) (x : list (chan item)) : sys :=
  {| chans := x; senders := senders s; subs := subs s; streams := streams s; adds := adds s; drops := drops s; tasks := tasks s;
     reader := reader s; socket := socket s; incoming := incoming s; dead := dead s; arcs := arcs s |}.
Definition with_senders (s : sys) (x : list (key * nat)) : sys :=
  {| chans := chans s; senders := x; subs := subs s; streams := streams s; adds := adds s; drops := drops s; tasks := tasks s;
     reader := reader s; socket := socket s; incoming := incoming s; dead := dead s; arcs := arcs s |}.
Definition with_subs (s : sys) (x : list (nat * entry)) : sys :=
  {| chans := chans s; senders := senders s; subs := x; streams := streams s; adds := adds s; drops := drops s; tasks := tasks s;
     reader := reader s; socket := socket s; incoming := incoming s; dead := dead s; arcs := arcs s |}.
Definition with_streams (s : sys) (x : list (nat * stream)) : sys :=
  {| chans := chans s; senders := senders s; subs := subs s; streams := x; adds := adds s; drops := drops s; tasks := tasks s;
     reader := reader s; socket := socket s; incoming := incoming s; dead := dead s; arcs := arcs s |}.
Definition with_adds (s : sys) (x : list (nat * addst)) : sys :=
  {| chans := chans s; senders := senders s; subs := subs s; streams := streams s; adds := x; drops := drops s; tasks := tasks s;
     reader := reader s; socket := socket s; incoming := incoming s; dead := dead s; arcs := arcs s |}.
Definition with_drops (s : sys) (x : list (nat * rmpc)) : sys :=
  {| chans := chans s; senders := senders s; subs := subs s; streams := streams s; adds := adds s; drops := x; tasks := tasks s;
     reader := reader s; socket := socket s; incoming := incoming s; dead := dead s; arcs := arcs s |}.
Definition with_tasks (s : sys) (x : list (nat * rmpc)) : sys :=
  {| chans := chans s; senders := senders s; subs := subs s; streams := streams s; adds := adds s; drops := drops s; tasks := x;
     reader := reader s; socket := socket s; incoming := incoming s; dead := dead s; arcs := arcs s |}.
Definition with_reader (s : sys) (x : rstate) : sys :=
  {| chans := chans s; senders := senders s; subs := subs s; streams := streams s; adds := adds s; drops := drops s; tasks := tasks s;
     reader := x; socket := socket s; incoming := incoming s; dead := dead s; arcs := arcs s |}.
Definition with_socket (s : sys) (x : list item) : sys :=
  {| chans := chans s; senders := senders s; subs := subs s; streams := streams s; adds := adds s; drops := drops s; tasks := tasks s;
     reader := reader s; socket := x; incoming := incoming s; dead := dead s; arcs := arcs s |}.
Definition with_incoming (s : sys) (x : list msg) : sys :=
  {| chans := chans s; senders := senders s; subs := subs s; streams := streams s; adds := adds s; drops := drops s; tasks := tasks s;
     reader := reader s; socket := socket s; incoming := x; dead := dead s; arcs := arcs s |}.
Definition with_dead (s : sys) (x : list (nat * stream)) : sys :=
  {| chans := chans s; senders := senders s; subs := subs s; streams := streams s; adds := adds s; drops := drops s; tasks := tasks s;
     reader := reader s; socket := socket s; incoming := incoming s; dead := x; arcs := arcs s |}.
Definition with_arcs (s : sys) (x : list (nat * list nat)) : sys :=
  {| chans := chans s; senders := senders s; subs := subs s; streams := streams s; adds := adds s; drops := drops s; tasks := tasks s;
     reader := reader s; socket := socket s; incoming := incoming s; dead := dead s; arcs := x |}.

Definition chan_at (s : sys) (c : nat) : chan item := nth c (chans s) (new_chan 1).
Definition set_chan (s : sys) (c : nat) (x : chan item) : sys := with_chans s (upd (chans s) c x).

Section Streams.
(* does the rule with this id match the message?  (MatchRule::matches, property C21) *)
Variable matches : nat -> msg -> bool.

Definition key_matches (k : key) (it : item) : bool :=
  match it with
  | IFail _ => true
  | IMsg m =>
      match k with
      | KAll => true
      | KRet => match m_type m with TReturn => true | _ => false end
      | KErr => match m_type m with TError => true | _ => false end
      | KRule r => matches r m
      end
  end.
(* the channels the item has to go to, in the order of the table *)
Definition targets (l : list (key * nat)) (it : item) : list nat :=
  map snd (filter (fun p => key_matches (fst p) it) l).

Fixpoint remove_one (x : nat) (l : list nat) : option (list nat) :=
  match l with
  | [] => None
  | y :: r => if Nat.eqb x y then Some r else option_map (cons y) (remove_one x r)
  end.
Fixpoint is_perm (a b : list nat) : bool :=
  match a with
  | [] => match b with [] => true | _ => false end
  | x :: a' => match remove_one x b with Some b' => is_perm a' b' | None => false end
  end.

Definition mem_nat (x : nat) (l : list nat) : bool := existsb (Nat.eqb x) l.

(* the socket reader holds msg_senders *)
Definition senders_held (s : sys) : bool := match reader s with RPush _ _ => true | _ => false end.
(* somebody holds subscriptions *)
Definition subs_busy (s : sys) : bool :=
  existsb (fun p => match a_pc (snd p) with A2 _ => true | _ => false end) (adds s) ||
  existsb (fun p => match snd p with R1 _ => true | _ => false end) (drops s) ||
  existsb (fun p => match snd p with R1 _ => true | _ => false end) (tasks s).

(* how many of the incoming messages have been decided for channel c (pushed, skipped or found not to match) *)
Definition pending_on (s : sys) (c : nat) : bool :=
  match reader s with
  | RHave (IMsg _) => true
  | RPush (IMsg _) todo => mem_nat c todo
  | _ => false
  end.
Definition seen (s : sys) (c : nat) : nat := length (incoming s) - (if pending_on s c then 1 else 0).

Definition fresh (s : sys) (sid : nat) : bool :=
  match lookup (streams s) sid, lookup (adds s) sid, lookup (dead s) sid with None, None, None => true | _, _, _ => false end.

Inductive label :=
  | LArrive (it : item)
  | LRead | LFan (todo : list nat) | LPush | LNext
  | LAddStart (sid r : nat) (q : option nat) | LAddCheck (sid : nat) | LAddSubs (sid : nat) | LAddSender (sid : nat)
  | LUnfiltered (sid : nat) | LPoll (sid : nat) | LDrop (sid : nat) | LClone (sid sid2 : nat) | LSetCap (sid n : nat)
  | LDropStart (sid : nat) | LDropSubs (sid : nat) | LDropSender (sid : nat)
  | LTaskSubs (n : nat) | LTaskSender (n : nat).

(* ---- the shared rule (Arc) of a stream and its clones ---- *)
Definition holds (sid : nat) (p : nat * list nat) : bool := existsb (Nat.eqb sid) (snd p).
(* which Arc the stream holds: the position of the first entry that lists it *)
Fixpoint idx_of (a : list (nat * list nat)) (sid : nat) : option nat :=
  match a with
  | [] => None
  | p :: r => if holds sid p then Some 0 else option_map S (idx_of r sid)
  end.
Fixpoint remove_nat (x : nat) (l : list nat) : list nat :=
  match l with [] => [] | y :: r => if Nat.eqb x y then remove_nat x r else y :: remove_nat x r end.
Definition leave (a : list (nat * list nat)) (sid : nat) : list (nat * list nat) :=
  map (fun p => (fst p, remove_nat sid (snd p))) a.
(* Clone: one more holder of the Arc the original holds (a stream without rule holds none) *)
Definition join (a : list (nat * list nat)) (sid sid2 : nat) : list (nat * list nat) :=
  map (fun p => if holds sid p then (fst p, snd p ++ [sid2]) else p) a.
(* match_rule.take().and_then(Arc::into_inner): the holder lets go; true = it was the last one and gets the rule back *)
Definition release (a : list (nat * list nat)) (sid : nat) : list (nat * list nat) * bool :=
  match idx_of a sid with
  | Some i => let a1 := leave a sid in
              match nth_error a1 i with
              | Some (_, []) => (del_nth a1 i, true)
              | _ => (a1, false)
              end
  | None => (a, true)
  end.

(* the stream value goes away: its receiver is dropped, the record moves to [dead] *)
Definition bury (s : sys) (sid : nat) (st : stream) : sys :=
  with_dead (with_streams (set_chan s (s_ch st) (drop_rcv sid (chan_at s (s_ch st)))) (del (streams s) sid))
            (dead s ++ [(sid, st)]).

(* remove_match after it has the subscriptions lock: (new state, Some c = it still has to remove the sender of channel c) *)
Definition rm_apply (s : sys) (r : nat) : sys * option nat :=
  match lookup (subs s) r with
  | None => (s, None)
  | Some e =>
      match e_ref e with
      | S (S n) => (with_subs s (put (subs s) r {| e_ref := S n; e_ch := e_ch e |}), None)
      | _ =>
          (* the entry goes, and its InactiveReceiver with it: a channel without any receiver closes *)
          let s1 := with_subs s (del (subs s) r) in
          let c := e_ch e in
          let s2 := match rcv (chan_at s1 c) with [] => set_chan s1 c (close (chan_at s1 c)) | _ => s1 end in
          (s2, Some c)
      end
  end.
(* msg_senders.remove(&Some(rule)): the Sender of that rule, if it is still in the table, is dropped and its channel closes *)
Definition chan_of_key (l : list (key * nat)) (k : key) : option nat :=
  option_map snd (find (fun p => key_eqb (fst p) k) l).
Definition rm_sender (s : sys) (r : nat) : sys :=
  let s1 := with_senders s (del_key (senders s) (KRule r)) in
  match chan_of_key (senders s) (KRule r) with
  | Some c => set_chan s1 c (close (chan_at s c))
  | None => s1
  end.

Definition step (l : label) (s : sys) : option sys :=
  match l with
  | LArrive it => Some (with_socket s (socket s ++ [it]))
  | LRead =>
      match reader s, socket s with
      | RIdle, it :: rest =>
          let s1 := with_reader (with_socket s rest) (RHave it) in
          Some (match it with IMsg m => with_incoming s1 (incoming s ++ [m]) | IFail _ => s1 end)
      | _, _ => None
      end
  | LFan todo =>
      match reader s with
      | RHave it => if is_perm todo (targets (senders s) it) then Some (with_reader s (RPush it todo)) else None
      | _ => None
      end
  | LPush =>
      match reader s with
      | RPush it (c :: todo) =>
          match try_push it (chan_at s c) with
          | Pushed ch' => Some (with_reader (set_chan s c ch') (RPush it todo))
          | PFull => None
          | PNoRecv | PClosed => Some (with_reader s (RPush it todo))
          end
      | _ => None
      end
  | LNext =>
      match reader s with
      | RPush (IMsg _) [] => Some (with_reader s RIdle)
      | RPush (IFail _) [] =>
          (* senders.clear(): every channel loses its last sender and closes *)
          let cs := map snd (senders s) in
          let chans' := map (fun p => if mem_nat (fst p) cs then close (snd p) else snd p)
                            (combine (seq 0 (length (chans s))) (chans s)) in
          Some (with_reader (with_senders (with_chans s chans') []) RStopped)
      | _ => None
      end
  | LAddStart sid r q =>
      if fresh s sid && match q with Some O => false | _ => true end
      then Some (with_adds s (put (adds s) sid {| a_rule := r; a_q := q; a_pc := A0 |})) else None
  | LAddCheck sid =>
      match lookup (adds s) sid with
      | Some a => match a_pc a with
                  | A0 => if senders_held s then None
                          else match senders s with
                               | [] => Some (with_adds s (del (adds s) sid))          (* Err(BrokenPipe) *)
                               | _ => Some (with_adds s (put (adds s) sid {| a_rule := a_rule a; a_q := a_q a; a_pc := A1 |}))
                               end
                  | _ => None
                  end
      | None => None
      end
  | LAddSubs sid =>
      match lookup (adds s) sid with
      | Some a =>
          match a_pc a with
          | A1 =>
              if subs_busy s then None else
              let r := a_rule a in
              match lookup (subs s) r with
              | Some e =>
                  let c := e_ch e in
                  let ch1 := match a_q a with Some n => grow n (chan_at s c) | None => chan_at s c end in
                  let s1 := set_chan s c (subscribe sid ch1) in
                  let s2 := with_subs s1 (put (subs s1) r {| e_ref := S (e_ref e); e_ch := c |}) in
                  let st := {| s_rule := Some r; s_ch := c; s_from := seen s c; s_got := [] |} in
                  Some (with_arcs (with_adds (with_streams s2 (put (streams s2) sid st)) (del (adds s2) sid)) (arcs s ++ [(r, [sid])]))
              | None =>
                  let c := length (chans s) in
                  let capacity := match a_q a with Some n => n | None => default_max_queued end in
                  let s1 := with_chans s (chans s ++ [subscribe sid (new_chan capacity)]) in
                  let s2 := with_subs s1 (put (subs s1) r {| e_ref := 1; e_ch := c |}) in
                  Some (with_adds s2 (put (adds s2) sid {| a_rule := r; a_q := a_q a; a_pc := A2 c |}))
              end
          | _ => None
          end
      | None => None
      end
  | LAddSender sid =>
      match lookup (adds s) sid with
      | Some a =>
          match a_pc a with
          | A2 c =>
              if senders_held s then None else
              let r := a_rule a in
              match senders s with
              | [] =>
                  (* fix 3703ee13: the reader has failed meanwhile (msg_senders cleared): Err(BrokenPipe); the entry is not
                     inserted (the model had put it at LAddSubs: taken back), sender and receiver of the new channel are dropped *)
                  Some (with_adds (with_subs (set_chan s c (drop_rcv sid (chan_at s c))) (del (subs s) r)) (del (adds s) sid))
              | _ =>
                  let st := {| s_rule := Some r; s_ch := c; s_from := seen s c; s_got := [] |} in
                  Some (with_arcs (with_adds (with_streams (with_senders s (senders s ++ [(KRule r, c)])) (put (streams s) sid st))
                                             (del (adds s) sid)) (arcs s ++ [(r, [sid])]))
              end
          | _ => None
          end
      | None => None
      end
  | LUnfiltered sid =>
      if fresh s sid then
        let st := {| s_rule := None; s_ch := 0; s_from := seen s 0; s_got := [] |} in
        Some (with_streams (set_chan s 0 (subscribe sid (chan_at s 0))) (put (streams s) sid st))
      else None
  | LPoll sid =>
      match lookup (streams s) sid, lookup (drops s) sid with
      | Some st, None =>
          match try_recv sid (chan_at s (s_ch st)) with
          | Got x ch' =>
              let st' := {| s_rule := s_rule st; s_ch := s_ch st; s_from := s_from st; s_got := s_got st ++ [x] |} in
              Some (with_streams (set_chan s (s_ch st) ch') (put (streams s) sid st'))
          | RClosed => Some s                           (* Poll::Ready(None) *)
          | REmpty | RNoSuch => None
          end
      | _, _ => None
      end
  | LDrop sid =>
      match lookup (streams s) sid, lookup (drops s) sid with
      | Some st, None =>
          let s1 := bury s sid st in
          Some (match s_rule st with
                | Some r => match release (arcs s) sid with
                            | (a', true) => with_arcs (with_tasks s1 (tasks s1 ++ [(r, R0)])) a'
                            | (a', false) => with_arcs s1 a'
                            end
                | None => s1
                end)
      | _, _ => None
      end
  | LClone sid sid2 =>
      match lookup (streams s) sid, lookup (drops s) sid with
      | Some st, None =>
          if fresh s sid2 then
            Some (with_arcs (with_streams (set_chan s (s_ch st) (clone_rcv sid sid2 (chan_at s (s_ch st))))
                                          (put (streams s) sid2 st)) (join (arcs s) sid sid2))
          else None
      | _, _ => None
      end
  | LSetCap sid n =>
      match lookup (streams s) sid, lookup (drops s) sid with
      | Some st, None => Some (set_chan s (s_ch st) (grow n (chan_at s (s_ch st))))
      | _, _ => None
      end
  | LDropStart sid =>
      match lookup (streams s) sid, lookup (drops s) sid with
      | Some st, None =>
          (* the receiver goes first (drop(self)), then remove_match(rule) runs — the same call that Drop spawns as a task;
             who polls it (the async_drop future or the executor) makes no difference to what it does *)
          let s1 := bury s sid st in
          Some (match s_rule st with
                | Some r => match release (arcs s) sid with
                            | (a', true) => with_arcs (with_tasks s1 (tasks s1 ++ [(r, R0)])) a'
                            | (a', false) => with_arcs s1 a'
                            end
                | None => s1
                end)
      | _, _ => None
      end
  | LDropSubs sid =>
      match lookup (streams s) sid, lookup (drops s) sid with
      | Some st, Some R0 =>
          if subs_busy s then None else
          match s_rule st with
          | Some r =>
              match rm_apply s r with
              | (s1, None) => Some (with_drops (bury s1 sid st) (del (drops s1) sid))
              | (s1, Some c) => Some (with_drops s1 (put (drops s1) sid (R1 c)))
              end
          | None => None
          end
      | _, _ => None
      end
  | LDropSender sid =>
      match lookup (streams s) sid, lookup (drops s) sid with
      | Some st, Some (R1 c) =>
          if senders_held s then None else
          match s_rule st with
          | Some r => let s1 := rm_sender s r in Some (with_drops (bury s1 sid st) (del (drops s1) sid))
          | None => None
          end
      | _, _ => None
      end
  | LTaskSubs n =>
      match nth_error (tasks s) n with
      | Some (r, R0) =>
          if subs_busy s then None else
          match rm_apply s r with
          | (s1, None) => Some (with_tasks s1 (del_nth (tasks s1) n))
          | (s1, Some c) => Some (with_tasks s1 (upd (tasks s1) n (r, R1 c)))
          end
      | _ => None
      end
  | LTaskSender n =>
      match nth_error (tasks s) n with
      | Some (r, R1 c) =>
          if senders_held s then None else
          let s1 := rm_sender s r in Some (with_tasks s1 (del_nth (tasks s1) n))
      | _ => None
      end
  end.

Fixpoint exec (tr : list label) (s : sys) : option sys :=
  match tr with
  | [] => Some s
  | l :: r => match step l s with Some s' => exec r s' | None => None end
  end.

Inductive reach : list label -> sys -> Prop :=
  | reach_init : reach [] init
  | reach_step tr s l s' : reach tr s -> step l s = Some s' -> reach (tr ++ [l]) s'.

End Streams.
