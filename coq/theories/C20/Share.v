(* C20/Share.v — the reference count of a subscription is the number of its holders: the live streams created for the rule
   (until their remove_match has been applied), the queued remove_match tasks that have not run yet, and the add_match call
   that is just creating it.  Holds as long as no stream has been cloned. *)
From ZV Require Import Base.Bytes Base.Res C19.Broadcast C19.BroadcastFacts C20.Model C20.Lemmas C20.Steps C20.Inv C20.InvG1 C20.InvG2 C20.InvG3
  C20.Proofs C20.Count.
From Coq Require Import Lia Permutation.

Definition in_r1 (s : sys) (sid : nat) : bool := match lookup (drops s) sid with Some (R1 _) => true | _ => false end.
Definition rule_is (r : nat) (st : stream) : bool := match s_rule st with Some r' => Nat.eqb r' r | None => false end.
Definition holds_stream (s : sys) (r : nat) (p : nat * stream) : bool := rule_is r (snd p) && negb (in_r1 s (fst p)).
Definition holds_task (r : nat) (p : nat * rmpc) : bool := Nat.eqb (fst p) r && match snd p with R0 => true | R1 _ => false end.
Definition holds_add (r : nat) (p : nat * addst) : bool := Nat.eqb (a_rule (snd p)) r && match a_pc (snd p) with A2 _ => true | _ => false end.
Definition holders (s : sys) (r : nat) : nat :=
  cnt (holds_stream s r) (streams s) + cnt (holds_task r) (tasks s) + cnt (holds_add r) (adds s).

Definition keys_ok (s : sys) : Prop := keys_nodup (streams s) /\ keys_nodup (adds s).

Definition refs_ok (s : sys) : Prop :=
  (forall r, match lookup (subs s) r with Some e => e_ref e = holders s r | None => holders s r = 0 end) /\
  (forall sid st r e, lookup (streams s) sid = Some st -> s_rule st = Some r -> in_r1 s sid = false -> lookup (subs s) r = Some e -> s_ch st = e_ch e).

Lemma keys_bury s sid st : keys_ok s -> keys_ok (bury s sid st).
Proof. intros [H1 H2]. split; [rewrite streams_bury; now apply keys_del | exact H2]. Qed.

(* ---- how the three counts move when one key of a table changes ---- *)
Definition contrib_s (s : sys) (r sid : nat) : nat :=
  match lookup (streams s) sid with Some st => b2n (holds_stream s r (sid, st)) | None => 0 end.
Definition contrib_a (s : sys) (r sid : nat) : nat :=
  match lookup (adds s) sid with Some a => b2n (holds_add r (sid, a)) | None => 0 end.

Lemma S_change s s' sid r : keys_nodup (streams s) -> keys_nodup (streams s') -> del (streams s') sid = del (streams s) sid ->
  (forall sid', sid' <> sid -> in_r1 s' sid' = in_r1 s sid') ->
  cnt (holds_stream s' r) (streams s') + contrib_s s r sid = cnt (holds_stream s r) (streams s) + contrib_s s' r sid.
Proof.
  intros K K' Ed Hin. rewrite (cnt_split (holds_stream s r) (streams s) sid K), (cnt_split (holds_stream s' r) (streams s') sid K').
  unfold contrib_s. rewrite Ed. assert (E : cnt (holds_stream s' r) (del (streams s) sid) = cnt (holds_stream s r) (del (streams s) sid)).
  { apply cnt_ext. intros [sid' st] Hi. apply in_del in Hi. destruct Hi as [_ Hne]. cbn in Hne. unfold holds_stream. cbn. now rewrite (Hin _ Hne). }
  rewrite E. lia.
Qed.

Lemma A_change s s' sid r : keys_nodup (adds s) -> keys_nodup (adds s') -> del (adds s') sid = del (adds s) sid ->
  cnt (holds_add r) (adds s') + contrib_a s r sid = cnt (holds_add r) (adds s) + contrib_a s' r sid.
Proof.
  intros K K' Ed. rewrite (cnt_split (holds_add r) (adds s) sid K), (cnt_split (holds_add r) (adds s') sid K'). unfold contrib_a. rewrite Ed. lia.
Qed.

Lemma S_same s s' r : streams s' = streams s -> (forall sid, in_r1 s' sid = in_r1 s sid) -> cnt (holds_stream s' r) (streams s') = cnt (holds_stream s r) (streams s).
Proof. intros Es Hin. rewrite Es. apply cnt_ext. intros [sid st] _. unfold holds_stream. cbn. now rewrite Hin. Qed.

Lemma S_pred s s' r : (forall sid, in_r1 s' sid = in_r1 s sid) -> forall l, cnt (holds_stream s' r) l = cnt (holds_stream s r) l.
Proof. intros Hin l. apply cnt_ext. intros [sid st] _. unfold holds_stream. cbn. now rewrite Hin. Qed.

Lemma in_r1_drops s s' : drops s' = drops s -> forall sid, in_r1 s' sid = in_r1 s sid.
Proof. intros E sid. unfold in_r1. now rewrite E. Qed.

Lemma holds_stream_val s r sid st : holds_stream s r (sid, st) = rule_is r st && negb (in_r1 s sid).
Proof. reflexivity. Qed.
Lemma holds_task_val r r' pc : holds_task r (r', pc) = Nat.eqb r' r && match pc with R0 => true | R1 _ => false end.
Proof. reflexivity. Qed.

Lemma holds_add_pc r sid a : (forall c, a_pc a <> A2 c) -> holds_add r (sid, a) = false.
Proof. intros H. unfold holds_add. cbn. destruct (a_pc a) eqn:E; try apply andb_false_r. destruct (H _ eq_refl). Qed.
Lemma holds_add_a2 r sid a c : a_pc a = A2 c -> holds_add r (sid, a) = Nat.eqb (a_rule a) r.
Proof. intros H. unfold holds_add. cbn. rewrite H. apply andb_true_r. Qed.

Section Share.
Variable matches : nat -> msg -> bool.
Notation tstep := (Steps.tstep matches).
Notation Inv := (Inv.Inv matches).
Notation reach := (Model.reach matches).

Lemma keys_step s l s' : tstep s l s' -> keys_ok s -> keys_ok s'.
Proof.
  intros Hs K. pose proof K as [K1 K2].
  destruct Hs; try exact K; try (split; cbn [streams adds with_streams with_adds with_subs with_chans with_senders with_cloned set_chan];
                                 first [now apply keys_put | now apply keys_del | assumption]).
  - pose proof (rm_apply_frame _ _ _ _ H3) as (_ & Estr & Eadd & _). assert (K' : keys_ok s1) by (split; [now rewrite Estr | now rewrite Eadd]).
    exact (keys_bury s1 sid st K').
  - pose proof (rm_apply_frame _ _ _ _ H3) as (_ & Estr & Eadd & _). split; cbn [streams adds with_drops]; [now rewrite Estr | now rewrite Eadd].
  - assert (K' : keys_ok (rm_sender s r)) by (split; [now rewrite streams_rm | now rewrite adds_rm]). exact (keys_bury _ sid st K').
  - pose proof (rm_apply_frame _ _ _ _ H1) as (_ & Estr & Eadd & _). split; cbn [streams adds with_tasks]; [now rewrite Estr | now rewrite Eadd].
  - pose proof (rm_apply_frame _ _ _ _ H1) as (_ & Estr & Eadd & _). split; cbn [streams adds with_tasks]; [now rewrite Estr | now rewrite Eadd].
  - split; cbn [streams adds with_tasks]; [now rewrite streams_rm | now rewrite adds_rm].
Qed.

Lemma keys_reach tr s : reach tr s -> keys_ok s.
Proof.
  induction 1 as [|tr s l s' Hr IH Hs]; [split; constructor|]. eapply keys_step; [apply step_tstep; eassumption | assumption].
Qed.

Definition count_ok (s : sys) : Prop :=
  forall r, match lookup (subs s) r with Some e => e_ref e = holders s r | None => holders s r = 0 end.

(* tables unchanged: the equation carries over *)
Lemma count_same s s' : count_ok s -> subs s' = subs s -> streams s' = streams s -> adds s' = adds s -> tasks s' = tasks s -> drops s' = drops s -> count_ok s'.
Proof.
  intros C Esub Es Ea Et Ed r. specialize (C r). unfold holders in *. rewrite Esub, Ea, Et.
  rewrite (S_same s s' r Es (in_r1_drops s s' Ed)). exact C.
Qed.

Lemma rule_is_eqb r r0 st : s_rule st = Some r0 -> rule_is r st = Nat.eqb r0 r.
Proof. intros H. unfold rule_is. now rewrite H. Qed.

(* an add_match call that has just created the entry of its rule is its only holder *)
Definition a2_one (s : sys) : Prop := forall sid r c, a2 s sid r c -> holders s r = 1.

Lemma count_step s l s' : tstep s l s' -> Inv s -> keys_ok s -> keys_ok s' -> (forall a b, l <> LClone a b) -> a2_one s -> count_ok s -> count_ok s'.
Proof.
  intros Hs I [Ks Ka] [Ks' Ka'] Hnc Aone C.
  destruct Hs; try (eapply count_same; [exact C | reflexivity..]).
  - (* add start: a call in A0 holds nothing *)
    apply fresh_spec in H. destruct H as (_ & Hn & _). intros r0. specialize (C r0). unfold holders in *. cbn [subs streams adds tasks with_adds] in *.
    rewrite (S_pred s _ r0 (in_r1_drops s _ eq_refl)).
    pose proof (A_change s (with_adds s (put (adds s) sid {| a_rule := r; a_q := q; a_pc := A0 |})) sid r0 Ka Ka' (del_put _ _ _)) as HA.
    unfold contrib_a in HA. cbn [adds with_adds] in HA. rewrite lookup_put_same, Hn in HA. rewrite holds_add_pc in HA by (intros c0; discriminate). cbn [b2n] in HA.
    destruct (lookup (subs s) r0); lia.
  - (* add check fails *)
    intros r0. specialize (C r0). unfold holders in *. cbn [subs streams adds tasks with_adds] in *. rewrite (S_pred s _ r0 (in_r1_drops s _ eq_refl)).
    pose proof (A_change s (with_adds s (del (adds s) sid)) sid r0 Ka Ka' (del_del _ _)) as HA.
    unfold contrib_a in HA. cbn [adds with_adds] in HA. rewrite lookup_del_same, H in HA. rewrite holds_add_pc in HA by (intros c0; congruence). cbn [b2n] in HA.
    destruct (lookup (subs s) r0); lia.
  - (* add check ok *)
    intros r0. specialize (C r0). unfold holders in *. cbn [subs streams adds tasks with_adds] in *. rewrite (S_pred s _ r0 (in_r1_drops s _ eq_refl)).
    pose proof (A_change s (with_adds s (put (adds s) sid (add_at a A1))) sid r0 Ka Ka' (del_put _ _ _)) as HA.
    unfold contrib_a in HA. cbn [adds with_adds] in HA. rewrite lookup_put_same, H in HA.
    rewrite (holds_add_pc r0 sid a) in HA by (intros c0; congruence). rewrite holds_add_pc in HA by (intros c0; cbn; discriminate). cbn [b2n] in HA.
    destruct (lookup (subs s) r0); lia.
  - (* occupied: one more holder, one more reference *)
    subst c ch1 s1 s2. set (r1 := a_rule a) in *.
    set (s' := with_adds _ _). assert (Es : streams s' = put (streams s) sid (mk_stream (Some r1) (e_ch e) (seen s (e_ch e)))) by reflexivity.
    assert (Ed : drops s' = drops s) by reflexivity.
    pose proof (inv_ids _ _ I _ _ H) as Hns. pose proof (live_no_drop _ _ _ I Hns) as Hnd.
    intros r0. specialize (C r0). unfold holders in *.
    pose proof (S_change s s' sid r0 Ks Ks' ltac:(rewrite Es; apply del_put) (fun sid' _ => in_r1_drops s s' Ed sid')) as HS.
    pose proof (A_change s s' sid r0 Ka Ka' ltac:(apply del_del)) as HA.
    unfold contrib_s in HS. rewrite (eq_trans (f_equal (fun l => lookup l sid) Es) (lookup_put_same _ _ _)), Hns in HS. rewrite holds_stream_val in HS.
    rewrite (in_r1_drops s s' Ed) in HS. unfold in_r1 in HS. rewrite Hnd in HS. cbn [negb] in HS. rewrite andb_true_r in HS. rewrite (rule_is_eqb r0 r1) in HS by reflexivity.
    unfold contrib_a in HA. change (adds s') with (del (adds s) sid) in HA at 2. rewrite lookup_del_same, H in HA. rewrite holds_add_pc in HA by (intros c0; congruence). cbn [b2n] in HA.
    change (tasks s') with (tasks s). change (subs s') with (put (subs s) r1 {| e_ref := S (e_ref e); e_ch := e_ch e |}).
    destruct (Nat.eq_dec r0 r1) as [->|Hne].
    + rewrite lookup_put_same. rewrite H2 in C. rewrite Nat.eqb_refl in HS. cbn [e_ref b2n] in *. lia.
    + rewrite lookup_put_other by assumption. replace (Nat.eqb r1 r0) with false in HS by (symmetry; apply Nat.eqb_neq; congruence). cbn [b2n] in HS.
      destruct (lookup (subs s) r0); lia.
  - (* vacant: the call itself is the one holder *)
    subst c capacity s1 s2. set (r1 := a_rule a) in *. set (s' := with_adds _ _).
    intros r0. specialize (C r0). unfold holders in *.
    pose proof (A_change s s' sid r0 Ka Ka' ltac:(apply del_put)) as HA.
    unfold contrib_a in HA. change (adds s') with (put (adds s) sid (add_at a (A2 (length (chans s))))) in HA at 2. rewrite lookup_put_same, H in HA.
    rewrite (holds_add_pc r0 sid a) in HA by (intros c0; congruence). rewrite (holds_add_a2 r0 sid _ (length (chans s))) in HA by reflexivity. cbn [b2n a_rule add_at] in HA.
    change (tasks s') with (tasks s). change (streams s') with (streams s). rewrite (S_pred s s' r0 (in_r1_drops s s' eq_refl)).
    change (subs s') with (put (subs s) r1 {| e_ref := 1; e_ch := length (chans s) |}).
    destruct (Nat.eq_dec r0 r1) as [->|Hne].
    + rewrite lookup_put_same. rewrite H2 in C. fold r1 in HA. rewrite Nat.eqb_refl in HA. cbn [e_ref b2n] in *. lia.
    + rewrite lookup_put_other by assumption. fold r1 in HA. replace (Nat.eqb r1 r0) with false in HA by (symmetry; apply Nat.eqb_neq; congruence). cbn [b2n] in HA.
      destruct (lookup (subs s) r0); lia.
  - (* add sender: the call hands its reference to the stream *)
    set (r1 := a_rule a) in *. set (s' := with_adds _ _).
    assert (Es : streams s' = put (streams s) sid (mk_stream (Some r1) c (seen s c))) by reflexivity. assert (Ed : drops s' = drops s) by reflexivity.
    pose proof (inv_ids _ _ I _ _ H) as Hns. pose proof (live_no_drop _ _ _ I Hns) as Hnd.
    intros r0. specialize (C r0). unfold holders in *.
    pose proof (S_change s s' sid r0 Ks Ks' ltac:(rewrite Es; apply del_put) (fun sid' _ => in_r1_drops s s' Ed sid')) as HS.
    pose proof (A_change s s' sid r0 Ka Ka' ltac:(apply del_del)) as HA.
    unfold contrib_s in HS. rewrite (eq_trans (f_equal (fun l => lookup l sid) Es) (lookup_put_same _ _ _)), Hns in HS. rewrite holds_stream_val in HS.
    rewrite (in_r1_drops s s' Ed) in HS. unfold in_r1 in HS. rewrite Hnd in HS. cbn [negb] in HS. rewrite andb_true_r in HS. rewrite (rule_is_eqb r0 r1) in HS by reflexivity.
    unfold contrib_a in HA. change (adds s') with (del (adds s) sid) in HA at 2. rewrite lookup_del_same, H in HA. rewrite (holds_add_a2 r0 sid a c H0) in HA. fold r1 in HA.
    change (tasks s') with (tasks s). change (subs s') with (subs s). destruct (lookup (subs s) r0); lia.
  - (* unfiltered: no rule, no reference *)
    apply fresh_spec in H. destruct H as (Hns & _). pose proof (live_no_drop _ _ _ I Hns) as Hnd. set (s' := with_streams _ _).
    assert (Es : streams s' = put (streams s) sid (mk_stream None 0 (seen s 0))) by reflexivity. assert (Ed : drops s' = drops s) by reflexivity.
    intros r0. specialize (C r0). unfold holders in *.
    pose proof (S_change s s' sid r0 Ks Ks' ltac:(rewrite Es; apply del_put) (fun sid' _ => in_r1_drops s s' Ed sid')) as HS.
    unfold contrib_s in HS. rewrite (eq_trans (f_equal (fun l => lookup l sid) Es) (lookup_put_same _ _ _)), Hns in HS. rewrite holds_stream_val in HS. unfold rule_is in HS. cbn [s_rule mk_stream andb b2n] in HS.
    change (tasks s') with (tasks s). change (subs s') with (subs s). change (adds s') with (adds s). destruct (lookup (subs s) r0); lia.
  - (* poll: the record changes, the rule does not *)
    destruct H as [Hl Hd]. set (s' := with_streams _ _). assert (Es : streams s' = put (streams s) sid (got_more st x)) by reflexivity. assert (Ed : drops s' = drops s) by reflexivity.
    intros r0. specialize (C r0). unfold holders in *.
    pose proof (S_change s s' sid r0 Ks Ks' ltac:(rewrite Es; apply del_put) (fun sid' _ => in_r1_drops s s' Ed sid')) as HS.
    unfold contrib_s in HS. rewrite (eq_trans (f_equal (fun l => lookup l sid) Es) (lookup_put_same _ _ _)), Hl in HS. rewrite !holds_stream_val in HS. rewrite (in_r1_drops s s' Ed) in HS.
    change (rule_is r0 (got_more st x)) with (rule_is r0 st) in HS.
    change (tasks s') with (tasks s). change (subs s') with (subs s). change (adds s') with (adds s). destruct (lookup (subs s) r0); lia.
  - (* drop: the stream's reference passes to the queued remove_match *)
    destruct H as [Hl Hd]. set (s' := with_tasks _ _). assert (Es : streams s' = del (streams s) sid) by reflexivity. assert (Ed : drops s' = drops s) by reflexivity.
    intros r0. specialize (C r0). unfold holders in *.
    pose proof (S_change s s' sid r0 Ks Ks' ltac:(rewrite Es; apply del_del) (fun sid' _ => in_r1_drops s s' Ed sid')) as HS.
    unfold contrib_s in HS. rewrite (eq_trans (f_equal (fun l => lookup l sid) Es) (lookup_del_same _ _)), Hl in HS. rewrite holds_stream_val in HS. unfold in_r1 in HS. rewrite Hd in HS. cbn [negb] in HS.
    rewrite andb_true_r, (rule_is_eqb r0 r st H0) in HS.
    change (tasks s') with (tasks s ++ [(r, R0)]). rewrite cnt_app, cnt_one. rewrite holds_task_val, andb_true_r.
    change (subs s') with (subs s). change (adds s') with (adds s). destruct (lookup (subs s) r0); lia.
  - (* drop of an unfiltered stream *)
    destruct H as [Hl Hd]. set (s' := bury _ _ _). assert (Es : streams s' = del (streams s) sid) by reflexivity. assert (Ed : drops s' = drops s) by reflexivity.
    intros r0. specialize (C r0). unfold holders in *.
    pose proof (S_change s s' sid r0 Ks Ks' ltac:(rewrite Es; apply del_del) (fun sid' _ => in_r1_drops s s' Ed sid')) as HS.
    unfold contrib_s in HS. rewrite (eq_trans (f_equal (fun l => lookup l sid) Es) (lookup_del_same _ _)), Hl in HS. rewrite holds_stream_val in HS. unfold rule_is in HS. rewrite H0 in HS. cbn [andb b2n] in HS.
    change (tasks s') with (tasks s). change (subs s') with (subs s). change (adds s') with (adds s). destruct (lookup (subs s) r0); lia.
  - (* clone: excluded *) exfalso. eapply Hnc. reflexivity.
  - (* async drop starts: the receiver is released, the stream's reference passes to the remove_match that follows *)
    destruct H as [Hl Hd]. set (s' := with_tasks _ _). assert (Es : streams s' = del (streams s) sid) by reflexivity. assert (Ed : drops s' = drops s) by reflexivity.
    intros r0. specialize (C r0). unfold holders in *.
    pose proof (S_change s s' sid r0 Ks Ks' ltac:(rewrite Es; apply del_del) (fun sid' _ => in_r1_drops s s' Ed sid')) as HS.
    unfold contrib_s in HS. rewrite (eq_trans (f_equal (fun l => lookup l sid) Es) (lookup_del_same _ _)), Hl in HS. rewrite holds_stream_val in HS. unfold in_r1 in HS. rewrite Hd in HS. cbn [negb] in HS.
    rewrite andb_true_r, (rule_is_eqb r0 r st H0) in HS.
    change (tasks s') with (tasks s ++ [(r, R0)]). rewrite cnt_app, cnt_one. rewrite holds_task_val, andb_true_r.
    change (subs s') with (subs s). change (adds s') with (adds s). destruct (lookup (subs s) r0); lia.
  - (* async drop of an unfiltered stream *)
    destruct H as [Hl Hd]. set (s' := bury _ _ _). assert (Es : streams s' = del (streams s) sid) by reflexivity. assert (Ed : drops s' = drops s) by reflexivity.
    intros r0. specialize (C r0). unfold holders in *.
    pose proof (S_change s s' sid r0 Ks Ks' ltac:(rewrite Es; apply del_del) (fun sid' _ => in_r1_drops s s' Ed sid')) as HS.
    unfold contrib_s in HS. rewrite (eq_trans (f_equal (fun l => lookup l sid) Es) (lookup_del_same _ _)), Hl in HS. rewrite holds_stream_val in HS. unfold rule_is in HS. rewrite H0 in HS. cbn [andb b2n] in HS.
    change (tasks s') with (tasks s). change (subs s') with (subs s). change (adds s') with (adds s). destruct (lookup (subs s) r0); lia.
  - (* async drop, subs, not the last reference (or no entry at all) *)
    pose proof (rm_apply_frame _ _ _ _ H3) as (_ & Estr & Eadd & Edrp & Etsk & _). set (s' := with_drops _ _).
    assert (Es : streams s' = del (streams s) sid) by (unfold s'; cbn [streams with_drops]; rewrite streams_bury; now rewrite Estr).
    assert (Hin : forall sid', sid' <> sid -> in_r1 s' sid' = in_r1 s sid').
    { intros sid' Hne. unfold in_r1, s'. cbn [drops with_drops]. rewrite Edrp. now rewrite lookup_del_other. }
    assert (Hc1 : forall r0, cnt (holds_stream s' r0) (streams s') + b2n (Nat.eqb r r0) = cnt (holds_stream s r0) (streams s)).
    { intros r0. pose proof (S_change s s' sid r0 Ks Ks' ltac:(rewrite Es; apply del_del) Hin) as HS.
      unfold contrib_s in HS. rewrite (eq_trans (f_equal (fun l => lookup l sid) Es) (lookup_del_same _ _)), H in HS. rewrite holds_stream_val in HS.
      unfold in_r1 in HS. rewrite H0 in HS. cbn [negb] in HS. rewrite andb_true_r, (rule_is_eqb r0 r st H2) in HS. lia. }
    assert (Et : tasks s' = tasks s) by (unfold s'; cbn [tasks with_drops]; exact Etsk).
    assert (Ea : adds s' = adds s) by (unfold s'; cbn [adds with_drops]; rewrite adds_bury; exact Eadd).
    assert (Esub : subs s' = subs s1) by reflexivity.
    apply rm_apply_spec in H3. intros r0. pose proof (C r0) as Cr0. pose proof (C r) as Cr. unfold holders in *. rewrite Et, Ea, Esub. specialize (Hc1 r0).
    inversion H3 as [Hn Eq1 | e n Hle Hre Eq1 | |]; subst.
    + (* no entry: then nobody holds the rule — but this stream does *)
      rewrite Hn in Cr. destruct (Nat.eq_dec r0 r) as [->|Hne].
      * rewrite Nat.eqb_refl in Hc1. cbn [b2n] in Hc1. rewrite Hn. lia.
      * replace (Nat.eqb r r0) with false in Hc1 by (symmetry; apply Nat.eqb_neq; congruence). cbn [b2n] in Hc1. destruct (lookup (subs s1) r0); lia.
    + cbn [subs with_subs]. rewrite Hle in Cr. destruct (Nat.eq_dec r0 r) as [->|Hne].
      * rewrite lookup_put_same. rewrite Nat.eqb_refl in Hc1. cbn [b2n e_ref] in *. lia.
      * rewrite lookup_put_other by assumption. replace (Nat.eqb r r0) with false in Hc1 by (symmetry; apply Nat.eqb_neq; congruence). cbn [b2n] in Hc1.
        destruct (lookup (subs s) r0); lia.
  - (* async drop, subs, last reference *)
    pose proof (rm_apply_frame _ _ _ _ H3) as (_ & Estr & Eadd & Edrp & Etsk & _). set (s' := with_drops _ _).
    assert (Es : streams s' = streams s) by (unfold s'; cbn [streams with_drops]; exact Estr).
    assert (Hin : forall sid', sid' <> sid -> in_r1 s' sid' = in_r1 s sid').
    { intros sid' Hne. unfold in_r1, s'. cbn [drops with_drops]. rewrite Edrp. now rewrite lookup_put_other. }
    assert (Hc1 : forall r0, cnt (holds_stream s' r0) (streams s') + b2n (Nat.eqb r r0) = cnt (holds_stream s r0) (streams s)).
    { intros r0. pose proof (S_change s s' sid r0 Ks Ks' ltac:(now rewrite Es) Hin) as HS.
      unfold contrib_s in HS. rewrite Es, H in HS. rewrite !holds_stream_val in HS.
      assert (E1 : in_r1 s' sid = true) by (unfold in_r1, s'; cbn [drops with_drops]; now rewrite lookup_put_same).
      rewrite E1 in HS. unfold in_r1 in HS. rewrite H0 in HS. cbn [negb] in HS. rewrite andb_true_r, andb_false_r, (rule_is_eqb r0 r st H2) in HS. cbn [b2n] in HS. rewrite Es. lia. }
    assert (Et : tasks s' = tasks s) by (unfold s'; cbn [tasks with_drops]; exact Etsk).
    assert (Ea : adds s' = adds s) by (unfold s'; cbn [adds with_drops]; exact Eadd).
    assert (Esub : subs s' = subs s1) by reflexivity.
    apply rm_apply_spec in H3. intros r0. pose proof (C r0) as Cr0. pose proof (C r) as Cr. unfold holders in *. rewrite Et, Ea, Esub. specialize (Hc1 r0).
    assert (Hsub1 : subs s1 = del (subs s) r /\ exists e, lookup (subs s) r = Some e /\ e_ref e <= 1).
    { inversion H3; subst; cbn [subs with_subs set_chan with_chans]; split; try reflexivity; eauto. }
    destruct Hsub1 as (Es1 & e & He & Hle). rewrite Es1. rewrite He in Cr. destruct (Nat.eq_dec r0 r) as [->|Hne].
    + rewrite lookup_del_same. rewrite Nat.eqb_refl in Hc1. cbn [b2n] in Hc1. lia.
    + rewrite lookup_del_other by assumption. replace (Nat.eqb r r0) with false in Hc1 by (symmetry; apply Nat.eqb_neq; congruence). cbn [b2n] in Hc1.
      destruct (lookup (subs s) r0); lia.
  - (* async drop, sender: the stream had given up its reference already *)
    set (s' := with_drops _ _).
    assert (Es : streams s' = del (streams s) sid) by (unfold s'; cbn [streams with_drops]; rewrite streams_bury; now rewrite streams_rm).
    assert (Hin : forall sid', sid' <> sid -> in_r1 s' sid' = in_r1 s sid').
    { intros sid' Hne. unfold in_r1, s'. cbn [drops with_drops]. now rewrite lookup_del_other. }
    intros r0. specialize (C r0). unfold holders in *.
    pose proof (S_change s s' sid r0 Ks Ks' ltac:(rewrite Es; apply del_del) Hin) as HS.
    unfold contrib_s in HS. rewrite (eq_trans (f_equal (fun l => lookup l sid) Es) (lookup_del_same _ _)), H in HS. rewrite holds_stream_val in HS.
    unfold in_r1 in HS. rewrite H0 in HS. cbn [negb] in HS. rewrite andb_false_r in HS. cbn [b2n] in HS.
    assert (Et : tasks s' = tasks s) by (unfold s'; cbn [tasks with_drops]; change (tasks (bury (rm_sender s r) sid st)) with (tasks (rm_sender s r)); apply tasks_rm).
    assert (Ea : adds s' = adds s) by (unfold s'; cbn [adds with_drops]; rewrite adds_bury; apply adds_rm).
    assert (Esub : subs s' = subs s) by (unfold s'; cbn [subs with_drops]; change (subs (bury (rm_sender s r) sid st)) with (subs (rm_sender s r)); apply subs_rm).
    rewrite Et, Ea, Esub. destruct (lookup (subs s) r0); lia.
  - (* task, subs, not the last reference *)
    pose proof (rm_apply_frame _ _ _ _ H1) as (_ & Estr & Eadd & Edrp & Etsk & _). set (s' := with_tasks _ _).
    assert (Es : streams s' = streams s) by (unfold s'; cbn [streams with_tasks]; exact Estr).
    assert (Ed : drops s' = drops s) by (unfold s'; cbn [drops with_tasks]; exact Edrp).
    assert (Ea : adds s' = adds s) by (unfold s'; cbn [adds with_tasks]; exact Eadd).
    assert (Hc1 : forall r0, cnt (holds_task r0) (tasks s') + b2n (Nat.eqb r r0) = cnt (holds_task r0) (tasks s)).
    { intros r0. unfold s'. cbn [tasks with_tasks]. pose proof (cnt_del_nth (holds_task r0) (tasks s) n (r, R0) H) as Hx. rewrite holds_task_val, andb_true_r in Hx. exact Hx. }
    assert (Esub : subs s' = subs s1) by reflexivity.
    apply rm_apply_spec in H1. intros r0. pose proof (C r0) as Cr0. pose proof (C r) as Cr. unfold holders in *. rewrite Es, Ea, Esub, (S_pred s s' r0 (in_r1_drops s s' Ed)). specialize (Hc1 r0).
    inversion H1 as [Hn Eq1 | e n0 Hle Hre Eq1 | |]; subst.
    + rewrite Hn in Cr. destruct (Nat.eq_dec r0 r) as [->|Hne].
      * rewrite Nat.eqb_refl in Hc1. cbn [b2n] in Hc1. rewrite Hn. lia.
      * replace (Nat.eqb r r0) with false in Hc1 by (symmetry; apply Nat.eqb_neq; congruence). cbn [b2n] in Hc1. destruct (lookup (subs s1) r0); lia.
    + cbn [subs with_subs]. rewrite Hle in Cr. destruct (Nat.eq_dec r0 r) as [->|Hne].
      * rewrite lookup_put_same. rewrite Nat.eqb_refl in Hc1. cbn [b2n e_ref] in *. lia.
      * rewrite lookup_put_other by assumption. replace (Nat.eqb r r0) with false in Hc1 by (symmetry; apply Nat.eqb_neq; congruence). cbn [b2n] in Hc1.
        destruct (lookup (subs s) r0); lia.
  - (* task, subs, last reference *)
    pose proof (rm_apply_frame _ _ _ _ H1) as (_ & Estr & Eadd & Edrp & Etsk & _). set (s' := with_tasks _ _).
    assert (Es : streams s' = streams s) by (unfold s'; cbn [streams with_tasks]; exact Estr).
    assert (Ed : drops s' = drops s) by (unfold s'; cbn [drops with_tasks]; exact Edrp).
    assert (Ea : adds s' = adds s) by (unfold s'; cbn [adds with_tasks]; exact Eadd).
    assert (Hc1 : forall r0, cnt (holds_task r0) (tasks s') + b2n (Nat.eqb r r0) = cnt (holds_task r0) (tasks s)).
    { intros r0. unfold s'. cbn [tasks with_tasks]. pose proof (cnt_upd (holds_task r0) (tasks s) n (r, R1 c) (r, R0) H) as Hx.
      rewrite !holds_task_val, andb_true_r, andb_false_r in Hx. cbn [b2n] in Hx. lia. }
    assert (Esub : subs s' = subs s1) by reflexivity.
    apply rm_apply_spec in H1. intros r0. pose proof (C r0) as Cr0. pose proof (C r) as Cr. unfold holders in *. rewrite Es, Ea, Esub, (S_pred s s' r0 (in_r1_drops s s' Ed)). specialize (Hc1 r0).
    assert (Hsub1 : subs s1 = del (subs s) r /\ exists e, lookup (subs s) r = Some e /\ e_ref e <= 1).
    { inversion H1; subst; cbn [subs with_subs set_chan with_chans]; split; try reflexivity; eauto. }
    destruct Hsub1 as (Es1 & e & He & Hle). rewrite Es1. rewrite He in Cr. destruct (Nat.eq_dec r0 r) as [->|Hne].
    + rewrite lookup_del_same. rewrite Nat.eqb_refl in Hc1. cbn [b2n] in Hc1. lia.
    + rewrite lookup_del_other by assumption. replace (Nat.eqb r r0) with false in Hc1 by (symmetry; apply Nat.eqb_neq; congruence). cbn [b2n] in Hc1.
      destruct (lookup (subs s) r0); lia.
  - (* task, sender *)
    set (s' := with_tasks _ _).
    assert (Es : streams s' = streams s) by (unfold s'; cbn [streams with_tasks]; apply streams_rm).
    assert (Ed : drops s' = drops s) by (unfold s'; cbn [drops with_tasks]; apply drops_rm).
    assert (Ea : adds s' = adds s) by (unfold s'; cbn [adds with_tasks]; apply adds_rm).
    assert (Esub : subs s' = subs s) by (unfold s'; cbn [subs with_tasks]; apply subs_rm).
    intros r0. specialize (C r0). unfold holders in *. rewrite Es, Ea, Esub, (S_pred s s' r0 (in_r1_drops s s' Ed)).
    unfold s'. cbn [tasks with_tasks]. pose proof (cnt_del_nth (holds_task r0) (tasks s) n (r, R1 c) H) as Hx. rewrite holds_task_val, andb_false_r in Hx. cbn [b2n] in Hx.
    destruct (lookup (subs s) r0); lia.
  - (* add sender, failed: the call was the only holder; entry and call go together *)
    set (r1 := a_rule a) in *. set (s' := with_adds _ _).
    assert (Hme : a2 s sid r1 c) by (exists a; tauto). pose proof (Aone _ _ _ Hme) as Hone.
    assert (Ed : drops s' = drops s) by reflexivity.
    intros r0. specialize (C r0). unfold holders in *.
    pose proof (A_change s s' sid r0 Ka Ka' ltac:(apply del_del)) as HA.
    unfold contrib_a in HA. change (adds s') with (del (adds s) sid) in HA at 2. rewrite lookup_del_same, H in HA. rewrite (holds_add_a2 r0 sid a c H0) in HA. fold r1 in HA.
    change (streams s') with (streams s). rewrite (S_pred s s' r0 (in_r1_drops s s' Ed)). change (tasks s') with (tasks s). change (subs s') with (del (subs s) r1).
    destruct (Nat.eq_dec r0 r1) as [->|Hne].
    + rewrite lookup_del_same. rewrite Nat.eqb_refl in HA. cbn [b2n] in HA. lia.
    + rewrite lookup_del_other by assumption. replace (Nat.eqb r1 r0) with false in HA by (symmetry; apply Nat.eqb_neq; congruence). cbn [b2n] in HA.
      destruct (lookup (subs s) r0); lia.
Qed.

Definition chan_agree (s : sys) : Prop :=
  forall sid st r e, lookup (streams s) sid = Some st -> s_rule st = Some r -> in_r1 s sid = false -> lookup (subs s) r = Some e -> s_ch st = e_ch e.

Lemma agree_step s l s' : tstep s l s' -> Inv s -> keys_ok s -> (forall a b, l <> LClone a b) -> count_ok s -> chan_agree s -> chan_agree s'.
Proof.
  intros Hs I [Ks Ka] Hnc C G sid0 st0 r0 e0 Hl Hr Hin He.
  (* the generic case: the stream and the entry (or one with the same channel) were there before *)
  assert (Hgen : forall st1 e1, lookup (streams s) sid0 = Some st1 -> s_rule st1 = Some r0 -> s_ch st1 = s_ch st0 -> in_r1 s sid0 = false ->
                   lookup (subs s) r0 = Some e1 -> e_ch e1 = e_ch e0 -> s_ch st0 = e_ch e0).
  { intros st1 e1 Hl1 Hr1 Hc1 Hin1 He1 Hce. rewrite <- Hc1, <- Hce. eapply G; eassumption. }
  destruct Hs; try (eapply Hgen; [exact Hl | exact Hr | reflexivity | exact Hin | exact He | reflexivity]).
  - (* occupied *) subst c ch1 s1 s2. cbn [streams subs with_adds with_streams with_subs set_chan with_chans] in Hl, He.
    assert (Hin' : in_r1 s sid0 = false) by exact Hin.
    destruct (Nat.eq_dec sid0 sid) as [->|Hne].
    + rewrite lookup_put_same in Hl. inversion Hl; subst st0. cbn in Hr. inversion Hr; subst r0. rewrite lookup_put_same in He. inversion He; subst e0. reflexivity.
    + rewrite lookup_put_other in Hl by assumption. destruct (Nat.eq_dec r0 (a_rule a)) as [->|Hnr].
      * rewrite lookup_put_same in He. inversion He; subst e0. cbn. eapply G; eassumption.
      * rewrite lookup_put_other in He by assumption. eapply G; eassumption.
  - (* vacant: nobody holds the rule, so no stream of the rule is around *)
    subst c capacity s1 s2. cbn [streams subs with_adds with_subs with_chans] in Hl, He. assert (Hin' : in_r1 s sid0 = false) by exact Hin.
    destruct (Nat.eq_dec r0 (a_rule a)) as [->|Hnr]; [|rewrite lookup_put_other in He by assumption; eapply G; eassumption].
    exfalso. specialize (C (a_rule a)). rewrite H2 in C. unfold holders in C.
    assert (Hz : cnt (holds_stream s (a_rule a)) (streams s) = 0) by lia. rewrite cnt_zero_iff in Hz. specialize (Hz (sid0, st0) (lookup_in _ _ _ Hl)).
    rewrite holds_stream_val, Hin', (rule_is_eqb _ _ _ Hr), Nat.eqb_refl in Hz. discriminate.
  - (* add sender *) cbn [streams subs with_adds with_streams with_senders] in Hl, He. assert (Hin' : in_r1 s sid0 = false) by exact Hin.
    destruct (Nat.eq_dec sid0 sid) as [->|Hne]; [|rewrite lookup_put_other in Hl by assumption; eapply G; eassumption].
    rewrite lookup_put_same in Hl. inversion Hl; subst st0. cbn in Hr. inversion Hr; subst r0. cbn.
    destruct (inv_a2 _ _ I sid (a_rule a) c) as ((e & He1 & Hc1) & _); [exists a; tauto|]. congruence.
  - (* unfiltered *) cbn [streams subs with_streams set_chan with_chans] in Hl, He. assert (Hin' : in_r1 s sid0 = false) by exact Hin.
    destruct (Nat.eq_dec sid0 sid) as [->|Hne]; [rewrite lookup_put_same in Hl; inversion Hl; subst; discriminate|].
    rewrite lookup_put_other in Hl by assumption. eapply G; eassumption.
  - (* poll *) destruct H as [Hl0 Hd]. cbn [streams subs with_streams set_chan with_chans] in Hl, He. assert (Hin' : in_r1 s sid0 = false) by exact Hin.
    destruct (Nat.eq_dec sid0 sid) as [->|Hne]; [|rewrite lookup_put_other in Hl by assumption; eapply G; eassumption].
    rewrite lookup_put_same in Hl. inversion Hl; subst st0. cbn in *. eapply G; eassumption.
  - (* drop *) cbn [streams with_tasks] in Hl. rewrite streams_bury in Hl. apply in_del_lookup in Hl. eapply G; eassumption.
  - rewrite streams_bury in Hl. apply in_del_lookup in Hl. eapply G; eassumption.
  - exfalso. eapply Hnc. reflexivity.
  - (* async drop starts: as drop *) cbn [streams with_tasks] in Hl. rewrite streams_bury in Hl. apply in_del_lookup in Hl. eapply G; eassumption.
  - rewrite streams_bury in Hl. apply in_del_lookup in Hl. eapply G; eassumption.
  - (* async drop, subs, done *)
    pose proof (rm_apply_frame _ _ _ _ H3) as (_ & Estr & _ & Edrp & _). cbn [streams subs with_drops] in Hl, He. rewrite streams_bury, Estr in Hl.
    change (subs (bury s1 sid st)) with (subs s1) in He.
    destruct (Nat.eq_dec sid0 sid) as [->|Hne]; [now rewrite lookup_del_same in Hl|]. rewrite lookup_del_other in Hl by assumption.
    assert (Hin' : in_r1 s sid0 = false) by (unfold in_r1 in *; cbn [drops with_drops] in Hin; change (drops (bury s1 sid st)) with (drops s1) in Hin; rewrite Edrp in Hin; now rewrite lookup_del_other in Hin).
    apply rm_apply_spec, rm_spec_tables in H3. destruct H3 as (_ & _ & _ & _ & _ & _ & Eoth & Erm).
    destruct (Nat.eq_dec r0 r) as [->|Hnr]; [|rewrite (Eoth _ Hnr) in He; eapply G; eassumption].
    destruct (lookup (subs s) r) as [e1|] eqn:E1; [|congruence]. destruct Erm as (e' & He' & Hce). rewrite He' in He. inversion He; subst e0.
    rewrite Hce. eapply G; eassumption.
  - (* async drop, subs, wait *)
    pose proof (rm_apply_frame _ _ _ _ H3) as (_ & Estr & _ & Edrp & _). cbn [streams subs with_drops] in Hl, He. rewrite Estr in Hl.
    assert (Hne : sid0 <> sid) by (intros ->; unfold in_r1 in Hin; cbn [drops with_drops] in Hin; rewrite lookup_put_same in Hin; discriminate).
    assert (Hin' : in_r1 s sid0 = false) by (unfold in_r1 in *; cbn [drops with_drops] in Hin; rewrite Edrp in Hin; now rewrite lookup_put_other in Hin).
    apply rm_apply_spec, rm_spec_tables in H3. destruct H3 as (_ & _ & _ & _ & _ & _ & Eoth & (En & _)).
    destruct (Nat.eq_dec r0 r) as [->|Hnr]; [congruence|]. rewrite (Eoth _ Hnr) in He. eapply G; eassumption.
  - (* async drop, sender *)
    cbn [streams subs with_drops] in Hl, He. rewrite streams_bury, streams_rm in Hl. change (subs (bury (rm_sender s r) sid st)) with (subs (rm_sender s r)) in He. rewrite subs_rm in He.
    destruct (Nat.eq_dec sid0 sid) as [->|Hne]; [now rewrite lookup_del_same in Hl|]. rewrite lookup_del_other in Hl by assumption.
    assert (Hin' : in_r1 s sid0 = false) by (unfold in_r1 in *; cbn [drops with_drops] in Hin; now rewrite lookup_del_other in Hin).
    eapply G; eassumption.
  - (* task, subs, done *)
    pose proof (rm_apply_frame _ _ _ _ H1) as (_ & Estr & _ & Edrp & _). cbn [streams subs with_tasks] in Hl, He. rewrite Estr in Hl.
    assert (Hin' : in_r1 s sid0 = false) by (unfold in_r1 in *; cbn [drops with_tasks] in Hin; now rewrite Edrp in Hin).
    apply rm_apply_spec, rm_spec_tables in H1. destruct H1 as (_ & _ & _ & _ & _ & _ & Eoth & Erm).
    destruct (Nat.eq_dec r0 r) as [->|Hnr]; [|rewrite (Eoth _ Hnr) in He; eapply G; eassumption].
    destruct (lookup (subs s) r) as [e1|] eqn:E1; [|congruence]. destruct Erm as (e' & He' & Hce). rewrite He' in He. inversion He; subst e0.
    rewrite Hce. eapply G; eassumption.
  - (* task, subs, wait *)
    pose proof (rm_apply_frame _ _ _ _ H1) as (_ & Estr & _ & Edrp & _). cbn [streams subs with_tasks] in Hl, He. rewrite Estr in Hl.
    assert (Hin' : in_r1 s sid0 = false) by (unfold in_r1 in *; cbn [drops with_tasks] in Hin; now rewrite Edrp in Hin).
    apply rm_apply_spec, rm_spec_tables in H1. destruct H1 as (_ & _ & _ & _ & _ & _ & Eoth & (En & _)).
    destruct (Nat.eq_dec r0 r) as [->|Hnr]; [congruence|]. rewrite (Eoth _ Hnr) in He. eapply G; eassumption.
  - (* task, sender *)
    cbn [streams subs with_tasks] in Hl, He. rewrite streams_rm in Hl. rewrite subs_rm in He.
    assert (Hin' : in_r1 s sid0 = false) by (unfold in_r1 in *; cbn [drops with_tasks] in Hin; now rewrite drops_rm in Hin).
    eapply G; eassumption.
  - (* add sender, failed *) cbn [streams subs with_adds with_subs set_chan with_chans] in Hl, He. assert (Hin' : in_r1 s sid0 = false) by exact Hin.
    apply in_del_lookup in He. eapply G; eassumption.
Qed.

(* ---- an entry of `subscriptions` has its sender in msg_senders, unless it is just being created or the reader has failed;
   a remove_match between its two steps has taken its entry away; the unfiltered channel stays registered until the reader fails ---- *)
Definition e1 (s : sys) : Prop :=
  forall r e, lookup (subs s) r = Some e -> In (KRule r, e_ch e) (senders s) \/ (exists sid, a2 s sid r (e_ch e)) \/ reader s = RStopped.
Definition ereg (s : sys) : Prop :=
  e1 s /\ (forall r c, r1 s r c -> lookup (subs s) r = None) /\ (In (KAll, 0) (senders s) \/ reader s = RStopped).

Lemma stopped_stays s l s' : tstep s l s' -> reader s = RStopped -> reader s' = RStopped.
Proof.
  intros Hs Hr. destruct Hs; cbn [reader with_reader with_socket with_incoming with_adds with_streams with_subs with_chans with_senders with_cloned
                                  with_drops with_tasks with_dead set_chan bury]; try congruence; try assumption;
    try (match goal with Hx : rm_apply _ _ = _ |- _ => pose proof (rm_apply_frame _ _ _ _ Hx) as (_ & _ & _ & _ & _ & Erd & _); congruence end);
    try (rewrite reader_rm; assumption).
Qed.

(* the reader stays stopped; KAll stays registered until the reader fails *)
Lemma kall_step s l s' : tstep s l s' -> (In (KAll, 0) (senders s) \/ reader s = RStopped) -> In (KAll, 0) (senders s') \/ reader s' = RStopped.
Proof.
  intros Hs [Hin|Hst]; [|right; eapply stopped_stays; eassumption].
  destruct Hs; try (left; exact Hin).
  - right. reflexivity.
  - left. cbn [senders with_adds with_streams with_senders]. apply in_app_iff. now left.
  - left. pose proof (rm_apply_frame _ _ _ _ H3) as (Esn & _). cbn [senders with_drops]. change (senders (bury s1 sid st)) with (senders s1). now rewrite Esn.
  - left. pose proof (rm_apply_frame _ _ _ _ H3) as (Esn & _). cbn [senders with_drops]. now rewrite Esn.
  - left. cbn [senders with_drops]. change (senders (bury (rm_sender s r) sid st)) with (senders (rm_sender s r)). rewrite senders_rm. apply in_del_key. split; [assumption | discriminate].
  - left. pose proof (rm_apply_frame _ _ _ _ H1) as (Esn & _). cbn [senders with_tasks]. now rewrite Esn.
  - left. pose proof (rm_apply_frame _ _ _ _ H1) as (Esn & _). cbn [senders with_tasks]. now rewrite Esn.
  - left. cbn [senders with_tasks]. rewrite senders_rm. apply in_del_key. split; [assumption | discriminate].
Qed.

(* while somebody holds `subscriptions`, the table does not change *)
Lemma busy_subs_same s l s' : tstep s l s' -> subs_busy s = true -> subs s' = subs s \/ exists sid r c, a2 s sid r c /\ l = LAddSender sid.
Proof.
  intros Hs Hb. destruct Hs; try (left; reflexivity); try congruence.
  - left. cbn [subs with_drops]. change (subs (bury (rm_sender s r) sid st)) with (subs (rm_sender s r)). apply subs_rm.
  - left. cbn [subs with_tasks]. apply subs_rm.
  - (* the failing add_match takes its entry back *) right. exists sid, (a_rule a), c. split; [exists a; tauto | reflexivity].
Qed.

Lemma busy_of_a2 s sid r c : a2 s sid r c -> subs_busy s = true.
Proof. intros Ha. destruct (subs_busy s) eqn:E; [reflexivity|]. destruct (not_busy_a2 s sid r c E Ha). Qed.
Lemma busy_of_r1 s r c : r1 s r c -> subs_busy s = true.
Proof. intros Hr. destruct (subs_busy s) eqn:E; [reflexivity|]. destruct (not_busy_r1 s r c E Hr). Qed.

(* where a new holder of `subscriptions` comes from *)
Lemma a2_new s l s' sid r c : tstep s l s' -> Inv s -> a2 s' sid r c ->
  a2 s sid r c \/ (subs_busy s = false /\ lookup (subs s') r = Some {| e_ref := 1; e_ch := c |}).
Proof.
  intros Hs I Ha. destruct (holders_step _ _ _ _ Hs I) as [[Hback _]|[(Hb & _ & _)|(Hb & Hno)]]; [left; now apply Hback | | destruct (Hno _ _ _ Ha)].
  (* the step made a new call in A2: it can only be LAddSubs on the vacant path *)
  destruct Hs; try (left; exact Ha); try (exfalso; eapply (not_busy_a2 s); [exact Hb|]; first [exact Ha | eapply a2_ext; [|exact Ha]; reflexivity]).
  - left. eapply a2_put_other with (3 := Ha); [reflexivity | intros c1; discriminate].
  - left. match type of Ha with a2 ?s1 _ _ _ => apply (a2_del s s1 sid0 sid r c eq_refl) in Ha end. apply Ha.
  - left. eapply a2_put_other with (3 := Ha); [reflexivity | intros c1; cbn; discriminate].
  - left. match type of Ha with a2 ?s1 _ _ _ => apply (a2_del s s1 sid0 sid r c eq_refl) in Ha end. apply Ha.
  - (* vacant *) subst c0 capacity s1 s2. destruct Ha as (a' & Ha' & Hr' & Hp'). cbn [adds with_adds] in Ha'. destruct (Nat.eq_dec sid sid0) as [->|Hne].
    + rewrite lookup_put_same in Ha'. inversion Ha'; subst a'. cbn in Hr', Hp'. inversion Hp'; subst c. subst r. right. split; [assumption|].
      cbn [subs with_adds with_subs]. apply lookup_put_same.
    + rewrite lookup_put_other in Ha' by assumption. left. exists a'. tauto.
  - left. match type of Ha with a2 ?s1 _ _ _ => apply (a2_del s s1 sid0 sid r c eq_refl) in Ha end. apply Ha.
  - exfalso. pose proof (rm_apply_frame _ _ _ _ H3) as (_ & _ & Eadd & _). eapply (not_busy_a2 s); [exact Hb|]. eapply a2_ext; [|exact Ha]. cbn [adds with_drops]. rewrite adds_bury. exact Eadd.
  - exfalso. pose proof (rm_apply_frame _ _ _ _ H3) as (_ & _ & Eadd & _). eapply (not_busy_a2 s); [exact Hb|]. eapply a2_ext; [|exact Ha]. cbn [adds with_drops]. exact Eadd.
  - left. eapply a2_ext; [|exact Ha]. cbn [adds with_drops]. rewrite adds_bury. apply adds_rm.
  - exfalso. pose proof (rm_apply_frame _ _ _ _ H1) as (_ & _ & Eadd & _). eapply (not_busy_a2 s); [exact Hb|]. eapply a2_ext; [|exact Ha]. cbn [adds with_tasks]. exact Eadd.
  - exfalso. pose proof (rm_apply_frame _ _ _ _ H1) as (_ & _ & Eadd & _). eapply (not_busy_a2 s); [exact Hb|]. eapply a2_ext; [|exact Ha]. cbn [adds with_tasks]. exact Eadd.
  - left. eapply a2_ext; [|exact Ha]. cbn [adds with_tasks]. apply adds_rm.
  - (* add sender, failed *) left. match type of Ha with a2 ?s1 _ _ _ => apply (a2_del s s1 sid0 sid r c eq_refl) in Ha end. apply Ha.
Qed.

Ltac rm_tables :=
  match goal with Hr : rm_apply _ _ = _ |- _ =>
    let Hs := fresh "Esnd" in let Hst := fresh "Estr" in let Ha := fresh "Eadd" in let Hd := fresh "Edrp" in
    let Ht := fresh "Etsk" in let Hl := fresh "Elen" in let Ho := fresh "Eoth" in let Hm := fresh "Erm" in
    apply rm_apply_spec, rm_spec_tables in Hr; destruct Hr as (Hs & Hst & Ha & Hd & Ht & Hl & Ho & Hm)
  end.

Lemma r1_new s l s' r c : tstep s l s' -> Inv s -> r1 s' r c -> r1 s r c \/ (subs_busy s = false /\ lookup (subs s') r = None).
Proof.
  intros Hs I.
  assert (Hput : forall s1 sid st', drops s1 = drops s -> tasks s1 = tasks s -> streams s1 = put (streams s) sid st' ->
                   lookup (drops s) sid = None -> forall r c, r1 s1 r c -> r1 s r c).
  { intros s1 sid st' Ed Et Es Hnd r0 c0 Hr. refine (proj1 (r1_agree s s1 r0 c0 Ed Et _) Hr). intros sid' pc Hd. rewrite Es.
    apply lookup_put_other. intros ->. congruence. }
  assert (Hdel : forall s1 sid, drops s1 = drops s -> tasks s1 = tasks s -> streams s1 = del (streams s) sid ->
                   lookup (drops s) sid = None -> forall r c, r1 s1 r c -> r1 s r c).
  { intros s1 sid Ed Et Es Hnd r0 c0 Hr. refine (proj1 (r1_agree s s1 r0 c0 Ed Et _) Hr). intros sid' pc Hd. rewrite Es.
    apply lookup_del_other. intros ->. congruence. }
  destruct Hs; simp; try (intros Hr; left; exact Hr).
  - (* occupied *) intros Hr. left. revert Hr. eapply (Hput _ sid); try reflexivity. apply (live_no_drop matches); [assumption | eapply inv_ids; eassumption].
  - (* add sender *) intros Hr. left. revert Hr. eapply (Hput _ sid); try reflexivity. apply (live_no_drop matches); [assumption | eapply inv_ids; eassumption].
  - (* unfiltered *) intros Hr. left. revert Hr. eapply (Hput _ sid); try reflexivity.
    unfold fresh in H. apply (live_no_drop matches); [assumption|]. destruct (lookup (streams s) sid); [discriminate | reflexivity].
  - (* poll *) destruct H as [Hl Hd]. intros Hr. left. revert Hr. eapply (Hput _ sid); try reflexivity; eassumption.
  - (* drop rule *) destruct H as [Hl Hd]. intros [(sid' & st' & Hd' & Hs' & Hr')|Hr]; left.
    + left. simp. exists sid', st'. repeat split; try assumption. destruct (Nat.eq_dec sid' sid) as [->|Hne]; [now rewrite lookup_del_same in Hs'|].
      now rewrite lookup_del_other in Hs'.
    + right. simp. now apply in_app_r0 in Hr.
  - destruct H as [Hl Hd]. intros Hr. left. revert Hr. eapply (Hdel _ sid); try reflexivity; eassumption.
  - (* clone *) destruct H as [Hl Hd]. intros Hr. left. revert Hr. eapply (Hput _ sid2); try reflexivity.
    unfold fresh in H0. apply (live_no_drop matches); [assumption|]. destruct (lookup (streams s) sid2); [discriminate | reflexivity].
  - (* async drop starts: as drop rule *) destruct H as [Hl Hd]. intros [(sid' & st' & Hd' & Hs' & Hr')|Hr]; left.
    + left. simp. exists sid', st'. repeat split; try assumption. destruct (Nat.eq_dec sid' sid) as [->|Hne]; [now rewrite lookup_del_same in Hs'|].
      now rewrite lookup_del_other in Hs'.
    + right. simp. now apply in_app_r0 in Hr.
  - destruct H as [Hl Hd]. intros Hr. left. revert Hr. eapply (Hdel _ sid); try reflexivity; eassumption.
  - (* async drop, subs, done *) rm_tables. intros [(sid' & st' & Hd' & Hs' & Hr')|Hr]; left; simp.
    + left. rewrite Edrp in Hd'. rewrite Estr in Hs'. destruct (Nat.eq_dec sid' sid) as [->|Hne]; [now rewrite lookup_del_same in Hd'|].
      rewrite lookup_del_other in Hd' by assumption. rewrite lookup_del_other in Hs' by assumption. exists sid', st'. tauto.
    + right. now rewrite Etsk in Hr.
  - (* async drop, subs, wait *) rm_tables. intros [(sid' & st' & Hd' & Hs' & Hr')|Hr]; simp.
    + rewrite Edrp in Hd'. rewrite Estr in Hs'. destruct (Nat.eq_dec sid' sid) as [->|Hne].
      * right. split; [assumption|]. rewrite H in Hs'. inversion Hs'; subst st'. rewrite H2 in Hr'. inversion Hr'; subst. apply Erm.
      * rewrite lookup_put_other in Hd' by assumption. exfalso. eapply (not_busy_r1 s r c); [assumption|]. left. exists sid', st'. tauto.
    + exfalso. rewrite Etsk in Hr. eapply (not_busy_r1 s r c); [assumption | now right].
  - (* async drop, sender *) intros [(sid' & st' & Hd' & Hs' & Hr')|Hr]; left; [left | right; simp; exact Hr]. simp.
    destruct (Nat.eq_dec sid' sid) as [->|Hne]; [now rewrite lookup_del_same in Hd'|]. rewrite lookup_del_other in Hd' by assumption. rewrite lookup_del_other in Hs' by assumption.
    exists sid', st'. tauto.
  - (* task, subs, done *) rm_tables. intros [(sid' & st' & Hd' & Hs' & Hr')|Hr]; left; simp.
    + left. rewrite Edrp in Hd'. rewrite Estr in Hs'. exists sid', st'. tauto.
    + right. eapply in_del_nth; eassumption.
  - (* task, subs, wait *) rm_tables. intros [(sid' & st' & Hd' & Hs' & Hr')|Hr]; simp.
    + exfalso. rewrite Edrp in Hd'. rewrite Estr in Hs'. eapply (not_busy_r1 s r c); [assumption|]. left. exists sid', st'. tauto.
    + apply in_upd in Hr. destruct Hr as [E|Hr].
      * inversion E; subst. right. split; [assumption|]. apply Erm.
      * exfalso. eapply (not_busy_r1 s r c); [assumption | now right].
  - (* task, sender *) intros [(sid' & st' & Hd' & Hs' & Hr')|Hr]; left; [left | right]; simp.
    + exists sid', st'. tauto.
    + eapply in_del_nth; eassumption.
Qed.

Lemma e1_keep s s' : subs s' = subs s -> (forall k c, In (k, c) (senders s) -> In (k, c) (senders s')) ->
  (forall sid r c, a2 s sid r c -> a2 s' sid r c) -> (reader s = RStopped -> reader s' = RStopped) -> e1 s -> e1 s'.
Proof.
  intros Es Hsn Ha Hrd E r e He. rewrite Es in He. destruct (E _ _ He) as [H|[[sid H]|H]]; [left; auto | right; left; exists sid; auto | right; right; auto].
Qed.

Lemma a2_same s s' sid r c : adds s' = adds s -> a2 s sid r c -> a2 s' sid r c.
Proof. unfold a2. now intros ->. Qed.

Lemma e1_step s l s' : tstep s l s' -> Inv s -> ereg s -> e1 s'.
Proof.
  intros Hs I (E1 & E2 & E4).
  assert (Hrm : forall s1 r0 o, rm_apply s r0 = (s1, o) -> subs_busy s = false ->
            forall s2, subs s2 = subs s1 -> senders s2 = senders s1 -> adds s2 = adds s1 -> reader s2 = reader s1 -> e1 s2).
  { intros s1 r0 o Hsp Hb s2 Esb Esn Ead Erd r' e' He'. rewrite Esb in He'.
    pose proof (rm_apply_frame _ _ _ _ Hsp) as (Esn1 & _ & Ead1 & _ & _ & Erd1 & _). rewrite Esn1 in Esn. rewrite Ead1 in Ead. rewrite Erd1 in Erd.
    apply rm_apply_spec, rm_spec_tables in Hsp.
    destruct Hsp as (_ & _ & _ & _ & _ & _ & Eoth & Erm). rewrite Esn, Erd.
    assert (Hnoa : forall sid, a2 s sid r' (e_ch e') -> exists sid, a2 s2 sid r' (e_ch e')) by (intros sid Ha; exists sid; now apply (a2_same s s2)).
    destruct (Nat.eq_dec r' r0) as [->|Hne].
    - destruct o as [c|].
      + destruct Erm as [Hn _]. congruence.
      + destruct (lookup (subs s) r0) as [e|] eqn:Eold; [|congruence]. destruct Erm as (e2 & He2 & Hch). rewrite He' in He2. inversion He2; subst e2.
        rewrite Hch. destruct (E1 _ _ Eold) as [H|[[sid H]|H]]; [now left | exfalso; exact (not_busy_a2 s _ _ _ Hb H) | now right; right].
    - rewrite (Eoth _ Hne) in He'. destruct (E1 _ _ He') as [H|[[sid H]|H]]; [now left | exfalso; exact (not_busy_a2 s _ _ _ Hb H) | now right; right]. }
  destruct Hs; simp; try (eapply e1_keep; [| | | |exact E1]; simp; try reflexivity; try (intros; assumption); try (intros; congruence);
                          try (intros sid0 r0 c0; apply a2_same; reflexivity); fail).
  - (* the reader fails *) intros r0 e0 He. right; right. reflexivity.
  - (* add start *) eapply e1_keep; [| | | |exact E1]; simp; try reflexivity; try (intros; assumption).
    intros sid0 r0 c0 (a' & Ha' & Hr' & Hp'). exists a'. apply fresh_spec in H. destruct H as (_ & Hna & _). simp.
    rewrite lookup_put_other; [tauto | intros ->; congruence].
  - eapply e1_keep; [| | | |exact E1]; simp; try reflexivity; try (intros; assumption).
    intros sid0 r0 c0 (a' & Ha' & Hr' & Hp'). exists a'. simp. rewrite lookup_del_other; [tauto | intros ->; congruence].
  - eapply e1_keep; [| | | |exact E1]; simp; try reflexivity; try (intros; assumption).
    intros sid0 r0 c0 (a' & Ha' & Hr' & Hp'). exists a'. simp. rewrite lookup_put_other; [tauto | intros ->; congruence].
  - (* occupied *) intros r' e' He'. simp. destruct (Nat.eq_dec r' (a_rule a)) as [->|Hne].
    + rewrite lookup_put_same in He'. inversion He'; subst e'. cbn [e_ch].
      destruct (E1 _ _ H2) as [Hx|[[sid' Hx]|Hx]]; [now left | exfalso; exact (not_busy_a2 s _ _ _ H1 Hx) | now right; right].
    + rewrite lookup_put_other in He' by assumption.
      destruct (E1 _ _ He') as [Hx|[[sid' Hx]|Hx]]; [now left | exfalso; exact (not_busy_a2 s _ _ _ H1 Hx) | now right; right].
  - (* vacant *) intros r' e' He'. simp. destruct (Nat.eq_dec r' (a_rule a)) as [->|Hne].
    + rewrite lookup_put_same in He'. inversion He'; subst e'. cbn [e_ch]. right; left. exists sid, (add_at a (A2 (length (chans s)))). simp.
      rewrite lookup_put_same. repeat split; reflexivity.
    + rewrite lookup_put_other in He' by assumption.
      destruct (E1 _ _ He') as [Hx|[[sid' Hx]|Hx]]; [now left | exfalso; exact (not_busy_a2 s _ _ _ H1 Hx) | now right; right].
  - (* add sender *) intros r' e' He'. simp. destruct (E1 _ _ He') as [Hx|[[sid' Hx]|Hx]]; [left; apply in_app_iff; now left | | now right; right].
    left. apply in_app_iff. right. left.
    assert (Hme : a2 s sid (a_rule a) c) by (exists a; tauto).
    pose proof (inv_a2_uniq _ _ I _ _ _ _ _ _ Hx Hme) as ->. destruct Hx as (a' & Ha' & Hr' & Hp'). rewrite H in Ha'. inversion Ha'; subst a'.
    rewrite H0 in Hp'. inversion Hp'; subst. reflexivity.
  - (* async drop, subs, done *) eapply (Hrm _ _ _ H3 H1); simp; reflexivity.
  - eapply (Hrm _ _ _ H3 H1); simp; reflexivity.
  - (* async drop, sender *) intros r' e' He'. simp. assert (Hr1 : r1 s r c) by (left; exists sid, st; tauto).
    destruct (Nat.eq_dec r' r) as [->|Hne]; [rewrite (E2 _ _ Hr1) in He'; discriminate|].
    destruct (E1 _ _ He') as [Hx|[[sid' Hx]|Hx]]; [left | exfalso; eapply inv_excl; eassumption | now right; right].
    apply in_del_key. split; [assumption | cbn; congruence].
  - eapply (Hrm _ _ _ H1 H0); simp; reflexivity.
  - eapply (Hrm _ _ _ H1 H0); simp; reflexivity.
  - (* task, sender *) intros r' e' He'. simp. assert (Hr1 : r1 s r c) by (right; eapply nth_error_In; eassumption).
    destruct (Nat.eq_dec r' r) as [->|Hne]; [rewrite (E2 _ _ Hr1) in He'; discriminate|].
    destruct (E1 _ _ He') as [Hx|[[sid' Hx]|Hx]]; [left | exfalso; eapply inv_excl; eassumption | now right; right].
    apply in_del_key. split; [assumption | cbn; congruence].
  - (* add sender, failed: msg_senders is empty, so the reader has stopped *) intros r' e' He'. right; right.
    destruct E4 as [Hin|Hst]; [rewrite H2 in Hin; destruct Hin | exact Hst].
Qed.

Lemma ereg_step s l s' : tstep s l s' -> Inv s -> ereg s -> ereg s'.
Proof.
  intros Hs I E. split; [eapply e1_step; eassumption|]. destruct E as (E1 & E2 & E4). split; [|eapply kall_step; eassumption].
  intros r c Hr. destruct (r1_new _ _ _ _ _ Hs I Hr) as [Hold|[_ Hn]]; [|exact Hn].
  destruct (busy_subs_same _ _ _ Hs (busy_of_r1 _ _ _ Hold)) as [Es|(sid & r' & c' & Ha & _)]; [rewrite Es; exact (E2 _ _ Hold)|].
  exfalso. eapply inv_excl; eassumption.
Qed.

Lemma ereg_init : ereg init.
Proof.
  split; [|split].
  - intros r e He. discriminate.
  - intros r c [(sid & st & Hd & _)|[]]. discriminate.
  - left. cbn. tauto.
Qed.

Lemma ereg_reach tr s : reach tr s -> ereg s.
Proof.
  induction 1 as [|tr s l s' Hr IH Hs]; [exact ereg_init|]. eapply ereg_step; [apply step_tstep; eassumption | eapply Inv_reach; eassumption | assumption].
Qed.

(* ---- the invariant along every history without clone ---- *)
Definition no_clone (tr : list label) : Prop := forall a b, ~ In (LClone a b) tr.

(* the creator of an entry stays its only holder while it holds `subscriptions` *)
Lemma a2_one_step s l s' : tstep s l s' -> Inv s -> count_ok s -> count_ok s' -> a2_one s -> a2_one s'.
Proof.
  intros Hs I C C' A sid r c Ha'. destruct (a2_new _ _ _ _ _ _ Hs I Ha') as [Ha|(Hb & Hent)].
  - destruct (busy_subs_same _ _ _ Hs (busy_of_a2 _ _ _ _ Ha)) as [Es|(sid0 & r0 & c0 & Ha0 & ->)].
    + destruct (inv_a2 _ _ I _ _ _ Ha) as ((e & He & _) & _). pose proof (A _ _ _ Ha) as H1. specialize (C r). rewrite He in C.
      specialize (C' r). rewrite Es, He in C'. lia.
    + (* LAddSender of the one call in A2: afterwards there is none *) exfalso.
      pose proof (inv_a2_uniq _ _ I _ _ _ _ _ _ Ha Ha0) as ->.
      inversion Hs; subst;
        match type of Ha' with a2 ?s1 _ _ _ => apply (a2_del s s1 sid0 sid0 r c eq_refl) in Ha' end; destruct Ha' as [_ Hne]; now apply Hne.
  - specialize (C' r). rewrite Hent in C'. cbn [e_ref] in C'. lia.
Qed.

Theorem share_reach_full tr s : reach tr s -> no_clone tr -> count_ok s /\ chan_agree s /\ a2_one s.
Proof.
  induction 1 as [|tr s l s' Hr IH Hs]; intros Hnc.
  - split; [intros r; cbn; reflexivity | split; [intros sid st r e Hl; discriminate | intros sid r c (a & Ha & _); discriminate]].
  - assert (Hnc' : no_clone tr) by (intros a b Hin; apply (Hnc a b), in_app_iff; now left).
    assert (Hl : forall a b, l <> LClone a b) by (intros a b ->; apply (Hnc a b), in_app_iff; right; now left).
    destruct (IH Hnc') as (C & G & A). pose proof (Inv_reach _ _ _ Hr) as I. pose proof (keys_reach _ _ Hr) as K. apply step_tstep in Hs.
    pose proof (keys_step _ _ _ Hs K) as K'. assert (C' : count_ok s') by (eapply count_step; eassumption).
    split; [exact C'|]. split; [eapply agree_step; eassumption | eapply a2_one_step; eassumption].
Qed.

Theorem share_reach tr s : reach tr s -> no_clone tr -> count_ok s /\ chan_agree s.
Proof. intros Hr Hnc. destruct (share_reach_full _ _ Hr Hnc) as (C & G & _). split; assumption. Qed.

(* ---- a stream that has not been cloned and is not in the second half of its asynchronous drop is registered in
   msg_senders under its own key, unless the reader has failed ---- *)
Theorem registered_live tr s sid st : reach tr s -> no_clone tr -> lookup (streams s) sid = Some st -> in_r1 s sid = false ->
  In (skey st, s_ch st) (senders s) \/ reader s = RStopped.
Proof.
  intros Hr Hnc Hl Hnr. destruct (share_reach _ _ Hr Hnc) as [C G]. pose proof (Inv_reach _ _ _ Hr) as I. destruct (ereg_reach _ _ Hr) as (E1 & E2 & E4).
  unfold skey. destruct (s_rule st) as [r|] eqn:Er.
  - specialize (C r). destruct (lookup (subs s) r) as [e|] eqn:Ee.
    + rewrite (G _ _ _ _ Hl Er Hnr Ee). destruct (E1 _ _ Ee) as [H|[[sid' H]|H]]; [now left | | now right].
      exfalso. destruct (inv_a2 _ _ I _ _ _ H) as (_ & _ & _ & _ & _ & _ & Hno). apply (Hno _ _ Hl). exact (G _ _ _ _ Hl Er Hnr Ee).
    + exfalso. unfold holders in C. assert (1 <= cnt (holds_stream s r) (streams s)); [|lia].
      apply (cnt_pos _ _ (sid, st)); [now apply lookup_in|]. rewrite holds_stream_val, Hnr. unfold rule_is. rewrite Er, Nat.eqb_refl. reflexivity.
  - destruct (inv_stream _ _ I _ _ Hl) as (_ & _ & H0). rewrite (H0 Er). exact E4.
Qed.

(* C20_delivery for histories without a cloned stream: no registration hypothesis *)
Theorem delivery_no_clone tr s sid st : reach tr s -> no_clone tr -> lookup (streams s) sid = Some st -> in_r1 s sid = false ->
  reader s <> RStopped ->
  msgs (s_got st) ++ msgs (unread (chan_at s (s_ch st)) sid) =
  filter (Inv.accepts matches (skey st)) (skipn (s_from st) (firstn (seen s (s_ch st)) (incoming s))).
Proof.
  intros Hr Hnc Hl Hnr Hrd. destruct (registered_live _ _ _ _ Hr Hnc Hl Hnr) as [H|H]; [|contradiction]. eapply delivery; eassumption.
Qed.

End Share.
