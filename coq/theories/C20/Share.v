(* C20/Share.v — sharing: the reference count of a subscription is the number of its holders — the shared rules (Arc) of the streams
   made for it (a stream and all its clones hold ONE), the remove_match calls that have not taken `subscriptions` yet, and the
   add_match call that is just creating it; all streams of a rule read the one channel of its entry; every stream is registered
   under its key until the reader fails.  For every history (clones included, since fix 3c4a83a4). *)
From ZV Require Import Base.Bytes Base.Res C19.Broadcast C19.BroadcastFacts C20.Model C20.Lemmas C20.Steps C20.Inv C20.InvG1 C20.InvG2 C20.InvG3
  C20.Proofs C20.Count C20.Arcs.
From Coq Require Import Lia Permutation.

Definition holds_task (r : nat) (p : nat * rmpc) : bool := Nat.eqb (fst p) r && match snd p with R0 => true | R1 _ => false end.
Definition holds_add (r : nat) (p : nat * addst) : bool := Nat.eqb (a_rule (snd p)) r && match a_pc (snd p) with A2 _ => true | _ => false end.
Definition holders (s : sys) (r : nat) : nat :=
  cnt (is_rule r) (arcs s) + cnt (holds_task r) (tasks s) + cnt (holds_add r) (adds s).

Definition contrib_a (s : sys) (r sid : nat) : nat :=
  match lookup (adds s) sid with Some a => b2n (holds_add r (sid, a)) | None => 0 end.
Lemma A_change s s' sid r : keys_nodup (adds s) -> keys_nodup (adds s') -> del (adds s') sid = del (adds s) sid ->
  cnt (holds_add r) (adds s') + contrib_a s r sid = cnt (holds_add r) (adds s) + contrib_a s' r sid.
Proof.
  intros K K' Ed. rewrite (cnt_split (holds_add r) (adds s) sid K), (cnt_split (holds_add r) (adds s') sid K'). unfold contrib_a. rewrite Ed. lia.
Qed.
Lemma holds_task_val r r' pc : holds_task r (r', pc) = Nat.eqb r' r && match pc with R0 => true | R1 _ => false end.
Proof. reflexivity. Qed.
Lemma holds_add_pc r sid a : (forall c, a_pc a <> A2 c) -> holds_add r (sid, a) = false.
Proof. intros H. unfold holds_add. cbn. destruct (a_pc a) eqn:E; try apply andb_false_r. destruct (H _ eq_refl). Qed.
Lemma holds_add_a2 r sid a c : a_pc a = A2 c -> holds_add r (sid, a) = Nat.eqb (a_rule a) r.
Proof. intros H. unfold holds_add. cbn. rewrite H. apply andb_true_r. Qed.

Section Share.
Variable matches : nat -> msg -> bool.
Notation tstep := (Steps.tstep matches).
Notation Inv := (Inv.Inv matches).
Notation reach := (Model.reach matches).

(* the pre-fix async_drop transitions cannot fire when the table of such drops is empty (Proofs.drops_nil) *)
Ltac dead_drop Hd := exfalso; match goal with H : lookup (drops _) _ = Some _ |- _ => rewrite Hd in H; discriminate end.

Lemma akeys_step s l s' : tstep s l s' -> keys_nodup (adds s) -> keys_nodup (adds s').
Proof.
  intros Hs K.
  destruct Hs; try exact K; try (cbn [adds with_arcs with_adds with_streams with_subs with_chans with_senders set_chan]; first [now apply keys_put | now apply keys_del]).
  - pose proof (rm_apply_frame _ _ _ _ H3) as (_ & _ & Eadd & _). cbn [adds with_drops]. rewrite adds_bury. now rewrite Eadd.
  - pose proof (rm_apply_frame _ _ _ _ H3) as (_ & _ & Eadd & _). cbn [adds with_drops]. now rewrite Eadd.
  - cbn [adds with_drops]. rewrite adds_bury. now rewrite adds_rm.
  - pose proof (rm_apply_frame _ _ _ _ H1) as (_ & _ & Eadd & _). cbn [adds with_tasks]. now rewrite Eadd.
  - pose proof (rm_apply_frame _ _ _ _ H1) as (_ & _ & Eadd & _). cbn [adds with_tasks]. now rewrite Eadd.
  - cbn [adds with_tasks]. now rewrite adds_rm.
Qed.

Lemma akeys_reach tr s : reach tr s -> keys_nodup (adds s).
Proof. induction 1 as [|tr s l s' Hr IH Hs]; [constructor|]. eapply akeys_step; [apply step_tstep; eassumption | assumption]. Qed.

(* ---- every stream made for a rule holds a shared rule (Arc) of that rule, and the holders of a shared rule are such streams ---- *)
Definition grp_ok (s : sys) : Prop :=
  (forall sid st r, lookup (streams s) sid = Some st -> s_rule st = Some r ->
     exists i ms, idx_of (arcs s) sid = Some i /\ nth_error (arcs s) i = Some (r, ms)) /\
  (forall r ms sid, In (r, ms) (arcs s) -> In sid ms -> exists st, lookup (streams s) sid = Some st /\ s_rule st = Some r).

Lemma grp_frame s s' : grp_ok s -> arcs s' = arcs s -> streams s' = streams s -> grp_ok s'.
Proof. intros [G1 G2] Ea Es. split; [intros sid st r; rewrite Ea, Es; apply G1 | intros r ms sid; rewrite Ea, Es; apply G2]. Qed.

(* a stream that goes away without touching the table: it held nothing (no rule), or nothing lists it *)
Lemma grp_bury_plain s sid st : grp_ok s -> lookup (streams s) sid = Some st -> (forall r ms, In (r, ms) (arcs s) -> ~ In sid ms) ->
  forall s', arcs s' = arcs s -> streams s' = del (streams s) sid -> grp_ok s'.
Proof.
  intros [G1 G2] Hl Hno s' Ea Es. split.
  - intros sid' st' r Hl' Hr. rewrite Es in Hl'. apply in_del_lookup in Hl'. rewrite Ea. eauto.
  - intros r ms sid' Hin Hm. rewrite Ea in Hin. destruct (G2 _ _ _ Hin Hm) as (st' & Hs' & Hr'). exists st'. split; [|assumption].
    rewrite Es. rewrite lookup_del_other; [assumption|]. intros ->. exact (Hno _ _ Hin Hm).
Qed.

(* the holder lets go of its shared rule *)
Lemma grp_release s sid st r a' b : grp_ok s -> lookup (streams s) sid = Some st -> s_rule st = Some r -> release (arcs s) sid = (a', b) ->
  forall s', arcs s' = a' -> streams s' = del (streams s) sid -> grp_ok s'.
Proof.
  intros [G1 G2] Hl Hr Hrel s' Ea Es. destruct (G1 _ _ _ Hl Hr) as (i & ms & Hi & Hn).
  destruct (release_spec _ _ _ _ Hrel) as [(Hnone & _)|(i' & r' & ms' & Hi' & Hn' & Hcase)]; [congruence|].
  rewrite Hi in Hi'. inversion Hi'; subst i'. rewrite Hn in Hn'. inversion Hn'; subst r' ms'.
  assert (Hleave1 : forall sid' st' r0, sid' <> sid -> lookup (streams s) sid' = Some st' -> s_rule st' = Some r0 ->
            exists j ms0, idx_of (leave (arcs s) sid) sid' = Some j /\ nth_error (leave (arcs s) sid) j = Some (r0, remove_nat sid ms0) /\ In sid' (remove_nat sid ms0)).
  { intros sid' st' r0 Hne Hl' Hr'. destruct (G1 _ _ _ Hl' Hr') as (j & ms0 & Hj & Hnj). exists j, ms0.
    assert (Hidx : idx_of (leave (arcs s) sid) sid' = idx_of (arcs s) sid') by (apply idx_of_map_rel; intros p _; now apply holds_leave).
    rewrite Hidx, nth_error_leave, Hnj. split; [assumption|]. split; [reflexivity|].
    destruct (idx_of_some _ _ _ Hj) as (p & Hp & Hh). rewrite Hnj in Hp. inversion Hp; subst p. apply holds_in in Hh. cbn in Hh. apply in_remove_nat. tauto. }
  assert (Hleave2 : forall r0 ms0 sid', In (r0, ms0) (leave (arcs s) sid) -> In sid' ms0 ->
            exists st', lookup (del (streams s) sid) sid' = Some st' /\ s_rule st' = Some r0).
  { intros r0 ms0 sid' Hin Hm. unfold leave in Hin. apply in_map_iff in Hin. destruct Hin as ([r1 ms1] & E & Hin). cbn in E. inversion E; subst r0 ms0.
    apply in_remove_nat in Hm. destruct Hm as [Hm Hne]. destruct (G2 _ _ _ Hin Hm) as (st' & Hs' & Hr'). exists st'. split; [|assumption]. now rewrite lookup_del_other. }
  split.
  - intros sid' st' r0 Hl' Hr'. rewrite Es in Hl'. assert (Hne : sid' <> sid) by (intros ->; now rewrite lookup_del_same in Hl').
    rewrite lookup_del_other in Hl' by assumption. destruct (Hleave1 _ _ _ Hne Hl' Hr') as (j & ms0 & Hj & Hnj & Hm). rewrite Ea.
    destruct Hcase as [(Hemp & -> & _)|(_ & -> & _)]; [|eauto].
    assert (Hp : nth_error (leave (arcs s) sid) i = Some (r, [])) by (rewrite nth_error_leave, Hn; cbn; now rewrite Hemp).
    destruct (idx_of_del_nth _ _ _ _ _ _ Hj Hnj Hp) as (j' & H1 & H2); [reflexivity | eauto].
  - intros r0 ms0 sid' Hin Hm. rewrite Ea in Hin. rewrite Es. destruct Hcase as [(_ & -> & _)|(_ & -> & _)].
    + apply in_del_nth in Hin. eauto.
    + eauto.
Qed.

Lemma grp_put s sid stn : grp_ok s -> (forall st, lookup (streams s) sid = Some st -> s_rule stn = s_rule st) ->
  (lookup (streams s) sid = None -> s_rule stn = None) ->
  forall s', arcs s' = arcs s -> streams s' = put (streams s) sid stn -> grp_ok s'.
Proof.
  intros [G1 G2] Hsame Hnew s' Ea Es. split.
  - intros sid' st' r Hl' Hr. rewrite Es in Hl'. rewrite Ea. destruct (Nat.eq_dec sid' sid) as [->|Hne].
    + rewrite lookup_put_same in Hl'. inversion Hl'; subst st'. destruct (lookup (streams s) sid) as [st|] eqn:E.
      * rewrite (Hsame st eq_refl) in Hr. eauto.
      * rewrite (Hnew eq_refl) in Hr. discriminate.
    + rewrite lookup_put_other in Hl' by assumption. eauto.
  - intros r ms sid' Hin Hm. rewrite Ea in Hin. rewrite Es. destruct (G2 _ _ _ Hin Hm) as (st' & Hs' & Hr'). destruct (Nat.eq_dec sid' sid) as [->|Hne].
    + rewrite lookup_put_same. exists stn. split; [reflexivity|]. now rewrite (Hsame _ Hs').
    + rewrite lookup_put_other by assumption. eauto.
Qed.

Lemma grp_add s sid r stn : grp_ok s -> lookup (streams s) sid = None -> s_rule stn = Some r ->
  forall s', arcs s' = arcs s ++ [(r, [sid])] -> streams s' = put (streams s) sid stn -> grp_ok s'.
Proof.
  intros [G1 G2] Hnone Hr s' Ea Es.
  assert (Hidx : idx_of (arcs s) sid = None).
  { destruct (idx_of (arcs s) sid) as [i|] eqn:E; [|reflexivity]. destruct (idx_of_some _ _ _ E) as ([r0 ms0] & Hn & Hh).
    apply nth_error_In in Hn. apply holds_in in Hh. destruct (G2 _ _ _ Hn Hh) as (st & Hs & _). congruence. }
  split.
  - intros sid' st' r0 Hl' Hr'. rewrite Es in Hl'. rewrite Ea, idx_of_app. destruct (Nat.eq_dec sid' sid) as [->|Hne].
    + rewrite lookup_put_same in Hl'. inversion Hl'; subst st'. rewrite Hidx. cbn [holds snd existsb]. rewrite Nat.eqb_refl. cbn [orb].
      exists (length (arcs s)), [sid]. split; [reflexivity|]. rewrite nth_error_app2 by lia. rewrite Nat.sub_diag. cbn. congruence.
    + rewrite lookup_put_other in Hl' by assumption. destruct (G1 _ _ _ Hl' Hr') as (i & ms & Hi & Hn). rewrite Hi. exists i, ms. split; [reflexivity|].
      rewrite nth_error_app1; [assumption|]. apply nth_error_Some. congruence.
  - intros r0 ms0 sid' Hin Hm. rewrite Ea in Hin. rewrite Es. apply in_app_iff in Hin. destruct Hin as [Hin|[E|[]]].
    + destruct (G2 _ _ _ Hin Hm) as (st' & Hs' & Hr'). exists st'. split; [|assumption]. rewrite lookup_put_other; [assumption | intros ->; congruence].
    + inversion E; subst r0 ms0. destruct Hm as [<-|[]]. rewrite lookup_put_same. eauto.
Qed.

Lemma grp_clone s sid sid2 st : grp_ok s -> lookup (streams s) sid = Some st -> lookup (streams s) sid2 = None ->
  forall s', arcs s' = join (arcs s) sid sid2 -> streams s' = put (streams s) sid2 st -> grp_ok s'.
Proof.
  intros [G1 G2] Hl Hnone s' Ea Es.
  set (f := fun p : nat * list nat => if holds sid p then (fst p, snd p ++ [sid2]) else p).
  assert (Hno2 : forall p, In p (arcs s) -> holds sid2 p = false).
  { intros [r0 ms0] Hin. apply holds_false. intros Hm. destruct (G2 _ _ _ Hin Hm) as (st' & Hs' & _). congruence. }
  assert (Hother : forall x p, x <> sid2 -> holds x (f p) = holds x p).
  { intros x p Hne. unfold f. destruct (holds sid p); [|reflexivity]. destruct (holds x p) eqn:E.
    - apply holds_in. cbn. apply in_app_iff. left. now apply holds_in.
    - apply holds_false. cbn. rewrite in_app_iff. apply holds_false in E. cbn. intros [H|[H|[]]]; [tauto | congruence]. }
  assert (Hnew : forall p, In p (arcs s) -> holds sid2 (f p) = holds sid p).
  { intros p Hin. unfold f. destruct (holds sid p) eqn:E; [|now apply Hno2]. apply holds_in. cbn. apply in_app_iff. right. now left. }
  assert (Hrule : forall p, fst (f p) = fst p) by (intros p; unfold f; destruct (holds sid p); reflexivity).
  split.
  - intros sid' st' r Hl' Hr'. rewrite Es in Hl'. rewrite Ea. unfold join. fold f. destruct (Nat.eq_dec sid' sid2) as [->|Hne].
    + rewrite lookup_put_same in Hl'. inversion Hl'; subst st'. destruct (G1 _ _ _ Hl Hr') as (i & ms & Hi & Hn).
      rewrite (idx_of_map_rel f (arcs s) sid2 sid Hnew), Hi. exists i. rewrite nth_error_map, Hn. cbn [option_map].
      exists (snd (f (r, ms))). split; [reflexivity|]. f_equal. rewrite (surjective_pairing (f (r, ms))). now rewrite Hrule.
    + rewrite lookup_put_other in Hl' by assumption. destruct (G1 _ _ _ Hl' Hr') as (i & ms & Hi & Hn).
      rewrite (idx_of_map_rel f (arcs s) sid' sid' (fun p _ => Hother sid' p Hne)), Hi. exists i. rewrite nth_error_map, Hn. cbn [option_map].
      exists (snd (f (r, ms))). split; [reflexivity|]. f_equal. rewrite (surjective_pairing (f (r, ms))). now rewrite Hrule.
  - intros r0 ms0 sid' Hin Hm. rewrite Ea in Hin. rewrite Es. unfold join in Hin. fold f in Hin. apply in_map_iff in Hin. destruct Hin as ([r1 ms1] & E & Hin).
    unfold f in E. destruct (holds sid (r1, ms1)) eqn:Eh; inversion E; subst r0 ms0.
    + cbn [fst snd] in Hm. apply in_app_iff in Hm. destruct Hm as [Hm|[<-|[]]].
      * destruct (G2 _ _ _ Hin Hm) as (st' & Hs' & Hr'). exists st'. split; [|assumption]. rewrite lookup_put_other; [assumption | intros ->; congruence].
      * apply holds_in in Eh. cbn in Eh. destruct (G2 _ _ _ Hin Eh) as (st' & Hs' & Hr'). rewrite Hl in Hs'. inversion Hs'; subst st'. rewrite lookup_put_same. eauto.
    + destruct (G2 _ _ _ Hin Hm) as (st' & Hs' & Hr'). exists st'. split; [|assumption]. rewrite lookup_put_other; [assumption | intros ->; congruence].
Qed.

Lemma grp_step s l s' : tstep s l s' -> Inv s -> drops s = [] -> grp_ok s -> grp_ok s'.
Proof.
  intros Hs I Hd G. pose proof G as [G1 G2].
  destruct Hs; try (eapply grp_frame; [exact G | reflexivity | reflexivity]); try (dead_drop Hd).
  - (* occupied *) eapply (grp_add s sid (a_rule a) (mk_stream (Some (a_rule a)) (e_ch e) (seen s (e_ch e)))); [exact G | eapply inv_ids; eassumption | reflexivity | reflexivity | reflexivity].
  - (* add sender *) eapply (grp_add s sid (a_rule a) (mk_stream (Some (a_rule a)) c (seen s c))); [exact G | eapply inv_ids; eassumption | reflexivity | reflexivity | reflexivity].
  - (* unfiltered *) apply fresh_spec in H. destruct H as (Hn & _). eapply (grp_put s sid (mk_stream None 0 (seen s 0))); [exact G | intros st Hst; congruence | reflexivity | reflexivity | reflexivity].
  - (* poll *) destruct H as [Hl _]. eapply (grp_put s sid (got_more st x)); [exact G | intros st0 Hst; rewrite Hl in Hst; inversion Hst; reflexivity | intros Hn; congruence | reflexivity | reflexivity].
  - (* drop, last holder *) destruct H as [Hl _]. eapply (grp_release s sid st r); [exact G | exact Hl | eassumption | eassumption | reflexivity | reflexivity].
  - (* drop, no rule *) destruct H as [Hl _]. eapply (grp_bury_plain s sid st); [exact G | exact Hl | | reflexivity | reflexivity].
    intros r ms Hin Hm. destruct (G2 _ _ _ Hin Hm) as (st' & Hs' & Hr'). congruence.
  - (* clone *) destruct H as [Hl _]. apply fresh_spec in H0. destruct H0 as (Hn & _). eapply (grp_clone s sid sid2 st); [exact G | exact Hl | exact Hn | reflexivity | reflexivity].
  - destruct H as [Hl _]. eapply (grp_release s sid st r); [exact G | exact Hl | eassumption | eassumption | reflexivity | reflexivity].
  - destruct H as [Hl _]. eapply (grp_bury_plain s sid st); [exact G | exact Hl | | reflexivity | reflexivity].
    intros r ms Hin Hm. destruct (G2 _ _ _ Hin Hm) as (st' & Hs' & Hr'). congruence.
  - pose proof (rm_apply_frame _ _ _ _ H1) as (_ & Estr & _ & _ & _ & _ & _ & _ & _ & Earc). eapply grp_frame; [exact G | exact Earc | exact Estr].
  - pose proof (rm_apply_frame _ _ _ _ H1) as (_ & Estr & _ & _ & _ & _ & _ & _ & _ & Earc). eapply grp_frame; [exact G | exact Earc | exact Estr].
  - eapply grp_frame; [exact G | apply arcs_rm | apply streams_rm].
  - destruct H as [Hl _]. eapply (grp_release s sid st r); [exact G | exact Hl | eassumption | eassumption | reflexivity | reflexivity].
  - destruct H as [Hl _]. eapply (grp_release s sid st r); [exact G | exact Hl | eassumption | eassumption | reflexivity | reflexivity].
Qed.

(* ---- the reference count ---- *)
Definition count_ok (s : sys) : Prop :=
  forall r, match lookup (subs s) r with Some e => e_ref e = holders s r | None => holders s r = 0 end.

Lemma count_same s s' : count_ok s -> subs s' = subs s -> arcs s' = arcs s -> adds s' = adds s -> tasks s' = tasks s -> count_ok s'.
Proof. intros C E1 E2 E3 E4 r. specialize (C r). unfold holders in *. now rewrite E1, E2, E3, E4. Qed.

(* an add_match call that has just created the entry of its rule is its only holder *)
Definition a2_one (s : sys) : Prop := forall sid r c, a2 s sid r c -> holders s r = 1.

(* what letting go does to the number of shared rules of each rule *)
Lemma cnt_release s sid st r a' b : grp_ok s -> lookup (streams s) sid = Some st -> s_rule st = Some r -> release (arcs s) sid = (a', b) ->
  forall r0, cnt (is_rule r0) a' + (if b then b2n (Nat.eqb r r0) else 0) = cnt (is_rule r0) (arcs s).
Proof.
  intros [G1 _] Hl Hr Hrel r0. destruct (G1 _ _ _ Hl Hr) as (i & ms & Hi & Hn).
  destruct (release_spec _ _ _ _ Hrel) as [(Hnone & _)|(i' & r' & ms' & Hi' & Hn' & Hcase)]; [congruence|].
  rewrite Hi in Hi'. inversion Hi'; subst i'. rewrite Hn in Hn'. inversion Hn'; subst r' ms'.
  destruct Hcase as [(Hemp & -> & ->)|(_ & -> & ->)].
  - assert (Hp : nth_error (leave (arcs s) sid) i = Some (r, [])) by (rewrite nth_error_leave, Hn; cbn; now rewrite Hemp).
    pose proof (cnt_del_nth (is_rule r0) _ _ _ Hp) as Hx. rewrite cnt_leave in Hx. exact Hx.
  - rewrite cnt_leave. lia.
Qed.

Lemma count_step s l s' : tstep s l s' -> Inv s -> drops s = [] -> keys_nodup (adds s) -> keys_nodup (adds s') -> grp_ok s -> a2_one s ->
  count_ok s -> count_ok s'.
Proof.
  intros Hs I Hd Ka Ka' G Aone C.
  destruct Hs; try (eapply count_same; [exact C | reflexivity..]); try (dead_drop Hd).
  - (* add start: a call in A0 holds nothing *)
    apply fresh_spec in H. destruct H as (_ & Hn & _). intros r0. specialize (C r0). unfold holders in *. cbn [subs arcs adds tasks with_adds] in *.
    pose proof (A_change s (with_adds s (put (adds s) sid {| a_rule := r; a_q := q; a_pc := A0 |})) sid r0 Ka Ka' (del_put _ _ _)) as HA.
    unfold contrib_a in HA. cbn [adds with_adds] in HA. rewrite lookup_put_same, Hn in HA. rewrite holds_add_pc in HA by (intros c0; discriminate). cbn [b2n] in HA.
    destruct (lookup (subs s) r0); lia.
  - (* add check fails *)
    intros r0. specialize (C r0). unfold holders in *. cbn [subs arcs adds tasks with_adds] in *.
    pose proof (A_change s (with_adds s (del (adds s) sid)) sid r0 Ka Ka' (del_del _ _)) as HA.
    unfold contrib_a in HA. cbn [adds with_adds] in HA. rewrite lookup_del_same, H in HA. rewrite holds_add_pc in HA by (intros c0; congruence). cbn [b2n] in HA.
    destruct (lookup (subs s) r0); lia.
  - (* add check ok *)
    intros r0. specialize (C r0). unfold holders in *. cbn [subs arcs adds tasks with_adds] in *.
    pose proof (A_change s (with_adds s (put (adds s) sid (add_at a A1))) sid r0 Ka Ka' (del_put _ _ _)) as HA.
    unfold contrib_a in HA. cbn [adds with_adds] in HA. rewrite lookup_put_same, H in HA.
    rewrite (holds_add_pc r0 sid a) in HA by (intros c0; congruence). rewrite holds_add_pc in HA by (intros c0; cbn; discriminate). cbn [b2n] in HA.
    destruct (lookup (subs s) r0); lia.
  - (* occupied: one more shared rule, one more reference *)
    subst c ch1 s1 s2. set (r1 := a_rule a) in *. set (s' := with_arcs _ _).
    intros r0. specialize (C r0). unfold holders in *.
    pose proof (A_change s s' sid r0 Ka Ka' ltac:(apply del_del)) as HA.
    unfold contrib_a in HA. change (adds s') with (del (adds s) sid) in HA at 2. rewrite lookup_del_same, H in HA. rewrite holds_add_pc in HA by (intros c0; congruence). cbn [b2n] in HA.
    change (tasks s') with (tasks s). change (arcs s') with (arcs s ++ [(r1, [sid])]). rewrite cnt_app, cnt_one. replace (is_rule r0 (r1, [sid])) with (Nat.eqb r1 r0) by reflexivity.
    change (subs s') with (put (subs s) r1 {| e_ref := S (e_ref e); e_ch := e_ch e |}).
    destruct (Nat.eq_dec r0 r1) as [->|Hne].
    + rewrite lookup_put_same. rewrite H2 in C. rewrite Nat.eqb_refl. cbn [e_ref b2n] in *. lia.
    + rewrite lookup_put_other by assumption. replace (Nat.eqb r1 r0) with false by (symmetry; apply Nat.eqb_neq; congruence). cbn [b2n].
      destruct (lookup (subs s) r0); lia.
  - (* vacant: the call itself is the one holder *)
    subst c capacity s1 s2. set (r1 := a_rule a) in *. set (s' := with_adds _ _).
    intros r0. specialize (C r0). unfold holders in *.
    pose proof (A_change s s' sid r0 Ka Ka' ltac:(apply del_put)) as HA.
    unfold contrib_a in HA. change (adds s') with (put (adds s) sid (add_at a (A2 (length (chans s))))) in HA at 2. rewrite lookup_put_same, H in HA.
    rewrite (holds_add_pc r0 sid a) in HA by (intros c0; congruence). rewrite (holds_add_a2 r0 sid _ (length (chans s))) in HA by reflexivity. cbn [b2n a_rule add_at] in HA.
    change (tasks s') with (tasks s). change (arcs s') with (arcs s).
    change (subs s') with (put (subs s) r1 {| e_ref := 1; e_ch := length (chans s) |}).
    destruct (Nat.eq_dec r0 r1) as [->|Hne].
    + rewrite lookup_put_same. rewrite H2 in C. fold r1 in HA. rewrite Nat.eqb_refl in HA. cbn [e_ref b2n] in *. lia.
    + rewrite lookup_put_other by assumption. fold r1 in HA. replace (Nat.eqb r1 r0) with false in HA by (symmetry; apply Nat.eqb_neq; congruence). cbn [b2n] in HA.
      destruct (lookup (subs s) r0); lia.
  - (* add sender: the call hands its reference to the stream's shared rule *)
    set (r1 := a_rule a) in *. set (s' := with_arcs _ _).
    intros r0. specialize (C r0). unfold holders in *.
    pose proof (A_change s s' sid r0 Ka Ka' ltac:(apply del_del)) as HA.
    unfold contrib_a in HA. change (adds s') with (del (adds s) sid) in HA at 2. rewrite lookup_del_same, H in HA. rewrite (holds_add_a2 r0 sid a c H0) in HA. fold r1 in HA.
    change (tasks s') with (tasks s). change (subs s') with (subs s). change (arcs s') with (arcs s ++ [(r1, [sid])]). rewrite cnt_app, cnt_one. replace (is_rule r0 (r1, [sid])) with (Nat.eqb r1 r0) by reflexivity.
    destruct (lookup (subs s) r0); lia.
  - (* drop by the last holder: the shared rule goes, a remove_match call comes *)
    destruct H as [Hl _]. intros r0. specialize (C r0). unfold holders in *. pose proof (cnt_release s sid st r a' true G Hl H0 H1 r0) as HR. cbn [arcs tasks adds subs with_arcs with_tasks] in *.
    change (tasks (bury s sid st)) with (tasks s) in *. change (adds (bury s sid st)) with (adds s). change (subs (bury s sid st)) with (subs s).
    rewrite cnt_app, cnt_one. rewrite holds_task_val, andb_true_r. destruct (lookup (subs s) r0); lia.
  - (* clone: one more holder of the same shared rule *)
    intros r0. specialize (C r0). unfold holders in *. cbn [arcs tasks adds subs with_arcs with_streams set_chan with_chans]. rewrite cnt_join. exact C.
  - (* async drop by the last holder *)
    destruct H as [Hl _]. intros r0. specialize (C r0). unfold holders in *. pose proof (cnt_release s sid st r a' true G Hl H0 H1 r0) as HR. cbn [arcs tasks adds subs with_arcs with_tasks] in *.
    change (tasks (bury s sid st)) with (tasks s) in *. change (adds (bury s sid st)) with (adds s). change (subs (bury s sid st)) with (subs s).
    rewrite cnt_app, cnt_one. rewrite holds_task_val, andb_true_r. destruct (lookup (subs s) r0); lia.
  - (* task, subs, not the last reference *)
    pose proof (rm_apply_frame _ _ _ _ H1) as (_ & _ & Eadd & _ & Etsk & _ & _ & _ & _ & Earc). set (s' := with_tasks _ _).
    assert (Ea : adds s' = adds s) by (unfold s'; cbn [adds with_tasks]; exact Eadd).
    assert (Er : arcs s' = arcs s) by (unfold s'; cbn [arcs with_tasks]; exact Earc).
    assert (Hc1 : forall r0, cnt (holds_task r0) (tasks s') + b2n (Nat.eqb r r0) = cnt (holds_task r0) (tasks s)).
    { intros r0. unfold s'. cbn [tasks with_tasks]. pose proof (cnt_del_nth (holds_task r0) (tasks s) n (r, R0) H) as Hx. rewrite holds_task_val, andb_true_r in Hx. exact Hx. }
    assert (Esub : subs s' = subs s1) by reflexivity.
    apply rm_apply_spec in H1. intros r0. pose proof (C r0) as Cr0. pose proof (C r) as Cr. unfold holders in *. rewrite Er, Ea, Esub. specialize (Hc1 r0).
    inversion H1 as [Hn Eq1 | e n0 Hle Hre Eq1 | |]; subst.
    + rewrite Hn in Cr. destruct (Nat.eq_dec r0 r) as [->|Hne].
      * rewrite Nat.eqb_refl in Hc1. cbn [b2n] in Hc1. rewrite Hn. lia.
      * replace (Nat.eqb r r0) with false in Hc1 by (symmetry; apply Nat.eqb_neq; congruence). cbn [b2n] in Hc1. destruct (lookup (subs s1) r0); lia.
    + cbn [subs with_subs]. rewrite Hle in Cr. destruct (Nat.eq_dec r0 r) as [->|Hne].
      * rewrite lookup_put_same. rewrite Nat.eqb_refl in Hc1. cbn [b2n e_ref] in *. lia.
      * rewrite lookup_put_other by assumption. replace (Nat.eqb r r0) with false in Hc1 by (symmetry; apply Nat.eqb_neq; congruence). cbn [b2n] in Hc1.
        destruct (lookup (subs s) r0); lia.
  - (* task, subs, last reference *)
    pose proof (rm_apply_frame _ _ _ _ H1) as (_ & _ & Eadd & _ & Etsk & _ & _ & _ & _ & Earc). set (s' := with_tasks _ _).
    assert (Ea : adds s' = adds s) by (unfold s'; cbn [adds with_tasks]; exact Eadd).
    assert (Er : arcs s' = arcs s) by (unfold s'; cbn [arcs with_tasks]; exact Earc).
    assert (Hc1 : forall r0, cnt (holds_task r0) (tasks s') + b2n (Nat.eqb r r0) = cnt (holds_task r0) (tasks s)).
    { intros r0. unfold s'. cbn [tasks with_tasks]. pose proof (cnt_upd (holds_task r0) (tasks s) n (r, R1 c) (r, R0) H) as Hx.
      rewrite !holds_task_val, andb_true_r, andb_false_r in Hx. cbn [b2n] in Hx. lia. }
    assert (Esub : subs s' = subs s1) by reflexivity.
    apply rm_apply_spec in H1. intros r0. pose proof (C r0) as Cr0. pose proof (C r) as Cr. unfold holders in *. rewrite Er, Ea, Esub. specialize (Hc1 r0).
    assert (Hsub1 : subs s1 = del (subs s) r /\ exists e, lookup (subs s) r = Some e /\ e_ref e <= 1).
    { inversion H1; subst; cbn [subs with_subs set_chan with_chans]; split; try reflexivity; eauto. }
    destruct Hsub1 as (Es1 & e & He & Hle). rewrite Es1. rewrite He in Cr. destruct (Nat.eq_dec r0 r) as [->|Hne].
    + rewrite lookup_del_same. rewrite Nat.eqb_refl in Hc1. cbn [b2n] in Hc1. lia.
    + rewrite lookup_del_other by assumption. replace (Nat.eqb r r0) with false in Hc1 by (symmetry; apply Nat.eqb_neq; congruence). cbn [b2n] in Hc1.
      destruct (lookup (subs s) r0); lia.
  - (* task, sender *)
    set (s' := with_tasks _ _).
    assert (Er : arcs s' = arcs s) by (unfold s'; cbn [arcs with_tasks]; apply arcs_rm).
    assert (Ea : adds s' = adds s) by (unfold s'; cbn [adds with_tasks]; apply adds_rm).
    assert (Esub : subs s' = subs s) by (unfold s'; cbn [subs with_tasks]; apply subs_rm).
    intros r0. specialize (C r0). unfold holders in *. rewrite Er, Ea, Esub.
    unfold s'. cbn [tasks with_tasks]. pose proof (cnt_del_nth (holds_task r0) (tasks s) n (r, R1 c) H) as Hx. rewrite holds_task_val, andb_false_r in Hx. cbn [b2n] in Hx.
    destruct (lookup (subs s) r0); lia.
  - (* add sender, failed: the call was the only holder; entry and call go together *)
    set (r1 := a_rule a) in *. set (s' := with_adds _ _).
    assert (Hme : a2 s sid r1 c) by (exists a; tauto). pose proof (Aone _ _ _ Hme) as Hone.
    intros r0. specialize (C r0). unfold holders in *.
    pose proof (A_change s s' sid r0 Ka Ka' ltac:(apply del_del)) as HA.
    unfold contrib_a in HA. change (adds s') with (del (adds s) sid) in HA at 2. rewrite lookup_del_same, H in HA. rewrite (holds_add_a2 r0 sid a c H0) in HA. fold r1 in HA.
    change (arcs s') with (arcs s). change (tasks s') with (tasks s). change (subs s') with (del (subs s) r1).
    destruct (Nat.eq_dec r0 r1) as [->|Hne].
    + rewrite lookup_del_same. rewrite Nat.eqb_refl in HA. cbn [b2n] in HA. lia.
    + rewrite lookup_del_other by assumption. replace (Nat.eqb r1 r0) with false in HA by (symmetry; apply Nat.eqb_neq; congruence). cbn [b2n] in HA.
      destruct (lookup (subs s) r0); lia.
  - (* drop while other clones hold the rule: nothing is given back *)
    destruct H as [Hl _]. intros r0. specialize (C r0). unfold holders in *. pose proof (cnt_release s sid st r a' false G Hl H0 H1 r0) as HR. cbn [arcs tasks adds subs with_arcs] in *.
    change (tasks (bury s sid st)) with (tasks s). change (adds (bury s sid st)) with (adds s). change (subs (bury s sid st)) with (subs s). destruct (lookup (subs s) r0); lia.
  - destruct H as [Hl _]. intros r0. specialize (C r0). unfold holders in *. pose proof (cnt_release s sid st r a' false G Hl H0 H1 r0) as HR. cbn [arcs tasks adds subs with_arcs] in *.
    change (tasks (bury s sid st)) with (tasks s). change (adds (bury s sid st)) with (adds s). change (subs (bury s sid st)) with (subs s). destruct (lookup (subs s) r0); lia.
Qed.

(* ---- all streams of a rule read the channel of its entry ---- *)
Definition chan_agree (s : sys) : Prop :=
  forall sid st r e, lookup (streams s) sid = Some st -> s_rule st = Some r -> lookup (subs s) r = Some e -> s_ch st = e_ch e.

Lemma agree_step s l s' : tstep s l s' -> Inv s -> drops s = [] -> count_ok s -> grp_ok s -> chan_agree s -> chan_agree s'.
Proof.
  intros Hs I Hd C [G1 G2] G sid0 st0 r0 e0 Hl Hr He.
  destruct Hs; try (eapply G; [exact Hl | exact Hr | exact He]); try (dead_drop Hd).
  - (* occupied *) subst c ch1 s1 s2. cbn [streams subs with_arcs with_adds with_streams with_subs set_chan with_chans] in Hl, He.
    destruct (Nat.eq_dec sid0 sid) as [->|Hne].
    + rewrite lookup_put_same in Hl. inversion Hl; subst st0. cbn in Hr. inversion Hr; subst r0. rewrite lookup_put_same in He. inversion He; subst e0. reflexivity.
    + rewrite lookup_put_other in Hl by assumption. destruct (Nat.eq_dec r0 (a_rule a)) as [->|Hnr].
      * rewrite lookup_put_same in He. inversion He; subst e0. cbn. eapply G; eassumption.
      * rewrite lookup_put_other in He by assumption. eapply G; eassumption.
  - (* vacant: nobody holds the rule, so no stream of the rule is around *)
    subst c capacity s1 s2. cbn [streams subs with_adds with_subs with_chans] in Hl, He.
    destruct (Nat.eq_dec r0 (a_rule a)) as [->|Hnr]; [|rewrite lookup_put_other in He by assumption; eapply G; eassumption].
    exfalso. specialize (C (a_rule a)). rewrite H2 in C. unfold holders in C. destruct (G1 _ _ _ Hl Hr) as (i & ms & _ & Hn). apply nth_error_In in Hn.
    pose proof (cnt_pos (is_rule (a_rule a)) (arcs s) _ Hn ltac:(unfold is_rule; cbn; apply Nat.eqb_refl)). lia.
  - (* add sender *) cbn [streams subs with_arcs with_adds with_streams with_senders] in Hl, He.
    destruct (Nat.eq_dec sid0 sid) as [->|Hne]; [|rewrite lookup_put_other in Hl by assumption; eapply G; eassumption].
    rewrite lookup_put_same in Hl. inversion Hl; subst st0. cbn in Hr. inversion Hr; subst r0. cbn.
    destruct (inv_a2 _ _ I sid (a_rule a) c) as ((e & He1 & Hc1) & _); [exists a; tauto|]. congruence.
  - (* unfiltered *) cbn [streams subs with_streams set_chan with_chans] in Hl, He.
    destruct (Nat.eq_dec sid0 sid) as [->|Hne]; [rewrite lookup_put_same in Hl; inversion Hl; subst; discriminate|].
    rewrite lookup_put_other in Hl by assumption. eapply G; eassumption.
  - (* poll *) destruct H as [Hl0 _]. cbn [streams subs with_streams set_chan with_chans] in Hl, He.
    destruct (Nat.eq_dec sid0 sid) as [->|Hne]; [|rewrite lookup_put_other in Hl by assumption; eapply G; eassumption].
    rewrite lookup_put_same in Hl. inversion Hl; subst st0. cbn in *. eapply G; eassumption.
  - (* drop *) cbn [streams subs with_arcs with_tasks] in Hl, He. rewrite streams_bury in Hl. apply in_del_lookup in Hl. eapply G; eassumption.
  - rewrite streams_bury in Hl. apply in_del_lookup in Hl. eapply G; eassumption.
  - (* clone: same record, same channel *) destruct H as [Hl0 _]. cbn [streams subs with_arcs with_streams set_chan with_chans] in Hl, He.
    destruct (Nat.eq_dec sid0 sid2) as [->|Hne]; [|rewrite lookup_put_other in Hl by assumption; eapply G; eassumption].
    rewrite lookup_put_same in Hl. inversion Hl; subst st0. eapply G; eassumption.
  - cbn [streams subs with_arcs with_tasks] in Hl, He. rewrite streams_bury in Hl. apply in_del_lookup in Hl. eapply G; eassumption.
  - rewrite streams_bury in Hl. apply in_del_lookup in Hl. eapply G; eassumption.
  - (* task, subs, done *)
    pose proof (rm_apply_frame _ _ _ _ H1) as (_ & Estr & _). cbn [streams subs with_tasks] in Hl, He. rewrite Estr in Hl.
    apply rm_apply_spec, rm_spec_tables in H1. destruct H1 as (_ & _ & _ & _ & _ & _ & Eoth & Erm).
    destruct (Nat.eq_dec r0 r) as [->|Hnr]; [|rewrite (Eoth _ Hnr) in He; eapply G; eassumption].
    destruct (lookup (subs s) r) as [e1|] eqn:E1; [|congruence]. destruct Erm as (e' & He' & Hce). rewrite He' in He. inversion He; subst e0.
    rewrite Hce. eapply G; eassumption.
  - (* task, subs, wait *)
    pose proof (rm_apply_frame _ _ _ _ H1) as (_ & Estr & _). cbn [streams subs with_tasks] in Hl, He. rewrite Estr in Hl.
    apply rm_apply_spec, rm_spec_tables in H1. destruct H1 as (_ & _ & _ & _ & _ & _ & Eoth & (En & _)).
    destruct (Nat.eq_dec r0 r) as [->|Hnr]; [congruence|]. rewrite (Eoth _ Hnr) in He. eapply G; eassumption.
  - (* task, sender *) cbn [streams subs with_tasks] in Hl, He. rewrite streams_rm in Hl. rewrite subs_rm in He. eapply G; eassumption.
  - (* add sender, failed *) cbn [streams subs with_adds with_subs set_chan with_chans] in Hl, He. apply in_del_lookup in He. eapply G; eassumption.
  - cbn [streams subs with_arcs] in Hl, He. rewrite streams_bury in Hl. apply in_del_lookup in Hl. eapply G; eassumption.
  - cbn [streams subs with_arcs] in Hl, He. rewrite streams_bury in Hl. apply in_del_lookup in Hl. eapply G; eassumption.
Qed.

(* ---- an entry of `subscriptions` has its sender in msg_senders, unless it is just being created or the reader has failed;
   a remove_match between its two steps has taken its entry away; the unfiltered channel stays registered until the reader fails ---- *)
Definition e1 (s : sys) : Prop :=
  forall r e, lookup (subs s) r = Some e -> In (KRule r, e_ch e) (senders s) \/ (exists sid, a2 s sid r (e_ch e)) \/ reader s = RStopped.
Definition ereg (s : sys) : Prop :=
  e1 s /\ (forall r c, r1 s r c -> lookup (subs s) r = None) /\ (In (KAll, 0) (senders s) \/ reader s = RStopped).

Lemma stopped_stays s l s' : tstep s l s' -> reader s = RStopped -> reader s' = RStopped.
Proof.
  intros Hs Hr. destruct Hs; cbn [reader with_reader with_socket with_incoming with_adds with_streams with_subs with_chans with_senders with_arcs
                                  with_drops with_tasks with_dead set_chan bury]; try congruence; try assumption;
    try (match goal with Hx : rm_apply _ _ = _ |- _ => pose proof (rm_apply_frame _ _ _ _ Hx) as (_ & _ & _ & _ & _ & Erd & _); congruence end);
    try (rewrite reader_rm; assumption).
Qed.

(* the reader stays stopped; KAll stays registered until the reader fails *)
Lemma kall_step s l s' : tstep s l s' -> (In (KAll, 0) (senders s) \/ reader s = RStopped) -> In (KAll, 0) (senders s') \/ reader s' = RStopped.
Proof.
  intros Hs [Hin|Hst]; [|right; eapply stopped_stays; eassumption].
  destruct Hs; try (left; exact Hin).
  - right. reflexivity.
  - left. cbn [senders with_adds with_streams with_senders]. apply in_app_iff. now left.
  - left. pose proof (rm_apply_frame _ _ _ _ H3) as (Esn & _). cbn [senders with_drops]. change (senders (bury s1 sid st)) with (senders s1). now rewrite Esn.
  - left. pose proof (rm_apply_frame _ _ _ _ H3) as (Esn & _). cbn [senders with_drops]. now rewrite Esn.
  - left. cbn [senders with_drops]. change (senders (bury (rm_sender s r) sid st)) with (senders (rm_sender s r)). rewrite senders_rm. apply in_del_key. split; [assumption | discriminate].
  - left. pose proof (rm_apply_frame _ _ _ _ H1) as (Esn & _). cbn [senders with_tasks]. now rewrite Esn.
  - left. pose proof (rm_apply_frame _ _ _ _ H1) as (Esn & _). cbn [senders with_tasks]. now rewrite Esn.
  - left. cbn [senders with_tasks]. rewrite senders_rm. apply in_del_key. split; [assumption | discriminate].
Qed.

(* while somebody holds `subscriptions`, the table does not change *)
Lemma busy_subs_same s l s' : tstep s l s' -> subs_busy s = true -> subs s' = subs s \/ exists sid r c, a2 s sid r c /\ l = LAddSender sid.
Proof.
  intros Hs Hb. destruct Hs; try (left; reflexivity); try congruence.
  - left. cbn [subs with_drops]. change (subs (bury (rm_sender s r) sid st)) with (subs (rm_sender s r)). apply subs_rm.
  - left. cbn [subs with_tasks]. apply subs_rm.
  - (* the failing add_match takes its entry back *) right. exists sid, (a_rule a), c. split; [exists a; tauto | reflexivity].
Qed.

Lemma busy_of_a2 s sid r c : a2 s sid r c -> subs_busy s = true.
Proof. intros Ha. destruct (subs_busy s) eqn:E; [reflexivity|]. destruct (not_busy_a2 s sid r c E Ha). Qed.
Lemma busy_of_r1 s r c : r1 s r c -> subs_busy s = true.
Proof. intros Hr. destruct (subs_busy s) eqn:E; [reflexivity|]. destruct (not_busy_r1 s r c E Hr). Qed.

(* where a new holder of `subscriptions` comes from *)
Lemma a2_new s l s' sid r c : tstep s l s' -> Inv s -> a2 s' sid r c ->
  a2 s sid r c \/ (subs_busy s = false /\ lookup (subs s') r = Some {| e_ref := 1; e_ch := c |}).
Proof.
  intros Hs I Ha. destruct (holders_step _ _ _ _ Hs I) as [[Hback _]|[(Hb & _ & _)|(Hb & Hno)]]; [left; now apply Hback | | destruct (Hno _ _ _ Ha)].
  (* the step made a new call in A2: it can only be LAddSubs on the vacant path *)
  destruct Hs; try (left; exact Ha); try (exfalso; eapply (not_busy_a2 s); [exact Hb|]; first [exact Ha | eapply a2_ext; [|exact Ha]; reflexivity]).
  - left. eapply a2_put_other with (3 := Ha); [reflexivity | intros c1; discriminate].
  - left. match type of Ha with a2 ?s1 _ _ _ => apply (a2_del s s1 sid0 sid r c eq_refl) in Ha end. apply Ha.
  - left. eapply a2_put_other with (3 := Ha); [reflexivity | intros c1; cbn; discriminate].
  - left. match type of Ha with a2 ?s1 _ _ _ => apply (a2_del s s1 sid0 sid r c eq_refl) in Ha end. apply Ha.
  - (* vacant *) subst c0 capacity s1 s2. destruct Ha as (a' & Ha' & Hr' & Hp'). cbn [adds with_adds] in Ha'. destruct (Nat.eq_dec sid sid0) as [->|Hne].
    + rewrite lookup_put_same in Ha'. inversion Ha'; subst a'. cbn in Hr', Hp'. inversion Hp'; subst c. subst r. right. split; [assumption|].
      cbn [subs with_adds with_subs]. apply lookup_put_same.
    + rewrite lookup_put_other in Ha' by assumption. left. exists a'. tauto.
  - left. match type of Ha with a2 ?s1 _ _ _ => apply (a2_del s s1 sid0 sid r c eq_refl) in Ha end. apply Ha.
  - exfalso. pose proof (rm_apply_frame _ _ _ _ H3) as (_ & _ & Eadd & _). eapply (not_busy_a2 s); [exact Hb|]. eapply a2_ext; [|exact Ha]. cbn [adds with_drops]. rewrite adds_bury. exact Eadd.
  - exfalso. pose proof (rm_apply_frame _ _ _ _ H3) as (_ & _ & Eadd & _). eapply (not_busy_a2 s); [exact Hb|]. eapply a2_ext; [|exact Ha]. cbn [adds with_drops]. exact Eadd.
  - left. eapply a2_ext; [|exact Ha]. cbn [adds with_drops]. rewrite adds_bury. apply adds_rm.
  - exfalso. pose proof (rm_apply_frame _ _ _ _ H1) as (_ & _ & Eadd & _). eapply (not_busy_a2 s); [exact Hb|]. eapply a2_ext; [|exact Ha]. cbn [adds with_tasks]. exact Eadd.
  - exfalso. pose proof (rm_apply_frame _ _ _ _ H1) as (_ & _ & Eadd & _). eapply (not_busy_a2 s); [exact Hb|]. eapply a2_ext; [|exact Ha]. cbn [adds with_tasks]. exact Eadd.
  - left. eapply a2_ext; [|exact Ha]. cbn [adds with_tasks]. apply adds_rm.
  - (* add sender, failed *) left. match type of Ha with a2 ?s1 _ _ _ => apply (a2_del s s1 sid0 sid r c eq_refl) in Ha end. apply Ha.
Qed.

Ltac rm_tables :=
  match goal with Hr : rm_apply _ _ = _ |- _ =>
    let Hs := fresh "Esnd" in let Hst := fresh "Estr" in let Ha := fresh "Eadd" in let Hd := fresh "Edrp" in
    let Ht := fresh "Etsk" in let Hl := fresh "Elen" in let Ho := fresh "Eoth" in let Hm := fresh "Erm" in
    apply rm_apply_spec, rm_spec_tables in Hr; destruct Hr as (Hs & Hst & Ha & Hd & Ht & Hl & Ho & Hm)
  end.

Lemma r1_new s l s' r c : tstep s l s' -> Inv s -> r1 s' r c -> r1 s r c \/ (subs_busy s = false /\ lookup (subs s') r = None).
Proof.
  intros Hs I.
  assert (Hput : forall s1 sid st', drops s1 = drops s -> tasks s1 = tasks s -> streams s1 = put (streams s) sid st' ->
                   lookup (drops s) sid = None -> forall r c, r1 s1 r c -> r1 s r c).
  { intros s1 sid st' Ed Et Es Hnd r0 c0 Hr. refine (proj1 (r1_agree s s1 r0 c0 Ed Et _) Hr). intros sid' pc Hd. rewrite Es.
    apply lookup_put_other. intros ->. congruence. }
  assert (Hdel : forall s1 sid, drops s1 = drops s -> tasks s1 = tasks s -> streams s1 = del (streams s) sid ->
                   lookup (drops s) sid = None -> forall r c, r1 s1 r c -> r1 s r c).
  { intros s1 sid Ed Et Es Hnd r0 c0 Hr. refine (proj1 (r1_agree s s1 r0 c0 Ed Et _) Hr). intros sid' pc Hd. rewrite Es.
    apply lookup_del_other. intros ->. congruence. }
  destruct Hs; simp; try (intros Hr; left; exact Hr).
  - (* occupied *) intros Hr. left. revert Hr. eapply (Hput _ sid); try reflexivity. apply (live_no_drop matches); [assumption | eapply inv_ids; eassumption].
  - (* add sender *) intros Hr. left. revert Hr. eapply (Hput _ sid); try reflexivity. apply (live_no_drop matches); [assumption | eapply inv_ids; eassumption].
  - (* unfiltered *) intros Hr. left. revert Hr. eapply (Hput _ sid); try reflexivity.
    unfold fresh in H. apply (live_no_drop matches); [assumption|]. destruct (lookup (streams s) sid); [discriminate | reflexivity].
  - (* poll *) destruct H as [Hl Hd]. intros Hr. left. revert Hr. eapply (Hput _ sid); try reflexivity; eassumption.
  - (* drop rule *) destruct H as [Hl Hd]. intros [(sid' & st' & Hd' & Hs' & Hr')|Hr]; left.
    + left. simp. exists sid', st'. repeat split; try assumption. destruct (Nat.eq_dec sid' sid) as [->|Hne]; [now rewrite lookup_del_same in Hs'|].
      now rewrite lookup_del_other in Hs'.
    + right. simp. now apply in_app_r0 in Hr.
  - destruct H as [Hl Hd]. intros Hr. left. revert Hr. eapply (Hdel _ sid); try reflexivity; eassumption.
  - (* clone *) destruct H as [Hl Hd]. intros Hr. left. revert Hr. eapply (Hput _ sid2); try reflexivity.
    unfold fresh in H0. apply (live_no_drop matches); [assumption|]. destruct (lookup (streams s) sid2); [discriminate | reflexivity].
  - (* async drop starts: as drop rule *) destruct H as [Hl Hd]. intros [(sid' & st' & Hd' & Hs' & Hr')|Hr]; left.
    + left. simp. exists sid', st'. repeat split; try assumption. destruct (Nat.eq_dec sid' sid) as [->|Hne]; [now rewrite lookup_del_same in Hs'|].
      now rewrite lookup_del_other in Hs'.
    + right. simp. now apply in_app_r0 in Hr.
  - destruct H as [Hl Hd]. intros Hr. left. revert Hr. eapply (Hdel _ sid); try reflexivity; eassumption.
  - (* async drop, subs, done *) rm_tables. intros [(sid' & st' & Hd' & Hs' & Hr')|Hr]; left; simp.
    + left. rewrite Edrp in Hd'. rewrite Estr in Hs'. destruct (Nat.eq_dec sid' sid) as [->|Hne]; [now rewrite lookup_del_same in Hd'|].
      rewrite lookup_del_other in Hd' by assumption. rewrite lookup_del_other in Hs' by assumption. exists sid', st'. tauto.
    + right. now rewrite Etsk in Hr.
  - (* async drop, subs, wait *) rm_tables. intros [(sid' & st' & Hd' & Hs' & Hr')|Hr]; simp.
    + rewrite Edrp in Hd'. rewrite Estr in Hs'. destruct (Nat.eq_dec sid' sid) as [->|Hne].
      * right. split; [assumption|]. rewrite H in Hs'. inversion Hs'; subst st'. rewrite H2 in Hr'. inversion Hr'; subst. apply Erm.
      * rewrite lookup_put_other in Hd' by assumption. exfalso. eapply (not_busy_r1 s r c); [assumption|]. left. exists sid', st'. tauto.
    + exfalso. rewrite Etsk in Hr. eapply (not_busy_r1 s r c); [assumption | now right].
  - (* async drop, sender *) intros [(sid' & st' & Hd' & Hs' & Hr')|Hr]; left; [left | right; simp; exact Hr]. simp.
    destruct (Nat.eq_dec sid' sid) as [->|Hne]; [now rewrite lookup_del_same in Hd'|]. rewrite lookup_del_other in Hd' by assumption. rewrite lookup_del_other in Hs' by assumption.
    exists sid', st'. tauto.
  - (* task, subs, done *) rm_tables. intros [(sid' & st' & Hd' & Hs' & Hr')|Hr]; left; simp.
    + left. rewrite Edrp in Hd'. rewrite Estr in Hs'. exists sid', st'. tauto.
    + right. eapply in_del_nth; eassumption.
  - (* task, subs, wait *) rm_tables. intros [(sid' & st' & Hd' & Hs' & Hr')|Hr]; simp.
    + exfalso. rewrite Edrp in Hd'. rewrite Estr in Hs'. eapply (not_busy_r1 s r c); [assumption|]. left. exists sid', st'. tauto.
    + apply in_upd in Hr. destruct Hr as [E|Hr].
      * inversion E; subst. right. split; [assumption|]. apply Erm.
      * exfalso. eapply (not_busy_r1 s r c); [assumption | now right].
  - (* task, sender *) intros [(sid' & st' & Hd' & Hs' & Hr')|Hr]; left; [left | right]; simp.
    + exists sid', st'. tauto.
    + eapply in_del_nth; eassumption.
  - (* drop, shared rule *) destruct H as [Hl Hd0]. intros Hr. left. revert Hr. eapply (Hdel _ sid); try reflexivity; eassumption.
  - destruct H as [Hl Hd0]. intros Hr. left. revert Hr. eapply (Hdel _ sid); try reflexivity; eassumption.
Qed.

Lemma e1_keep s s' : subs s' = subs s -> (forall k c, In (k, c) (senders s) -> In (k, c) (senders s')) ->
  (forall sid r c, a2 s sid r c -> a2 s' sid r c) -> (reader s = RStopped -> reader s' = RStopped) -> e1 s -> e1 s'.
Proof.
  intros Es Hsn Ha Hrd E r e He. rewrite Es in He. destruct (E _ _ He) as [H|[[sid H]|H]]; [left; auto | right; left; exists sid; auto | right; right; auto].
Qed.

Lemma a2_same s s' sid r c : adds s' = adds s -> a2 s sid r c -> a2 s' sid r c.
Proof. unfold a2. now intros ->. Qed.

Lemma e1_step s l s' : tstep s l s' -> Inv s -> ereg s -> e1 s'.
Proof.
  intros Hs I (E1 & E2 & E4).
  assert (Hrm : forall s1 r0 o, rm_apply s r0 = (s1, o) -> subs_busy s = false ->
            forall s2, subs s2 = subs s1 -> senders s2 = senders s1 -> adds s2 = adds s1 -> reader s2 = reader s1 -> e1 s2).
  { intros s1 r0 o Hsp Hb s2 Esb Esn Ead Erd r' e' He'. rewrite Esb in He'.
    pose proof (rm_apply_frame _ _ _ _ Hsp) as (Esn1 & _ & Ead1 & _ & _ & Erd1 & _). rewrite Esn1 in Esn. rewrite Ead1 in Ead. rewrite Erd1 in Erd.
    apply rm_apply_spec, rm_spec_tables in Hsp.
    destruct Hsp as (_ & _ & _ & _ & _ & _ & Eoth & Erm). rewrite Esn, Erd.
    assert (Hnoa : forall sid, a2 s sid r' (e_ch e') -> exists sid, a2 s2 sid r' (e_ch e')) by (intros sid Ha; exists sid; now apply (a2_same s s2)).
    destruct (Nat.eq_dec r' r0) as [->|Hne].
    - destruct o as [c|].
      + destruct Erm as [Hn _]. congruence.
      + destruct (lookup (subs s) r0) as [e|] eqn:Eold; [|congruence]. destruct Erm as (e2 & He2 & Hch). rewrite He' in He2. inversion He2; subst e2.
        rewrite Hch. destruct (E1 _ _ Eold) as [H|[[sid H]|H]]; [now left | exfalso; exact (not_busy_a2 s _ _ _ Hb H) | now right; right].
    - rewrite (Eoth _ Hne) in He'. destruct (E1 _ _ He') as [H|[[sid H]|H]]; [now left | exfalso; exact (not_busy_a2 s _ _ _ Hb H) | now right; right]. }
  destruct Hs; simp; try (eapply e1_keep; [| | | |exact E1]; simp; try reflexivity; try (intros; assumption); try (intros; congruence);
                          try (intros sid0 r0 c0; apply a2_same; reflexivity); fail).
  - (* the reader fails *) intros r0 e0 He. right; right. reflexivity.
  - (* add start *) eapply e1_keep; [| | | |exact E1]; simp; try reflexivity; try (intros; assumption).
    intros sid0 r0 c0 (a' & Ha' & Hr' & Hp'). exists a'. apply fresh_spec in H. destruct H as (_ & Hna & _). simp.
    rewrite lookup_put_other; [tauto | intros ->; congruence].
  - eapply e1_keep; [| | | |exact E1]; simp; try reflexivity; try (intros; assumption).
    intros sid0 r0 c0 (a' & Ha' & Hr' & Hp'). exists a'. simp. rewrite lookup_del_other; [tauto | intros ->; congruence].
  - eapply e1_keep; [| | | |exact E1]; simp; try reflexivity; try (intros; assumption).
    intros sid0 r0 c0 (a' & Ha' & Hr' & Hp'). exists a'. simp. rewrite lookup_put_other; [tauto | intros ->; congruence].
  - (* occupied *) intros r' e' He'. simp. destruct (Nat.eq_dec r' (a_rule a)) as [->|Hne].
    + rewrite lookup_put_same in He'. inversion He'; subst e'. cbn [e_ch].
      destruct (E1 _ _ H2) as [Hx|[[sid' Hx]|Hx]]; [now left | exfalso; exact (not_busy_a2 s _ _ _ H1 Hx) | now right; right].
    + rewrite lookup_put_other in He' by assumption.
      destruct (E1 _ _ He') as [Hx|[[sid' Hx]|Hx]]; [now left | exfalso; exact (not_busy_a2 s _ _ _ H1 Hx) | now right; right].
  - (* vacant *) intros r' e' He'. simp. destruct (Nat.eq_dec r' (a_rule a)) as [->|Hne].
    + rewrite lookup_put_same in He'. inversion He'; subst e'. cbn [e_ch]. right; left. exists sid, (add_at a (A2 (length (chans s)))). simp.
      rewrite lookup_put_same. repeat split; reflexivity.
    + rewrite lookup_put_other in He' by assumption.
      destruct (E1 _ _ He') as [Hx|[[sid' Hx]|Hx]]; [now left | exfalso; exact (not_busy_a2 s _ _ _ H1 Hx) | now right; right].
  - (* add sender *) intros r' e' He'. simp. destruct (E1 _ _ He') as [Hx|[[sid' Hx]|Hx]]; [left; apply in_app_iff; now left | | now right; right].
    left. apply in_app_iff. right. left.
    assert (Hme : a2 s sid (a_rule a) c) by (exists a; tauto).
    pose proof (inv_a2_uniq _ _ I _ _ _ _ _ _ Hx Hme) as ->. destruct Hx as (a' & Ha' & Hr' & Hp'). rewrite H in Ha'. inversion Ha'; subst a'.
    rewrite H0 in Hp'. inversion Hp'; subst. reflexivity.
  - (* async drop, subs, done *) eapply (Hrm _ _ _ H3 H1); simp; reflexivity.
  - eapply (Hrm _ _ _ H3 H1); simp; reflexivity.
  - (* async drop, sender *) intros r' e' He'. simp. assert (Hr1 : r1 s r c) by (left; exists sid, st; tauto).
    destruct (Nat.eq_dec r' r) as [->|Hne]; [rewrite (E2 _ _ Hr1) in He'; discriminate|].
    destruct (E1 _ _ He') as [Hx|[[sid' Hx]|Hx]]; [left | exfalso; eapply inv_excl; eassumption | now right; right].
    apply in_del_key. split; [assumption | cbn; congruence].
  - eapply (Hrm _ _ _ H1 H0); simp; reflexivity.
  - eapply (Hrm _ _ _ H1 H0); simp; reflexivity.
  - (* task, sender *) intros r' e' He'. simp. assert (Hr1 : r1 s r c) by (right; eapply nth_error_In; eassumption).
    destruct (Nat.eq_dec r' r) as [->|Hne]; [rewrite (E2 _ _ Hr1) in He'; discriminate|].
    destruct (E1 _ _ He') as [Hx|[[sid' Hx]|Hx]]; [left | exfalso; eapply inv_excl; eassumption | now right; right].
    apply in_del_key. split; [assumption | cbn; congruence].
  - (* add sender, failed: msg_senders is empty, so the reader has stopped *) intros r' e' He'. right; right.
    destruct E4 as [Hin|Hst]; [rewrite H2 in Hin; destruct Hin | exact Hst].
Qed.

Lemma ereg_step s l s' : tstep s l s' -> Inv s -> ereg s -> ereg s'.
Proof.
  intros Hs I E. split; [eapply e1_step; eassumption|]. destruct E as (E1 & E2 & E4). split; [|eapply kall_step; eassumption].
  intros r c Hr. destruct (r1_new _ _ _ _ _ Hs I Hr) as [Hold|[_ Hn]]; [|exact Hn].
  destruct (busy_subs_same _ _ _ Hs (busy_of_r1 _ _ _ Hold)) as [Es|(sid & r' & c' & Ha & _)]; [rewrite Es; exact (E2 _ _ Hold)|].
  exfalso. eapply inv_excl; eassumption.
Qed.

Lemma ereg_init : ereg init.
Proof.
  split; [|split].
  - intros r e He. discriminate.
  - intros r c [(sid & st & Hd & _)|[]]. discriminate.
  - left. cbn. tauto.
Qed.

Lemma ereg_reach tr s : reach tr s -> ereg s.
Proof.
  induction 1 as [|tr s l s' Hr IH Hs]; [exact ereg_init|]. eapply ereg_step; [apply step_tstep; eassumption | eapply Inv_reach; eassumption | assumption].
Qed.

(* the creator of an entry stays its only holder while it holds `subscriptions` *)
Lemma a2_one_step s l s' : tstep s l s' -> Inv s -> count_ok s -> count_ok s' -> a2_one s -> a2_one s'.
Proof.
  intros Hs I C C' A sid r c Ha'. destruct (a2_new _ _ _ _ _ _ Hs I Ha') as [Ha|(Hb & Hent)].
  - destruct (busy_subs_same _ _ _ Hs (busy_of_a2 _ _ _ _ Ha)) as [Es|(sid0 & r0 & c0 & Ha0 & ->)].
    + destruct (inv_a2 _ _ I _ _ _ Ha) as ((e & He & _) & _). pose proof (A _ _ _ Ha) as H1. specialize (C r). rewrite He in C.
      specialize (C' r). rewrite Es, He in C'. lia.
    + (* LAddSender of the one call in A2: afterwards there is none *) exfalso.
      pose proof (inv_a2_uniq _ _ I _ _ _ _ _ _ Ha Ha0) as ->.
      inversion Hs; subst;
        match type of Ha' with a2 ?s1 _ _ _ => apply (a2_del s s1 sid0 sid0 r c eq_refl) in Ha' end; destruct Ha' as [_ Hne]; now apply Hne.
  - specialize (C' r). rewrite Hent in C'. cbn [e_ref] in C'. lia.
Qed.

(* ---- all of it, in every reachable state, clones included ---- *)
Theorem share_reach_full tr s : reach tr s -> count_ok s /\ chan_agree s /\ a2_one s /\ grp_ok s.
Proof.
  induction 1 as [|tr s l s' Hr IH Hs].
  - split; [intros r; cbn; reflexivity|]. split; [intros sid st r e Hl; discriminate|]. split; [intros sid r c (a & Ha & _); discriminate|].
    split; [intros sid st r Hl; discriminate | intros r ms sid []].
  - destruct IH as (C & G & A & P). pose proof (Inv_reach _ _ _ Hr) as I. pose proof (akeys_reach _ _ Hr) as K. pose proof (drops_nil _ _ _ Hr) as Hd.
    apply step_tstep in Hs. pose proof (akeys_step _ _ _ Hs K) as K'. assert (C' : count_ok s') by (eapply count_step; eassumption).
    split; [exact C'|]. split; [eapply agree_step; eassumption|]. split; [eapply a2_one_step; eassumption | eapply grp_step; eassumption].
Qed.

Theorem share_reach tr s : reach tr s -> count_ok s /\ chan_agree s.
Proof. intros Hr. destruct (share_reach_full _ _ Hr) as (C & G & _). split; assumption. Qed.

(* ---- every stream is registered in msg_senders under its own key, unless the reader has failed ---- *)
Theorem registered_live tr s sid st : reach tr s -> lookup (streams s) sid = Some st ->
  In (skey st, s_ch st) (senders s) \/ reader s = RStopped.
Proof.
  intros Hr Hl. destruct (share_reach_full _ _ Hr) as (C & G & _ & [G1 _]). pose proof (Inv_reach _ _ _ Hr) as I. destruct (ereg_reach _ _ Hr) as (E1 & E2 & E4).
  unfold skey. destruct (s_rule st) as [r|] eqn:Er.
  - specialize (C r). destruct (lookup (subs s) r) as [e|] eqn:Ee.
    + rewrite (G _ _ _ _ Hl Er Ee). destruct (E1 _ _ Ee) as [H|[[sid' H]|H]]; [now left | | now right].
      exfalso. destruct (inv_a2 _ _ I _ _ _ H) as (_ & _ & _ & _ & _ & _ & Hno). apply (Hno _ _ Hl). exact (G _ _ _ _ Hl Er Ee).
    + exfalso. unfold holders in C. destruct (G1 _ _ _ Hl Er) as (i & ms & _ & Hn). apply nth_error_In in Hn.
      pose proof (cnt_pos (is_rule r) (arcs s) _ Hn ltac:(unfold is_rule; cbn; apply Nat.eqb_refl)). lia.
  - destruct (inv_stream _ _ I _ _ Hl) as (_ & _ & H0). rewrite (H0 Er). exact E4.
Qed.

(* C20_delivery without registration hypothesis: for every stream of every history *)
Theorem delivery_all tr s sid st : reach tr s -> lookup (streams s) sid = Some st -> reader s <> RStopped ->
  msgs (s_got st) ++ msgs (unread (chan_at s (s_ch st)) sid) =
  filter (Inv.accepts matches (skey st)) (skipn (s_from st) (firstn (seen s (s_ch st)) (incoming s))).
Proof.
  intros Hr Hl Hrd. destruct (registered_live _ _ _ _ Hr Hl) as [H|H]; [|contradiction]. eapply delivery; eassumption.
Qed.

End Share.
