(* C20/Share.v — the reference count of a subscription is the number of its holders: the live streams created for the rule
   (until their remove_match has been applied), the queued remove_match tasks that have not run yet, and the add_match call
   that is just creating it.  Holds as long as no stream has been cloned. *)
From ZV Require Import Base.Bytes Base.Res C19.Broadcast C19.BroadcastFacts C20.Model C20.Lemmas C20.Steps C20.Inv C20.InvG1 C20.InvG2 C20.InvG3
  C20.Proofs C20.Count.
From Coq Require Import Lia Permutation.

Definition in_r1 (s : sys) (sid : nat) : bool := match lookup (drops s) sid with Some (R1 _) => true | _ => false end.
Definition rule_is (r : nat) (st : stream) : bool := match s_rule st with Some r' => Nat.eqb r' r | None => false end.
Definition holds_stream (s : sys) (r : nat) (p : nat * stream) : bool := rule_is r (snd p) && negb (in_r1 s (fst p)).
Definition holds_task (r : nat) (p : nat * rmpc) : bool := Nat.eqb (fst p) r && match snd p with R0 => true | R1 _ => false end.
Definition holds_add (r : nat) (p : nat * addst) : bool := Nat.eqb (a_rule (snd p)) r && match a_pc (snd p) with A2 _ => true | _ => false end.
Definition holders (s : sys) (r : nat) : nat :=
  cnt (holds_stream s r) (streams s) + cnt (holds_task r) (tasks s) + cnt (holds_add r) (adds s).

Definition keys_ok (s : sys) : Prop := keys_nodup (streams s) /\ keys_nodup (adds s).

Definition refs_ok (s : sys) : Prop :=
  (forall r, match lookup (subs s) r with Some e => e_ref e = holders s r | None => holders s r = 0 end) /\
  (forall sid st r e, lookup (streams s) sid = Some st -> s_rule st = Some r -> in_r1 s sid = false -> lookup (subs s) r = Some e -> s_ch st = e_ch e).

Lemma keys_bury s sid st : keys_ok s -> keys_ok (bury s sid st).
Proof. intros [H1 H2]. split; [rewrite streams_bury; now apply keys_del | exact H2]. Qed.

(* ---- how the three counts move when one key of a table changes ---- *)
Definition contrib_s (s : sys) (r sid : nat) : nat :=
  match lookup (streams s) sid with Some st => b2n (holds_stream s r (sid, st)) | None => 0 end.
Definition contrib_a (s : sys) (r sid : nat) : nat :=
  match lookup (adds s) sid with Some a => b2n (holds_add r (sid, a)) | None => 0 end.

Lemma S_change s s' sid r : keys_nodup (streams s) -> keys_nodup (streams s') -> del (streams s') sid = del (streams s) sid ->
  (forall sid', sid' <> sid -> in_r1 s' sid' = in_r1 s sid') ->
  cnt (holds_stream s' r) (streams s') + contrib_s s r sid = cnt (holds_stream s r) (streams s) + contrib_s s' r sid.
Proof.
  intros K K' Ed Hin. rewrite (cnt_split (holds_stream s r) (streams s) sid K), (cnt_split (holds_stream s' r) (streams s') sid K').
  unfold contrib_s. rewrite Ed. assert (E : cnt (holds_stream s' r) (del (streams s) sid) = cnt (holds_stream s r) (del (streams s) sid)).
  { apply cnt_ext. intros [sid' st] Hi. apply in_del in Hi. destruct Hi as [_ Hne]. cbn in Hne. unfold holds_stream. cbn. now rewrite (Hin _ Hne). }
  rewrite E. lia.
Qed.

Lemma A_change s s' sid r : keys_nodup (adds s) -> keys_nodup (adds s') -> del (adds s') sid = del (adds s) sid ->
  cnt (holds_add r) (adds s') + contrib_a s r sid = cnt (holds_add r) (adds s) + contrib_a s' r sid.
Proof.
  intros K K' Ed. rewrite (cnt_split (holds_add r) (adds s) sid K), (cnt_split (holds_add r) (adds s') sid K'). unfold contrib_a. rewrite Ed. lia.
Qed.

Lemma S_same s s' r : streams s' = streams s -> (forall sid, in_r1 s' sid = in_r1 s sid) -> cnt (holds_stream s' r) (streams s') = cnt (holds_stream s r) (streams s).
Proof. intros Es Hin. rewrite Es. apply cnt_ext. intros [sid st] _. unfold holds_stream. cbn. now rewrite Hin. Qed.

Lemma S_pred s s' r : (forall sid, in_r1 s' sid = in_r1 s sid) -> forall l, cnt (holds_stream s' r) l = cnt (holds_stream s r) l.
Proof. intros Hin l. apply cnt_ext. intros [sid st] _. unfold holds_stream. cbn. now rewrite Hin. Qed.

Lemma in_r1_drops s s' : drops s' = drops s -> forall sid, in_r1 s' sid = in_r1 s sid.
Proof. intros E sid. unfold in_r1. now rewrite E. Qed.

Section Share.
Variable matches : nat -> msg -> bool.
Notation tstep := (Steps.tstep matches).
Notation Inv := (Inv.Inv matches).
Notation reach := (Model.reach matches).

Lemma keys_step s l s' : tstep s l s' -> keys_ok s -> keys_ok s'.
Proof.
  intros Hs K. pose proof K as [K1 K2].
  destruct Hs; try exact K; try (split; cbn [streams adds with_streams with_adds with_subs with_chans with_senders with_cloned set_chan];
                                 first [now apply keys_put | now apply keys_del | assumption]).
  - pose proof (rm_apply_frame _ _ _ _ H3) as (_ & Estr & Eadd & _). assert (K' : keys_ok s1) by (split; [now rewrite Estr | now rewrite Eadd]).
    exact (keys_bury s1 sid st K').
  - pose proof (rm_apply_frame _ _ _ _ H3) as (_ & Estr & Eadd & _). split; cbn [streams adds with_drops]; [now rewrite Estr | now rewrite Eadd].
  - assert (K' : keys_ok (rm_sender s r)) by (split; [now rewrite streams_rm | now rewrite adds_rm]). exact (keys_bury _ sid st K').
  - pose proof (rm_apply_frame _ _ _ _ H1) as (_ & Estr & Eadd & _). split; cbn [streams adds with_tasks]; [now rewrite Estr | now rewrite Eadd].
  - pose proof (rm_apply_frame _ _ _ _ H1) as (_ & Estr & Eadd & _). split; cbn [streams adds with_tasks]; [now rewrite Estr | now rewrite Eadd].
  - split; cbn [streams adds with_tasks]; [now rewrite streams_rm | now rewrite adds_rm].
Qed.

Lemma keys_reach tr s : reach tr s -> keys_ok s.
Proof.
  induction 1 as [|tr s l s' Hr IH Hs]; [split; constructor|]. eapply keys_step; [apply step_tstep; eassumption | assumption].
Qed.

Definition count_ok (s : sys) : Prop :=
  forall r, match lookup (subs s) r with Some e => e_ref e = holders s r | None => holders s r = 0 end.

(* tables unchanged: the equation carries over *)
Lemma count_same s s' : count_ok s -> subs s' = subs s -> streams s' = streams s -> adds s' = adds s -> tasks s' = tasks s -> drops s' = drops s -> count_ok s'.
Proof.
  intros C Esub Es Ea Et Ed r. specialize (C r). unfold holders in *. rewrite Esub, Ea, Et.
  rewrite (S_same s s' r Es (in_r1_drops s s' Ed)). exact C.
Qed.

Lemma rule_is_eqb r r0 st : s_rule st = Some r0 -> rule_is r st = Nat.eqb r0 r.
Proof. intros H. unfold rule_is. now rewrite H. Qed.

Lemma count_step s l s' : tstep s l s' -> Inv s -> keys_ok s -> keys_ok s' -> (forall a b, l <> LClone a b) -> count_ok s -> count_ok s'.
Proof.
  intros Hs I [Ks Ka] [Ks' Ka'] Hnc C.
  destruct Hs; try (eapply count_same; [exact C | reflexivity..]).
  - (* add start: a call in A0 holds nothing *)
    apply fresh_spec in H. destruct H as (_ & Hn & _). intros r0. specialize (C r0). unfold holders in *. cbn [subs streams adds tasks with_adds] in *.
    rewrite (S_pred s _ r0 (in_r1_drops s _ eq_refl)).
    pose proof (A_change s (with_adds s (put (adds s) sid {| a_rule := r; a_q := q; a_pc := A0 |})) sid r0 Ka Ka' (del_put _ _ _)) as HA.
    unfold contrib_a in HA. cbn [adds with_adds] in HA. rewrite lookup_put_same, Hn in HA. unfold holds_add in HA. cbn in HA. rewrite andb_false_r in HA. cbn in HA.
    destruct (lookup (subs s) r0); lia.
  - (* add check fails *)
    intros r0. specialize (C r0). unfold holders in *. cbn [subs streams adds tasks with_adds] in *. rewrite (S_pred s _ r0 (in_r1_drops s _ eq_refl)).
    pose proof (A_change s (with_adds s (del (adds s) sid)) sid r0 Ka Ka' (del_del _ _)) as HA.
    unfold contrib_a in HA. cbn [adds with_adds] in HA. rewrite lookup_del_same, H in HA. unfold holds_add in HA. cbn in HA. rewrite H0, andb_false_r in HA. cbn in HA.
    destruct (lookup (subs s) r0); lia.
  - (* add check ok *)
    intros r0. specialize (C r0). unfold holders in *. cbn [subs streams adds tasks with_adds] in *. rewrite (S_pred s _ r0 (in_r1_drops s _ eq_refl)).
    pose proof (A_change s (with_adds s (put (adds s) sid (add_at a A1))) sid r0 Ka Ka' (del_put _ _ _)) as HA.
    unfold contrib_a in HA. cbn [adds with_adds] in HA. rewrite lookup_put_same, H in HA. unfold holds_add in HA. cbn in HA. rewrite H0, !andb_false_r in HA. cbn in HA.
    destruct (lookup (subs s) r0); lia.
  - admit.
  - admit.
  - admit.
  - admit.
  - admit.
  - admit.
  - admit.
  - admit.
  - admit.
  - admit.
  - admit.
  - admit.
  - admit.
  - admit.
  - admit.
  - admit.
Admitted.

End Share.
