(* C20/Arcs.v — list facts about the table of shared rules (Arc<OwnedMatchRule>) of C20/Model.v: idx_of, leave, join, release. *)
From ZV Require Import Base.Bytes Base.Res C20.Model C20.Lemmas C20.Count.
From Coq Require Import Lia.

Lemma holds_in sid p : holds sid p = true <-> In sid (snd p).
Proof.
  unfold holds. rewrite existsb_exists. split.
  - intros (x & Hx & E). apply Nat.eqb_eq in E. now subst.
  - intros H. exists sid. split; [assumption | apply Nat.eqb_refl].
Qed.
Lemma holds_false sid p : holds sid p = false <-> ~ In sid (snd p).
Proof. rewrite <- holds_in. destruct (holds sid p); split; congruence. Qed.

Lemma in_remove_nat x y l : In x (remove_nat y l) <-> In x l /\ x <> y.
Proof.
  induction l as [|z l IH]; cbn; [tauto|]. destruct (Nat.eqb y z) eqn:E.
  - apply Nat.eqb_eq in E. subst z. rewrite IH. split; [tauto|]. intros [[H|H] Hn]; [congruence | tauto].
  - apply Nat.eqb_neq in E. cbn. rewrite IH. split; [intros [H|H]; [subst; split; [now left | congruence] | tauto] | tauto].
Qed.

Lemma holds_leave sid sid' p : sid' <> sid -> holds sid' (fst p, remove_nat sid (snd p)) = holds sid' p.
Proof.
  intros Hne. destruct (holds sid' p) eqn:E.
  - apply holds_in. cbn. apply in_remove_nat. split; [now apply holds_in | assumption].
  - apply holds_false. cbn. rewrite in_remove_nat. apply holds_false in E. tauto.
Qed.
Lemma holds_leave_self sid p : holds sid (fst p, remove_nat sid (snd p)) = false.
Proof. apply holds_false. cbn. rewrite in_remove_nat. tauto. Qed.

Lemma idx_of_some a sid i : idx_of a sid = Some i -> exists p, nth_error a i = Some p /\ holds sid p = true.
Proof.
  revert i. induction a as [|p a IH]; intros i H; cbn in H; [discriminate|]. destruct (holds sid p) eqn:E.
  - inversion H; subst. exists p. split; [reflexivity | assumption].
  - destruct (idx_of a sid) as [j|] eqn:Ej; [|discriminate]. inversion H; subst. cbn. now apply IH.
Qed.
Lemma idx_of_none a sid : idx_of a sid = None -> forall p, In p a -> holds sid p = false.
Proof.
  induction a as [|q a IH]; intros H p Hin; [destruct Hin|]. cbn in H. destruct (holds sid q) eqn:E; [discriminate|].
  destruct (idx_of a sid) eqn:Ej; [discriminate|]. destruct Hin as [<-|Hin]; [assumption | now apply IH].
Qed.
Lemma idx_of_none_intro a sid : (forall p, In p a -> holds sid p = false) -> idx_of a sid = None.
Proof.
  induction a as [|q a IH]; intros H; [reflexivity|]. cbn. rewrite (H q (or_introl eq_refl)). rewrite IH; [reflexivity|]. intros p Hp. apply H. now right.
Qed.

(* a map that turns "holds y" into "holds x" entry by entry keeps the position *)
Lemma idx_of_map_rel (f : nat * list nat -> nat * list nat) a x y :
  (forall p, In p a -> holds x (f p) = holds y p) -> idx_of (map f a) x = idx_of a y.
Proof.
  induction a as [|p a IH]; intros H; [reflexivity|]. cbn. rewrite (H p (or_introl eq_refl)). destruct (holds y p); [reflexivity|].
  rewrite IH; [reflexivity|]. intros q Hq. apply H. now right.
Qed.

Lemma idx_of_app a p sid :
  idx_of (a ++ [p]) sid = match idx_of a sid with Some i => Some i | None => if holds sid p then Some (length a) else None end.
Proof.
  induction a as [|q a IH]; cbn; [destruct (holds sid p); reflexivity|]. destruct (holds sid q); [reflexivity|]. rewrite IH.
  destruct (idx_of a sid); [reflexivity|]. destruct (holds sid p); reflexivity.
Qed.

(* deleting an entry that does not list x keeps x's entry *)
Lemma idx_of_del_nth a x : forall i j p q, idx_of a x = Some j -> nth_error a j = Some q -> nth_error a i = Some p -> holds x p = false ->
  exists j', idx_of (del_nth a i) x = Some j' /\ nth_error (del_nth a i) j' = Some q.
Proof.
  induction a as [|z a IH]; intros i j p q Hj Hq Hi Hp; [discriminate|]. cbn in Hj. destruct (holds x z) eqn:Ez.
  - inversion Hj; subst j. cbn in Hq. inversion Hq; subst q. destruct i as [|i]; cbn in Hi.
    + inversion Hi; subst. congruence.
    + exists 0. cbn. rewrite Ez. split; reflexivity.
  - destruct (idx_of a x) as [j0|] eqn:Ej; [|discriminate]. inversion Hj; subst j. cbn in Hq. destruct i as [|i]; cbn in Hi.
    + exists j0. cbn. split; assumption.
    + destruct (IH i j0 p q eq_refl Hq Hi Hp) as (j' & H1 & H2). exists (S j'). cbn. rewrite Ez, H1. split; [reflexivity | exact H2].
Qed.

Lemma cnt_map_pres {A} (P : A -> bool) (f : A -> A) l : (forall x, P (f x) = P x) -> cnt P (map f l) = cnt P l.
Proof.
  intros H. unfold cnt. induction l as [|x l IH]; [reflexivity|]. cbn. rewrite H. destruct (P x); cbn; now rewrite IH.
Qed.

Definition is_rule (r : nat) (p : nat * list nat) : bool := Nat.eqb (fst p) r.

Lemma cnt_leave r a sid : cnt (is_rule r) (leave a sid) = cnt (is_rule r) a.
Proof. apply cnt_map_pres. intros p. reflexivity. Qed.
Lemma cnt_join r a sid sid2 : cnt (is_rule r) (join a sid sid2) = cnt (is_rule r) a.
Proof. apply cnt_map_pres. intros p. destruct (holds sid p); reflexivity. Qed.

Lemma nth_error_leave a sid i : nth_error (leave a sid) i = option_map (fun p => (fst p, remove_nat sid (snd p))) (nth_error a i).
Proof. apply nth_error_map. Qed.

(* what release does *)
Lemma release_spec a sid a' b : release a sid = (a', b) ->
  (idx_of a sid = None /\ a' = a /\ b = true) \/
  (exists i r ms, idx_of a sid = Some i /\ nth_error a i = Some (r, ms) /\
     ((remove_nat sid ms = [] /\ a' = del_nth (leave a sid) i /\ b = true) \/ (remove_nat sid ms <> [] /\ a' = leave a sid /\ b = false))).
Proof.
  unfold release. destruct (idx_of a sid) as [i|] eqn:Ei; [|intros H; inversion H; left; tauto].
  destruct (idx_of_some _ _ _ Ei) as ([r ms] & Hn & _). rewrite nth_error_leave, Hn. cbn [option_map fst snd].
  destruct (remove_nat sid ms) as [|x l] eqn:Er; intros H; inversion H; subst; right; exists i, r, ms; (split; [reflexivity|]); (split; [assumption|]).
  - left. tauto.
  - right. split; [congruence | tauto].
Qed.
