(* C20/Run.v — two-phase line driver:  <case> TAB <observation>  ->  model TAB spec TAB class
   case         S <rules> <steps>                     (see harness/hcalls/src/main.rs, `s_mode`)
   observation  init@<state>,<step>=<what happened>@<state>,...     state = <msg_senders>;<subscriptions>;<unfiltered channel>
   model field: the recorded history is replayed through Model.step.  Where the code's behaviour depends on things the history
                does not show (which waiter an async mutex is handed to, which runnable task the executor picks) the replay keeps
                EVERY model state that is consistent with what was observed so far (result of the step, events of the socket reader,
                and the complete visible state after the step: msg_senders keys with queue length / capacity / receivers / closed
                of their channels, subscriptions with reference counts, the unfiltered channel) and fails when none is left.
                The order in which the reader serves the channels is the iteration order of msg_senders last seen.
   spec field : Spec.spec_check on the history alone;
   class      : none (no known class is left for C20). *)
From ZV Require Import Base.Bytes Base.Res C19.Broadcast C20.Model C20.Spec.

Fixpoint split_fast_aux (sep : byte) (l cur : bytes) : list bytes :=
  match l with
  | [] => [rev_append cur []]
  | c :: r => if beq c sep then rev_append cur [] :: split_fast_aux sep r [] else split_fast_aux sep r (c :: cur)
  end.
Definition split_fast (sep : byte) (l : bytes) : list bytes := split_fast_aux sep l [].

Fixpoint parse_all {A B} (f : A -> option B) (l : list A) : option (list B) :=
  match l with
  | [] => Some []
  | x :: r => match f x, parse_all f r with Some y, Some ys => Some (y :: ys) | _, _ => None end
  end.

Definition nat_of_dec (s : bytes) : option nat := option_map N.to_nat (N_of_dec s).
Definition dec_of_nat (n : nat) : bytes := dec_of_N (N.of_nat n).

(* ------------------------------------------------------------------ parsing *)
Definition code_iface (c : byte) : option nat :=
  if beq c "A"%byte then Some 1 else if beq c "B"%byte then Some 2 else if beq c "*"%byte then Some 0 else None.
Definition code_member (c : byte) : option nat :=
  if beq c "1"%byte then Some 1 else if beq c "2"%byte then Some 2 else if beq c "*"%byte then Some 0 else None.

Definition parse_rule (s : bytes) : option rspec :=
  match s with
  | [a; b] => match code_iface a, code_member b with
              | Some i, Some m => Some {| r_iface := i; r_member := m |}
              | _, _ => None
              end
  | _ => None
  end.

Definition rspec_eqb (a b : rspec) : bool := Nat.eqb (r_iface a) (r_iface b) && Nat.eqb (r_member a) (r_member b).
Fixpoint first_index (f : rspec -> bool) (n : nat) (l : list rspec) : nat :=
  match l with
  | [] => n
  | x :: r => if f x then n else first_index f (S n) r
  end.
Definition canon_of (rules : list rspec) (j : nat) : nat :=
  match nth_error rules j with Some r => first_index (rspec_eqb r) 0 rules | None => j end.

Definition parse_cinfo (s : bytes) : option cinfo :=
  let (s', c) := match rev s with
                 | x :: r => if beq x "c"%byte then (rev r, true) else (s, false)
                 | [] => (s, false)
                 end in
  match split_fast "/"%byte s' with
  | [q; cp; n] => match nat_of_dec q, nat_of_dec cp, nat_of_dec n with
                  | Some q', Some c', Some n' => Some {| ci_q := q'; ci_cap := c'; ci_n := n'; ci_closed := c |}
                  | _, _, _ => None
                  end
  | _ => None
  end.

Definition parse_skey (s : bytes) : option skey :=
  if lbeq s (B "*") then Some SAll else if lbeq s (B "R") then Some SRet else if lbeq s (B "E") then Some SErr
  else match s with
       | c :: r => if beq c "r"%byte then option_map SRule (nat_of_dec r) else None
       | [] => None
       end.

Definition parse_sender_entry (s : bytes) : option (skey * cinfo) :=
  match split_fast ":"%byte s with
  | [k; ci] => match parse_skey k, parse_cinfo ci with Some k', Some c => Some (k', c) | _, _ => None end
  | _ => None
  end.
Definition parse_sub_entry (s : bytes) : option (nat * nat * cinfo) :=
  match split_fast ":"%byte s with
  | [k; rc; ci] => match parse_skey k, nat_of_dec rc, parse_cinfo ci with
                   | Some (SRule j), Some n, Some c => Some (j, n, c)
                   | _, _, _ => None
                   end
  | _ => None
  end.

Definition parse_section {A} (f : bytes -> option A) (s : bytes) : option (option (list A)) :=
  if lbeq s (B "L") then Some None
  else match s with
       | [] => Some (Some [])
       | _ => option_map Some (parse_all f (split_fast "."%byte s))
       end.

Definition parse_snap (s : bytes) : option snap :=
  match split_fast ";"%byte s with
  | [a; b; c] => match parse_section parse_sender_entry a, parse_section parse_sub_entry b, parse_cinfo c with
                 | Some x, Some y, Some z => Some {| sn_senders := x; sn_subs := y; sn_unf := z |}
                 | _, _, _ => None
                 end
  | _ => None
  end.

Definition parse_rdev (s : bytes) : option rdev :=
  if lbeq s (B "w") then Some RvWait else if lbeq s (B "rE") then Some RvEof else if lbeq s (B "rX") then Some RvErr
  else match s with
       | c :: r => if beq c "r"%byte then option_map RvItem (nat_of_dec r) else None
       | [] => None
       end.

Definition parse_ares (s : bytes) : option ares :=
  if lbeq s (B "P") then Some APending else if lbeq s (B "-") then Some ASkip
  else match s with
       | a :: b :: r => if beq a "o"%byte && beq b "k"%byte
                        then match r with [] => Some (AOk 0) | _ => option_map AOk (nat_of_dec r) end
                        else if beq a "E"%byte then Some AErr else None
       | _ => None
       end.

Definition parse_pres (s : bytes) : option pres :=
  if lbeq s (B "P") then Some PPending else if lbeq s (B "N") then Some PEnd else if lbeq s (B "-") then Some PSkip
  else match s with
       | c :: r => if beq c "m"%byte then option_map PItem (nat_of_dec r)
                   else if beq c "E"%byte then Some PErr else None
       | [] => None
       end.

Definition parse_mkind (s : bytes) : option mkind :=
  if lbeq s (B "MR") then Some MReturn else if lbeq s (B "MC") then Some MCall
  else match s with
       | [m; a; b] => match code_iface a, code_member b with
                      | Some (S i), Some (S k) => if beq m "M"%byte then Some (MSignal (S i) (S k)) else None
                      | _, _ => None
                      end
       | _ => None
       end.

Definition parse_ok (s : bytes) : option bool := if lbeq s (B "ok") then Some true else if lbeq s (B "-") then Some false else None.

Definition parse_ev (stp res : bytes) : option oev :=
  match stp with
  | [] => None
  | k :: r =>
      let args := split_fast ":"%byte r in
      let arg i := match nth_error args i with Some x => nat_of_dec x | None => None end in
      if beq k "A"%byte then
        match arg 0, arg 1, nth_error args 2, parse_ares res with
        | Some s, Some j, Some qs, Some a => Some (OAdd s j (nat_of_dec qs) a)
        | _, _, _, _ => None
        end
      else if beq k "a"%byte then match arg 0, parse_ares res with Some s, Some a => Some (OAddPoll s a) | _, _ => None end
      else if beq k "U"%byte then match arg 0, parse_ares res with Some s, Some a => Some (OUnf s a) | _, _ => None end
      else if beq k "p"%byte then match arg 0, parse_pres res with Some s, Some p => Some (OPoll s p) | _, _ => None end
      else if beq k "d"%byte then match arg 0, parse_ok res with Some s, Some b => Some (ODrop s b) | _, _ => None end
      else if beq k "x"%byte then match arg 0, parse_ares res with Some s, Some a => Some (OADrop s a) | _, _ => None end
      else if beq k "y"%byte then match arg 0, parse_ares res with Some s, Some a => Some (OADropPoll s a) | _, _ => None end
      else if beq k "c"%byte then match arg 0, arg 1, parse_ok res with Some s, Some s2, Some b => Some (OClone s s2 b) | _, _, _ => None end
      else if beq k "q"%byte then match arg 0, arg 1, parse_ares res with Some s, Some n, Some a => Some (OSetCap s n a) | _, _, _ => None end
      else if beq k "t"%byte then
        if lbeq res (B "0") then Some (OTick false [])
        else match res with
             | a :: b :: evs =>
                 if beq a "1"%byte && beq b ":"%byte then
                   match evs with
                   | [] => Some (OTick true [])
                   | _ => option_map (OTick true) (parse_all parse_rdev (split_fast "."%byte evs))
                   end
                 else None
             | _ => None
             end
      else if beq k "E"%byte then Some (OFail true)
      else if beq k "X"%byte then Some (OFail false)
      else if beq k "M"%byte then
        match parse_mkind stp, split_fast "/"%byte res with
        | Some m, kk :: hits =>
            match kk with
            | x :: d => if beq x "k"%byte then
                          match nat_of_dec d, parse_all (fun h => match parse_skey h with Some (SRule j) => Some j | _ => None end) hits with
                          | Some n, Some hs => Some (OMsg m n hs)
                          | _, _ => None
                          end
                        else None
            | [] => None
            end
        | _, _ => None
        end
      else None
  end.

Definition parse_line (t : bytes) : option (bytes * oline) :=
  match split_fast "="%byte t with
  | [stp; rest] =>
      match split_fast "@"%byte rest with
      | [res; sn] => match parse_ev stp res, parse_snap sn with
                     | Some e, Some x => Some (stp, {| o_ev := e; o_snap := x |})
                     | _, _ => None
                     end
      | _ => None
      end
  | _ => None
  end.

(* ------------------------------------------------------------------ the replay *)
Section Replay.
Variable rules : list rspec.

Definition kind_of (m : msg) : mkind :=
  match m_type m with
  | TSignal => MSignal (m_iface m) (m_member m)
  | TReturn => MReturn
  | _ => MCall
  end.
Definition mt (r : nat) (m : msg) : bool :=
  match nth_error rules r with Some rs => spec_matches rs (kind_of m) | None => false end.
Definition canon (j : nat) : nat := canon_of rules j.

Definition skey_of (k : key) : skey := match k with KAll => SAll | KRet => SRet | KErr => SErr | KRule r => SRule r end.
Definition skey_eqb (a b : skey) : bool :=
  match a, b with
  | SAll, SAll | SRet, SRet | SErr, SErr => true
  | SRule x, SRule y => Nat.eqb x y
  | _, _ => false
  end.

Definition cinfo_of (c : chan item) : cinfo := {| ci_q := qlen c; ci_cap := cap c; ci_n := nrecv c; ci_closed := closed c |}.
Definition cinfo_eqb (a b : cinfo) : bool :=
  Nat.eqb (ci_q a) (ci_q b) && Nat.eqb (ci_cap a) (ci_cap b) && Nat.eqb (ci_n a) (ci_n b) && Bool.eqb (ci_closed a) (ci_closed b).

(* is the visible state after the step what the model state shows? *)
Definition snap_ok (sn : snap) (s : sys) : bool :=
  cinfo_eqb (sn_unf sn) (cinfo_of (chan_at s 0)) &&
  match sn_senders sn with
  | None => true
  | Some l =>
      negb (senders_held s) && Nat.eqb (length l) (length (senders s)) &&
      forallb (fun p => match find (fun q => skey_eqb (skey_of (fst q)) (fst p)) (senders s) with
                        | Some q => cinfo_eqb (snd p) (cinfo_of (chan_at s (snd q)))
                        | None => false
                        end) l
  end &&
  match sn_subs sn with
  | None => true
  | Some l =>
      negb (subs_busy s) && Nat.eqb (length l) (length (subs s)) &&
      forallb (fun p => match lookup (subs s) (fst (fst p)) with
                        | Some e => Nat.eqb (e_ref e) (snd (fst p)) && cinfo_eqb (snd p) (cinfo_of (chan_at s (e_ch e)))
                        | None => false
                        end) l
  end.

(* the channels an item goes to, in the iteration order of msg_senders last seen *)
Definition ordered_senders (order : list skey) (s : sys) : list (key * nat) :=
  flat_map (fun k => filter (fun q => skey_eqb (skey_of (fst q)) k) (senders s)) order ++
  filter (fun q => negb (existsb (skey_eqb (skey_of (fst q))) order)) (senders s).

Definition st (l : label) (s : sys) : option sys := step mt l s.

(* ---- one poll of a pending add_match: every point at which it may be left waiting, and the end.
   Passing the `is_empty` check leaves no trace, so "left waiting before the check although msg_senders is free" and "left
   waiting after it" cannot be told apart; the replay then takes the check as passed (otherwise k pending calls would mean
   2^k states).  The one place where the difference shows is a reader that has failed meanwhile (msg_senders cleared): there
   a call taken as "after the check" may still come back with the check's error. ---- *)
Fixpoint poll_add (fuel : nat) (sid : nat) (s : sys) : list (sys * ares) :=
  match fuel with
  | O => []
  | S f =>
      match lookup (adds s) sid with
      | None => []
      | Some a =>
          match a_pc a with
          | A0 => match st (LAddCheck sid) s with
                  | Some s1 => match lookup (adds s1) sid with Some _ => poll_add f sid s1 | None => [(s1, AErr); (s, APending)] end
                  | None => [(s, APending)]
                  end
          | A1 => (s, APending) ::
                  match senders s with [] => [(with_adds s (del (adds s) sid), AErr)] | _ => [] end ++
                  match st (LAddSubs sid) s with
                  | Some s1 => match lookup (streams s1) sid with
                               | Some x => [(s1, AOk (cap (chan_at s1 (s_ch x))))]
                               | None => poll_add f sid s1
                               end
                  | None => []
                  end
          | A2 c => (s, APending) ::
                    match st (LAddSender sid) s with
                    | Some s1 => match lookup (streams s1) sid with
                                 | Some _ => [(s1, AOk (cap (chan_at s1 c)))]
                                 | None => [(s1, AErr)]         (* msg_senders found empty: the reader has failed meanwhile *)
                                 end
                    | None => []
                    end
          end
      end
  end.

(* ---- one poll of an async_drop future (after the receiver is gone): its remove_match call is task n of the model.  It may be
   left waiting for `subscriptions`, or (last reference) for msg_senders, or finish ---- *)
Definition poll_task (n : nat) (s : sys) : list (sys * ares) :=
  (s, APending) ::
  match nth_error (tasks s) n with
  | Some (_, R0) =>
      match st (LTaskSubs n) s with
      | Some s1 => if Nat.ltb (length (tasks s1)) (length (tasks s)) then [(s1, AOk 0)]
                   else (s1, APending) :: match st (LTaskSender n) s1 with Some s2 => [(s2, AOk 0)] | None => [] end
      | None => []
      end
  | Some (_, R1 _) => match st (LTaskSender n) s with Some s1 => [(s1, AOk 0)] | None => [] end
  | None => []
  end.

(* ---- a fingerprint, to merge states that are the same ---- *)
Definition fp_chan (c : chan item) : list nat :=
  [length (log c); cap c; if closed c then 1 else 0; length (rcv c)] ++ flat_map (fun p => [fst p; snd p]) (rcv c) ++
  map (fun it => match it with IMsg m => S (S (m_id m)) | IFail EEof => 0 | IFail EOther => 1 end) (log c).
Definition fp_key (k : key) : nat := match k with KAll => 0 | KRet => 1 | KErr => 2 | KRule r => 3 + r end.
Definition fp_pc (p : rmpc) : list nat := match p with R0 => [0] | R1 c => [1; c] end.
(* a list of lists: no separators needed *)
Definition fp (s : sys) : list (list nat) :=
  map fp_chan (chans s) ++
  [ flat_map (fun p => [fp_key (fst p); snd p]) (senders s);
    flat_map (fun p => [fst p; e_ref (snd p); e_ch (snd p)]) (subs s);
    flat_map (fun p => [fst p; match s_rule (snd p) with Some r => S r | None => 0 end; s_ch (snd p); s_from (snd p);
                        length (s_got (snd p))]) (streams s);
    flat_map (fun p => [fst p; a_rule (snd p)] ++ match a_pc (snd p) with A0 => [0] | A1 => [1] | A2 c => [2; c] end) (adds s);
    flat_map (fun p => fst p :: fp_pc (snd p)) (drops s);
    flat_map (fun p => fst p :: fp_pc (snd p)) (tasks s);
    match reader s with RIdle => [0] | RHave _ => [1] | RPush _ todo => 2 :: todo | RStopped => [3] end;
    [length (socket s); length (incoming s); length (dead s)] ].

(* ---- one run of the socket reader.  After each read it may be left waiting for msg_senders.  The order in which it serves
   the channels is the iteration order of msg_senders last seen, if that is still the table the model has; if the table has
   changed since (an insertion may rehash everything) and could not be looked at (locked), every order is tried.
   All the ways the run can go are followed side by side, merging equal states. ---- *)
Definition rdev_of (it : item) : rdev := match it with IMsg m => RvItem (m_id m) | IFail EEof => RvEof | IFail EOther => RvErr end.

Fixpoint insert_all (x : nat) (l : list nat) : list (list nat) :=
  match l with
  | [] => [[x]]
  | y :: r => (x :: l) :: map (cons y) (insert_all x r)
  end.
Fixpoint perms (l : list nat) : list (list nat) :=
  match l with
  | [] => [[]]
  | x :: r => flat_map (insert_all x) (perms r)
  end.

Definition order_current (order : list skey) (s : sys) : bool :=
  Nat.eqb (length order) (length (senders s)) &&
  forallb (fun q => existsb (skey_eqb (skey_of (fst q))) order) (senders s).

(* when the order is not known: every order of the channels on which the push can have an effect (a channel without receiver
   or closed is passed at once wherever it stands: those go first) *)
Definition fan_orders (order : list skey) (s : sys) (it : item) : list (list nat) :=
  let t := targets mt (ordered_senders order s) it in
  if order_current order s then [t] else
  let inert (c : nat) := match try_push it (chan_at s c) with PNoRecv | PClosed => true | _ => false end in
  let idle := filter inert t in
  let live := filter (fun c => negb (inert c)) t in
  if Nat.leb (length live) 5 then map (fun p => idle ++ p) (perms live) else [t].

Inductive rstep := RDone (s : sys) (ev : list rdev) | RMore (s : sys) (ev : list rdev).

(* ev is kept in reverse *)
Definition reader_advance (order : list skey) (s : sys) (ev : list rdev) : list rstep :=
  match reader s with
  | RIdle =>
      match socket s with
      | [] => [RDone s (RvWait :: ev)]
      | it :: _ => match st LRead s with Some s1 => [RMore s1 (rdev_of it :: ev)] | None => [] end
      end
  | RHave it =>
      RDone s ev :: flat_map (fun todo => match st (LFan todo) s with Some s1 => [RMore s1 ev] | None => [] end) (fan_orders order s it)
  | RPush _ (_ :: _) => match st LPush s with Some s1 => [RMore s1 ev] | None => [RDone s ev] end
  | RPush _ [] => match st LNext s with Some s1 => [RMore s1 ev] | None => [] end
  | RStopped => [RDone s ev]
  end.

Fixpoint list_eqb {A} (f : A -> A -> bool) (a b : list A) : bool :=
  match a, b with
  | [], [] => true
  | x :: a', y :: b' => f x y && list_eqb f a' b'
  | _, _ => false
  end.

Fixpoint dedupe_r (seen : list (list (list nat))) (l : list (sys * list rdev)) : list (sys * list rdev) :=
  match l with
  | [] => []
  | p :: r => let f := [length (snd p)] :: fp (fst p) in
              if existsb (list_eqb (list_eqb Nat.eqb) f) seen then dedupe_r seen r else p :: dedupe_r (f :: seen) r
  end.

Fixpoint reader_run (fuel : nat) (order : list skey) (front : list (sys * list rdev)) : list (sys * list rdev) :=
  match fuel with
  | O => []
  | S f =>
      match front with
      | [] => []
      | _ =>
          let steps := flat_map (fun p => reader_advance order (fst p) (snd p)) front in
          let done := flat_map (fun x => match x with RDone s ev => [(s, rev ev)] | RMore _ _ => [] end) steps in
          let more := flat_map (fun x => match x with RMore s ev => [(s, ev)] | RDone _ _ => [] end) steps in
          done ++ reader_run f order (firstn 256 (dedupe_r [] more))
      end
  end.

Definition task_run (n : nat) (s : sys) : list sys :=
  match nth_error (tasks s) n with
  | Some (r, R0) =>
      match st (LTaskSubs n) s with
      | Some s1 => s1 :: match nth_error (tasks s1) n with
                         | Some (r', R1 _) => if Nat.eqb r r' && Nat.eqb (length (tasks s1)) (length (tasks s))
                                              then match st (LTaskSender n) s1 with Some s2 => [s2] | None => [] end
                                              else []
                         | _ => []
                         end
      | None => []
      end
  | Some (_, R1 _) => match st (LTaskSender n) s with Some s1 => [s1] | None => [] end
  | None => []
  end.

Definition rdev_eqb (a b : rdev) : bool :=
  match a, b with
  | RvItem x, RvItem y => Nat.eqb x y
  | RvEof, RvEof | RvErr, RvErr | RvWait, RvWait => true
  | _, _ => false
  end.
Definition ares_eqb (a b : ares) : bool :=
  match a, b with
  | AOk x, AOk y => Nat.eqb x y
  | APending, APending | AErr, AErr | ASkip, ASkip => true
  | _, _ => false
  end.
Definition pres_eqb (a b : pres) : bool :=
  match a, b with
  | PItem x, PItem y => Nat.eqb x y
  | PPending, PPending | PEnd, PEnd | PErr, PErr | PSkip, PSkip => true
  | _, _ => false
  end.

Definition live (s : sys) (sid : nat) : option stream :=
  match lookup (streams s) sid, lookup (drops s) sid with Some x, None => Some x | _, _ => None end.

Definition mk_msg (k : nat) (m : mkind) : msg :=
  match m with
  | MSignal i mm => {| m_id := k; m_type := TSignal; m_iface := i; m_member := mm |}
  | MReturn => {| m_id := k; m_type := TReturn; m_iface := 0; m_member := 0 |}
  | MCall => {| m_id := k; m_type := TCall; m_iface := 0; m_member := 0 |}
  end.

Definition sorted_hits (m : mkind) : list nat :=
  filter (fun j => Nat.eqb (canon j) j && match nth_error rules j with Some r => spec_matches r m | None => false end)
         (seq 0 (length rules)).

(* all model states after this line that show the observed result; [next] = the next item number *)
Definition successors (order : list skey) (next : nat) (e : oev) (s : sys) : list sys :=
  let keep {A} (eqb : A -> A -> bool) (want : A) (l : list (sys * A)) := map fst (filter (fun p => eqb (snd p) want) l) in
  match e with
  | OAdd sid j q r =>
      match r with
      | ASkip => if fresh s sid && Nat.ltb (length (adds s)) 2 then [] else [s]
      | _ => if negb (Nat.ltb (length (adds s)) 2) then [] else
             match st (LAddStart sid (canon j) q) s with
             | Some s1 => keep ares_eqb r (poll_add 4 sid s1)
             | None => []
             end
      end
  | OAddPoll sid r =>
      match lookup (adds s) sid, r with
      | None, ASkip => [s]
      | Some _, ASkip => []
      | _, _ => keep ares_eqb r (poll_add 4 sid s)
      end
  | OUnf sid r =>
      match st (LUnfiltered sid) s, r with
      | Some s1, AOk c => if Nat.eqb c (cap (chan_at s1 0)) then [s1] else []
      | None, ASkip => [s]
      | _, _ => []
      end
  | OPoll sid r =>
      match live s sid with
      | None => match r with PSkip => [s] | _ => [] end
      | Some x =>
          match try_recv sid (chan_at s (s_ch x)) with
          | Got it _ => match st (LPoll sid) s with
                        | Some s1 => if pres_eqb r (match it with IMsg m => PItem (m_id m) | IFail _ => PErr end) then [s1] else []
                        | None => []
                        end
          | RClosed => match r with PEnd => [s] | _ => [] end
          | REmpty => match r with PPending => [s] | _ => [] end
          | RNoSuch => []
          end
      end
  | ODrop sid ok =>
      match live s sid with
      | Some _ => if ok then match st (LDrop sid) s with Some s1 => [s1] | None => [] end else []
      | None => if ok then [] else [s]
      end
  | OADrop sid r =>
      match live s sid, r with
      | None, ASkip => [s]
      | Some x, ASkip => [s]                 (* the harness keeps at most two async drops in flight; the model does not tell them
                                                from queued removals, so a skipped step is taken at its word *)
      | Some x, _ =>
          match st (LDropStart sid) s with
          | Some s1 => match s_rule x with
                       | None => match r with AOk _ => [s1] | _ => [] end
                       | Some _ =>
                           (* not the last holder of the shared rule: nothing to give back, the drop is over at once *)
                           if Nat.eqb (length (tasks s1)) (length (tasks s)) then match r with AOk _ => [s1] | _ => [] end
                           else keep ares_eqb r (poll_task (length (tasks s1) - 1) s1)
                       end
          | None => []
          end
      | _, _ => []
      end
  | OADropPoll sid r =>
      (* the remove_match of an async drop is one of the calls for the rule of the dropped stream; calls for the same rule are
         interchangeable *)
      match r with
      | ASkip => [s]
      | _ => match lookup (dead s) sid with
             | Some x => match s_rule x with
                         | Some rr => flat_map (fun n => match nth_error (tasks s) n with
                                                         | Some (r', _) => if Nat.eqb r' rr then keep ares_eqb r (poll_task n s) else []
                                                         | None => []
                                                         end) (seq 0 (length (tasks s)))
                         | None => []
                         end
             | None => []
             end
      end
  | OClone sid sid2 ok =>
      match st (LClone sid sid2) s with
      | Some s1 => if ok then [s1] else []
      | None => if ok then [] else [s]
      end
  | OSetCap sid n r =>
      match live s sid, r with
      | None, ASkip => [s]
      | Some x, AOk c => match st (LSetCap sid n) s with
                         | Some s1 => if Nat.eqb c (cap (chan_at s1 (s_ch x))) then [s1] else []
                         | None => []
                         end
      | _, _ => []
      end
  | OTick ran evs =>
      if ran then
        keep (list_eqb rdev_eqb) evs (reader_run ((length (socket s) + 2) * (length (senders s) + 4) + 8) order [(s, [])]) ++
        match evs with
        | [] => s :: flat_map (fun n => task_run n s) (seq 0 (length (tasks s)))
        | _ => []
        end
      else match reader s, socket s with
           | RIdle, _ :: _ => []                   (* a message is waiting and the reader sleeps: a lost wake-up *)
           | _, _ => [s]
           end
  | OMsg m k hits =>
      if Nat.eqb k next && list_eqb Nat.eqb hits (sorted_hits m)
      then match st (LArrive (IMsg (mk_msg k m))) s with Some s1 => [s1] | None => [] end
      else []
  | OFail eof => match st (LArrive (IFail (if eof then EEof else EOther))) s with Some s1 => [s1] | None => [] end
  end.

Fixpoint dedupe (seen : list (list (list nat))) (l : list sys) : list sys :=
  match l with
  | [] => []
  | [s] => match seen with [] => [s] | _ => if existsb (list_eqb (list_eqb Nat.eqb) (fp s)) seen then [] else [s] end
  | s :: r => let f := fp s in
              if existsb (list_eqb (list_eqb Nat.eqb) f) seen then dedupe seen r else s :: dedupe (f :: seen) r
  end.

Definition order_of (sn : snap) (old : list skey) : list skey :=
  match sn_senders sn with Some l => map fst l | None => old end.

Definition is_msg_ev (e : oev) : bool := match e with OMsg _ _ _ => true | _ => false end.

Definition debug_info (cand : list sys) : bytes :=
  B "[" ++ dec_of_nat (length cand) ++ B "cand:" ++
  flat_map (fun s => B "{unf=" ++ dec_of_nat (qlen (chan_at s 0)) ++ B "/" ++ dec_of_nat (nrecv (chan_at s 0)) ++
                     B ";held=" ++ bool_tok (senders_held s) ++ B ";busy=" ++ bool_tok (subs_busy s) ++
                     B ";subs=" ++ flat_map (fun p => dec_of_nat (fst p) ++ B ":" ++ dec_of_nat (e_ref (snd p)) ++ B ":" ++
                                              dec_of_nat (qlen (chan_at s (e_ch (snd p)))) ++ B "/" ++ dec_of_nat (cap (chan_at s (e_ch (snd p)))) ++
                                              B "/" ++ dec_of_nat (nrecv (chan_at s (e_ch (snd p)))) ++ B ".") (subs s) ++
                     B ";snd=" ++ flat_map (fun p => dec_of_nat (fp_key (fst p)) ++ B ":" ++ dec_of_nat (qlen (chan_at s (snd p))) ++ B ".") (senders s) ++
                     B "}") (firstn 4 cand) ++ B "]".

Definition debug_streams (cand : list sys) : bytes :=
  flat_map (fun s => B "<" ++ flat_map (fun p => dec_of_nat (fst p) ++ B "@" ++ dec_of_nat (s_ch (snd p)) ++ B ":" ++
                                          match cursor (chan_at s (s_ch (snd p))) (fst p) with Some c => dec_of_nat c | None => B "none" end ++
                                          B "/" ++ dec_of_nat (tail (chan_at s (s_ch (snd p)))) ++ B " ") (streams s) ++
                     B "rd=" ++ match reader s with RIdle => B "idle" | RHave _ => B "have" | RPush _ t => B "push" ++ flat_map (fun c => B "." ++ dec_of_nat c) t | RStopped => B "stopped" end ++
                     B ">") (firstn 3 cand).

Fixpoint replay (n : nat) (h : list oline) (order : list skey) (next : nat) (states : list sys) : bytes :=
  match h with
  | [] => B "OK"
  | o :: r =>
      let cand := flat_map (successors order next (o_ev o)) states in
      match cand with
      | [] => B "step-" ++ dec_of_nat n ++ B ":no-run-of-the-model-does-this" ++ debug_info states ++ debug_streams states
      | _ =>
          match dedupe [] (filter (snap_ok (o_snap o)) cand) with
          | [] => B "step-" ++ dec_of_nat n ++ B ":visible-state-differs(msg_senders/subscriptions/queues/receivers)" ++ debug_info cand
          | ok => replay (S n) r (order_of (o_snap o) order) (if is_msg_ev (o_ev o) then S next else next) (firstn 256 ok)
          end
      end
  end.

End Replay.

Fixpoint is_prefix (a b : list bytes) : bool :=
  match a, b with
  | [], _ => true
  | x :: a', y :: b' => lbeq x y && is_prefix a' b'
  | _ :: _, [] => false
  end.

Definition has_step (c : byte) (steps : list bytes) : bool :=
  existsb (fun t => match t with x :: _ => beq x c | [] => false end) steps.

Definition run_case (line : bytes) : outp :=
  match split_fast tab line with
  | [case; obs] =>
      match split_fast sp case with
      | [k; rules_s; steps_s] =>
          let rules := if lbeq rules_s (B "-") then Some [] else parse_all parse_rule (split_fast ","%byte rules_s) in
          let toks := filter (fun t => negb (lbeq t (B "|"))) (split_fast ","%byte obs) in
          match rules, toks with
          | Some rs, first :: rest =>
              match split_fast "@"%byte first, parse_all parse_line rest with
              | [i; sn0], Some ls =>
                  match parse_snap sn0 with
                  | Some s0 =>
                      if negb (lbeq k (B "S")) || negb (lbeq i (B "init")) then bad_case else
                      let steps := if lbeq steps_s (B "-") then [] else split_fast ","%byte steps_s in
                      let h := map snd ls in
                      let model :=
                        if negb (is_prefix steps (map fst ls)) then B "the-recorded-steps-are-not-the-steps-of-the-case"
                        else if negb (snap_ok s0 init) then B "initial-state-differs"
                        else replay rs 0 h (order_of s0 []) 0 [init] in
                      let spec := spec_check rs (canon_of rs) h in
                      let cls := dash in
                      {| o_model := model; o_spec := spec; o_class := cls |}
                  | None => bad_case
                  end
              | _, _ => bad_case
              end
          | _, _ => bad_case
          end
      | _ => bad_case
      end
  | _ => bad_case
  end.

Definition run (line : bytes) : bytes := render (run_case line).
