(* C20/InvG1.v — preservation of the table part of the invariant (msg_senders, subscriptions, who holds `subscriptions`). *)
From ZV Require Import Base.Bytes Base.Res C19.Broadcast C19.BroadcastFacts C20.Model C20.Lemmas C20.Steps C20.Inv.
From Coq Require Import Lia Permutation.

Section G1.
Variable matches : nat -> msg -> bool.
Notation tstep := (Steps.tstep matches).
Notation Inv := (Inv.Inv matches).

(* a2 / r1 only look at some tables *)
Lemma a2_ext s s' sid r c : adds s' = adds s -> a2 s' sid r c -> a2 s sid r c.
Proof. unfold a2. intros ->. tauto. Qed.
Lemma r1_ext s s' r c : drops s' = drops s -> streams s' = streams s -> tasks s' = tasks s -> r1 s' r c -> r1 s r c.
Proof. unfold r1. intros -> -> ->. tauto. Qed.

(* a stream record replaced by one with the same rule, or a new stream under an unused id, does not change r1 *)
Lemma r1_put_stream s s' sid st' r c :
  drops s' = drops s -> tasks s' = tasks s -> streams s' = put (streams s) sid st' ->
  (forall st, lookup (streams s) sid = Some st -> s_rule st = s_rule st') ->
  (lookup (streams s) sid = None -> lookup (drops s) sid = None) ->
  r1 s' r c -> r1 s r c.
Proof.
  unfold r1. intros -> -> -> Hsame Hnone [(sid' & st & Hd & Hs & Hr)|Hin]; [|now right]. left.
  destruct (Nat.eq_dec sid' sid) as [->|Hne].
  - rewrite lookup_put_same in Hs. inversion Hs; subst st. destruct (lookup (streams s) sid) as [st0|] eqn:E.
    + exists sid, st0. repeat split; try assumption. rewrite (Hsame st0 eq_refl). assumption.
    + rewrite (Hnone eq_refl) in Hd. discriminate.
  - rewrite lookup_put_other in Hs by assumption. exists sid', st. tauto.
Qed.

(* removing a stream that is not being async-dropped in state R1 does not change r1 *)
Lemma r1_del_stream s s' sid r c :
  drops s' = drops s -> tasks s' = tasks s -> streams s' = del (streams s) sid ->
  r1 s' r c -> r1 s r c.
Proof.
  unfold r1. intros -> -> -> [(sid' & st & Hd & Hs & Hr)|Hin]; [|now right]. left.
  destruct (Nat.eq_dec sid' sid) as [->|Hne]; [now rewrite lookup_del_same in Hs|].
  rewrite lookup_del_other in Hs by assumption. exists sid', st. tauto.
Qed.

Lemma a2_put_other s s' sid a sid' r c : adds s' = put (adds s) sid a -> (forall c', a_pc a <> A2 c') -> a2 s' sid' r c -> a2 s sid' r c.
Proof.
  unfold a2. intros -> Hpc (a' & Ha & Hr & Hp). destruct (Nat.eq_dec sid' sid) as [->|Hne].
  - rewrite lookup_put_same in Ha. inversion Ha; subst a'. now destruct (Hpc c).
  - rewrite lookup_put_other in Ha by assumption. exists a'. tauto.
Qed.
Lemma a2_del s s' sid sid' r c : adds s' = del (adds s) sid -> a2 s' sid' r c -> a2 s sid' r c /\ sid' <> sid.
Proof.
  unfold a2. intros -> (a' & Ha & Hr & Hp). destruct (Nat.eq_dec sid' sid) as [->|Hne]; [now rewrite lookup_del_same in Ha|].
  rewrite lookup_del_other in Ha by assumption. split; [exists a'; tauto | assumption].
Qed.

Ltac simp :=
  repeat match goal with x := _ |- _ => subst x end;
  cbn [chans senders subs streams adds drops tasks reader socket incoming dead cloned
       with_chans with_senders with_subs with_streams with_adds with_drops with_tasks with_reader with_socket with_incoming
       with_dead with_cloned set_chan bury rm_sender mk_stream got_more add_at s_rule s_ch s_from s_got a_rule a_q a_pc] in *.

(* what remove_match does to the tables *)
Lemma rm_spec_tables s r s1 o : rm_spec s r s1 o ->
  senders s1 = senders s /\ streams s1 = streams s /\ adds s1 = adds s /\ drops s1 = drops s /\ tasks s1 = tasks s /\
  length (chans s1) = length (chans s) /\
  (forall r', r' <> r -> lookup (subs s1) r' = lookup (subs s) r') /\
  match o with
  | None => match lookup (subs s) r with
            | None => lookup (subs s1) r = None
            | Some e => exists e', lookup (subs s1) r = Some e' /\ e_ch e' = e_ch e
            end
  | Some c => lookup (subs s1) r = None /\ exists e, lookup (subs s) r = Some e /\ e_ch e = c
  end.
Proof.
  intros H. destruct H; simp; rewrite ?length_upd; repeat split; try reflexivity;
    try (intros r' Hne; first [reflexivity | now apply lookup_put_other | now apply lookup_del_other]).
  - now rewrite H.
  - rewrite H. eexists. split; [apply lookup_put_same | reflexivity].
  - apply lookup_del_same.
  - now exists e.
  - apply lookup_del_same.
  - now exists e.
Qed.

Lemma g_len_step s l s' : tstep s l s' -> Inv s -> 2 <= length (chans s').
Proof.
  intros Hs I. pose proof (inv_len _ _ I) as H.
  destruct Hs; simp; rewrite ?length_upd, ?length_close_all, ?app_length; cbn [length]; try lia;
    try (match goal with Hr : rm_apply _ _ = _ |- _ => apply rm_apply_spec, rm_spec_tables in Hr; destruct Hr as (_ & _ & _ & _ & _ & Hl & _) end;
         rewrite ?length_upd; lia).
Qed.

Lemma len_mono s l s' : tstep s l s' -> length (chans s) <= length (chans s').
Proof.
  intros Hs.
  destruct Hs; simp; rewrite ?length_upd, ?length_close_all, ?app_length; cbn [length]; try lia;
    try (match goal with Hr : rm_apply _ _ = _ |- _ => apply rm_apply_spec, rm_spec_tables in Hr; destruct Hr as (_ & _ & _ & _ & _ & Hl & _) end;
         rewrite ?length_upd; lia).
Qed.

Ltac rm_tables :=
  match goal with Hr : rm_apply _ _ = _ |- _ =>
    let Hs := fresh "Esnd" in let Hst := fresh "Estr" in let Ha := fresh "Eadd" in let Hd := fresh "Edrp" in
    let Ht := fresh "Etsk" in let Hl := fresh "Elen" in let Ho := fresh "Eoth" in let Hm := fresh "Erm" in
    apply rm_apply_spec, rm_spec_tables in Hr; destruct Hr as (Hs & Hst & Ha & Hd & Ht & Hl & Ho & Hm)
  end.

(* how msg_senders can change in one step *)
Lemma senders_step s l s' : tstep s l s' ->
  senders s' = senders s \/ senders s' = [] \/
  (exists sid a c, lookup (adds s) sid = Some a /\ a_pc a = A2 c /\ senders s' = senders s ++ [(KRule (a_rule a), c)]) \/
  (exists r c, r1 s r c /\ senders s' = del_key (senders s) (KRule r)).
Proof.
  intros Hs. destruct Hs; simp; try (left; reflexivity); try (rm_tables; left; simp; congruence).
  - right. left. reflexivity.
  - right. right. left. exists sid, a, c. tauto.
  - right. right. right. exists r, c. split; [|reflexivity]. left. exists sid, st. tauto.
  - right. right. right. exists r, c. split; [|reflexivity]. right. eapply nth_error_In; eassumption.
Qed.

(* a call in A2 has no sender for its rule yet *)
Lemma a2_no_sender s sid r c c' : Inv s -> a2 s sid r c -> ~ In (KRule r, c') (senders s).
Proof.
  intros I Ha Hin. destruct (inv_a2 _ _ I _ _ _ Ha) as ((e & He & Hc) & Hno & _).
  destruct (inv_reg _ _ I _ _ Hin) as [(e' & He' & Hc')|Hr1].
  - rewrite He in He'. inversion He'; subst e'. apply (Hno (KRule r)). congruence.
  - exact (inv_excl _ _ I _ _ _ _ _ Ha Hr1).
Qed.

Lemma g_keys_step s l s' : tstep s l s' -> Inv s -> NoDup (map fst (senders s')).
Proof.
  intros Hs I. destruct (senders_step _ _ _ Hs) as [E|[E|[(sid & a & c & Ha & Hpc & E)|(r & c & _ & E)]]]; rewrite E.
  - exact (inv_keys _ _ I).
  - constructor.
  - rewrite map_app. cbn. apply NoDup_app_one; [exact (inv_keys _ _ I)|]. intros Hin. apply in_map_iff in Hin. destruct Hin as ([k c'] & Ek & Hin).
    cbn in Ek. subst k. eapply (a2_no_sender s sid (a_rule a) c c' I); [exists a; tauto | exact Hin].
  - apply nodup_del_key. exact (inv_keys _ _ I).
Qed.

Lemma g_shape_step s l s' : tstep s l s' -> Inv s -> forall k c, In (k, c) (senders s') ->
  c < length (chans s') /\ match k with KAll => c = 0 | KRet | KErr => c = 1 | KRule _ => 2 <= c end.
Proof.
  intros Hs I k c Hin. pose proof (len_mono _ _ _ Hs) as Hl.
  assert (Hold : In (k, c) (senders s) -> c < length (chans s') /\ match k with KAll => c = 0 | KRet | KErr => c = 1 | KRule _ => 2 <= c end).
  { intros H. destruct (inv_shape _ _ I _ _ H). split; [lia | assumption]. }
  destruct (senders_step _ _ _ Hs) as [E|[E|[(sid & a & c0 & Ha & Hpc & E)|(r & c0 & _ & E)]]]; rewrite E in Hin.
  - now apply Hold.
  - destruct Hin.
  - apply in_app_iff in Hin. destruct Hin as [Hin|[Hin|[]]]; [now apply Hold|]. inversion Hin; subst.
    destruct (inv_a2 _ _ I sid (a_rule a) c) as (_ & _ & _ & _ & _ & Hc & _); [exists a; tauto|]. split; lia.
  - apply in_del_key in Hin. now apply Hold.
Qed.

Lemma g_inj_step s l s' : tstep s l s' -> Inv s -> forall r r' c, In (KRule r, c) (senders s') -> In (KRule r', c) (senders s') -> r = r'.
Proof.
  intros Hs I r r' c H1 H2.
  destruct (senders_step _ _ _ Hs) as [E|[E|[(sid & a & c0 & Ha & Hpc & E)|(r0 & c0 & _ & E)]]]; rewrite E in H1, H2.
  - eapply inv_inj; eassumption.
  - destruct H1.
  - destruct (inv_a2 _ _ I sid (a_rule a) c0) as (_ & Hno & _); [exists a; tauto|].
    apply in_app_iff in H1, H2. destruct H1 as [H1|[H1|[]]], H2 as [H2|[H2|[]]].
    + eapply inv_inj; eassumption.
    + inversion H2; subst. destruct (Hno _ H1).
    + inversion H1; subst. destruct (Hno _ H2).
    + congruence.
  - apply in_del_key in H1, H2. eapply inv_inj; [apply I | apply H1 | apply H2].
Qed.

(* ---- r1 under changes of the stream table that do not touch streams under async drop ---- *)
Lemma r1_agree s s' r c : drops s' = drops s -> tasks s' = tasks s ->
  (forall sid pc, lookup (drops s) sid = Some pc -> lookup (streams s') sid = lookup (streams s) sid) ->
  (r1 s' r c <-> r1 s r c).
Proof.
  unfold r1. intros -> -> Hag. split; (intros [(sid & st & Hd & Hs & Hr)|Hin]; [left|now right]); exists sid, st.
  - rewrite (Hag _ _ Hd) in Hs. tauto.
  - rewrite (Hag _ _ Hd). tauto.
Qed.

Lemma in_app_r0 (l : list (nat * rmpc)) r r' c : In (r', R1 c) (l ++ [(r, R0)]) <-> In (r', R1 c) l.
Proof. rewrite in_app_iff. cbn. split; [intros [H|[H|[]]]; [assumption | discriminate] | tauto]. Qed.

Lemma in_del_nth_r0 (l : list (nat * rmpc)) n r r' c : nth_error l n = Some (r, R0) -> (In (r', R1 c) (del_nth l n) <-> In (r', R1 c) l).
Proof. intros Hn. split; [apply in_del_nth | intros H; eapply in_del_nth_keep; eauto; discriminate]. Qed.

(* a live stream (or an unused id) is not under async drop *)
Lemma live_no_drop s sid : Inv s -> lookup (streams s) sid = None -> lookup (drops s) sid = None.
Proof.
  intros I Hs. destruct (lookup (drops s) sid) as [pc|] eqn:E; [|reflexivity].
  destruct (inv_drops _ _ I _ _ E) as (st & r & Hst & _). congruence.
Qed.

Lemma g_reg_step s l s' : tstep s l s' -> Inv s -> forall r c, In (KRule r, c) (senders s') ->
  (exists e, lookup (subs s') r = Some e /\ e_ch e = c) \/ r1 s' r c.
Proof.
  intros Hs I r0 c0 Hin. pose proof (inv_reg _ _ I) as Hreg.
  (* streams replaced / added under ids that are not being async-dropped *)
  assert (Hput : forall s1 sid st', drops s1 = drops s -> tasks s1 = tasks s -> streams s1 = put (streams s) sid st' ->
                   lookup (drops s) sid = None -> forall r c, r1 s1 r c <-> r1 s r c).
  { intros s1 sid st' Ed Et Es Hnd r c. apply r1_agree; try assumption. intros sid' pc Hd. rewrite Es.
    apply lookup_put_other. intros ->. congruence. }
  assert (Hdel : forall s1 sid, drops s1 = drops s -> tasks s1 = tasks s -> streams s1 = del (streams s) sid ->
                   lookup (drops s) sid = None -> forall r c, r1 s1 r c <-> r1 s r c).
  { intros s1 sid Ed Et Es Hnd r c. apply r1_agree; try assumption. intros sid' pc Hd. rewrite Es.
    apply lookup_del_other. intros ->. congruence. }
  destruct Hs; simp; try (exact (Hreg _ _ Hin)).
  - (* next after a failure: no senders *) destruct Hin.
  - (* add, occupied *)
    destruct (Hreg _ _ Hin) as [(e0 & He0 & Hc0)|Hr]; [left | exfalso; eapply not_busy_r1; eassumption].
    destruct (Nat.eq_dec r0 (a_rule a)) as [->|Hne].
    + rewrite lookup_put_same. eexists. split; [reflexivity|]. cbn. congruence.
    + rewrite lookup_put_other by assumption. eauto.
  - (* add, vacant *)
    destruct (Hreg _ _ Hin) as [(e0 & He0 & Hc0)|Hr]; [left | exfalso; eapply not_busy_r1; eassumption].
    destruct (Nat.eq_dec r0 (a_rule a)) as [->|Hne]; [congruence|]. rewrite lookup_put_other by assumption. eauto.
  - (* add sender *)
    apply in_app_iff in Hin. destruct Hin as [Hin|[Hin|[]]].
    + destruct (Hreg _ _ Hin) as [HH|Hr]; [now left | right].
      eapply (Hput _ sid); try reflexivity; [|exact Hr]. apply live_no_drop; [assumption | eapply inv_ids; eassumption].
    + inversion Hin; subst. left. destruct (inv_a2 _ _ I sid (a_rule a) c0) as ((e & He & Hc) & _); [exists a; tauto | eauto].
  - (* unfiltered *) destruct (Hreg _ _ Hin) as [Hl|Hr]; [now left | right].
    eapply (Hput _ sid); try reflexivity; [|exact Hr]. unfold fresh in H. apply live_no_drop; [assumption|].
    destruct (lookup (streams s) sid); [discriminate | reflexivity].
  - (* poll *) destruct H as [Hl Hd]. destruct (Hreg _ _ Hin) as [Hl'|Hr]; [now left | right]. eapply (Hput _ sid); try reflexivity; eassumption.
  - (* drop, rule *) destruct H as [Hl Hd]. destruct (Hreg _ _ Hin) as [Hl'|Hr]; [now left | right].
    destruct Hr as [Hr|Hr]; [|right; simp; apply in_app_r0; exact Hr]. left. destruct Hr as (sid' & st' & Hd' & Hs' & Hr').
    exists sid', st'. simp. repeat split; try assumption. rewrite lookup_del_other; [assumption | intros ->; congruence].
  - (* drop, none *) destruct H as [Hl Hd]. destruct (Hreg _ _ Hin) as [Hl'|Hr]; [now left | right]. eapply (Hdel _ sid); try reflexivity; eassumption.
  - (* clone *) destruct H as [Hl Hd]. destruct (Hreg _ _ Hin) as [Hl'|Hr]; [now left | right].
    eapply (Hput _ sid2); try reflexivity; [|exact Hr]. unfold fresh in H0. apply live_no_drop; [assumption|].
    destruct (lookup (streams s) sid2); [discriminate | reflexivity].
  - (* async drop starts *) destruct H as [Hl Hd]. destruct (Hreg _ _ Hin) as [Hl'|Hr]; [now left | right].
    destruct Hr as [(sid' & st' & Hd' & Hs' & Hr')|Hr]; [left | now right]. exists sid', st'. simp. repeat split; try assumption.
    rewrite lookup_put_other; [assumption | intros ->; congruence].
  - destruct H as [Hl Hd]. destruct (Hreg _ _ Hin) as [Hl'|Hr]; [now left | right]. eapply (Hdel _ sid); try reflexivity; eassumption.
  - (* async drop, subs step, done *)
    rm_tables. rewrite Esnd in Hin. destruct (Hreg _ _ Hin) as [(e0 & He0 & Hc0)|Hr]; [left | exfalso; eapply not_busy_r1; eassumption].
    destruct (Nat.eq_dec r0 r) as [->|Hne].
    + rewrite He0 in Erm. destruct Erm as (e' & He' & Hc'). exists e'. split; [assumption | congruence].
    + rewrite (Eoth _ Hne). eauto.
  - (* async drop, subs step, last reference: the entry is gone, the caller now stands for the sender *)
    rm_tables. rewrite Esnd in Hin. destruct (Hreg _ _ Hin) as [(e0 & He0 & Hc0)|Hr]; [|exfalso; eapply not_busy_r1; eassumption].
    destruct (Nat.eq_dec r0 r) as [->|Hne].
    + right. left. destruct Erm as (_ & e & He & Hc). exists sid, st. simp. rewrite Estr. repeat split; try assumption.
      rewrite lookup_put_same. f_equal. f_equal. congruence.
    + left. rewrite (Eoth _ Hne). eauto.
  - (* async drop, sender step *)
    apply in_del_key in Hin. destruct Hin as [Hin Hne]. cbn in Hne. destruct (Hreg _ _ Hin) as [Hl'|Hr]; [now left | right].
    destruct Hr as [(sid' & st' & Hd' & Hs' & Hr')|Hr]; [left | now right].
    assert (sid' <> sid) by (intros ->; rewrite H in Hs'; inversion Hs'; subst; congruence).
    exists sid', st'. simp. rewrite !lookup_del_other by assumption. tauto.
  - (* task, subs step, done *)
    rm_tables. rewrite Esnd in Hin. destruct (Hreg _ _ Hin) as [(e0 & He0 & Hc0)|Hr]; [left | exfalso; eapply not_busy_r1; eassumption].
    destruct (Nat.eq_dec r0 r) as [->|Hne].
    + rewrite He0 in Erm. destruct Erm as (e' & He' & Hc'). exists e'. split; [assumption | congruence].
    + rewrite (Eoth _ Hne). eauto.
  - (* task, subs step, last reference *)
    rm_tables. rewrite Esnd in Hin. destruct (Hreg _ _ Hin) as [(e0 & He0 & Hc0)|Hr]; [|exfalso; eapply not_busy_r1; eassumption].
    destruct (Nat.eq_dec r0 r) as [->|Hne].
    + right. right. simp. destruct Erm as (_ & e & He & Hc). replace c0 with c by congruence.
      clear - H. revert n H. induction (tasks s) as [|t ts IH]; intros [|n] Hn; cbn in *; try discriminate; [now left | right; eauto].
    + left. rewrite (Eoth _ Hne). eauto.
  - (* task, sender step *)
    apply in_del_key in Hin. destruct Hin as [Hin Hne]. cbn in Hne. destruct (Hreg _ _ Hin) as [Hl'|Hr]; [now left | right].
    destruct Hr as [Hr|Hr]; [left; exact Hr | right]. simp. eapply in_del_nth_keep; eauto. congruence.
Qed.

End G1.
