(* C20/InvG1.v — preservation of the table part of the invariant (msg_senders, subscriptions, who holds `subscriptions`). *)
From ZV Require Import Base.Bytes Base.Res C19.Broadcast C19.BroadcastFacts C20.Model C20.Lemmas C20.Steps C20.Inv.
From Coq Require Import Lia Permutation.

(* a2 / r1 only look at some tables *)
Lemma a2_ext s s' sid r c : adds s' = adds s -> a2 s' sid r c -> a2 s sid r c.
Proof. unfold a2. intros ->. tauto. Qed.
Lemma r1_ext s s' r c : drops s' = drops s -> streams s' = streams s -> tasks s' = tasks s -> r1 s' r c -> r1 s r c.
Proof. unfold r1. intros -> -> ->. tauto. Qed.

(* a stream record replaced by one with the same rule, or a new stream under an unused id, does not change r1 *)
Lemma r1_put_stream s s' sid st' r c :
  drops s' = drops s -> tasks s' = tasks s -> streams s' = put (streams s) sid st' ->
  (forall st, lookup (streams s) sid = Some st -> s_rule st = s_rule st') ->
  (lookup (streams s) sid = None -> lookup (drops s) sid = None) ->
  r1 s' r c -> r1 s r c.
Proof.
  unfold r1. intros -> -> -> Hsame Hnone [(sid' & st & Hd & Hs & Hr)|Hin]; [|now right]. left.
  destruct (Nat.eq_dec sid' sid) as [->|Hne].
  - rewrite lookup_put_same in Hs. inversion Hs; subst st. destruct (lookup (streams s) sid) as [st0|] eqn:E.
    + exists sid, st0. repeat split; try assumption. rewrite (Hsame st0 eq_refl). assumption.
    + rewrite (Hnone eq_refl) in Hd. discriminate.
  - rewrite lookup_put_other in Hs by assumption. exists sid', st. tauto.
Qed.

(* removing a stream that is not being async-dropped in state R1 does not change r1 *)
Lemma r1_del_stream s s' sid r c :
  drops s' = drops s -> tasks s' = tasks s -> streams s' = del (streams s) sid ->
  r1 s' r c -> r1 s r c.
Proof.
  unfold r1. intros -> -> -> [(sid' & st & Hd & Hs & Hr)|Hin]; [|now right]. left.
  destruct (Nat.eq_dec sid' sid) as [->|Hne]; [now rewrite lookup_del_same in Hs|].
  rewrite lookup_del_other in Hs by assumption. exists sid', st. tauto.
Qed.

Lemma a2_put_other s s' sid a sid' r c : adds s' = put (adds s) sid a -> (forall c', a_pc a <> A2 c') -> a2 s' sid' r c -> a2 s sid' r c.
Proof.
  unfold a2. intros -> Hpc (a' & Ha & Hr & Hp). destruct (Nat.eq_dec sid' sid) as [->|Hne].
  - rewrite lookup_put_same in Ha. inversion Ha; subst a'. now destruct (Hpc c).
  - rewrite lookup_put_other in Ha by assumption. exists a'. tauto.
Qed.
Lemma a2_del s s' sid sid' r c : adds s' = del (adds s) sid -> a2 s' sid' r c -> a2 s sid' r c /\ sid' <> sid.
Proof.
  unfold a2. intros -> (a' & Ha & Hr & Hp). destruct (Nat.eq_dec sid' sid) as [->|Hne]; [now rewrite lookup_del_same in Ha|].
  rewrite lookup_del_other in Ha by assumption. split; [exists a'; tauto | assumption].
Qed.

Ltac simp :=
  repeat match goal with x := _ |- _ => subst x end;
  cbn [chans senders subs streams adds drops tasks reader socket incoming dead arcs
       with_chans with_senders with_subs with_streams with_adds with_drops with_tasks with_reader with_socket with_incoming
       with_dead with_arcs set_chan bury mk_stream got_more add_at s_rule s_ch s_from s_got a_rule a_q a_pc] in *;
  autorewrite with rms in *.

(* what remove_match does to the tables *)
Lemma rm_spec_tables s r s1 o : rm_spec s r s1 o ->
  senders s1 = senders s /\ streams s1 = streams s /\ adds s1 = adds s /\ drops s1 = drops s /\ tasks s1 = tasks s /\
  length (chans s1) = length (chans s) /\
  (forall r', r' <> r -> lookup (subs s1) r' = lookup (subs s) r') /\
  match o with
  | None => match lookup (subs s) r with
            | None => lookup (subs s1) r = None
            | Some e => exists e', lookup (subs s1) r = Some e' /\ e_ch e' = e_ch e
            end
  | Some c => lookup (subs s1) r = None /\ exists e, lookup (subs s) r = Some e /\ e_ch e = c
  end.
Proof.
  intros H. destruct H; simp; rewrite ?length_upd; repeat split; try reflexivity;
    try (intros r' Hne; first [reflexivity | now apply lookup_put_other | now apply lookup_del_other]).
  - now rewrite H.
  - rewrite H. eexists. split; [apply lookup_put_same | reflexivity].
  - apply lookup_del_same.
  - now exists e.
  - apply lookup_del_same.
  - now exists e.
Qed.


(* ---- r1 under changes of the stream table that do not touch streams under async drop ---- *)
Lemma r1_agree s s' r c : drops s' = drops s -> tasks s' = tasks s ->
  (forall sid pc, lookup (drops s) sid = Some pc -> lookup (streams s') sid = lookup (streams s) sid) ->
  (r1 s' r c <-> r1 s r c).
Proof.
  unfold r1. intros -> -> Hag. split; (intros [(sid & st & Hd & Hs & Hr)|Hin]; [left|now right]); exists sid, st.
  - rewrite (Hag _ _ Hd) in Hs. tauto.
  - rewrite (Hag _ _ Hd). tauto.
Qed.

Lemma in_app_r0 (l : list (nat * rmpc)) r r' c : In (r', R1 c) (l ++ [(r, R0)]) <-> In (r', R1 c) l.
Proof. rewrite in_app_iff. cbn. split; [intros [H|[H|[]]]; [assumption | discriminate] | tauto]. Qed.

Lemma in_del_nth_r0 (l : list (nat * rmpc)) n r r' c : nth_error l n = Some (r, R0) -> (In (r', R1 c) (del_nth l n) <-> In (r', R1 c) l).
Proof. intros Hn. split; [apply in_del_nth | intros H; eapply in_del_nth_keep; eauto; discriminate]. Qed.


Lemma fresh_spec s sid : fresh s sid = true -> lookup (streams s) sid = None /\ lookup (adds s) sid = None /\ lookup (dead s) sid = None.
Proof. unfold fresh. destruct (lookup (streams s) sid), (lookup (adds s) sid), (lookup (dead s) sid); try discriminate. tauto. Qed.


Section G1.
Variable matches : nat -> msg -> bool.
Notation tstep := (Steps.tstep matches).
Notation Inv := (Inv.Inv matches).

Lemma g_len_step s l s' : tstep s l s' -> Inv s -> 2 <= length (chans s').
Proof.
  intros Hs I. pose proof (inv_len _ _ I) as H.
  destruct Hs; simp; rewrite ?length_upd, ?length_close_all, ?app_length; autorewrite with rms; cbn [length]; try lia;
    try (match goal with Hr : rm_apply _ _ = _ |- _ => apply rm_apply_spec, rm_spec_tables in Hr; destruct Hr as (_ & _ & _ & _ & _ & Hl & _) end;
         rewrite ?length_upd; lia).
Qed.

Lemma len_mono s l s' : tstep s l s' -> length (chans s) <= length (chans s').
Proof.
  intros Hs.
  destruct Hs; simp; rewrite ?length_upd, ?length_close_all, ?app_length; autorewrite with rms; cbn [length]; try lia;
    try (match goal with Hr : rm_apply _ _ = _ |- _ => apply rm_apply_spec, rm_spec_tables in Hr; destruct Hr as (_ & _ & _ & _ & _ & Hl & _) end;
         rewrite ?length_upd; lia).
Qed.

Ltac rm_tables :=
  match goal with Hr : rm_apply _ _ = _ |- _ =>
    let Hs := fresh "Esnd" in let Hst := fresh "Estr" in let Ha := fresh "Eadd" in let Hd := fresh "Edrp" in
    let Ht := fresh "Etsk" in let Hl := fresh "Elen" in let Ho := fresh "Eoth" in let Hm := fresh "Erm" in
    apply rm_apply_spec, rm_spec_tables in Hr; destruct Hr as (Hs & Hst & Ha & Hd & Ht & Hl & Ho & Hm)
  end.

(* how msg_senders can change in one step *)
Lemma senders_step s l s' : tstep s l s' ->
  senders s' = senders s \/ senders s' = [] \/
  (exists sid a c, lookup (adds s) sid = Some a /\ a_pc a = A2 c /\ senders s' = senders s ++ [(KRule (a_rule a), c)]) \/
  (exists r c, r1 s r c /\ senders s' = del_key (senders s) (KRule r)).
Proof.
  intros Hs. destruct Hs; simp; try (left; reflexivity); try (rm_tables; left; simp; congruence).
  - right. left. reflexivity.
  - right. right. left. exists sid, a, c. tauto.
  - right. right. right. exists r, c. split; [|reflexivity]. left. exists sid, st. tauto.
  - right. right. right. exists r, c. split; [|reflexivity]. right. eapply nth_error_In; eassumption.
Qed.

(* a call in A2 has no sender for its rule yet *)
Lemma a2_no_sender s sid r c c' : Inv s -> a2 s sid r c -> ~ In (KRule r, c') (senders s).
Proof.
  intros I Ha Hin. destruct (inv_a2 _ _ I _ _ _ Ha) as ((e & He & Hc) & Hno & _).
  destruct (inv_reg _ _ I _ _ Hin) as [(e' & He' & Hc')|Hr1].
  - rewrite He in He'. inversion He'; subst e'. apply (Hno (KRule r)). congruence.
  - exact (inv_excl _ _ I _ _ _ _ _ Ha Hr1).
Qed.

Lemma g_keys_step s l s' : tstep s l s' -> Inv s -> NoDup (map fst (senders s')).
Proof.
  intros Hs I. destruct (senders_step _ _ _ Hs) as [E|[E|[(sid & a & c & Ha & Hpc & E)|(r & c & _ & E)]]]; rewrite E.
  - exact (inv_keys _ _ I).
  - constructor.
  - rewrite map_app. cbn. apply NoDup_app_one; [exact (inv_keys _ _ I)|]. intros Hin. apply in_map_iff in Hin. destruct Hin as ([k c'] & Ek & Hin).
    cbn in Ek. subst k. eapply (a2_no_sender s sid (a_rule a) c c' I); [exists a; tauto | exact Hin].
  - apply nodup_del_key. exact (inv_keys _ _ I).
Qed.

Lemma g_shape_step s l s' : tstep s l s' -> Inv s -> forall k c, In (k, c) (senders s') ->
  c < length (chans s') /\ match k with KAll => c = 0 | KRet | KErr => c = 1 | KRule _ => 2 <= c end.
Proof.
  intros Hs I k c Hin. pose proof (len_mono _ _ _ Hs) as Hl.
  assert (Hold : In (k, c) (senders s) -> c < length (chans s') /\ match k with KAll => c = 0 | KRet | KErr => c = 1 | KRule _ => 2 <= c end).
  { intros H. destruct (inv_shape _ _ I _ _ H). split; [lia | assumption]. }
  destruct (senders_step _ _ _ Hs) as [E|[E|[(sid & a & c0 & Ha & Hpc & E)|(r & c0 & _ & E)]]]; rewrite E in Hin.
  - now apply Hold.
  - destruct Hin.
  - apply in_app_iff in Hin. destruct Hin as [Hin|[Hin|[]]]; [now apply Hold|]. inversion Hin; subst.
    destruct (inv_a2 _ _ I sid (a_rule a) c) as (_ & _ & _ & _ & _ & Hc & _); [exists a; tauto|]. split; lia.
  - apply in_del_key in Hin. now apply Hold.
Qed.

Lemma g_inj_step s l s' : tstep s l s' -> Inv s -> forall r r' c, In (KRule r, c) (senders s') -> In (KRule r', c) (senders s') -> r = r'.
Proof.
  intros Hs I r r' c H1 H2.
  destruct (senders_step _ _ _ Hs) as [E|[E|[(sid & a & c0 & Ha & Hpc & E)|(r0 & c0 & _ & E)]]]; rewrite E in H1, H2.
  - eapply inv_inj; eassumption.
  - destruct H1.
  - destruct (inv_a2 _ _ I sid (a_rule a) c0) as (_ & Hno & _); [exists a; tauto|].
    apply in_app_iff in H1, H2. destruct H1 as [H1|[H1|[]]], H2 as [H2|[H2|[]]].
    + eapply inv_inj; eassumption.
    + inversion H2; subst. destruct (Hno _ H1).
    + inversion H1; subst. destruct (Hno _ H2).
    + congruence.
  - apply in_del_key in H1, H2. eapply inv_inj; [apply I | apply H1 | apply H2].
Qed.

(* a live stream (or an unused id) is not under async drop *)
Lemma live_no_drop s sid : Inv s -> lookup (streams s) sid = None -> lookup (drops s) sid = None.
Proof.
  intros I Hs. destruct (lookup (drops s) sid) as [pc|] eqn:E; [|reflexivity].
  destruct (inv_drops _ _ I _ _ E) as (st & r & Hst & _). congruence.
Qed.

Lemma g_reg_step s l s' : tstep s l s' -> Inv s -> forall r c, In (KRule r, c) (senders s') ->
  (exists e, lookup (subs s') r = Some e /\ e_ch e = c) \/ r1 s' r c.
Proof.
  intros Hs I r0 c0 Hin. pose proof (inv_reg _ _ I) as Hreg.
  (* streams replaced / added under ids that are not being async-dropped *)
  assert (Hput : forall s1 sid st', drops s1 = drops s -> tasks s1 = tasks s -> streams s1 = put (streams s) sid st' ->
                   lookup (drops s) sid = None -> forall r c, r1 s1 r c <-> r1 s r c).
  { intros s1 sid st' Ed Et Es Hnd r c. apply r1_agree; try assumption. intros sid' pc Hd. rewrite Es.
    apply lookup_put_other. intros ->. congruence. }
  assert (Hdel : forall s1 sid, drops s1 = drops s -> tasks s1 = tasks s -> streams s1 = del (streams s) sid ->
                   lookup (drops s) sid = None -> forall r c, r1 s1 r c <-> r1 s r c).
  { intros s1 sid Ed Et Es Hnd r c. apply r1_agree; try assumption. intros sid' pc Hd. rewrite Es.
    apply lookup_del_other. intros ->. congruence. }
  destruct Hs; simp; try (exact (Hreg _ _ Hin)).
  - (* next after a failure: no senders *) destruct Hin.
  - (* add, occupied *)
    destruct (Hreg _ _ Hin) as [(e0 & He0 & Hc0)|Hr]; [left | exfalso; eapply not_busy_r1; eassumption].
    destruct (Nat.eq_dec r0 (a_rule a)) as [->|Hne].
    + rewrite lookup_put_same. eexists. split; [reflexivity|]. cbn. congruence.
    + rewrite lookup_put_other by assumption. eauto.
  - (* add, vacant *)
    destruct (Hreg _ _ Hin) as [(e0 & He0 & Hc0)|Hr]; [left | exfalso; eapply not_busy_r1; eassumption].
    destruct (Nat.eq_dec r0 (a_rule a)) as [->|Hne]; [congruence|]. rewrite lookup_put_other by assumption. eauto.
  - (* add sender *)
    apply in_app_iff in Hin. destruct Hin as [Hin|[Hin|[]]].
    + destruct (Hreg _ _ Hin) as [HH|Hr]; [now left | right].
      eapply (Hput _ sid); try reflexivity; [|exact Hr]. apply live_no_drop; [assumption | eapply inv_ids; eassumption].
    + inversion Hin; subst. left. destruct (inv_a2 _ _ I sid (a_rule a) c0) as ((e & He & Hc) & _); [exists a; tauto | eauto].
  - (* unfiltered *) destruct (Hreg _ _ Hin) as [Hl|Hr]; [now left | right].
    eapply (Hput _ sid); try reflexivity; [|exact Hr]. unfold fresh in H. apply live_no_drop; [assumption|].
    destruct (lookup (streams s) sid); [discriminate | reflexivity].
  - (* poll *) destruct H as [Hl Hd]. destruct (Hreg _ _ Hin) as [Hl'|Hr]; [now left | right]. eapply (Hput _ sid); try reflexivity; eassumption.
  - (* drop, rule *) destruct H as [Hl Hd]. destruct (Hreg _ _ Hin) as [Hl'|Hr]; [now left | right].
    destruct Hr as [Hr|Hr]; [|right; simp; apply in_app_r0; exact Hr]. left. destruct Hr as (sid' & st' & Hd' & Hs' & Hr').
    exists sid', st'. simp. repeat split; try assumption. rewrite lookup_del_other; [assumption | intros ->; congruence].
  - (* drop, none *) destruct H as [Hl Hd]. destruct (Hreg _ _ Hin) as [Hl'|Hr]; [now left | right]. eapply (Hdel _ sid); try reflexivity; eassumption.
  - (* clone *) destruct H as [Hl Hd]. destruct (Hreg _ _ Hin) as [Hl'|Hr]; [now left | right].
    eapply (Hput _ sid2); try reflexivity; [|exact Hr]. unfold fresh in H0. apply live_no_drop; [assumption|].
    destruct (lookup (streams s) sid2); [discriminate | reflexivity].
  - (* async drop starts: as drop, rule *) destruct H as [Hl Hd]. destruct (Hreg _ _ Hin) as [Hl'|Hr]; [now left | right].
    destruct Hr as [Hr|Hr]; [|right; simp; apply in_app_r0; exact Hr]. left. destruct Hr as (sid' & st' & Hd' & Hs' & Hr').
    exists sid', st'. simp. repeat split; try assumption. rewrite lookup_del_other; [assumption | intros ->; congruence].
  - destruct H as [Hl Hd]. destruct (Hreg _ _ Hin) as [Hl'|Hr]; [now left | right]. eapply (Hdel _ sid); try reflexivity; eassumption.
  - (* async drop, subs step, done *)
    rm_tables. rewrite Esnd in Hin. destruct (Hreg _ _ Hin) as [(e0 & He0 & Hc0)|Hr]; [left | exfalso; eapply not_busy_r1; eassumption].
    destruct (Nat.eq_dec r0 r) as [->|Hne].
    + rewrite He0 in Erm. destruct Erm as (e' & He' & Hc'). exists e'. split; [assumption | congruence].
    + rewrite (Eoth _ Hne). eauto.
  - (* async drop, subs step, last reference: the entry is gone, the caller now stands for the sender *)
    rm_tables. rewrite Esnd in Hin. destruct (Hreg _ _ Hin) as [(e0 & He0 & Hc0)|Hr]; [|exfalso; eapply not_busy_r1; eassumption].
    destruct (Nat.eq_dec r0 r) as [->|Hne].
    + right. left. destruct Erm as (_ & e & He & Hc). exists sid, st. simp. rewrite Estr. repeat split; try assumption.
      rewrite lookup_put_same. f_equal. f_equal. congruence.
    + left. rewrite (Eoth _ Hne). eauto.
  - (* async drop, sender step *)
    apply in_del_key in Hin. destruct Hin as [Hin Hne]. cbn in Hne. destruct (Hreg _ _ Hin) as [Hl'|Hr]; [now left | right].
    destruct Hr as [(sid' & st' & Hd' & Hs' & Hr')|Hr]; [left | right; simp; exact Hr].
    assert (sid' <> sid) by (intros ->; rewrite H in Hs'; inversion Hs'; subst; congruence).
    exists sid', st'. simp. rewrite !lookup_del_other by assumption. tauto.
  - (* task, subs step, done *)
    rm_tables. rewrite Esnd in Hin. destruct (Hreg _ _ Hin) as [(e0 & He0 & Hc0)|Hr]; [left | exfalso; eapply not_busy_r1; eassumption].
    destruct (Nat.eq_dec r0 r) as [->|Hne].
    + rewrite He0 in Erm. destruct Erm as (e' & He' & Hc'). exists e'. split; [assumption | congruence].
    + rewrite (Eoth _ Hne). eauto.
  - (* task, subs step, last reference *)
    rm_tables. rewrite Esnd in Hin. destruct (Hreg _ _ Hin) as [(e0 & He0 & Hc0)|Hr]; [|exfalso; eapply not_busy_r1; eassumption].
    destruct (Nat.eq_dec r0 r) as [->|Hne].
    + right. right. simp. destruct Erm as (_ & e & He & Hc). replace c0 with c by congruence.
      clear - H. revert n H. induction (tasks s) as [|t ts IH]; intros [|n] Hn; cbn in *; try discriminate; [now left | right; eauto].
    + left. rewrite (Eoth _ Hne). eauto.
  - (* task, sender step *)
    apply in_del_key in Hin. destruct Hin as [Hin Hne]. cbn in Hne. destruct (Hreg _ _ Hin) as [Hl'|Hr]; [now left | right].
    destruct Hr as [Hr|Hr]; [left; simp; exact Hr | right]. simp. eapply in_del_nth_keep; eauto. congruence.
  - (* add sender, failed: there are no senders *) rewrite H2 in Hin. destruct Hin.
  - (* drop of a stream whose rule other clones hold: as drop, none *) destruct H as [Hl Hd]. destruct (Hreg _ _ Hin) as [Hl'|Hr]; [now left | right]. eapply (Hdel _ sid); try reflexivity; eassumption.
  - destruct H as [Hl Hd]. destruct (Hreg _ _ Hin) as [Hl'|Hr]; [now left | right]. eapply (Hdel _ sid); try reflexivity; eassumption.
Qed.

(* how `subscriptions` can change in one step *)
Lemma subs_step s l s' : tstep s l s' ->
  (forall r e', lookup (subs s') r = Some e' -> exists e, lookup (subs s) r = Some e /\ e_ch e' = e_ch e) \/
  (exists r0 e0, lookup (subs s) r0 = None /\ length (chans s') = S (length (chans s)) /\ lookup (subs s') r0 = Some e0 /\
                 e_ch e0 = length (chans s) /\ forall r, r <> r0 -> lookup (subs s') r = lookup (subs s) r).
Proof.
  intros Hs.
  assert (Hrm : forall r s1 o, rm_apply s r = (s1, o) ->
                  forall r' e', lookup (subs s1) r' = Some e' -> exists e, lookup (subs s) r' = Some e /\ e_ch e' = e_ch e).
  { intros r s1 o Hr r' e' He'. apply rm_apply_spec, rm_spec_tables in Hr. destruct Hr as (_ & _ & _ & _ & _ & _ & Eoth & Erm).
    destruct (Nat.eq_dec r' r) as [->|Hne]; [|rewrite (Eoth _ Hne) in He'; eauto].
    destruct o as [c|]; [destruct Erm as [En _]; congruence|]. destruct (lookup (subs s) r) as [e|]; [|congruence].
    destruct Erm as (e2 & He2 & Hc2). rewrite He2 in He'. inversion He'; subst. eauto. }
  destruct Hs; simp; try (left; intros r0 e' He'; eauto; fail); try (left; eapply Hrm; eassumption).
  - (* occupied *) left. intros r0 e' He'. destruct (Nat.eq_dec r0 (a_rule a)) as [->|Hne].
    + rewrite lookup_put_same in He'. inversion He'; subst. eauto.
    + rewrite lookup_put_other in He' by assumption. eauto.
  - (* vacant *) right. exists (a_rule a). eexists. repeat split.
    + assumption.
    + rewrite app_length. cbn. lia.
    + apply lookup_put_same.
    + reflexivity.
    + intros r Hne. now apply lookup_put_other.
  - (* add sender, failed: the entry is taken back *) left. intros r0 e' He'. apply in_del_lookup in He'. eauto.
Qed.

Lemma g_entry_step s l s' : tstep s l s' -> Inv s -> forall r e, lookup (subs s') r = Some e -> 2 <= e_ch e < length (chans s').
Proof.
  intros Hs I r e He. pose proof (len_mono _ _ _ Hs) as Hl. pose proof (inv_len _ _ I) as H2.
  destruct (subs_step _ _ _ Hs) as [Hold|(r0 & e0 & Hn & Hlen & He0 & Hc0 & Hoth)].
  - destruct (Hold _ _ He) as (e1 & He1 & Hc). pose proof (inv_entry _ _ I _ _ He1). lia.
  - destruct (Nat.eq_dec r r0) as [->|Hne].
    + rewrite He0 in He. inversion He; subst. lia.
    + rewrite (Hoth _ Hne) in He. pose proof (inv_entry _ _ I _ _ He). lia.
Qed.

Lemma g_entry_inj_step s l s' : tstep s l s' -> Inv s ->
  forall r r' e e', lookup (subs s') r = Some e -> lookup (subs s') r' = Some e' -> e_ch e = e_ch e' -> r = r'.
Proof.
  intros Hs I r r' e e' He He' Hc.
  destruct (subs_step _ _ _ Hs) as [Hold|(r0 & e0 & Hn & Hlen & He0 & Hc0 & Hoth)].
  - destruct (Hold _ _ He) as (e1 & He1 & Hc1). destruct (Hold _ _ He') as (e2 & He2 & Hc2).
    eapply inv_entry_inj; try eassumption. congruence.
  - destruct (Nat.eq_dec r r0) as [->|Hne], (Nat.eq_dec r' r0) as [->|Hne']; try reflexivity.
    + rewrite He0 in He. inversion He; subst. rewrite (Hoth _ Hne') in He'. pose proof (inv_entry _ _ I _ _ He'). lia.
    + rewrite He0 in He'. inversion He'; subst. rewrite (Hoth _ Hne) in He. pose proof (inv_entry _ _ I _ _ He). lia.
    + rewrite (Hoth _ Hne) in He. rewrite (Hoth _ Hne') in He'. eapply inv_entry_inj; eassumption.
Qed.

(* who can come to hold `subscriptions` in one step *)
Lemma holders_step s l s' : tstep s l s' -> Inv s ->
  ((forall sid r c, a2 s' sid r c -> a2 s sid r c) /\ (forall r c, r1 s' r c -> r1 s r c)) \/
  (subs_busy s = false /\ (exists sid0, forall sid r c, a2 s' sid r c -> sid = sid0) /\ (forall r c, ~ r1 s' r c)) \/
  (subs_busy s = false /\ (forall sid r c, ~ a2 s' sid r c)).
Proof.
  intros Hs I.
  assert (Hput : forall s1 sid st', drops s1 = drops s -> tasks s1 = tasks s -> streams s1 = put (streams s) sid st' ->
                   lookup (drops s) sid = None -> forall r c, r1 s1 r c -> r1 s r c).
  { intros s1 sid st' Ed Et Es Hnd r c Hr. refine (proj1 (r1_agree s s1 r c Ed Et _) Hr). intros sid' pc Hd. rewrite Es.
    apply lookup_put_other. intros ->. congruence. }
  assert (Hdel : forall s1 sid, drops s1 = drops s -> tasks s1 = tasks s -> streams s1 = del (streams s) sid ->
                   lookup (drops s) sid = None -> forall r c, r1 s1 r c -> r1 s r c).
  { intros s1 sid Ed Et Es Hnd r c Hr. refine (proj1 (r1_agree s s1 r c Ed Et _) Hr). intros sid' pc Hd. rewrite Es.
    apply lookup_del_other. intros ->. congruence. }
  destruct Hs; simp; try (left; split; intros; assumption).
  - (* add start *) left. split; [|intros; assumption]. intros sid' r' c'. eapply a2_put_other; [reflexivity|]. intros c0. discriminate.
  - left. split; [|intros; assumption]. intros sid' r' c' Ha. eapply a2_del in Ha; [apply Ha | reflexivity].
  - left. split; [|intros; assumption]. intros sid' r' c'. eapply a2_put_other; [reflexivity|]. intros c0. discriminate.
  - (* occupied *) left. split.
    + intros sid' r' c' Ha. eapply a2_del in Ha; [apply Ha | reflexivity].
    + intros r' c'. eapply (Hput _ sid); try reflexivity. apply live_no_drop; [assumption | eapply inv_ids; eassumption].
  - (* vacant *) right. left. split; [assumption|]. split.
    + exists sid. intros sid' r' c' (a' & Ha' & _ & Hpc'). simp. destruct (Nat.eq_dec sid' sid) as [|Hne]; [assumption|].
      rewrite lookup_put_other in Ha' by assumption. exfalso. eapply (not_busy_a2 s sid'); [eassumption | exists a'; eauto].
    + intros r' c' Hr. eapply (not_busy_r1 s); [eassumption | exact Hr].
  - (* add sender *) left. split.
    + intros sid' r' c' Ha. eapply a2_del in Ha; [apply Ha | reflexivity].
    + intros r' c'. eapply (Hput _ sid); try reflexivity. apply live_no_drop; [assumption | eapply inv_ids; eassumption].
  - (* unfiltered *) left. split; [intros; assumption|]. intros r' c'. eapply (Hput _ sid); try reflexivity.
    unfold fresh in H. apply live_no_drop; [assumption|]. destruct (lookup (streams s) sid); [discriminate | reflexivity].
  - (* poll *) destruct H as [Hl Hd]. left. split; [intros; assumption|]. intros r' c'. eapply (Hput _ sid); try reflexivity; eassumption.
  - (* drop rule *) destruct H as [Hl Hd]. left. split; [intros; assumption|]. intros r' c' [(sid' & st' & Hd' & Hs' & Hr')|Hr].
    + left. simp. exists sid', st'. repeat split; try assumption. destruct (Nat.eq_dec sid' sid) as [->|Hne]; [now rewrite lookup_del_same in Hs'|].
      now rewrite lookup_del_other in Hs'.
    + right. simp. now apply in_app_r0 in Hr.
  - destruct H as [Hl Hd]. left. split; [intros; assumption|]. intros r' c'. eapply (Hdel _ sid); try reflexivity; eassumption.
  - (* clone *) destruct H as [Hl Hd]. left. split; [intros; assumption|]. intros r' c'. eapply (Hput _ sid2); try reflexivity.
    unfold fresh in H0. apply live_no_drop; [assumption|]. destruct (lookup (streams s) sid2); [discriminate | reflexivity].
  - (* async drop starts: as drop rule *) destruct H as [Hl Hd]. left. split; [intros; assumption|]. intros r' c' [(sid' & st' & Hd' & Hs' & Hr')|Hr].
    + left. simp. exists sid', st'. repeat split; try assumption. destruct (Nat.eq_dec sid' sid) as [->|Hne]; [now rewrite lookup_del_same in Hs'|].
      now rewrite lookup_del_other in Hs'.
    + right. simp. now apply in_app_r0 in Hr.
  - destruct H as [Hl Hd]. left. split; [intros; assumption|]. intros r' c'. eapply (Hdel _ sid); try reflexivity; eassumption.
  - (* async drop, subs, done *) rm_tables. left. split.
    + intros sid' r' c'. apply a2_ext. simp. assumption.
    + intros r' c' [(sid' & st' & Hd' & Hs' & Hr')|Hr]; simp.
      * left. rewrite Edrp in Hd'. rewrite Estr in Hs'. destruct (Nat.eq_dec sid' sid) as [->|Hne]; [now rewrite lookup_del_same in Hd'|].
        rewrite lookup_del_other in Hd' by assumption. rewrite lookup_del_other in Hs' by assumption. exists sid', st'. tauto.
      * right. now rewrite Etsk in Hr.
  - (* async drop, subs, wait *) rm_tables. right. right. split; [assumption|]. intros sid' r' c' Ha. apply (not_busy_a2 s sid' r' c'); [assumption|].
    eapply a2_ext; [|exact Ha]. simp. assumption.
  - (* async drop, sender *) left. split; [intros sid0 r0 c0; apply a2_ext; simp; reflexivity|]. intros r' c' [(sid' & st' & Hd' & Hs' & Hr')|Hr]; [left | right; simp; exact Hr]. simp.
    destruct (Nat.eq_dec sid' sid) as [->|Hne]; [now rewrite lookup_del_same in Hd'|]. rewrite lookup_del_other in Hd' by assumption. rewrite lookup_del_other in Hs' by assumption.
    exists sid', st'. tauto.
  - (* task, subs, done *) rm_tables. left. split.
    + intros sid' r' c'. apply a2_ext. simp. assumption.
    + intros r' c' [(sid' & st' & Hd' & Hs' & Hr')|Hr]; simp.
      * left. rewrite Edrp in Hd'. rewrite Estr in Hs'. exists sid', st'. tauto.
      * right. eapply in_del_nth; eassumption.
  - (* task, subs, wait *) rm_tables. right. right. split; [assumption|]. intros sid' r' c' Ha. apply (not_busy_a2 s sid' r' c'); [assumption|].
    eapply a2_ext; [|exact Ha]. simp. assumption.
  - (* task, sender *) left. split; [intros sid0 r0 c0; apply a2_ext; simp; reflexivity|]. intros r' c' [(sid' & st' & Hd' & Hs' & Hr')|Hr]; [left | right]; simp.
    + exists sid', st'. tauto.
    + eapply in_del_nth; eassumption.
  - (* add sender, failed *) left. split; [|intros; assumption]. intros sid' r' c' Ha. eapply a2_del in Ha; [apply Ha | reflexivity].
  - (* drop, shared rule: as drop, none *) destruct H as [Hl Hd]. left. split; [intros; assumption|]. intros r' c'. eapply (Hdel _ sid); try reflexivity; eassumption.
  - destruct H as [Hl Hd]. left. split; [intros; assumption|]. intros r' c'. eapply (Hdel _ sid); try reflexivity; eassumption.
Qed.

Lemma g_excl_step s l s' : tstep s l s' -> Inv s -> forall sid r c r' c', a2 s' sid r c -> r1 s' r' c' -> False.
Proof.
  intros Hs I sid r c r' c' Ha Hr. destruct (holders_step _ _ _ Hs I) as [[H1 H2]|[(_ & _ & Hn)|(_ & Hn)]].
  - eapply inv_excl; eauto.
  - eapply Hn; eassumption.
  - eapply Hn; eassumption.
Qed.

Lemma g_a2_uniq_step s l s' : tstep s l s' -> Inv s -> forall sid r c sid' r' c', a2 s' sid r c -> a2 s' sid' r' c' -> sid = sid'.
Proof.
  intros Hs I sid r c sid' r' c' Ha Ha'. destruct (holders_step _ _ _ Hs I) as [[H1 H2]|[(_ & (sid0 & H0) & _)|(_ & Hn)]].
  - eapply inv_a2_uniq; eauto.
  - rewrite (H0 _ _ _ Ha), (H0 _ _ _ Ha'). reflexivity.
  - destruct (Hn _ _ _ Ha).
Qed.

Lemma g_drops_step s l s' : tstep s l s' -> Inv s -> forall sid pc, lookup (drops s') sid = Some pc ->
  exists st r, lookup (streams s') sid = Some st /\ s_rule st = Some r.
Proof.
  intros Hs I sid0 pc Hd. pose proof (inv_drops _ _ I) as Hold.
  assert (Hput : forall sid st', lookup (drops s) sid0 = Some pc ->
                   (sid = sid0 -> forall st, lookup (streams s) sid = Some st -> s_rule st' = s_rule st) ->
                   (lookup (streams s) sid = None -> sid <> sid0) ->
                   exists st r, lookup (put (streams s) sid st') sid0 = Some st /\ s_rule st = Some r).
  { intros sid st' Hd0 Hsame Hnew. destruct (Hold _ _ Hd0) as (st & r & Hst & Hr). destruct (Nat.eq_dec sid0 sid) as [->|Hne].
    - rewrite lookup_put_same. exists st', r. split; [reflexivity|]. rewrite (Hsame eq_refl _ Hst). assumption.
    - rewrite lookup_put_other by assumption. eauto. }
  assert (Hnone : forall sid, lookup (streams s) sid = None -> lookup (drops s) sid0 = Some pc -> sid <> sid0).
  { intros sid Hn Hd0 ->. destruct (Hold _ _ Hd0) as (st & r & Hst & _). congruence. }
  destruct Hs; simp; try (exact (Hold _ _ Hd)).
  - (* occupied *) apply Hput; [assumption | |].
    + intros -> st Hst. pose proof (inv_ids _ _ I _ _ H). congruence.
    + intros Hn. now apply Hnone.
  - (* add sender *) apply Hput; [assumption | |].
    + intros -> st Hst. pose proof (inv_ids _ _ I _ _ H). congruence.
    + intros Hn. now apply Hnone.
  - (* unfiltered *) apply fresh_spec in H. destruct H as (Hn & _). apply Hput; [assumption | |].
    + intros -> st Hst. congruence.
    + intros _. now apply Hnone.
  - (* poll *) destruct H as [Hl Hdn]. apply Hput; [assumption | |].
    + intros -> st0 Hst. rewrite Hl in Hst. inversion Hst; subst. reflexivity.
    + intros Hn. congruence.
  - (* drop rule *) destruct H as [Hl Hdn]. destruct (Hold _ _ Hd) as (st0 & r0 & Hst & Hr). exists st0, r0. split; [|assumption].
    rewrite lookup_del_other; [assumption | intros ->; congruence].
  - destruct H as [Hl Hdn]. destruct (Hold _ _ Hd) as (st0 & r0 & Hst & Hr). exists st0, r0. split; [|assumption].
    rewrite lookup_del_other; [assumption | intros ->; congruence].
  - (* clone *) apply fresh_spec in H0. destruct H0 as (Hn & _). apply Hput; [assumption | |].
    + intros -> st0 Hst. congruence.
    + intros _. now apply Hnone.
  - (* async drop start: as drop rule *) destruct H as [Hl Hdn]. destruct (Hold _ _ Hd) as (st0 & r0 & Hst & Hr). exists st0, r0. split; [|assumption].
    rewrite lookup_del_other; [assumption | intros ->; congruence].
  - destruct H as [Hl Hdn]. destruct (Hold _ _ Hd) as (st0 & r0 & Hst & Hr). exists st0, r0. split; [|assumption].
    rewrite lookup_del_other; [assumption | intros ->; congruence].
  - (* async drop, subs, done *) rm_tables. rewrite Edrp in Hd. rewrite Estr. destruct (Nat.eq_dec sid0 sid) as [->|Hne]; [now rewrite lookup_del_same in Hd|].
    rewrite lookup_del_other in Hd by assumption. rewrite lookup_del_other by assumption. exact (Hold _ _ Hd).
  - (* wait *) rm_tables. rewrite Edrp in Hd. rewrite Estr. destruct (Nat.eq_dec sid0 sid) as [->|Hne]; [eauto|].
    rewrite lookup_put_other in Hd by assumption. exact (Hold _ _ Hd).
  - (* sender *) destruct (Nat.eq_dec sid0 sid) as [->|Hne]; [now rewrite lookup_del_same in Hd|].
    rewrite lookup_del_other in Hd by assumption. rewrite lookup_del_other by assumption. exact (Hold _ _ Hd).
  - rm_tables. rewrite Edrp in Hd. rewrite Estr. exact (Hold _ _ Hd).
  - rm_tables. rewrite Edrp in Hd. rewrite Estr. exact (Hold _ _ Hd).
  - destruct H as [Hl Hdn]. destruct (Hold _ _ Hd) as (st0 & r0 & Hst & Hr). exists st0, r0. split; [|assumption].
    rewrite lookup_del_other; [assumption | intros ->; congruence].
  - destruct H as [Hl Hdn]. destruct (Hold _ _ Hd) as (st0 & r0 & Hst & Hr). exists st0, r0. split; [|assumption].
    rewrite lookup_del_other; [assumption | intros ->; congruence].
Qed.

Lemma g_ids_step s l s' : tstep s l s' -> Inv s -> forall sid a, lookup (adds s') sid = Some a -> lookup (streams s') sid = None.
Proof.
  intros Hs I sid0 a0 Ha. pose proof (inv_ids _ _ I) as Hold.
  destruct Hs; simp; try (exact (Hold _ _ Ha)).
  - (* add start *) apply fresh_spec in H. destruct H as (Hn & _). destruct (Nat.eq_dec sid0 sid) as [->|Hne]; [assumption|].
    rewrite lookup_put_other in Ha by assumption. exact (Hold _ _ Ha).
  - destruct (Nat.eq_dec sid0 sid) as [->|Hne]; [now rewrite lookup_del_same in Ha|]. rewrite lookup_del_other in Ha by assumption. exact (Hold _ _ Ha).
  - destruct (Nat.eq_dec sid0 sid) as [->|Hne]; [exact (Hold _ _ H)|]. rewrite lookup_put_other in Ha by assumption. exact (Hold _ _ Ha).
  - (* occupied *) destruct (Nat.eq_dec sid0 sid) as [->|Hne]; [now rewrite lookup_del_same in Ha|]. rewrite lookup_del_other in Ha by assumption.
    rewrite lookup_put_other by assumption. exact (Hold _ _ Ha).
  - (* vacant *) destruct (Nat.eq_dec sid0 sid) as [->|Hne]; [exact (Hold _ _ H)|]. rewrite lookup_put_other in Ha by assumption. exact (Hold _ _ Ha).
  - (* add sender *) destruct (Nat.eq_dec sid0 sid) as [->|Hne]; [now rewrite lookup_del_same in Ha|]. rewrite lookup_del_other in Ha by assumption.
    rewrite lookup_put_other by assumption. exact (Hold _ _ Ha).
  - (* unfiltered *) apply fresh_spec in H. destruct H as (_ & Hn & _). rewrite lookup_put_other; [exact (Hold _ _ Ha) | intros ->; congruence].
  - (* poll *) destruct H as [Hl Hd]. rewrite lookup_put_other; [exact (Hold _ _ Ha)|]. intros ->. pose proof (Hold _ _ Ha). congruence.
  - (* drop *) destruct (Nat.eq_dec sid0 sid) as [->|Hne]; [apply lookup_del_same | rewrite lookup_del_other by assumption; exact (Hold _ _ Ha)].
  - destruct (Nat.eq_dec sid0 sid) as [->|Hne]; [apply lookup_del_same | rewrite lookup_del_other by assumption; exact (Hold _ _ Ha)].
  - (* clone *) apply fresh_spec in H0. destruct H0 as (_ & Hn & _). rewrite lookup_put_other; [exact (Hold _ _ Ha) | intros ->; congruence].
  - (* async drop starts *) destruct (Nat.eq_dec sid0 sid) as [->|Hne]; [apply lookup_del_same | rewrite lookup_del_other by assumption; exact (Hold _ _ Ha)].
  - destruct (Nat.eq_dec sid0 sid) as [->|Hne]; [apply lookup_del_same | rewrite lookup_del_other by assumption; exact (Hold _ _ Ha)].
  - rm_tables. rewrite Eadd in Ha. rewrite Estr. destruct (Nat.eq_dec sid0 sid) as [->|Hne]; [apply lookup_del_same | rewrite lookup_del_other by assumption; exact (Hold _ _ Ha)].
  - rm_tables. rewrite Eadd in Ha. rewrite Estr. exact (Hold _ _ Ha).
  - destruct (Nat.eq_dec sid0 sid) as [->|Hne]; [apply lookup_del_same | rewrite lookup_del_other by assumption; exact (Hold _ _ Ha)].
  - rm_tables. rewrite Eadd in Ha. rewrite Estr. exact (Hold _ _ Ha).
  - rm_tables. rewrite Eadd in Ha. rewrite Estr. exact (Hold _ _ Ha).
  - (* add sender, failed *) destruct (Nat.eq_dec sid0 sid) as [->|Hne]; [now rewrite lookup_del_same in Ha|]. rewrite lookup_del_other in Ha by assumption. exact (Hold _ _ Ha).
  - destruct (Nat.eq_dec sid0 sid) as [->|Hne]; [apply lookup_del_same | rewrite lookup_del_other by assumption; exact (Hold _ _ Ha)].
  - destruct (Nat.eq_dec sid0 sid) as [->|Hne]; [apply lookup_del_same | rewrite lookup_del_other by assumption; exact (Hold _ _ Ha)].
Qed.

Theorem G1_step s l s' : tstep s l s' -> Inv s -> G1 s'.
Proof.
  intros Hs I. constructor.
  - eapply g_len_step; eassumption.
  - eapply g_keys_step; eassumption.
  - eapply g_shape_step; eassumption.
  - eapply g_inj_step; eassumption.
  - eapply g_reg_step; eassumption.
  - eapply g_entry_step; eassumption.
  - eapply g_entry_inj_step; eassumption.
  - eapply g_excl_step; eassumption.
  - eapply g_a2_uniq_step; eassumption.
  - eapply g_drops_step; eassumption.
  - eapply g_ids_step; eassumption.
Qed.

End G1.
