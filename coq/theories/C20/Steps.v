(* C20/Steps.v — the step function of C20/Model.v as a relation with one constructor per way a label can fire. *)
From ZV Require Import Base.Bytes Base.Res C19.Broadcast C19.BroadcastFacts C20.Model.
From Coq Require Import Lia.

Section Steps.
Variable matches : nat -> msg -> bool.

Notation step := (step matches).
Notation targets := (targets matches).

Definition mk_stream (r : option nat) (c from : nat) : stream := {| s_rule := r; s_ch := c; s_from := from; s_got := [] |}.
Definition got_more (st : stream) (x : item) : stream :=
  {| s_rule := s_rule st; s_ch := s_ch st; s_from := s_from st; s_got := s_got st ++ [x] |}.
Definition add_at (a : addst) (pc : addpc) : addst := {| a_rule := a_rule a; a_q := a_q a; a_pc := pc |}.

Definition close_all (s : sys) : list (chan item) :=
  map (fun p => if mem_nat (fst p) (map snd (senders s)) then close (snd p) else snd p)
      (combine (seq 0 (length (chans s))) (chans s)).

(* rm_sender touches msg_senders and one channel *)
Lemma rm_sender_frame s r :
  senders (rm_sender s r) = del_key (senders s) (KRule r) /\ subs (rm_sender s r) = subs s /\ streams (rm_sender s r) = streams s /\
  adds (rm_sender s r) = adds s /\ drops (rm_sender s r) = drops s /\ tasks (rm_sender s r) = tasks s /\
  reader (rm_sender s r) = reader s /\ socket (rm_sender s r) = socket s /\ incoming (rm_sender s r) = incoming s /\
  dead (rm_sender s r) = dead s /\ arcs (rm_sender s r) = arcs s /\ length (chans (rm_sender s r)) = length (chans s).
Proof.
  assert (Hl : forall (l : list (chan item)) n x, length (upd l n x) = length l).
  { induction l as [|a l IH]; intros [|n] x; cbn; try reflexivity. now rewrite IH. }
  unfold rm_sender. destruct (chan_of_key (senders s) (KRule r)); cbn; repeat split; try reflexivity. apply Hl.
Qed.

Definition live (s : sys) (sid : nat) (st : stream) : Prop := lookup (streams s) sid = Some st /\ lookup (drops s) sid = None.

Inductive tstep (s : sys) : label -> sys -> Prop :=
  | TArrive it : tstep s (LArrive it) (with_socket s (socket s ++ [it]))
  | TReadMsg m rest : reader s = RIdle -> socket s = IMsg m :: rest ->
      tstep s LRead (with_incoming (with_reader (with_socket s rest) (RHave (IMsg m))) (incoming s ++ [m]))
  | TReadFail e rest : reader s = RIdle -> socket s = IFail e :: rest ->
      tstep s LRead (with_reader (with_socket s rest) (RHave (IFail e)))
  | TFan it todo : reader s = RHave it -> is_perm todo (targets (senders s) it) = true ->
      tstep s (LFan todo) (with_reader s (RPush it todo))
  | TPushOk it c todo ch' : reader s = RPush it (c :: todo) -> try_push it (chan_at s c) = Pushed ch' ->
      tstep s LPush (with_reader (set_chan s c ch') (RPush it todo))
  | TPushSkip it c todo : reader s = RPush it (c :: todo) ->
      (try_push it (chan_at s c) = PNoRecv \/ try_push it (chan_at s c) = PClosed) ->
      tstep s LPush (with_reader s (RPush it todo))
  | TNextMsg m : reader s = RPush (IMsg m) [] -> tstep s LNext (with_reader s RIdle)
  | TNextFail e : reader s = RPush (IFail e) [] ->
      tstep s LNext (with_reader (with_senders (with_chans s (close_all s)) []) RStopped)
  | TAddStart sid r q : fresh s sid = true -> q <> Some 0 ->
      tstep s (LAddStart sid r q) (with_adds s (put (adds s) sid {| a_rule := r; a_q := q; a_pc := A0 |}))
  | TAddCheckFail sid a : lookup (adds s) sid = Some a -> a_pc a = A0 -> senders_held s = false -> senders s = [] ->
      tstep s (LAddCheck sid) (with_adds s (del (adds s) sid))
  | TAddCheckOk sid a : lookup (adds s) sid = Some a -> a_pc a = A0 -> senders_held s = false -> senders s <> [] ->
      tstep s (LAddCheck sid) (with_adds s (put (adds s) sid (add_at a A1)))
  | TAddSubsOcc sid a e : lookup (adds s) sid = Some a -> a_pc a = A1 -> subs_busy s = false ->
      lookup (subs s) (a_rule a) = Some e ->
      let c := e_ch e in
      let ch1 := match a_q a with Some n => grow n (chan_at s c) | None => chan_at s c end in
      let s1 := set_chan s c (subscribe sid ch1) in
      let s2 := with_subs s1 (put (subs s1) (a_rule a) {| e_ref := S (e_ref e); e_ch := c |}) in
      tstep s (LAddSubs sid)
        (with_arcs (with_adds (with_streams s2 (put (streams s2) sid (mk_stream (Some (a_rule a)) c (seen s c)))) (del (adds s2) sid))
                   (arcs s ++ [(a_rule a, [sid])]))
  | TAddSubsVac sid a : lookup (adds s) sid = Some a -> a_pc a = A1 -> subs_busy s = false ->
      lookup (subs s) (a_rule a) = None ->
      let c := length (chans s) in
      let capacity := match a_q a with Some n => n | None => default_max_queued end in
      let s1 := with_chans s (chans s ++ [subscribe sid (new_chan capacity)]) in
      let s2 := with_subs s1 (put (subs s1) (a_rule a) {| e_ref := 1; e_ch := c |}) in
      tstep s (LAddSubs sid) (with_adds s2 (put (adds s2) sid (add_at a (A2 c))))
  | TAddSender sid a c : lookup (adds s) sid = Some a -> a_pc a = A2 c -> senders_held s = false -> senders s <> [] ->
      tstep s (LAddSender sid)
        (with_arcs (with_adds (with_streams (with_senders s (senders s ++ [(KRule (a_rule a), c)]))
                                            (put (streams s) sid (mk_stream (Some (a_rule a)) c (seen s c))))
                              (del (adds s) sid))
                   (arcs s ++ [(a_rule a, [sid])]))
  | TUnfiltered sid : fresh s sid = true ->
      tstep s (LUnfiltered sid)
        (with_streams (set_chan s 0 (subscribe sid (chan_at s 0))) (put (streams s) sid (mk_stream None 0 (seen s 0))))
  | TPollGot sid st x ch' : live s sid st -> try_recv sid (chan_at s (s_ch st)) = Got x ch' ->
      tstep s (LPoll sid) (with_streams (set_chan s (s_ch st) ch') (put (streams s) sid (got_more st x)))
  | TPollEnd sid st : live s sid st -> try_recv sid (chan_at s (s_ch st)) = RClosed -> tstep s (LPoll sid) s
  | TDropRule sid st r a' : live s sid st -> s_rule st = Some r -> release (arcs s) sid = (a', true) ->
      tstep s (LDrop sid) (with_arcs (with_tasks (bury s sid st) (tasks s ++ [(r, R0)])) a')
  | TDropNone sid st : live s sid st -> s_rule st = None -> tstep s (LDrop sid) (bury s sid st)
  | TClone sid sid2 st : live s sid st -> fresh s sid2 = true ->
      tstep s (LClone sid sid2)
        (with_arcs (with_streams (set_chan s (s_ch st) (clone_rcv sid sid2 (chan_at s (s_ch st)))) (put (streams s) sid2 st)) (join (arcs s) sid sid2))
  | TSetCap sid n st : live s sid st ->
      tstep s (LSetCap sid n) (set_chan s (s_ch st) (grow n (chan_at s (s_ch st))))
  | TDropStartRule sid st r a' : live s sid st -> s_rule st = Some r -> release (arcs s) sid = (a', true) ->
      tstep s (LDropStart sid) (with_arcs (with_tasks (bury s sid st) (tasks s ++ [(r, R0)])) a')
  | TDropStartNone sid st : live s sid st -> s_rule st = None -> tstep s (LDropStart sid) (bury s sid st)
  | TDropSubsDone sid st r s1 : lookup (streams s) sid = Some st -> lookup (drops s) sid = Some R0 -> subs_busy s = false ->
      s_rule st = Some r -> rm_apply s r = (s1, None) ->
      tstep s (LDropSubs sid) (with_drops (bury s1 sid st) (del (drops s1) sid))
  | TDropSubsWait sid st r s1 c : lookup (streams s) sid = Some st -> lookup (drops s) sid = Some R0 -> subs_busy s = false ->
      s_rule st = Some r -> rm_apply s r = (s1, Some c) ->
      tstep s (LDropSubs sid) (with_drops s1 (put (drops s1) sid (R1 c)))
  | TDropSender sid st r c : lookup (streams s) sid = Some st -> lookup (drops s) sid = Some (R1 c) -> senders_held s = false ->
      s_rule st = Some r ->
      tstep s (LDropSender sid) (with_drops (bury (rm_sender s r) sid st) (del (drops s) sid))
  | TTaskSubsDone n r s1 : nth_error (tasks s) n = Some (r, R0) -> subs_busy s = false -> rm_apply s r = (s1, None) ->
      tstep s (LTaskSubs n) (with_tasks s1 (del_nth (tasks s) n))
  | TTaskSubsWait n r s1 c : nth_error (tasks s) n = Some (r, R0) -> subs_busy s = false -> rm_apply s r = (s1, Some c) ->
      tstep s (LTaskSubs n) (with_tasks s1 (upd (tasks s) n (r, R1 c)))
  | TTaskSender n r c : nth_error (tasks s) n = Some (r, R1 c) -> senders_held s = false ->
      tstep s (LTaskSender n) (with_tasks (rm_sender s r) (del_nth (tasks s) n))
  (* fix 3703ee13: add_match finds msg_senders empty (the reader has failed since the first check) and gives up *)
  | TAddSenderFail sid a c : lookup (adds s) sid = Some a -> a_pc a = A2 c -> senders_held s = false -> senders s = [] ->
      tstep s (LAddSender sid)
        (with_adds (with_subs (set_chan s c (drop_rcv sid (chan_at s c))) (del (subs s) (a_rule a))) (del (adds s) sid))
  (* fix 3c4a83a4: a stream whose rule (Arc) other clones still hold is dropped: nothing is given back *)
  | TDropShared sid st r a' : live s sid st -> s_rule st = Some r -> release (arcs s) sid = (a', false) ->
      tstep s (LDrop sid) (with_arcs (bury s sid st) a')
  | TDropStartShared sid st r a' : live s sid st -> s_rule st = Some r -> release (arcs s) sid = (a', false) ->
      tstep s (LDropStart sid) (with_arcs (bury s sid st) a').

(* rm_apply leaves everything but subs and (one channel's closed flag) alone *)
Lemma rm_apply_frame s r s1 o : rm_apply s r = (s1, o) ->
  senders s1 = senders s /\ streams s1 = streams s /\ adds s1 = adds s /\ drops s1 = drops s /\ tasks s1 = tasks s /\
  reader s1 = reader s /\ socket s1 = socket s /\ incoming s1 = incoming s /\ dead s1 = dead s /\ arcs s1 = arcs s.
Proof.
  unfold rm_apply. destruct (lookup (subs s) r) as [e|]; [|intros H; inversion H; subst; repeat split].
  destruct (e_ref e) as [|[|n]]; intros H; inversion H; subst; clear H;
    try (destruct (rcv (chan_at (with_subs s (del (subs s) r)) (e_ch e))); repeat split); repeat split.
Qed.

Lemma step_tstep l s s' : step l s = Some s' -> tstep s l s'.
Proof.
  unfold Model.step. destruct l as [it| |todo| | |sid r q|sid|sid|sid|sid|sid|sid|sid sid2|sid n|sid|sid|sid|n|n].
  - intros H; inversion H; constructor.
  - destruct (reader s) eqn:Er; try discriminate. destruct (socket s) as [|[m|e] rest] eqn:Es; try discriminate;
      intros H; inversion H; subst s'; [now apply TReadMsg | now apply TReadFail].
  - destruct (reader s) eqn:Er; try discriminate. destruct (is_perm todo (targets (senders s) it)) eqn:Ep; [|discriminate].
    intros H; inversion H; subst s'. now apply TFan.
  - destruct (reader s) as [| |it [|c todo]|] eqn:Er; try discriminate.
    destruct (try_push it (chan_at s c)) eqn:Ep; try discriminate; intros H; inversion H; subst s'.
    + eapply TPushOk; eauto.
    + eapply TPushSkip; eauto.
    + eapply TPushSkip; eauto.
  - destruct (reader s) as [| |[m|e] [|c todo]|] eqn:Er; try discriminate; intros H; inversion H; subst s'.
    + eapply TNextMsg; eauto.
    + eapply TNextFail; eauto.
  - destruct (fresh s sid) eqn:Ef; [|discriminate]. cbn [andb].
    destruct q as [[|n]|]; try discriminate; intros H; inversion H; subst s'; apply TAddStart; try assumption; discriminate.
  - destruct (lookup (adds s) sid) as [a|] eqn:Ea; [|discriminate]. destruct (a_pc a) eqn:Epc; try discriminate.
    destruct (senders_held s) eqn:Eh; [discriminate|]. destruct (senders s) eqn:Es; intros H; inversion H; subst s'.
    + now eapply TAddCheckFail; eauto.
    + replace {| a_rule := a_rule a; a_q := a_q a; a_pc := A1 |} with (add_at a A1) by reflexivity.
      eapply TAddCheckOk; eauto. rewrite Es. discriminate.
  - destruct (lookup (adds s) sid) as [a|] eqn:Ea; [|discriminate]. destruct (a_pc a) eqn:Epc; try discriminate.
    destruct (subs_busy s) eqn:Eb; [discriminate|]. destruct (lookup (subs s) (a_rule a)) as [e|] eqn:Ee;
      intros H; inversion H; subst s'.
    + exact (TAddSubsOcc s sid a e Ea Epc Eb Ee).
    + exact (TAddSubsVac s sid a Ea Epc Eb Ee).
  - destruct (lookup (adds s) sid) as [a|] eqn:Ea; [|discriminate]. destruct (a_pc a) eqn:Epc; try discriminate.
    destruct (senders_held s) eqn:Eh; [discriminate|]. destruct (senders s) as [|p0 l0] eqn:Esn; intros H; inversion H; subst s'.
    + exact (TAddSenderFail s sid a c Ea Epc Eh Esn).
    + pose proof (TAddSender s sid a c Ea Epc Eh) as T. rewrite Esn in T. apply T. discriminate.
  - destruct (fresh s sid) eqn:Ef; [|discriminate]. intros H; inversion H; subst s'. now apply TUnfiltered.
  - destruct (lookup (streams s) sid) as [st|] eqn:Es; [|discriminate]. destruct (lookup (drops s) sid) eqn:Ed; [discriminate|].
    destruct (try_recv sid (chan_at s (s_ch st))) eqn:Er; try discriminate; intros H; inversion H; subst.
    + eapply TPollGot; [split; eassumption | eassumption].
    + eapply TPollEnd; [split; eassumption | eassumption].
  - destruct (lookup (streams s) sid) as [st|] eqn:Es; [|discriminate]. destruct (lookup (drops s) sid) eqn:Ed; [discriminate|].
    destruct (s_rule st) eqn:Er.
    + destruct (release (arcs s) sid) as [a' [|]] eqn:Erel; intros H; inversion H; subst s'; [eapply TDropRule | eapply TDropShared]; try split; eassumption.
    + intros H; inversion H; subst s'. eapply TDropNone; [split; eassumption | eassumption].
  - destruct (lookup (streams s) sid) as [st|] eqn:Es; [|discriminate]. destruct (lookup (drops s) sid) eqn:Ed; [discriminate|].
    destruct (fresh s sid2) eqn:Ef; [|discriminate]. intros H; inversion H; subst s'. eapply TClone; [split; eassumption | eassumption].
  - destruct (lookup (streams s) sid) as [st|] eqn:Es; [|discriminate]. destruct (lookup (drops s) sid) eqn:Ed; [discriminate|].
    intros H; inversion H; subst s'. eapply TSetCap. split; eassumption.
  - destruct (lookup (streams s) sid) as [st|] eqn:Es; [|discriminate]. destruct (lookup (drops s) sid) eqn:Ed; [discriminate|].
    destruct (s_rule st) eqn:Er.
    + destruct (release (arcs s) sid) as [a' [|]] eqn:Erel; intros H; inversion H; subst s'; [eapply TDropStartRule | eapply TDropStartShared]; try split; eassumption.
    + intros H; inversion H; subst s'. eapply TDropStartNone; [split; eassumption | eassumption].
  - destruct (lookup (streams s) sid) as [st|] eqn:Es; [|discriminate]. destruct (lookup (drops s) sid) as [[|c]|] eqn:Ed; try discriminate.
    destruct (subs_busy s) eqn:Eb; [discriminate|]. destruct (s_rule st) as [r|] eqn:Er; [|discriminate].
    destruct (rm_apply s r) as [s1 [c|]] eqn:Ea; intros H; inversion H; subst s'.
    + eapply TDropSubsWait; eauto.
    + eapply TDropSubsDone; eauto.
  - destruct (lookup (streams s) sid) as [st|] eqn:Es; [|discriminate]. destruct (lookup (drops s) sid) as [[|c]|] eqn:Ed; try discriminate.
    destruct (senders_held s) eqn:Eh; [discriminate|]. destruct (s_rule st) as [r|] eqn:Er; [|discriminate].
    destruct (rm_sender_frame s r) as (_ & _ & _ & _ & Ed' & _). rewrite Ed'. intros H; inversion H; subst s'. eapply TDropSender; eauto.
  - destruct (nth_error (tasks s) n) as [[r [|c]]|] eqn:En; try discriminate. destruct (subs_busy s) eqn:Eb; [discriminate|].
    destruct (rm_apply s r) as [s1 [c|]] eqn:Ea; intros H; inversion H; subst s';
      destruct (rm_apply_frame _ _ _ _ Ea) as (_ & _ & _ & _ & Et & _); rewrite Et.
    + eapply TTaskSubsWait; eauto.
    + eapply TTaskSubsDone; eauto.
  - destruct (nth_error (tasks s) n) as [[r [|c]]|] eqn:En; try discriminate. destruct (senders_held s) eqn:Eh; [discriminate|].
    destruct (rm_sender_frame s r) as (_ & _ & _ & _ & _ & Et' & _). rewrite Et'. intros H; inversion H; subst s'. eapply TTaskSender; eauto.
Qed.

End Steps.

Lemma senders_rm s r : senders (rm_sender s r) = del_key (senders s) (KRule r).  Proof. apply rm_sender_frame. Qed.
Lemma subs_rm s r : subs (rm_sender s r) = subs s.  Proof. apply rm_sender_frame. Qed.
Lemma streams_rm s r : streams (rm_sender s r) = streams s.  Proof. apply rm_sender_frame. Qed.
Lemma adds_rm s r : adds (rm_sender s r) = adds s.  Proof. apply rm_sender_frame. Qed.
Lemma drops_rm s r : drops (rm_sender s r) = drops s.  Proof. apply rm_sender_frame. Qed.
Lemma tasks_rm s r : tasks (rm_sender s r) = tasks s.  Proof. apply rm_sender_frame. Qed.
Lemma reader_rm s r : reader (rm_sender s r) = reader s.  Proof. apply rm_sender_frame. Qed.
Lemma socket_rm s r : socket (rm_sender s r) = socket s.  Proof. apply rm_sender_frame. Qed.
Lemma incoming_rm s r : incoming (rm_sender s r) = incoming s.  Proof. apply rm_sender_frame. Qed.
Lemma dead_rm s r : dead (rm_sender s r) = dead s.  Proof. apply rm_sender_frame. Qed.
Lemma arcs_rm s r : arcs (rm_sender s r) = arcs s.  Proof. apply rm_sender_frame. Qed.
Lemma length_chans_rm s r : length (chans (rm_sender s r)) = length (chans s).  Proof. apply rm_sender_frame. Qed.
#[export] Hint Rewrite senders_rm subs_rm streams_rm adds_rm drops_rm tasks_rm reader_rm socket_rm incoming_rm dead_rm arcs_rm
  length_chans_rm : rms.

Lemma length_close_all s : length (close_all s) = length (chans s).
Proof. unfold close_all. now rewrite map_length, combine_length, seq_length, Nat.min_id. Qed.
