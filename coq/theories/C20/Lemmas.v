(* C20/Lemmas.v — association lists, channel table, permutation test: elementary facts. *)
From ZV Require Import Base.Bytes Base.Res C19.Broadcast C19.BroadcastFacts C20.Model.
From Coq Require Import Lia Permutation.

(* ---- association lists ---- *)
Lemma lookup_del_same {A} (l : list (nat * A)) k : lookup (del l k) k = None.
Proof.
  induction l as [|[i x] l IH]; cbn; [reflexivity|]. destruct (Nat.eqb i k) eqn:E; [exact IH|]. cbn. now rewrite E.
Qed.
Lemma lookup_del_other {A} (l : list (nat * A)) k k' : k' <> k -> lookup (del l k) k' = lookup l k'.
Proof.
  intros Hne. induction l as [|[i x] l IH]; cbn; [reflexivity|]. destruct (Nat.eqb i k) eqn:E.
  - apply Nat.eqb_eq in E. subst i. now replace (Nat.eqb k k') with false by (symmetry; apply Nat.eqb_neq; congruence).
  - cbn. destruct (Nat.eqb i k'); [reflexivity | exact IH].
Qed.
Lemma lookup_app {A} (l1 l2 : list (nat * A)) k :
  lookup (l1 ++ l2) k = match lookup l1 k with Some x => Some x | None => lookup l2 k end.
Proof. induction l1 as [|[i x] l1 IH]; cbn; [reflexivity|]. destruct (Nat.eqb i k); [reflexivity | exact IH]. Qed.
Lemma lookup_put_same {A} (l : list (nat * A)) k x : lookup (put l k x) k = Some x.
Proof. unfold put. rewrite lookup_app, lookup_del_same. cbn. now rewrite Nat.eqb_refl. Qed.
Lemma lookup_put_other {A} (l : list (nat * A)) k k' x : k' <> k -> lookup (put l k x) k' = lookup l k'.
Proof.
  intros Hne. unfold put. rewrite lookup_app, lookup_del_other by assumption. destruct (lookup l k'); [reflexivity|].
  cbn. now replace (Nat.eqb k k') with false by (symmetry; apply Nat.eqb_neq; congruence).
Qed.
Lemma lookup_in {A} (l : list (nat * A)) k x : lookup l k = Some x -> In (k, x) l.
Proof.
  induction l as [|[i y] l IH]; cbn; [discriminate|]. destruct (Nat.eqb i k) eqn:E.
  - intros H; inversion H; subst. apply Nat.eqb_eq in E. subst. now left.
  - intros H. right. now apply IH.
Qed.
Lemma in_del {A} (l : list (nat * A)) k p : In p (del l k) <-> In p l /\ fst p <> k.
Proof.
  induction l as [|[i y] l IH]; cbn; [tauto|]. destruct (Nat.eqb i k) eqn:E.
  - apply Nat.eqb_eq in E. subst i. rewrite IH. split; [tauto|]. intros [[H|H] Hne]; [subst p; cbn in Hne; congruence | tauto].
  - apply Nat.eqb_neq in E. cbn. rewrite IH. split; [intros [H|H]; [subst p; cbn; tauto | tauto] | tauto].
Qed.
Lemma in_put {A} (l : list (nat * A)) k x p : In p (put l k x) <-> (In p l /\ fst p <> k) \/ p = (k, x).
Proof. unfold put. rewrite in_app_iff, in_del. cbn. intuition. Qed.

(* ---- lists ---- *)
Lemma nth_error_upd_same {A} (l : list A) i x y : nth_error l i = Some y -> nth_error (upd l i x) i = Some x.
Proof. revert i; induction l as [|a l IH]; intros [|i] H; cbn in *; try discriminate; [reflexivity | now apply IH]. Qed.
Lemma nth_error_upd_other {A} (l : list A) i j x : j <> i -> nth_error (upd l i x) j = nth_error l j.
Proof. revert i j; induction l as [|a l IH]; intros [|i] [|j] H; cbn; try reflexivity; try lia. apply IH. lia. Qed.
Lemma length_upd {A} (l : list A) i x : length (upd l i x) = length l.
Proof. revert i; induction l as [|a l IH]; intros [|i]; cbn; try reflexivity. now rewrite IH. Qed.
Lemma nth_upd_same {A} (l : list A) i x d : i < length l -> nth i (upd l i x) d = x.
Proof. revert i; induction l as [|a l IH]; intros [|i] H; cbn in *; try lia; [reflexivity | apply IH; lia]. Qed.
Lemma nth_upd_other {A} (l : list A) i j x d : j <> i -> nth j (upd l i x) d = nth j l d.
Proof. revert i j; induction l as [|a l IH]; intros [|i] [|j] H; cbn; try reflexivity; try lia. apply IH. lia. Qed.
Lemma in_del_nth {A} (l : list A) n x : In x (del_nth l n) -> In x l.
Proof.
  revert n; induction l as [|a l IH]; intros [|n]; cbn; try tauto.
  intros [H|H]; [left; exact H | right; eapply IH; eassumption].
Qed.
Lemma in_upd {A} (l : list A) n x y : In y (upd l n x) -> y = x \/ In y l.
Proof.
  revert n; induction l as [|a l IH]; intros [|n]; cbn; try tauto.
  - intros [H|H]; [left; now symmetry | right; right; exact H].
  - intros [H|H]; [right; left; exact H | destruct (IH _ H) as [E|E]; [left; exact E | right; right; exact E]].
Qed.
Lemma in_upd_keep {A} (l : list A) n x y z : nth_error l n = Some z -> In y l -> y <> z -> In y (upd l n x).
Proof.
  revert n; induction l as [|a l IH]; intros [|n] Hn Hin Hne; cbn in *; try discriminate.
  - inversion Hn; subst. destruct Hin; [congruence | tauto].
  - destruct Hin; [tauto | right; eapply IH; eassumption].
Qed.
Lemma in_del_nth_keep {A} (l : list A) n y z : nth_error l n = Some z -> In y l -> y <> z -> In y (del_nth l n).
Proof.
  revert n; induction l as [|a l IH]; intros [|n] Hn Hin Hne; cbn in *; try discriminate.
  - inversion Hn; subst. destruct Hin; [congruence | tauto].
  - destruct Hin; [tauto | right; eapply IH; eassumption].
Qed.

(* ---- the channel table ---- *)
Lemma chan_at_set_same s c x : c < length (chans s) -> chan_at (set_chan s c x) c = x.
Proof. intros H. unfold chan_at, set_chan. cbn. now apply nth_upd_same. Qed.
Lemma chan_at_set_other s c c' x : c' <> c -> chan_at (set_chan s c x) c' = chan_at s c'.
Proof. intros H. unfold chan_at, set_chan. cbn. now apply nth_upd_other. Qed.
Lemma length_set_chan s c x : length (chans (set_chan s c x)) = length (chans s).
Proof. unfold set_chan. cbn. apply length_upd. Qed.
Lemma chan_at_app_old s x c : c < length (chans s) -> chan_at (with_chans s (chans s ++ [x])) c = chan_at s c.
Proof. intros H. unfold chan_at. cbn. now rewrite app_nth1. Qed.
Lemma chan_at_app_new s x : chan_at (with_chans s (chans s ++ [x])) (length (chans s)) = x.
Proof. unfold chan_at. cbn. rewrite app_nth2 by lia. now rewrite Nat.sub_diag. Qed.

Lemma mem_nat_in x l : mem_nat x l = true <-> In x l.
Proof.
  unfold mem_nat. rewrite existsb_exists. split.
  - intros (y & Hin & E). apply Nat.eqb_eq in E. now subst.
  - intros H. exists x. split; [assumption | apply Nat.eqb_refl].
Qed.

(* close_all: a channel that some sender points to is closed, the others stay; nothing else changes *)
Lemma nth_map_combine_seq {A B} (f : nat * A -> B) (l : list A) c d d' :
  c < length l -> nth c (map f (combine (seq 0 (length l)) l)) d' = f (c, nth c l d).
Proof.
  intros H. assert (G : forall (l : list A) k c, c < length l -> nth c (map f (combine (seq k (length l)) l)) d' = f (k + c, nth c l d)).
  { clear. induction l as [|a l IH]; intros k c H; cbn in *; [lia|]. destruct c as [|c]; [now rewrite Nat.add_0_r|].
    rewrite IH by lia. f_equal. f_equal. lia. }
  now rewrite G.
Qed.

(* ---- is_perm ---- *)
Lemma remove_one_perm x l l' : remove_one x l = Some l' -> Permutation l (x :: l').
Proof.
  revert l'; induction l as [|y l IH]; intros l' H; cbn in H; [discriminate|]. destruct (Nat.eqb x y) eqn:E.
  - apply Nat.eqb_eq in E. inversion H; subst. reflexivity.
  - destruct (remove_one x l) as [r|]; [|discriminate]. inversion H; subst. rewrite (IH r eq_refl). apply perm_swap.
Qed.
Lemma is_perm_spec a : forall b, is_perm a b = true -> Permutation a b.
Proof.
  induction a as [|x a IH]; intros b H; cbn in H.
  - destruct b; [constructor | discriminate].
  - destruct (remove_one x b) as [b'|] eqn:E; [|discriminate]. apply remove_one_perm in E. rewrite E. constructor. now apply IH.
Qed.

Lemma NoDup_app_one {A} (l : list A) x : NoDup l -> ~ In x l -> NoDup (l ++ [x]).
Proof.
  induction 1 as [|y l Hy Hl IH]; intros Hx; cbn.
  - constructor; [tauto | constructor].
  - constructor.
    + rewrite in_app_iff. cbn. intros [H|[H|[]]]; [tauto | subst; apply Hx; now left].
    + apply IH. intros H. apply Hx. now right.
Qed.

(* ---- senders table ---- *)
Lemma key_eqb_eq a b : key_eqb a b = true <-> a = b.
Proof.
  destruct a, b; cbn; try (split; [discriminate | congruence]); try tauto.
  rewrite Nat.eqb_eq. split; congruence.
Qed.
Lemma in_del_key l k p : In p (del_key l k) <-> In p l /\ fst p <> k.
Proof.
  unfold del_key. rewrite filter_In. split; intros [H1 H2]; split; try assumption.
  - intros E. rewrite <- key_eqb_eq in E. now rewrite E in H2.
  - destruct (key_eqb (fst p) k) eqn:E; [apply key_eqb_eq in E; congruence | reflexivity].
Qed.
Lemma nodup_del_key l k : NoDup (map fst l) -> NoDup (map fst (del_key l k)).
Proof.
  unfold del_key. induction l as [|[k' c] l IH]; cbn; intros H; [constructor|]. inversion H; subst.
  destruct (negb (key_eqb k' k)); [|now apply IH]. cbn. constructor; [|now apply IH].
  intros Hin. apply H2. apply in_map_iff in Hin. destruct Hin as (p & E & Hp). apply filter_In in Hp. apply in_map_iff. exists p. tauto.
Qed.


(* chan_at only looks at the channel table *)
Lemma chan_at_with_senders s x c : chan_at (with_senders s x) c = chan_at s c.  Proof. reflexivity. Qed.
Lemma chan_at_with_subs s x c : chan_at (with_subs s x) c = chan_at s c.  Proof. reflexivity. Qed.
Lemma chan_at_with_streams s x c : chan_at (with_streams s x) c = chan_at s c.  Proof. reflexivity. Qed.
Lemma chan_at_with_adds s x c : chan_at (with_adds s x) c = chan_at s c.  Proof. reflexivity. Qed.
Lemma chan_at_with_drops s x c : chan_at (with_drops s x) c = chan_at s c.  Proof. reflexivity. Qed.
Lemma chan_at_with_tasks s x c : chan_at (with_tasks s x) c = chan_at s c.  Proof. reflexivity. Qed.
Lemma chan_at_with_reader s x c : chan_at (with_reader s x) c = chan_at s c.  Proof. reflexivity. Qed.
Lemma chan_at_with_socket s x c : chan_at (with_socket s x) c = chan_at s c.  Proof. reflexivity. Qed.
Lemma chan_at_with_incoming s x c : chan_at (with_incoming s x) c = chan_at s c.  Proof. reflexivity. Qed.
Lemma chan_at_with_dead s x c : chan_at (with_dead s x) c = chan_at s c.  Proof. reflexivity. Qed.
Lemma chan_at_with_arcs s x c : chan_at (with_arcs s x) c = chan_at s c.  Proof. reflexivity. Qed.
Lemma chan_at_bury s sid st c : chan_at (bury s sid st) c = chan_at (set_chan s (s_ch st) (drop_rcv sid (chan_at s (s_ch st)))) c.
Proof. reflexivity. Qed.
#[export] Hint Rewrite chan_at_with_senders chan_at_with_subs chan_at_with_streams chan_at_with_adds chan_at_with_drops
  chan_at_with_tasks chan_at_with_reader chan_at_with_socket chan_at_with_incoming chan_at_with_dead chan_at_with_arcs
  chan_at_bury : chat.

Lemma chans_bury s sid st : chans (bury s sid st) = upd (chans s) (s_ch st) (drop_rcv sid (chan_at s (s_ch st))).
Proof. reflexivity. Qed.
Lemma streams_bury s sid st : streams (bury s sid st) = del (streams s) sid.  Proof. reflexivity. Qed.
Lemma adds_bury s sid st : adds (bury s sid st) = adds s.  Proof. reflexivity. Qed.

Lemma in_del_lookup {A} (l : list (nat * A)) k k' x : lookup (del l k) k' = Some x -> lookup l k' = Some x.
Proof.
  destruct (Nat.eq_dec k' k) as [->|Hne]; [now rewrite lookup_del_same | now rewrite lookup_del_other].
Qed.
