(* C20/Spec.v — "message streams deliver every matching message once, in order; equal rules share one subscription that
   stays registered until the last stream is dropped", stated on what can be SEEN of a run (the recorded history of a case).
   Nothing here refers to the model of the code (Model.step).

   Time is the position in the history, with the events of one run of the socket reader kept in their order: the reader takes
   message k from the socket (read k), later asks for the next one (which shows that k has been handed to every channel it had
   to go to: decided k).  For a stream s created at time c(s) and dropped at d(s) (or alive at the end), message k is
     forbidden   if k was decided before c(s) (or was sent after the connection had failed);
     optional    if k was read before c(s) but not decided before c(s)     (it was under way while s subscribed);
     mandatory   otherwise: read after c(s), or sent and never read.
   The statement for s with rule r, Y(s) = the messages s yielded, in order:
     Y(s) = filter (matches r) [k_a, k_a+1, ...]  for some first message k_a that is not forbidden and not later than the first
     mandatory one; cut short where s was dropped; complete (up to the last message sent before a failure) if s is alive at
     the end of the drained history.   "Once" and "in order" are part of the equation.
   Sharing, at the end of a drained history: the subscription table has exactly one entry per rule that still has a live
   stream, its reference count is the number of those streams (a stream and its clones counting once), and msg_senders has an entry for exactly those rules. *)
From ZV Require Import Base.Bytes Base.Res.

(* ---- the case ---- *)
Record rspec := { r_iface : nat; r_member : nat }.       (* 0 = any, else the interface / member number *)
Inductive mkind := MSignal (iface member : nat) | MReturn | MCall.

(* the specification's own matcher for the rules the cases use: type='signal'[,interface=..][,member=..] *)
Definition spec_matches (r : rspec) (m : mkind) : bool :=
  match m with
  | MSignal i mm => (Nat.eqb (r_iface r) 0 || Nat.eqb (r_iface r) i) && (Nat.eqb (r_member r) 0 || Nat.eqb (r_member r) mm)
  | _ => false
  end.

(* ---- the recorded history ---- *)
Record cinfo := { ci_q : nat; ci_cap : nat; ci_n : nat; ci_closed : bool }.
Inductive skey := SAll | SRet | SErr | SRule (j : nat).
Record snap := {
  sn_senders : option (list (skey * cinfo));          (* None = locked *)
  sn_subs : option (list (nat * nat * cinfo));        (* rule, refcount, channel; None = locked *)
  sn_unf : cinfo
}.
Inductive rdev := RvItem (k : nat) | RvEof | RvErr | RvWait.
Inductive ares := AOk (capacity : nat) | APending | AErr | ASkip.
Inductive pres := PItem (k : nat) | PPending | PEnd | PErr | PSkip.
Inductive oev :=
  | OAdd (s j : nat) (q : option nat) (r : ares)     (* A *)
  | OAddPoll (s : nat) (r : ares)                    (* a *)
  | OUnf (s : nat) (r : ares)                        (* U *)
  | OPoll (s : nat) (r : pres)                       (* p *)
  | ODrop (s : nat) (ok : bool)                      (* d *)
  | OADrop (s : nat) (r : ares)                      (* x: AOk _ = completed, APending, ASkip *)
  | OADropPoll (s : nat) (r : ares)                  (* y *)
  | OClone (s s2 : nat) (ok : bool)                  (* c *)
  | OSetCap (s n : nat) (r : ares)                   (* q *)
  | OTick (ran : bool) (rs : list rdev)              (* t *)
  | OMsg (m : mkind) (k : nat) (hits : list nat)     (* M..: item number, rules the real MatchRule::matches accepts *)
  | OFail (eof : bool).                              (* E / X *)
Record oline := { o_ev : oev; o_snap : snap }.

(* ---- atoms: the history with reader runs spread out ---- *)
Inductive atom :=
  | TCreate (s : nat) (rule : option nat) | TCloneOf (s s2 : nat) | TGone (s : nat) | TYield (s k : nat) | TYieldErr (s : nat)
  | TSent (k : nat) (m : mkind) | TFailSent | TRead (k : nat) | TAsk | TFailRead | TOther.

(* which rule a pending creation is for *)
Definition atoms_of (pend : list (nat * nat)) (e : oev) : list atom * list (nat * nat) :=
  let rule_of s := match find (fun p => Nat.eqb (fst p) s) pend with Some p => Some (snd p) | None => None end in
  match e with
  | OAdd s j _ (AOk _) => ([TCreate s (Some j)], pend)
  | OAdd s j _ APending => ([TOther], (s, j) :: pend)
  | OAddPoll s (AOk _) => ([TCreate s (rule_of s)], pend)
  | OUnf s (AOk _) => ([TCreate s None], pend)
  | OPoll s (PItem k) => ([TYield s k], pend)
  | OPoll s PErr => ([TYieldErr s], pend)
  | ODrop s true => ([TGone s], pend)
  | OADrop s (AOk _) | OADrop s APending => ([TGone s], pend)
  | OClone s s2 true => ([TCloneOf s s2], pend)
  | OTick _ rs => (map (fun r => match r with RvItem k => TRead k | RvWait => TAsk | RvEof | RvErr => TFailRead end) rs, pend)
  | OMsg m k _ => ([TSent k m], pend)
  | OFail _ => ([TFailSent], pend)
  | _ => ([TOther], pend)
  end.

Fixpoint flatten (pend : list (nat * nat)) (h : list oev) : list atom :=
  match h with
  | [] => []
  | e :: r => let (a, pend') := atoms_of pend e in a ++ flatten pend' r
  end.

Fixpoint index_where (f : atom -> bool) (n : nat) (l : list atom) : option nat :=
  match l with
  | [] => None
  | a :: r => if f a then Some n else index_where f (S n) r
  end.

Definition is_create (s : nat) (a : atom) : bool :=
  match a with TCreate s' _ => Nat.eqb s s' | TCloneOf _ s' => Nat.eqb s s' | _ => false end.
Definition is_gone (s : nat) (a : atom) : bool := match a with TGone s' => Nat.eqb s s' | _ => false end.
Definition is_sent (k : nat) (a : atom) : bool := match a with TSent k' _ => Nat.eqb k k' | _ => false end.
Definition is_read (k : nat) (a : atom) : bool := match a with TRead k' => Nat.eqb k k' | _ => false end.
Definition is_reader_atom (a : atom) : bool := match a with TRead _ | TAsk | TFailRead => true | _ => false end.
Definition is_failsent (a : atom) : bool := match a with TFailSent => true | _ => false end.

(* position at which message k was decided: the first reader atom after its read *)
Definition decided_at (l : list atom) (k : nat) : option nat :=
  match index_where (is_read k) 0 l with
  | None => None
  | Some i => match index_where is_reader_atom (S i) (skipn (S i) l) with Some j => Some j | None => None end
  end.

Definition lt_opt (a : option nat) (b : nat) : bool := match a with Some x => Nat.ltb x b | None => false end.

(* the messages sent before the connection failed, in order: (k, kind) *)
Fixpoint sent_msgs (l : list atom) : list (nat * mkind) :=
  match l with
  | [] => []
  | TFailSent :: _ => []
  | TSent k m :: r => (k, m) :: sent_msgs r
  | _ :: r => sent_msgs r
  end.

Fixpoint yields_of (s : nat) (l : list atom) : list nat :=
  match l with
  | [] => []
  | TYield s' k :: r => if Nat.eqb s s' then k :: yields_of s r else yields_of s r
  | _ :: r => yields_of s r
  end.

Fixpoint nat_list_eqb (a b : list nat) : bool :=
  match a, b with
  | [], [] => true
  | x :: a', y :: b' => Nat.eqb x y && nat_list_eqb a' b'
  | _, _ => false
  end.
Fixpoint is_prefix_nat (a b : list nat) : bool :=
  match a, b with
  | [], _ => true
  | x :: a', y :: b' => Nat.eqb x y && is_prefix_nat a' b'
  | _ :: _, [] => false
  end.

Inductive cls := Forbidden | Optional | Mandatory.

(* for every message that was read: (k, position of its read, position at which it was decided) — computed once *)
Fixpoint read_table (n : nat) (l : list atom) (open_k : option (nat * nat)) : list (nat * nat * option nat) :=
  match l with
  | [] => match open_k with Some (k, i) => [(k, i, None)] | None => [] end
  | a :: r =>
      if is_reader_atom a then
        let closed_entry := match open_k with Some (k, i) => [(k, i, Some n)] | None => [] end in
        closed_entry ++ read_table (S n) r (match a with TRead k => Some (k, n) | _ => None end)
      else read_table (S n) r open_k
  end.

(* classification of message k for a stream that subscribed at position c *)
Definition classify (tbl : list (nat * nat * option nat)) (c : nat) (k : nat) : cls :=
  match find (fun e => Nat.eqb (fst (fst e)) k) tbl with
  | None => Mandatory                                   (* sent, never read *)
  | Some e => if lt_opt (snd e) c then Forbidden
              else if Nat.ltb (snd (fst e)) c then Optional
              else Mandatory
  end.

(* candidates for Y(s): for every admissible first message, the matching messages from there on *)
Fixpoint candidates (mt : nat * mkind -> bool) (cl : nat -> cls) (ms : list (nat * mkind)) : list (list nat) :=
  match ms with
  | [] => [[]]
  | (k, m) :: r =>
      let from_here := map fst (filter mt ((k, m) :: r)) in
      match cl k with
      | Forbidden => candidates mt cl r
      | Optional => from_here :: candidates mt cl r
      | Mandatory => [from_here]
      end
  end.

Fixpoint count_yields_before (s : nat) (n : nat) (l : list atom) : nat :=
  match n, l with
  | O, _ | _, [] => 0
  | S n', TYield s' _ :: r => (if Nat.eqb s s' then 1 else 0) + count_yields_before s n' r
  | S n', _ :: r => count_yields_before s n' r
  end.

(* a stream: id, rule, the position at which it (or the stream it was cloned from) subscribed, how many messages its
   ancestors had already taken when it was cloned off *)
Record sinfo := { si_id : nat; si_rule : option nat; si_c : nat; si_skip : nat; si_root : nat }.   (* root: the stream it descends from by cloning *)

Definition stream_ok (rules : list rspec) (l : list atom) (tbl : list (nat * nat * option nat)) (ms : list (nat * mkind))
                     (si : sinfo) : bytes :=
  let s := si_id si in
  let d := index_where (is_gone s) 0 l in
  let mt (p : nat * mkind) := match si_rule si with
                              | None => true
                              | Some j => match nth_error rules j with Some r => spec_matches r (snd p) | None => false end
                              end in
  let y := yields_of s l in
  let cands := map (skipn (si_skip si)) (candidates mt (classify tbl (si_c si)) ms) in
  match d with
  | None => if existsb (nat_list_eqb y) cands then B "OK"
            else B "a-live-stream-did-not-yield-exactly-the-matching-messages-since-it-subscribed"
  | Some _ =>
      (* dropped: what it yielded is the beginning of what it would have yielded *)
      if existsb (is_prefix_nat y) cands then B "OK"
      else B "a-dropped-stream-yielded-something-else-than-a-prefix-of-its-matching-messages"
  end.

Fixpoint creations (all : list atom) (l : list atom) (n : nat) (known : list sinfo) : list sinfo :=
  match l with
  | [] => []
  | TCreate s r :: rest =>
      let si := {| si_id := s; si_rule := r; si_c := n; si_skip := 0; si_root := s |} in si :: creations all rest (S n) (si :: known)
  | TCloneOf s s2 :: rest =>
      match find (fun x => Nat.eqb (si_id x) s) known with
      | Some x =>
          let si := {| si_id := s2; si_rule := si_rule x; si_c := si_c x;
                       si_skip := si_skip x + count_yields_before s n all; si_root := si_root x |} in
          si :: creations all rest (S n) (si :: known)
      | None => creations all rest (S n) known
      end
  | _ :: rest => creations all rest (S n) known
  end.

(* ---- sharing, judged on the last snapshot ---- *)
Definition count_live (l : list atom) (cr : list sinfo) (canon : nat -> nat) (j : nat) : nat :=
  length (filter (fun x => match si_rule x with
                           | Some j' => Nat.eqb (canon j') j && match index_where (is_gone (si_id x)) 0 l with None => true | Some _ => false end
                           | None => false
                           end) cr).

(* a stream and its clones share ONE reference (fix 3c4a83a4): the families with a live member *)
Fixpoint nodup_nat (l : list nat) : list nat :=
  match l with [] => [] | x :: r => if existsb (Nat.eqb x) r then nodup_nat r else x :: nodup_nat r end.
Definition count_families (l : list atom) (cr : list sinfo) (canon : nat -> nat) (j : nat) : nat :=
  length (nodup_nat (map si_root (filter (fun x => match si_rule x with
                           | Some j' => Nat.eqb (canon j') j && match index_where (is_gone (si_id x)) 0 l with None => true | Some _ => false end
                           | None => false
                           end) cr))).

Definition table_ok (nrules : nat) (l : list atom) (cr : list sinfo) (canon : nat -> nat) (failed : bool) (last : snap) : bytes :=
  match sn_subs last with
  | None => B "subscriptions-still-locked-at-the-end"
  | Some subs =>
      let want j := count_live l cr canon j in
      let ok_entry (e : nat * nat * cinfo) :=
        negb (Nat.eqb (want (fst (fst e))) 0) && negb (Nat.eqb (snd (fst e)) 0) &&
        Nat.eqb (snd (fst e)) (count_families l cr canon (fst (fst e))) in
      let all_present := forallb (fun j => Nat.eqb (want j) 0 || negb (Nat.eqb (canon j) j) ||
                                          existsb (fun e => Nat.eqb (fst (fst e)) j) subs) (seq 0 nrules) in
      if negb (forallb ok_entry subs) then B "a-subscription-without-live-stream-or-a-reference-count-that-is-not-the-number-of-live-stream-families"
      else if negb all_present then B "a-rule-with-a-live-stream-has-no-subscription"
      else match sn_senders last with
           | None => B "msg_senders-still-locked-at-the-end"
           | Some snd_l =>
               if failed then B "OK"
               else if forallb (fun j => negb (Nat.eqb (canon j) j) ||
                                         Bool.eqb (existsb (fun p => match fst p with SRule j' => Nat.eqb j j' | _ => false end) snd_l)
                                                  (negb (Nat.eqb (want j) 0))) (seq 0 nrules)
               then B "OK" else B "msg_senders-does-not-have-exactly-the-rules-with-live-streams"
           end
  end.

Fixpoint first_bad (l : list bytes) : bytes :=
  match l with
  | [] => B "OK"
  | x :: r => if lbeq x (B "OK") then first_bad r else x
  end.

Definition spec_check (rules : list rspec) (canon : nat -> nat) (h : list oline) : bytes :=
  let l := flatten [] (map o_ev h) in
  let cr := creations l l 0 [] in
  let per_stream := map (stream_ok rules l (read_table 0 l None) (sent_msgs l)) cr in
  let failed := existsb (fun a => match a with TFailRead => true | _ => false end) l in
  let tbl := match rev h with
             | last :: _ => table_ok (length rules) l cr canon failed (o_snap last)
             | [] => B "OK"
             end in
  first_bad (per_stream ++ [tbl]).
