(* C39/RunFacts.v — the op-by-op replay of Run.v only takes steps of the model: its final state is reachable. *)
From ZV Require Import Base.Bytes Base.Res C39.Model C39.Spec C39.Run.

Definition reachable_from (s s' : st) : Prop := exists tr, Model.run tr s = Some s'.

Lemma rf_refl s : reachable_from s s.
Proof. now exists []. Qed.
Lemma rf_trans a b c : reachable_from a b -> reachable_from b c -> reachable_from a c.
Proof.
  intros [t1 H1] [t2 H2]. exists (t1 ++ t2). revert a H1. induction t1 as [|l t1 IH]; intros a H1; cbn [Model.run app] in *.
  - inversion H1; subst. exact H2.
  - destruct (step l a) as [a1|]; [|discriminate]. now apply IH.
Qed.
Lemma rf_try l s : reachable_from s (try_step l s).
Proof. unfold try_step. destruct (step l s) as [s1|] eqn:E; [|apply rf_refl]. exists [l]. cbn. now rewrite E. Qed.

Lemma quiesce_reach rel : forall fuel s, reachable_from s (quiesce fuel rel s).
Proof.
  induction fuel as [|f IH]; intros s; cbn [quiesce]; [apply rf_refl|].
  destruct (removers s); [destruct (queued s)|].
  - destruct (zombies s); [|eapply rf_trans; [apply rf_try | apply IH]].
    destruct (find (fun k => mem_n k rel) (inflight s)) as [k|]; [eapply rf_trans; [apply rf_try | apply IH]|].
    destruct (alive s); [apply rf_refl|]. destruct (waiters s); [|eapply rf_trans; [apply rf_try | apply IH]].
    destruct (reader s); [eapply rf_trans; [apply rf_try | apply IH] | apply rf_refl].
  - eapply rf_trans; [apply rf_try | apply IH].
  - eapply rf_trans; [apply rf_try | apply IH].
Qed.

Lemma apply_op_reach o rel s : reachable_from s (snd (apply_op o rel s)).
Proof.
  destruct o as [n src k| | | | | | | |]; cbn; try apply rf_try; try apply rf_refl.
  destruct k as [| | |[| | |]| |]; cbn; try apply rf_try.
  eapply rf_trans; [apply rf_try | eapply rf_trans; apply rf_try].
Qed.

Theorem model_snaps_reach : forall ops rel gs s, reachable_from s (snd (model_snaps ops rel gs s)).
Proof.
  induction ops as [|o ops IH]; intros rel gs s; cbn [model_snaps]; [apply rf_refl|].
  destruct (apply_op o rel s) as [rel' s1] eqn:E. 
  destruct (model_snaps ops rel' _ (quiesce fuel0 rel' s1)) as [rest sf] eqn:E2. cbn [snd].
  eapply rf_trans; [|eapply rf_trans; [apply quiesce_reach|]].
  - pose proof (apply_op_reach o rel s) as H. rewrite E in H. exact H.
  - pose proof (IH rel' (match o with OGraceful n => if Nat.eqb (length (waiters s1)) (length (waiters s)) then gs else gs ++ [n] | _ => gs end)
                 (quiesce fuel0 rel' s1)) as H. rewrite E2 in H. exact H.
Qed.
