(* C39/Proofs.v — the transport closes exactly when the last strong reference goes; replies before, wake-ups after. *)
From ZV Require Import Base.Bytes Base.Res C39.Model C39.Spec.
From Coq Require Import Lia.

(* ---------------------------------------------------------------- list facts *)
Lemma weight_pos k : 1 <= weight k.
Proof. destruct k; cbn; lia. Qed.
Lemma lookup_remove_len n l k : lookup n l = Some k -> sumw (remove_h n l) + weight k = sumw l.
Proof.
  induction l as [|[m k'] l IH]; cbn; [discriminate|]. destruct (Nat.eqb n m); [intros H; inversion H; subst; lia|].
  intros H. cbn. specialize (IH H). lia.
Qed.
Lemma lookup_set_len n l k k' : lookup n l = Some k -> sumw (set_h n k' l) + weight k = sumw l + weight k'.
Proof.
  induction l as [|[m k0] l IH]; cbn; [discriminate|]. destruct (Nat.eqb n m); [intros H; inversion H; subst; cbn; lia|].
  intros H. cbn. specialize (IH H). lia.
Qed.
Lemma lookup_set_pos n l k k' : lookup n l = Some k -> 0 < sumw (set_h n k' l).
Proof.
  destruct l as [|[m k0] l]; cbn; [discriminate|]. intros _. destruct (Nat.eqb n m); cbn; [pose proof (weight_pos k') | pose proof (weight_pos k0)]; lia.
Qed.
Lemma lookup_some_len n l k : lookup n l = Some k -> 0 < sumw l.
Proof. destruct l as [|[m k'] l]; cbn; [discriminate|]. intros _. pose proof (weight_pos k'). lia. Qed.
Lemma sumw_zero l : sumw l = 0 -> l = [].
Proof. destruct l as [|[m k] l]; [reflexivity|]. cbn. pose proof (weight_pos k). lia. Qed.
Lemma mem_remove_len n l : mem_n n l = true -> length (remove_n n l) + 1 = length l.
Proof.
  unfold mem_n. induction l as [|m l IH]; cbn; [discriminate|]. destruct (Nat.eqb n m); cbn; [lia|]. intros H. specialize (IH H). lia.
Qed.
Lemma sumn_snoc l x : sumn (l ++ [x]) = sumn l + x.
Proof. induction l as [|y l IH]; cbn; lia. Qed.
Lemma zombies_zero l : forallb (Nat.leb 1) l = true -> sumn l = 0 -> l = [].
Proof.
  destruct l as [|x l]; [reflexivity|]. cbn [forallb sumn]. intros H. apply Bool.andb_true_iff in H. destruct H as [H _]. apply Nat.leb_le in H. lia.
Qed.

(* ---------------------------------------------------------------- the reference count and the transport *)
Definition closed_after (ev : list event) (b : bool) : bool := b || existsb is_closed ev.

Definition late_ok (e : event) (closed : bool) : bool :=
  match e with EClosed | EReply _ | ECloseCall => negb closed | EWake _ | EReadDrop => closed end.

Lemma ordered_b_snoc ev e : forall b, ordered_b (ev ++ [e]) b = ordered_b ev b && late_ok e (closed_after ev b).
Proof.
  unfold closed_after. induction ev as [|x ev IH]; intros b.
  - cbn. destruct e, b; reflexivity.
  - destruct x; cbn [app ordered_b existsb is_closed]; rewrite IH; destruct b; cbn; try reflexivity;
      try (now rewrite Bool.andb_false_r); try (now rewrite Bool.orb_true_r; destruct (ordered_b ev true)); auto.
Qed.

Lemma closed_after_snoc ev e b : closed_after (ev ++ [e]) b = closed_after ev b || is_closed e.
Proof. unfold closed_after. rewrite existsb_app. cbn. now rewrite Bool.orb_false_r, Bool.orb_assoc. Qed.

Definition Inv (s : st) : Prop :=
  (alive s = true -> 0 < strong s) /\ (alive s = false -> strong s = 0) /\
  ordered_b (events s) false = true /\ closed_after (events s) false = negb (alive s).

Lemma Inv_settle s : (alive s = false -> strong s = 0) -> ordered_b (events s) false = true ->
  closed_after (events s) false = negb (alive s) -> Inv (settle s).
Proof.
  intros Hd Ho Hc. unfold settle. destruct (alive s) eqn:Ea; cbn [andb].
  - destruct (Nat.eqb (strong s) 0) eqn:E0.
    + apply Nat.eqb_eq in E0. unfold Inv. cbn [alive events handles removers inflight strong].
      split; [discriminate|]. split; [intros _; exact E0|]. split.
      * rewrite ordered_b_snoc, Ho, Hc. reflexivity.
      * rewrite closed_after_snoc, Hc. reflexivity.
    + apply Nat.eqb_neq in E0. unfold Inv. rewrite Ea. repeat split; try assumption; try discriminate. intros _. lia.
  - unfold Inv. rewrite Ea. repeat split; try assumption; try discriminate.
Qed.

(* a cancelled cache task still holds at least one reference *)
Definition Zpos (s : st) : Prop := forallb (Nat.leb 1) (zombies s) = true.

Lemma Zpos_settle s : Zpos s -> Zpos (settle s).
Proof. unfold settle, Zpos. destruct (alive s && Nat.eqb (strong s) 0); auto. Qed.

Lemma Zpos_step l s s' : Zpos s -> step l s = Some s' -> Zpos s'.
Proof.
  intros Hz Hs. destruct l as [n src k|n|n|n|n| | |k| |k|n|n|n|]; cbn [step] in Hs.
  - destruct (source_ok (lookup src (handles s)) k && negb (match lookup n (handles s) with Some _ => true | None => false end)); [|discriminate].
    inversion Hs; subst. exact Hz.
  - destruct (lookup n (handles s)) as [[| |r|c| |]|]; try discriminate; inversion Hs; subst; apply Zpos_settle; unfold Zpos in *; cbn [zombies upd upd_z]; try exact Hz.
    destruct c; cbn [started cw]; try exact Hz; rewrite forallb_app, Hz; reflexivity.
  - destruct (lookup n (handles s)) as [k|]; [|discriminate].
    destruct (leaves_remover k || match k with HStreamAll => true | _ => false end); [|discriminate]. inversion Hs; subst. apply Zpos_settle. exact Hz.
  - destruct (lookup n (handles s)) as [[| | |[| | |]| |]|]; try discriminate. inversion Hs; subst. exact Hz.
  - destruct (lookup n (handles s)) as [[| | |[| | |]| |]|]; try discriminate. inversion Hs; subst. exact Hz.
  - destruct (zombies s) as [|w z] eqn:Ez; [discriminate|]. inversion Hs; subst. apply Zpos_settle. unfold Zpos in *. cbn. rewrite Ez in Hz.
    cbn in Hz. apply Bool.andb_true_iff in Hz. tauto.
  - destruct (removers s); [discriminate|]. inversion Hs; subst. apply Zpos_settle. exact Hz.
  - destruct (reader s && alive s); [|discriminate]. inversion Hs; subst. exact Hz.
  - destruct (queued s); [discriminate|]. destruct (alive s); inversion Hs; subst; exact Hz.
  - destruct (mem_n k (inflight s)); [|discriminate]. inversion Hs; subst. apply Zpos_settle. exact Hz.
  - destruct (lookup n (handles s)) as [[| | | | |]|]; try discriminate. inversion Hs; subst. apply Zpos_settle. exact Hz.
  - destruct (lookup n (handles s)) as [[| | | | |]|]; try discriminate. inversion Hs; subst. apply Zpos_settle. exact Hz.
  - destruct (mem_n n (waiters s) && negb (alive s)); [|discriminate]. inversion Hs; subst. exact Hz.
  - destruct (reader s && negb (alive s)); [|discriminate]. inversion Hs; subst. exact Hz.
Qed.

Lemma Inv_step l s s' : Zpos s -> Inv s -> step l s = Some s' -> Inv s'.
Proof.
  intros Hz (Ha & Hd & Ho & Hc) Hs. destruct l as [n src k|n|n|n|n| | |k| |k|n|n|n|]; cbn [step] in Hs.
  - (* LNew *)
    destruct (source_ok (lookup src (handles s)) k && negb (match lookup n (handles s) with Some _ => true | None => false end)) eqn:E; [|discriminate].
    inversion Hs; subst; clear Hs. apply Bool.andb_true_iff in E. destruct E as [E _].
    assert (Hlive : 0 < sumw (handles s)).
    { destruct (lookup src (handles s)) eqn:El; [eapply lookup_some_len; eassumption | discriminate]. }
    unfold Inv, strong in *. cbn. repeat split; try assumption; try lia.
    all: try (intros Hf; specialize (Hd Hf); lia).
  - (* LDrop *)
    destruct (lookup n (handles s)) as [k|] eqn:El; [|discriminate]. pose proof (lookup_remove_len _ _ _ El) as Hl.
    assert (Hgen : forall s1, Some (settle s1) = Some s' -> alive s1 = alive s -> events s1 = events s ->
                     (alive s = false -> strong s1 = 0) -> Inv s').
    { intros s1 H1 E1 E2 E3. inversion H1; subst. apply Inv_settle; rewrite ?E1, ?E2; assumption. }
    destruct k as [| |r|c| |]; try (eapply Hgen; [exact Hs | reflexivity | reflexivity |];
      intros Hf; specialize (Hd Hf); unfold strong in *; cbn in *; lia).
  - (* LAsyncDrop *)
    destruct (lookup n (handles s)) as [k|] eqn:El; [|discriminate]. pose proof (lookup_remove_len _ _ _ El) as Hl.
    destruct (leaves_remover k || match k with HStreamAll => true | _ => false end); [|discriminate].
    inversion Hs; subst; clear Hs. apply Inv_settle; cbn; try assumption.
    intros Hf. specialize (Hd Hf). unfold strong in *. cbn. pose proof (weight_pos k). lia.
  - (* LCacheStart *)
    destruct (lookup n (handles s)) as [[| | |[| | |]| |]|] eqn:El; try discriminate. inversion Hs; subst; clear Hs.
    pose proof (lookup_set_len _ _ _ (HProxy CInit) El) as Hl. cbn in Hl. pose proof (lookup_some_len _ _ _ El) as Hpos.
    unfold Inv, strong in *. cbn. repeat split; try assumption.
    + intros Hal. specialize (Ha Hal). lia.
    + intros Hf. specialize (Hd Hf). lia.
  - (* LCacheReady *)
    destruct (lookup n (handles s)) as [[| | |[| | |]| |]|] eqn:El; try discriminate. inversion Hs; subst; clear Hs.
    pose proof (lookup_set_len _ _ _ (HProxy CRun) El) as Hl. cbn in Hl. pose proof (lookup_some_len _ _ _ El) as Hpos.
    pose proof (lookup_set_pos _ _ _ (HProxy CRun) El) as Hpos2.
    unfold Inv, strong in *. cbn. repeat split; try assumption.
    + intros _. lia.
    + intros Hf. specialize (Hd Hf). lia.
  - (* LReap *)
    destruct (zombies s) as [|w z] eqn:Ez; [discriminate|]. inversion Hs; subst; clear Hs. apply Inv_settle; cbn; try assumption.
    intros Hf. specialize (Hd Hf). unfold strong, Zpos in *. cbn in *. rewrite Ez in Hd, Hz. cbn in Hd, Hz.
    apply Bool.andb_true_iff in Hz. destruct Hz as [Hw _]. destruct w; [discriminate | lia].
  - (* LRemover *)
    destruct (removers s) as [|r] eqn:Er; [discriminate|]. inversion Hs; subst; clear Hs. apply Inv_settle; cbn; try assumption.
    intros Hf. specialize (Hd Hf). unfold strong in *. cbn. lia.
  - destruct (reader s && alive s); [|discriminate]. inversion Hs; subst; clear Hs. unfold Inv, strong in *. cbn. tauto.
  - destruct (queued s) as [|k q]; [discriminate|]. destruct (alive s) eqn:Ea; inversion Hs; subst; clear Hs; unfold Inv, strong in *; cbn; rewrite Ea in *.
    + repeat split; try assumption; try discriminate. intros _. rewrite app_length. cbn. specialize (Ha eq_refl). lia.
    + repeat split; try assumption; try discriminate.
  - destruct (mem_n k (inflight s)) eqn:Em; [|discriminate]. inversion Hs; subst; clear Hs.
    pose proof (mem_remove_len _ _ Em) as Hl.
    assert (Hal : alive s = true).
    { destruct (alive s) eqn:Ea; [reflexivity|]. specialize (Hd eq_refl). unfold strong in Hd. lia. }
    apply Inv_settle; cbn [alive events upd].
    + rewrite Hal. discriminate.
    + rewrite ordered_b_snoc, Ho, Hc, Hal. reflexivity.
    + rewrite closed_after_snoc, Hc. cbn. now rewrite Bool.orb_false_r.
  - destruct (lookup n (handles s)) as [[| | | | |]|] eqn:El; try discriminate. inversion Hs; subst; clear Hs.
    pose proof (lookup_remove_len _ _ _ El) as Hl. apply Inv_settle; cbn; try assumption.
    intros Hf. specialize (Hd Hf). unfold strong in *. cbn in *. lia.
  - destruct (lookup n (handles s)) as [[| | | | |]|] eqn:El; try discriminate. inversion Hs; subst; clear Hs.
    pose proof (lookup_remove_len _ _ _ El) as Hl.
    assert (Hal : alive s = true).
    { destruct (alive s) eqn:Ea; [reflexivity|]. specialize (Hd eq_refl). unfold strong in Hd. cbn in Hl. lia. }
    apply Inv_settle; cbn [alive events upd].
    + rewrite Hal. discriminate.
    + rewrite ordered_b_snoc, Ho, Hc, Hal. reflexivity.
    + rewrite closed_after_snoc, Hc. cbn. now rewrite Bool.orb_false_r.
  - destruct (mem_n n (waiters s) && negb (alive s)) eqn:E; [|discriminate]. inversion Hs; subst; clear Hs.
    apply Bool.andb_true_iff in E. destruct E as [_ E]. apply Bool.negb_true_iff in E.
    unfold Inv, strong in *. cbn [alive events upd handles removers inflight zombies]. rewrite E in *. repeat split; try assumption; try discriminate.
    + rewrite ordered_b_snoc, Ho, Hc. reflexivity.
    + rewrite closed_after_snoc, Hc. reflexivity.
  - destruct (reader s && negb (alive s)) eqn:E; [|discriminate]. inversion Hs; subst; clear Hs.
    apply Bool.andb_true_iff in E. destruct E as [_ E]. apply Bool.negb_true_iff in E.
    unfold Inv, strong in *. cbn [alive events upd handles removers inflight zombies]. rewrite E in *. repeat split; try assumption; try discriminate.
    + rewrite ordered_b_snoc, Ho, Hc. reflexivity.
    + rewrite closed_after_snoc, Hc. reflexivity.
Qed.

Theorem Inv_reach_both tr s : reach tr s -> Zpos s /\ Inv s.
Proof.
  intros Hr. induction Hr as [|tr s l s' Hr [IHz IH] Hs]; [|split; [eapply Zpos_step | eapply Inv_step]; eassumption].
  split; [reflexivity|]. unfold Inv, strong. cbn. repeat split; try discriminate; lia.
Qed.
Theorem Inv_reach tr s : reach tr s -> Inv s.
Proof. intros Hr. apply (Inv_reach_both tr s Hr). Qed.

(* the transport is closed exactly when no strong reference is left *)
Theorem close_iff tr s : reach tr s -> (alive s = false <-> strong s = 0).
Proof.
  intros Hr. destruct (Inv_reach tr s Hr) as (Ha & Hd & _). split; [exact Hd|]. intros H0.
  destruct (alive s); [specialize (Ha eq_refl); lia | reflexivity].
Qed.

Theorem closed_event_iff tr s : reach tr s -> (existsb is_closed (events s) = true <-> strong s = 0).
Proof.
  intros Hr. destruct (Inv_reach tr s Hr) as (_ & _ & _ & Hc). unfold closed_after in Hc. cbn in Hc. rewrite Hc.
  rewrite <- (close_iff tr s Hr). destruct (alive s); cbn; split; congruence.
Qed.

(* ---------------------------------------------------------------- the order of events *)
Lemma ordered_b_split pre post : forall b, ordered_b (pre ++ EClosed :: post) b = true ->
  b = false /\ existsb is_wake pre = false /\ existsb is_readdrop pre = false /\ existsb is_closed pre = false /\
  existsb is_reply post = false /\ existsb is_closed post = false.
Proof.
  induction pre as [|x pre IH]; intros b H.
  - cbn in H. apply Bool.andb_true_iff in H. destruct H as [Hb H]. apply Bool.negb_true_iff in Hb. subst b.
    assert (Hpost : existsb is_reply post = false /\ existsb is_closed post = false).
    { revert H. induction post as [|y post IHp]; intros H; [now split|].
      destruct y; cbn in H; try discriminate; destruct (IHp H) as [A B0]; now split. }
    destruct Hpost. repeat split; assumption.
  - destruct x; cbn [app ordered_b] in H; apply Bool.andb_true_iff in H; destruct H as [Hb H]; specialize (IH _ H);
      destruct IH as (E & A & B0 & C & D & F); subst; try discriminate; cbn; repeat split; try assumption;
      try (apply Bool.negb_true_iff in Hb; assumption).
Qed.

Theorem events_ordered tr s : reach tr s -> ordered (events s).
Proof.
  intros Hr. destruct (Inv_reach tr s Hr) as (_ & _ & Ho & _). intros pre post E. rewrite E in Ho.
  destruct (ordered_b_split pre post false Ho) as (_ & A & B0 & C & D & F). repeat split; assumption.
Qed.

(* ---------------------------------------------------------------- graceful_shutdown *)
Lemma wake_in_closed ev : forall b, ordered_b ev b = true -> existsb is_wake ev = true -> closed_after ev b = true.
Proof.
  unfold closed_after. induction ev as [|x ev IH]; intros b Ho Hw; [discriminate|].
  destruct x; cbn in *; apply Bool.andb_true_iff in Ho; destruct Ho as [Hb Ho].
  - specialize (IH _ Ho Hw). exact IH.
  - specialize (IH _ Ho Hw). exact IH.
  - now rewrite Bool.orb_true_r.
  - destruct (existsb is_wake ev) eqn:E; [|]; rewrite Hb; reflexivity.
  - rewrite Hb. reflexivity.
Qed.

(* it returns only after the last reference — hence after every handler that was in flight has replied and ended, every proxy
   (with the cache it started) is gone and the executor has dropped every cancelled cache task *)
Theorem graceful_only_after tr s n : reach tr s -> In (EWake n) (events s) ->
  alive s = false /\ handles s = [] /\ inflight s = [] /\ removers s = 0 /\ zombies s = [].
Proof.
  intros Hr Hin. destruct (Inv_reach_both tr s Hr) as (Hz & _ & Hd & Ho & Hc).
  assert (Hw : existsb is_wake (events s) = true) by (apply existsb_exists; exists (EWake n); now split).
  pose proof (wake_in_closed _ _ Ho Hw) as H. rewrite Hc in H. apply Bool.negb_true_iff in H. specialize (Hd H).
  unfold strong in Hd. split; [assumption|].
  assert (H1 : sumw (handles s) = 0) by lia. assert (H2 : sumn (zombies s) = 0) by lia.
  split; [now apply sumw_zero|]. split; [destruct (inflight s); [reflexivity | cbn in Hd; lia]|]. split; [lia|].
  now apply zombies_zero.
Qed.

(* and it returns as soon as the last reference is gone: the wake-up is enabled *)
Theorem graceful_once tr s n : reach tr s -> mem_n n (waiters s) = true -> strong s = 0 -> exists s', step (LWake n) s = Some s'.
Proof.
  intros Hr Hm H0. apply (close_iff tr s Hr) in H0. cbn [step]. rewrite Hm, H0. eexists; reflexivity.
Qed.

(* ---------------------------------------------------------------- nothing is left behind *)
Definition internal (l : label) : bool :=
  match l with LRemover | LReap | LDispatch | LReply _ | LWake _ | LReaderDrop => true | _ => false end.

Definition nu (s : st) : nat :=
  removers s + 2 * length (zombies s) + 2 * length (queued s) + length (inflight s) + length (waiters s) + (if reader s then 1 else 0).

Lemma nu_settle s : nu (settle s) = nu s.
Proof. unfold settle. destruct (alive s && Nat.eqb (strong s) 0); reflexivity. Qed.

Theorem internal_decreases l s s' : internal l = true -> step l s = Some s' -> nu s' < nu s.
Proof.
  intros Hi Hs. destruct l as [n src k|n|n|n|n| | |k| |k|n|n|n|]; try discriminate; cbn [step] in Hs.
  - destruct (zombies s) as [|w z] eqn:Ez; [discriminate|]. inversion Hs; subst. rewrite nu_settle. unfold nu. cbn. rewrite Ez. cbn. lia.
  - destruct (removers s) as [|r] eqn:Er; [discriminate|]. inversion Hs; subst. rewrite nu_settle. unfold nu. cbn. rewrite Er. lia.
  - destruct (queued s) as [|k q] eqn:Eq; [discriminate|]. destruct (alive s); inversion Hs; subst; unfold nu; cbn; rewrite Eq; cbn;
      rewrite ?app_length; cbn; lia.
  - destruct (mem_n k (inflight s)) eqn:Em; [|discriminate]. inversion Hs; subst. rewrite nu_settle. unfold nu. cbn.
    pose proof (mem_remove_len _ _ Em). lia.
  - destruct (mem_n n (waiters s) && negb (alive s)) eqn:E; [|discriminate]. inversion Hs; subst. apply Bool.andb_true_iff in E.
    destruct E as [Em _]. unfold nu. cbn. pose proof (mem_remove_len _ _ Em). lia.
  - destruct (reader s && negb (alive s)) eqn:E; [|discriminate]. inversion Hs; subst. apply Bool.andb_true_iff in E.
    destruct E as [Er _]. unfold nu. cbn. rewrite Er. lia.
Qed.

(* all handles dropped (every proxy with the cache it started), all handlers returned, no internal step left: the connection
   is completely gone *)
Theorem all_released tr s : reach tr s -> handles s = [] -> inflight s = [] ->
  step LRemover s = None -> step LReap s = None -> step LDispatch s = None -> (forall n, step (LWake n) s = None) ->
  step LReaderDrop s = None ->
  alive s = false /\ reader s = false /\ waiters s = [] /\ queued s = [] /\ removers s = 0 /\ zombies s = [].
Proof.
  intros Hr Hh Hf H1 H5 H2 H3 H4. cbn [step] in *.
  assert (Hrm : removers s = 0) by (destruct (removers s); [reflexivity | discriminate]).
  assert (Hzb : zombies s = []) by (destruct (zombies s); [reflexivity | discriminate]).
  assert (Hal : alive s = false) by (apply (close_iff tr s Hr); unfold strong; rewrite Hh, Hf, Hrm, Hzb; reflexivity).
  rewrite Hal in *. cbn in *.
  assert (Hq : queued s = []) by (destruct (queued s); [reflexivity | discriminate]).
  assert (Hrd : reader s = false) by (destruct (reader s); [discriminate | reflexivity]).
  assert (Hw : waiters s = []).
  { destruct (waiters s) as [|n w] eqn:Ew; [reflexivity|]. specialize (H3 n). unfold mem_n in H3. cbn in H3. rewrite Nat.eqb_refl in H3. discriminate. }
  repeat split; assumption.
Qed.

(* ---------------------------------------------------------------- replay soundness *)
Lemma run_reach_gen : forall tr tr0 s0 s, reach tr0 s0 -> run tr s0 = Some s -> reach (tr0 ++ tr) s.
Proof.
  induction tr as [|l tr IH]; intros tr0 s0 s Hr Hrun; cbn [run] in Hrun.
  - inversion Hrun; subst. now rewrite app_nil_r.
  - destruct (step l s0) as [s1|] eqn:E; [|discriminate].
    replace (tr0 ++ l :: tr) with ((tr0 ++ [l]) ++ tr) by (now rewrite <- app_assoc).
    apply (IH _ s1); [econstructor; eassumption | assumption].
Qed.
Theorem run_sound tr s : run tr init = Some s -> reach tr s.
Proof. intros H. apply (run_reach_gen tr [] init s); [constructor | assumption]. Qed.

(* ---------------------------------------------------------------- non-vacuity *)
(* a clone, a rule stream, an eagerly caching proxy with a signal stream, a lazy proxy whose cache starts later; two slow
   handlers; graceful shutdown has to wait for both, and for the executor to drop the cancelled cache tasks *)
Definition demo_trace : list label :=
  [LNew 1 0 HConn; LNew 2 1 (HStreamRule 0);
   LNew 3 2 (HProxy CIdle); LCacheStart 3; LCacheReady 3;          (* CacheProperties::Yes *)
   LNew 4 3 HSignals; LNew 5 0 (HProxy CIdle); LCacheStart 5;      (* a lazy proxy, first get_property: GetAll unanswered *)
   LCallIn 7; LCallIn 8; LDispatch; LDispatch;
   LDrop 1; LAsyncDrop 2; LDrop 4; LDrop 3; LDrop 5; LRemover;
   LGraceful 0;                      (* the last user handle: two handlers and two cancelled cache tasks still hold the connection *)
   LReply 8; LReply 7; LReap; LReap; LRemover; LRemover;
   LWake 0; LReaderDrop].

Example demo : exists s, run demo_trace init = Some s /\
  events s = [EReply 8; EReply 7; EClosed; EWake 0; EReadDrop] /\ alive s = false /\ reader s = false /\ strong s = 0 /\ waiters s = [].
Proof. eexists. split; [vm_compute; reflexivity|]. repeat split. Qed.

(* after both replies the two cancelled cache tasks alone (1 + 3 references) keep the connection: not closed, no wake-up *)
Example demo_not_before : exists s, run (firstn 21 demo_trace) init = Some s /\
  alive s = true /\ strong s = 4 /\ inflight s = [] /\ handles s = [] /\ zombies s = [1; 3] /\ waiters s = [0] /\ step (LWake 0) s = None.
Proof. eexists. split; [vm_compute; reflexivity|]. repeat split. Qed.

(* ---------------------------------------------------------------- a proxy owns what its cache started *)
Lemma strong_settle s : strong (settle s) = strong s.
Proof. unfold settle. destruct (alive s && Nat.eqb (strong s) 0); reflexivity. Qed.

(* dropping a proxy — whatever state its property cache is in — and letting the executor run gives back every reference the
   proxy and its cache task held: 1 for a proxy without a started cache, 1 + 3 while the cache waits for GetAll, 1 + 1 afterwards *)
Theorem drop_proxy_releases s n c : lookup n (handles s) = Some (HProxy c) -> zombies s = [] ->
  exists s', run (LDrop n :: (if started c then [LReap; LRemover] else [])) s = Some s' /\
             strong s' + weight (HProxy c) = strong s /\ zombies s' = [] /\ lookup n (handles s') = lookup n (remove_h n (handles s)).
Proof.
  intros El Ez. pose proof (lookup_remove_len _ _ _ El) as Hl.
  destruct (started c) eqn:Es; cbn [run step]; rewrite El, Es.
  - rewrite Ez. cbn [app].
    set (s1 := settle (upd_z s (remove_h n (handles s)) (removers s) [cw c])).
    assert (Hz1 : zombies s1 = [cw c]) by (unfold s1, settle; destruct (alive _ && _); reflexivity).
    assert (Hh1 : handles s1 = remove_h n (handles s)) by (unfold s1, settle; destruct (alive _ && _); reflexivity).
    assert (Hr1 : removers s1 = removers s) by (unfold s1, settle; destruct (alive _ && _); reflexivity).
    assert (Hf1 : inflight s1 = inflight s) by (unfold s1, settle; destruct (alive _ && _); reflexivity).
    cbn [run step]. rewrite Hz1.
    set (s2 := settle (upd_z s1 (handles s1) (S (removers s1)) [])).
    assert (Hr2 : removers s2 = S (removers s)) by (unfold s2, settle; destruct (alive _ && _); cbn; now rewrite Hr1).
    cbn [run step]. rewrite Hr2. eexists. split; [reflexivity|].
    assert (Hh2 : handles s2 = remove_h n (handles s)) by (unfold s2, settle; destruct (alive _ && _); cbn; exact Hh1).
    assert (Hz2 : zombies s2 = []) by (unfold s2, settle; destruct (alive _ && _); reflexivity).
    assert (Hf2 : inflight s2 = inflight s) by (unfold s2, settle; destruct (alive _ && _); cbn; exact Hf1).
    split; [|split].
    + rewrite strong_settle. unfold strong. cbn. rewrite Hh2, Hz2, Hf2, Ez. cbn in *. lia.
    + unfold settle. destruct (alive _ && _); cbn; exact Hz2.
    + unfold settle. destruct (alive _ && _); cbn; now rewrite Hh2.
  - eexists. split; [reflexivity|]. split; [|split].
    + rewrite strong_settle. unfold strong. cbn. rewrite Ez. destruct c; try discriminate; cbn in *; lia.
    + unfold settle. destruct (alive _ && _); cbn; exact Ez.
    + unfold settle. destruct (alive _ && _); reflexivity.
Qed.
