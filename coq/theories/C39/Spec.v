(* C39/Spec.v — "dropping or shutting down a connection releases it correctly", stated on the trace of events and as an
   executable oracle on what one session of the real implementation showed. *)
From ZV Require Import Base.Bytes Base.Res C39.Model.

(* ---------------------------------------------------------------- on states / traces *)
Definition is_reply (e : event) : bool := match e with EReply _ => true | _ => false end.
Definition is_wake (e : event) : bool := match e with EWake _ => true | _ => false end.
Definition is_closed (e : event) : bool := match e with EClosed => true | _ => false end.
Definition is_readdrop (e : event) : bool := match e with EReadDrop => true | _ => false end.

(* replies (and close() calls) only before the transport goes, wake-ups and the read half only after, and it goes once *)
Definition ordered (ev : list event) : Prop :=
  forall pre post, ev = pre ++ EClosed :: post ->
    existsb is_wake pre = false /\ existsb is_readdrop pre = false /\ existsb is_closed pre = false /\
    existsb is_reply post = false /\ existsb is_closed post = false.

(* nothing internal is left to do: no queued remove-match task, no undelivered call, no waiter to wake, no reader to drop;
   handlers may still be running (they end when their method returns) *)
Definition settled (s : st) : Prop :=
  removers s = 0 /\ zombies s = [] /\ queued s = [] /\ (alive s = false -> waiters s = [] /\ reader s = false).

(* ---------------------------------------------------------------- the oracle: an independent count *)
(* ops of the harness *)
Inductive op :=
  | ONew (n src : nat) (k : hkind) | ODrop (n : nat) | OGraceful (n : nat) | OClose (n : nat)
  | OCall (k : nat) (fast : bool) | ORelease (k : nat)
  | OAsyncDrop (n : nat)
  | OCacheStart (n : nat) | OCacheReady (n : nat).   (* what a proxy's property cache does is invisible to the count: the proxy owns it *)

Record acc := {
  a_h : list (nat * hkind);     (* live handles *)
  a_fl : list nat;              (* handlers in flight (call seen while the connection existed, not yet released) *)
  a_rel : list nat;             (* released ids *)
  a_gs : list nat;              (* graceful_shutdown calls made *)
  a_closed : bool
}.

Definition a_init : acc := {| a_h := [(0, HConn)]; a_fl := []; a_rel := []; a_gs := []; a_closed := false |}.

Definition a_close (a : acc) : acc :=
  if negb (a_closed a) && Nat.eqb (length (a_h a) + length (a_fl a)) 0
  then {| a_h := a_h a; a_fl := a_fl a; a_rel := a_rel a; a_gs := a_gs a; a_closed := true |} else a.

Definition a_step (o : op) (a : acc) : acc :=
  a_close
  match o with
  | ONew n src k =>
      if source_ok (lookup src (a_h a)) k && negb (match lookup n (a_h a) with Some _ => true | None => false end)
      then {| a_h := (n, k) :: a_h a; a_fl := a_fl a; a_rel := a_rel a; a_gs := a_gs a; a_closed := a_closed a |} else a
  | ODrop n => {| a_h := remove_h n (a_h a); a_fl := a_fl a; a_rel := a_rel a; a_gs := a_gs a; a_closed := a_closed a |}
  | OGraceful n =>
      match lookup n (a_h a) with
      | Some HConn => {| a_h := remove_h n (a_h a); a_fl := a_fl a; a_rel := a_rel a; a_gs := a_gs a ++ [n]; a_closed := a_closed a |}
      | _ => a
      end
  | OClose n =>
      match lookup n (a_h a) with
      | Some HConn => {| a_h := remove_h n (a_h a); a_fl := a_fl a; a_rel := a_rel a; a_gs := a_gs a; a_closed := a_closed a |}
      | _ => a
      end
  | OCall k fast =>
      if a_closed a || fast || mem_n k (a_rel a) then a
      else {| a_h := a_h a; a_fl := a_fl a ++ [k]; a_rel := a_rel a; a_gs := a_gs a; a_closed := a_closed a |}
  | OAsyncDrop n =>
      match lookup n (a_h a) with
      | Some HStreamAll | Some (HStreamRule _) | Some HSignals =>
          {| a_h := remove_h n (a_h a); a_fl := a_fl a; a_rel := a_rel a; a_gs := a_gs a; a_closed := a_closed a |}
      | _ => a
      end
  | OCacheStart _ | OCacheReady _ => a
  | ORelease k => {| a_h := a_h a; a_fl := remove_n k (a_fl a); a_rel := k :: a_rel a; a_gs := a_gs a; a_closed := a_closed a |}
  end.

(* what the peer (and the callers of graceful_shutdown) must see after each op, once everything has settled *)
Record snap := { sn_w : bool; sn_r : bool; sn_gs : list nat }.
Definition a_snap (a : acc) : snap :=
  {| sn_w := a_closed a; sn_r := a_closed a; sn_gs := if a_closed a then a_gs a else [] |}.

Fixpoint spec_snaps (ops : list op) (a : acc) : list snap :=
  match ops with [] => [] | o :: r => let a' := a_step o a in a_snap a' :: spec_snaps r a' end.

Fixpoint nat_list_eqb (a b : list nat) : bool :=
  match a, b with [] , [] => true | x :: a', y :: b' => Nat.eqb x y && nat_list_eqb a' b' | _, _ => false end.
Definition snap_eqb (x y : snap) : bool :=
  Bool.eqb (sn_w x) (sn_w y) && Bool.eqb (sn_r x) (sn_r y) && nat_list_eqb (sn_gs x) (sn_gs y).
Fixpoint snaps_eqb (a b : list snap) : bool :=
  match a, b with [], [] => true | x :: a', y :: b' => snap_eqb x y && snaps_eqb a' b' | _, _ => false end.

(* the observed event order: all replies and close() calls, then the transport goes (once), then wake-ups / the read half *)
Fixpoint ordered_b (ev : list event) (closed : bool) : bool :=
  match ev with
  | [] => true
  | EClosed :: r => negb closed && ordered_b r true
  | EReply _ :: r => negb closed && ordered_b r closed
  | ECloseCall :: r => negb closed && ordered_b r closed
  | EWake _ :: r => closed && ordered_b r closed
  | EReadDrop :: r => closed && ordered_b r closed
  end.
