(* C39/Model.v — who holds a zbus connection alive: an executable reference-count model.  No proofs in this file.

   zbus/src/connection/mod.rs
     pub struct Connection { inner: Arc<ConnectionInner> }                 every Connection value is one strong reference
     struct ConnectionInner { socket_write, executor, socket_reader_task: Task<()>, object_server, drop_event, .. }
     impl Drop for ConnectionInner { drop_event.notify(MAX) }              runs when the LAST strong reference goes:
                                                                           listeners are woken, then the fields are dropped:
                                                                           the write half at once, the reader task is cancelled
                                                                           (its future, with the read half, is dropped by the
                                                                           executor: LReaderDrop)
     WeakConnection { inner: Weak<ConnectionInner> }                       ObjectServer.conn, the object-server dispatch task
     start_object_server: loop { msg = stream.next(); if let Some(conn) = weak_conn.upgrade() { server.dispatch_call(..) } else break }
     graceful_shutdown(self): let l = self.inner.drop_event.listen(); drop(self); l.await
     close(self): socket_write.lock().close()                              (then `self` is dropped)
     queue_remove_match(rule): let conn = self.clone(); executor.spawn(async move { conn.remove_match(rule) }).detach()
   zbus/src/message_stream.rs
     struct Inner { conn_inner: Arc<ConnectionInner>, msg_receiver, match_rule }   a MessageStream is one strong reference
     impl Drop for Inner { if let Some(rule) = match_rule.take() { conn.queue_remove_match(rule) } }
                                                                           a stream with a rule hands its reference on to a
                                                                           detached task, which gives it up when it has run
   zbus/src/proxy/mod.rs
     ProxyInnerStatic { conn: Connection, .. }                             a Proxy (all its clones together) is one strong reference
     SignalStream { stream: Join<MessageStream, Option<MessageStream>>, .. }   (unique-name destination: one rule stream)
   zbus/src/object_server/mod.rs
     dispatch_method_call_try: if with_spawn { let connection = connection.clone(); executor.spawn(async move { .. call .. reply .. }).detach() }
                                                                           a method handler in flight is one strong reference,
                                                                           given up after the reply has been written
   Assumed contracts (DESIGN Appendix B): Arc/Weak (the value is dropped exactly when the last strong reference is dropped; upgrade
   fails afterwards), event_listener (listen before notify => the listener completes), the executor drops cancelled tasks. *)
From ZV Require Import Base.Bytes Base.Res.

Inductive hkind := HConn | HStreamAll | HStreamRule (r : nat) | HProxy | HSignals.

Inductive event :=
  | EReply (k : nat)      (* the reply of handler k was written *)
  | ECloseCall            (* WriteHalf::close() *)
  | EClosed               (* ConnectionInner dropped: the write half is gone, the peer sees the transport closing *)
  | EReadDrop             (* the cancelled reader task was dropped: the read half is gone *)
  | EWake (n : nat).      (* the graceful_shutdown() made through handle n returned *)

Record st := {
  handles : list (nat * hkind);   (* live user handles *)
  removers : nat;                 (* detached "remove match" tasks that have not run yet *)
  queued : list nat;              (* method calls read from the socket, not yet picked up by the dispatch task *)
  inflight : list nat;            (* method handlers running *)
  waiters : list nat;             (* graceful_shutdown futures waiting for drop_event *)
  alive : bool;                   (* ConnectionInner exists (hence the write half) *)
  reader : bool;                  (* the socket reader task (hence the read half) exists *)
  events : list event
}.

Definition init : st :=
  {| handles := [(0, HConn)]; removers := 0; queued := []; inflight := []; waiters := []; alive := true; reader := true; events := [] |}.

(* Arc::strong_count *)
Definition strong (s : st) : nat := length (handles s) + removers s + length (inflight s).

Fixpoint lookup (n : nat) (l : list (nat * hkind)) : option hkind :=
  match l with [] => None | (m, k) :: r => if Nat.eqb n m then Some k else lookup n r end.
Fixpoint remove_h (n : nat) (l : list (nat * hkind)) : list (nat * hkind) :=
  match l with [] => [] | (m, k) :: r => if Nat.eqb n m then r else (m, k) :: remove_h n r end.
Fixpoint remove_n (n : nat) (l : list nat) : list nat :=
  match l with [] => [] | m :: r => if Nat.eqb n m then r else m :: remove_n n r end.
Definition mem_n (n : nat) (l : list nat) : bool := existsb (Nat.eqb n) l.

(* dropping this kind of handle queues a remove-match task that inherits the reference *)
Definition leaves_remover (k : hkind) : bool := match k with HStreamRule _ | HSignals => true | _ => false end.

Definition upd (s : st) (h : list (nat * hkind)) (rm : nat) (q fl w : list nat) (ev : list event) : st :=
  {| handles := h; removers := rm; queued := q; inflight := fl; waiters := w; alive := alive s; reader := reader s; events := ev |}.

(* Arc: the last strong reference is gone => ConnectionInner::drop *)
Definition settle (s : st) : st :=
  if alive s && Nat.eqb (strong s) 0
  then {| handles := handles s; removers := removers s; queued := queued s; inflight := inflight s; waiters := waiters s;
          alive := false; reader := reader s; events := events s ++ [EClosed] |}
  else s.

Inductive label :=
  | LNew (n src : nat) (k : hkind)   (* a new handle made from the connection of handle src *)
  | LDrop (n : nat)
  | LRemover                         (* a queued remove-match task runs and ends *)
  | LCallIn (k : nat)                (* the reader hands method call k to the object server's queue *)
  | LDispatch                        (* the dispatch task takes the next call: upgrade, spawn the handler *)
  | LReply (k : nat)                 (* handler k writes its reply and ends *)
  | LGraceful (n : nat)
  | LCloseCall (n : nat)
  | LWake (n : nat)
  | LReaderDrop.

Definition source_ok (src : option hkind) (k : hkind) : bool :=
  match src, k with
  | Some HSignals, _ => false                 (* a SignalStream does not give access to its connection *)
  | Some HProxy, HSignals => true
  | Some _, HSignals => false
  | Some _, _ => true
  | None, _ => false
  end.

Definition step (l : label) (s : st) : option st :=
  match l with
  | LNew n src k =>
      if source_ok (lookup src (handles s)) k && negb (match lookup n (handles s) with Some _ => true | None => false end)
      then Some (upd s ((n, k) :: handles s) (removers s) (queued s) (inflight s) (waiters s) (events s))
      else None
  | LDrop n =>
      match lookup n (handles s) with
      | Some k => Some (settle (upd s (remove_h n (handles s)) (if leaves_remover k then S (removers s) else removers s)
                                      (queued s) (inflight s) (waiters s) (events s)))
      | None => None
      end
  | LRemover =>
      match removers s with
      | S r => Some (settle (upd s (handles s) r (queued s) (inflight s) (waiters s) (events s)))
      | O => None
      end
  | LCallIn k =>
      if reader s && alive s then Some (upd s (handles s) (removers s) (queued s ++ [k]) (inflight s) (waiters s) (events s)) else None
  | LDispatch =>
      match queued s with
      | k :: q => if alive s
                  then Some (upd s (handles s) (removers s) q (inflight s ++ [k]) (waiters s) (events s))     (* upgrade() = Some *)
                  else Some (upd s (handles s) (removers s) [] (inflight s) (waiters s) (events s))            (* upgrade() = None: the task ends *)
      | [] => None
      end
  | LReply k =>
      if mem_n k (inflight s)
      then Some (settle (upd s (handles s) (removers s) (queued s) (remove_n k (inflight s)) (waiters s) (events s ++ [EReply k])))
      else None
  | LGraceful n =>
      match lookup n (handles s) with
      | Some HConn => Some (settle (upd s (remove_h n (handles s)) (removers s) (queued s) (inflight s) (waiters s ++ [n]) (events s)))
      | _ => None
      end
  | LCloseCall n =>
      match lookup n (handles s) with
      | Some HConn => Some (settle (upd s (remove_h n (handles s)) (removers s) (queued s) (inflight s) (waiters s) (events s ++ [ECloseCall])))
      | _ => None
      end
  | LWake n =>
      if mem_n n (waiters s) && negb (alive s)
      then Some (upd s (handles s) (removers s) (queued s) (inflight s) (remove_n n (waiters s)) (events s ++ [EWake n]))
      else None
  | LReaderDrop =>
      if reader s && negb (alive s)
      then Some {| handles := handles s; removers := removers s; queued := queued s; inflight := inflight s; waiters := waiters s;
                   alive := false; reader := false; events := events s ++ [EReadDrop] |}
      else None
  end.

Fixpoint run (tr : list label) (s : st) : option st :=
  match tr with
  | [] => Some s
  | l :: r => match step l s with Some s' => run r s' | None => None end
  end.

Inductive reach : list label -> st -> Prop :=
  | reach_init : reach [] init
  | reach_step tr s l s' : reach tr s -> step l s = Some s' -> reach (tr ++ [l]) s'.
