(* C39/Model.v — who holds a zbus connection alive: an executable reference-count model.  No proofs in this file.

   zbus/src/connection/mod.rs
     pub struct Connection { inner: Arc<ConnectionInner> }                 every Connection value is one strong reference
     struct ConnectionInner { socket_write, executor, socket_reader_task: Task<()>, object_server, drop_event, .. }
     impl Drop for ConnectionInner { drop_event.notify(MAX) }              runs when the LAST strong reference goes:
                                                                           listeners are woken, then the fields are dropped:
                                                                           the write half at once, the reader task is cancelled
                                                                           (its future, with the read half, is dropped by the
                                                                           executor: LReaderDrop)
     WeakConnection { inner: Weak<ConnectionInner> }                       ObjectServer.conn, the object-server dispatch task
     start_object_server: loop { msg = stream.next(); if let Some(conn) = weak_conn.upgrade() { server.dispatch_call(..) } else break }
     graceful_shutdown(self): let l = self.inner.drop_event.listen(); drop(self); l.await
     close(self): socket_write.lock().close()                              (then `self` is dropped)
     queue_remove_match(rule): let conn = self.clone(); executor.spawn(async move { conn.remove_match(rule) }).detach()
   zbus/src/message_stream.rs
     struct Inner { conn_inner: Arc<ConnectionInner>, msg_receiver, match_rule }   a MessageStream is one strong reference
     impl Drop for Inner { if let Some(rule) = match_rule.take() { conn.queue_remove_match(rule) } }
                                                                           a stream with a rule hands its reference on to a
                                                                           detached task, which gives it up when it has run
   zbus/src/proxy/mod.rs
     ProxyInnerStatic { conn: Connection, .. }                             a Proxy (all its clones together) is one strong reference
     ProxyInner { property_cache: Option<OnceLock<(Arc<PropertiesCache>, Task<()>)>>, .. }
                                                                           the proxy OWNS the task that populates the cache and keeps
                                                                           it in sync (started by build() with CacheProperties::Yes, or
                                                                           by the first get_property / receive_property_changed of a
                                                                           lazy proxy).  While it waits for the GetAll reply (CInit) the
                                                                           task's future holds an internal PropertiesProxy, the
                                                                           PropertiesChanged stream and the pending call's stream: 3
                                                                           references; afterwards (CRun) the PropertiesChanged stream: 1.
                                                                           MODELLED FACT the correspondence checks: dropping the proxy
                                                                           drops the Task, which cancels it; the executor drops the
                                                                           future (LReap) and with it everything the cache started
     blocking::Proxy { conn: blocking::Connection, azync: Option<Proxy> }  two references
     SignalStream { stream: Join<MessageStream, Option<MessageStream>>, .. }   (unique-name destination: one rule stream)
     AsyncDrop for MessageStream / SignalStream (after fix 90a1ccff: receiver first, then remove_match awaited inline): the reference
                                                                           is given up when async_drop returns, no task is queued
   zbus/src/object_server/mod.rs
     dispatch_method_call_try: if with_spawn { let connection = connection.clone(); executor.spawn(async move { .. call .. reply .. }).detach() }
                                                                           a method handler in flight is one strong reference,
                                                                           given up after the reply has been written
   Assumed contracts (DESIGN Appendix B): Arc/Weak (the value is dropped exactly when the last strong reference is dropped; upgrade
   fails afterwards), event_listener (listen before notify => the listener completes), the executor drops cancelled tasks. *)
From ZV Require Import Base.Bytes Base.Res.

(* the property cache of a proxy: none, lazy and not started, waiting for the GetAll reply, populated and listening *)
Inductive cache := CNo | CIdle | CInit | CRun.
Inductive hkind := HConn | HStreamAll | HStreamRule (r : nat) | HProxy (c : cache) | HSignals | HBlocking.

(* strong references the cache task's future holds *)
Definition cw (c : cache) : nat := match c with CInit => 3 | CRun => 1 | _ => 0 end.
Definition started (c : cache) : bool := match c with CInit | CRun => true | _ => false end.
(* strong references a handle holds, directly or through what it owns *)
Definition weight (k : hkind) : nat := match k with HProxy c => 1 + cw c | HBlocking => 2 | _ => 1 end.

Inductive event :=
  | EReply (k : nat)      (* the reply of handler k was written *)
  | ECloseCall            (* WriteHalf::close() *)
  | EClosed               (* ConnectionInner dropped: the write half is gone, the peer sees the transport closing *)
  | EReadDrop             (* the cancelled reader task was dropped: the read half is gone *)
  | EWake (n : nat).      (* the graceful_shutdown() made through handle n returned *)

Record st := {
  handles : list (nat * hkind);   (* live user handles *)
  removers : nat;                 (* detached "remove match" tasks that have not run yet *)
  zombies : list nat;             (* cancelled cache tasks the executor has not dropped yet: the references each still holds *)
  queued : list nat;              (* method calls read from the socket, not yet picked up by the dispatch task *)
  inflight : list nat;            (* method handlers running *)
  waiters : list nat;             (* graceful_shutdown futures waiting for drop_event *)
  alive : bool;                   (* ConnectionInner exists (hence the write half) *)
  reader : bool;                  (* the socket reader task (hence the read half) exists *)
  events : list event
}.

Definition init : st :=
  {| handles := [(0, HConn)]; removers := 0; zombies := []; queued := []; inflight := []; waiters := []; alive := true; reader := true; events := [] |}.

(* Arc::strong_count *)
Fixpoint sumw (l : list (nat * hkind)) : nat := match l with [] => 0 | (_, k) :: r => weight k + sumw r end.
Fixpoint sumn (l : list nat) : nat := match l with [] => 0 | x :: r => x + sumn r end.
Definition strong (s : st) : nat := sumw (handles s) + removers s + sumn (zombies s) + length (inflight s).

Fixpoint lookup (n : nat) (l : list (nat * hkind)) : option hkind :=
  match l with [] => None | (m, k) :: r => if Nat.eqb n m then Some k else lookup n r end.
Fixpoint remove_h (n : nat) (l : list (nat * hkind)) : list (nat * hkind) :=
  match l with [] => [] | (m, k) :: r => if Nat.eqb n m then r else (m, k) :: remove_h n r end.
Fixpoint remove_n (n : nat) (l : list nat) : list nat :=
  match l with [] => [] | m :: r => if Nat.eqb n m then r else m :: remove_n n r end.
Definition mem_n (n : nat) (l : list nat) : bool := existsb (Nat.eqb n) l.

(* dropping this kind of handle queues a remove-match task that inherits the reference *)
Definition leaves_remover (k : hkind) : bool := match k with HStreamRule _ | HSignals => true | _ => false end.

Fixpoint set_h (n : nat) (k : hkind) (l : list (nat * hkind)) : list (nat * hkind) :=
  match l with [] => [] | (m, k') :: r => if Nat.eqb n m then (m, k) :: r else (m, k') :: set_h n k r end.

Definition upd (s : st) (h : list (nat * hkind)) (rm : nat) (q fl w : list nat) (ev : list event) : st :=
  {| handles := h; removers := rm; zombies := zombies s; queued := q; inflight := fl; waiters := w; alive := alive s; reader := reader s; events := ev |}.
Definition upd_z (s : st) (h : list (nat * hkind)) (rm : nat) (z : list nat) : st :=
  {| handles := h; removers := rm; zombies := z; queued := queued s; inflight := inflight s; waiters := waiters s; alive := alive s;
     reader := reader s; events := events s |}.

(* Arc: the last strong reference is gone => ConnectionInner::drop *)
Definition settle (s : st) : st :=
  if alive s && Nat.eqb (strong s) 0
  then {| handles := handles s; removers := removers s; zombies := zombies s; queued := queued s; inflight := inflight s; waiters := waiters s;
          alive := false; reader := reader s; events := events s ++ [EClosed] |}
  else s.

Inductive label :=
  | LNew (n src : nat) (k : hkind)   (* a new handle made from the connection of handle src *)
  | LDrop (n : nat)
  | LAsyncDrop (n : nat)             (* AsyncDrop::async_drop of a stream / signal stream: the match is removed inline *)
  | LCacheStart (n : nat)            (* the lazy cache of proxy n starts: subscription + GetAll call *)
  | LCacheReady (n : nat)            (* the GetAll reply arrived: the cache is populated and keeps listening *)
  | LReap                            (* the executor drops a cancelled cache task, with everything its future holds *)
  | LRemover                         (* a queued remove-match task runs and ends *)
  | LCallIn (k : nat)                (* the reader hands method call k to the object server's queue *)
  | LDispatch                        (* the dispatch task takes the next call: upgrade, spawn the handler *)
  | LReply (k : nat)                 (* handler k writes its reply and ends *)
  | LGraceful (n : nat)
  | LCloseCall (n : nat)
  | LWake (n : nat)
  | LReaderDrop.

Definition source_ok (src : option hkind) (k : hkind) : bool :=
  match src, k with
  | Some HSignals, _ => false                 (* a SignalStream does not give access to its connection *)
  | Some HBlocking, _ => false
  | Some (HProxy _), HSignals => true
  | Some _, HSignals => false
  | Some _, _ => true
  | None, _ => false
  end.

Definition step (l : label) (s : st) : option st :=
  match l with
  | LNew n src k =>
      if source_ok (lookup src (handles s)) k && negb (match lookup n (handles s) with Some _ => true | None => false end)
      then Some (upd s ((n, k) :: handles s) (removers s) (queued s) (inflight s) (waiters s) (events s))
      else None
  | LDrop n =>
      match lookup n (handles s) with
      | Some (HProxy c) =>      (* the proxy owned the cache task: cancelled, still to be dropped by the executor *)
          Some (settle (upd_z s (remove_h n (handles s)) (removers s) (if started c then zombies s ++ [cw c] else zombies s)))
      | Some k => Some (settle (upd s (remove_h n (handles s)) (if leaves_remover k then S (removers s) else removers s)
                                      (queued s) (inflight s) (waiters s) (events s)))
      | None => None
      end
  | LAsyncDrop n =>
      match lookup n (handles s) with
      | Some k => if leaves_remover k || match k with HStreamAll => true | _ => false end
                  then Some (settle (upd_z s (remove_h n (handles s)) (removers s) (zombies s))) else None
      | None => None
      end
  | LCacheStart n =>
      match lookup n (handles s) with
      | Some (HProxy CIdle) => Some (upd_z s (set_h n (HProxy CInit) (handles s)) (removers s) (zombies s))
      | _ => None
      end
  | LCacheReady n =>
      match lookup n (handles s) with
      | Some (HProxy CInit) => Some (upd_z s (set_h n (HProxy CRun) (handles s)) (removers s) (zombies s))
      | _ => None
      end
  | LReap =>
      match zombies s with
      | w :: z => Some (settle (upd_z s (handles s) (S (removers s)) z))      (* its PropertiesChanged stream queues a remove-match *)
      | [] => None
      end
  | LRemover =>
      match removers s with
      | S r => Some (settle (upd s (handles s) r (queued s) (inflight s) (waiters s) (events s)))
      | O => None
      end
  | LCallIn k =>
      if reader s && alive s then Some (upd s (handles s) (removers s) (queued s ++ [k]) (inflight s) (waiters s) (events s)) else None
  | LDispatch =>
      match queued s with
      | k :: q => if alive s
                  then Some (upd s (handles s) (removers s) q (inflight s ++ [k]) (waiters s) (events s))     (* upgrade() = Some *)
                  else Some (upd s (handles s) (removers s) [] (inflight s) (waiters s) (events s))            (* upgrade() = None: the task ends *)
      | [] => None
      end
  | LReply k =>
      if mem_n k (inflight s)
      then Some (settle (upd s (handles s) (removers s) (queued s) (remove_n k (inflight s)) (waiters s) (events s ++ [EReply k])))
      else None
  | LGraceful n =>
      match lookup n (handles s) with
      | Some HConn => Some (settle (upd s (remove_h n (handles s)) (removers s) (queued s) (inflight s) (waiters s ++ [n]) (events s)))
      | _ => None
      end
  | LCloseCall n =>
      match lookup n (handles s) with
      | Some HConn => Some (settle (upd s (remove_h n (handles s)) (removers s) (queued s) (inflight s) (waiters s) (events s ++ [ECloseCall])))
      | _ => None
      end
  | LWake n =>
      if mem_n n (waiters s) && negb (alive s)
      then Some (upd s (handles s) (removers s) (queued s) (inflight s) (remove_n n (waiters s)) (events s ++ [EWake n]))
      else None
  | LReaderDrop =>
      if reader s && negb (alive s)
      then Some {| handles := handles s; removers := removers s; zombies := zombies s; queued := queued s; inflight := inflight s;
                   waiters := waiters s; alive := false; reader := false; events := events s ++ [EReadDrop] |}
      else None
  end.

Fixpoint run (tr : list label) (s : st) : option st :=
  match tr with
  | [] => Some s
  | l :: r => match step l s with Some s' => run r s' | None => None end
  end.

Inductive reach : list label -> st -> Prop :=
  | reach_init : reach [] init
  | reach_step tr s l s' : reach tr s -> step l s = Some s' -> reach (tr ++ [l]) s'.
