(* C39/Run.v — two-phase line driver.  Input: <case> TAB <observation>  (harness/hfail mode D, see src/droprel.rs)
     case         D <seed> <op>,<op>,...
     observation  snap=<token per op>;events=<...>
   model field: OK when the model (Model.step after every op, then its internal steps to exhaustion) shows the same halves dropped
                and the same graceful_shutdown calls returned after every op, and the same sequence of replies / close() / transport
                closing; otherwise what the model predicts.
   spec field : OK when the observation is what the independent count of Spec.v demands after every op and the events are in
                the order the property demands. *)
From ZV Require Import Base.Bytes Base.Res C39.Model C39.Spec.

Definition nat_of_dec (s : bytes) : option nat := option_map N.to_nat (N_of_dec s).
Definition dec (n : nat) : bytes := dec_of_N (N.of_nat n).

Definition parse_op (s : bytes) : option op :=
  match s with
  | c :: r =>
      let ps := split_on ":"%byte r in
      let n0 := match ps with a :: _ => nat_of_dec a | [] => None end in
      let n1 := match ps with _ :: b :: _ => nat_of_dec b | _ => None end in
      if beq c "k"%byte then match n0, n1 with Some n, Some h => Some (ONew n h HConn) | _, _ => None end
      else if beq c "p"%byte then
        match n0, n1 with
        | Some n, Some h =>
            match ps with
            | [_; _] => Some (ONew n h (HProxy CIdle))
            | [_; _; m] => if lbeq m (B "n") then Some (ONew n h (HProxy CNo)) else if lbeq m (B "l") then Some (ONew n h (HProxy CIdle))
                           else if lbeq m (B "e") then Some (ONew n h (HProxy CRun)) else None
            | _ => None
            end
        | _, _ => None
        end
      else if beq c "b"%byte then match n0, n1 with Some n, Some h => Some (ONew n h HBlocking) | _, _ => None end
      else if beq c "c"%byte then option_map OCacheStart n0
      else if beq c "v"%byte then option_map OCacheStart n0
      else if beq c "a"%byte then option_map OCacheReady n0
      else if beq c "D"%byte then option_map OAsyncDrop n0
      else if beq c "g"%byte then match n0, n1 with Some n, Some h => Some (ONew n h HSignals) | _, _ => None end
      else if beq c "s"%byte then
        match n0, n1, ps with
        | Some n, Some h, [_; _; k] =>
            if lbeq k (B "*") then Some (ONew n h HStreamAll) else if lbeq k (B "A") then Some (ONew n h (HStreamRule 0))
            else if lbeq k (B "B") then Some (ONew n h (HStreamRule 1)) else None
        | _, _, _ => None
        end
      else if beq c "d"%byte then option_map ODrop n0
      else if beq c "G"%byte then option_map OGraceful n0
      else if beq c "C"%byte then option_map OClose n0
      else if beq c "m"%byte then option_map (fun k => OCall k false) n0
      else if beq c "f"%byte then option_map (fun k => OCall k true) n0
      else if beq c "r"%byte then option_map ORelease n0
      else None
  | [] => None
  end.

Fixpoint parse_all {A B} (f : A -> option B) (l : list A) : option (list B) :=
  match l with
  | [] => Some []
  | x :: r => match f x, parse_all f r with Some y, Some ys => Some (y :: ys) | _, _ => None end
  end.

(* ---------------------------------------------------------------- the model, op by op *)
Definition try_step (l : label) (s : st) : st := match step l s with Some s' => s' | None => s end.

Fixpoint quiesce (fuel : nat) (rel : list nat) (s : st) : st :=
  match fuel with
  | O => s
  | S f =>
      match removers s, queued s with
      | S _, _ => quiesce f rel (try_step LRemover s)
      | O, _ :: _ => quiesce f rel (try_step LDispatch s)
      | O, [] =>
          match zombies s with _ :: _ => quiesce f rel (try_step LReap s) | [] =>
          match find (fun k => mem_n k rel) (inflight s) with
          | Some k => quiesce f rel (try_step (LReply k) s)
          | None =>
              if alive s then s
              else match waiters s with
                   | n :: _ => quiesce f rel (try_step (LWake n) s)
                   | [] => if reader s then quiesce f rel (try_step LReaderDrop s) else s
                   end
          end end
      end
  end.

Definition fuel0 : nat := 32 * 32.

Definition apply_op (o : op) (rel : list nat) (s : st) : list nat * st :=
  match o with
  | ONew n src (HProxy CRun) =>      (* CacheProperties::Yes: build() starts the cache and waits for it *)
      (rel, try_step (LCacheReady n) (try_step (LCacheStart n) (try_step (LNew n src (HProxy CIdle)) s)))
  | ONew n src k => (rel, try_step (LNew n src k) s)
  | OAsyncDrop n => (rel, try_step (LAsyncDrop n) s)
  | OCacheStart n => (rel, try_step (LCacheStart n) s)
  | OCacheReady n => (rel, try_step (LCacheReady n) s)
  | ODrop n => (rel, try_step (LDrop n) s)
  | OGraceful n => (rel, try_step (LGraceful n) s)
  | OClose n => (rel, try_step (LCloseCall n) s)
  | OCall k fast => ((if fast then k :: rel else rel), try_step (LCallIn k) s)
  | ORelease k => (k :: rel, s)
  end.

Definition woken (s : st) (n : nat) : bool := existsb (fun e => match e with EWake m => Nat.eqb m n | _ => false end) (events s).

Fixpoint model_snaps (ops : list op) (rel gs : list nat) (s : st) : list snap * st :=
  match ops with
  | [] => ([], s)
  | o :: r =>
      let '(rel', s1) := apply_op o rel s in
      let s2 := quiesce fuel0 rel' s1 in
      let gs' := match o with OGraceful n => if Nat.eqb (length (waiters s1)) (length (waiters s)) then gs else gs ++ [n] | _ => gs end in
      let '(rest, sf) := model_snaps r rel' gs' s2 in
      ({| sn_w := negb (alive s2); sn_r := negb (reader s2); sn_gs := filter (woken s2) gs' |} :: rest, sf)
  end.

(* ---------------------------------------------------------------- reading / printing *)
Fixpoint parse_plus (l : list bytes) : option (list nat) :=
  match l with [] => Some [] | x :: r => match nat_of_dec x, parse_plus r with Some n, Some ns => Some (n :: ns) | _, _ => None end end.

Definition parse_snap (s : bytes) : option snap :=
  match split_on "+"%byte s with
  | [w; r] :: gs =>
      match parse_plus gs with
      | Some l =>
          let wb := beq w "W"%byte in let rb := beq r "R"%byte in
          if (wb || beq w "w"%byte) && (rb || beq r "r"%byte) then Some {| sn_w := wb; sn_r := rb; sn_gs := l |} else None
      | None => None
      end
  | _ => None
  end.

Definition parse_event (s : bytes) : option event :=
  if lbeq s (B "dw") then Some EClosed else if lbeq s (B "dr") then Some EReadDrop else if lbeq s (B "cl") then Some ECloseCall
  else match s with
       | c :: r => if beq c "y"%byte then option_map EReply (nat_of_dec r)
                   else if starts_with (B "gs") s then option_map EWake (nat_of_dec (skipn 2 s)) else None
       | [] => None
       end.

Definition snap_tok (x : snap) : bytes :=
  (if sn_w x then B "W" else B "w") ++ (if sn_r x then B "R" else B "r") ++ flat_map (fun n => B "+" ++ dec n) (sn_gs x).
Definition event_tok (e : event) : bytes :=
  match e with EReply k => B "y" ++ dec k | ECloseCall => B "cl" | EClosed => B "dw" | EReadDrop => B "dr" | EWake n => B "gs" ++ dec n end.

Definition core_event (e : event) : bool := match e with EWake _ | EReadDrop => false | _ => true end.
Fixpoint events_eqb (a b : list event) : bool :=
  match a, b with
  | [], [] => true
  | x :: a', y :: b' => lbeq (event_tok x) (event_tok y) && events_eqb a' b'
  | _, _ => false
  end.

(* the replies the session must produce, in order: released handlers that were in flight, and fast calls *)
Fixpoint spec_replies (ops : list op) (a : acc) : list nat :=
  match ops with
  | [] => []
  | o :: r =>
      let here := match o with
                  | ORelease k => if mem_n k (a_fl a) then [k] else []
                  | OCall k fast => if negb (a_closed a) && (fast || mem_n k (a_rel a)) then [k] else []
                  | _ => []
                  end in
      here ++ spec_replies r (a_step o a)
  end.

Definition field (name : bytes) (fs : list bytes) : option bytes :=
  match find (fun f => starts_with (name ++ B "=") f) fs with Some f => Some (skipn (S (length name)) f) | None => None end.

Definition tokOK : bytes := B "OK".

Definition run_case (line : bytes) : outp :=
  match split_on tab line with
  | [case; obs] =>
      if lbeq obs (B "PANIC") then {| o_model := B "impl-panicked"; o_spec := B "a-task-panicked"; o_class := dash |} else
      match words case with
      | [d; _; opss] =>
          let fs := split_on ";"%byte obs in
          match parse_all parse_op (filter (fun w => negb (lbeq w [])) (split_on ","%byte opss)), field (B "snap") fs, field (B "events") fs with
          | Some ops, Some snap_s, Some ev_s =>
              match parse_all parse_snap (split_on "."%byte snap_s),
                    (if lbeq ev_s (B "-") then Some [] else parse_all parse_event (split_on "."%byte ev_s)) with
              | Some osnaps, Some oev =>
                  let '(msnaps, sf) := model_snaps ops [] [] init in
                  let mev := filter core_event (events sf) in
                  let model :=
                    if snaps_eqb msnaps osnaps && events_eqb mev (filter core_event oev) then tokOK
                    else B "predicted:snap=" ++ join (B ".") (map snap_tok msnaps) ++ B ";events=" ++ join (B ".") (map event_tok mev) in
                  let replies := flat_map (fun e => match e with EReply k => [k] | _ => [] end) oev in
                  let spec :=
                    if negb (snaps_eqb (spec_snaps ops a_init) osnaps) then
                      B "expected:snap=" ++ join (B ".") (map snap_tok (spec_snaps ops a_init))
                    else if negb (ordered_b oev false) then B "events-out-of-order"
                    else if negb (nat_list_eqb replies (spec_replies ops a_init)) then B "replies-differ"
                    else tokOK in
                  {| o_model := model; o_spec := spec; o_class := dash |}
              | _, _ => {| o_model := B "unreadable-observation"; o_spec := B "unreadable-observation"; o_class := dash |}
              end
          | _, _, _ => bad_case
          end
      | _ => bad_case
      end
  | _ => bad_case
  end.

Definition run (line : bytes) : bytes := render (run_case line).
