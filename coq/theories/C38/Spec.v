(* C38/Spec.v — "transport failures end pending work with errors, never hangs", stated without the model's machinery:
   (1) as predicates on states of the step system (what the theorems prove), and
   (2) as an executable oracle on what one faulted session of the real implementation showed (what ./check evaluates). *)
From ZV Require Import Base.Bytes Base.Res C38.Model.

(* ---------------------------------------------------------------- (1) predicates on states *)
Definition final_task (t : task) : bool :=
  match t with
  | TCall _ _ _ (CDone _) => true
  | TStream _ _ _ (SFail _) => true
  | TStream _ _ _ (SEnd _) => true
  | TEmit _ EOk => true
  | TEmit _ EFail => true
  | _ => false
  end.

(* every call has completed, every stream has ended (or was refused), the reader is gone *)
Definition final (s : st) : Prop := s_rd s = RdDone /\ forallb final_task (s_tasks s) = true.

(* nothing can move *)
Definition stuck (c : cfg) (s : st) : Prop := forall l, step c l s = None.

(* the deviation class of the code before fix 3703ee13: an entry was put into msg_senders after the reader cleared it (add_match
   checked before the clear and inserted after it).  No reachable state is in it any more: Progress.never_raced *)
Definition raced (s : st) : bool :=
  match s_rd s with RdDone => negb (is_nil (s_senders s)) | _ => false end.

(* byte offset at which inbound message n starts *)
Fixpoint off (ms : list imsg) (n : nat) : nat :=
  match n, ms with
  | S n', m :: r => i_len m + off r n'
  | _, _ => 0
  end.

Definition is_err_outcome (o : outcome) : bool :=
  match o with OIo _ | OPipe | OAborted => true | _ => false end.

Definition wf (c : cfg) : Prop := (forall m, In m (msgs c) -> 1 <= i_len m) /\ (forall ch, 1 <= cap c ch).

(* what a receiver activated when `from` messages had gone to its channel has been handed once `upto` have *)
Definition expected (c : cfg) (ch : chan) (from upto : nat) : list item :=
  map IMsg (filter (fun k => match nth_error (msgs c) k with Some m => cmatch ch m | None => false end) (seq from (upto - from))).

(* ---------------------------------------------------------------- (2) the oracle on one observed session *)
Inductive sstate := StOpening | StOpen | StEnded | StFailed (o : option outcome).
Inductive tobs :=
  | ObCall (o : option outcome)                    (* None = still pending when nothing could move any more *)
  | ObStream (items : list item) (s : sstate)
  | ObEmit (o : option bool)
  | ObOther.

(* what the session asked for, per task *)
Inductive tdesc :=
  | DCall (serial : nat)
  | DStream (src : option nat) (known_from : option nat)   (* messages released before it was opened, when that is certain *)
  | DEmit.

Fixpoint nat_list_eqb (a b : list nat) : bool :=
  match a, b with
  | [], [] => true
  | x :: a', y :: b' => Nat.eqb x y && nat_list_eqb a' b'
  | _, _ => false
  end.

(* number of inbound messages that lie completely inside the first `cut` bytes *)
Fixpoint complete (ms : list imsg) (cut : nat) : nat :=
  match ms with
  | [] => 0
  | m :: r => if i_len m <=? cut then S (complete r (cut - i_len m)) else 0
  end.

Fixpoint split_items (l : list item) : list nat * list item :=
  match l with
  | IMsg k :: r => let '(a, b) := split_items r in (k :: a, b)
  | _ => ([], l)
  end.

Definition matching (ms : list imsg) (ch : chan) (from upto : nat) : list nat :=
  filter (fun k => match nth_error ms k with Some m => cmatch ch m | None => false end) (seq from (upto - from)).

(* a stream's yield: the matching messages among the complete ones, from some point on (not later than `latest`), none skipped,
   in order, then at most one error item *)
Definition stream_items_ok (ms : list imsg) (ch : chan) (n latest : nat) (items : list item) : bool :=
  let '(ks, tail) := split_items items in
  (match tail with [] => true | [IErr _] => true | _ => false end) &&
  existsb (fun j => nat_list_eqb ks (matching ms ch j n)) (seq 0 (S (Nat.min latest n))).

Definition chan_of_src (src : option nat) : chan := match src with None => CAll | Some r => CSub r end.

Definition call_ok (ms : list imsg) (n serial : nat) (o : option outcome) : bool :=
  match o with
  | None => false                                                  (* a hang *)
  | Some (OOk k) => (k <? n) && match nth_error ms k with Some {| i_class := MReply s |} => Nat.eqb s serial | _ => false end
  | Some (OMErr k) => (k <? n) && match nth_error ms k with Some {| i_class := MError s |} => Nat.eqb s serial | _ => false end
  | Some OPanic => false
  | Some _ => true
  end.

(* one task of a session in which the transport failed after `n` complete messages; `later` = started after the failure *)
Definition task_ok (ms : list imsg) (n : nat) (later : bool) (d : tdesc) (o : tobs) : bool :=
  match d, o with
  | DCall serial, ObCall r =>
      call_ok ms n serial r && (negb later || match r with Some x => is_err_outcome x | None => false end)
  | DStream src from, ObStream items stt =>
      match stt with
      | StEnded => stream_items_ok ms (chan_of_src src) n (match from with Some f => f | None => n end) items
                   && (negb later || match src with None => is_nil (fst (split_items items)) | Some _ => false end)
      | StFailed (Some x) => is_nil items && is_err_outcome x
      | _ => false                                                 (* a stream that never ends *)
      end
  | DEmit, ObEmit (Some _) => true
  | _, _ => false
  end.

Fixpoint tasks_ok (ms : list imsg) (n : nat) (laters : list bool) (ds : list tdesc) (os : list tobs) : option nat :=
  match ds, os, laters with
  | [], [], _ => None
  | d :: ds', o :: os', l :: ls' => if task_ok ms n l d o then option_map S (tasks_ok ms n ls' ds' os') else Some 0
  | _, _, _ => Some 0
  end.
