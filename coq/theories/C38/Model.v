(* C38/Model.v — executable small-step mirror of what zbus does with a failing transport.  No proofs in this file.

   zbus/src/connection/socket_reader.rs  SocketReader::receive_msg:
        loop {
            let msg = self.read_socket().await;                       LRecv n  (recvmsg delivers n bytes; the message is complete
                                                                                when all its bytes are there)   |  LFault
            let mut senders = self.senders.lock().await;              the reader owns `msg_senders` while s_rd = RdBcast ..
            for (rule, sender) in &*senders {                         LBcast j : one entry (any order: HashMap iteration)
                if let Ok(msg) = &msg { if rule does not match { continue } }
                sender.broadcast_direct(msg.clone()).await            waits while the channel is full; Err (no receiver) ignored
            }
            if msg.is_err() { senders.clear(); return; }              LBcastEnd
        }
   zbus/src/connection/mod.rs
        Connection::new           msg_senders = { None -> msg channel, type=method_return -> R, type=error -> R }   (R twice)
        call_method_raw           receiver = method_return_receiver.activate_cloned();  self.send(&msg).await?;  PendingMethodCall
        PendingMethodCall::poll   item Ok(reply to me) -> Ok / Err(MethodError); other Ok -> skip; item Err(e) -> Err(e);
                                  channel terminated -> Err(BrokenPipe)
        add_match                 if msg_senders.lock().await.is_empty() { return Err(BrokenPipe) }            (SNew: the check)
                                  subscriptions.lock().await                                                   (SLocking)
                                  Entry::Occupied -> receiver.activate_cloned()
                                  Entry::Vacant   -> [bus && signal rule: call_method(AddMatch).await?]        (SAdd)
                                                     msg_senders.lock().await; is_empty() -> Err(BrokenPipe) (re-test, fix 3703ee13)
                                                     subscriptions.insert; senders.insert                    (SChecked: the insert)
        send                      socket_write.lock(); send_message: one sendmsg per chunk, first error aborts (C18 shows sends are
                                  mutually exclusive: a send is one step here, costing `cost` sendmsg calls)
   zbus/src/message_stream.rs     MessageStream::poll_next = Receiver::poll_next: item | pending | None once closed and drained
   async-broadcast (contract, DESIGN Appendix B): every active receiver sees every item broadcast after its activation, in order;
   `broadcast_direct` waits while some active receiver has `capacity` unread items; dropping the last Sender closes the channel and
   receivers drain then end.  A receiver is modelled by its own inbox (`x_inbox`) and what it consumed (`x_got`). *)
From ZV Require Import Base.Bytes Base.Res.

Inductive ekind := EEof | EReset.
Inductive item := IMsg (k : nat) | IErr (e : ekind).
Inductive key := KAll | KRet | KErrs | KRule (r : nat).
Inductive chan := CAll | CRet | CSub (r : nat).
Inductive mclass := MReply (serial : nat) | MError (serial : nat) | MSignal (rules : list nat).
Record imsg := { i_len : nat; i_class : mclass }.

Definition chan_of (k : key) : chan :=
  match k with KAll => CAll | KRet => CRet | KErrs => CRet | KRule r => CSub r end.

Definition chan_eqb (a b : chan) : bool :=
  match a, b with CAll, CAll => true | CRet, CRet => true | CSub r, CSub r' => Nat.eqb r r' | _, _ => false end.
Definition key_eqb (a b : key) : bool :=
  match a, b with KAll, KAll => true | KRet, KRet => true | KErrs, KErrs => true | KRule r, KRule r' => Nat.eqb r r' | _, _ => false end.

Definition mem (r : nat) (l : list nat) : bool := existsb (Nat.eqb r) l.

(* `rule.matches(msg)` for the entries of msg_senders (the rules of this model only constrain signals) *)
Definition kmatch (k : key) (m : imsg) : bool :=
  match k, i_class m with
  | KAll, _ => true
  | KRet, MReply _ => true
  | KErrs, MError _ => true
  | KRule r, MSignal rs => mem r rs
  | _, _ => false
  end.
(* does channel c get message m at all *)
Definition cmatch (c : chan) (m : imsg) : bool :=
  match c, i_class m with
  | CAll, _ => true
  | CRet, MReply _ => true
  | CRet, MError _ => true
  | CSub r, MSignal rs => mem r rs
  | _, _ => false
  end.

Record cfg := {
  msgs : list imsg;          (* what the peer sends, in order *)
  fpos : nat;                (* the inbound stream fails at this byte position (or where it ends) *)
  fkind : ekind;
  wbudget : option nat;      (* Some j: sendmsg call number j (0-based) and all later ones fail *)
  bus : bool;                (* bus connection: add_match makes an AddMatch round trip *)
  cap : chan -> nat          (* queue capacities *)
}.

Inductive outcome := OOk (k : nat) | OMErr (k : nat) | OIo (e : ekind) | OPipe | OAborted | OPanic.

(* a receiver; x_from is a ghost: how many inbound messages had already been broadcast to its channel when it was activated *)
Record rx := { x_chan : chan; x_from : nat; x_got : list item; x_inbox : list item }.

Inductive cph := CNew | CSend (x : rx) | CWait (x : rx) | CDone (o : outcome).
Inductive sph := SNew | SLocking | SAdd (c : cph) | SChecked | SOpen (x : rx) | SFail (o : outcome) | SEnd (x : rx).
Inductive eph := ENew | EOk | EFail.

Inductive task :=
  | TCall (serial cost : nat) (noreply : bool) (p : cph)      (* call_method: noreply = false *)
  | TStream (src : option nat) (serial cost : nat) (p : sph)  (* None: MessageStream::from; Some r: for_match_rule(rule r) *)
  | TEmit (cost : nat) (p : eph).

Inductive rd := RdRead (got : nat) | RdBcast (it : item) (rest : list key) | RdDone.

Record st := {
  s_pos : nat;               (* inbound bytes consumed *)
  s_next : nat;              (* inbound messages read completely = index of the message being read *)
  s_rd : rd;
  s_senders : list key;      (* msg_senders *)
  s_subs : list nat;         (* subscriptions *)
  s_sublock : bool;          (* the subscriptions mutex (held across the AddMatch round trip) *)
  s_tasks : list task;
  s_broken : bool;           (* a sendmsg failed *)
  s_wcalls : nat             (* successful sendmsg calls *)
}.

Definition init (ts : list task) : st :=
  {| s_pos := 0; s_next := 0; s_rd := RdRead 0; s_senders := [KAll; KRet; KErrs]; s_subs := []; s_sublock := false;
     s_tasks := ts; s_broken := false; s_wcalls := 0 |}.

(* ---------------------------------------------------------------- channels *)
Definition has_key (c : chan) (ks : list key) : bool := existsb (fun k => chan_eqb (chan_of k) c) ks.
Definition closed (c : chan) (s : st) : bool := negb (has_key c (s_senders s)).

Definition cph_rx (p : cph) : option rx := match p with CSend x | CWait x => Some x | _ => None end.
Definition task_rx (t : task) : option rx :=
  match t with
  | TCall _ _ _ p => cph_rx p
  | TStream _ _ _ (SAdd p) => cph_rx p
  | TStream _ _ _ (SOpen x) => Some x
  | _ => None
  end.

Definition push_rx (c : chan) (it : item) (x : rx) : rx :=
  if chan_eqb (x_chan x) c then {| x_chan := x_chan x; x_from := x_from x; x_got := x_got x; x_inbox := x_inbox x ++ [it] |} else x.
Definition push_cph (c : chan) (it : item) (p : cph) : cph :=
  match p with CSend x => CSend (push_rx c it x) | CWait x => CWait (push_rx c it x) | _ => p end.
Definition push_task (c : chan) (it : item) (t : task) : task :=
  match t with
  | TCall s k n p => TCall s k n (push_cph c it p)
  | TStream src s k (SAdd p) => TStream src s k (SAdd (push_cph c it p))
  | TStream src s k (SOpen x) => TStream src s k (SOpen (push_rx c it x))
  | _ => t
  end.

Definition rx_full (c : cfg) (ch : chan) (x : rx) : bool := chan_eqb (x_chan x) ch && (cap c ch <=? length (x_inbox x)).
Definition full (c : cfg) (ch : chan) (ts : list task) : bool :=
  existsb (fun t => match task_rx t with Some x => rx_full c ch x | None => false end) ts.

(* how many inbound messages have been broadcast to channel ch (the one in progress counts once its entry was visited) *)
Definition front (c : cfg) (ch : chan) (s : st) : nat :=
  match s_rd s with
  | RdBcast (IMsg k) rest =>
      match nth_error (msgs c) k with
      | Some m => if existsb (fun key => chan_eqb (chan_of key) ch && kmatch key m) rest then k else S k
      | None => S k
      end
  | _ => s_next s
  end.

Definition new_rx (c : cfg) (ch : chan) (s : st) : rx := {| x_chan := ch; x_from := front c ch s; x_got := []; x_inbox := [] |}.

(* ---------------------------------------------------------------- helpers on lists *)
Fixpoint set_nth {A} (i : nat) (v : A) (l : list A) : list A :=
  match l, i with
  | [], _ => []
  | _ :: r, O => v :: r
  | x :: r, S i' => x :: set_nth i' v r
  end.
Definition del_nth {A} (j : nat) (l : list A) : list A := firstn j l ++ skipn (S j) l.

Definition set_task (s : st) (i : nat) (t : task) : st :=
  {| s_pos := s_pos s; s_next := s_next s; s_rd := s_rd s; s_senders := s_senders s; s_subs := s_subs s; s_sublock := s_sublock s;
     s_tasks := set_nth i t (s_tasks s); s_broken := s_broken s; s_wcalls := s_wcalls s |}.
Definition set_write (s : st) (b : bool) (w : nat) : st :=
  {| s_pos := s_pos s; s_next := s_next s; s_rd := s_rd s; s_senders := s_senders s; s_subs := s_subs s; s_sublock := s_sublock s;
     s_tasks := s_tasks s; s_broken := b; s_wcalls := w |}.
Definition set_sublock (s : st) (b : bool) : st :=
  {| s_pos := s_pos s; s_next := s_next s; s_rd := s_rd s; s_senders := s_senders s; s_subs := s_subs s; s_sublock := b;
     s_tasks := s_tasks s; s_broken := s_broken s; s_wcalls := s_wcalls s |}.
Definition add_sub (s : st) (r : nat) : st :=
  {| s_pos := s_pos s; s_next := s_next s; s_rd := s_rd s; s_senders := KRule r :: s_senders s; s_subs := r :: s_subs s;
     s_sublock := false; s_tasks := s_tasks s; s_broken := s_broken s; s_wcalls := s_wcalls s |}.
Definition set_rd (s : st) (pos next : nat) (r : rd) (ks : list key) (ts : list task) : st :=
  {| s_pos := pos; s_next := next; s_rd := r; s_senders := ks; s_subs := s_subs s; s_sublock := s_sublock s;
     s_tasks := ts; s_broken := s_broken s; s_wcalls := s_wcalls s |}.

(* ---------------------------------------------------------------- Connection::send (one message, `cost` sendmsg calls) *)
Definition send_try (c : cfg) (s : st) (cost : nat) : bool * st :=
  if s_broken s then (false, s)
  else match wbudget c with
       | Some b => if s_wcalls s + cost <=? b then (true, set_write s false (s_wcalls s + cost)) else (false, set_write s true b)
       | None => (true, set_write s false (s_wcalls s + cost))
       end.

(* ---------------------------------------------------------------- one step of a method call *)
Definition reply_for (c : cfg) (serial k : nat) : option outcome :=
  match nth_error (msgs c) k with
  | Some m => match i_class m with
              | MReply s' => if Nat.eqb s' serial then Some (OOk k) else None
              | MError s' => if Nat.eqb s' serial then Some (OMErr k) else None
              | MSignal _ => None
              end
  | None => None
  end.

Definition take_rx (x : rx) (it : item) (rest : list item) : rx :=
  {| x_chan := x_chan x; x_from := x_from x; x_got := x_got x ++ [it]; x_inbox := rest |}.

Definition cstep (c : cfg) (s : st) (serial cost : nat) (noreply : bool) (p : cph) : option (cph * st) :=
  match p with
  | CNew => Some (CSend (new_rx c CRet s), s)                                   (* activate_cloned, before the send *)
  | CSend x =>
      let '(ok, s') := send_try c s cost in
      if ok then (if noreply then Some (CDone OPanic, s') (* call_method: .expect("no reply") on Ok(None) *) else Some (CWait x, s'))
      else Some (CDone OAborted, s')
  | CWait x =>
      match x_inbox x with
      | IMsg k :: rest => match reply_for c serial k with
                          | Some o => Some (CDone o, s)
                          | None => Some (CWait (take_rx x (IMsg k) rest), s)
                          end
      | IErr e :: _ => Some (CDone (OIo e), s)
      | [] => if closed CRet s then Some (CDone OPipe, s) else None
      end
  | CDone _ => None
  end.

Definition locked (s : st) : bool := match s_rd s with RdBcast _ _ => true | _ => false end.
Definition is_nil {A} (l : list A) : bool := match l with [] => true | _ => false end.

(* ---------------------------------------------------------------- one step of task i *)
Definition tstep (c : cfg) (s : st) (i : nat) : option st :=
  match nth_error (s_tasks s) i with
  | None => None
  | Some (TCall serial cost nr p) =>
      match cstep c s serial cost nr p with
      | Some (p', s') => Some (set_task s' i (TCall serial cost nr p'))
      | None => None
      end
  | Some (TEmit cost p) =>
      match p with
      | ENew => let '(ok, s') := send_try c s cost in Some (set_task s' i (TEmit cost (if ok then EOk else EFail)))
      | _ => None
      end
  | Some (TStream src serial cost p) =>
      let put s' p' := Some (set_task s' i (TStream src serial cost p')) in
      match p with
      | SNew =>
          match src with
          | None => put s (SOpen (new_rx c CAll s))                             (* msg_receiver.activate_cloned() *)
          | Some r =>
              if locked s then None
              else if is_nil (s_senders s) then put s (SFail OPipe) else put s SLocking
          end
      | SLocking =>
          if s_sublock s then None
          else if (match src with Some r => mem r (s_subs s) | None => true end)
               then put s (SOpen (new_rx c (match src with Some r => CSub r | None => CAll end) s))
               else put (set_sublock s true) (if bus c then SAdd CNew else SChecked)
      | SAdd q =>
          match q with
          | CDone (OOk _) => put s SChecked
          | CDone o => put (set_sublock s false) (SFail o)
          | _ =>
              match cstep c s serial cost false q with
              | Some (q', s') => put s' (SAdd q')
              | None => None
              end
          end
      | SChecked =>
          if locked s then None
          else match src with
               | Some r =>
                   (* `let mut senders = msg_senders.lock().await; if senders.is_empty() { return Err(BrokenPipe) }` (fix 3703ee13):
                      the reader has gone while we waited; nothing is inserted, the subscriptions guard is dropped *)
                   if is_nil (s_senders s) then put (set_sublock s false) (SFail OPipe)
                   else let x := new_rx c (CSub r) s in put (add_sub s r) (SOpen x)
               | None => put (set_sublock s false) (SOpen (new_rx c CAll s))
               end
      | SOpen x =>
          match x_inbox x with
          | it :: rest => put s (SOpen (take_rx x it rest))
          | [] => if closed (x_chan x) s then put s (SEnd x) else None
          end
      | SFail _ | SEnd _ => None
      end
  end.

(* ---------------------------------------------------------------- the system *)
Inductive label :=
  | LRecv (n : nat)        (* recvmsg hands the reader n more bytes of the current message *)
  | LFault                 (* recvmsg fails / reports end-of-file *)
  | LBcast (j : nat)       (* the reader handles the j-th of the entries of msg_senders it has not visited yet *)
  | LBcastEnd
  | LTask (i : nat).       (* user task i makes its next move *)

Definition step (c : cfg) (l : label) (s : st) : option st :=
  match l, s_rd s with
  | LRecv n, RdRead got =>
      match nth_error (msgs c) (s_next s) with
      | Some m =>
          if negb (s_broken s) && (1 <=? n) && (s_pos s + n <=? fpos c) && (got + n <=? i_len m) then
            if i_len m <=? got + n
            then Some (set_rd s (s_pos s + n) (S (s_next s)) (RdBcast (IMsg (s_next s)) (s_senders s)) (s_senders s) (s_tasks s))
            else Some (set_rd s (s_pos s + n) (s_next s) (RdRead (got + n)) (s_senders s) (s_tasks s))
          else None
      | None => None
      end
  | LFault, RdRead _ =>
      if s_broken s || (fpos c <=? s_pos s) || (length (msgs c) <=? s_next s)
      then Some (set_rd s (s_pos s) (s_next s) (RdBcast (IErr (fkind c)) (s_senders s)) (s_senders s) (s_tasks s))
      else None
  | LBcast j, RdBcast it rest =>
      match nth_error rest j with
      | Some k =>
          let rest' := del_nth j rest in
          let deliver := match it with
                         | IMsg n => match nth_error (msgs c) n with Some m => kmatch k m | None => false end
                         | IErr _ => true
                         end in
          if deliver then
            if full c (chan_of k) (s_tasks s) then None
            else Some (set_rd s (s_pos s) (s_next s) (RdBcast it rest') (s_senders s) (map (push_task (chan_of k) it) (s_tasks s)))
          else Some (set_rd s (s_pos s) (s_next s) (RdBcast it rest') (s_senders s) (s_tasks s))
      | None => None
      end
  | LBcastEnd, RdBcast it [] =>
      match it with
      | IErr _ => Some (set_rd s (s_pos s) (s_next s) RdDone [] (s_tasks s))      (* senders.clear(); return *)
      | IMsg _ => Some (set_rd s (s_pos s) (s_next s) (RdRead 0) (s_senders s) (s_tasks s))
      end
  | LTask i, _ => tstep c s i
  | _, _ => None
  end.

Fixpoint run (c : cfg) (tr : list label) (s : st) : option st :=
  match tr with
  | [] => Some s
  | l :: r => match step c l s with Some s' => run c r s' | None => None end
  end.

Inductive reach (c : cfg) (ts : list task) : list label -> st -> Prop :=
  | reach_init : reach c ts [] (init ts)
  | reach_step tr s l s' : reach c ts tr s -> step c l s = Some s' -> reach c ts (tr ++ [l]) s'.
