(* C38/Measure.v — every step strictly decreases a natural number: no schedule runs forever. *)
From ZV Require Import Base.Bytes Base.Res C38.Model C38.Spec C38.Progress.
From Coq Require Import Lia.

Fixpoint sumf {A} (f : A -> nat) (l : list A) : nat := match l with [] => 0 | x :: r => f x + sumf f r end.

Lemma sumf_set_nth {A} (f : A -> nat) l i t v : nth_error l i = Some t -> sumf f (set_nth i v l) + f t = sumf f l + f v.
Proof.
  revert i; induction l as [|x l IH]; intros i H; [now destruct i|].
  destruct i as [|i]; cbn in *.
  - inversion H; subst. lia.
  - specialize (IH i H). lia.
Qed.

Lemma sumf_map_le {A} (f : A -> nat) (g : A -> A) l : (forall x, f (g x) <= f x + 1) -> sumf f (map g l) <= sumf f l + length l.
Proof.
  intros H. induction l as [|x l IH]; cbn; [lia|]. specialize (H x). lia.
Qed.
Lemma sumf_map_eq {A} (f : A -> nat) (g : A -> A) l : (forall x, f (g x) = f x) -> sumf f (map g l) = sumf f l.
Proof.
  intros H. induction l as [|x l IH]; cbn; [reflexivity|]. now rewrite H, IH.
Qed.

(* streams that may still add an entry to msg_senders *)
Definition preopen (t : task) : nat :=
  match t with TStream _ _ _ (SNew | SLocking | SAdd _ | SChecked) => 1 | _ => 0 end.
Definition kbound (s : st) : nat := length (s_senders s) + sumf preopen (s_tasks s).

Definition rho (c : cfg) (s : st) : nat :=
  let ml := length (msgs c) - s_next s in
  let bl := fpos c - s_pos s in
  match s_rd s with
  | RdRead _ => (ml + 1) * (kbound s + 2) + bl
  | RdBcast (IMsg _) rest => (ml + 1) * (kbound s + 2) + bl + length rest + 1
  | RdBcast (IErr _) rest => length rest + 1
  | RdDone => 0
  end.

Definition tau_c (p : cph) : nat :=
  match p with CNew => 4 | CSend x => 3 + length (x_inbox x) | CWait x => 2 + length (x_inbox x) | CDone _ => 0 end.
Definition tau (t : task) : nat :=
  match t with
  | TCall _ _ _ p => tau_c p
  | TStream _ _ _ p =>
      match p with
      | SNew => 13 | SLocking => 12 | SAdd q => 6 + tau_c q | SChecked => 5 | SOpen x => 2 + length (x_inbox x)
      | SFail _ => 0 | SEnd _ => 0
      end
  | TEmit _ ENew => 1
  | TEmit _ _ => 0
  end.

Definition mu (c : cfg) (s : st) : nat := (length (s_tasks s) + 1) * rho c s + sumf tau (s_tasks s).

Lemma tau_push ch it t : tau (push_task ch it t) <= tau t + 1.
Proof.
  assert (Hx : forall x, length (x_inbox (push_rx ch it x)) <= length (x_inbox x) + 1).
  { intros x. unfold push_rx. destruct (chan_eqb (x_chan x) ch); cbn; [rewrite app_length; cbn|]; lia. }
  assert (Hc : forall p, tau_c (push_cph ch it p) <= tau_c p + 1).
  { intros [|x|x|o]; cbn; try lia; specialize (Hx x); lia. }
  destruct t as [? ? ? p|? ? ? p|? p]; cbn; [apply Hc| |lia].
  destruct p; cbn; try lia; [specialize (Hc c); lia | specialize (Hx x); lia].
Qed.
Lemma preopen_push ch it t : preopen (push_task ch it t) = preopen t.
Proof. destruct t as [? ? ? p|? ? ? p|? p]; try reflexivity. destruct p; reflexivity. Qed.

Lemma cstep_tau c s serial cost nr p p' s' : cstep c s serial cost nr p = Some (p', s') -> tau_c p' < tau_c p.
Proof.
  destruct p as [|x|x|o]; cbn [cstep].
  - intros H; inversion H; subst. cbn. lia.
  - destruct (send_try c s cost) as [ok s1]. destruct ok; [destruct nr|]; intros H; inversion H; subst; cbn; lia.
  - destruct (x_inbox x) as [|[k|e] rest] eqn:E.
    + destruct (closed CRet s); intros H; inversion H; subst; cbn; lia.
    + destruct (reply_for c serial k); intros H; inversion H; subst; cbn; rewrite ?E; cbn; lia.
    + intros H; inversion H; subst; cbn; lia.
  - discriminate.
Qed.

(* a task step: the stepping task's potential drops, nobody else changes, the bound on msg_senders does not grow *)
Lemma tstep_measure c s i s' : tstep c s i = Some s' ->
  sumf tau (s_tasks s') < sumf tau (s_tasks s) /\ kbound s' <= kbound s.
Proof.
  unfold tstep. destruct (nth_error (s_tasks s) i) as [t|] eqn:Hi; [|discriminate].
  assert (Hset : forall s0 t0, s_tasks s0 = s_tasks s -> tau t0 < tau t -> preopen t0 <= preopen t ->
            length (s_senders s0) + preopen t0 <= length (s_senders s) + preopen t ->
            sumf tau (s_tasks (set_task s0 i t0)) < sumf tau (s_tasks s) /\ kbound (set_task s0 i t0) <= kbound s).
  { intros s0 t0 Ht Hlt Hp Hk. unfold kbound. cbn. rewrite Ht.
    pose proof (sumf_set_nth tau _ _ _ t0 Hi). pose proof (sumf_set_nth preopen _ _ _ t0 Hi). lia. }
  destruct t as [serial cost nr p|src serial cost p|cost p].
  - destruct (cstep c s serial cost nr p) as [[p' s1]|] eqn:E; [|discriminate]. pose proof (cstep_tau _ _ _ _ _ _ _ _ E) as Ht.
    apply cstep_rd in E. intros H; inversion H; subst. apply Hset; cbn; try tauto; try lia.
    destruct E as (_ & _ & _ & _ & E & _). rewrite E. lia.
  - destruct p as [| |q| |x|o|x].
    + destruct src as [r|].
      * destruct (locked s); [discriminate|]. destruct (is_nil (s_senders s)); intros H; inversion H; subst; apply Hset; try reflexivity; cbn; lia.
      * intros H; inversion H; subst; apply Hset; try reflexivity; cbn; lia.
    + destruct (s_sublock s); [discriminate|].
      destruct (match src with Some r => mem r (s_subs s) | None => true end); intros H; inversion H; subst; apply Hset; try reflexivity; cbn; try lia;
        destruct (bus c); cbn; lia.
    + destruct q as [|x|x|o].
      * destruct (cstep c s serial cost false CNew) as [[q' s1]|] eqn:E; [|discriminate].
        pose proof (cstep_tau _ _ _ _ _ _ _ _ E) as Ht. apply cstep_rd in E. destruct E as (_ & _ & Et & _ & E & _).
        intros H; inversion H; subst. apply Hset; cbn in *; rewrite ?E; try lia; try tauto.
      * destruct (cstep c s serial cost false (CSend x)) as [[q' s1]|] eqn:E; [|discriminate].
        pose proof (cstep_tau _ _ _ _ _ _ _ _ E) as Ht. apply cstep_rd in E. destruct E as (_ & _ & Et & _ & E & _).
        intros H; inversion H; subst. apply Hset; cbn in *; rewrite ?E; try lia; try tauto.
      * destruct (cstep c s serial cost false (CWait x)) as [[q' s1]|] eqn:E; [|discriminate].
        pose proof (cstep_tau _ _ _ _ _ _ _ _ E) as Ht. apply cstep_rd in E. destruct E as (_ & _ & Et & _ & E & _).
        intros H; inversion H; subst. apply Hset; cbn in *; rewrite ?E; try lia; try tauto.
      * destruct o; intros H; inversion H; subst; apply Hset; try reflexivity; cbn; lia.
    + destruct (locked s); [discriminate|]. destruct src; [destruct (is_nil (s_senders s))|]; intros H; inversion H; subst; apply Hset; try reflexivity; cbn; lia.
    + destruct (x_inbox x) eqn:E; [destruct (closed (x_chan x) s); [|discriminate]|]; intros H; inversion H; subst; apply Hset; try reflexivity; cbn; rewrite ?E; cbn; lia.
    + discriminate.
    + discriminate.
  - destruct p; try discriminate. destruct (send_try c s cost) as [ok s1] eqn:E. apply send_try_rd in E.
    destruct E as (_ & _ & Et & _ & E & _). intros H; inversion H; subst. apply Hset; cbn; rewrite ?E; try lia; try tauto.
    destruct ok; cbn; lia.
Qed.

Lemma del_nth_length {A} (l : list A) j x : nth_error l j = Some x -> length (del_nth j l) + 1 = length l.
Proof.
  intros H. unfold del_nth. rewrite app_length, firstn_length, skipn_length. apply nth_error_lt in H. lia.
Qed.

Theorem step_decreases c l s s' : step c l s = Some s' -> mu c s' < mu c s.
Proof.
  intros Hs. destruct l as [n| |j| |i]; unfold step in Hs.
  - destruct (s_rd s) as [got| |] eqn:Hr; try discriminate.
    destruct (nth_error (msgs c) (s_next s)) as [m|] eqn:Hm; [|discriminate].
    destruct (negb (s_broken s) && (1 <=? n) && (s_pos s + n <=? fpos c) && (got + n <=? i_len m)) eqn:Ec; [|discriminate].
    apply Bool.andb_true_iff in Ec. destruct Ec as [Ec _]. apply Bool.andb_true_iff in Ec. destruct Ec as [Ec E3].
    apply Bool.andb_true_iff in Ec. destruct Ec as [_ E2]. apply Nat.leb_le in E2, E3. apply nth_error_lt in Hm.
    destruct (i_len m <=? got + n); inversion Hs; subst; unfold mu, rho, kbound; cbn; rewrite Hr.
    + replace (length (msgs c) - S (s_next s) + 1) with (length (msgs c) - s_next s) by lia.
      assert (H : (length (msgs c) - s_next s) * (length (s_senders s) + sumf preopen (s_tasks s) + 2) + (fpos c - (s_pos s + n)) +
                  length (s_senders s) + 1 <
                  (length (msgs c) - s_next s + 1) * (length (s_senders s) + sumf preopen (s_tasks s) + 2) + (fpos c - s_pos s)) by nia.
      nia.
    + assert (fpos c - (s_pos s + n) < fpos c - s_pos s) by lia. nia.
  - destruct (s_rd s) as [got| |] eqn:Hr; try discriminate.
    destruct (s_broken s || (fpos c <=? s_pos s) || (length (msgs c) <=? s_next s)); inversion Hs; subst.
    unfold mu, rho, kbound; cbn; rewrite Hr. nia.
  - destruct (s_rd s) as [|it rest|] eqn:Hr; try discriminate. destruct (nth_error rest j) as [k|] eqn:Hj; [|discriminate].
    pose proof (del_nth_length _ _ _ Hj) as Hd.
    destruct (match it with IMsg n => match nth_error (msgs c) n with Some m => kmatch k m | None => false end | IErr _ => true end).
    + destruct (full c (chan_of k) (s_tasks s)); inversion Hs; subst. unfold mu, rho, kbound; cbn; rewrite Hr. rewrite map_length.
      rewrite (sumf_map_eq preopen) by (intros; apply preopen_push).
      pose proof (sumf_map_le tau (push_task (chan_of k) it) (s_tasks s) (tau_push _ _)) as Hp.
      destruct it; nia.
    + inversion Hs; subst. unfold mu, rho, kbound; cbn; rewrite Hr. destruct it; nia.
  - destruct (s_rd s) as [|it rest|] eqn:Hr; try discriminate. destruct rest; [|discriminate].
    destruct it; inversion Hs; subst; unfold mu, rho, kbound; cbn; rewrite Hr; cbn; nia.
  - pose proof (tstep_frame _ _ _ _ Hs) as (Hr & Hn & Hp & Hl & _). destruct (tstep_measure _ _ _ _ Hs) as [Ht Hk].
    unfold mu, rho. rewrite Hr, Hn, Hp, Hl.
    assert (Hm : forall a, (a + 1) * (kbound s' + 2) <= (a + 1) * (kbound s + 2)) by (intros; nia).
    destruct (s_rd s) as [got|[k|e] rest|]; try specialize (Hm (length (msgs c) - s_next s)); nia.
Qed.

(* hence a run from s has at most mu c s steps *)
Theorem run_length_bounded c : forall tr s s', run c tr s = Some s' -> length tr + mu c s' <= mu c s.
Proof.
  induction tr as [|l tr IH]; intros s s' H; cbn in H.
  - inversion H; subst. cbn. lia.
  - destruct (step c l s) as [s1|] eqn:E; [|discriminate]. apply step_decreases in E. specialize (IH _ _ H). cbn. lia.
Qed.
