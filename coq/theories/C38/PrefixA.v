(* C38/PrefixA.v — the invariant behind "a stream yields exactly the complete messages that match, then ends": definitions
   and the facts about lists, keys and `front` it needs. *)
From ZV Require Import Base.Bytes Base.Res C38.Model C38.Spec C38.Progress C38.Measure.
From Coq Require Import Lia.

(* ---------------------------------------------------------------- lists *)
Lemma existsb_del_nth {A} (f : A -> bool) l j x : nth_error l j = Some x -> existsb f l = f x || existsb f (del_nth j l).
Proof.
  unfold del_nth. revert j; induction l as [|a l IH]; intros j H; [now destruct j|].
  destruct j as [|j]; cbn in *.
  - inversion H; subst. reflexivity.
  - rewrite (IH j H). destruct (f a), (f x); reflexivity.
Qed.

Lemma in_del_nth {A} (l : list A) j y : In y (del_nth j l) -> In y l.
Proof.
  unfold del_nth. intros H. apply in_app_or in H. destruct H as [H|H].
  - rewrite <- (firstn_skipn j l). apply in_or_app. now left.
  - rewrite <- (firstn_skipn (S j) l). apply in_or_app. now right.
Qed.

Lemma nodup_del_nth {A} (l : list A) j x : NoDup l -> nth_error l j = Some x -> NoDup (del_nth j l) /\ ~ In x (del_nth j l).
Proof.
  unfold del_nth. revert j; induction l as [|a l IH]; intros j Hn H; [now destruct j|].
  inversion Hn as [|? ? Ha Hl]; subst. destruct j as [|j]; cbn in *.
  - inversion H; subst. split; assumption.
  - destruct (IH j Hl H) as [H1 H2]. split.
    + constructor; [|exact H1]. intros Hin. apply Ha. eapply (in_del_nth l j). exact Hin.
    + intros [E|Hin]; [subst; apply Ha; eapply nth_error_In; eassumption | now apply H2].
Qed.

Lemma existsb_false_iff {A} (f : A -> bool) l : existsb f l = false <-> forall x, In x l -> f x = false.
Proof.
  split.
  - intros H x Hx. destruct (f x) eqn:E; [|reflexivity]. rewrite <- H. symmetry. apply existsb_exists. now exists x.
  - intros H. destruct (existsb f l) eqn:E; [|reflexivity]. apply existsb_exists in E. destruct E as (x & Hx & Hf). now rewrite H in Hf.
Qed.

Lemma sumf_two {A} (f : A -> nat) l i j a b : i <> j -> nth_error l i = Some a -> nth_error l j = Some b -> f a + f b <= sumf f l.
Proof.
  revert i j; induction l as [|x l IH]; intros i j Hne Hi Hj; [now destruct i|].
  destruct i as [|i], j as [|j]; cbn in *; try lia.
  - inversion Hi; subst. clear IH Hi Hne. revert j Hj; induction l as [|y l IH]; intros j Hj; [now destruct j|].
    destruct j; cbn in *; [inversion Hj; subst; lia|]. specialize (IH _ Hj). lia.
  - inversion Hj; subst. clear IH Hj Hne. revert i Hi; induction l as [|y l IH]; intros i Hi; [now destruct i|].
    destruct i; cbn in *; [inversion Hi; subst; lia|]. specialize (IH _ Hi). lia.
  - assert (i <> j) by lia. specialize (IH i j H Hi Hj). lia.
Qed.

Lemma sumf_nth_le {A} (f : A -> nat) l i a : nth_error l i = Some a -> f a <= sumf f l.
Proof.
  revert i; induction l as [|x l IH]; intros i H; [now destruct i|].
  destruct i; cbn in *; [inversion H; subst; lia|]. specialize (IH _ H). lia.
Qed.

(* ---------------------------------------------------------------- channels and keys *)
Lemma chan_eqb_eq a b : chan_eqb a b = true <-> a = b.
Proof.
  destruct a, b; cbn; split; try discriminate; try reflexivity; try (intros H; inversion H; subst; apply Nat.eqb_refl).
  intros H. apply Nat.eqb_eq in H. now subst.
Qed.
Lemma chan_eqb_refl a : chan_eqb a a = true.
Proof. now apply chan_eqb_eq. Qed.

Definition stream_chan (ch : chan) : Prop := ch <> CRet.
Definition key_of (ch : chan) : key := match ch with CAll => KAll | CRet => KRet | CSub r => KRule r end.

Lemma key_unique k ch : stream_chan ch -> chan_of k = ch -> k = key_of ch.
Proof. intros Hs H. destruct k; cbn in H; subst; try reflexivity; now elim Hs. Qed.

Lemma kmatch_key_of ch m : stream_chan ch -> kmatch (key_of ch) m = cmatch ch m.
Proof. intros Hs. destruct ch; [reflexivity | now elim Hs | reflexivity]. Qed.

Definition chan_of_src (src : option nat) : chan := match src with None => CAll | Some r => CSub r end.
Lemma stream_chan_src src : stream_chan (chan_of_src src).
Proof. destruct src; discriminate. Qed.

(* for a stream channel, "some unvisited entry of the channel matches" is "its one key is unvisited and matches" *)
Lemma pending_stream ch m rest : stream_chan ch -> NoDup rest ->
  existsb (fun key => chan_eqb (chan_of key) ch && kmatch key m) rest =
  existsb (key_eqb (key_of ch)) rest && cmatch ch m.
Proof.
  intros Hs _. induction rest as [|k rest IH]; [reflexivity|]. cbn [existsb]. rewrite IH.
  destruct (chan_eqb (chan_of k) ch) eqn:E.
  - apply chan_eqb_eq in E. pose proof (key_unique k ch Hs E) as ->. rewrite kmatch_key_of by assumption.
    replace (key_eqb (key_of ch) (key_of ch)) with true by (destruct ch; cbn; now rewrite ?Nat.eqb_refl).
    cbn. destruct (cmatch ch m), (existsb (key_eqb (key_of ch)) rest); reflexivity.
  - replace (key_eqb (key_of ch) k) with false; [reflexivity|].
    destruct ch, k; cbn in *; try reflexivity; try discriminate. now rewrite Nat.eqb_sym.
Qed.

Lemma key_eqb_eq a b : key_eqb a b = true <-> a = b.
Proof.
  destruct a, b; cbn; split; try discriminate; try reflexivity; try (intros H; inversion H; subst; apply Nat.eqb_refl).
  intros H. apply Nat.eqb_eq in H. now subst.
Qed.

Lemma existsb_key_in k l : existsb (key_eqb k) l = true <-> In k l.
Proof.
  rewrite existsb_exists. split.
  - intros (x & Hx & E). apply key_eqb_eq in E. now subst.
  - intros H. exists k. split; [assumption | now apply key_eqb_eq].
Qed.

Lemma has_key_stream ch l : stream_chan ch -> has_key ch l = existsb (key_eqb (key_of ch)) l.
Proof.
  intros Hs. unfold has_key. induction l as [|k l IH]; [reflexivity|]. cbn. rewrite IH. f_equal.
  destruct (chan_eqb (chan_of k) ch) eqn:E.
  - apply chan_eqb_eq in E. rewrite (key_unique k ch Hs E). symmetry. now apply key_eqb_eq.
  - symmetry. destruct (key_eqb (key_of ch) k) eqn:E2; [|reflexivity]. apply key_eqb_eq in E2. subst k.
    destruct ch; cbn in E; try discriminate. now rewrite Nat.eqb_refl in E.
Qed.

(* ---------------------------------------------------------------- what a receiver must have been handed *)
Definition mmatch (c : cfg) (ch : chan) (k : nat) : bool :=
  match nth_error (msgs c) k with Some m => cmatch ch m | None => false end.

Lemma expected_eq c ch from upto : expected c ch from upto = map IMsg (filter (mmatch c ch) (seq from (upto - from))).
Proof. reflexivity. Qed.

Lemma expected_nil c ch n : expected c ch n n = [].
Proof. unfold expected. now rewrite Nat.sub_diag. Qed.

Lemma expected_snoc c ch from k : from <= k ->
  expected c ch from (S k) = expected c ch from k ++ (if mmatch c ch k then [IMsg k] else []).
Proof.
  intros H. unfold expected. replace (S k - from) with (S (k - from)) by lia. rewrite seq_S, filter_app, map_app. f_equal.
  replace (from + (k - from)) with k by lia. cbn. fold (mmatch c ch k). now destruct (mmatch c ch k).
Qed.

(* the error item: at most once, last, and only once the reader has visited the channel's entry in its final round *)
Definition err_done (s : st) (ch : chan) : Prop :=
  match s_rd s with
  | RdBcast (IErr _) rest => has_key ch rest = false
  | RdDone => True
  | _ => False
  end.

Definition J (c : cfg) (s : st) (x : rx) : Prop :=
  x_from x <= front c (x_chan x) s /\
  exists errs, x_got x ++ x_inbox x = expected c (x_chan x) (x_from x) (front c (x_chan x) s) ++ errs /\
               (errs = [] \/ (errs = [IErr (fkind c)] /\ err_done s (x_chan x))).

Definition Ptask (c : cfg) (s : st) (t : task) : Prop :=
  match t with
  | TStream src _ _ (SOpen x) =>
      x_chan x = chan_of_src src /\ (forall r, src = Some r -> In r (s_subs s)) /\ J c s x
  | TStream src _ _ (SEnd x) =>       (* ended: its channel was closed, which only the reader's exit does *)
      x_chan x = chan_of_src src /\ (forall r, src = Some r -> In r (s_subs s)) /\ J c s x /\ s_rd s = RdDone /\ x_inbox x = []
  | TStream (Some r) _ _ (SAdd _) | TStream (Some r) _ _ SChecked => ~ In r (s_subs s)
  | _ => True
  end.

Definition hold1 (t : task) : nat := if holds_lock t then 1 else 0.

Definition rd_ok (c : cfg) (s : st) : Prop :=
  match s_rd s with
  | RdBcast (IMsg k) rest => s_next s = S k /\ k < length (msgs c) /\ NoDup rest
  | RdBcast (IErr e) rest => e = fkind c /\ NoDup rest
  | _ => True
  end.

Definition keys_ok (s : st) : Prop :=
  match s_rd s with
  | RdDone => True
  | _ => NoDup (s_senders s) /\ In KAll (s_senders s) /\ (forall r, In r (s_subs s) <-> In (KRule r) (s_senders s))
  end.

Definition G (c : cfg) (s : st) : Prop :=
  rd_ok c s /\ keys_ok s /\ sumf hold1 (s_tasks s) = (if s_sublock s then 1 else 0) /\
  (forall i t, nth_error (s_tasks s) i = Some t -> Ptask c s t).

(* tasks as the session starts them *)
Definition fresh_task (t : task) : bool :=
  match t with TCall _ _ _ CNew => true | TStream _ _ _ SNew => true | TEmit _ ENew => true | _ => false end.

Lemma fresh_hold ts : forallb fresh_task ts = true -> sumf hold1 ts = 0.
Proof.
  induction ts as [|t ts IH]; [reflexivity|]. cbn. intros H. apply Bool.andb_true_iff in H. destruct H as [H1 H2].
  rewrite (IH H2). destruct t as [? ? ? p|? ? ? p|? p]; try reflexivity; destruct p; try discriminate; reflexivity.
Qed.

Lemma G_init c ts : forallb fresh_task ts = true -> G c (init ts).
Proof.
  intros Hf. unfold G. cbn. repeat split.
  - repeat constructor; cbn; intuition discriminate.
  - now left.
  - intros [].
  - intros [H|[H|[H|[]]]]; discriminate.
  - now apply fresh_hold.
  - intros i t Hi. apply nth_error_In in Hi. rewrite forallb_forall in Hf. specialize (Hf _ Hi).
    destruct t as [? ? ? p|src ? ? p|? p]; try exact I; destruct p; try discriminate; try exact I. destruct src; exact I.
Qed.

(* the key of a stream receiver's channel is in msg_senders until the reader clears it *)
Lemma stream_key_present (s : st) src (x : rx) : keys_ok s -> s_rd s <> RdDone ->
  x_chan x = chan_of_src src -> (forall r, src = Some r -> In r (s_subs s)) -> In (key_of (x_chan x)) (s_senders s).
Proof.
  intros Hk Hr Hc Hs. unfold keys_ok in Hk. destruct (s_rd s); try (now elim Hr); destruct Hk as (_ & Ha & Hsub);
    rewrite Hc; destruct src as [r|]; cbn; try assumption; apply Hsub; now apply Hs.
Qed.

Lemma Ptask_open c s src a b x : Ptask c s (TStream src a b (SOpen x)) <->
  (x_chan x = chan_of_src src /\ (forall r, src = Some r -> In r (s_subs s)) /\ J c s x).
Proof. destruct src; reflexivity. Qed.
Lemma Ptask_end c s src a b x : Ptask c s (TStream src a b (SEnd x)) <->
  (x_chan x = chan_of_src src /\ (forall r, src = Some r -> In r (s_subs s)) /\ J c s x /\ s_rd s = RdDone /\ x_inbox x = []).
Proof. destruct src; reflexivity. Qed.
