(* C38/Progress.v — no reachable state is stuck before everything has completed (outside the known race), for every schedule. *)
From ZV Require Import Base.Bytes Base.Res C38.Model C38.Spec.
From Coq Require Import Lia.

(* ---------------------------------------------------------------- list facts *)
Lemma nth_error_set_nth_eq {A} (l : list A) i v : i < length l -> nth_error (set_nth i v l) i = Some v.
Proof.
  revert i; induction l as [|x l IH]; intros i H; [cbn in H; lia|].
  destruct i as [|i]; cbn; [reflexivity|]. apply IH. cbn in H. lia.
Qed.
Lemma nth_error_set_nth_neq {A} (l : list A) i j v : i <> j -> nth_error (set_nth i v l) j = nth_error l j.
Proof.
  revert i j; induction l as [|x l IH]; intros i j H; [now destruct i|].
  destruct i as [|i], j as [|j]; cbn; try reflexivity; [lia|]. apply IH. lia.
Qed.
Lemma length_set_nth {A} (l : list A) i v : length (set_nth i v l) = length l.
Proof. revert i; induction l as [|x l IH]; intros [|i]; cbn; auto. Qed.
Lemma nth_error_lt {A} (l : list A) i x : nth_error l i = Some x -> i < length l.
Proof. intros H. apply nth_error_Some. congruence. Qed.

Lemma forallb_false_nth {A} (f : A -> bool) l : forallb f l = false -> exists i x, nth_error l i = Some x /\ f x = false.
Proof.
  induction l as [|a l IH]; cbn; [discriminate|]. destruct (f a) eqn:E; cbn.
  - intros H. destruct (IH H) as (i & x & Hn & Hf). now exists (S i), x.
  - intros _. now exists 0, a.
Qed.
Lemma existsb_nth {A} (f : A -> bool) l : existsb f l = true -> exists i x, nth_error l i = Some x /\ f x = true.
Proof.
  induction l as [|a l IH]; cbn; [discriminate|]. destruct (f a) eqn:E; cbn.
  - intros _. now exists 0, a.
  - intros H. destruct (IH H) as (i & x & Hn & Hf). now exists (S i), x.
Qed.

(* ---------------------------------------------------------------- the invariants progress needs *)
(* the reader has not yet all the bytes of the message it is reading *)
Definition I1 (c : cfg) (s : st) : Prop :=
  match s_rd s with
  | RdRead got => match nth_error (msgs c) (s_next s) with Some m => got < i_len m | None => True end
  | _ => True
  end.

Definition holds_lock (t : task) : bool :=
  match t with TStream _ _ _ (SAdd _) => true | TStream _ _ _ SChecked => true | _ => false end.
(* the subscriptions mutex is held by somebody who is there *)
Definition I2 (s : st) : Prop := s_sublock s = true -> exists i t, nth_error (s_tasks s) i = Some t /\ holds_lock t = true.

Lemma send_try_rd c s cost b s' : send_try c s cost = (b, s') ->
  s_rd s' = s_rd s /\ s_next s' = s_next s /\ s_tasks s' = s_tasks s /\ s_sublock s' = s_sublock s /\ s_senders s' = s_senders s
  /\ s_pos s' = s_pos s /\ s_subs s' = s_subs s.
Proof.
  unfold send_try. destruct (s_broken s); [intros H; inversion H; subst; tauto|].
  destruct (wbudget c) as [bd|]; [destruct (s_wcalls s + cost <=? bd)|]; intros H; inversion H; subst; cbn; tauto.
Qed.

Lemma cstep_rd c s serial cost nr p p' s' : cstep c s serial cost nr p = Some (p', s') ->
  s_rd s' = s_rd s /\ s_next s' = s_next s /\ s_tasks s' = s_tasks s /\ s_sublock s' = s_sublock s /\ s_senders s' = s_senders s
  /\ s_pos s' = s_pos s /\ s_subs s' = s_subs s.
Proof.
  destruct p as [|x|x|o]; cbn [cstep].
  - intros H; inversion H; subst; tauto.
  - destruct (send_try c s cost) as [ok s1] eqn:E. apply send_try_rd in E.
    destruct ok; [destruct nr|]; intros H; inversion H; subst; exact E.
  - destruct (x_inbox x) as [|[k|e] rest].
    + destruct (closed CRet s); intros H; inversion H; subst; tauto.
    + destruct (reply_for c serial k); intros H; inversion H; subst; tauto.
    + intros H; inversion H; subst; tauto.
  - discriminate.
Qed.

(* what a task step does to the parts of the state other than the task list: nothing the reader looks at *)
Lemma tstep_frame c s i s' : tstep c s i = Some s' ->
  s_rd s' = s_rd s /\ s_next s' = s_next s /\ s_pos s' = s_pos s /\ length (s_tasks s') = length (s_tasks s) /\
  (forall j, j <> i -> nth_error (s_tasks s') j = nth_error (s_tasks s) j).
Proof.
  unfold tstep. destruct (nth_error (s_tasks s) i) as [t|] eqn:Hi; [|discriminate].
  assert (Hset : forall s0 t0, s_tasks s0 = s_tasks s -> s_rd s0 = s_rd s -> s_next s0 = s_next s -> s_pos s0 = s_pos s ->
            s_rd (set_task s0 i t0) = s_rd s /\ s_next (set_task s0 i t0) = s_next s /\ s_pos (set_task s0 i t0) = s_pos s /\
            length (s_tasks (set_task s0 i t0)) = length (s_tasks s) /\
            (forall j, j <> i -> nth_error (s_tasks (set_task s0 i t0)) j = nth_error (s_tasks s) j)).
  { intros s0 t0 Ht Hr Hn Hp. cbn. rewrite Ht, length_set_nth. repeat split; try assumption.
    intros j Hj. apply nth_error_set_nth_neq. lia. }
  destruct t as [serial cost nr p|src serial cost p|cost p].
  - destruct (cstep c s serial cost nr p) as [[p' s1]|] eqn:E; [|discriminate]. apply cstep_rd in E.
    intros H; inversion H; subst. apply Hset; tauto.
  - destruct p as [| |q| |x|o|x].
    + destruct src as [r|].
      * destruct (locked s); [discriminate|]. destruct (is_nil (s_senders s)); intros H; inversion H; subst; now apply Hset.
      * intros H; inversion H; subst; now apply Hset.
    + destruct (s_sublock s); [discriminate|].
      destruct (match src with Some r => mem r (s_subs s) | None => true end); intros H; inversion H; subst; now apply Hset.
    + destruct q as [|x|x|o].
      * destruct (cstep c s serial cost false CNew) as [[q' s1]|] eqn:E; [|discriminate]. apply cstep_rd in E.
        intros H; inversion H; subst. apply Hset; tauto.
      * destruct (cstep c s serial cost false (CSend x)) as [[q' s1]|] eqn:E; [|discriminate]. apply cstep_rd in E.
        intros H; inversion H; subst. apply Hset; tauto.
      * destruct (cstep c s serial cost false (CWait x)) as [[q' s1]|] eqn:E; [|discriminate]. apply cstep_rd in E.
        intros H; inversion H; subst. apply Hset; tauto.
      * destruct o; intros H; inversion H; subst; now apply Hset.
    + destruct (locked s); [discriminate|]. destruct src; [destruct (is_nil (s_senders s))|]; intros H; inversion H; subst; now apply Hset.
    + destruct (x_inbox x); [destruct (closed (x_chan x) s); [|discriminate]|]; intros H; inversion H; subst; now apply Hset.
    + discriminate.
    + discriminate.
  - destruct p; try discriminate. destruct (send_try c s cost) as [ok s1] eqn:E. apply send_try_rd in E.
    intros H; inversion H; subst. apply Hset; tauto.
Qed.

Lemma I1_step c l s s' : wf c -> I1 c s -> step c l s = Some s' -> I1 c s'.
Proof.
  intros [Hlen _] HI Hs. destruct l as [n| |j| |i]; unfold step in Hs.
  - destruct (s_rd s) as [got| |] eqn:Hr; try discriminate.
    destruct (nth_error (msgs c) (s_next s)) as [m|] eqn:Hm; [|discriminate].
    destruct (negb (s_broken s) && (1 <=? n) && (s_pos s + n <=? fpos c) && (got + n <=? i_len m)); [|discriminate].
    destruct (i_len m <=? got + n) eqn:E; inversion Hs; subst; unfold I1; cbn; [exact I|].
    rewrite Hm. apply Nat.leb_gt in E. lia.
  - destruct (s_rd s); try discriminate.
    destruct (s_broken s || (fpos c <=? s_pos s) || (length (msgs c) <=? s_next s)); inversion Hs; subst. exact I.
  - destruct (s_rd s) as [|it rest|]; try discriminate. destruct (nth_error rest j); [|discriminate].
    destruct (match it with IMsg n => match nth_error (msgs c) n with Some m => kmatch k m | None => false end | IErr _ => true end).
    + destruct (full c (chan_of k) (s_tasks s)); inversion Hs; subst. exact I.
    + inversion Hs; subst. exact I.
  - destruct (s_rd s) as [|it rest|]; try discriminate. destruct rest; [|discriminate].
    destruct it; inversion Hs; subst; unfold I1; cbn; [|exact I].
    destruct (nth_error (msgs c) (s_next s)) as [m|] eqn:Hm; [|exact I]. apply nth_error_In in Hm. specialize (Hlen _ Hm). lia.
  - apply tstep_frame in Hs. destruct Hs as (Hr & Hn & _). unfold I1 in *. now rewrite Hr, Hn.
Qed.

Lemma holds_lock_push ch it t : holds_lock (push_task ch it t) = holds_lock t.
Proof. destruct t as [? ? ? p|? ? ? p|? p]; try reflexivity. destruct p; reflexivity. Qed.

Lemma I2_step c l s s' : I2 s -> step c l s = Some s' -> I2 s'.
Proof.
  intros HI Hs. destruct l as [n| |j| |i]; unfold step in Hs.
  - destruct (s_rd s) as [got| |]; try discriminate. destruct (nth_error (msgs c) (s_next s)) as [m|]; [|discriminate].
    destruct (negb (s_broken s) && (1 <=? n) && (s_pos s + n <=? fpos c) && (got + n <=? i_len m)); [|discriminate].
    destruct (i_len m <=? got + n); inversion Hs; subst; exact HI.
  - destruct (s_rd s); try discriminate.
    destruct (s_broken s || (fpos c <=? s_pos s) || (length (msgs c) <=? s_next s)); inversion Hs; subst. exact HI.
  - destruct (s_rd s) as [|it rest|]; try discriminate. destruct (nth_error rest j); [|discriminate].
    destruct (match it with IMsg n => match nth_error (msgs c) n with Some m => kmatch k m | None => false end | IErr _ => true end).
    + destruct (full c (chan_of k) (s_tasks s)); inversion Hs; subst. unfold I2; cbn. intros Hl.
      destruct (HI Hl) as (i & t & Hn & Hh). exists i, (push_task (chan_of k) it t). split.
      * now rewrite nth_error_map, Hn.
      * now rewrite holds_lock_push.
    + inversion Hs; subst. exact HI.
  - destruct (s_rd s) as [|it rest|]; try discriminate. destruct rest; [|discriminate]. destruct it; inversion Hs; subst; exact HI.
  - (* a task step: either the stepping task is (still) the holder, or the lock is released, or somebody else holds it *)
    unfold tstep in Hs. destruct (nth_error (s_tasks s) i) as [t|] eqn:Hi; [|discriminate].
    assert (Hlt : i < length (s_tasks s)) by (eapply nth_error_lt; eassumption).
    assert (Hkeep : forall s0 t0, s_tasks s0 = s_tasks s -> s_sublock s0 = s_sublock s -> (holds_lock t = true -> holds_lock t0 = true) ->
                    I2 (set_task s0 i t0)).
    { intros s0 t0 Ht Hl Hh. unfold I2; cbn. rewrite Ht, Hl. intros Hk. destruct (HI Hk) as (j & tj & Hj & Hhj).
      destruct (Nat.eq_dec i j) as [->|Hne].
      - exists j, t0. rewrite nth_error_set_nth_eq by assumption. split; [reflexivity|]. apply Hh. congruence.
      - exists j, tj. now rewrite nth_error_set_nth_neq. }
    assert (Hnew : forall s0 t0, s_tasks s0 = s_tasks s -> holds_lock t0 = true -> I2 (set_task s0 i t0)).
    { intros s0 t0 Ht Hh. unfold I2; cbn. intros _. exists i, t0. rewrite Ht, nth_error_set_nth_eq by assumption. now split. }
    assert (Hrel : forall s0 t0, s_sublock s0 = false -> I2 (set_task s0 i t0)).
    { intros s0 t0 Hf. unfold I2; cbn. rewrite Hf. discriminate. }
    destruct t as [serial cost nr p|src serial cost p|cost p].
    + destruct (cstep c s serial cost nr p) as [[p' s1]|] eqn:E; [|discriminate]. apply cstep_rd in E.
      inversion Hs; subst. apply Hkeep; try tauto; cbn; discriminate.
    + destruct p as [| |q| |x|o|x].
      * destruct src as [r|].
        -- destruct (locked s); [discriminate|]. destruct (is_nil (s_senders s)); inversion Hs; subst; apply Hkeep; auto; cbn; discriminate.
        -- inversion Hs; subst; apply Hkeep; auto; cbn; discriminate.
      * destruct (s_sublock s) eqn:Hl; [discriminate|].
        destruct (match src with Some r => mem r (s_subs s) | None => true end).
        -- inversion Hs; subst. apply Hrel. exact Hl.
        -- inversion Hs; subst. apply Hnew; [reflexivity|]. now destruct (bus c).
      * destruct q as [|x|x|o].
        -- destruct (cstep c s serial cost false CNew) as [[q' s1]|] eqn:E; [|discriminate]. apply cstep_rd in E.
           inversion Hs; subst. apply Hnew; [tauto | reflexivity].
        -- destruct (cstep c s serial cost false (CSend x)) as [[q' s1]|] eqn:E; [|discriminate]. apply cstep_rd in E.
           inversion Hs; subst. apply Hnew; [tauto | reflexivity].
        -- destruct (cstep c s serial cost false (CWait x)) as [[q' s1]|] eqn:E; [|discriminate]. apply cstep_rd in E.
           inversion Hs; subst. apply Hnew; [tauto | reflexivity].
        -- destruct o; inversion Hs; subst; try (apply Hrel; reflexivity). apply Hnew; reflexivity.
      * destruct (locked s); [discriminate|]. destruct src; [destruct (is_nil (s_senders s))|]; inversion Hs; subst; apply Hrel; reflexivity.
      * destruct (x_inbox x); [destruct (closed (x_chan x) s); [|discriminate]|]; inversion Hs; subst; apply Hkeep; auto; cbn; discriminate.
      * discriminate.
      * discriminate.
    + destruct p; try discriminate. destruct (send_try c s cost) as [ok s1] eqn:E. apply send_try_rd in E.
      inversion Hs; subst. apply Hkeep; try tauto; cbn; discriminate.
Qed.

(* once the reader has gone, msg_senders stays empty: add_match re-tests under the lock that inserts (fix 3703ee13) *)
Definition I3 (s : st) : Prop := s_rd s = RdDone -> s_senders s = [].

Lemma tstep_senders_done c s i s' : s_rd s = RdDone -> s_senders s = [] -> tstep c s i = Some s' -> s_senders s' = [].
Proof.
  intros Hr Hsn. unfold tstep. destruct (nth_error (s_tasks s) i) as [t|]; [|discriminate].
  destruct t as [serial cost nr p|src serial cost p|cost p].
  - destruct (cstep c s serial cost nr p) as [[p' s1]|] eqn:E; [|discriminate]. apply cstep_rd in E.
    intros H; inversion H; subst. cbn. destruct E as (_ & _ & _ & _ & E & _). congruence.
  - destruct p as [| |q| |x|o|x]; try discriminate.
    + destruct src; [destruct (locked s); [discriminate|]; destruct (is_nil (s_senders s))|]; intros H; inversion H; subst; exact Hsn.
    + destruct (s_sublock s); [discriminate|].
      destruct (match src with Some r => mem r (s_subs s) | None => true end); intros H; inversion H; subst; exact Hsn.
    + destruct q as [|x|x|o].
      * destruct (cstep c s serial cost false CNew) as [[q' s1]|] eqn:E; [|discriminate]. apply cstep_rd in E.
        intros H; inversion H; subst. cbn. destruct E as (_ & _ & _ & _ & E & _). congruence.
      * destruct (cstep c s serial cost false (CSend x)) as [[q' s1]|] eqn:E; [|discriminate]. apply cstep_rd in E.
        intros H; inversion H; subst. cbn. destruct E as (_ & _ & _ & _ & E & _). congruence.
      * destruct (cstep c s serial cost false (CWait x)) as [[q' s1]|] eqn:E; [|discriminate]. apply cstep_rd in E.
        intros H; inversion H; subst. cbn. destruct E as (_ & _ & _ & _ & E & _). congruence.
      * destruct o; intros H; inversion H; subst; exact Hsn.
    + destruct (locked s); [discriminate|]. rewrite Hsn. destruct src; intros H; inversion H; subst; exact Hsn.
    + destruct (x_inbox x); [destruct (closed (x_chan x) s); [|discriminate]|]; intros H; inversion H; subst; exact Hsn.
  - destruct p; try discriminate. destruct (send_try c s cost) as [ok s1] eqn:E. apply send_try_rd in E.
    intros H; inversion H; subst. cbn. destruct E as (_ & _ & _ & _ & E & _). congruence.
Qed.

Lemma I3_step c l s s' : I3 s -> step c l s = Some s' -> I3 s'.
Proof.
  intros HI Hs. destruct l as [n| |j| |i]; unfold step in Hs.
  - destruct (s_rd s) as [got| |]; try discriminate. destruct (nth_error (msgs c) (s_next s)) as [m|]; [|discriminate].
    destruct (negb (s_broken s) && (1 <=? n) && (s_pos s + n <=? fpos c) && (got + n <=? i_len m)); [|discriminate].
    destruct (i_len m <=? got + n); inversion Hs; subst; intros H; discriminate H.
  - destruct (s_rd s); try discriminate.
    destruct (s_broken s || (fpos c <=? s_pos s) || (length (msgs c) <=? s_next s)); inversion Hs; subst. intros H; discriminate H.
  - destruct (s_rd s) as [|it rest|]; try discriminate. destruct (nth_error rest j); [|discriminate].
    destruct (match it with IMsg n => match nth_error (msgs c) n with Some m => kmatch k m | None => false end | IErr _ => true end).
    + destruct (full c (chan_of k) (s_tasks s)); inversion Hs; subst. intros H; discriminate H.
    + inversion Hs; subst. intros H; discriminate H.
  - destruct (s_rd s) as [|it rest|]; try discriminate. destruct rest; [|discriminate].
    destruct it; inversion Hs; subst; intros H; [discriminate H | reflexivity].
  - intros Hd. pose proof (tstep_frame _ _ _ _ Hs) as (Hr & _). rewrite Hr in Hd. eapply tstep_senders_done; [exact Hd | exact (HI Hd) | exact Hs].
Qed.

Lemma I1_init c ts : wf c -> I1 c (init ts).
Proof.
  intros [Hlen _]. unfold I1. cbn [init s_rd s_next]. destruct (nth_error (msgs c) 0) as [m|] eqn:Hm; [|exact I].
  apply nth_error_In in Hm. specialize (Hlen _ Hm). lia.
Qed.

Lemma invariants c ts tr s : wf c -> reach c ts tr s -> I1 c s /\ I2 s.
Proof.
  intros Hwf Hr. induction Hr as [|tr s l s' Hr [IH1 IH2] Hs].
  - split; [now apply I1_init | unfold I2; cbn; discriminate].
  - split; [eapply I1_step; eassumption | eapply I2_step; eassumption].
Qed.

Lemma I3_reach c ts tr s : reach c ts tr s -> I3 s.
Proof. intros Hr. induction Hr as [|tr s l s' Hr IH Hs]; [intros H; discriminate H | eapply I3_step; eassumption]. Qed.

(* the deviation class of the unrepaired code is empty now *)
Theorem never_raced c ts tr s : reach c ts tr s -> raced s = false.
Proof. intros Hr. pose proof (I3_reach c ts tr s Hr) as H. unfold raced, I3 in *. destruct (s_rd s); try reflexivity. now rewrite H. Qed.

(* ---------------------------------------------------------------- enabledness *)
Definition cph_live (p : cph) : bool := match p with CDone _ => false | _ => true end.

Lemma cstep_enabled c s serial cost nr p :
  cph_live p = true ->
  (forall x, p = CWait x -> x_inbox x <> [] \/ closed CRet s = true) ->
  exists r, cstep c s serial cost nr p = Some r.
Proof.
  intros Hl Hw. destruct p as [|x|x|o]; cbn [cstep].
  - eexists; reflexivity.
  - destruct (send_try c s cost) as [ok s1]. destruct ok; [destruct nr|]; eexists; reflexivity.
  - destruct (x_inbox x) as [|[k|e] rest] eqn:E.
    + destruct (Hw x eq_refl) as [H|H]; [congruence|]. rewrite H. eexists; reflexivity.
    + destruct (reply_for c serial k); eexists; reflexivity.
    + eexists; reflexivity.
  - discriminate.
Qed.

(* a task that holds a receiver with something in its inbox can move *)
Lemma inbox_enabled c s i t x : nth_error (s_tasks s) i = Some t -> task_rx t = Some x -> x_inbox x <> [] ->
  exists s', tstep c s i = Some s'.
Proof.
  intros Hi Hx Hne. unfold tstep. rewrite Hi. destruct t as [serial cost nr p|src serial cost p|cost p]; cbn in Hx.
  - destruct (cstep_enabled c s serial cost nr p) as [[p' s1] E].
    + destruct p; cbn in Hx; try discriminate; reflexivity.
    + intros x0 ->. cbn in Hx. inversion Hx; subst. now left.
    + rewrite E. eexists; reflexivity.
  - destruct p as [| |q| |x0|o|x0]; try discriminate.
    + destruct q as [|x0|x0|o]; cbn in Hx; try discriminate.
      * destruct (cstep_enabled c s serial cost false (CSend x0)) as [[p' s1] E]; [reflexivity | intros ? H; discriminate H|].
        rewrite E. eexists; reflexivity.
      * destruct (cstep_enabled c s serial cost false (CWait x0)) as [[p' s1] E]; [reflexivity | |].
        { intros x1 H. inversion H; subst. inversion Hx; subst. now left. }
        rewrite E. eexists; reflexivity.
    + inversion Hx; subst. destruct (x_inbox x) eqn:E; [congruence|]. eexists; reflexivity.
  - discriminate.
Qed.

Definition final_b (s : st) : bool :=
  match s_rd s with RdDone => forallb final_task (s_tasks s) | _ => false end.

Lemma final_b_iff s : final_b s = true <-> final s.
Proof.
  unfold final_b, final. destruct (s_rd s); split; try discriminate; try (intros [H _]; discriminate); [now split | now intros [_ H]].
Qed.

(* once the reader is gone and msg_senders is empty, every task that has not completed can move *)
Lemma task_enabled_done c s i t : s_rd s = RdDone -> s_senders s = [] -> I2 s ->
  nth_error (s_tasks s) i = Some t -> final_task t = false -> exists j s', tstep c s j = Some s'.
Proof.
  intros Hrd Hsn HI2 Hi Hf.
  assert (Hcl : forall ch, closed ch s = true) by (intros ch; unfold closed; now rewrite Hsn).
  assert (Hlk : locked s = false) by (unfold locked; now rewrite Hrd).
  assert (Hc : forall serial cost nr p, cph_live p = true -> exists r, cstep c s serial cost nr p = Some r).
  { intros. apply cstep_enabled; [assumption|]. intros; right; apply Hcl. }
  (* a holder of the subscriptions mutex can always move *)
  assert (Hholder : forall j tj, nth_error (s_tasks s) j = Some tj -> holds_lock tj = true -> exists s', tstep c s j = Some s').
  { intros j tj Hj Hh. unfold tstep. rewrite Hj. destruct tj as [|src serial cost p|]; try discriminate.
    destruct p as [| |q| |x|o|x]; try discriminate.
    - destruct q as [|x|x|o].
      + destruct (Hc serial cost false CNew eq_refl) as [[q' s1] E]. rewrite E. eexists; reflexivity.
      + destruct (Hc serial cost false (CSend x) eq_refl) as [[q' s1] E]. rewrite E. eexists; reflexivity.
      + destruct (Hc serial cost false (CWait x) eq_refl) as [[q' s1] E]. rewrite E. eexists; reflexivity.
      + destruct o; eexists; reflexivity.
    - rewrite Hlk. destruct src; [destruct (is_nil (s_senders s))|]; eexists; reflexivity. }
  destruct t as [serial cost nr p|src serial cost p|cost p].
  - exists i. unfold tstep. rewrite Hi. destruct p as [|x|x|o]; try discriminate.
    + destruct (Hc serial cost nr CNew eq_refl) as [[q' s1] E]. rewrite E. eexists; reflexivity.
    + destruct (Hc serial cost nr (CSend x) eq_refl) as [[q' s1] E]. rewrite E. eexists; reflexivity.
    + destruct (Hc serial cost nr (CWait x) eq_refl) as [[q' s1] E]. rewrite E. eexists; reflexivity.
  - destruct p as [| |q| |x|o|x]; try discriminate.
    + exists i. unfold tstep. rewrite Hi. destruct src; [rewrite Hlk, Hsn|]; eexists; reflexivity.
    + destruct (s_sublock s) eqn:Hl.
      * destruct (HI2 Hl) as (j & tj & Hj & Hh). exists j. eapply Hholder; eassumption.
      * exists i. unfold tstep. rewrite Hi, Hl. destruct (match src with Some r => mem r (s_subs s) | None => true end); eexists; reflexivity.
    + exists i. eapply Hholder; [eassumption | reflexivity].
    + exists i. eapply Hholder; [eassumption | reflexivity].
    + exists i. unfold tstep. rewrite Hi. destruct (x_inbox x); [rewrite Hcl|]; eexists; reflexivity.
  - exists i. unfold tstep. rewrite Hi. destruct p; try discriminate. destruct (send_try c s cost). eexists; reflexivity.
Qed.

Theorem progress c s : wf c -> I1 c s -> I2 s -> raced s = false -> final_b s = false ->
  exists l s', step c l s = Some s'.
Proof.
  intros [Hlen Hcap] H1 H2 Hrace Hfin. destruct (s_rd s) as [got|it rest|] eqn:Hrd.
  - (* reading: a byte or the fault *)
    destruct (s_broken s || (fpos c <=? s_pos s) || (length (msgs c) <=? s_next s)) eqn:E.
    + exists LFault. unfold step. rewrite Hrd, E. eexists; reflexivity.
    + apply Bool.orb_false_iff in E. destruct E as [E E3]. apply Bool.orb_false_iff in E. destruct E as [E1 E2].
      apply Nat.leb_gt in E2, E3. destruct (nth_error (msgs c) (s_next s)) as [m|] eqn:Hm.
      * unfold I1 in H1. rewrite Hrd, Hm in H1. exists (LRecv 1). unfold step. rewrite Hrd, Hm, E1.
        replace (s_pos s + 1 <=? fpos c) with true by (symmetry; apply Nat.leb_le; lia).
        replace (got + 1 <=? i_len m) with true by (symmetry; apply Nat.leb_le; lia). cbn.
        destruct (i_len m <=? got + 1); eexists; reflexivity.
      * apply nth_error_None in Hm. lia.
  - (* broadcasting: the next entry, unless its queue is full — then the receiver that fills it can take an item *)
    destruct rest as [|k rest].
    + exists LBcastEnd. unfold step. rewrite Hrd. destruct it; eexists; reflexivity.
    + destruct (match it with IMsg n => match nth_error (msgs c) n with Some m => kmatch k m | None => false end | IErr _ => true end) eqn:Ed.
      * destruct (full c (chan_of k) (s_tasks s)) eqn:Ef.
        -- unfold full in Ef. apply existsb_nth in Ef. destruct Ef as (i & t & Hi & Hx).
           destruct (task_rx t) as [x|] eqn:Etx; [|discriminate]. unfold rx_full in Hx. apply Bool.andb_true_iff in Hx.
           destruct Hx as [_ Hx]. apply Nat.leb_le in Hx. specialize (Hcap (chan_of k)).
           destruct (inbox_enabled c s i t x Hi Etx) as [s' Hs'].
           { intros En. rewrite En in Hx. cbn in Hx. lia. }
           exists (LTask i), s'. exact Hs'.
        -- exists (LBcast 0). unfold step. rewrite Hrd. cbn [nth_error]. rewrite Ed, Ef. eexists; reflexivity.
      * exists (LBcast 0). unfold step. rewrite Hrd. cbn [nth_error]. rewrite Ed. eexists; reflexivity.
  - unfold final_b in Hfin. rewrite Hrd in Hfin. apply forallb_false_nth in Hfin. destruct Hfin as (i & t & Hi & Hf).
    unfold raced in Hrace. rewrite Hrd in Hrace. apply Bool.negb_false_iff in Hrace.
    assert (Hsn : s_senders s = []) by (destruct (s_senders s); [reflexivity | discriminate]).
    destruct (task_enabled_done c s i t Hrd Hsn H2 Hi Hf) as (j & s' & Hs'). exists (LTask j), s'. exact Hs'.
Qed.

(* nothing can move -> everything has completed, in every reachable state *)
Theorem stuck_final c ts tr s : wf c -> reach c ts tr s -> stuck c s -> final s.
Proof.
  intros Hwf Hr Hst. pose proof (never_raced c ts tr s Hr) as Hrace. apply final_b_iff. destruct (final_b s) eqn:E; [reflexivity|].
  destruct (invariants c ts tr s Hwf Hr) as [H1 H2].
  destruct (progress c s Hwf H1 H2 Hrace E) as (l & s' & Hs). rewrite (Hst l) in Hs. discriminate.
Qed.
