(* C38/PrefixC.v — task steps preserve the invariant G; G holds in every reachable state. *)
From ZV Require Import Base.Bytes Base.Res C38.Model C38.Spec C38.Progress C38.Measure C38.PrefixA C38.PrefixB.
From Coq Require Import Lia.

Lemma mem_In r l : mem r l = true <-> In r l.
Proof.
  unfold mem. rewrite existsb_exists. split.
  - intros (x & Hx & E). apply Nat.eqb_eq in E. now subst.
  - intros H. exists r. split; [assumption | apply Nat.eqb_refl].
Qed.

Lemma front_frame c ch s s' : s_rd s' = s_rd s -> s_next s' = s_next s -> front c ch s' = front c ch s.
Proof. intros H1 H2. unfold front. now rewrite H1, H2. Qed.

Lemma J_frame c s s' x : s_rd s' = s_rd s -> s_next s' = s_next s -> J c s x -> J c s' x.
Proof.
  intros H1 H2 HJ. apply (J_mono c s); [assumption | now apply front_frame | unfold err_done; now rewrite H1].
Qed.

Lemma J_new c s s' ch : s_rd s' = s_rd s -> s_next s' = s_next s -> J c s' (new_rx c ch s).
Proof.
  intros H1 H2. unfold J, new_rx. cbn [x_chan x_from x_got x_inbox]. rewrite (front_frame c ch s s' H1 H2).
  split; [lia|]. exists []. rewrite expected_nil. split; [reflexivity | now left].
Qed.

Lemma J_take c s x it rest : x_inbox x = it :: rest -> J c s x -> J c s (take_rx x it rest).
Proof.
  intros E (Hle & errs & He & Hok). unfold J, take_rx. cbn [x_chan x_from x_got x_inbox]. split; [assumption|].
  exists errs. split; [|assumption]. rewrite <- He, E, <- app_assoc. reflexivity.
Qed.

(* Ptask only looks at the reader's phase, the number of complete messages and the subscriptions *)
Lemma Ptask_frame c s s' t : s_rd s' = s_rd s -> s_next s' = s_next s -> s_subs s' = s_subs s -> Ptask c s t -> Ptask c s' t.
Proof.
  intros H1 H2 H3 Hp. destruct t as [? ? ? p|src ? ? p|? p]; try exact I.
  destruct p as [| |q| |x|o|x]; destruct src as [r|]; cbn [Ptask] in *; try exact I; try (now rewrite H3).
  - destruct Hp as (A & B0 & Cj). rewrite H3. split; [assumption | split; [assumption | now apply (J_frame c s)]].
  - destruct Hp as (A & B0 & Cj). rewrite H3. split; [assumption | split; [assumption | now apply (J_frame c s)]].
  - destruct Hp as (A & B0 & Cj & D & E). rewrite H3, H1. split; [assumption|]. split; [assumption|]. split; [now apply (J_frame c s)|]. split; assumption.
  - destruct Hp as (A & B0 & Cj & D & E). rewrite H3, H1. split; [assumption|]. split; [assumption|]. split; [now apply (J_frame c s)|]. split; assumption.
Qed.

Lemma has_key_present ch l : stream_chan ch -> In (key_of ch) l -> has_key ch l = true.
Proof. intros Hs H. rewrite has_key_stream by assumption. now apply existsb_key_in. Qed.

Theorem G_task c s i s' : G c s -> tstep c s i = Some s' -> G c s'.
Proof.
  intros HG Hs. pose proof HG as (Hrd & Hk & Hh & Hp). unfold tstep in Hs.
  destruct (nth_error (s_tasks s) i) as [t|] eqn:Hi; [|discriminate].
  pose proof (Hp i t Hi) as Hpt.
  assert (Hlock : hold1 t = 1 -> s_sublock s = true).
  { intros H1. pose proof (sumf_nth_le hold1 _ _ _ Hi) as Hle. rewrite Hh, H1 in Hle. destruct (s_sublock s); [reflexivity | lia]. }
  (* the general case: msg_senders and the subscriptions stay as they are *)
  assert (Hfin : forall s0 t0, s_rd s0 = s_rd s -> s_next s0 = s_next s -> s_tasks s0 = s_tasks s ->
            s_senders s0 = s_senders s -> s_subs s0 = s_subs s ->
            hold1 t0 + (if s_sublock s then 1 else 0) = hold1 t + (if s_sublock s0 then 1 else 0) ->
            Ptask c s t0 -> G c (set_task s0 i t0)).
  { intros s0 t0 E1 E2 E3 E4 E5 Ehold Hpt0. unfold G. split; [|split; [|split]].
    - unfold rd_ok in *. cbn. now rewrite E1, E2.
    - unfold keys_ok in *. cbn. now rewrite E1, E4, E5.
    - cbn. rewrite E3. pose proof (sumf_set_nth hold1 _ _ _ t0 Hi) as Hsum. lia.
    - intros j tj Hj. cbn in Hj. rewrite E3 in Hj. destruct (Nat.eq_dec i j) as [<-|Hne].
      + rewrite nth_error_set_nth_eq in Hj by (eapply nth_error_lt; eassumption). inversion Hj; subst tj.
        apply (Ptask_frame c s); cbn; assumption.
      + rewrite nth_error_set_nth_neq in Hj by assumption. apply (Ptask_frame c s); cbn; try assumption. now apply Hp with j. }
  destruct t as [serial cost nr p|src serial cost p|cost p].
  - destruct (cstep c s serial cost nr p) as [[p' s1]|] eqn:E; [|discriminate]. apply cstep_rd in E.
    destruct E as (E1 & E2 & E3 & E4 & E5 & E6 & E7). inversion Hs; subst. apply Hfin; try assumption; try exact I; now rewrite E4.
  - destruct p as [| |q| |x|o|x].
    + (* the emptiness test of add_match, or MessageStream::from *)
      destruct src as [r|].
      * destruct (locked s); [discriminate|]. destruct (is_nil (s_senders s)); inversion Hs; subst; apply Hfin; try reflexivity; exact I.
      * inversion Hs; subst. apply Hfin; try reflexivity. apply Ptask_open. split; [reflexivity|]. split; [discriminate|]. now apply J_new.
    + (* taking the subscriptions mutex *)
      destruct (s_sublock s) eqn:Hl; [discriminate|].
      destruct (match src with Some r => mem r (s_subs s) | None => true end) eqn:Em.
      * inversion Hs; subst. apply Hfin; try reflexivity; [now rewrite Hl|]. apply Ptask_open. split; [now destruct src|]. split.
        -- intros r ->. now apply mem_In.
        -- now apply J_new.
      * inversion Hs; subst. apply Hfin; try reflexivity.
        -- rewrite ?Hl. cbn. now destruct (bus c).
        -- destruct src as [r|]; [|discriminate]. assert (~ In r (s_subs s)) by (intros H; apply mem_In in H; congruence).
           now destruct (bus c).
    + (* the AddMatch round trip *)
      assert (Hh1 : hold1 (TStream src serial cost (SAdd q)) = 1) by reflexivity. specialize (Hlock Hh1).
      assert (Hkeep : forall q' s1, s_rd s1 = s_rd s -> s_next s1 = s_next s -> s_tasks s1 = s_tasks s -> s_sublock s1 = s_sublock s ->
                s_senders s1 = s_senders s -> s_subs s1 = s_subs s -> G c (set_task s1 i (TStream src serial cost (SAdd q')))).
      { intros q' s1 E1 E2 E3 E4 E5 E7. apply Hfin; try assumption. now rewrite E4. }
      destruct q as [|x|x|o].
      * destruct (cstep c s serial cost false CNew) as [[q' s1]|] eqn:E; [|discriminate]. apply cstep_rd in E.
        destruct E as (E1 & E2 & E3 & E4 & E5 & E6 & E7). inversion Hs; subst. now apply Hkeep.
      * destruct (cstep c s serial cost false (CSend x)) as [[q' s1]|] eqn:E; [|discriminate]. apply cstep_rd in E.
        destruct E as (E1 & E2 & E3 & E4 & E5 & E6 & E7). inversion Hs; subst. now apply Hkeep.
      * destruct (cstep c s serial cost false (CWait x)) as [[q' s1]|] eqn:E; [|discriminate]. apply cstep_rd in E.
        destruct E as (E1 & E2 & E3 & E4 & E5 & E6 & E7). inversion Hs; subst. now apply Hkeep.
      * destruct o; inversion Hs; subst; apply Hfin; try reflexivity; try (rewrite Hlock; reflexivity); try (destruct src; exact I).
        destruct src; exact Hpt.
    + (* the insert of add_match *)
      assert (Hh1 : hold1 (TStream src serial cost SChecked) = 1) by reflexivity. specialize (Hlock Hh1).
      destruct (locked s) eqn:Hlk; [discriminate|]. destruct src as [r|].
      * destruct (is_nil (s_senders s));
          [inversion Hs; subst; apply Hfin; try reflexivity; try exact I; now rewrite Hlock|].
        inversion Hs; subst; clear Hs. cbn [Ptask] in Hpt.
        assert (Hsum1 : sumf hold1 (s_tasks s) = 1) by (now rewrite Hh, Hlock).
        unfold G. split; [|split; [|split]].
        -- unfold rd_ok in *. cbn. exact Hrd.
        -- unfold keys_ok in *. unfold locked in Hlk. cbn. destruct (s_rd s) as [got|it rest|]; [|discriminate|exact I].
           destruct Hk as (Hnd & Hall & Hsub). split; [|split].
           ++ constructor; [|assumption]. intros Hin. apply Hpt. now apply Hsub.
           ++ now right.
           ++ intros r'. cbn. split.
              ** intros [->|H]; [now left | right; now apply Hsub].
              ** intros [E|H]; [inversion E; now left | right; now apply Hsub].
        -- cbn. pose proof (sumf_set_nth hold1 _ _ _ (TStream (Some r) serial cost (SOpen (new_rx c (CSub r) s))) Hi) as Hsum.
           cbn in Hsum. cbn. lia.
        -- intros j tj Hj. cbn in Hj. destruct (Nat.eq_dec i j) as [<-|Hne].
           ++ rewrite nth_error_set_nth_eq in Hj by (eapply nth_error_lt; eassumption). inversion Hj; subst tj.
              cbn [Ptask]. split; [reflexivity|]. split; [intros r' E; inversion E; now left|]. now apply J_new.
           ++ rewrite nth_error_set_nth_neq in Hj by assumption. pose proof (Hp j tj Hj) as Hpj.
              assert (Hnh : hold1 tj = 0).
              { pose proof (sumf_two hold1 _ i j _ _ Hne Hi Hj) as H2. rewrite Hsum1, Hh1 in H2. lia. }
              destruct tj as [? ? ? p|src' ? ? p|? p]; try exact I.
              destruct p as [| |q| |x|o|x]; try discriminate; try (destruct src'; exact I).
              ** apply Ptask_open. apply Ptask_open in Hpj. destruct Hpj as (A & B0 & Cj). split; [assumption|]. split.
                 --- intros r' E. right. now apply B0.
                 --- now apply (J_frame c s).
              ** apply Ptask_end. apply Ptask_end in Hpj. destruct Hpj as (A & B0 & Cj & D & E). split; [assumption|].
                 split; [intros r' E'; right; now apply B0|]. split; [now apply (J_frame c s)|]. split; assumption.
      * inversion Hs; subst. apply Hfin; try reflexivity; [now rewrite Hlock|]. apply Ptask_open.
        split; [reflexivity|]. split; [discriminate|]. now apply J_new.
    + (* consuming *)
      apply Ptask_open in Hpt. destruct Hpt as (A & B0 & Cj). destruct (x_inbox x) as [|it rest] eqn:Ein.
      * destruct (closed (x_chan x) s) eqn:Ecl; [|discriminate]. inversion Hs; subst. apply Hfin; try reflexivity.
        apply Ptask_end. split; [assumption|]. split; [assumption|]. split; [assumption|]. split; [|exact Ein].
        destruct (s_rd s) eqn:Hr; [| |reflexivity]; exfalso.
        -- assert (Hin : In (key_of (x_chan x)) (s_senders s)) by (eapply stream_key_present; try eassumption; rewrite Hr; discriminate).
           unfold closed in Ecl. rewrite has_key_present in Ecl; [discriminate | rewrite A; apply stream_chan_src | assumption].
        -- assert (Hin : In (key_of (x_chan x)) (s_senders s)) by (eapply stream_key_present; try eassumption; rewrite Hr; discriminate).
           unfold closed in Ecl. rewrite has_key_present in Ecl; [discriminate | rewrite A; apply stream_chan_src | assumption].
      * inversion Hs; subst. apply Hfin; try reflexivity. apply Ptask_open. split; [assumption|]. split; [assumption|]. now apply J_take.
    + discriminate.
    + discriminate.
  - destruct p; try discriminate. destruct (send_try c s cost) as [ok s1] eqn:E. apply send_try_rd in E.
    destruct E as (E1 & E2 & E3 & E4 & E5 & E6 & E7). inversion Hs; subst. apply Hfin; try assumption; try exact I; now rewrite E4.
Qed.

Theorem G_reach c ts tr s : forallb fresh_task ts = true -> reach c ts tr s -> G c s.
Proof.
  intros Hf Hr. induction Hr as [|tr s l s' Hr IH Hs]; [now apply G_init|].
  destruct l as [n| |j| |i]; try (refine (G_reader c _ s s' IH _ Hs); intro; discriminate).
  eapply G_task; [exact IH | exact Hs].
Qed.
