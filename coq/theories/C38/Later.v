(* C38/Later.v — what is started after the failure fails promptly; no panic; the full statement is refuted (add_match's
   check-then-insert race); non-vacuity examples. *)
From ZV Require Import Base.Bytes Base.Res C38.Model C38.Spec C38.Progress C38.Measure C38.PrefixA C38.PrefixB C38.PrefixC C38.Proofs.
From Coq Require Import Lia.

(* ---------------------------------------------------------------- later subscriptions *)
Lemma later_sub_fails c s i r a b : s_rd s = RdDone -> s_senders s = [] ->
  nth_error (s_tasks s) i = Some (TStream (Some r) a b SNew) ->
  tstep c s i = Some (set_task s i (TStream (Some r) a b (SFail OPipe))).
Proof. intros Hr Hs Hi. unfold tstep. rewrite Hi. unfold locked. now rewrite Hr, Hs. Qed.

(* MessageStream::from after the failure: opens, holds nothing, and ends at once *)
Lemma later_all_stream_ends c s i a b : s_rd s = RdDone -> closed CAll s = true ->
  nth_error (s_tasks s) i = Some (TStream None a b SNew) ->
  exists x, x_got x = [] /\ x_inbox x = [] /\
    run c [LTask i; LTask i] s = Some (set_task (set_task s i (TStream None a b (SOpen x))) i (TStream None a b (SEnd x))).
Proof.
  intros Hr Hc Hi. exists (new_rx c CAll s). split; [reflexivity|]. split; [reflexivity|].
  assert (Hlt : i < length (s_tasks s)) by (eapply nth_error_lt; eassumption).
  cbn [run step]. unfold tstep at 1. rewrite Hi. cbn [run step]. unfold tstep. cbn [s_tasks set_task].
  rewrite nth_error_set_nth_eq by assumption. cbn [x_inbox new_rx x_chan]. unfold closed in *. cbn [s_senders set_task]. now rewrite Hc.
Qed.

(* ---------------------------------------------------------------- later calls *)
Lemma tstep_senders c s i s' : tstep c s i = Some s' ->
  s_senders s' = s_senders s \/ exists r, s_senders s' = KRule r :: s_senders s.
Proof.
  unfold tstep. destruct (nth_error (s_tasks s) i) as [t|]; [|discriminate].
  destruct t as [serial cost nr p|src serial cost p|cost p].
  - destruct (cstep c s serial cost nr p) as [[p' s1]|] eqn:E; [|discriminate]. apply cstep_rd in E.
    intros H; inversion H; subst. left. cbn. tauto.
  - destruct p as [| |q| |x|o|x]; try discriminate.
    + destruct src; [destruct (locked s); [discriminate|]; destruct (is_nil (s_senders s))|]; intros H; inversion H; subst; now left.
    + destruct (s_sublock s); [discriminate|].
      destruct (match src with Some r => mem r (s_subs s) | None => true end); intros H; inversion H; subst; now left.
    + destruct q as [|x|x|o].
      * destruct (cstep c s serial cost false CNew) as [[q' s1]|] eqn:E; [|discriminate]. apply cstep_rd in E.
        intros H; inversion H; subst. left. cbn. tauto.
      * destruct (cstep c s serial cost false (CSend x)) as [[q' s1]|] eqn:E; [|discriminate]. apply cstep_rd in E.
        intros H; inversion H; subst. left. cbn. tauto.
      * destruct (cstep c s serial cost false (CWait x)) as [[q' s1]|] eqn:E; [|discriminate]. apply cstep_rd in E.
        intros H; inversion H; subst. left. cbn. tauto.
      * destruct o; intros H; inversion H; subst; now left.
    + destruct (locked s); [discriminate|]. destruct src; [destruct (is_nil (s_senders s))|]; intros H; inversion H; subst;
        [now left | right; now exists n | now left].
    + destruct (x_inbox x); [destruct (closed (x_chan x) s); [|discriminate]|]; intros H; inversion H; subst; now left.
  - destruct p; try discriminate. destruct (send_try c s cost) as [ok s1] eqn:E. apply send_try_rd in E.
    intros H; inversion H; subst. left. cbn. tauto.
Qed.

Definition late_ph (p : cph) : Prop :=
  match p with
  | CNew => True
  | CSend x | CWait x => x_inbox x = []
  | CDone o => o = OPipe \/ o = OAborted
  end.

(* a call made once the reader is gone and the reply channel is closed *)
Definition late_call (s : st) (i serial cost : nat) : Prop :=
  s_rd s = RdDone /\ closed CRet s = true /\
  exists p, nth_error (s_tasks s) i = Some (TCall serial cost false p) /\ late_ph p.

Lemma late_call_step c l s s' i serial cost : late_call s i serial cost -> step c l s = Some s' -> late_call s' i serial cost.
Proof.
  intros (Hr & Hc & p & Hi & Hp) Hs. destruct l as [n| |j| |j]; unfold step in Hs; rewrite ?Hr in Hs; try discriminate.
  pose proof (tstep_frame _ _ _ _ Hs) as (Hr' & _ & _ & _ & Hoth).
  assert (Hc' : closed CRet s' = true).
  { unfold closed, has_key in *. destruct (tstep_senders _ _ _ _ Hs) as [E|[r E]]; rewrite E; [assumption | cbn [existsb chan_of chan_eqb orb]; assumption]. }
  split; [congruence|]. split; [assumption|].
  destruct (Nat.eq_dec j i) as [->|Hne]; [|exists p; split; [rewrite Hoth by lia; assumption | assumption]].
  assert (Hlt : i < length (s_tasks s)) by (eapply nth_error_lt; eassumption).
  unfold tstep in Hs. rewrite Hi in Hs. destruct p as [|x|x|o]; cbn [cstep] in Hs.
  - inversion Hs; subst. exists (CSend (new_rx c CRet s)). cbn. now rewrite nth_error_set_nth_eq.
  - destruct (send_try c s cost) as [ok s1] eqn:E. apply send_try_rd in E. destruct E as (_ & _ & Et & _).
    destruct ok; inversion Hs; subst; [exists (CWait x) | exists (CDone OAborted)]; cbn; rewrite Et;
      rewrite nth_error_set_nth_eq by assumption; (split; [reflexivity|]); [exact Hp | now right].
  - cbn in Hp. rewrite Hp in Hs. rewrite Hc in Hs. inversion Hs; subst. exists (CDone OPipe). cbn.
    rewrite nth_error_set_nth_eq by assumption. split; [reflexivity | now left].
  - discriminate.
Qed.

Theorem later_call_inv c s i serial cost : late_call s i serial cost -> forall tr s', run c tr s = Some s' -> late_call s' i serial cost.
Proof.
  intros H tr. revert s H. induction tr as [|l tr IH]; intros s H s' Hrun; cbn [run] in Hrun.
  - now inversion Hrun; subst.
  - destruct (step c l s) as [s1|] eqn:E; [|discriminate]. eapply IH; [eapply late_call_step; eassumption | exact Hrun].
Qed.

Theorem later_call_fails c s i serial cost :
  s_rd s = RdDone -> closed CRet s = true -> nth_error (s_tasks s) i = Some (TCall serial cost false CNew) ->
  forall tr s', run c tr s = Some s' ->
  exists p, nth_error (s_tasks s') i = Some (TCall serial cost false p) /\ late_ph p.
Proof.
  intros Hr Hc Hi tr s' Hrun.
  assert (H0 : late_call s i serial cost) by (split; [assumption | split; [assumption | exists CNew; split; [assumption | exact I]]]).
  destruct (later_call_inv c s i serial cost H0 tr s' Hrun) as (_ & _ & p & Hp & Hl). now exists p.
Qed.

(* what a waiting call ends with: a reply it was handed, or an error *)
Lemma call_results c serial cost s x o s' :
  cstep c s serial cost false (CWait x) = Some (CDone o, s') ->
  (exists k m, o = OOk k /\ In (IMsg k) (x_inbox x) /\ nth_error (msgs c) k = Some m /\ i_class m = MReply serial) \/
  (exists k m, o = OMErr k /\ In (IMsg k) (x_inbox x) /\ nth_error (msgs c) k = Some m /\ i_class m = MError serial) \/
  is_err_outcome o = true.
Proof.
  cbn [cstep]. destruct (x_inbox x) as [|[k|e] rest].
  - destruct (closed CRet s); intros H; inversion H; subst. right. right. reflexivity.
  - unfold reply_for. destruct (nth_error (msgs c) k) as [m|] eqn:Hm; [|discriminate].
    destruct (i_class m) as [s0|s0|rs] eqn:Hc; try discriminate.
    + destruct (Nat.eqb s0 serial) eqn:E; [|discriminate]. apply Nat.eqb_eq in E. subst s0. intros H; inversion H; subst.
      left. exists k, m. repeat split; try assumption. now left.
    + destruct (Nat.eqb s0 serial) eqn:E; [|discriminate]. apply Nat.eqb_eq in E. subst s0. intros H; inversion H; subst.
      right. left. exists k, m. repeat split; try assumption. now left.
  - intros H; inversion H; subst. right. right. reflexivity.
Qed.

(* ---------------------------------------------------------------- no panic *)
Definition np_out (o : outcome) : bool := match o with OPanic => false | _ => true end.
Definition np_cph (p : cph) : bool := match p with CDone o => np_out o | _ => true end.
Definition np_task (t : task) : bool :=
  match t with
  | TCall _ _ nr p => negb nr && np_cph p
  | TStream _ _ _ (SAdd p) => np_cph p
  | TStream _ _ _ (SFail o) => np_out o
  | _ => true
  end.

Lemma forallb_set_nth {A} (f : A -> bool) l i v : forallb f l = true -> f v = true -> forallb f (set_nth i v l) = true.
Proof.
  revert i; induction l as [|x l IH]; intros i Hl Hv; [now destruct i|]. cbn in Hl. apply Bool.andb_true_iff in Hl. destruct Hl as [H1 H2].
  destruct i; cbn; [now rewrite Hv, H2 | now rewrite H1, IH].
Qed.
Lemma forallb_nth {A} (f : A -> bool) l i x : forallb f l = true -> nth_error l i = Some x -> f x = true.
Proof. intros H Hi. rewrite forallb_forall in H. apply H. eapply nth_error_In; eassumption. Qed.

Lemma cstep_np c s serial cost p p' s' : cstep c s serial cost false p = Some (p', s') -> np_cph p' = true.
Proof.
  destruct p as [|x|x|o]; cbn [cstep].
  - intros H; inversion H; reflexivity.
  - destruct (send_try c s cost) as [ok s1]. destruct ok; intros H; inversion H; reflexivity.
  - destruct (x_inbox x) as [|[k|e] rest].
    + destruct (closed CRet s); intros H; inversion H; reflexivity.
    + unfold reply_for. destruct (nth_error (msgs c) k) as [m|]; [destruct (i_class m) as [s0|s0|rs]; [destruct (Nat.eqb s0 serial)|destruct (Nat.eqb s0 serial)|]|];
        intros H; inversion H; reflexivity.
    + intros H; inversion H; reflexivity.
  - discriminate.
Qed.

Lemma np_push ch it t : np_task (push_task ch it t) = np_task t.
Proof.
  destruct t as [? ? ? p|? ? ? p|? p]; [destruct p; reflexivity | | reflexivity].
  destruct p as [| |q| | | |]; try reflexivity. destruct q; reflexivity.
Qed.

Lemma np_step c l s s' : forallb np_task (s_tasks s) = true -> step c l s = Some s' -> forallb np_task (s_tasks s') = true.
Proof.
  intros Hn Hs. destruct l as [n| |j| |i]; unfold step in Hs.
  - destruct (s_rd s) as [got| |]; try discriminate. destruct (nth_error (msgs c) (s_next s)) as [m|]; [|discriminate].
    destruct (negb (s_broken s) && (1 <=? n) && (s_pos s + n <=? fpos c) && (got + n <=? i_len m)); [|discriminate].
    destruct (i_len m <=? got + n); inversion Hs; subst; exact Hn.
  - destruct (s_rd s); try discriminate.
    destruct (s_broken s || (fpos c <=? s_pos s) || (length (msgs c) <=? s_next s)); inversion Hs; subst. exact Hn.
  - destruct (s_rd s) as [|it rest|]; try discriminate. destruct (nth_error rest j); [|discriminate].
    destruct (match it with IMsg n => match nth_error (msgs c) n with Some m => kmatch k m | None => false end | IErr _ => true end).
    + destruct (full c (chan_of k) (s_tasks s)); inversion Hs; subst. cbn. rewrite forallb_forall in *. intros t Ht.
      apply in_map_iff in Ht. destruct Ht as (t0 & <- & Ht0). rewrite np_push. now apply Hn.
    + inversion Hs; subst. exact Hn.
  - destruct (s_rd s) as [|it rest|]; try discriminate. destruct rest; [|discriminate]. destruct it; inversion Hs; subst; exact Hn.
  - unfold tstep in Hs. destruct (nth_error (s_tasks s) i) as [t|] eqn:Hi; [|discriminate]. pose proof (forallb_nth _ _ _ _ Hn Hi) as Ht.
    assert (Hset : forall s0 t0, s_tasks s0 = s_tasks s -> np_task t0 = true -> forallb np_task (s_tasks (set_task s0 i t0)) = true).
    { intros s0 t0 E Hv. cbn. rewrite E. now apply forallb_set_nth. }
    destruct t as [serial cost nr p|src serial cost p|cost p].
    + cbn in Ht. apply Bool.andb_true_iff in Ht. destruct Ht as [Hnr _]. apply Bool.negb_true_iff in Hnr. subst nr.
      destruct (cstep c s serial cost false p) as [[p' s1]|] eqn:E; [|discriminate]. pose proof (cstep_np _ _ _ _ _ _ _ E) as Hp'.
      apply cstep_rd in E. inversion Hs; subst. apply Hset; [tauto | exact Hp'].
    + destruct p as [| |q| |x|o|x]; try discriminate.
      * destruct src; [destruct (locked s); [discriminate|]; destruct (is_nil (s_senders s))|]; inversion Hs; subst; now apply Hset.
      * destruct (s_sublock s); [discriminate|].
        destruct (match src with Some r => mem r (s_subs s) | None => true end); inversion Hs; subst; apply Hset; try reflexivity; now destruct (bus c).
      * destruct q as [|x|x|o].
        -- destruct (cstep c s serial cost false CNew) as [[q' s1]|] eqn:E; [|discriminate]. pose proof (cstep_np _ _ _ _ _ _ _ E) as Hp'.
           apply cstep_rd in E. inversion Hs; subst. apply Hset; [tauto | exact Hp'].
        -- destruct (cstep c s serial cost false (CSend x)) as [[q' s1]|] eqn:E; [|discriminate]. pose proof (cstep_np _ _ _ _ _ _ _ E) as Hp'.
           apply cstep_rd in E. inversion Hs; subst. apply Hset; [tauto | exact Hp'].
        -- destruct (cstep c s serial cost false (CWait x)) as [[q' s1]|] eqn:E; [|discriminate]. pose proof (cstep_np _ _ _ _ _ _ _ E) as Hp'.
           apply cstep_rd in E. inversion Hs; subst. apply Hset; [tauto | exact Hp'].
        -- cbn in Ht. destruct o; inversion Hs; subst; apply Hset; try reflexivity; discriminate.
      * destruct (locked s); [discriminate|]. destruct src; [destruct (is_nil (s_senders s))|]; inversion Hs; subst; now apply Hset.
      * destruct (x_inbox x); [destruct (closed (x_chan x) s); [|discriminate]|]; inversion Hs; subst; now apply Hset.
    + destruct p; try discriminate. destruct (send_try c s cost) as [ok s1] eqn:E. apply send_try_rd in E.
      inversion Hs; subst. apply Hset; [tauto | now destruct ok].
Qed.

Theorem no_panic c ts tr s : forallb np_task ts = true -> reach c ts tr s -> forallb np_task (s_tasks s) = true.
Proof. intros Hn Hr. induction Hr as [|tr s l s' Hr IH Hs]; [exact Hn | eapply np_step; eassumption]. Qed.

(* ---------------------------------------------------------------- the former race (fixed by 3703ee13) *)
(* a bus connection; the AddMatch reply of a subscription is the last thing the peer sends before the stream ends.  With the
   unrepaired add_match this history ended in a stuck, non-final state (a stream that never ends); now the insert is refused *)
Definition race_cfg : cfg :=
  {| msgs := [{| i_len := 24; i_class := MReply 101 |}]; fpos := 24; fkind := EEof; wbudget := None; bus := true; cap := fun _ => 8 |}.
Definition race_tasks : list task := [TStream (Some 0) 101 1 SNew].
Definition race_trace : list label :=
  [LTask 0; LTask 0; LTask 0; LTask 0;                          (* check, mutex, activate the reply receiver, send AddMatch *)
   LRecv 24; LBcast 0; LBcast 0; LBcast 0; LBcastEnd;           (* the reply arrives and is broadcast *)
   LFault; LBcast 0; LBcast 0; LBcast 0; LBcastEnd;             (* end-of-file: error to every channel, senders.clear() *)
   LTask 0; LTask 0; LTask 0].                                  (* add_match resumes with its Ok reply, re-tests, refuses *)
Definition race_state : st :=
  {| s_pos := 24; s_next := 1; s_rd := RdDone; s_senders := []; s_subs := []; s_sublock := false;
     s_tasks := [TStream (Some 0) 101 1 (SFail OPipe)]; s_broken := false; s_wcalls := 1 |}.

Lemma race_run : run race_cfg race_trace (init race_tasks) = Some race_state.
Proof. vm_compute. reflexivity. Qed.

Lemma race_wf : wf race_cfg.
Proof. split; [|intros; cbn; lia]. intros m [<-|[]]. cbn. lia. Qed.

Example race_now_fails_promptly :
  wf race_cfg /\ forallb fresh_task race_tasks = true /\ reach race_cfg race_tasks race_trace race_state /\
  stuck race_cfg race_state /\ final race_state.
Proof.
  split; [exact race_wf|]. split; [reflexivity|]. split; [apply run_sound; exact race_run|]. split.
  - intros l. destruct l as [n| |j| |i]; try reflexivity. cbn [step]. unfold tstep. destruct i as [|i]; [reflexivity|].
    cbn. now destruct i.
  - split; reflexivity.
Qed.

(* ---------------------------------------------------------------- non-vacuity: a session that fails in the middle *)
(* two pending calls, an unfiltered stream and a rule stream; four inbound messages; end-of-file inside the third *)
Definition demo_cfg : cfg :=
  {| msgs := [{| i_len := 40; i_class := MSignal [0] |}; {| i_len := 24; i_class := MReply 1 |};
              {| i_len := 50; i_class := MSignal [0] |}; {| i_len := 24; i_class := MReply 2 |}];
     fpos := 70; fkind := EReset; wbudget := None; bus := false; cap := fun ch => match ch with CSub _ => 1 | _ => 8 end |}.
Definition demo_tasks : list task :=
  [TCall 1 1 false CNew; TCall 2 1 false CNew; TStream None 0 1 SNew; TStream (Some 0) 0 1 SNew].
Definition demo_trace : list label :=
  [LTask 2; LTask 3; LTask 3; LTask 3; LTask 0; LTask 0; LTask 1; LTask 1;
   LRecv 16; LRecv 24; LBcast 3; LBcast 0; LBcast 0; LBcast 0; LBcastEnd;
   LRecv 24; LBcast 1; LBcast 0; LTask 3; LBcast 0; LBcast 0; LBcastEnd;
   LRecv 6; LFault; LBcast 0; LBcast 0; LBcast 0; LBcast 0; LBcastEnd;
   LTask 0; LTask 1; LTask 1; LTask 2; LTask 2; LTask 2; LTask 2; LTask 3; LTask 3].

Example demo_session : exists s,
  run demo_cfg demo_trace (init demo_tasks) = Some s /\ wf demo_cfg /\ forallb fresh_task demo_tasks = true /\
  final s /\ raced s = false /\ s_next s = 2 /\ complete (msgs demo_cfg) (fpos demo_cfg) = 2 /\
  map (fun t => match t with TCall _ _ _ (CDone o) => Some o | _ => None end) (s_tasks s) = [Some (OOk 1); Some (OIo EReset); None; None] /\
  map (fun t => match t with TStream _ _ _ (SEnd x) => x_got x | _ => [] end) (s_tasks s) =
    [[]; []; [IMsg 0; IMsg 1; IErr EReset]; [IMsg 0; IErr EReset]].
Proof.
  eexists. split; [vm_compute; reflexivity|]. split.
  { split; [|intros ch; cbn; destruct ch; lia]. intros m Hm. cbn in Hm. repeat (destruct Hm as [<-|Hm]; [cbn; lia|]). destruct Hm. }
  repeat split.
Qed.

(* the property at full strength *)
Definition full_statement : Prop :=
  forall (c : cfg) (ts : list task) (tr : list label) (s : st),
    wf c -> forallb fresh_task ts = true -> reach c ts tr s -> stuck c s -> final s.
Theorem full_statement_holds : full_statement.
Proof. intros c ts tr s Hwf _ Hr Hst. exact (stuck_final c ts tr s Hwf Hr Hst). Qed.
