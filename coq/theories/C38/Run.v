(* C38/Run.v — two-phase line driver.  Input:  <case> TAB <observation>   (harness/hfail mode X, see src/fault.rs)
     case        X <seed> <p|b> <fault> <rchunk> <wchunk> <phase>/<phase>/...
     observation lens=..;costs=..;tasks=..;trace=..;rd=<bytes read>;wr=<sendmsg calls>;fp=<phase of the failure | ->
   model field: OK when replaying the recorded poll order (`K<released>` = let the reader run, `P<i>` = poll task i) through
                Model.step ends in exactly the observed results, bytes read and sendmsg calls; otherwise what the model predicts.
   spec  field: OK when the observation satisfies the property (Spec.task_ok for every task), `-` when the transport did
                not fail in this run; otherwise which task breaks it.
   class field: `-` (the former class addmatch_race, Spec.raced, is empty since fix 3703ee13: Progress.never_raced; the test
                stays so that a model edit that re-opens it shows up). *)
From ZV Require Import Base.Bytes Base.Res C38.Model C38.Spec.

Definition nat_of_dec (s : bytes) : option nat := option_map N.to_nat (N_of_dec s).
Definition dec (n : nat) : bytes := dec_of_N (N.of_nat n).

Inductive inkind := InReply (id : nat) | InErr (id : nat) | InAdd (sid : nat) | InSig (rules : list nat).
Inductive op :=
  | OpCall (id : nat) | OpStream (sid : nat) (src : option nat) (q : option nat) (paused : bool) | OpEmit
  | OpUnpause (sid : nat) | OpIn (k : inkind).

Definition rule_id (s : bytes) : option (option nat) :=
  if lbeq s (B "*") then Some None else if lbeq s (B "A") then Some (Some 0) else if lbeq s (B "B") then Some (Some 1)
  else if lbeq s (B "C") then Some (Some 2) else None.

(* rule A: interface v.A; rule B: member F; rule C: interface v.A and member G *)
Definition sig_rules (i m : byte) : list nat :=
  (if beq i "A"%byte then [0] else []) ++ (if beq m "F"%byte then [1] else []) ++
  (if beq i "A"%byte && beq m "G"%byte then [2] else []).

Fixpoint stream_opts (l : list bytes) (q : option nat) (h : bool) : option (option nat * bool) :=
  match l with
  | [] => Some (q, h)
  | o :: r => match o with
              | c :: n => if beq c "h"%byte && is_nil n then stream_opts r q true
                          else if beq c "q"%byte then match nat_of_dec n with Some v => stream_opts r (Some v) h | None => None end
                          else None
              | [] => None
              end
  end.

Definition parse_op (s : bytes) : option op :=
  match s with
  | c :: r =>
      if beq c "c"%byte then option_map OpCall (nat_of_dec r)
      else if beq c "e"%byte then match nat_of_dec r with Some _ => Some OpEmit | None => None end
      else if beq c "u"%byte then option_map OpUnpause (nat_of_dec r)
      else if beq c "t"%byte then
        match split_on ":"%byte r with
        | sid :: rule :: opts =>
            match nat_of_dec sid, rule_id rule, stream_opts opts None false with
            | Some sd, Some src, Some (q, h) => Some (OpStream sd src q h)
            | _, _, _ => None
            end
        | _ => None
        end
      else if beq c "i"%byte then
        match r with
        | k :: r2 =>
            if beq k "r"%byte then option_map (fun n => OpIn (InReply n)) (nat_of_dec r2)
            else if beq k "e"%byte then option_map (fun n => OpIn (InErr n)) (nat_of_dec r2)
            else if beq k "a"%byte then option_map (fun n => OpIn (InAdd n)) (nat_of_dec r2)
            else if beq k "s"%byte then
              match r2 with
              | i :: m :: colon :: n => match nat_of_dec n with Some _ => Some (OpIn (InSig (sig_rules i m))) | None => None end
              | _ => None
              end
            else None
        | [] => None
        end
      else None
  | [] => None
  end.

Fixpoint parse_all {A B} (f : A -> option B) (l : list A) : option (list B) :=
  match l with
  | [] => Some []
  | x :: r => match f x, parse_all f r with Some y, Some ys => Some (y :: ys) | _, _ => None end
  end.

Definition parse_phase (s : bytes) : option (list op) :=
  parse_all parse_op (filter (fun w => negb (is_nil w)) (split_on ","%byte s)).

Definition parse_dots (s : bytes) : option (list nat) :=
  if lbeq s (B "-") then Some [] else parse_all nat_of_dec (split_on "."%byte s).

(* fault token: (fpos, wbudget, kind) *)
Definition parse_fault (s : bytes) : option (option nat * option nat * ekind) :=
  if lbeq s (B "n") then Some (None, None, EEof)
  else match s with
       | c :: r =>
           let body := removelast r in
           let k := last r "?"%byte in
           match nat_of_dec body, (if beq k "E"%byte then Some EEof else if beq k "R"%byte then Some EReset else None) with
           | Some n, Some kd => if beq c "r"%byte then Some (Some n, None, kd) else if beq c "w"%byte then Some (None, Some n, kd) else None
           | _, _ => None
           end
       | [] => None
       end.

Fixpoint field (name : bytes) (fs : list bytes) : option bytes :=
  match fs with
  | [] => None
  | f :: r => if starts_with (name ++ B "=") f then Some (skipn (S (length name)) f) else field name r
  end.

(* ---------------------------------------------------------------- building the model's configuration *)
Definition stream_serial (sid : nat) : nat := 100 + sid.

Fixpoint build_msgs (ops : list op) (lens : list nat) : list imsg :=
  match ops with
  | [] => []
  | OpIn k :: r =>
      match lens with
      | l :: ls =>
          let cls := match k with InReply id => MReply id | InErr id => MError id | InAdd sid => MReply (stream_serial sid)
                              | InSig rs => MSignal rs end in
          if Nat.eqb l 0 then build_msgs r ls else {| i_len := l; i_class := cls |} :: build_msgs r ls
      | [] => []
      end
  | _ :: r => build_msgs r lens
  end.

Definition cost_of (costs : list nat) (i : nat) : nat := match nth i costs 0 with O => 1 | n => n end.

Fixpoint build_tasks (ops : list op) (costs : list nat) (i : nat) : list task :=
  match ops with
  | [] => []
  | OpCall id :: r => TCall id (cost_of costs i) false CNew :: build_tasks r costs (S i)
  | OpStream sid src _ _ :: r => TStream src (stream_serial sid) (cost_of costs i) SNew :: build_tasks r costs (S i)
  | OpEmit :: r => TEmit (cost_of costs i) ENew :: build_tasks r costs (S i)
  | _ :: r => build_tasks r costs i
  end.

Fixpoint build_paused (ops : list op) : list bool :=
  match ops with
  | [] => []
  | OpCall _ :: r => false :: build_paused r
  | OpStream _ _ _ h :: r => h :: build_paused r
  | OpEmit :: r => false :: build_paused r
  | _ :: r => build_paused r
  end.

(* task index of stream sid *)
Fixpoint stream_index (ops : list op) (sid i : nat) : option nat :=
  match ops with
  | [] => None
  | OpStream sd _ _ _ :: r => if Nat.eqb sd sid then Some i else stream_index r sid (S i)
  | OpCall _ :: r | OpEmit :: r => stream_index r sid (S i)
  | _ :: r => stream_index r sid i
  end.

Fixpoint rule_cap (ops : list op) (r : nat) : nat :=
  match ops with
  | [] => 64
  | OpStream _ (Some r') q _ :: rest => if Nat.eqb r r' then match q with Some n => n | None => 64 end else rule_cap rest r
  | _ :: rest => rule_cap rest r
  end.

Definition caps (ops : list op) (ch : chan) : nat :=
  match ch with CAll => 64 | CRet => 8 | CSub r => rule_cap ops r end.

(* ---------------------------------------------------------------- replaying the recorded poll order *)
Definition fuel0 : nat := 64 * 64.

Fixpoint reader_run (fuel : nat) (c : cfg) (avail : nat) (s : st) : option st :=
  match fuel with
  | O => None
  | S f =>
      match s_rd s with
      | RdDone => Some s
      | RdRead got =>
          if s_broken s || (fpos c <=? s_pos s) then
            match step c LFault s with Some s' => reader_run f c avail s' | None => Some s end
          else
            let lim := Nat.min avail (fpos c) in
            match nth_error (msgs c) (s_next s) with
            | Some m =>
                let n := Nat.min (i_len m - got) (lim - s_pos s) in
                if 1 <=? n then match step c (LRecv n) s with Some s' => reader_run f c avail s' | None => Some s end
                else Some s
            | None => Some s
            end
      | RdBcast _ [] => match step c LBcastEnd s with Some s' => reader_run f c avail s' | None => Some s end
      | RdBcast _ rest =>
          (* the first entry that is not blocked by a full queue *)
          match find (fun j => match step c (LBcast j) s with Some _ => true | None => false end) (seq 0 (length rest)) with
          | Some j => match step c (LBcast j) s with Some s' => reader_run f c avail s' | None => Some s end
          | None => Some s
          end
      end
  end.

Definition consuming (s : st) (i : nat) : bool :=
  match nth_error (s_tasks s) i with Some (TStream _ _ _ (SOpen _)) => true | _ => false end.

Fixpoint task_run (fuel : nat) (c : cfg) (paused : bool) (i : nat) (s : st) : option st :=
  match fuel with
  | O => None
  | S f =>
      if paused && consuming s i then Some s
      else match step c (LTask i) s with
           | Some s' => task_run f c paused i s'
           | None => Some s
           end
  end.

Fixpoint unpause (ops : list op) (all : list op) (paused : list bool) : list bool :=
  match ops with
  | [] => paused
  | OpUnpause sid :: r =>
      unpause r all (match stream_index all sid 0 with Some i => set_nth i false paused | None => paused end)
  | _ :: r => unpause r all paused
  end.

Inductive rstate := RS (s : st) (paused : list bool) (phases : list (list op)).

Fixpoint replay (c : cfg) (all : list op) (toks : list bytes) (r : rstate) : option rstate :=
  match toks with
  | [] => Some r
  | t :: ts =>
      let '(RS s paused phases) := r in
      match t with
      | k :: n =>
          if beq k "|"%byte then
            match phases with
            | ph :: rest => replay c all ts (RS s (unpause ph all paused) rest)
            | [] => None
            end
          else match nat_of_dec n with
               | None => None
               | Some v =>
                   if beq k "K"%byte then
                     match reader_run fuel0 c v s with Some s' => replay c all ts (RS s' paused phases) | None => None end
                   else if beq k "P"%byte then
                     match task_run fuel0 c (nth v paused false) v s with Some s' => replay c all ts (RS s' paused phases) | None => None end
                   else None
               end
      | [] => replay c all ts r
      end
  end.

(* ---------------------------------------------------------------- printing what the model predicts, like the harness *)
Definition ekind_tok (e : ekind) : bytes := match e with EEof => B "eof" | EReset => B "reset" end.
Definition outcome_tok (o : outcome) : bytes :=
  match o with
  | OOk k => B "ok" ++ dec k
  | OMErr k => B "me" ++ dec k
  | OIo e => B "io:" ++ ekind_tok e
  | OPipe => B "io:pipe"
  | OAborted => B "io:aborted"
  | OPanic => B "PANIC"
  end.
Definition item_tok (it : item) : bytes :=
  match it with IMsg k => B "m" ++ dec k | IErr e => B "Eio-" ++ ekind_tok e end.
Definition items_tok (l : list item) : bytes := match l with [] => B "-" | _ => join (B ".") (map item_tok l) end.

Fixpoint name_toks (ops : list op) : list bytes :=
  match ops with
  | [] => []
  | OpCall id :: r => (B "C" ++ dec id) :: name_toks r
  | OpStream sid _ _ _ :: r => (B "S" ++ dec sid) :: name_toks r
  | OpEmit :: r => B "E" :: name_toks r
  | _ :: r => name_toks r
  end.

Definition task_tok (t : task) : bytes :=
  match t with
  | TCall _ _ _ (CDone o) => outcome_tok o
  | TCall _ _ _ _ => B "HANG"
  | TEmit _ EOk => B "ok"
  | TEmit _ EFail => B "io:aborted"
  | TEmit _ ENew => B "HANG"
  | TStream _ _ _ (SOpen x) => items_tok (x_got x) ++ B ":open"
  | TStream _ _ _ (SEnd x) => items_tok (x_got x) ++ B ":ended"
  | TStream _ _ _ (SFail o) => B "-:failed:" ++ outcome_tok o
  | TStream _ _ _ _ => B "-:opening"
  end.

Fixpoint zip_toks (ns : list bytes) (ts : list task) : list bytes :=
  match ns, ts with
  | n :: ns', t :: ts' => (n ++ B "=" ++ task_tok t) :: zip_toks ns' ts'
  | _, _ => []
  end.

(* ---------------------------------------------------------------- reading the observation for the oracle *)
Definition parse_outcome (s : bytes) : option (option outcome) :=
  if lbeq s (B "HANG") then Some None
  else if lbeq s (B "io:eof") then Some (Some (OIo EEof))
  else if lbeq s (B "io:reset") then Some (Some (OIo EReset))
  else if lbeq s (B "io:pipe") then Some (Some OPipe)
  else if lbeq s (B "io:aborted") then Some (Some OAborted)
  else if starts_with (B "ok") s then option_map (fun k => Some (OOk k)) (nat_of_dec (skipn 2 s))
  else if starts_with (B "me") s then option_map (fun k => Some (OMErr k)) (nat_of_dec (skipn 2 s))
  else None.

Definition parse_item (s : bytes) : option item :=
  if lbeq s (B "Eio-eof") then Some (IErr EEof)
  else if lbeq s (B "Eio-reset") then Some (IErr EReset)
  else match s with
       | c :: r => if beq c "m"%byte then option_map IMsg (nat_of_dec r) else None
       | [] => None
       end.

Definition parse_tobs (d : tdesc) (v : bytes) : tobs :=
  match d with
  | DCall _ => match parse_outcome v with Some o => ObCall o | None => ObOther end
  | DEmit => if lbeq v (B "ok") then ObEmit (Some true) else if lbeq v (B "HANG") then ObEmit None
             else match parse_outcome v with Some (Some _) => ObEmit (Some false) | _ => ObOther end
  | DStream _ _ =>
      match split_on ":"%byte v with
      | its :: stt =>
          match (if lbeq its (B "-") then Some [] else parse_all parse_item (split_on "."%byte its)) with
          | Some items =>
              let stt' := join (B ":") stt in
              if lbeq stt' (B "open") then ObStream items StOpen
              else if lbeq stt' (B "opening") then ObStream items StOpening
              else if lbeq stt' (B "ended") then ObStream items StEnded
              else if starts_with (B "failed:") stt' then
                match parse_outcome (skipn 7 stt') with
                | Some o => ObStream items (StFailed o)
                | None => ObStream items (StFailed None)
                end
              else ObOther
          | None => ObOther
          end
      | [] => ObOther
      end
  end.

Definition value_of (kv : bytes) : bytes :=
  match split_on "="%byte kv with _ :: v => join (B "=") v | [] => [] end.

(* per phase: number of inbound messages (with non-zero length) and bytes released up to and including it *)
Fixpoint released (phases : list (list op)) (lens : list nat) (cnt bytes_ : nat) : list (nat * nat) :=
  match phases with
  | [] => []
  | ph :: rest =>
      let k := length (filter (fun o => match o with OpIn _ => true | _ => false end) ph) in
      let ls := firstn k lens in
      let cnt' := cnt + length (filter (fun l => negb (Nat.eqb l 0)) ls) in
      let b' := bytes_ + fold_right Nat.add 0 ls in
      (cnt', b') :: released rest (skipn k lens) cnt' b'
  end.

(* descriptions, the phase each task starts in *)
Fixpoint describe (phases : list (list op)) (rel : list (nat * nat)) (busmode : bool) (ph : nat) : list (tdesc * nat) :=
  match phases with
  | [] => []
  | ops :: rest =>
      let before := match rel with (cnt, _) :: _ => cnt | [] => 0 end in
      flat_map (fun o => match o with
                         | OpCall id => [(DCall id, ph)]
                         | OpStream _ src _ _ => [(DStream src (if busmode then None else Some before), ph)]
                         | OpEmit => [(DEmit, ph)]
                         | _ => []
                         end) ops
      ++ describe rest (tl rel) busmode (S ph)
  end.

Fixpoint first_index {A} (f : A -> bool) (l : list A) (i : nat) : option nat :=
  match l with [] => None | x :: r => if f x then Some i else first_index f r (S i) end.

Definition tokOK : bytes := B "OK".

Definition run_case (line : bytes) : outp :=
  match split_on tab line with
  | [case; obs] =>
      if lbeq obs (B "PANIC") then {| o_model := B "impl-panicked"; o_spec := B "a-task-panicked"; o_class := dash |} else
      match words case with
      | [x; _; mode; ft; _; _; phs] =>
          let fs := split_on ";"%byte obs in
          match parse_all parse_phase (split_on "/"%byte phs), parse_fault ft,
                field (B "lens") fs, field (B "costs") fs, field (B "tasks") fs, field (B "trace") fs,
                field (B "rd") fs, field (B "wr") fs with
          | Some phases, Some (fpo, wb, kd), Some lens_s, Some costs_s, Some tasks_s, Some trace_s, Some rd_s, Some wr_s =>
              match parse_dots lens_s, parse_dots costs_s, nat_of_dec rd_s, nat_of_dec wr_s with
              | Some lens, Some costs, Some rdv, Some wrv =>
                  let busmode := lbeq mode (B "b") in
                  let all := concat phases in
                  let ms := build_msgs all lens in
                  (* no read fault: a position the released bytes never reach *)
                  let fp := match fpo with Some p => p | None => S (fold_right Nat.add 0 lens) end in
                  let c := {| msgs := ms; fpos := fp; fkind := kd; wbudget := wb; bus := busmode; cap := caps all |} in
                  let ts := build_tasks all costs 0 in
                  let r := replay c all (split_on sp trace_s) (RS (init ts) (build_paused all) phases) in
                  let observed := B "tasks=" ++ tasks_s ++ B ";rd=" ++ rd_s ++ B ";wr=" ++ wr_s in
                  let '(model, klass) :=
                    match r with
                    | None => (B "model-cannot-replay-the-trace", dash)
                    | Some (RS s _ _) =>
                        let predicted := B "tasks=" ++ join (B ",") (zip_toks (name_toks all) (s_tasks s)) ++
                                         B ";rd=" ++ dec (s_pos s) ++ B ";wr=" ++ dec (s_wcalls s) in
                        (if lbeq predicted observed then tokOK else B "predicted:" ++ predicted,
                         if raced s then B "addmatch_race" else dash)
                    end in
                  (* ---- the oracle, from the observation alone *)
                  let rel := released phases lens 0 0 in
                  let descs := describe phases ((0, 0) :: rel) busmode 0 in
                  let tvals := map value_of (split_on ","%byte tasks_s) in
                  let obsl := map (fun p => parse_tobs (fst (fst p)) (snd p)) (combine descs tvals) in
                  (* the phase during which the transport failed.  Read fault: the phase that released byte fp.  Write fault: the
                     phase in which the first sendmsg failed, as recorded by the scripted socket (fp=..).  It is NOT the phase in
                     which the first task that saw the write error was started: a task started early may send late (a subscription
                     waiting for the subscriptions mutex sends its AddMatch only when the holder has failed) *)
                  let fault_phase :=
                    match wb with
                    | Some _ => match field (B "fp") fs with Some t => nat_of_dec t | None => None end
                    | None => if Nat.eqb rdv fp then first_index (fun p => fp <=? snd p) rel 0 else None
                    end in
                  let spec :=
                    match fault_phase with
                    | None => dash
                    | Some fph =>
                        let n := complete ms rdv in
                        let laters := map (fun d => fph <? snd d) descs in
                        if negb (Nat.eqb (length tvals) (length descs)) then B "task-count"
                        else match tasks_ok ms n laters (map fst descs) obsl with
                             | None => tokOK
                             | Some i => B "task-" ++ dec i ++ B "-breaks-the-property:" ++ nth i tvals []
                             end
                    end in
                  {| o_model := model; o_spec := spec; o_class := klass |}
              | _, _, _, _ => bad_case
              end
          | _, _, _, _, _, _, _, _ => bad_case
          end
      | _ => bad_case
      end
  | _ => bad_case
  end.

Definition run (line : bytes) : bytes := render (run_case line).
