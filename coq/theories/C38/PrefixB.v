(* C38/PrefixB.v — the reader's steps preserve the invariant G. *)
From ZV Require Import Base.Bytes Base.Res C38.Model C38.Spec C38.Progress C38.Measure C38.PrefixA.
From Coq Require Import Lia.

Lemma J_mono c s s' x : J c s x -> front c (x_chan x) s' = front c (x_chan x) s ->
  (err_done s (x_chan x) -> err_done s' (x_chan x)) -> J c s' x.
Proof.
  intros (Hle & errs & He & Hok) Hf Hd. unfold J. rewrite Hf. split; [assumption|]. exists errs. split; [assumption|].
  destruct Hok as [->|[-> Hx]]; [now left | right; split; [reflexivity | now apply Hd]].
Qed.

(* steps that leave the task list alone *)
Lemma G_same_tasks c s s' : G c s -> s_tasks s' = s_tasks s -> s_subs s' = s_subs s -> s_sublock s' = s_sublock s ->
  rd_ok c s' -> keys_ok s' -> s_rd s <> RdDone ->
  (forall x src, x_chan x = chan_of_src src -> (forall r, src = Some r -> In r (s_subs s)) -> J c s x -> J c s' x) ->
  G c s'.
Proof.
  intros (Hrd & Hk & Hh & Hp) Ht Hs Hl Hrd' Hk' Hnd HJ. unfold G. rewrite Ht, Hl. repeat split; try assumption.
  intros i t Hi. specialize (Hp i t Hi). destruct t as [? ? ? p|src ? ? p|? p]; try exact I.
  destruct p as [| |q| |x|o|x]; destruct src as [r|]; cbn [Ptask] in *.
  all: try exact I.
  - now rewrite Hs.
  - now rewrite Hs.
  - destruct Hp as (Hc & Hsub & HJx). rewrite Hs. split; [assumption | split; [assumption|]]. apply (HJ x (Some r)); assumption.
  - destruct Hp as (Hc & Hsub & HJx). rewrite Hs. split; [assumption | split; [assumption|]]. apply (HJ x None); assumption.
  - destruct Hp as (_ & _ & _ & Hd & _). now elim Hnd.
  - destruct Hp as (_ & _ & _ & Hd & _). now elim Hnd.
Qed.

Lemma front_read c ch s got : s_rd s = RdRead got -> front c ch s = s_next s.
Proof. intros H. unfold front. now rewrite H. Qed.

Lemma hold1_push ch it t : hold1 (push_task ch it t) = hold1 t.
Proof. unfold hold1. now rewrite holds_lock_push. Qed.

Lemma front_bcast c ch s k rest m : s_rd s = RdBcast (IMsg k) rest -> nth_error (msgs c) k = Some m -> stream_chan ch -> NoDup rest ->
  front c ch s = if existsb (key_eqb (key_of ch)) rest && cmatch ch m then k else S k.
Proof. intros Hr Hm Hs Hn. unfold front. rewrite Hr, Hm. now rewrite pending_stream. Qed.

Theorem G_reader c l s s' : G c s -> (forall i, l <> LTask i) -> step c l s = Some s' -> G c s'.
Proof.
  intros HG Hl Hs. pose proof HG as (Hrd & Hk & Hh & Hp). destruct l as [n| |j| |i]; unfold step in Hs; [| | | |now elim (Hl i)].
  - (* recvmsg *)
    destruct (s_rd s) as [got| |] eqn:Hr; try discriminate.
    destruct (nth_error (msgs c) (s_next s)) as [m|] eqn:Hm; [|discriminate].
    destruct (negb (s_broken s) && (1 <=? n) && (s_pos s + n <=? fpos c) && (got + n <=? i_len m)); [|discriminate].
    unfold keys_ok in Hk. rewrite Hr in Hk.
    destruct (i_len m <=? got + n); inversion Hs; subst; clear Hs.
    + (* the message is complete *)
      apply (G_same_tasks c s _ HG); [reflexivity | reflexivity | reflexivity | | | rewrite Hr; discriminate | ].
      * unfold rd_ok; cbn. split; [reflexivity|]. split; [eapply nth_error_lt; eassumption | tauto].
      * unfold keys_ok; cbn. exact Hk.
      * intros x src Hc Hsub (Hle & errs & He & Hok).
        assert (Hsc : stream_chan (x_chan x)) by (rewrite Hc; apply stream_chan_src).
        assert (Hin : In (key_of (x_chan x)) (s_senders s)).
        { eapply stream_key_present; try eassumption; [unfold keys_ok; now rewrite Hr | rewrite Hr; discriminate]. }
        rewrite (front_read _ _ _ _ Hr) in Hle, He.
        destruct Hok as [->|[_ Hd]]; [|unfold err_done in Hd; now rewrite Hr in Hd].
        unfold J. rewrite (front_bcast c (x_chan x) _ (s_next s) (s_senders s) m); try reflexivity; try assumption; try tauto.
        apply existsb_key_in in Hin. rewrite Hin. cbn [andb].
        destruct (cmatch (x_chan x) m) eqn:Ecm.
        -- split; [assumption|]. exists []. split; [assumption | now left].
        -- split; [lia|]. exists []. split; [|now left]. rewrite expected_snoc by assumption. unfold mmatch. rewrite Hm, Ecm.
           rewrite !app_nil_r. rewrite app_nil_r in He. exact He.
    + apply (G_same_tasks c s _ HG); [reflexivity | reflexivity | reflexivity | | | rewrite Hr; discriminate | ].
      * unfold rd_ok; cbn. exact I.
      * unfold keys_ok; cbn. exact Hk.
      * intros x src _ _ HJ. apply (J_mono c s); [assumption | unfold front; cbn; now rewrite Hr |]. unfold err_done. now rewrite Hr.
  - (* the fault *)
    destruct (s_rd s) as [got| |] eqn:Hr; try discriminate.
    destruct (s_broken s || (fpos c <=? s_pos s) || (length (msgs c) <=? s_next s)); inversion Hs; subst; clear Hs.
    unfold keys_ok in Hk. rewrite Hr in Hk.
    apply (G_same_tasks c s _ HG); [reflexivity | reflexivity | reflexivity | | | rewrite Hr; discriminate | ].
    + unfold rd_ok; cbn. split; [reflexivity | tauto].
    + unfold keys_ok; cbn. exact Hk.
    + intros x src _ _ HJ. apply (J_mono c s); [assumption | unfold front; cbn; now rewrite Hr |]. unfold err_done. now rewrite Hr.
  - (* one entry of msg_senders *)
    destruct (s_rd s) as [|it rest|] eqn:Hr; try discriminate. destruct (nth_error rest j) as [kj|] eqn:Hj; [|discriminate].
    unfold keys_ok in Hk. rewrite Hr in Hk.
    assert (Hnd : NoDup rest) by (unfold rd_ok in Hrd; rewrite Hr in Hrd; destruct it; tauto).
    destruct (nodup_del_nth rest j kj Hnd Hj) as [Hnd' Hnin].
    assert (Hrd' : forall ts, rd_ok c (set_rd s (s_pos s) (s_next s) (RdBcast it (del_nth j rest)) (s_senders s) ts)).
    { intros ts. unfold rd_ok in *; cbn. rewrite Hr in Hrd. destruct it; tauto. }
    (* membership of a channel's key among the unvisited entries, before and after *)
    assert (Hmem : forall ch, stream_chan ch ->
              existsb (key_eqb (key_of ch)) rest = key_eqb (key_of ch) kj || existsb (key_eqb (key_of ch)) (del_nth j rest)).
    { intros ch _. now apply existsb_del_nth. }
    assert (Hself : forall ch, stream_chan ch -> chan_of kj = ch ->
              existsb (key_eqb (key_of ch)) rest = true /\ existsb (key_eqb (key_of ch)) (del_nth j rest) = false).
    { intros ch Hsc E. pose proof (key_unique kj ch Hsc E) as Hkj. split.
      - apply existsb_key_in. rewrite <- Hkj. eapply nth_error_In; eassumption.
      - destruct (existsb (key_eqb (key_of ch)) (del_nth j rest)) eqn:E2; [|reflexivity].
        apply existsb_key_in in E2. rewrite <- Hkj in E2. now elim Hnin. }
    assert (Hother : forall ch, stream_chan ch -> chan_of kj <> ch ->
              existsb (key_eqb (key_of ch)) (del_nth j rest) = existsb (key_eqb (key_of ch)) rest).
    { intros ch Hsc E. rewrite (Hmem ch Hsc). replace (key_eqb (key_of ch) kj) with false; [reflexivity|].
      symmetry. destruct (key_eqb (key_of ch) kj) eqn:E2; [|reflexivity]. apply key_eqb_eq in E2. subst kj.
      elim E. destruct ch; reflexivity. }
    (* what happens to the J of a stream receiver whose inbox is not touched *)
    assert (Hskip : forall x src ts, x_chan x = chan_of_src src -> J c s x ->
              (chan_of kj = x_chan x -> match it with IMsg k => match nth_error (msgs c) k with Some m => cmatch (x_chan x) m = false | None => True end
                                                    | IErr _ => False end) ->
              J c (set_rd s (s_pos s) (s_next s) (RdBcast it (del_nth j rest)) (s_senders s) ts) x).
    { intros x src ts Hc HJ Hcase. assert (Hsc : stream_chan (x_chan x)) by (rewrite Hc; apply stream_chan_src).
      destruct (chan_eqb (chan_of kj) (x_chan x)) eqn:Ech.
      - apply chan_eqb_eq in Ech. specialize (Hcase Ech). destruct it as [k|e]; [|contradiction].
        unfold rd_ok in Hrd. rewrite Hr in Hrd. destruct Hrd as (Hnx & Hklt & _).
        destruct (nth_error (msgs c) k) as [m|] eqn:Hm; [|apply nth_error_None in Hm; lia].
        apply (J_mono c s); [assumption | | unfold err_done; now rewrite Hr].
        rewrite (front_bcast c _ _ k (del_nth j rest) m); try reflexivity; try assumption.
        rewrite (front_bcast c _ s k rest m); try assumption. rewrite Hcase. now rewrite !Bool.andb_false_r.
      - assert (Hne : chan_of kj <> x_chan x) by (intros E; apply chan_eqb_eq in E; congruence).
        apply (J_mono c s); [assumption | |].
        + destruct it as [k|e].
          * unfold rd_ok in Hrd. rewrite Hr in Hrd. destruct Hrd as (Hnx & Hklt & _).
            destruct (nth_error (msgs c) k) as [m|] eqn:Hm; [|apply nth_error_None in Hm; lia].
            rewrite (front_bcast c _ _ k (del_nth j rest) m); try reflexivity; try assumption.
            rewrite (front_bcast c _ s k rest m); try assumption. now rewrite Hother.
          * unfold front; cbn. now rewrite Hr.
        + unfold err_done; cbn. rewrite Hr. destruct it; [tauto|]. rewrite !has_key_stream by assumption. now rewrite Hother. }
    destruct (match it with IMsg n => match nth_error (msgs c) n with Some m => kmatch kj m | None => false end | IErr _ => true end) eqn:Ed.
    + destruct (full c (chan_of kj) (s_tasks s)); inversion Hs; subst; clear Hs.
      unfold G. cbn [s_tasks s_sublock set_rd]. split; [apply Hrd' | split; [unfold keys_ok; cbn; exact Hk | split]].
      * rewrite (sumf_map_eq hold1) by (intros; apply hold1_push). exact Hh.
      * intros i t' Hi. rewrite nth_error_map in Hi. destruct (nth_error (s_tasks s) i) as [t|] eqn:Hti; [|discriminate].
        inversion Hi; subst t'; clear Hi. specialize (Hp i t Hti).
        destruct t as [? ? ? p|src ? ? p|? p]; try exact I.
        destruct p as [| |q| |x|o|x]; try (destruct src; cbn [Ptask push_task] in *; (exact I || assumption)).
        -- cbn [push_task]. apply Ptask_open. apply Ptask_open in Hp. destruct Hp as (Hc & Hsub & HJ).
           assert (Hsc : stream_chan (x_chan x)) by (rewrite Hc; apply stream_chan_src).
           unfold push_rx. destruct (chan_eqb (x_chan x) (chan_of kj)) eqn:Ech.
           ++ (* this receiver gets the item *)
              apply chan_eqb_eq in Ech. cbn [x_chan]. split; [assumption | split; [assumption|]].
              destruct (Hself (x_chan x) Hsc (eq_sym Ech)) as [Hin Hout].
              destruct HJ as (Hle & errs & He & Hok).
              destruct it as [k|e].
              ** unfold rd_ok in Hrd. rewrite Hr in Hrd. destruct Hrd as (Hnx & Hklt & _).
                 destruct (nth_error (msgs c) k) as [m|] eqn:Hm; [|discriminate].
                 assert (Hcm : cmatch (x_chan x) m = true).
                 { rewrite <- kmatch_key_of by assumption. rewrite <- (key_unique kj (x_chan x) Hsc (eq_sym Ech)). exact Ed. }
                 rewrite (front_bcast c _ s k rest m) in Hle, He by assumption. rewrite Hin, Hcm in Hle, He. cbn [andb] in Hle, He.
                 destruct Hok as [->|[_ Hd]]; [|unfold err_done in Hd; now rewrite Hr in Hd].
                 unfold J. cbn [x_chan x_from x_got x_inbox].
                 rewrite (front_bcast c _ _ k (del_nth j rest) m); try reflexivity; try assumption.
                 rewrite Hout. cbn [andb]. split; [lia|]. exists []. split; [|now left].
                 rewrite expected_snoc by assumption. unfold mmatch. rewrite Hm, Hcm. rewrite app_nil_r in *. now rewrite app_assoc, He.
              ** unfold rd_ok in Hrd. rewrite Hr in Hrd. destruct Hrd as (-> & _).
                 assert (Herr0 : errs = []).
                 { destruct Hok as [->|[_ Hd]]; [reflexivity|]. unfold err_done in Hd. rewrite Hr in Hd.
                   rewrite has_key_stream in Hd by assumption. congruence. }
                 subst errs. unfold J. cbn [x_chan x_from x_got x_inbox].
                 assert (Hfr : forall ts, front c (x_chan x) (set_rd s (s_pos s) (s_next s) (RdBcast (IErr (fkind c)) (del_nth j rest)) (s_senders s) ts)
                               = front c (x_chan x) s) by (intros; unfold front; cbn; now rewrite Hr).
                 rewrite Hfr. split; [assumption|]. exists [IErr (fkind c)]. split.
                 --- rewrite app_nil_r in He. now rewrite app_assoc, He.
                 --- right. split; [reflexivity|]. unfold err_done; cbn. now rewrite has_key_stream.
           ++ split; [assumption | split; [assumption|]]. eapply Hskip; [eassumption | assumption |]. intros E. rewrite E, chan_eqb_refl in Ech. discriminate.
        -- apply Ptask_end in Hp. destruct Hp as (_ & _ & _ & Hd & _). rewrite Hr in Hd. discriminate.
    + inversion Hs; subst; clear Hs. apply (G_same_tasks c s _ HG); [reflexivity | reflexivity | reflexivity | | | rewrite Hr; discriminate | ].
      * apply Hrd'.
      * unfold keys_ok; cbn. exact Hk.
      * intros x src Hc _ HJ. eapply Hskip; [eassumption | assumption |]. intros E. destruct it as [k|e]; [|discriminate].
        destruct (nth_error (msgs c) k) as [m|]; [|exact I].
        assert (Hsc : stream_chan (x_chan x)) by (rewrite Hc; apply stream_chan_src).
        rewrite <- kmatch_key_of by assumption. rewrite <- (key_unique kj (x_chan x) Hsc E). exact Ed.
  - (* end of a round *)
    destruct (s_rd s) as [|it rest|] eqn:Hr; try discriminate. destruct rest; [|discriminate].
    unfold keys_ok in Hk. rewrite Hr in Hk.
    destruct it as [k|e]; inversion Hs; subst; clear Hs.
    + apply (G_same_tasks c s _ HG); [reflexivity | reflexivity | reflexivity | | | rewrite Hr; discriminate | ].
      * exact I.
      * unfold keys_ok; cbn. exact Hk.
      * intros x src _ _ HJ. apply (J_mono c s); [assumption | | unfold err_done; now rewrite Hr].
        unfold rd_ok in Hrd. rewrite Hr in Hrd. destruct Hrd as (Hnx & Hklt & _). unfold front; cbn. rewrite Hr.
        destruct (nth_error (msgs c) k); cbn; assumption.
    + apply (G_same_tasks c s _ HG); [reflexivity | reflexivity | reflexivity | | | rewrite Hr; discriminate | ].
      * exact I.
      * exact I.
      * intros x src _ _ HJ. apply (J_mono c s); [assumption | unfold front; cbn; now rewrite Hr | intros _; exact I].
Qed.
