(* C38/RunFacts.v — the replay used by the correspondence check only ever takes steps of the model: whatever it ends in is
   reachable, so the theorems about reachable states apply to the very states the observations are compared with. *)
From ZV Require Import Base.Bytes Base.Res C38.Model C38.Spec C38.Run.

Lemma run_cons c l s s1 tr s' : step c l s = Some s1 -> Model.run c tr s1 = Some s' -> Model.run c (l :: tr) s = Some s'.
Proof. intros H1 H2. cbn [Model.run]. now rewrite H1. Qed.

Lemma reader_run_sound c avail : forall fuel s s', reader_run fuel c avail s = Some s' -> exists tr, Model.run c tr s = Some s'.
Proof.
  induction fuel as [|f IH]; intros s s' H; [discriminate|]. cbn [reader_run] in H.
  assert (Hstop : forall s0, Some s = Some s0 -> exists tr, Model.run c tr s = Some s0) by (intros s0 E; inversion E; subst; now exists []).
  assert (Hgo : forall l, match step c l s with Some s1 => reader_run f c avail s1 | None => Some s end = Some s' ->
                          exists tr, Model.run c tr s = Some s').
  { intros l Hl. destruct (step c l s) as [s1|] eqn:E; [|now apply Hstop].
    destruct (IH _ _ Hl) as [tr Htr]. exists (l :: tr). eapply run_cons; eassumption. }
  destruct (s_rd s) as [got|it rest|].
  - destruct (s_broken s || (fpos c <=? s_pos s)); [now apply (Hgo LFault)|].
    destruct (nth_error (msgs c) (s_next s)) as [m|]; [|now apply Hstop].
    destruct (1 <=? Nat.min (i_len m - got) (Nat.min avail (fpos c) - s_pos s)); [|now apply Hstop].
    now apply (Hgo (LRecv (Nat.min (i_len m - got) (Nat.min avail (fpos c) - s_pos s)))).
  - destruct rest as [|k rest]; [now apply (Hgo LBcastEnd)|].
    destruct (find (fun j => match step c (LBcast j) s with Some _ => true | None => false end) (seq 0 (length (k :: rest)))) as [j|];
      [now apply (Hgo (LBcast j)) | now apply Hstop].
  - now apply Hstop.
Qed.

Lemma task_run_sound c paused i : forall fuel s s', task_run fuel c paused i s = Some s' -> exists tr, Model.run c tr s = Some s'.
Proof.
  induction fuel as [|f IH]; intros s s' H; [discriminate|]. cbn [task_run] in H.
  destruct (paused && consuming s i); [inversion H; subst; now exists []|].
  destruct (step c (LTask i) s) as [s1|] eqn:E; [|inversion H; subst; now exists []].
  destruct (IH _ _ H) as [tr Htr]. exists (LTask i :: tr). eapply run_cons; eassumption.
Qed.

Lemma run_app c tr1 : forall tr2 s s1 s2, Model.run c tr1 s = Some s1 -> Model.run c tr2 s1 = Some s2 -> Model.run c (tr1 ++ tr2) s = Some s2.
Proof.
  induction tr1 as [|l tr1 IH]; intros tr2 s s1 s2 H1 H2; cbn [Model.run app] in *.
  - inversion H1; subst. exact H2.
  - destruct (step c l s) as [s0|]; [|discriminate]. eapply IH; eassumption.
Qed.

Theorem replay_sound c all : forall toks s p ph s' p' ph',
  replay c all toks (RS s p ph) = Some (RS s' p' ph') -> exists tr, Model.run c tr s = Some s'.
Proof.
  induction toks as [|t toks IH]; intros s p ph s' p' ph' H; cbn [replay] in H.
  - inversion H; subst. now exists [].
  - destruct t as [|k n]; [now apply (IH _ _ _ _ _ _ H)|].
    destruct (beq k "|"%byte).
    + destruct ph as [|ph0 rest]; [discriminate|]. now apply (IH _ _ _ _ _ _ H).
    + destruct (nat_of_dec n) as [v|]; [|discriminate]. destruct (beq k "K"%byte).
      * destruct (reader_run fuel0 c v s) as [s1|] eqn:E; [|discriminate]. destruct (reader_run_sound _ _ _ _ _ E) as [tr1 H1].
        destruct (IH _ _ _ _ _ _ H) as [tr2 H2]. exists (tr1 ++ tr2). eapply run_app; eassumption.
      * destruct (beq k "P"%byte); [|discriminate].
        destruct (task_run fuel0 c (nth v p false) v s) as [s1|] eqn:E; [|discriminate]. destruct (task_run_sound _ _ _ _ _ _ E) as [tr1 H1].
        destruct (IH _ _ _ _ _ _ H) as [tr2 H2]. exists (tr1 ++ tr2). eapply run_app; eassumption.
Qed.
