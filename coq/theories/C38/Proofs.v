(* C38/Proofs.v — the theorems of Properties/C38.v, assembled from Progress (no reachable state is stuck early), Measure (no
   infinite run), PrefixA-C (streams hold exactly the complete matching messages), plus: operations started after the failure
   fail, no panic, the refutation of the full statement (add_match's check-then-insert race) and non-vacuity examples. *)
From ZV Require Import Base.Bytes Base.Res C38.Model C38.Spec C38.Progress C38.Measure C38.PrefixA C38.PrefixB C38.PrefixC.
From Coq Require Import Lia.

(* ---------------------------------------------------------------- runs and reachability *)
Lemma run_reach_gen c ts : forall tr tr0 s0 s, reach c ts tr0 s0 -> run c tr s0 = Some s -> reach c ts (tr0 ++ tr) s.
Proof.
  induction tr as [|l tr IH]; intros tr0 s0 s Hr Hrun; cbn [run] in Hrun.
  - inversion Hrun; subst. now rewrite app_nil_r.
  - destruct (step c l s0) as [s1|] eqn:E; [|discriminate].
    replace (tr0 ++ l :: tr) with ((tr0 ++ [l]) ++ tr) by (now rewrite <- app_assoc).
    apply (IH _ s1); [econstructor; eassumption | assumption].
Qed.
Theorem run_sound c ts tr s : run c tr (init ts) = Some s -> reach c ts tr s.
Proof. intros H. apply (run_reach_gen c ts tr [] (init ts) s); [constructor | assumption]. Qed.

Theorem reach_length_bounded c ts tr s : reach c ts tr s -> length tr + mu c s <= mu c (init ts).
Proof.
  intros Hr. induction Hr as [|tr s l s' Hr IH Hs]; [cbn [length]; lia|]. apply step_decreases in Hs. rewrite app_length. cbn [length]. lia.
Qed.

(* ---------------------------------------------------------------- complete messages lie before the failure *)
Definition got_of (r : rd) : nat := match r with RdRead g => g | _ => 0 end.

Lemma off_S ms n m : nth_error ms n = Some m -> off ms (S n) = off ms n + i_len m.
Proof.
  revert n; induction ms as [|a ms IH]; intros n H; [now destruct n|].
  destruct n as [|n]; cbn in *.
  - inversion H; subst. destruct ms; cbn; lia.
  - rewrite (IH n H). destruct n; cbn; lia.
Qed.

Definition pos_ok (c : cfg) (s : st) : Prop :=
  s_pos s <= fpos c /\
  match s_rd s with
  | RdRead g => s_pos s = off (msgs c) (s_next s) + g
  | RdBcast (IMsg _) _ => s_pos s = off (msgs c) (s_next s)
  | _ => off (msgs c) (s_next s) <= s_pos s
  end.

Lemma pos_ok_step c l s s' : pos_ok c s -> step c l s = Some s' -> pos_ok c s'.
Proof.
  intros [H1 H2] Hs. destruct l as [n| |j| |i]; unfold step in Hs.
  - destruct (s_rd s) as [got| |] eqn:Hr; try discriminate.
    destruct (nth_error (msgs c) (s_next s)) as [m|] eqn:Hm; [|discriminate].
    destruct (negb (s_broken s) && (1 <=? n) && (s_pos s + n <=? fpos c) && (got + n <=? i_len m)) eqn:Ec; [|discriminate].
    apply Bool.andb_true_iff in Ec. destruct Ec as [Ec E4]. apply Bool.andb_true_iff in Ec. destruct Ec as [_ E3].
    apply Nat.leb_le in E3, E4.
    destruct (i_len m <=? got + n) eqn:E5; inversion Hs; subst; unfold pos_ok; cbn.
    + apply Nat.leb_le in E5. rewrite (off_S _ _ _ Hm). lia.
    + lia.
  - destruct (s_rd s) as [got| |] eqn:Hr; try discriminate.
    destruct (s_broken s || (fpos c <=? s_pos s) || (length (msgs c) <=? s_next s)); inversion Hs; subst. unfold pos_ok; cbn. lia.
  - destruct (s_rd s) as [|it rest|] eqn:Hr; try discriminate. destruct (nth_error rest j); [|discriminate].
    destruct (match it with IMsg n => match nth_error (msgs c) n with Some m => kmatch k m | None => false end | IErr _ => true end).
    + destruct (full c (chan_of k) (s_tasks s)); inversion Hs; subst. unfold pos_ok; cbn. destruct it; lia.
    + inversion Hs; subst. unfold pos_ok; cbn. destruct it; lia.
  - destruct (s_rd s) as [|it rest|] eqn:Hr; try discriminate. destruct rest; [|discriminate].
    destruct it; inversion Hs; subst; unfold pos_ok; cbn; lia.
  - apply tstep_frame in Hs. destruct Hs as (Hr & Hn & Hp & _). unfold pos_ok. now rewrite Hr, Hn, Hp.
Qed.

Lemma pos_ok_reach c ts tr s : reach c ts tr s -> pos_ok c s.
Proof.
  intros Hr. induction Hr as [|tr s l s' Hr IH Hs]; [unfold pos_ok; cbn; split; [lia|]; now destruct (msgs c) | eapply pos_ok_step; eassumption].
Qed.

Lemma pos_ok_off c s : pos_ok c s -> off (msgs c) (s_next s) <= fpos c.
Proof. intros [H1 H2]. destruct (s_rd s) as [g|[k|e] rest|]; lia. Qed.

Lemma front_le_next c ch s : rd_ok c s -> front c ch s <= s_next s.
Proof.
  unfold rd_ok, front. destruct (s_rd s) as [|[k|e] rest|]; try lia. intros (-> & Hk & _).
  destruct (nth_error (msgs c) k); [|lia]. destruct (existsb _ rest); lia.
Qed.

(* ---------------------------------------------------------------- C38_prefix *)
Theorem stream_prefix c ts tr s i src a b x : forallb fresh_task ts = true -> reach c ts tr s ->
  (nth_error (s_tasks s) i = Some (TStream src a b (SOpen x)) \/ nth_error (s_tasks s) i = Some (TStream src a b (SEnd x))) ->
  x_chan x = chan_of_src src /\
  x_from x <= front c (x_chan x) s /\ front c (x_chan x) s <= s_next s /\ off (msgs c) (s_next s) <= fpos c /\
  exists errs, x_got x ++ x_inbox x = expected c (x_chan x) (x_from x) (front c (x_chan x) s) ++ errs /\
               (errs = [] \/ errs = [IErr (fkind c)]).
Proof.
  intros Hf Hr Hi. pose proof (G_reach c ts tr s Hf Hr) as (Hrd & _ & _ & Hp). pose proof (pos_ok_off c s (pos_ok_reach c ts tr s Hr)) as Hoff.
  assert (HJ : x_chan x = chan_of_src src /\ J c s x).
  { destruct Hi as [Hi|Hi]; specialize (Hp _ _ Hi); [apply Ptask_open in Hp | apply Ptask_end in Hp]; tauto. }
  destruct HJ as (Hc & Hle & errs & He & Hok). split; [assumption|]. split; [assumption|].
  split; [now apply front_le_next|]. split; [exact Hoff|]. exists errs. split; [assumption | tauto].
Qed.

Theorem stream_ended c ts tr s i src a b x : forallb fresh_task ts = true -> reach c ts tr s ->
  nth_error (s_tasks s) i = Some (TStream src a b (SEnd x)) ->
  s_rd s = RdDone /\ x_inbox x = [] /\ x_from x <= s_next s /\ off (msgs c) (s_next s) <= fpos c /\
  exists errs, x_got x = expected c (chan_of_src src) (x_from x) (s_next s) ++ errs /\ (errs = [] \/ errs = [IErr (fkind c)]).
Proof.
  intros Hf Hr Hi. pose proof (G_reach c ts tr s Hf Hr) as (_ & _ & _ & Hp). specialize (Hp _ _ Hi). apply Ptask_end in Hp.
  destruct Hp as (Hc & _ & _ & Hd & Hin).
  destruct (stream_prefix c ts tr s i src a b x Hf Hr (or_intror Hi)) as (_ & Hle & _ & Hoff & errs & He & Hok).
  assert (Hfr : front c (x_chan x) s = s_next s) by (unfold front; now rewrite Hd).
  rewrite Hfr in *. rewrite Hin, app_nil_r, Hc in He. repeat split; try assumption. now exists errs.
Qed.

(* when no write failed, the reader stops exactly at the last message that lies completely before the failure position *)
Lemma complete_off ms : forall n g, n <= length ms ->
  (match nth_error ms n with Some m => g < i_len m | None => True end) ->
  (forall m, In m ms -> 1 <= i_len m) -> complete ms (off ms n + g) = n \/ (nth_error ms n = None /\ n <= complete ms (off ms n + g)).
Proof.
  induction ms as [|a ms IH]; intros n g Hn Hg Hlen.
  - destruct n; [|cbn in Hn; lia]. cbn. right. now split.
  - destruct n as [|n]; cbn [off nth_error complete] in *.
    + left. replace (i_len a <=? 0 + g) with false; [reflexivity|]. symmetry. apply Nat.leb_gt. lia.
    + replace (i_len a <=? i_len a + off ms n + g) with true by (symmetry; apply Nat.leb_le; lia).
      replace (i_len a + off ms n + g - i_len a) with (off ms n + g) by lia.
      destruct (IH n g) as [H|[H1 H2]]; [cbn in Hn; lia | assumption | intros; apply Hlen; now right | left; lia | right; split; [assumption | lia]].
Qed.

Definition stop_ok (c : cfg) (s : st) : Prop :=
  match s_rd s with
  | RdBcast (IErr _) _ | RdDone => s_broken s = true \/ s_next s = complete (msgs c) (fpos c) \/ length (msgs c) <= s_next s
  | _ => True
  end.

Lemma stop_ok_step c l s s' : wf c -> I1 c s -> pos_ok c s -> stop_ok c s -> step c l s = Some s' -> stop_ok c s'.
Proof.
  intros [Hlen _] HI1 [Hp1 Hp2] Hst Hs. destruct l as [n| |j| |i]; unfold step in Hs.
  - destruct (s_rd s) as [got| |] eqn:Hr; try discriminate. destruct (nth_error (msgs c) (s_next s)) as [m|]; [|discriminate].
    destruct (negb (s_broken s) && (1 <=? n) && (s_pos s + n <=? fpos c) && (got + n <=? i_len m)); [|discriminate].
    destruct (i_len m <=? got + n); inversion Hs; subst; exact I.
  - destruct (s_rd s) as [got| |] eqn:Hr; try discriminate.
    destruct (s_broken s || (fpos c <=? s_pos s) || (length (msgs c) <=? s_next s)) eqn:E; inversion Hs; subst. unfold stop_ok; cbn.
    apply Bool.orb_true_iff in E. destruct E as [E|E]; [apply Bool.orb_true_iff in E; destruct E as [E|E]|].
    + now left.
    + apply Nat.leb_le in E. assert (Hpf : fpos c = off (msgs c) (s_next s) + got) by (cbn in Hp2; lia).
      destruct (Nat.le_gt_cases (s_next s) (length (msgs c))) as [Hle|Hgt]; [|right; right; lia].
      unfold I1 in HI1. rewrite Hr in HI1. rewrite Hpf.
      destruct (complete_off (msgs c) (s_next s) got Hle HI1 Hlen) as [H|[H _]]; [right; left; now symmetry|].
      right. right. now apply nth_error_None.
    + apply Nat.leb_le in E. now right; right.
  - destruct (s_rd s) as [|it rest|] eqn:Hr; try discriminate. destruct (nth_error rest j); [|discriminate].
    unfold stop_ok in Hst. rewrite Hr in Hst.
    destruct (match it with IMsg n => match nth_error (msgs c) n with Some m => kmatch k m | None => false end | IErr _ => true end).
    + destruct (full c (chan_of k) (s_tasks s)); inversion Hs; subst. unfold stop_ok; cbn. exact Hst.
    + inversion Hs; subst. unfold stop_ok; cbn. exact Hst.
  - destruct (s_rd s) as [|it rest|] eqn:Hr; try discriminate. destruct rest; [|discriminate].
    unfold stop_ok in Hst. rewrite Hr in Hst. destruct it; inversion Hs; subst; unfold stop_ok; cbn; [exact I | exact Hst].
  - (* a task step can only set the broken flag *)
    unfold stop_ok in *. pose proof (tstep_frame _ _ _ _ Hs) as (Hr & Hn & _). rewrite Hr, Hn.
    destruct (s_rd s) as [|[k|e] rest|]; try exact I.
    + destruct Hst as [Hb|Hst]; [|now right]. left.
      unfold tstep in Hs. destruct (nth_error (s_tasks s) i) as [t|]; [|discriminate].
      assert (Hsend : forall cost ok s1, send_try c s cost = (ok, s1) -> s_broken s1 = true).
      { intros cost ok s1. unfold send_try. rewrite Hb. intros H; inversion H; subst. exact Hb. }
      assert (Hc : forall serial cost nr p p' s1, cstep c s serial cost nr p = Some (p', s1) -> s_broken s1 = true).
      { intros serial cost nr p p' s1. destruct p as [|x|x|o]; cbn [cstep].
        - intros H; inversion H; subst; exact Hb.
        - destruct (send_try c s cost) as [ok s2] eqn:E. apply Hsend in E. destruct ok; [destruct nr|]; intros H; inversion H; subst; exact E.
        - destruct (x_inbox x) as [|[k|e'] r]; [destruct (closed CRet s)|destruct (reply_for c serial k)|]; intros H; inversion H; subst; exact Hb.
        - discriminate. }
      destruct t as [serial cost nr p|src serial cost p|cost p].
      * destruct (cstep c s serial cost nr p) as [[p' s1]|] eqn:E; [|discriminate]. apply Hc in E. inversion Hs; subst. exact E.
      * destruct p as [| |q| |x|o|x]; try discriminate.
        -- destruct src; [destruct (locked s); [discriminate|]; destruct (is_nil (s_senders s))|]; inversion Hs; subst; exact Hb.
        -- destruct (s_sublock s); [discriminate|].
           destruct (match src with Some r => mem r (s_subs s) | None => true end); inversion Hs; subst; exact Hb.
        -- destruct q as [|x|x|o].
           ++ destruct (cstep c s serial cost false CNew) as [[q' s1]|] eqn:E; [|discriminate]. apply Hc in E. inversion Hs; subst. exact E.
           ++ destruct (cstep c s serial cost false (CSend x)) as [[q' s1]|] eqn:E; [|discriminate]. apply Hc in E. inversion Hs; subst. exact E.
           ++ destruct (cstep c s serial cost false (CWait x)) as [[q' s1]|] eqn:E; [|discriminate]. apply Hc in E. inversion Hs; subst. exact E.
           ++ destruct o; inversion Hs; subst; exact Hb.
        -- destruct (locked s); [discriminate|]. destruct src; [destruct (is_nil (s_senders s))|]; inversion Hs; subst; exact Hb.
        -- destruct (x_inbox x); [destruct (closed (x_chan x) s); [|discriminate]|]; inversion Hs; subst; exact Hb.
      * destruct p; try discriminate. destruct (send_try c s cost) as [ok s1] eqn:E. apply Hsend in E. inversion Hs; subst. exact E.
    + destruct Hst as [Hb|Hst]; [|now right]. left.
      unfold tstep in Hs. destruct (nth_error (s_tasks s) i) as [t|]; [|discriminate].
      assert (Hsend : forall cost ok s1, send_try c s cost = (ok, s1) -> s_broken s1 = true).
      { intros cost ok s1. unfold send_try. rewrite Hb. intros H; inversion H; subst. exact Hb. }
      assert (Hc : forall serial cost nr p p' s1, cstep c s serial cost nr p = Some (p', s1) -> s_broken s1 = true).
      { intros serial cost nr p p' s1. destruct p as [|x|x|o]; cbn [cstep].
        - intros H; inversion H; subst; exact Hb.
        - destruct (send_try c s cost) as [ok s2] eqn:E. apply Hsend in E. destruct ok; [destruct nr|]; intros H; inversion H; subst; exact E.
        - destruct (x_inbox x) as [|[k|e'] r]; [destruct (closed CRet s)|destruct (reply_for c serial k)|]; intros H; inversion H; subst; exact Hb.
        - discriminate. }
      destruct t as [serial cost nr p|src serial cost p|cost p].
      * destruct (cstep c s serial cost nr p) as [[p' s1]|] eqn:E; [|discriminate]. apply Hc in E. inversion Hs; subst. exact E.
      * destruct p as [| |q| |x|o|x]; try discriminate.
        -- destruct src; [destruct (locked s); [discriminate|]; destruct (is_nil (s_senders s))|]; inversion Hs; subst; exact Hb.
        -- destruct (s_sublock s); [discriminate|].
           destruct (match src with Some r => mem r (s_subs s) | None => true end); inversion Hs; subst; exact Hb.
        -- destruct q as [|x|x|o].
           ++ destruct (cstep c s serial cost false CNew) as [[q' s1]|] eqn:E; [|discriminate]. apply Hc in E. inversion Hs; subst. exact E.
           ++ destruct (cstep c s serial cost false (CSend x)) as [[q' s1]|] eqn:E; [|discriminate]. apply Hc in E. inversion Hs; subst. exact E.
           ++ destruct (cstep c s serial cost false (CWait x)) as [[q' s1]|] eqn:E; [|discriminate]. apply Hc in E. inversion Hs; subst. exact E.
           ++ destruct o; inversion Hs; subst; exact Hb.
        -- destruct (locked s); [discriminate|]. destruct src; [destruct (is_nil (s_senders s))|]; inversion Hs; subst; exact Hb.
        -- destruct (x_inbox x); [destruct (closed (x_chan x) s); [|discriminate]|]; inversion Hs; subst; exact Hb.
      * destruct p; try discriminate. destruct (send_try c s cost) as [ok s1] eqn:E. apply Hsend in E. inversion Hs; subst. exact E.
Qed.

Theorem reader_stops_at_fault c ts tr s : wf c -> reach c ts tr s -> s_rd s = RdDone -> s_broken s = false ->
  s_next s = complete (msgs c) (fpos c) \/ length (msgs c) <= s_next s.
Proof.
  intros Hwf Hr Hd Hb. assert (H : stop_ok c s).
  { clear Hd Hb. induction Hr as [|tr s l s' Hr IH Hs]; [exact I|].
    eapply stop_ok_step; try eassumption; [apply (invariants c ts tr s Hwf Hr) | eapply pos_ok_reach; eassumption]. }
  unfold stop_ok in H. rewrite Hd in H. destruct H as [H|H]; [congruence | exact H].
Qed.
