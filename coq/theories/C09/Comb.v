(* C09/Comb.v — one lemma per way serde feeds a composite into the serializer: sequence, option-as-array, tuple,
   named struct, map, as_value wrapper (VARIANT), dict-struct (named struct under a{sv}), enum variants, struct-as-array.
   Each says: if the parts drive [ser] like the dynamic values v_i, the whole drives it like the composite value. *)
From ZV Require Import Base.Bytes Base.Res Base.Sig Base.SigParse Base.SigParseFacts DBus.Val DBus.Spec DBus.Ser DBus.SerFacts DBus.SerProofs C09.Facts.
From Coq Require Import Lia.
Local Open Scope N_scope.

(* ---------- elements sharing one serializer: they must leave it exactly as a dynamic value would ---------- *)
Lemma elemsx_ok o xs l : Forall2 (fun x v => okw o x v true true) xs l -> forall st el,
  forallb (fun x => wf x && sig_eqb (vsig x) el) l = true ->
  s_sig st = el -> s_vsign st = None -> dep_ok (s_dep st) ->
  forallb (depth_ok (d_struct (s_dep st)) (d_array (s_dep st)) (d_variant (s_dep st))) l = true ->
  nfd st + N.of_nat (length (concat (map fds_of l))) < 2 ^ 32 ->
  len (mseq (s_e st) ByOccurrence l (abs_pos st) (nfd st)) < 2 ^ 32 ->
  (o = true -> c_oaa (s_cfg st) = true) ->
  ser_elems xs st
  = Ok (grow st (mseq (s_e st) ByOccurrence l (abs_pos st) (nfd st)) (concat (map fds_of l))).
Proof.
  induction 1 as [|x v xs l Hx Hl IH]; intros st el Hw Hs Hv Hd Hdep Hn Hlen Ho.
  - cbn. now rewrite grow_nil.
  - cbn [forallb] in Hw, Hdep. apply andb_true_iff in Hw as [Hwx Hw]. apply andb_true_iff in Hwx as [Hwx Hsx].
    apply andb_true_iff in Hdep as [Hdx Hdep]. apply sig_eqb_eq in Hsx.
    cbn [map concat mseq] in *. rewrite app_length, Nat2N.inj_add in Hn. rewrite len_app in Hlen.
    cbn [ser_elems].
    assert (G := okw_exact o x v st Hx Hwx ltac:(congruence) Hv (conj Hd Hdx) ltac:(unfold nfds; lia) ltac:(lia) Ho). rewrite G.
    cbn [bind]. destruct (after_props st v) as (Hp & Hf & Hsg & Hvs & Hde & He & Hc).
    assert (G2 := IH (after st v) el Hw ltac:(congruence) ltac:(congruence)).
    rewrite Hde in G2. rewrite Hf in G2. rewrite Hp in G2. rewrite He in G2. rewrite Hc in G2.
    specialize (G2 Hd Hdep ltac:(unfold nfds; lia) ltac:(lia) Ho). rewrite G2.
    unfold after at 1. rewrite grow_grow. rewrite ?Hp, ?Hf, ?He. reflexivity.
Qed.

(* ---------- fields: each runs in its own sub-serializer, only bytes / descriptors / variant cursor come back ---------- *)
Lemma back_weq st g x sub : s_vsign st = None -> weq sub (after (sub_of st g) x) ->
  back_from st sub = grow st (marshal (s_e st) ByOccurrence x (abs_pos st) (nfd st)) (fds_of x).
Proof. intros Hv W. rewrite (back_from_weq _ _ _ W). now apply back_after. Qed.

Lemma fieldsx_ok o xs l : Forall2 (fun x v => okw o x v false false) xs l -> forall st pre,
  s_sig st = SStruct (pre ++ map vsig l) -> s_vsign st = None -> forallb wf l = true -> dep_ok (s_dep st) ->
  forallb (depth_ok (d_struct (s_dep st)) (d_array (s_dep st)) (d_variant (s_dep st))) l = true ->
  nfd st + N.of_nat (length (concat (map fds_of l))) < 2 ^ 32 ->
  len (mseq (s_e st) ByOccurrence l (abs_pos st) (nfd st)) < 2 ^ 32 ->
  (o = true -> c_oaa (s_cfg st) = true) ->
  ser_fields xs (length pre) st
  = Ok (grow st (mseq (s_e st) ByOccurrence l (abs_pos st) (nfd st)) (concat (map fds_of l))).
Proof.
  induction 1 as [|x v xs l Hx Hl IH]; intros st pre Hs Hv Hw Hd Hdep Hn Hlen Ho.
  - cbn. now rewrite grow_nil.
  - cbn [forallb] in Hw, Hdep. apply andb_true_iff in Hw as [Hwx Hw]. apply andb_true_iff in Hdep as [Hdx Hdep].
    cbn [map concat mseq] in *. rewrite app_length, Nat2N.inj_add in Hn. rewrite len_app in Hlen.
    cbn [ser_fields]. unfold field_sig. rewrite Hs.
    rewrite nth_error_app2 by lia. rewrite Nat.sub_diag. cbn [nth_error bind].
    destruct (Hx (sub_of st (vsig v)) Hwx eq_refl eq_refl (conj Hd Hdx)
                 ltac:(change (nfd (sub_of st (vsig v))) with (nfd st); unfold nfds; lia)
                 ltac:(change (nfd (sub_of st (vsig v))) with (nfd st); change (s_e (sub_of st (vsig v))) with (s_e st);
                       change (abs_pos (sub_of st (vsig v))) with (abs_pos st); lia)
                 Ho) as (sub & E & W & _ & _).
    rewrite E. cbn [bind]. rewrite (back_weq st (vsig v) v sub Hv W).
    set (st1 := grow st (marshal (s_e st) ByOccurrence v (abs_pos st) (nfd st)) (fds_of v)).
    assert (G2 := IH st1 (pre ++ [vsig v])). rewrite app_length in G2. cbn [length] in G2.
    replace (length pre + 1)%nat with (S (length pre)) in G2 by lia.
    assert (Hs1 : s_sig st1 = SStruct ((pre ++ [vsig v]) ++ map vsig l)) by (subst st1; rewrite sig_grow, Hs, <- app_assoc; reflexivity).
    specialize (G2 Hs1 Hv Hw). subst st1. rewrite dep_grow, e_grow, abs_pos_grow, nfd_grow, cfg_grow in G2.
    specialize (G2 Hd Hdep ltac:(unfold nfds in *; lia) ltac:(unfold nfds in *; lia) Ho). rewrite G2.
    rewrite grow_grow. reflexivity.
Qed.

Lemma ser_nfields_fields l idx st : ser_nfields l idx st = ser_fields (map snd l) idx st.
Proof.
  revert idx st. induction l as [|[n y] l IH]; intros idx st; [reflexivity|].
  cbn [ser_nfields ser_fields map snd]. destruct (field_sig st idx) as [[g i']| |]; [|reflexivity|reflexivity].
  cbn [bind]. destruct (ser y (sub_of st g)); [|reflexivity|reflexivity]. cbn [bind]. apply IH.
Qed.

(* a tuple / tuple struct / named struct under a STRUCT signature *)
Lemma structx_ok o xs l : Forall2 (fun x v => okw o x v false false) xs l ->
  forall st, wf (VStruct l) = true -> s_sig st = vsig (VStruct l) -> s_vsign st = None -> fits (s_dep st) (VStruct l) ->
  nfd st + nfds (VStruct l) < 2 ^ 32 ->
  len (marshal (s_e st) ByOccurrence (VStruct l) (abs_pos st) (nfd st)) < 2 ^ 32 ->
  (o = true -> c_oaa (s_cfg st) = true) ->
  exists st', struct_begin st = Ok (st', KStruct (s_dep st)) /\
              (let* st2 := ser_fields xs 0%nat st' in Ok (set_dep st2 (s_dep st))) = Ok (after st (VStruct l)).
Proof.
  intros HF st Hw Hs Hv [Hd Hdep] Hn Hlen Ho.
  cbn [wf] in Hw. apply andb_true_iff in Hw as [_ Hw]. cbn [vsig] in Hs.
  cbn [depth_ok] in Hdep. apply andb_true_iff in Hdep as [Hdep Hdl]. apply andb_true_iff in Hdep as [Ha Ht].
  apply N.leb_le in Ha, Ht.
  destruct (inc_struct_ok (s_dep st) Hd Ha Ht) as (d' & Hinc & Hd' & E1 & E2 & E3).
  rewrite marshal_struct in Hlen. cbv zeta in Hlen. rewrite len_app in Hlen.
  set (p0 := pad (abs_pos st) 8) in *.
  set (st' := set_dep (grow st p0 []) d').
  exists st'. split.
  { unfold struct_begin. rewrite Hs. cbn [align_of align_dbus bind]. rewrite padded_grow.
    rewrite sig_grow, Hs, dep_grow, Hinc. cbn [bind]. reflexivity. }
  assert (G := fieldsx_ok o xs l HF st' [] ltac:(subst st'; cbn; exact Hs) Hv Hw).
  change (s_dep st') with d' in G. change (s_e st') with (s_e st) in G. change (s_cfg st') with (s_cfg st) in G.
  assert (Hpos : abs_pos st' = abs_pos st + len p0) by (subst st'; change (abs_pos (set_dep (grow st p0 []) d')) with (abs_pos (grow st p0 [])); now rewrite abs_pos_grow).
  assert (Hnf : nfd st' = nfd st) by (subst st'; change (nfd (set_dep (grow st p0 []) d')) with (nfd (grow st p0 [])); rewrite nfd_grow; cbn; lia).
  rewrite E1, E2, E3, Hpos, Hnf in G. cbn [fds_of] in Hn. unfold nfds in Hn. cbn [fds_of] in Hn.
  specialize (G Hd' Hdl ltac:(lia) ltac:(lia) Ho). cbn [length] in G. rewrite G. cbn [bind]. f_equal.
  unfold after. rewrite marshal_struct. cbv zeta. fold p0. subst st'.
  apply sstate_ext; try reflexivity.
  - cbn. now rewrite <- app_assoc.
  - cbn. now rewrite add_fds_nil.
Qed.

Lemma tuplex_ok o xs l : Forall2 (fun x v => okw o x v false false) xs l -> okw o (XTuple xs) (VStruct l) true true.
Proof.
  intros HF. apply okw_of_exact. intros st Hw Hs Hv Hfit Hn Hlen Ho. rewrite ser_tuple.
  destruct (structx_ok o xs l HF st Hw Hs Hv Hfit Hn Hlen Ho) as (st' & Hb & G). rewrite Hb. cbn [bind]. exact G.
Qed.
Lemma namedx_ok o (nxs : list (bytes * sval)) l : Forall2 (fun x v => okw o x v false false) (map snd nxs) l ->
  okw o (XStruct nxs) (VStruct l) true true.
Proof.
  intros HF. apply okw_of_exact. intros st Hw Hs Hv Hfit Hn Hlen Ho. rewrite ser_struct_named.
  destruct (structx_ok o (map snd nxs) l HF st Hw Hs Hv Hfit Hn Hlen Ho) as (st' & Hb & G). rewrite Hb. cbn [bind].
  rewrite ser_nfields_fields. exact G.
Qed.

(* ---------- sequences ---------- *)
Lemma seqx_ok o xs el l : Forall2 (fun x v => okw o x v true true) xs l -> okw o (XSeq xs) (VArray el l) true true.
Proof.
  intros HF. apply okw_of_exact. intros st Hw Hs Hv [Hd Hdep] Hn Hlen Ho. rewrite ser_seq.
  cbn [wf] in Hw. apply andb_true_iff in Hw as [Hel Hw]. cbn [vsig] in Hs.
  cbn [depth_ok] in Hdep. apply andb_true_iff in Hdep as [Hdep Hdl]. apply andb_true_iff in Hdep as [Ha Ht].
  apply N.leb_le in Ha, Ht.
  destruct (inc_array_ok (s_dep st) Hd Ha Ht) as (d' & Hinc & Hdec & Hd' & E1 & E2 & E3).
  rewrite marshal_array in Hlen. cbv zeta in Hlen. rewrite !len_app in Hlen.
  set (p0 := pad (abs_pos st) 4) in *. set (p1 := pad (abs_pos st + len p0 + 4) (align_dbus el)) in *.
  set (st' := set_dep (set_sig (grow st (p0 ++ enc (s_e st) 4 0 ++ p1) []) el) d').
  assert (Hpos : abs_pos st' = abs_pos st + len p0 + 4 + len p1).
  { subst st'. change (abs_pos (set_dep (set_sig (grow st (p0 ++ enc (s_e st) 4 0 ++ p1) []) el) d'))
      with (abs_pos (grow st (p0 ++ enc (s_e st) 4 0 ++ p1) [])). rewrite abs_pos_grow, !len_app, len_enc. lia. }
  assert (Hnf : nfd st' = nfd st).
  { subst st'. change (nfd (set_dep (set_sig (grow st (p0 ++ enc (s_e st) 4 0 ++ p1) []) el) d'))
      with (nfd (grow st (p0 ++ enc (s_e st) 4 0 ++ p1) [])). rewrite nfd_grow. cbn. lia. }
  pose proof (elemsx_ok o xs l HF st' el Hw eq_refl Hv) as He.
  change (s_dep st') with d' in He. change (s_e st') with (s_e st) in He. change (s_cfg st') with (s_cfg st) in He.
  rewrite E1, E2, E3, Hpos, Hnf in He.
  specialize (He Hd' Hdl). cbn [fds_of nfds] in Hn.
  specialize (He ltac:(unfold nfds in Hn; cbn [fds_of] in Hn; lia) ltac:(lia) Ho).
  rewrite (seq_wrap st el (align_dbus el) d' (ser_elems xs) _ _
             (or_introl (conj Hs (single_align el Hel))) Hinc Hdec He) by lia.
  unfold after. rewrite marshal_array. cbv zeta. fold p0 p1. reflexivity.
Qed.

(* a tuple (serde: arrays, Ipv4Addr octets...) under an ARRAY signature goes the sequence way *)
Lemma seq_begin_padded st : seq_begin (padded st 4) = seq_begin st.
Proof. unfold seq_begin. rewrite padded_idem by discriminate. reflexivity. Qed.
Lemma tuple_as_seq xs st c : s_sig st = SArray c -> ser (XTuple xs) st = ser (XSeq xs) st.
Proof.
  intros Hs. rewrite ser_tuple, ser_seq. unfold struct_begin. rewrite Hs. cbn [align_of align_dbus bind].
  assert (Hs' : s_sig (padded st 4) = SArray c) by (rewrite padded_grow, sig_grow; exact Hs).
  rewrite Hs'. rewrite seq_begin_padded.
  destruct (seq_begin st) as [[[[s1 start] fp] asig]| |]; reflexivity.
Qed.
Lemma tuple_seqx_ok o xs el l : Forall2 (fun x v => okw o x v true true) xs l -> okw o (XTuple xs) (VArray el l) true true.
Proof.
  intros HF. apply okw_of_exact. intros st Hw Hs Hv Hfit Hn Hlen Ho.
  rewrite (tuple_as_seq xs st el Hs). exact (okw_exact o _ _ st (seqx_ok o xs el l HF) Hw Hs Hv Hfit Hn Hlen Ho).
Qed.

(* ---------- Option as an array of zero or one element ---------- *)
Lemma nonex_ok el : okw true XNone (VArray el []) true true.
Proof.
  apply okw_of_exact. intros st Hw Hs Hv [Hd Hdep] Hn Hlen Ho. cbn [ser]. rewrite (Ho eq_refl).
  cbn [wf] in Hw. apply andb_true_iff in Hw as [Hel _]. cbn [vsig] in Hs.
  cbn [depth_ok] in Hdep. apply andb_true_iff in Hdep as [Hdep _]. apply andb_true_iff in Hdep as [Ha Ht].
  apply N.leb_le in Ha, Ht.
  destruct (inc_array_ok (s_dep st) Hd Ha Ht) as (d' & Hinc & Hdec & Hd' & E1 & E2 & E3).
  pose proof (seq_wrap st el (align_dbus el) d' (fun s => Ok s) [] []
                (or_introl (conj Hs (single_align el Hel))) Hinc Hdec) as G. cbv zeta in G.
  rewrite grow_nil in G. specialize (G eq_refl ltac:(cbn; lia)).
  etransitivity; [|etransitivity; [exact G|]].
  - destruct (seq_begin st) as [[[[s1 start] fp] asig]| |]; reflexivity.
  - unfold after. rewrite marshal_array. cbv zeta. cbn [mseq]. reflexivity.
Qed.

Lemma somex_ok o y v el dc sc : okw o y v dc sc -> okw true (XSome y) (VArray el [v]) dc true.
Proof.
  intros Hy st Hw Hs Hv [Hd Hdep] Hn Hlen Ho. cbn [ser]. rewrite (Ho eq_refl).
  cbn [wf forallb] in Hw. apply andb_true_iff in Hw as [Hel Hw]. apply andb_true_iff in Hw as [Hw _].
  apply andb_true_iff in Hw as [Hwv Hsv]. apply sig_eqb_eq in Hsv. cbn [vsig] in Hs.
  cbn [depth_ok forallb] in Hdep. apply andb_true_iff in Hdep as [Hdep Hdl]. apply andb_true_iff in Hdep as [Ha Ht].
  apply andb_true_iff in Hdl as [Hdv _]. apply N.leb_le in Ha, Ht.
  destruct (inc_array_ok (s_dep st) Hd Ha Ht) as (d' & Hinc & Hdec & Hd' & E1 & E2 & E3).
  rewrite marshal_array in Hlen. cbv zeta in Hlen. cbn [mseq] in Hlen. rewrite !len_app, ?app_nil_r in Hlen.
  set (p0 := pad (abs_pos st) 4) in *. set (p1 := pad (abs_pos st + len p0 + 4) (align_dbus el)) in *.
  set (st' := set_dep (set_sig (grow st (p0 ++ enc (s_e st) 4 0 ++ p1) []) el) d').
  assert (Hpos : abs_pos st' = abs_pos st + len p0 + 4 + len p1).
  { subst st'. change (abs_pos (set_dep (set_sig (grow st (p0 ++ enc (s_e st) 4 0 ++ p1) []) el) d'))
      with (abs_pos (grow st (p0 ++ enc (s_e st) 4 0 ++ p1) [])). rewrite abs_pos_grow, !len_app, len_enc. lia. }
  assert (Hnf : nfd st' = nfd st).
  { subst st'. change (nfd (set_dep (set_sig (grow st (p0 ++ enc (s_e st) 4 0 ++ p1) []) el) d'))
      with (nfd (grow st (p0 ++ enc (s_e st) 4 0 ++ p1) [])). rewrite nfd_grow. cbn. lia. }
  cbn [fds_of nfds] in Hn. unfold nfds in Hn. cbn [fds_of map concat] in Hn. rewrite app_nil_r in Hn.
  destruct (Hy st' Hwv ltac:(subst st'; cbn; congruence) Hv
               ltac:(split; [exact Hd'|change (s_dep st') with d'; rewrite E1, E2, E3; exact Hdv])
               ltac:(rewrite Hnf; unfold nfds; lia)
               ltac:(change (s_e st') with (s_e st); rewrite Hpos, Hnf; lia)
               ltac:(intros Eo; apply Ho; reflexivity)) as (st2 & E & W & D & S).
  set (body := marshal (s_e st) ByOccurrence v (abs_pos st + len p0 + 4 + len p1) (nfd st)) in *.
  assert (W' : weq st2 (grow st' body (fds_of v))).
  { unfold after in W. change (s_e st') with (s_e st) in W. rewrite Hpos, Hnf in W. exact W. }
  destruct (seq_wrap_w st el (align_dbus el) d' (ser y) body (fds_of v) st2
              (or_introl (conj Hs (single_align el Hel))) Hinc Hdec E W' ltac:(lia)) as (r & Er & Wr & Sr & Dr).
  exists r. split.
  { etransitivity; [|exact Er]. destruct (seq_begin st) as [[[[s1 start] fp] asig]| |]; reflexivity. }
  split.
  { eapply weq_trans; [exact Wr|]. unfold after. rewrite marshal_array. cbv zeta. cbn [mseq fds_of map concat].
    fold p0 p1. rewrite !app_nil_r. fold body. apply weq_refl. }
  split; [|intros _; exact Sr].
  intros Edc. apply Dr. rewrite (D Edc). reflexivity.
Qed.
