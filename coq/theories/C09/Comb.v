(* C09/Comb.v — one lemma per way serde feeds a composite into the serializer: sequence, option-as-array, tuple,
   named struct, map, as_value wrapper (VARIANT), dict-struct (named struct under a{sv}), enum variants, struct-as-array.
   Each says: if the parts drive [ser] like the dynamic values v_i, the whole drives it like the composite value. *)
From ZV Require Import Base.Bytes Base.Res Base.Sig Base.SigParse Base.SigParseFacts DBus.Val DBus.Spec DBus.Ser DBus.SerFacts DBus.SerProofs C09.Model C09.Spec C09.Facts.
From Coq Require Import Lia.
Local Open Scope N_scope.

(* ---------- elements sharing one serializer: they must leave it exactly as a dynamic value would ---------- *)
Lemma elemsx_ok o xs l : Forall2 (fun x v => okw o x v true true) xs l -> forall st el,
  forallb (fun x => wf x && sig_eqb (vsig x) el) l = true ->
  s_sig st = el -> s_vsign st = None -> dep_ok (s_dep st) ->
  forallb (depth_ok (d_struct (s_dep st)) (d_array (s_dep st)) (d_variant (s_dep st))) l = true ->
  nfd st + N.of_nat (length (concat (map fds_of l))) < 2 ^ 32 ->
  len (mseq (s_e st) ByOccurrence l (abs_pos st) (nfd st)) < 2 ^ 32 ->
  (o = true -> c_oaa (s_cfg st) = true) ->
  ser_elems xs st
  = Ok (grow st (mseq (s_e st) ByOccurrence l (abs_pos st) (nfd st)) (concat (map fds_of l))).
Proof.
  induction 1 as [|x v xs l Hx Hl IH]; intros st el Hw Hs Hv Hd Hdep Hn Hlen Ho.
  - cbn. now rewrite grow_nil.
  - cbn [forallb] in Hw, Hdep. apply andb_true_iff in Hw as [Hwx Hw]. apply andb_true_iff in Hwx as [Hwx Hsx].
    apply andb_true_iff in Hdep as [Hdx Hdep]. apply sig_eqb_eq in Hsx.
    cbn [map concat mseq] in *. rewrite app_length, Nat2N.inj_add in Hn. rewrite len_app in Hlen.
    cbn [ser_elems].
    assert (G := okw_exact o x v st Hx Hwx ltac:(congruence) Hv (conj Hd Hdx) ltac:(unfold nfds; lia) ltac:(lia) Ho). rewrite G.
    cbn [bind]. destruct (after_props st v) as (Hp & Hf & Hsg & Hvs & Hde & He & Hc).
    assert (G2 := IH (after st v) el Hw ltac:(congruence) ltac:(congruence)).
    rewrite Hde in G2. rewrite Hf in G2. rewrite Hp in G2. rewrite He in G2. rewrite Hc in G2.
    specialize (G2 Hd Hdep ltac:(unfold nfds; lia) ltac:(lia) Ho). rewrite G2.
    unfold after at 1. rewrite grow_grow. rewrite ?Hp, ?Hf, ?He. reflexivity.
Qed.

(* ---------- fields: each runs in its own sub-serializer, only bytes / descriptors / variant cursor come back ---------- *)
Lemma back_weq st g x sub : s_vsign st = None -> weq sub (after (sub_of st g) x) ->
  back_from st sub = grow st (marshal (s_e st) ByOccurrence x (abs_pos st) (nfd st)) (fds_of x).
Proof. intros Hv W. rewrite (back_from_weq _ _ _ W). now apply back_after. Qed.

Lemma fieldsx_ok o xs l : Forall2 (fun x v => okw o x v false false) xs l -> forall st pre,
  s_sig st = SStruct (pre ++ map vsig l) -> s_vsign st = None -> forallb wf l = true -> dep_ok (s_dep st) ->
  forallb (depth_ok (d_struct (s_dep st)) (d_array (s_dep st)) (d_variant (s_dep st))) l = true ->
  nfd st + N.of_nat (length (concat (map fds_of l))) < 2 ^ 32 ->
  len (mseq (s_e st) ByOccurrence l (abs_pos st) (nfd st)) < 2 ^ 32 ->
  (o = true -> c_oaa (s_cfg st) = true) ->
  ser_fields xs (length pre) st
  = Ok (grow st (mseq (s_e st) ByOccurrence l (abs_pos st) (nfd st)) (concat (map fds_of l))).
Proof.
  induction 1 as [|x v xs l Hx Hl IH]; intros st pre Hs Hv Hw Hd Hdep Hn Hlen Ho.
  - cbn. now rewrite grow_nil.
  - cbn [forallb] in Hw, Hdep. apply andb_true_iff in Hw as [Hwx Hw]. apply andb_true_iff in Hdep as [Hdx Hdep].
    cbn [map concat mseq] in *. rewrite app_length, Nat2N.inj_add in Hn. rewrite len_app in Hlen.
    cbn [ser_fields]. unfold field_sig. rewrite Hs.
    rewrite nth_error_app2 by lia. rewrite Nat.sub_diag. cbn [nth_error bind].
    destruct (Hx (sub_of st (vsig v)) Hwx eq_refl eq_refl (conj Hd Hdx)
                 ltac:(change (nfd (sub_of st (vsig v))) with (nfd st); unfold nfds; lia)
                 ltac:(change (nfd (sub_of st (vsig v))) with (nfd st); change (s_e (sub_of st (vsig v))) with (s_e st);
                       change (abs_pos (sub_of st (vsig v))) with (abs_pos st); lia)
                 Ho) as (sub & E & W & _ & _).
    rewrite E. cbn [bind]. rewrite (back_weq st (vsig v) v sub Hv W).
    set (st1 := grow st (marshal (s_e st) ByOccurrence v (abs_pos st) (nfd st)) (fds_of v)).
    assert (G2 := IH st1 (pre ++ [vsig v])). rewrite app_length in G2. cbn [length] in G2.
    replace (length pre + 1)%nat with (S (length pre)) in G2 by lia.
    assert (Hs1 : s_sig st1 = SStruct ((pre ++ [vsig v]) ++ map vsig l)) by (subst st1; rewrite sig_grow, Hs, <- app_assoc; reflexivity).
    specialize (G2 Hs1 Hv Hw). subst st1. rewrite dep_grow, e_grow, abs_pos_grow, nfd_grow, cfg_grow in G2.
    specialize (G2 Hd Hdep ltac:(unfold nfds in *; lia) ltac:(unfold nfds in *; lia) Ho). rewrite G2.
    rewrite grow_grow. reflexivity.
Qed.

Lemma ser_nfields_fields l idx st : ser_nfields l idx st = ser_fields (map snd l) idx st.
Proof.
  revert idx st. induction l as [|[n y] l IH]; intros idx st; [reflexivity|].
  cbn [ser_nfields ser_fields map snd]. destruct (field_sig st idx) as [[g i']| |]; [|reflexivity|reflexivity].
  cbn [bind]. destruct (ser y (sub_of st g)); [|reflexivity|reflexivity]. cbn [bind]. apply IH.
Qed.

(* a tuple / tuple struct / named struct under a STRUCT signature *)
Lemma structx_ok o xs l : Forall2 (fun x v => okw o x v false false) xs l ->
  forall st, wf (VStruct l) = true -> s_sig st = vsig (VStruct l) -> s_vsign st = None -> fits (s_dep st) (VStruct l) ->
  nfd st + nfds (VStruct l) < 2 ^ 32 ->
  len (marshal (s_e st) ByOccurrence (VStruct l) (abs_pos st) (nfd st)) < 2 ^ 32 ->
  (o = true -> c_oaa (s_cfg st) = true) ->
  exists st', struct_begin st = Ok (st', KStruct (s_dep st)) /\
              (let* st2 := ser_fields xs 0%nat st' in Ok (set_dep st2 (s_dep st))) = Ok (after st (VStruct l)).
Proof.
  intros HF st Hw Hs Hv [Hd Hdep] Hn Hlen Ho.
  cbn [wf] in Hw. apply andb_true_iff in Hw as [_ Hw]. cbn [vsig] in Hs.
  cbn [depth_ok] in Hdep. apply andb_true_iff in Hdep as [Hdep Hdl]. apply andb_true_iff in Hdep as [Ha Ht].
  apply N.leb_le in Ha, Ht.
  destruct (inc_struct_ok (s_dep st) Hd Ha Ht) as (d' & Hinc & Hd' & E1 & E2 & E3).
  rewrite marshal_struct in Hlen. cbv zeta in Hlen. rewrite len_app in Hlen.
  set (p0 := pad (abs_pos st) 8) in *.
  set (st' := set_dep (grow st p0 []) d').
  exists st'. split.
  { unfold struct_begin. rewrite Hs. cbn [align_of align_dbus bind]. rewrite padded_grow.
    rewrite sig_grow, Hs, dep_grow, Hinc. cbn [bind]. reflexivity. }
  assert (G := fieldsx_ok o xs l HF st' [] ltac:(subst st'; cbn; exact Hs) Hv Hw).
  change (s_dep st') with d' in G. change (s_e st') with (s_e st) in G. change (s_cfg st') with (s_cfg st) in G.
  assert (Hpos : abs_pos st' = abs_pos st + len p0) by (subst st'; change (abs_pos (set_dep (grow st p0 []) d')) with (abs_pos (grow st p0 [])); now rewrite abs_pos_grow).
  assert (Hnf : nfd st' = nfd st) by (subst st'; change (nfd (set_dep (grow st p0 []) d')) with (nfd (grow st p0 [])); rewrite nfd_grow; cbn; lia).
  rewrite E1, E2, E3, Hpos, Hnf in G. cbn [fds_of] in Hn. unfold nfds in Hn. cbn [fds_of] in Hn.
  specialize (G Hd' Hdl ltac:(lia) ltac:(lia) Ho). cbn [length] in G. rewrite G. cbn [bind]. f_equal.
  unfold after. rewrite marshal_struct. cbv zeta. fold p0. subst st'.
  apply sstate_ext; try reflexivity.
  - cbn. now rewrite <- app_assoc.
  - cbn. now rewrite add_fds_nil.
Qed.

Lemma tuplex_ok o xs l : Forall2 (fun x v => okw o x v false false) xs l -> okw o (XTuple xs) (VStruct l) true true.
Proof.
  intros HF. apply okw_of_exact. intros st Hw Hs Hv Hfit Hn Hlen Ho. rewrite ser_tuple.
  destruct (structx_ok o xs l HF st Hw Hs Hv Hfit Hn Hlen Ho) as (st' & Hb & G). rewrite Hb. cbn [bind]. exact G.
Qed.
Lemma namedx_ok o (nxs : list (bytes * sval)) l : Forall2 (fun x v => okw o x v false false) (map snd nxs) l ->
  okw o (XStruct nxs) (VStruct l) true true.
Proof.
  intros HF. apply okw_of_exact. intros st Hw Hs Hv Hfit Hn Hlen Ho. rewrite ser_struct_named.
  destruct (structx_ok o (map snd nxs) l HF st Hw Hs Hv Hfit Hn Hlen Ho) as (st' & Hb & G). rewrite Hb. cbn [bind].
  rewrite ser_nfields_fields. exact G.
Qed.

(* ---------- sequences ---------- *)
Lemma seqx_ok o xs el l : Forall2 (fun x v => okw o x v true true) xs l -> okw o (XSeq xs) (VArray el l) true true.
Proof.
  intros HF. apply okw_of_exact. intros st Hw Hs Hv [Hd Hdep] Hn Hlen Ho. rewrite ser_seq.
  cbn [wf] in Hw. apply andb_true_iff in Hw as [Hel Hw]. cbn [vsig] in Hs.
  cbn [depth_ok] in Hdep. apply andb_true_iff in Hdep as [Hdep Hdl]. apply andb_true_iff in Hdep as [Ha Ht].
  apply N.leb_le in Ha, Ht.
  destruct (inc_array_ok (s_dep st) Hd Ha Ht) as (d' & Hinc & Hdec & Hd' & E1 & E2 & E3).
  rewrite marshal_array in Hlen. cbv zeta in Hlen. rewrite !len_app in Hlen.
  set (p0 := pad (abs_pos st) 4) in *. set (p1 := pad (abs_pos st + len p0 + 4) (align_dbus el)) in *.
  set (st' := set_dep (set_sig (grow st (p0 ++ enc (s_e st) 4 0 ++ p1) []) el) d').
  assert (Hpos : abs_pos st' = abs_pos st + len p0 + 4 + len p1).
  { subst st'. change (abs_pos (set_dep (set_sig (grow st (p0 ++ enc (s_e st) 4 0 ++ p1) []) el) d'))
      with (abs_pos (grow st (p0 ++ enc (s_e st) 4 0 ++ p1) [])). rewrite abs_pos_grow, !len_app, len_enc. lia. }
  assert (Hnf : nfd st' = nfd st).
  { subst st'. change (nfd (set_dep (set_sig (grow st (p0 ++ enc (s_e st) 4 0 ++ p1) []) el) d'))
      with (nfd (grow st (p0 ++ enc (s_e st) 4 0 ++ p1) [])). rewrite nfd_grow. cbn. lia. }
  pose proof (elemsx_ok o xs l HF st' el Hw eq_refl Hv) as He.
  change (s_dep st') with d' in He. change (s_e st') with (s_e st) in He. change (s_cfg st') with (s_cfg st) in He.
  rewrite E1, E2, E3, Hpos, Hnf in He.
  specialize (He Hd' Hdl). cbn [fds_of nfds] in Hn.
  specialize (He ltac:(unfold nfds in Hn; cbn [fds_of] in Hn; lia) ltac:(lia) Ho).
  rewrite (seq_wrap st el (align_dbus el) d' (ser_elems xs) _ _
             (or_introl (conj Hs (single_align el Hel))) Hinc Hdec He) by lia.
  unfold after. rewrite marshal_array. cbv zeta. fold p0 p1. reflexivity.
Qed.

(* a tuple (serde: arrays, Ipv4Addr octets...) under an ARRAY signature goes the sequence way *)
Lemma seq_begin_padded st : seq_begin (padded st 4) = seq_begin st.
Proof. unfold seq_begin. rewrite padded_idem by discriminate. reflexivity. Qed.
Lemma tuple_as_seq xs st c : s_sig st = SArray c -> ser (XTuple xs) st = ser (XSeq xs) st.
Proof.
  intros Hs. rewrite ser_tuple, ser_seq. unfold struct_begin. rewrite Hs. cbn [align_of align_dbus bind].
  assert (Hs' : s_sig (padded st 4) = SArray c) by (rewrite padded_grow, sig_grow; exact Hs).
  rewrite Hs'. rewrite seq_begin_padded.
  destruct (seq_begin st) as [[[[s1 start] fp] asig]| |]; reflexivity.
Qed.
Lemma tuple_seqx_ok o xs el l : Forall2 (fun x v => okw o x v true true) xs l -> okw o (XTuple xs) (VArray el l) true true.
Proof.
  intros HF. apply okw_of_exact. intros st Hw Hs Hv Hfit Hn Hlen Ho.
  rewrite (tuple_as_seq xs st el Hs). exact (okw_exact o _ _ st (seqx_ok o xs el l HF) Hw Hs Hv Hfit Hn Hlen Ho).
Qed.

(* ---------- Option as an array of zero or one element ---------- *)
Lemma nonex_ok el : okw true XNone (VArray el []) true true.
Proof.
  apply okw_of_exact. intros st Hw Hs Hv [Hd Hdep] Hn Hlen Ho. cbn [ser]. rewrite (Ho eq_refl).
  cbn [wf] in Hw. apply andb_true_iff in Hw as [Hel _]. cbn [vsig] in Hs.
  cbn [depth_ok] in Hdep. apply andb_true_iff in Hdep as [Hdep _]. apply andb_true_iff in Hdep as [Ha Ht].
  apply N.leb_le in Ha, Ht.
  destruct (inc_array_ok (s_dep st) Hd Ha Ht) as (d' & Hinc & Hdec & Hd' & E1 & E2 & E3).
  pose proof (seq_wrap st el (align_dbus el) d' (fun s => Ok s) [] []
                (or_introl (conj Hs (single_align el Hel))) Hinc Hdec) as G. cbv zeta in G.
  rewrite grow_nil in G. specialize (G eq_refl ltac:(cbn; lia)).
  etransitivity; [|etransitivity; [exact G|]].
  - destruct (seq_begin st) as [[[[s1 start] fp] asig]| |]; reflexivity.
  - unfold after. rewrite marshal_array. cbv zeta. cbn [mseq]. reflexivity.
Qed.

Lemma somex_ok o y v el dc sc : okw o y v dc sc -> okw true (XSome y) (VArray el [v]) dc true.
Proof.
  intros Hy st Hw Hs Hv [Hd Hdep] Hn Hlen Ho. cbn [ser]. rewrite (Ho eq_refl).
  cbn [wf forallb] in Hw. apply andb_true_iff in Hw as [Hel Hw]. apply andb_true_iff in Hw as [Hw _].
  apply andb_true_iff in Hw as [Hwv Hsv]. apply sig_eqb_eq in Hsv. cbn [vsig] in Hs.
  cbn [depth_ok forallb] in Hdep. apply andb_true_iff in Hdep as [Hdep Hdl]. apply andb_true_iff in Hdep as [Ha Ht].
  apply andb_true_iff in Hdl as [Hdv _]. apply N.leb_le in Ha, Ht.
  destruct (inc_array_ok (s_dep st) Hd Ha Ht) as (d' & Hinc & Hdec & Hd' & E1 & E2 & E3).
  rewrite marshal_array in Hlen. cbv zeta in Hlen. cbn [mseq] in Hlen. rewrite !len_app, ?app_nil_r in Hlen.
  set (p0 := pad (abs_pos st) 4) in *. set (p1 := pad (abs_pos st + len p0 + 4) (align_dbus el)) in *.
  set (st' := set_dep (set_sig (grow st (p0 ++ enc (s_e st) 4 0 ++ p1) []) el) d').
  assert (Hpos : abs_pos st' = abs_pos st + len p0 + 4 + len p1).
  { subst st'. change (abs_pos (set_dep (set_sig (grow st (p0 ++ enc (s_e st) 4 0 ++ p1) []) el) d'))
      with (abs_pos (grow st (p0 ++ enc (s_e st) 4 0 ++ p1) [])). rewrite abs_pos_grow, !len_app, len_enc. lia. }
  assert (Hnf : nfd st' = nfd st).
  { subst st'. change (nfd (set_dep (set_sig (grow st (p0 ++ enc (s_e st) 4 0 ++ p1) []) el) d'))
      with (nfd (grow st (p0 ++ enc (s_e st) 4 0 ++ p1) [])). rewrite nfd_grow. cbn. lia. }
  cbn [fds_of nfds] in Hn. unfold nfds in Hn. cbn [fds_of map concat] in Hn. rewrite app_nil_r in Hn.
  destruct (Hy st' Hwv ltac:(subst st'; cbn; congruence) Hv
               ltac:(split; [exact Hd'|change (s_dep st') with d'; rewrite E1, E2, E3; exact Hdv])
               ltac:(rewrite Hnf; unfold nfds; lia)
               ltac:(change (s_e st') with (s_e st); rewrite Hpos, Hnf; lia)
               ltac:(intros Eo; apply Ho; reflexivity)) as (st2 & E & W & D & S).
  set (body := marshal (s_e st) ByOccurrence v (abs_pos st + len p0 + 4 + len p1) (nfd st)) in *.
  assert (W' : weq st2 (grow st' body (fds_of v))).
  { unfold after in W. change (s_e st') with (s_e st) in W. rewrite Hpos, Hnf in W. exact W. }
  destruct (seq_wrap_w st el (align_dbus el) d' (ser y) body (fds_of v) st2
              (or_introl (conj Hs (single_align el Hel))) Hinc Hdec E W' ltac:(lia)) as (r & Er & Wr & Sr & Dr).
  exists r. split.
  { etransitivity; [|exact Er]. destruct (seq_begin st) as [[[[s1 start] fp] asig]| |]; reflexivity. }
  split.
  { eapply weq_trans; [exact Wr|]. unfold after. rewrite marshal_array. cbv zeta. cbn [mseq fds_of map concat].
    fold p0 p1. rewrite !app_nil_r. fold body. apply weq_refl. }
  split; [|intros _; exact Sr].
  intros Edc. apply Dr. rewrite (D Edc). reflexivity.
Qed.

(* ---------- maps: the key leaves the serializer exact, the value may leave the signature cursor anywhere
   (serialize_value resets it) but not the depth counters ---------- *)
Lemma entriesx_ok o (xs : list (sval * sval)) (l : list (dval * dval)) :
  Forall2 (fun x p => okw o (fst x) (fst p) true true /\ okw o (snd x) (snd p) true false) xs l -> forall st ks vs,
  forallb (fun p => wf (fst p) && wf (snd p) && sig_eqb (vsig (fst p)) ks && sig_eqb (vsig (snd p)) vs) l = true ->
  s_sig st = ks -> s_vsign st = None -> dep_ok (s_dep st) ->
  forallb (fun p => depth_ok (d_struct (s_dep st)) (d_array (s_dep st)) (d_variant (s_dep st)) (fst p)
                    && depth_ok (d_struct (s_dep st)) (d_array (s_dep st)) (d_variant (s_dep st)) (snd p)) l = true ->
  nfd st + N.of_nat (length (concat (map (fun p => fds_of (fst p) ++ fds_of (snd p)) l))) < 2 ^ 32 ->
  len (mentries (s_e st) ByOccurrence l (abs_pos st) (nfd st)) < 2 ^ 32 ->
  (o = true -> c_oaa (s_cfg st) = true) ->
  ser_entries xs ks vs st
  = Ok (grow st (mentries (s_e st) ByOccurrence l (abs_pos st) (nfd st))
               (concat (map (fun p => fds_of (fst p) ++ fds_of (snd p)) l))).
Proof.
  induction 1 as [|[xk xv] [k x] xs l [Hk Hx] Hl IH]; intros st ks vs Hw Hs Hv Hd Hdep Hn Hlen Ho.
  - cbn. now rewrite grow_nil.
  - cbn [fst snd] in Hk, Hx.
    cbn [forallb fst snd] in Hw, Hdep. apply andb_true_iff in Hw as [Hw1 Hw].
    apply andb_true_iff in Hw1 as [Hw1 Hsx]. apply andb_true_iff in Hw1 as [Hw1 Hsk]. apply andb_true_iff in Hw1 as [Hwk Hwx].
    apply sig_eqb_eq in Hsk, Hsx. apply andb_true_iff in Hdep as [Hd1 Hdep]. apply andb_true_iff in Hd1 as [Hdk Hdx].
    cbn [map concat mentries fst snd] in *. rewrite !app_length, !Nat2N.inj_add in Hn. rewrite !len_app in Hlen.
    cbn [ser_entries]. rewrite padded_grow.
    set (b0 := pad (abs_pos st) 8) in *.
    set (st1 := grow st b0 []).
    assert (P1 : abs_pos st1 = abs_pos st + len b0) by (subst st1; now rewrite abs_pos_grow).
    assert (N1 : nfd st1 = nfd st) by (subst st1; rewrite nfd_grow; cbn; lia).
    assert (G := okw_exact o xk k st1 Hk Hwk ltac:(subst st1; rewrite sig_grow; congruence) Hv (conj Hd Hdk)).
    change (s_e st1) with (s_e st) in G. change (s_cfg st1) with (s_cfg st) in G. rewrite P1, N1 in G.
    specialize (G ltac:(unfold nfds; lia) ltac:(lia) Ho). rewrite G. cbn [bind].
    set (b1 := marshal (s_e st) ByOccurrence k (abs_pos st + len b0) (nfd st)) in *.
    assert (A1 : after st1 k = grow st (b0 ++ b1) (fds_of k)).
    { unfold after. change (s_e st1) with (s_e st). rewrite P1, N1. fold b1. subst st1. now rewrite grow_grow. }
    rewrite A1.
    set (st2 := set_sig (grow st (b0 ++ b1) (fds_of k)) vs).
    assert (P2 : abs_pos st2 = abs_pos st + len b0 + len b1).
    { subst st2. change (abs_pos (set_sig (grow st (b0 ++ b1) (fds_of k)) vs)) with (abs_pos (grow st (b0 ++ b1) (fds_of k))).
      rewrite abs_pos_grow, len_app. lia. }
    assert (N2 : nfd st2 = nfd st + nfds k).
    { subst st2. change (nfd (set_sig (grow st (b0 ++ b1) (fds_of k)) vs)) with (nfd (grow st (b0 ++ b1) (fds_of k))).
      now rewrite nfd_grow. }
    destruct (Hx st2 Hwx ltac:(subst st2; cbn; congruence) Hv (conj Hd Hdx)
                 ltac:(rewrite N2; unfold nfds in *; lia)
                 ltac:(change (s_e st2) with (s_e st); rewrite P2, N2; lia) Ho) as (st3 & E3 & W3 & D3 & _).
    rewrite E3. cbn [bind].
    set (b2 := marshal (s_e st) ByOccurrence x (abs_pos st + len b0 + len b1) (nfd st + nfds k)) in *.
    assert (A2 : set_sig st3 ks = grow st (b0 ++ b1 ++ b2) (fds_of k ++ fds_of x)).
    { assert (A : set_sig st3 ks = set_sig (after st2 x) ks).
      { destruct W3 as (W1 & W2 & W4 & W5 & W6 & W7). apply sstate_ext; cbn; try assumption; try reflexivity.
        rewrite (D3 eq_refl). reflexivity. }
      rewrite A. unfold after. change (s_e st2) with (s_e st). rewrite P2, N2. fold b2. subst st2.
      rewrite set_sig_grow. change (set_sig (set_sig (grow st (b0 ++ b1) (fds_of k)) vs) ks) with (set_sig (grow st (b0 ++ b1) (fds_of k)) ks).
      rewrite set_sig_grow. rewrite <- Hs, set_sig_id, grow_grow, <- app_assoc. reflexivity. }
    rewrite A2.
    set (st4 := grow st (b0 ++ b1 ++ b2) (fds_of k ++ fds_of x)).
    assert (G3 := IH st4 ks vs Hw ltac:(subst st4; rewrite sig_grow; assumption) Hv).
    subst st4. rewrite dep_grow, e_grow, cfg_grow, abs_pos_grow, nfd_grow, !len_app, app_length, Nat2N.inj_add in G3.
    replace (abs_pos st + (len b0 + (len b1 + len b2))) with (abs_pos st + len b0 + len b1 + len b2) in G3 by lia.
    replace (nfd st + (N.of_nat (length (fds_of k)) + N.of_nat (length (fds_of x)))) with (nfd st + nfds k + nfds x) in G3 by (unfold nfds; lia).
    specialize (G3 Hd Hdep ltac:(unfold nfds in *; lia) ltac:(lia) Ho). rewrite G3.
    rewrite grow_grow, <- !app_assoc. reflexivity.
Qed.

Lemma mapx_ok o xs ks vs l :
  Forall2 (fun x p => okw o (fst x) (fst p) true true /\ okw o (snd x) (snd p) true false) xs l ->
  okw o (XMap xs) (VDict ks vs l) true true.
Proof.
  intros HF. apply okw_of_exact. intros st Hw Hs Hv [Hd Hdep] Hn Hlen Ho. cbn [vsig] in Hs. rewrite (ser_map _ st ks vs Hs).
  cbn [wf] in Hw. apply andb_true_iff in Hw as [Hw0 Hw].
  cbn [depth_ok] in Hdep. apply andb_true_iff in Hdep as [Hdep Hdl]. apply andb_true_iff in Hdep as [Ha Ht].
  apply N.leb_le in Ha, Ht.
  destruct (inc_array_ok (s_dep st) Hd Ha Ht) as (d' & Hinc & Hdec & Hd' & E1 & E2 & E3).
  rewrite marshal_dict in Hlen. cbv zeta in Hlen. rewrite !len_app in Hlen.
  set (p0 := pad (abs_pos st) 4) in *. set (p1 := pad (abs_pos st + len p0 + 4) 8) in *.
  set (st' := set_dep (set_sig (grow st (p0 ++ enc (s_e st) 4 0 ++ p1) []) ks) d').
  assert (Hpos : abs_pos st' = abs_pos st + len p0 + 4 + len p1).
  { subst st'. change (abs_pos (set_dep (set_sig (grow st (p0 ++ enc (s_e st) 4 0 ++ p1) []) ks) d'))
      with (abs_pos (grow st (p0 ++ enc (s_e st) 4 0 ++ p1) [])). rewrite abs_pos_grow, !len_app, len_enc. lia. }
  assert (Hnf : nfd st' = nfd st).
  { subst st'. change (nfd (set_dep (set_sig (grow st (p0 ++ enc (s_e st) 4 0 ++ p1) []) ks) d'))
      with (nfd (grow st (p0 ++ enc (s_e st) 4 0 ++ p1) [])). rewrite nfd_grow. cbn. lia. }
  pose proof (entriesx_ok o xs l HF st' ks vs Hw eq_refl Hv) as He.
  change (s_dep st') with d' in He. change (s_e st') with (s_e st) in He. change (s_cfg st') with (s_cfg st) in He.
  rewrite E1, E2, E3, Hpos, Hnf in He.
  specialize (He Hd' Hdl). cbn [fds_of nfds] in Hn. unfold nfds in Hn. cbn [fds_of] in Hn.
  specialize (He ltac:(lia) ltac:(lia) Ho).
  rewrite (seq_wrap st ks 8 d' (ser_entries _ ks vs) _ _
             (or_intror (ex_intro _ vs (conj Hs eq_refl))) Hinc Hdec He) by lia.
  unfold after. rewrite marshal_dict. cbv zeta. fold p0 p1. reflexivity.
Qed.

(* a named struct under a DICT signature (SerializeDict's helper struct) is a map from field names to values *)
Lemma ser_nentries_entries l ks vs st :
  ser_nentries l ks vs st = ser_entries (map (fun p => (XStr (fst p), snd p)) l) ks vs st.
Proof.
  revert st. induction l as [|[n y] l IH]; intros st; [reflexivity|].
  cbn [ser_nentries ser_entries map fst snd]. change (ser (XStr n) (padded st 8)) with (ser_str (padded st 8) n).
  destruct (ser_str (padded st 8) n); [|reflexivity|reflexivity]. cbn [bind].
  destruct (ser y (set_sig a vs)); [|reflexivity|reflexivity]. cbn [bind]. apply IH.
Qed.
Lemma named_as_map nl st ks vs : s_sig st = SDict ks vs ->
  ser (XStruct nl) st = ser (XMap (map (fun p => (XStr (fst p), snd p)) nl)) st.
Proof.
  intros Hs. rewrite ser_struct_named, (ser_map _ st ks vs Hs). unfold struct_begin. rewrite Hs. cbn [align_of align_dbus bind].
  assert (Hs' : s_sig (padded st 4) = SDict ks vs) by (rewrite padded_grow, sig_grow; exact Hs).
  rewrite Hs'. rewrite seq_begin_padded.
  destruct (seq_begin st) as [[[[s1 start] fp] asig]| |]; [|reflexivity|reflexivity]. cbn [bind].
  rewrite ser_nentries_entries. reflexivity.
Qed.

(* ---------- as_value: a value wrapped as a VARIANT ---------- *)
Lemma variantx_ok o y x : okw o y x false false -> okw o (XStruct [(B "signature", XStr (show (vsig x))); (B "value", y)]) (VVariant x) true true.
Proof.
  intros Hx. apply okw_of_exact. intros st Hw Hs Hv [Hd Hdep] Hn Hlen Ho. rewrite ser_struct_named.
  cbn [wf] in Hw. apply andb_true_iff in Hw as [Hw Hl255]. apply andb_true_iff in Hw as [Hw Hso].
  apply N.leb_le in Hl255. cbn [vsig] in Hs.
  cbn [depth_ok] in Hdep. apply andb_true_iff in Hdep as [Ht Hdx]. apply N.leb_le in Ht.
  destruct (inc_variant_ok (s_dep st) Hd Ht) as (d' & Hinc & Hd' & E1 & E2 & E3).
  unfold struct_begin. rewrite Hs. cbn [align_of align_dbus bind]. rewrite padded_grow, pad_1, grow_nil.
  rewrite Hs, Hinc. cbn [bind].
  set (g := vsig x) in *. set (sg := show g) in *.
  set (hdr := nb (len sg) :: sg ++ [x00]).
  cbn [marshal] in Hlen. fold g sg hdr in Hlen. rewrite len_app in Hlen.
  set (st1 := set_dep st d').
  cbn [ser_nfields]. unfold field_sig at 1. change (s_sig st1) with (s_sig st). rewrite Hs.
  change (s_vsign st1) with (s_vsign st). rewrite Hv. cbn [bind].
  cbn [ser]. unfold ser_str. change (s_sig (sub_of st1 SVariant)) with SVariant. cbn [align_of align_dbus bind].
  rewrite padded_grow, pad_1, grow_nil. change (s_sig (sub_of st1 SVariant)) with SVariant.
  change (c_gv (s_cfg (sub_of st1 SVariant))) with (c_gv (s_cfg st)).
  pose proof (parse_show (c_gv (s_cfg st)) g (single_printable g Hso)) as Hps. fold sg in Hps. rewrite Hps. cbn [bind].
  destruct (N.leb_spec (len sg) 255) as [_|]; [|lia]. cbn [bind].
  rewrite !wr_grow, !grow_grow. cbn [app].
  unfold field_sig. cbn [s_sig s_vsign back_from set_vsign set_fds set_out grow set_sig sub_of set_dep bind].
  set (st2 := sub_of (back_from st1 (grow (set_vsign (sub_of st1 SVariant) (Some g)) (nb (len sg) :: sg ++ [x00]) [])) g).
  assert (Hp2 : abs_pos st2 = abs_pos st + len hdr).
  { subst st2 st1. clear. destruct st. unfold abs_pos, written. cbn -[len]. rewrite len_app. fold hdr. lia. }
  assert (Hn2 : nfd st2 = nfd st).
  { subst st2 st1. clear. destruct st. unfold nfd. cbn -[add_fds]. rewrite add_fds_nil. reflexivity. }
  assert (Hfit : fits d' x) by (split; [exact Hd'|rewrite E1, E2, E3; exact Hdx]).
  cbn [fds_of] in Hn. unfold nfds in Hn. cbn [fds_of] in Hn.
  destruct (Hx st2 Hw eq_refl eq_refl Hfit ltac:(rewrite Hn2; unfold nfds; lia)
               ltac:(change (s_e st2) with (s_e st); rewrite Hp2, Hn2; lia) Ho) as (st3 & E & W & _ & _).
  change (s_sig st1) with (s_sig st). rewrite Hs. cbn [bind]. fold st2. rewrite E. cbn [bind]. f_equal.
  destruct W as (W1 & W2 & W3 & W4 & W5 & W6).
  unfold after in *. rewrite Hp2, Hn2 in *. change (s_e st2) with (s_e st) in *. cbn [marshal]. fold g sg hdr.
  subst st2 st1. apply sstate_ext; try reflexivity.
  - cbn -[len marshal app N.add] in *. rewrite W4. unfold hdr. rewrite <- ?app_assoc. cbn [app]. rewrite <- ?app_assoc. reflexivity.
  - cbn in *. rewrite W5. now rewrite Hv.
  - cbn -[add_fds] in *. rewrite W6. rewrite ?add_fds_nil. reflexivity.
Qed.

(* ---------- small leaves ---------- *)
(* `struct S {}` / [T; 0]: StructSerializer::unit writes one zero byte *)
Lemma empty_struct_ok o : okw o (XStruct []) (VU8 0) true true.
Proof.
  apply okw_of_exact. intros st _ Hs _ _ _ _ _. rewrite ser_struct_named. unfold struct_begin. cbn [vsig] in Hs. rewrite Hs.
  cbn [align_of align_dbus bind]. rewrite padded_grow, pad_1, grow_nil. rewrite Hs. rewrite basic_after. cbn [bind ser_nfields].
  rewrite dep_grow, set_dep_grow, set_dep_id. unfold after. cbn [marshal fds_of]. rewrite pad_1. cbn [app].
  destruct (s_e st); reflexivity.
Qed.
Lemma unit_variant_u32 o idx name : okw o (XUnitVariant idx name) (VU32 idx) true true.
Proof.
  apply okw_of_exact. intros st _ Hs _ _ _ _ _. cbn [ser]. cbn [vsig] in Hs. rewrite Hs. rewrite basic_after.
  unfold after. cbn [marshal fds_of]. now rewrite enc_mod32.
Qed.
Lemma unit_variant_str o idx name : okw o (XUnitVariant idx name) (VStr name) true true.
Proof.
  apply okw_of_exact. intros st Hw Hs Hv Hf Hn Hl _. cbn [ser]. cbn [vsig] in Hs. rewrite Hs.
  exact (ser_good (VStr name) eq_refl st Hw Hs Hv Hf Hn Hl).
Qed.

(* ---------- enum variants: StructSerializer::enum_variant ---------- *)
Definition enum_begin (st : sstate) (idx : N) : res cerr (sstate * nat * depths) :=
  match s_sig st with
  | SStruct fs =>
      let inner := match nth_error fs 1 with Some (SStruct g) => Some (SStruct g) | _ => None end in
      let st := padded st 8 in
      let saved := s_dep st in
      let* d := inc_struct (s_dep st) in
      let st := set_dep st d in
      let* (g, i1) := field_sig st 0 in
      let* sub := basic (sub_of st g) 4 4 (idx mod 2 ^ 32) in
      let st := back_from st sub in
      match inner with
      | Some g' => Ok (set_sig (padded st 8) g', 0%nat, saved)
      | None => Ok (st, i1, saved)
      end
  | _ => Err ESigMismatch
  end.
Lemma ser_newtype_variant idx y st :
  ser (XNewtypeVariant idx y) st = let* (st, i, saved) := enum_begin st idx in ser_fields [y] i st.
Proof. reflexivity. Qed.
Lemma ser_tuple_variant idx l st :
  ser (XTupleVariant idx l) st = let* (st, i, saved) := enum_begin st idx in let* st := ser_fields l i st in Ok (set_dep st saved).
Proof. reflexivity. Qed.
Lemma ser_struct_variant idx l st :
  ser (XStructVariant idx l) st = let* (st, i, saved) := enum_begin st idx in let* st := ser_nfields l i st in Ok (set_dep st saved).
Proof. reflexivity. Qed.

Lemma back_grow st g b h : s_vsign st = None -> back_from st (grow (sub_of st g) b h) = grow st b h.
Proof. intros Hv. apply sstate_ext; try reflexivity. cbn. now rewrite Hv. Qed.

(* the state after the variant number has been written *)
Definition after_idx (st : sstate) (idx : N) (d' : depths) : sstate :=
  let p0 := pad (abs_pos st) 8 in
  set_dep (grow st (p0 ++ pad (abs_pos st + len p0) 4 ++ enc (s_e st) 4 idx) []) d'.

Lemma enum_begin_ok st idx g d' : s_sig st = SStruct [SU32; g] -> s_vsign st = None -> inc_struct (s_dep st) = Ok d' ->
  enum_begin st idx =
  match g with
  | SStruct gs => Ok (set_sig (padded (after_idx st idx d') 8) (SStruct gs), 0%nat, s_dep st)
  | _ => Ok (after_idx st idx d', 1%nat, s_dep st)
  end.
Proof.
  intros Hs Hv Hinc. unfold enum_begin. rewrite Hs. cbn [nth_error].
  rewrite padded_grow, dep_grow, Hinc. cbn [bind].
  set (p0 := pad (abs_pos st) 8).
  unfold field_sig. change (s_sig (set_dep (grow st p0 []) d')) with (s_sig st). rewrite Hs. cbn [nth_error bind].
  rewrite basic_after. cbn [bind].
  change (abs_pos (sub_of (set_dep (grow st p0 []) d') SU32)) with (abs_pos (grow st p0 [])). rewrite abs_pos_grow.
  change (s_e (sub_of (set_dep (grow st p0 []) d') SU32)) with (s_e st).
  rewrite back_grow by exact Hv. rewrite enc_mod32.
  assert (E : grow (set_dep (grow st p0 []) d') (pad (abs_pos st + len p0) 4 ++ enc (s_e st) 4 idx) [] = after_idx st idx d').
  { unfold after_idx. fold p0. rewrite <- set_dep_grow, grow_grow. reflexivity. }
  rewrite E. destruct g; reflexivity.
Qed.

Lemma after_idx_props st idx d' :
  abs_pos (after_idx st idx d') = abs_pos st + len (pad (abs_pos st) 8) + len (pad (abs_pos st + len (pad (abs_pos st) 8)) 4) + 4
  /\ nfd (after_idx st idx d') = nfd st /\ s_sig (after_idx st idx d') = s_sig st /\ s_vsign (after_idx st idx d') = s_vsign st
  /\ s_dep (after_idx st idx d') = d' /\ s_e (after_idx st idx d') = s_e st /\ s_cfg (after_idx st idx d') = s_cfg st.
Proof.
  unfold after_idx. cbv zeta. repeat split; try reflexivity.
  - change (abs_pos (set_dep ?s d')) with (abs_pos s). rewrite abs_pos_grow, !len_app, len_enc. lia.
  - change (nfd (set_dep ?s d')) with (nfd s). rewrite nfd_grow. cbn. lia.
Qed.

(* newtype variant `V(T)`, T's signature not a STRUCT: the depth counter stays incremented (no end()) *)
Lemma newtype_variantx_ok o idx y v : is_struct_sig (vsig v) = false -> okw o y v false false ->
  okw o (XNewtypeVariant idx y) (VStruct [VU32 idx; v]) false true.
Proof.
  intros Hns Hy st Hw Hs Hv [Hd Hdep] Hn Hlen Ho. rewrite ser_newtype_variant.
  cbn [wf forallb] in Hw. apply andb_true_iff in Hw as [_ Hw]. apply andb_true_iff in Hw as [_ Hw]. apply andb_true_iff in Hw as [Hwv _].
  cbn [vsig map] in Hs.
  cbn [depth_ok forallb] in Hdep. apply andb_true_iff in Hdep as [Hdep Hdl]. apply andb_true_iff in Hdep as [Ha Ht].
  apply andb_true_iff in Hdl as [_ Hdl]. apply andb_true_iff in Hdl as [Hdv _]. apply N.leb_le in Ha, Ht.
  destruct (inc_struct_ok (s_dep st) Hd Ha Ht) as (d' & Hinc & Hd' & E1 & E2 & E3).
  rewrite (enum_begin_ok st idx (vsig v) d' Hs Hv Hinc).
  assert (Hb : (match vsig v with
                | SStruct gs => Ok (set_sig (padded (after_idx st idx d') 8) (SStruct gs), 0%nat, s_dep st)
                | _ => Ok (after_idx st idx d', 1%nat, s_dep st)
                end : res cerr (sstate * nat * depths)) = Ok (after_idx st idx d', 1%nat, s_dep st)).
  { destruct (vsig v); try reflexivity. discriminate Hns. }
  rewrite Hb. cbn [bind]. clear Hb.
  destruct (after_idx_props st idx d') as (Pp & Pn & Ps & Pv & Pd & Pe & Pc).
  rewrite marshal_struct in Hlen. cbv zeta in Hlen. cbn [mseq marshal] in Hlen. rewrite !len_app, len_enc in Hlen.
  cbn [fds_of nfds] in Hn. unfold nfds in Hn. cbn [fds_of map concat length app] in Hn. rewrite app_nil_r in Hn.
  set (p0 := pad (abs_pos st) 8) in *. set (p1 := pad (abs_pos st + len p0) 4) in *.
  pose proof (fieldsx_ok o [y] [v] ltac:(repeat constructor; exact Hy) (after_idx st idx d') [SU32]) as G.
  rewrite Ps, Pv, Pd, Pe, Pc, Pp, Pn in G. fold p0 p1 in G. cbn [map app length concat forallb mseq] in G.
  rewrite app_nil_r, E1, E2, E3 in G. rewrite Hwv, Hdv in G.
  replace (nfd st + nfds (VU32 idx)) with (nfd st) in Hlen by (unfold nfds; cbn; lia).
  replace (abs_pos st + len p0 + (len p1 + N.of_nat 4)) with (abs_pos st + len p0 + len p1 + 4) in Hlen by lia.
  specialize (G Hs Hv eq_refl Hd' eq_refl ltac:(lia) ltac:(rewrite len_app; cbn [len length]; lia) Ho).
  rewrite G. eexists. split; [reflexivity|]. split.
  - unfold after. rewrite marshal_struct. cbv zeta. cbn [mseq marshal fds_of map concat]. fold p0 p1.
    replace (nfd st + nfds (VU32 idx)) with (nfd st) by (unfold nfds; cbn; lia).
    replace (abs_pos st + len p0 + len (p1 ++ enc (s_e st) 4 idx)) with (abs_pos st + len p0 + len p1 + 4) by (rewrite len_app, len_enc; lia).
    unfold after_idx. cbv zeta. fold p0 p1. rewrite <- set_dep_grow, grow_grow.
    eapply weq_trans; [apply weq_set_dep|]. rewrite <- !app_assoc, !app_nil_r. cbn [app]. apply weq_refl.
  - split; [discriminate|]. intros _. reflexivity.
Qed.

(* tuple / struct variant: the serializer "pretends to be the inner struct" and never restores its signature cursor *)
Lemma fields_variantx_ok o idx xs l : Forall2 (fun x v => okw o x v false false) xs l ->
  forall st, wf (VStruct [VU32 idx; VStruct l]) = true -> s_sig st = vsig (VStruct [VU32 idx; VStruct l]) -> s_vsign st = None ->
  fits (s_dep st) (VStruct [VU32 idx; VStruct l]) -> nfd st + nfds (VStruct [VU32 idx; VStruct l]) < 2 ^ 32 ->
  len (marshal (s_e st) ByOccurrence (VStruct [VU32 idx; VStruct l]) (abs_pos st) (nfd st)) < 2 ^ 32 ->
  (o = true -> c_oaa (s_cfg st) = true) ->
  exists st', (let* (st1, i, saved) := enum_begin st idx in let* st2 := ser_fields xs i st1 in Ok (set_dep st2 saved)) = Ok st'
              /\ weq st' (after st (VStruct [VU32 idx; VStruct l])) /\ s_dep st' = s_dep st.
Proof.
  intros HF st Hw Hs Hv [Hd Hdep] Hn Hlen Ho.
  cbn [wf forallb] in Hw. apply andb_true_iff in Hw as [_ Hw]. apply andb_true_iff in Hw as [_ Hw]. apply andb_true_iff in Hw as [Hwl _].
  apply andb_true_iff in Hwl as [_ Hwl]. cbn [vsig map] in Hs.
  cbn [depth_ok forallb] in Hdep. apply andb_true_iff in Hdep as [Hdep Hdl]. apply andb_true_iff in Hdep as [Ha Ht].
  apply andb_true_iff in Hdl as [_ Hdl]. apply andb_true_iff in Hdl as [Hdv _]. apply N.leb_le in Ha, Ht.
  apply andb_true_iff in Hdv as [_ Hdv].
  destruct (inc_struct_ok (s_dep st) Hd Ha Ht) as (d' & Hinc & Hd' & E1 & E2 & E3).
  rewrite (enum_begin_ok st idx (SStruct (map vsig l)) d' Hs Hv Hinc). cbn [bind].
  destruct (after_idx_props st idx d') as (Pp & Pn & Ps & Pv & Pd & Pe & Pc).
  rewrite marshal_struct in Hlen. cbv zeta in Hlen. cbn [mseq] in Hlen. rewrite marshal_struct in Hlen. cbv zeta in Hlen.
  cbn [marshal] in Hlen. rewrite !len_app, len_enc in Hlen.
  cbn [fds_of nfds] in Hn. unfold nfds in Hn. cbn [fds_of map concat length app] in Hn. rewrite app_nil_r in Hn.
  set (p0 := pad (abs_pos st) 8) in *. set (p1 := pad (abs_pos st + len p0) 4) in *.
  replace (nfd st + nfds (VU32 idx)) with (nfd st) in Hlen by (unfold nfds; cbn; lia).
  replace (abs_pos st + len p0 + (len p1 + N.of_nat 4)) with (abs_pos st + len p0 + len p1 + 4) in Hlen by lia.
  set (q := abs_pos st + len p0 + len p1 + 4) in *.
  set (p2 := pad q 8) in *.
  set (A := after_idx st idx d') in *.
  set (st4 := set_sig (padded A 8) (SStruct (map vsig l))).
  assert (Q4 : abs_pos st4 = q + len p2).
  { subst st4. change (abs_pos (set_sig ?s _)) with (abs_pos s). rewrite padded_grow, abs_pos_grow, Pp. reflexivity. }
  assert (N4 : nfd st4 = nfd st).
  { subst st4. change (nfd (set_sig ?s _)) with (nfd s). rewrite padded_grow, nfd_grow, Pn. cbn. lia. }
  pose proof (fieldsx_ok o xs l HF st4 [] eq_refl) as G.
  change (s_vsign st4) with (s_vsign A) in G. change (s_dep st4) with (s_dep A) in G. change (s_e st4) with (s_e A) in G.
  change (s_cfg st4) with (s_cfg A) in G. rewrite Pv, Pd, Pe, Pc, Q4, N4, E1, E2, E3 in G.
  assert (Hdl' : forallb (depth_ok (d_struct (s_dep st) + 1) (d_array (s_dep st)) (d_variant (s_dep st))) l = true).
  { rewrite forallb_forall in *. intros x Hin. eapply depth_ok_mono; [| | |exact (Hdv x Hin)]; lia. }
  specialize (G Hv Hwl Hd' Hdl' ltac:(lia) ltac:(lia) Ho). cbn [length] in G. rewrite G. cbn [bind].
  eexists. split; [reflexivity|]. split; [|reflexivity].
  eapply weq_trans; [apply weq_set_dep|].
  unfold after. rewrite marshal_struct. cbv zeta. cbn [mseq]. rewrite marshal_struct. cbv zeta. cbn [marshal fds_of map concat].
  fold p0 p1. replace (nfd st + nfds (VU32 idx)) with (nfd st) by (unfold nfds; cbn; lia).
  replace (abs_pos st + len p0 + len (p1 ++ enc (s_e st) 4 idx)) with q by (unfold q; rewrite len_app, len_enc; lia).
  fold p2. subst st4. rewrite <- set_sig_grow. eapply weq_trans; [apply weq_set_sig|].
  rewrite padded_grow, Pp. fold q p2. subst A. unfold after_idx. cbv zeta. fold p0 p1.
  rewrite <- !set_dep_grow, !grow_grow. eapply weq_trans; [apply weq_set_dep|].
  rewrite <- !app_assoc, !app_nil_r. cbn [app]. apply weq_refl.
Qed.

Lemma tuple_variantx_ok o idx xs l : Forall2 (fun x v => okw o x v false false) xs l ->
  okw o (XTupleVariant idx xs) (VStruct [VU32 idx; VStruct l]) true false.
Proof.
  intros HF st Hw Hs Hv Hf Hn Hlen Ho. rewrite ser_tuple_variant.
  destruct (fields_variantx_ok o idx xs l HF st Hw Hs Hv Hf Hn Hlen Ho) as (st' & E & W & D).
  exists st'. split; [exact E|]. split; [exact W|]. split; [intros _; exact D|discriminate].
Qed.
Lemma struct_variantx_ok o idx (nxs : list (bytes * sval)) l : Forall2 (fun x v => okw o x v false false) (map snd nxs) l ->
  okw o (XStructVariant idx nxs) (VStruct [VU32 idx; VStruct l]) true false.
Proof.
  intros HF st Hw Hs Hv Hf Hn Hlen Ho. rewrite ser_struct_variant.
  destruct (fields_variantx_ok o idx (map snd nxs) l HF st Hw Hs Hv Hf Hn Hlen Ho) as (st' & E & W & D).
  exists st'. split; [|split; [exact W|split; [intros _; exact D|discriminate]]].
  rewrite <- E. destruct (enum_begin st idx) as [[[s1 i] sv]| |]; [|reflexivity|reflexivity]. cbn [bind].
  now rewrite ser_nfields_fields.
Qed.
