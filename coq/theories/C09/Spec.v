(* C09/Spec.v — what the property says, independently of the derive macro and of the serializer:
   [dsig]           the D-Bus type a Rust type stands for (zvariant's documented mapping: structs and tuples are STRUCTs,
                    sequences ARRAYs, maps ARRAYs of DICT_ENTRY, newtypes are transparent, unit-only enums are their repr
                    integer / u32 / a string, data-carrying enums are (u, payload), dict-structs are a{sv}, an empty
                    struct is one byte);
   [dval_of_shape]  the D-Bus value a Rust value denotes;
   [typed]          the values of a type;
   [shape_ok]       the fragment for which the property is proved, and the decidable classes of type definitions for
                    which it fails on the pinned tree ([known_class]).
   "Bytes conform to signature g" means: they are [marshal] (DBus/Spec.v) of a well-formed value of signature g. *)
From ZV Require Import Base.Bytes Base.Res Base.Sig Base.Utf8 DBus.Val DBus.Spec DBus.Ser C09.Model.

Local Open Scope Z_scope.

(* ---------------- values of a type ---------------- *)
Definition prim_range (p : prim) : option (Z * Z) :=
  match p with
  | PU8 => Some (0, 256) | PI8 => Some (-128, 128) | PI16 => Some (-32768, 32768) | PU16 => Some (0, 65536)
  | PI32 => Some (-2147483648, 2147483648) | PU32 => Some (0, 4294967296)
  | PI64 | PIsize => Some (-9223372036854775808, 9223372036854775808)
  | PU64 | PUsize => Some (0, 18446744073709551616)
  | _ => None
  end.
Definition in_range_z (z lo hi : Z) : bool := (lo <=? z) && (z <? hi).
(* one Unicode scalar value: exactly one byte that is not a continuation byte *)
Definition one_char (s : bytes) : bool := Nat.eqb (length (filter (fun c => negb (cont c)) s)) 1.

Definition prim_typed (p : prim) (x : rval) : bool :=
  match p, x with
  | PBool, RBool _ => true
  | (PF32 | PF64), RF64 b => (b <? 18446744073709551616)%N
  | PStr, RStr s => str_ok s
  | PChar, RStr s => str_ok s && one_char s
  | _, RInt z => match prim_range p with Some (lo, hi) => in_range_z z lo hi | None => false end
  | _, _ => false
  end.

Fixpoint typed (sh : tshape) (x : rval) {struct sh} : bool :=
  let tup := fix go (ts : list tshape) (l : list rval) : bool :=
      match ts, l with
      | [], [] => true
      | t :: ts', y :: l' => typed t y && go ts' l'
      | _, _ => false
      end in
  let nam := fix go (fs : list (bytes * tshape)) (l : list rval) : bool :=
      match fs, l with
      | [], [] => true
      | (_, t) :: fs', y :: l' => typed t y && go fs' l'
      | _, _ => false
      end in
  match sh with
  | TPrim p => prim_typed p x
  | TUnit | TPhantom _ => match x with RUnit => true | _ => false end
  | TSeq t => match x with RList l => forallb (typed t) l | _ => false end
  | TMap k v => match x with RMap l => forallb (fun p => typed k (fst p) && typed v (snd p)) l | _ => false end
  | TOption t => match x with RNone => true | RSome y => typed t y | _ => false end
  | TTuple ts => match x with RList l => tup ts l | _ => false end
  | TNewtype t => typed t x
  | TStruct fs => match x with RList l => nam fs l | _ => false end
  | TUnitEnum _ ds => match x with REnum i [] => (i <? length ds)%nat | _ => false end
  | TStrEnum names => match x with REnum i [] => (i <? length names)%nat | _ => false end
  | TEnum vs =>
      match x with
      | REnum i l =>
          (fix pick (vs : list (vkind * list (bytes * tshape))) (k : nat) : bool :=
             match vs, k with
             | (_, fs) :: _, O => nam fs l
             | _ :: r, S k' => pick r k'
             | [], _ => false
             end) vs i
      | _ => false
      end
  | TDict _ fs =>
      match x with
      | RList l =>
          (fix go (fs : list (bytes * (bool * tshape))) (l : list rval) : bool :=
             match fs, l with
             | [], [] => true
             | (_, (opt, t)) :: fs', y :: l' =>
                 (if opt then match y with RNone => true | RSome z => typed t z | _ => false end else typed t y) && go fs' l'
             | _, _ => false
             end) fs l
      | _ => false
      end
  | TIpAddr =>
      match x with
      | REnum i [RList o] => forallb (prim_typed PU8) o
                             && match i with O => Nat.eqb (length o) 4 | S O => Nat.eqb (length o) 16 | _ => false end
      | _ => false
      end
  end.

(* ---------------- the D-Bus type of a Rust type ---------------- *)
Definition prim_dsig (p : prim) : sig :=
  match p with
  | PBool => SBool | PU8 => SU8 | PU16 => SU16 | PU32 => SU32 | PU64 | PUsize => SU64
  | PI8 | PI16 => SI16                (* D-Bus has no 8-bit signed type *)
  | PI32 => SI32 | PI64 | PIsize => SI64
  | PF32 | PF64 => SF64               (* nor a 32-bit float *)
  | PChar | PStr => SStr
  end.

Fixpoint dsig (sh : tshape) : sig :=
  let tsigs := fix go (ts : list tshape) : list sig := match ts with [] => [] | t :: r => dsig t :: go r end in
  let fsigs := fix go (fs : list (bytes * tshape)) : list sig := match fs with [] => [] | (_, t) :: r => dsig t :: go r end in
  match sh with
  | TPrim p => prim_dsig p
  | TUnit | TPhantom _ => SUnit       (* no D-Bus type: nothing is transmitted *)
  | TSeq t | TOption t => SArray (dsig t)
  | TMap k v => SDict (dsig k) (dsig v)
  | TTuple ts => SStruct (tsigs ts)
  | TNewtype t => dsig t
  | TStruct [] => SU8
  | TStruct fs => SStruct (fsigs fs)
  | TUnitEnum (Some r) _ => prim_dsig (repr_prim r)
  | TUnitEnum None _ => SU32
  | TStrEnum _ => SStr
  | TEnum ((KUnnamed, [(_, t)]) :: _) => SStruct [SU32; dsig t]        (* (variant number, payload) *)
  | TEnum ((_, fs) :: _) => SStruct [SU32; SStruct (fsigs fs)]
  | TEnum [] => SUnit
  | TDict _ _ => SDict SStr SVariant
  | TIpAddr => SStruct [SU32; SArray SU8]
  end.

(* ---------------- the D-Bus value a Rust value denotes ---------------- *)
Definition prim_dval (p : prim) (x : rval) : dval :=
  match p, x with
  | PBool, RBool b => VBool b
  | PU8, RInt z => VU8 (Z.to_N z) | (PI8 | PI16), RInt z => VI16 z | PU16, RInt z => VU16 (Z.to_N z)
  | PI32, RInt z => VI32 z | PU32, RInt z => VU32 (Z.to_N z)
  | (PI64 | PIsize), RInt z => VI64 z | (PU64 | PUsize), RInt z => VU64 (Z.to_N z)
  | (PF32 | PF64), RF64 b => VF64 b
  | (PChar | PStr), RStr s => VStr s
  | _, _ => VStruct []
  end.

Fixpoint dval_of_shape (sh : tshape) (x : rval) {struct sh} : dval :=
  let tup := fix go (ts : list tshape) (l : list rval) : list dval :=
      match ts, l with t :: ts', y :: l' => dval_of_shape t y :: go ts' l' | _, _ => [] end in
  let nam := fix go (fs : list (bytes * tshape)) (l : list rval) : list dval :=
      match fs, l with (_, t) :: fs', y :: l' => dval_of_shape t y :: go fs' l' | _, _ => [] end in
  match sh with
  | TPrim p => prim_dval p x
  | TUnit | TPhantom _ => VStruct []                (* not a D-Bus value *)
  | TSeq t => match x with RList l => VArray (dsig t) (map (dval_of_shape t) l) | _ => VStruct [] end
  | TMap k v => match x with
                | RMap l => VDict (dsig k) (dsig v) (map (fun p => (dval_of_shape k (fst p), dval_of_shape v (snd p))) l)
                | _ => VStruct []
                end
  | TOption t => match x with
                 | RNone => VArray (dsig t) []      (* option-as-array: zero or one element *)
                 | RSome y => VArray (dsig t) [dval_of_shape t y]
                 | _ => VStruct []
                 end
  | TTuple ts => match x with RList l => VStruct (tup ts l) | _ => VStruct [] end
  | TNewtype t => dval_of_shape t x
  | TStruct [] => VU8 0
  | TStruct fs => match x with RList l => VStruct (nam fs l) | _ => VStruct [] end
  | TUnitEnum r ds =>
      match x with
      | REnum i _ => match r with
                     | None => VU32 (N.of_nat i)
                     | Some r => prim_dval (repr_prim r) (RInt (nth i ds 0))
                     end
      | _ => VStruct []
      end
  | TStrEnum names => match x with REnum i _ => VStr (nth i names []) | _ => VStruct [] end
  | TEnum vs =>
      match x with
      | REnum i l =>
          (fix pick (vs : list (vkind * list (bytes * tshape))) (k : nat) : dval :=
             match vs, k with
             | (kd, fs) :: _, O =>
                 match kd, fs with
                 | KUnnamed, [(_, t)] => match l with y :: _ => VStruct [VU32 (N.of_nat i); dval_of_shape t y] | [] => VStruct [] end
                 | _, _ => VStruct [VU32 (N.of_nat i); VStruct (nam fs l)]
                 end
             | _ :: r, S k' => pick r k'
             | [], _ => VStruct []
             end) vs i
      | _ => VStruct []
      end
  | TDict rn fs =>
      match x with
      | RList l =>
          VDict SStr SVariant
            ((fix go (fs : list (bytes * (bool * tshape))) (l : list rval) : list (dval * dval) :=
                match fs, l with
                | (n, (opt, t)) :: fs', y :: l' =>
                    if opt then
                      match y with
                      | RSome z => (VStr (dict_key rn n), VVariant (dval_of_shape t z)) :: go fs' l'
                      | _ => go fs' l'
                      end
                    else (VStr (dict_key rn n), VVariant (dval_of_shape t y)) :: go fs' l'
                | _, _ => []
                end) fs l)
      | _ => VStruct []
      end
  | TIpAddr =>
      match x with
      | REnum i [RList o] => VStruct [VU32 (N.of_nat i); VArray SU8 (map (prim_dval PU8) o)]
      | _ => VStruct []
      end
  end.

(* ---------------- effects of serializing a type on a serializer shared with its siblings ---------------- *)
Definition inner_is_struct (g : sig) : bool := match g with SStruct [_; SStruct _] => true | _ => false end.

(* the serializer's signature cursor is intact afterwards *)
Fixpoint sig_clean (sh : tshape) : bool :=
  match sh with
  | TNewtype t => sig_clean t
  | TEnum _ => negb (inner_is_struct (sig_of sh))
  | _ => true
  end.
(* its container-depth counters are intact afterwards *)
Fixpoint dep_clean (sh : tshape) : bool :=
  match sh with
  | TNewtype t | TOption t => dep_clean t
  | TEnum _ => inner_is_struct (sig_of sh)
  | TIpAddr => false
  | _ => true
  end.

Fixpoint has_option (sh : tshape) : bool :=
  let inl := fix go (ts : list tshape) : bool := match ts with [] => false | t :: r => has_option t || go r end in
  let inf := fix go (fs : list (bytes * tshape)) : bool := match fs with [] => false | (_, t) :: r => has_option t || go r end in
  match sh with
  | TOption _ => true
  | TPhantom t | TSeq t | TNewtype t => has_option t
  | TMap k v => has_option k || has_option v
  | TTuple ts => inl ts
  | TStruct fs => inf fs
  | TEnum vs => (fix go (vs : list (vkind * list (bytes * tshape))) : bool :=
                   match vs with [] => false | (_, fs) :: r => inf fs || go r end) vs
  | TDict _ fs => (fix go (fs : list (bytes * (bool * tshape))) : bool :=
                     match fs with [] => false | (_, (_, t)) :: r => has_option t || go r end) fs
  | _ => false
  end.

(* ---------------- the fragment ---------------- *)
Definition nonempty {A} (l : list A) : bool := match l with [] => false | _ => true end.
Definition is_struct_sig (g : sig) : bool := match g with SStruct _ => true | _ => false end.
Definition repr_ok (r : option repr) (ds : list Z) : bool :=
  match r with
  | Some r => forallb (fun d => prim_typed (repr_prim r) (RInt d)) ds
  | None => (N.of_nat (length ds) <? 4294967296)%N
  end.

Fixpoint shape_ok (sh : tshape) : bool :=
  let inl := fix go (ts : list tshape) : bool := match ts with [] => true | t :: r => shape_ok t && go r end in
  let inf := fix go (fs : list (bytes * tshape)) : bool := match fs with [] => true | (_, t) :: r => shape_ok t && go r end in
  match sh with
  | TPrim _ => true
  | TUnit | TPhantom _ => false
  | TSeq t => shape_ok t && sig_clean t && dep_clean t
  | TMap k v => shape_ok k && is_basic (sig_of k) && sig_clean k && dep_clean k && shape_ok v && dep_clean v
  | TOption t => shape_ok t
  | TTuple ts => nonempty ts && inl ts
  | TNewtype t => shape_ok t
  | TStruct fs => inf fs
  | TUnitEnum r ds => nonempty ds && repr_ok r ds
  | TStrEnum names => nonempty names && forallb str_ok names
  | TEnum vs =>
      nonempty vs && (N.of_nat (length vs) <? 4294967296)%N
      && (fix go (vs : list (vkind * list (bytes * tshape))) : bool :=
            match vs with
            | [] => true
            | (k, fs) :: r =>
                nonempty fs && inf fs
                (* a newtype variant's payload is not itself a STRUCT *)
                && (match k, fs with KUnnamed, [(_, t)] => negb (is_struct_sig (sig_of t)) | _, _ => true end)
                (* impl_enum: "all variants must have the same number and type of fields" *)
                && sig_eqb (variant_sig (k, fs)) (sig_of sh)
                && go r
            end) vs
  | TDict rn fs =>
      (fix go (fs : list (bytes * (bool * tshape))) : bool :=
         match fs with
         | [] => true
         | (n, (o, t)) :: r =>
             shape_ok t && str_ok (dict_key rn n) && (len (show (sig_of t)) <=? 255)%N
             (* the derive decides "optional" by the field's type (macros::ty_is_option): a field of type Option<T> is always optional *)
             && (o || negb (match t with TOption _ => true | _ => false end))
             && go r
         end) fs
  | TIpAddr => true
  end.

(* ---------------- classes of type definitions for which the property fails on the pinned tree ---------------- *)
Inductive kclass := KNewtypeStructPayload | KEnumInSeq | KDepthLeak | KUnitInContainer | KPhantom.

Definition unit_sig (sh : tshape) : bool := match sig_of sh with SUnit => true | SStruct [] => true | _ => false end.

Section Exists.
  Variable P : tshape -> bool.
  (* some node of the type definition satisfies P *)
  Fixpoint anywhere (sh : tshape) : bool :=
    let inl := fix go (ts : list tshape) : bool := match ts with [] => false | t :: r => anywhere t || go r end in
    let inf := fix go (fs : list (bytes * tshape)) : bool := match fs with [] => false | (_, t) :: r => anywhere t || go r end in
    P sh ||
    match sh with
    | TPhantom t | TSeq t | TOption t | TNewtype t => anywhere t
    | TMap k v => anywhere k || anywhere v
    | TTuple ts => inl ts
    | TStruct fs => inf fs
    | TEnum vs => (fix go (vs : list (vkind * list (bytes * tshape))) : bool :=
                     match vs with [] => false | (_, fs) :: r => inf fs || go r end) vs
    | TDict _ fs => (fix go (fs : list (bytes * (bool * tshape))) : bool :=
                       match fs with [] => false | (_, (_, t)) :: r => anywhere t || go r end) fs
    | _ => false
    end.
End Exists.

(* a newtype variant `V(T)` whose payload T has a STRUCT signature *)
Definition k_newtype_struct_payload (sh : tshape) : bool :=
  match sh with
  | TEnum vs => existsb (fun v => match v with (KUnnamed, [(_, t)]) => is_struct_sig (sig_of t) | _ => false end) vs
  | _ => false
  end.
(* a sequence whose elements are (newtype wrappers of) a data-carrying enum with tuple / struct variants *)
Definition k_enum_in_seq (sh : tshape) : bool := match sh with TSeq t => negb (sig_clean t) | _ => false end.
(* a sequence element / map value that leaves the depth counter incremented (newtype variants, IpAddr) *)
Definition k_depth_leak (sh : tshape) : bool :=
  match sh with TSeq t => negb (dep_clean t) | TMap _ v => negb (dep_clean v) | _ => false end.
(* (), unit structs as element / key / value: the signature "a" / "a{..}" is not a D-Bus signature; aggregates of units: "()" *)
Definition k_unit_in_container (sh : tshape) : bool :=
  match sh with
  | TSeq t | TOption t => unit_sig t
  | TMap k v => unit_sig k || unit_sig v
  | TTuple ts => nonempty ts && forallb unit_sig ts
  | TStruct fs => nonempty fs && forallb (fun f => unit_sig (snd f)) fs
  | _ => false
  end.
Definition k_phantom (sh : tshape) : bool := match sh with TPhantom t => negb (unit_sig t) | _ => false end.

Definition known_class (sh : tshape) : option kclass :=
  if anywhere k_phantom sh then Some KPhantom
  else if anywhere k_unit_in_container sh then Some KUnitInContainer
  else if anywhere k_newtype_struct_payload sh then Some KNewtypeStructPayload
  else if anywhere k_enum_in_seq sh then Some KEnumInSeq
  else if anywhere k_depth_leak sh then Some KDepthLeak
  else None.
Definition Known_C09 (sh : tshape) : Prop := known_class sh <> None.

(* ---------- descriptions that are Rust programs accepted by the compiler and the derive macros ---------- *)
Fixpoint shape_wf (sh : tshape) : bool :=
  let inl := fix go (ts : list tshape) : bool := match ts with [] => true | t :: r => shape_wf t && go r end in
  let inf := fix go (fs : list (bytes * tshape)) : bool := match fs with [] => true | (_, t) :: r => shape_wf t && go r end in
  match sh with
  | TPrim _ | TUnit | TIpAddr => true
  | TPhantom t | TSeq t | TOption t | TNewtype t => shape_wf t
  | TMap k v => shape_wf k && shape_wf v
  | TTuple ts => nonempty ts && inl ts
  | TStruct fs => inf fs
  | TUnitEnum r ds => nonempty ds && repr_ok r ds
  | TStrEnum names => nonempty names
  | TEnum vs =>
      nonempty vs
      && (fix go (vs : list (vkind * list (bytes * tshape))) : bool :=
            match vs with
            | [] => true
            | (k, fs) :: r => nonempty fs && inf fs && sig_eqb (variant_sig (k, fs)) (sig_of sh) && go r
            end) vs
  | TDict _ fs =>
      (fix go (fs : list (bytes * (bool * tshape))) : bool :=
         match fs with
         | [] => true
         | (_, (o, t)) :: r => shape_wf t && (o || negb (match t with TOption _ => true | _ => false end)) && go r
         end) fs
  end.

(* ---------- the property, per type definition ---------- *)
Definition C09_statement (sh : tshape) : Prop :=
  sig_of sh = dsig sh /\ single_ok (sig_of sh) = true /\
  forall (c : cfg) (e : endian) (pos : N) (x : rval),
    typed sh x = true -> (has_option sh = true -> c_oaa c = true) ->
    within_limits (dval_of_shape sh x) = true -> (len (marshal_top e pos (dval_of_shape sh x)) < 2 ^ 32)%N ->
    wf (dval_of_shape sh x) = true /\ vsig (dval_of_shape sh x) = sig_of sh /\
    ser_top c e pos (sig_of sh) (sval_of_shape sh x) = Ok (marshal_top e pos (dval_of_shape sh x), []).
Definition C09_full_statement : Prop := forall sh, shape_wf sh = true -> C09_statement sh.
