(* C09/Main.v — data-carrying enums, and the induction over all type definitions. *)
From ZV Require Import Base.Bytes Base.Res Base.Sig Base.SigParse Base.SigParseFacts DBus.Val DBus.Spec DBus.Ser DBus.SerFacts DBus.SerProofs
  C09.Model C09.Spec C09.Facts C09.Comb C09.Unfold C09.Proofs.
From Coq Require Import Lia.
Local Open Scope N_scope.

Lemma inner_struct_2 a s : inner_is_struct (SStruct [a; s]) = is_struct_sig s.
Proof. destruct s; reflexivity. Qed.

Lemma variant_sig_cases (v : variant) :
  (exists n t, v = (KUnnamed, [(n, t)]) /\ variant_sig v = SStruct [SU32; sig_of t]) \/
  ((forall n t, v <> (KUnnamed, [(n, t)])) /\ variant_sig v = SStruct [SU32; SStruct (fsigs (snd v))]).
Proof.
  destruct v as [k fs]. destruct k.
  - destruct fs as [|[n t] [|f2 fr]].
    + right. split; [intros n t; discriminate|reflexivity].
    + left. exists n, t. split; reflexivity.
    + right. split; [intros n' t'; discriminate|reflexivity].
  - right. split; [intros n t; discriminate|reflexivity].
Qed.

Lemma Q_enum vs : Forall (fun v : variant => Forall (fun f => Q (snd f)) (snd v)) vs -> Q (TEnum vs).
Proof.
  intros HF Hok. rewrite ok_enum in Hok. apply andb_true_iff in Hok as [Hok Hall]. apply andb_true_iff in Hok as [Hne Hlen].
  apply N.ltb_lt in Hlen. set (g := sig_of (TEnum vs)) in *.
  set (o := has_option (TEnum vs)).
  assert (Ho : forall v : variant, In v vs -> forall f, In f (snd v) -> has_option (snd f) = true -> o = true).
  { intros v Hin f Hf Hopt. subst o. rewrite opt_enum. apply existsb_exists. exists v. split; [exact Hin|].
    unfold opt_fields. apply existsb_exists. now exists f. }
  clearbody o.
  (* what every variant gives *)
  assert (Hv : forall v : variant, In v vs ->
             variant_sig v = g /\ nonempty (snd v) = true /\
             (forall n t, v = (KUnnamed, [(n, t)]) -> is_struct_sig (sig_of t) = false) /\
             (forallb single_ok (fsigs (snd v)) = true /\ fsigs (snd v) = fdsigs (snd v)) /\
             forall l, ty_nam (snd v) l = true ->
               Forall2 (fun x d => okw o x d false false) (map snd (sv_nam (snd v) l)) (dv_nam (snd v) l) /\
               forallb wf (dv_nam (snd v) l) = true /\ map vsig (dv_nam (snd v) l) = fsigs (snd v) /\
               forallb enc_form (dv_nam (snd v) l) = true).
  { intros v Hin. rewrite forallb_forall in Hall. specialize (Hall v Hin). unfold ok_variant in Hall.
    apply andb_true_iff in Hall as [Hall Hsig]. apply andb_true_iff in Hall as [Hall Hnt]. apply andb_true_iff in Hall as [Hnev Hokf].
    rewrite Forall_forall in HF. specialize (HF v Hin).
    destruct (nam_facts o (snd v) HF Hokf (Ho v Hin)) as [Hs Hl].
    split; [now apply sig_eqb_eq|]. split; [exact Hnev|]. split; [|split; assumption].
    intros n t ->. cbn [fst snd] in Hnt. now apply negb_true_iff in Hnt. }
  destruct vs as [|v0 vr]; [discriminate|].
  split.
  { destruct (Hv v0 (or_introl eq_refl)) as (Hg & Hnev & Hnt & (Hs1 & Hs2) & _). rewrite <- Hg.
    destruct (variant_sig_cases v0) as [(n & t & -> & E)|[Hno E]]; rewrite E.
    - cbn [fsigs map snd forallb] in Hs1, Hs2. apply andb_true_iff in Hs1 as [Hs1 _]. injection Hs2 as Hs2.
      split; [cbn [single_ok forallb]; now rewrite Hs1|]. fold g. rewrite dsig_enum. cbn [first_variant_dsig]. now rewrite Hs2.
    - split; [cbn [single_ok forallb]; rewrite Hs1; destruct (snd v0); [discriminate|reflexivity]|].
      fold g. rewrite dsig_enum. destruct v0 as [k fs]. cbn [snd] in *. unfold first_variant_dsig.
      destruct k.
      + destruct fs as [|[n t] [|f2 fr]].
        * discriminate Hnev.
        * exfalso. exact (Hno n t eq_refl).
        * rewrite Hs2. reflexivity.
      + rewrite Hs2. reflexivity. }
  intros [| | | | | | | | |i l] Ht; try discriminate Ht. rewrite typed_enum in Ht. rewrite sval_enum, dval_enum. revert Ht.
  destruct (nth_error (v0 :: vr) i) as [v|] eqn:En; intros Ht; [|discriminate Ht].
  assert (Hin : In v (v0 :: vr)) by (eapply nth_error_In; exact En).
  assert (Hi : N.of_nat i < 4294967296).
  { assert (i < length (v0 :: vr))%nat by (apply nth_error_Some; congruence). cbn [length] in *. lia. }
  apply N.ltb_lt in Hi.
  destruct (Hv v Hin) as (Hg & Hnev & Hnt & (Hs1 & Hs2) & Hl). destruct (Hl l Ht) as (G1 & G2 & G3 & G4).
  assert (Edc : dep_clean (TEnum (v0 :: vr)) = inner_is_struct g) by reflexivity.
  assert (Esc : sig_clean (TEnum (v0 :: vr)) = negb (inner_is_struct g)) by reflexivity.
  rewrite Edc, Esc. clear Edc Esc.
  destruct (variant_sig_cases v) as [(n & t & -> & E)|[Hno E]].
  - (* newtype variant *)
    cbn [snd] in *. destruct l as [|y [|y2 l2]]; [discriminate Ht| |cbn [ty_nam] in Ht; rewrite andb_false_r in Ht; discriminate Ht].
    unfold variant_sval, variant_dval. cbn [fst snd sv_nam dv_nam map] in *.
    inversion G1 as [|? ? ? ? Hk _]; subst. apply andb_true_iff in G2 as [G2 _]. injection G3 as G3. apply andb_true_iff in G4 as [G4 _].
    rewrite <- Hg, E, inner_struct_2, (Hnt n t eq_refl). cbn [negb]. split.
    + unfold vfacts. cbn [wf vsig enc_form forallb map]. rewrite Hi, G2, G3, G4. repeat split. rewrite <- E. exact Hg.
    + apply newtype_variantx_ok; [rewrite G3; exact (Hnt n t eq_refl)|exact Hk].
  - (* tuple / struct variant *)
    rewrite <- Hg, E, inner_struct_2. cbn [is_struct_sig negb].
    assert (Hd : variant_dval i v l = VStruct [VU32 (N.of_nat i); VStruct (dv_nam (snd v) l)]).
    { destruct v as [k fs]. unfold variant_dval. cbn [fst snd]. destruct k; [|reflexivity].
      destruct fs as [|[n t] [|f2 fr]]; try reflexivity. exfalso. exact (Hno n t eq_refl). }
    rewrite Hd. split.
    + unfold vfacts. cbn [wf vsig enc_form forallb map]. rewrite Hi, G2, G3, G4.
      assert (Hnd : match dv_nam (snd v) l with [] => false | _ => true end = true).
      { destruct (snd v) as [|[n t] r]; [discriminate|]. destruct l; [discriminate|]. reflexivity. }
      rewrite Hnd. repeat split. rewrite <- E. exact Hg.
    + destruct v as [k fs]. unfold variant_sval. cbn [fst snd] in *. destruct k.
      * destruct fs as [|[n t] [|f2 fr]].
        -- discriminate Hnev.
        -- exfalso. exact (Hno n t eq_refl).
        -- now apply tuple_variantx_ok.
      * now apply struct_variantx_ok.
Qed.

Lemma Q_all : forall t, Q t.
Proof.
  induction t using tshape_ind'.
  - apply Q_prim.
  - intros H; discriminate H.
  - intros H'; discriminate H'.
  - now apply Q_seq.
  - now apply Q_map.
  - now apply Q_option.
  - now apply Q_tuple.
  - now apply Q_newtype.
  - now apply Q_struct.
  - apply Q_uenum.
  - apply Q_senum.
  - now apply Q_enum.
  - now apply Q_dict.
  - apply Q_ip.
Qed.
