(* C09/Run.v — line driver.
     <cfg> <idx> <pos> | <shape tokens> | <value tokens>
   cfg: "o" = option-as-array compiled in, "-" = not; idx: number of the generated Rust type (ignored here);
   model column:  S=<SIGNATURE>;L=<bytes LE>;B=<bytes BE>;V=<the LE bytes read back as a dynamic value>;R=<typed round trip>
   spec column :  the same line computed from the specification side (dsig / marshal / dval_of_shape), "NOTYPE" when the
                  Rust type has no D-Bus type at all, "-" when the case is outside what the specification constrains. *)
From ZV Require Import Base.Bytes Base.Res Base.Sig Base.SigParse DBus.Val DBus.Spec DBus.Ser DBus.De C09.Model C09.Spec.

Local Open Scope N_scope.

(* ---------------- shape syntax ---------------- *)
Definition prim_of_tok (t : bytes) : option prim :=
  if lbeq t (B "bool") then Some PBool else if lbeq t (B "u8") then Some PU8 else if lbeq t (B "i8") then Some PI8
  else if lbeq t (B "i16") then Some PI16 else if lbeq t (B "u16") then Some PU16 else if lbeq t (B "i32") then Some PI32
  else if lbeq t (B "u32") then Some PU32 else if lbeq t (B "i64") then Some PI64 else if lbeq t (B "u64") then Some PU64
  else if lbeq t (B "f32") then Some PF32 else if lbeq t (B "f64") then Some PF64 else if lbeq t (B "usize") then Some PUsize
  else if lbeq t (B "isize") then Some PIsize else if lbeq t (B "char") then Some PChar else if lbeq t (B "str") then Some PStr
  else None.
Definition repr_of_tok (t : bytes) : option (option repr) :=
  if lbeq t (B "-") then Some None
  else if lbeq t (B "u8") then Some (Some RU8) else if lbeq t (B "u16") then Some (Some RU16)
  else if lbeq t (B "u32") then Some (Some RU32) else if lbeq t (B "u64") then Some (Some RU64)
  else if lbeq t (B "i8") then Some (Some RI8) else if lbeq t (B "i16") then Some (Some RI16)
  else if lbeq t (B "i32") then Some (Some RI32) else if lbeq t (B "i64") then Some (Some RI64)
  else None.
Definition rename_of_tok (t : bytes) : option rename :=
  if lbeq t (B "-") then Some RnNone else if lbeq t (B "lowercase") then Some RnLower
  else if lbeq t (B "UPPERCASE") then Some RnUpper else if lbeq t (B "PascalCase") then Some RnPascal
  else if lbeq t (B "camelCase") then Some RnCamel else if lbeq t (B "snake_case") then Some RnSnake
  else if lbeq t (B "kebab-case") then Some RnKebab else None.

Definition omap {A B} (o : option A) (f : A -> B) : option B := option_map f o.
Definition natN (t : bytes) : option nat := option_map N.to_nat (N_of_dec t).

Fixpoint parse_shape (fuel : nat) (ts : list bytes) {struct fuel} : option (tshape * list bytes) :=
  match fuel with
  | O => None
  | S f =>
      let one (k : tshape -> tshape) (r : list bytes) := option_map (fun '(t, r') => (k t, r')) (parse_shape f r) in
      let many := fix go (n : nat) (r : list bytes) : option (list tshape * list bytes) :=
          match n with
          | O => Some ([], r)
          | S n' => match parse_shape f r with
                    | Some (t, r1) => option_map (fun '(l, r2) => (t :: l, r2)) (go n' r1)
                    | None => None
                    end
          end in
      let named := fix go (n : nat) (r : list bytes) : option (list (bytes * tshape) * list bytes) :=
          match n with
          | O => Some ([], r)
          | S n' => match r with
                    | nm :: r0 => match parse_shape f r0 with
                                  | Some (t, r1) => option_map (fun '(l, r2) => ((nm, t) :: l, r2)) (go n' r1)
                                  | None => None
                                  end
                    | [] => None
                    end
          end in
      match ts with
      | [] => None
      | t :: r =>
          match prim_of_tok t with
          | Some p => Some (TPrim p, r)
          | None =>
              if lbeq t (B "unit") || lbeq t (B "ustruct") then Some (TUnit, r)
              else if lbeq t (B "ph") then one TPhantom r
              else if lbeq t (B "vec") || lbeq t (B "deq") || lbeq t (B "lst") then one TSeq r
              else if lbeq t (B "opt") then one TOption r
              else if lbeq t (B "nt") || lbeq t (B "wrap") || lbeq t (B "rev") || lbeq t (B "box") || lbeq t (B "cell") then one TNewtype r
              else if lbeq t (B "map") || lbeq t (B "hmap") then
                match parse_shape f r with
                | Some (k, r1) => option_map (fun '(v, r2) => (TMap k v, r2)) (parse_shape f r1)
                | None => None
                end
              else if lbeq t (B "tup") || lbeq t (B "ts") then
                match r with
                | c :: r0 => match natN c with
                             | Some n => option_map (fun '(l, r1) => (TTuple l, r1)) (many n r0)
                             | None => None
                             end
                | [] => None
                end
              else if lbeq t (B "arr") then
                match r with
                | c :: r0 => match natN c with
                             | Some n => option_map (fun '(e, r1) => (TArrayN n e, r1)) (parse_shape f r0)
                             | None => None
                             end
                | [] => None
                end
              else if lbeq t (B "st") then
                match r with
                | c :: r0 => match natN c with
                             | Some n => option_map (fun '(l, r1) => (TStruct l, r1)) (named n r0)
                             | None => None
                             end
                | [] => None
                end
              else if lbeq t (B "uenum") then
                match r with
                | rp :: c :: r0 =>
                    match repr_of_tok rp, natN c with
                    | Some rr, Some n =>
                        let ds := map (fun d => match Z_of_dec d with Some z => z | None => 0%Z end) (firstn n r0) in
                        if Nat.eqb (length (firstn n r0)) n then Some (TUnitEnum rr ds, skipn n r0) else None
                    | _, _ => None
                    end
                | _ => None
                end
              else if lbeq t (B "senum") then
                match r with
                | c :: r0 => match natN c with
                             | Some n => if Nat.eqb (length (firstn n r0)) n then Some (TStrEnum (firstn n r0), skipn n r0) else None
                             | None => None
                             end
                | [] => None
                end
              else if lbeq t (B "enum") then
                match r with
                | c :: r0 =>
                    match natN c with
                    | Some n =>
                        omap ((fix go (n : nat) (r : list bytes) : option (list (vkind * list (bytes * tshape)) * list bytes) :=
                           match n with
                           | O => Some ([], r)
                           | S n' =>
                               match r with
                               | kd :: m :: r1 =>
                                   match natN m with
                                   | Some m' =>
                                       match named m' r1 with
                                       | Some (fs, r2) =>
                                           option_map (fun '(l, r3) => ((if lbeq kd (B "n") then KNamed else KUnnamed, fs) :: l, r3)) (go n' r2)
                                       | None => None
                                       end
                                   | None => None
                                   end
                               | _ => None
                               end
                           end) n r0
 ) (fun '(l, r1) => (TEnum l, r1))
                    | None => None
                    end
                | [] => None
                end
              else if lbeq t (B "dict") then
                match r with
                | rn :: c :: r0 =>
                    match rename_of_tok rn, natN c with
                    | Some rn', Some n =>
                        omap ((fix go (n : nat) (r : list bytes) : option (list (bytes * (bool * tshape)) * list bytes) :=
                           match n with
                           | O => Some ([], r)
                           | S n' =>
                               match r with
                               | nm :: o :: r1 =>
                                   match parse_shape f r1 with
                                   | Some (t', r2) => option_map (fun '(l, r3) => ((nm, (lbeq o (B "1"), t')) :: l, r3)) (go n' r2)
                                   | None => None
                                   end
                               | _ => None
                               end
                           end) n r0
 ) (fun '(l, r1) => (TDict rn' l, r1))
                    | _, _ => None
                    end
                | _ => None
                end
              else if lbeq t (B "ip") then Some (TIpAddr, r)
              else if lbeq t (B "dur") then Some (TDuration, r)
              else if lbeq t (B "systime") then Some (TSystemTime, r)
              else if lbeq t (B "ip4") then Some (TIpv4, r)
              else if lbeq t (B "ip6") then Some (TIpv6, r)
              else if lbeq t (B "sock4") then Some (TSockV4, r)
              else if lbeq t (B "sock6") then Some (TSockV6, r)
              else if lbeq t (B "range") then one TRange r
              else if lbeq t (B "rangeincl") then one TRangeInclusive r
              else if lbeq t (B "rangefrom") then one TRangeFrom r
              else if lbeq t (B "rangeto") then one TRangeTo r
              else None
          end
      end
  end.

(* ---------------- value syntax (directed by the shape) ---------------- *)
Definition prim_parse (p : prim) (ts : list bytes) : option (rval * list bytes) :=
  match ts with
  | [] => None
  | t :: r =>
      match p with
      | PBool => option_map (fun n => (RBool (negb (N.eqb n 0)), r)) (N_of_dec t)
      | PF32 | PF64 => option_map (fun n => (RF64 n, r)) (N_of_hex t)
      | PChar | PStr => option_map (fun s => (RStr s, r)) (hexs t)
      | _ => option_map (fun z => (RInt z, r)) (Z_of_dec t)
      end
  end.

Fixpoint parse_rval (sh : tshape) (ts : list bytes) {struct sh} : option (rval * list bytes) :=
  let tup := fix go (shs : list tshape) (r : list bytes) : option (list rval * list bytes) :=
      match shs with
      | [] => Some ([], r)
      | t :: shs' => match parse_rval t r with
                     | Some (y, r1) => option_map (fun '(l, r2) => (y :: l, r2)) (go shs' r1)
                     | None => None
                     end
      end in
  let nam := fix go (fs : list (bytes * tshape)) (r : list bytes) : option (list rval * list bytes) :=
      match fs with
      | [] => Some ([], r)
      | (_, t) :: fs' => match parse_rval t r with
                         | Some (y, r1) => option_map (fun '(l, r2) => (y :: l, r2)) (go fs' r1)
                         | None => None
                         end
      end in
  match sh with
  | TPrim p => prim_parse p ts
  | TUnit | TPhantom _ => Some (RUnit, ts)
  | TSeq t =>
      match ts with
      | c :: r => match natN c with
                  | Some n => omap ((fix go (n : nat) (r : list bytes) : option (list rval * list bytes) :=
                                 match n with
                                 | O => Some ([], r)
                                 | S n' => match parse_rval t r with
                                           | Some (y, r1) => option_map (fun '(l, r2) => (y :: l, r2)) (go n' r1)
                                           | None => None
                                           end
                                 end) n r
 ) (fun '(l, r1) => (RList l, r1))
                  | None => None
                  end
      | [] => None
      end
  | TMap k v =>
      match ts with
      | c :: r => match natN c with
                  | Some n => omap ((fix go (n : nat) (r : list bytes) : option (list (rval * rval) * list bytes) :=
                                 match n with
                                 | O => Some ([], r)
                                 | S n' => match parse_rval k r with
                                           | Some (a, r1) =>
                                               match parse_rval v r1 with
                                               | Some (b, r2) => option_map (fun '(l, r3) => ((a, b) :: l, r3)) (go n' r2)
                                               | None => None
                                               end
                                           | None => None
                                           end
                                 end) n r
 ) (fun '(l, r1) => (RMap l, r1))
                  | None => None
                  end
      | [] => None
      end
  | TOption t =>
      match ts with
      | c :: r => if lbeq c (B "0") then Some (RNone, r)
                  else option_map (fun '(y, r1) => (RSome y, r1)) (parse_rval t r)
      | [] => None
      end
  | TTuple shs => option_map (fun '(l, r) => (RList l, r)) (tup shs ts)
  | TNewtype t => parse_rval t ts
  | TStruct fs => option_map (fun '(l, r) => (RList l, r)) (nam fs ts)
  | TUnitEnum _ _ | TStrEnum _ =>
      match ts with c :: r => option_map (fun n => (REnum n [], r)) (natN c) | [] => None end
  | TEnum vs =>
      match ts with
      | c :: r =>
          match natN c with
          | Some i =>
              (fix pick (vs : list (vkind * list (bytes * tshape))) (k : nat) : option (rval * list bytes) :=
                 match vs, k with
                 | (_, fs) :: _, O => option_map (fun '(l, r1) => (REnum i l, r1)) (nam fs r)
                 | _ :: vs', S k' => pick vs' k'
                 | [], _ => None
                 end) vs i
          | None => None
          end
      | [] => None
      end
  | TDict _ fs =>
      omap ((fix go (fs : list (bytes * (bool * tshape))) (r : list bytes) : option (list rval * list bytes) :=
         match fs with
         | [] => Some ([], r)
         | (_, (opt, t)) :: fs' =>
             let field :=
               if opt then
                 match r with
                 | c :: r0 => if lbeq c (B "0") then Some (RNone, r0)
                              else option_map (fun '(y, r1) => (RSome y, r1)) (parse_rval t r0)
                 | [] => None
                 end
               else parse_rval t r in
             match field with
             | Some (y, r1) => option_map (fun '(l, r2) => (y :: l, r2)) (go fs' r1)
             | None => None
             end
         end) fs ts
 ) (fun '(l, r) => (RList l, r))
  | TIpAddr =>
      match ts with
      | c :: r =>
          match natN c with
          | Some i =>
              let n := match i with O => 4%nat | _ => 16%nat end in
              let os := firstn n r in
              if Nat.eqb (length os) n
              then Some (REnum i [RList (map (fun d => match Z_of_dec d with Some z => RInt z | None => RUnit end) os)], skipn n r)
              else None
          | None => None
          end
      | [] => None
      end
  end.

(* ---------------- observations ---------------- *)
Definition semi : bytes := B ";".
Definition err_tok (e : cerr) : bytes := match e with EDepth _ => B "ERR:D" | _ => B "ERR" end.
Definition bytes_obs (r : res cerr (bytes * list N)) : bytes :=
  match r with Ok (b, _) => hext b | Err e => err_tok e | Panic _ => B "PANIC" end.

(* the bytes, preceded by the header of a VARIANT carrying the declared signature, read by the dynamic decoder:
   the header is placed so that the value starts at a position congruent to pos modulo 8 *)
Definition read_back (c : cfg) (pos : N) (g : sig) (b : bytes) : bytes :=
  let s := show g in
  if (len s =? 0) || (255 <? len s) then dash
  else
    let q := ((pos mod 8) + 264 - (len s + 2)) mod 8 in
    let hdr := nb (len s) :: s ++ [x00] in
    match de_value_top c LE q (hdr ++ b) [] with
    | Ok (v, n) => if (n =? len hdr + len b) then val_text (canon v) else B "ERR:LEN"
    | Err _ => B "ERR"
    | Panic _ => B "PANIC"
    end.

Definition class_tok (k : option kclass) : bytes :=
  match k with
  | None => dash
  | Some KNewtypeStructPayload => B "newtype_variant_struct_payload"
  | Some KEnumInSeq => B "enum_in_seq_signature"
  | Some KDepthLeak => B "newtype_variant_depth_leak"
  | Some KUnitInContainer => B "unit_in_container"
  | Some KPhantom => B "phantom_data"
  end.

Definition unitlike (sh : tshape) : bool := match sh with TUnit | TPhantom _ => true | _ => false end.

Definition line_of (s : bytes) (l b v r : bytes) : bytes :=
  B "S=" ++ s ++ semi ++ B "L=" ++ l ++ semi ++ B "B=" ++ b ++ semi ++ B "V=" ++ v ++ semi ++ B "R=" ++ r.

Definition run_case (line : bytes) : outp :=
  match words line with
  | cf :: _idx :: p :: bar :: rest =>
      match N_of_dec p, parse_shape (2 * length rest + 2) rest with
      | Some pos, Some (sh, bar2 :: vts) =>
          match parse_rval sh vts with
          | Some (x, []) =>
              let c := {| c_gv := false; c_oaa := lbeq cf (B "o") |} in
              let g := sig_of sh in
              let xs := sval_of_shape sh x in
              let rl := ser_top c LE pos g xs in
              let rb := ser_top c BE pos g xs in
              let v := match rl with Ok (b, _) => read_back c pos g b | _ => dash end in
              let r := match rl with Ok _ => if shape_ok sh then B "T" else B "?" | _ => dash end in
              let m := line_of (sig_tok g) (bytes_obs rl) (bytes_obs rb) v r in
              let s :=
                if anywhere unitlike sh then B "NOTYPE"
                else
                  let d := dval_of_shape sh x in
                  if typed sh x && wf d && within_limits d && (len (marshal_top LE pos d) <? 2 ^ 32)
                     && (negb (has_option sh) || c_oaa c)
                  then line_of (sig_tok (dsig sh)) (hext (marshal_top LE pos d)) (hext (marshal_top BE pos d))
                               (val_text (canon d)) (B "T")
                  else dash in
              {| o_model := m; o_spec := s; o_class := class_tok (known_class sh) |}
          | _ => bad_case
          end
      | _, _ => bad_case
      end
  | _ => bad_case
  end.

Definition run (line : bytes) : bytes := render (run_case line).
