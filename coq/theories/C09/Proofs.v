(* C09/Proofs.v — for every type definition of the fragment and every value of it: the declared signature is the D-Bus type
   of the type, the denoted D-Bus value is well-formed and of that signature, and what serde feeds the serializer
   produces exactly the specification's marshalling of that value. *)
From ZV Require Import Base.Bytes Base.Res Base.Sig Base.SigParse Base.SigParseFacts DBus.Val DBus.Spec DBus.Ser DBus.SerFacts DBus.SerProofs
  C09.Model C09.Spec C09.Facts C09.Comb C09.Unfold.
From Coq Require Import Lia.
Local Open Scope N_scope.

Lemma sig_eqb_refl : forall g, sig_eqb g g = true.
Proof.
  induction g using sig_ind'; cbn; try reflexivity; auto.
  - now rewrite IHg1, IHg2.
  - induction H as [|x l Hx Hl IH]; [reflexivity|]. now rewrite Hx, IH.
Qed.

Lemma okw_ext o x x' v dc sc : (forall st, s_sig st = vsig v -> ser x st = ser x' st) -> okw o x' v dc sc -> okw o x v dc sc.
Proof. intros He H st H1 H2 H3 H4 H5 H6 H7. rewrite (He st H2). now apply H. Qed.

(* ---------- primitives ---------- *)
Lemma prim_sig_ok p : single_ok (prim_sig p) = true /\ is_basic (prim_sig p) = true /\ prim_sig p = prim_dsig p.
Proof. destruct p; repeat split; reflexivity. Qed.

Lemma prim_ser p x st : prim_typed p x = true -> ser (prim_sval p x) st = ser (sval_of (prim_dval p x)) st.
Proof. destruct p, x; cbn; try discriminate; reflexivity. Qed.

Lemma prim_facts p x : prim_typed p x = true ->
  wf (prim_dval p x) = true /\ vsig (prim_dval p x) = prim_sig p /\ enc_form (prim_dval p x) = true.
Proof.
  intros Ht. destruct p, x; cbn in Ht; try discriminate; cbn [prim_dval wf vsig prim_sig enc_form]; repeat split; try reflexivity;
    try exact Ht;
    try (unfold in_range_z in Ht; apply andb_true_iff in Ht as [H1 H2]; apply Z.leb_le in H1; apply Z.ltb_lt in H2;
         first [apply N.ltb_lt; lia | apply andb_true_iff; split; [apply Z.leb_le|apply Z.ltb_lt]; lia]).
  - now apply andb_true_iff in Ht as [Ht _].
Qed.

Lemma prim_okw o p x dc sc : prim_typed p x = true -> okw o (prim_sval p x) (prim_dval p x) dc sc.
Proof.
  intros Ht. destruct (prim_facts p x Ht) as (_ & _ & He).
  eapply okw_ext; [intros st _; apply prim_ser; exact Ht|]. now apply okw_dyn.
Qed.

(* ---------- the statement proved by induction on the type definition ---------- *)
Definition vfacts (t : tshape) (d : dval) : Prop := wf d = true /\ vsig d = sig_of t /\ enc_form d = true.
Definition Q (t : tshape) : Prop :=
  shape_ok t = true ->
  (single_ok (sig_of t) = true /\ sig_of t = dsig t) /\
  forall x, typed t x = true ->
    vfacts t (dval_of_shape t x) /\
    okw (has_option t) (sval_of_shape t x) (dval_of_shape t x) (dep_clean t) (sig_clean t).

(* lists of fields: every field in its own sub-serializer *)
Lemma tup_facts o ts : Forall Q ts -> ok_list ts = true -> (forall t, In t ts -> has_option t = true -> o = true) ->
  (forallb single_ok (map sig_of ts) = true /\ map sig_of ts = map dsig ts) /\
  forall l, ty_tup ts l = true ->
    Forall2 (fun x v => okw o x v false false) (sv_tup ts l) (dv_tup ts l) /\
    forallb wf (dv_tup ts l) = true /\ map vsig (dv_tup ts l) = map sig_of ts /\ forallb enc_form (dv_tup ts l) = true.
Proof.
  induction 1 as [|t ts Ht Hts IH]; intros Hok Ho.
  - split; [split; reflexivity|]. intros [|y l] Hty; [|discriminate]. cbn. repeat split; constructor.
  - cbn [ok_list forallb] in Hok. apply andb_true_iff in Hok as [Hokt Hok].
    destruct (Ht Hokt) as [[Hs1 Hs2] Hx].
    destruct (IH Hok (fun t' Hin => Ho t' (or_intror Hin))) as [[Hl1 Hl2] Hl].
    split; [split; cbn [map forallb]; [now rewrite Hs1, Hl1|now rewrite Hs2, Hl2]|].
    intros [|y l] Hty; [discriminate|]. cbn [ty_tup] in Hty. apply andb_true_iff in Hty as [Hty1 Hty2].
    destruct (Hx y Hty1) as [(F1 & F2 & F3) Hk]. destruct (Hl l Hty2) as (G1 & G2 & G3 & G4).
    cbn [sv_tup dv_tup map forallb]. rewrite F1, F2, F3, G2, G3, G4. repeat split.
    constructor; [|exact G1].
    eapply okw_oaa; [eapply okw_weaken; [exact Hk|discriminate|discriminate]|]. apply Ho. now left.
Qed.

Lemma nam_facts o fs : Forall (fun f => Q (snd f)) fs -> ok_fields fs = true ->
  (forall f, In f fs -> has_option (snd f) = true -> o = true) ->
  (forallb single_ok (fsigs fs) = true /\ fsigs fs = fdsigs fs) /\
  forall l, ty_nam fs l = true ->
    Forall2 (fun x v => okw o x v false false) (map snd (sv_nam fs l)) (dv_nam fs l) /\
    forallb wf (dv_nam fs l) = true /\ map vsig (dv_nam fs l) = fsigs fs /\ forallb enc_form (dv_nam fs l) = true.
Proof.
  induction 1 as [|[n t] fs Ht Hts IH]; intros Hok Ho.
  - split; [split; reflexivity|]. intros [|y l] Hty; [|discriminate]. cbn. repeat split; constructor.
  - cbn [ok_fields forallb snd] in Hok. apply andb_true_iff in Hok as [Hokt Hok]. cbn [snd] in Ht.
    destruct (Ht Hokt) as [[Hs1 Hs2] Hx].
    destruct (IH Hok (fun f Hin => Ho f (or_intror Hin))) as [[Hl1 Hl2] Hl].
    split; [split; unfold fsigs, fdsigs in *; cbn [map forallb snd]; [now rewrite Hs1, Hl1|now rewrite Hs2, Hl2]|].
    intros [|y l] Hty; [discriminate|]. cbn [ty_nam] in Hty. apply andb_true_iff in Hty as [Hty1 Hty2].
    destruct (Hx y Hty1) as [(F1 & F2 & F3) Hk]. destruct (Hl l Hty2) as (G1 & G2 & G3 & G4).
    unfold fsigs in *. cbn [sv_nam dv_nam map forallb snd]. rewrite F1, F2, F3, G2, G3, G4. repeat split.
    constructor; [|exact G1].
    eapply okw_oaa; [eapply okw_weaken; [exact Hk|discriminate|discriminate]|]. apply (Ho (n, t)). now left.
Qed.

Lemma map_length_nonempty {A B} (f : A -> B) l : nonempty l = true -> match map f l with [] => false | _ => true end = true.
Proof. destruct l; [discriminate|reflexivity]. Qed.

(* ---------- one lemma per constructor ---------- *)
Lemma Q_prim p : Q (TPrim p).
Proof.
  intros _. destruct (prim_sig_ok p) as (H1 & _ & H3). split; [split; assumption|].
  intros x Ht. cbn [typed] in Ht. split; [exact (prim_facts p x Ht)|]. now apply prim_okw.
Qed.

Lemma Q_newtype t : Q t -> Q (TNewtype t).
Proof. intros H Hok. exact (H Hok). Qed.

Lemma Q_seq t : Q t -> Q (TSeq t).
Proof.
  intros H Hok. cbn [shape_ok] in Hok. apply andb_true_iff in Hok as [Hok Hdc]. apply andb_true_iff in Hok as [Hok Hsc].
  destruct (H Hok) as [[Hs1 Hs2] Hx]. split; [split; cbn [sig_of dsig single_ok]; [exact Hs1|now rewrite Hs2]|].
  intros [| | | | |l| | | |] Ht; try discriminate Ht. cbn [typed] in Ht. cbn [dval_of_shape sval_of_shape].
  assert (HF : Forall2 (fun x v => okw (has_option t) x v true true) (map (sval_of_shape t) l) (map (dval_of_shape t) l)
               /\ forallb (fun x => wf x && sig_eqb (vsig x) (dsig t)) (map (dval_of_shape t) l) = true
               /\ forallb enc_form (map (dval_of_shape t) l) = true).
  { induction l as [|y l IH]; [repeat split; constructor|].
    cbn [forallb] in Ht. apply andb_true_iff in Ht as [Hy Hl]. destruct (IH Hl) as (A & B & C).
    destruct (Hx y Hy) as [(F1 & F2 & F3) Hk]. rewrite Hdc, Hsc in Hk.
    cbn [map forallb]. rewrite F1, F2, F3, B, C, Hs2, sig_eqb_refl. repeat split. now constructor. }
  destruct HF as (A & B & C). split.
  - unfold vfacts. cbn [wf vsig enc_form sig_of]. rewrite <- Hs2, Hs1, Hs2, B, C. repeat split.
  - cbn [has_option dep_clean sig_clean]. now apply seqx_ok.
Qed.

Lemma Q_option t : Q t -> Q (TOption t).
Proof.
  intros H Hok. cbn [shape_ok] in Hok. destruct (H Hok) as [[Hs1 Hs2] Hx].
  split; [split; cbn [sig_of dsig single_ok]; [exact Hs1|now rewrite Hs2]|].
  intros x Ht. cbn [has_option dep_clean sig_clean]. destruct x; try discriminate Ht; cbn [typed] in Ht; cbn [dval_of_shape sval_of_shape].
  - split; [unfold vfacts; cbn [wf vsig enc_form sig_of forallb]; rewrite <- Hs2, Hs1; repeat split; reflexivity|].
    eapply okw_weaken; [apply nonex_ok|reflexivity|reflexivity].
  - destruct (Hx x Ht) as [(F1 & F2 & F3) Hk]. split.
    + unfold vfacts. cbn [wf vsig enc_form sig_of forallb]. rewrite F1, F2, F3, <- Hs2, Hs1, sig_eqb_refl. repeat split; reflexivity.
    + eapply somex_ok. exact Hk.
Qed.

Lemma Q_map k v : Q k -> Q v -> Q (TMap k v).
Proof.
  intros Hk Hv Hok. cbn [shape_ok] in Hok.
  apply andb_true_iff in Hok as [Hok Hvd]. apply andb_true_iff in Hok as [Hok Hvok].
  apply andb_true_iff in Hok as [Hok Hkd]. apply andb_true_iff in Hok as [Hok Hks]. apply andb_true_iff in Hok as [Hkok Hkb].
  destruct (Hk Hkok) as [[Ks1 Ks2] Kx]. destruct (Hv Hvok) as [[Vs1 Vs2] Vx].
  split; [split; cbn [sig_of dsig single_ok]; [now rewrite Hkb, Vs1|now rewrite Ks2, Vs2]|].
  intros [| | | | | |l| | |] Ht; try discriminate Ht. cbn [typed] in Ht. cbn [dval_of_shape sval_of_shape].
  set (o := has_option (TMap k v)).
  assert (HF : Forall2 (fun x p => okw o (fst x) (fst p) true true /\ okw o (snd x) (snd p) true false)
                 (map (fun p => (sval_of_shape k (fst p), sval_of_shape v (snd p))) l)
                 (map (fun p => (dval_of_shape k (fst p), dval_of_shape v (snd p))) l)
               /\ forallb (fun p => wf (fst p) && wf (snd p) && sig_eqb (vsig (fst p)) (dsig k) && sig_eqb (vsig (snd p)) (dsig v))
                    (map (fun p => (dval_of_shape k (fst p), dval_of_shape v (snd p))) l) = true
               /\ forallb (fun p => enc_form (fst p) && enc_form (snd p)) (map (fun p => (dval_of_shape k (fst p), dval_of_shape v (snd p))) l) = true).
  { induction l as [|[a b] l IH]; [repeat split; constructor|].
    cbn [forallb fst snd] in Ht. apply andb_true_iff in Ht as [Hy Hl]. apply andb_true_iff in Hy as [Ha Hb]. destruct (IH Hl) as (A & B & C).
    destruct (Kx a Ha) as [(F1 & F2 & F3) Kk]. destruct (Vx b Hb) as [(G1 & G2 & G3) Vk]. rewrite Hkd, Hks in Kk. rewrite Hvd in Vk.
    cbn [map forallb fst snd]. rewrite F1, F2, F3, G1, G2, G3, B, C, Ks2, Vs2, !sig_eqb_refl. repeat split.
    constructor; [|exact A]. cbn [fst snd]. split.
    - eapply okw_oaa; [exact Kk|]. subst o. cbn [has_option]. intros ->. reflexivity.
    - eapply okw_oaa; [eapply okw_weaken; [exact Vk|reflexivity|discriminate]|]. subst o. cbn [has_option]. intros ->. apply orb_true_r. }
  destruct HF as (A & B & C). split.
  - unfold vfacts. cbn [wf vsig enc_form sig_of]. rewrite <- Ks2, Hkb, <- Vs2, Vs1, Ks2, Vs2, B, C. repeat split.
  - cbn [dep_clean sig_clean]. now apply mapx_ok.
Qed.

Lemma Q_tuple ts : Forall Q ts -> Q (TTuple ts).
Proof.
  intros HF Hok. rewrite ok_tuple in Hok. apply andb_true_iff in Hok as [Hne Hok].
  destruct (tup_facts (has_option (TTuple ts)) ts HF Hok) as [[Hs1 Hs2] Hl].
  { intros t Hin Ht. rewrite opt_tuple. apply existsb_exists. now exists t. }
  split; [split; rewrite sig_tuple, ?dsig_tuple; [cbn [single_ok]; now rewrite Hs1, map_length_nonempty|now rewrite Hs2]|].
  intros [| | | | |l| | | |] Ht; try discriminate Ht. rewrite typed_tuple in Ht. rewrite sval_tuple, dval_tuple.
  destruct (Hl l Ht) as (G1 & G2 & G3 & G4). split.
  - unfold vfacts. rewrite sig_tuple. cbn [wf vsig enc_form]. rewrite G2, G3, G4. repeat split.
    destruct ts; [discriminate|]. destruct l; [discriminate|]. reflexivity.
  - cbn [dep_clean sig_clean]. now apply tuplex_ok.
Qed.

Lemma Q_struct fs : Forall (fun f => Q (snd f)) fs -> Q (TStruct fs).
Proof.
  intros HF Hok. rewrite ok_struct in Hok.
  destruct (nam_facts (has_option (TStruct fs)) fs HF Hok) as [[Hs1 Hs2] Hl].
  { intros f Hin Ht. rewrite opt_struct. apply existsb_exists. now exists f. }
  rewrite sig_struct, dsig_struct.
  destruct fs as [|f fs].
  - split; [split; reflexivity|]. intros [| | | | |l| | | |] Ht; try discriminate Ht. rewrite typed_struct in Ht.
    destruct l; [|discriminate]. split; [repeat split|]. cbn [dep_clean sig_clean]. apply empty_struct_ok.
  - split; [split; [cbn [single_ok]; rewrite Hs1; reflexivity|now rewrite Hs2]|].
    intros [| | | | |l| | | |] Ht; try discriminate Ht. rewrite typed_struct in Ht. rewrite sval_struct, dval_struct.
    destruct (Hl l Ht) as (G1 & G2 & G3 & G4). split.
    + unfold vfacts. rewrite sig_struct. cbn [wf vsig enc_form]. rewrite G2, G3, G4. repeat split.
      destruct f as [n t]. destruct l; [discriminate|]. reflexivity.
    + cbn [dep_clean sig_clean]. now apply namedx_ok.
Qed.

Lemma nth_In_lt {A} (l : list A) i d : (i < length l)%nat -> In (nth i l d) l.
Proof. intros H. now apply nth_In. Qed.

Lemma Q_uenum r ds : Q (TUnitEnum r ds).
Proof.
  intros Hok. cbn [shape_ok] in Hok. apply andb_true_iff in Hok as [_ Hr].
  split; [split; destruct r as [r|]; cbn [sig_of dsig]; try reflexivity; destruct (prim_sig_ok (repr_prim r)) as (A & _ & B); assumption|].
  intros [| | | | | | | | |i l] Ht; try discriminate Ht. cbn [typed] in Ht. destruct l; [|discriminate]. apply Nat.ltb_lt in Ht.
  cbn [has_option dep_clean sig_clean dval_of_shape sval_of_shape sig_of]. destruct r as [r|]; cbn [repr_ok] in Hr.
  - assert (Hp : prim_typed (repr_prim r) (RInt (nth i ds 0%Z)) = true).
    { rewrite forallb_forall in Hr. apply Hr. now apply nth_In. }
    split; [exact (prim_facts _ _ Hp)|]. now apply prim_okw.
  - apply N.ltb_lt in Hr. split; [|apply unit_variant_u32].
    unfold vfacts. cbn [wf vsig enc_form]. repeat split. apply N.ltb_lt. lia.
Qed.

Lemma Q_senum names : Q (TStrEnum names).
Proof.
  intros Hok. cbn [shape_ok] in Hok. apply andb_true_iff in Hok as [_ Hr].
  split; [split; reflexivity|].
  intros [| | | | | | | | |i l] Ht; try discriminate Ht. cbn [typed] in Ht. destruct l; [|discriminate]. apply Nat.ltb_lt in Ht.
  cbn [has_option dep_clean sig_clean dval_of_shape sval_of_shape sig_of]. split; [|apply unit_variant_str].
  unfold vfacts. cbn [wf vsig enc_form]. repeat split. rewrite forallb_forall in Hr. apply Hr. now apply nth_In.
Qed.

Lemma Q_ip : Q TIpAddr.
Proof.
  intros _. split; [split; reflexivity|].
  intros [| | | | | | | | |i l] Ht; try discriminate Ht. cbn [typed] in Ht.
  destruct l as [|[| | | | |o| | | |] [|? ?]]; try discriminate Ht. apply andb_true_iff in Ht as [Ho Hi].
  cbn [has_option dep_clean sig_clean dval_of_shape sval_of_shape sig_of].
  assert (HF : Forall2 (fun x v => okw false x v true true) (map (prim_sval PU8) o) (map (prim_dval PU8) o)
               /\ forallb (fun x => wf x && sig_eqb (vsig x) SU8) (map (prim_dval PU8) o) = true
               /\ forallb enc_form (map (prim_dval PU8) o) = true).
  { clear Hi. induction o as [|y o IH]; [repeat split; constructor|].
    cbn [forallb] in Ho. apply andb_true_iff in Ho as [Hy Ho]. destruct (IH Ho) as (A & B & C).
    destruct (prim_facts PU8 y Hy) as (F1 & F2 & F3). cbn [map forallb]. rewrite F1, F2, F3, B, C. repeat split.
    constructor; [now apply prim_okw|exact A]. }
  destruct HF as (A & B & C).
  assert (Hi' : (N.of_nat i <? 4294967296) = true).
  { apply N.ltb_lt. destruct i as [|[|i]]; [lia|lia|discriminate Hi]. }
  split.
  - unfold vfacts. cbn [wf vsig enc_form forallb map single_ok]. rewrite Hi', B, C. repeat split.
  - apply newtype_variantx_ok; [reflexivity|]. eapply okw_weaken; [apply tuple_seqx_ok; exact A|discriminate|discriminate].
Qed.

Lemma Q_dict rn fs : Forall (fun f : dfield => Q (snd (snd f))) fs -> Q (TDict rn fs).
Proof.
  intros HF Hok. rewrite ok_dict in Hok. split; [split; reflexivity|].
  intros [| | | | |l| | | |] Ht; try discriminate Ht. rewrite typed_dict in Ht. rewrite sval_dict, dval_dict.
  set (o := has_option (TDict rn fs)).
  assert (Ho : forall f : dfield, In f fs -> has_option (snd (snd f)) = true -> o = true).
  { intros f Hin Hf. subst o. rewrite opt_dict. apply existsb_exists. now exists f. }
  clearbody o.
  assert (HG : Forall2 (fun x p => okw o (fst x) (fst p) true true /\ okw o (snd x) (snd p) true false)
                 (map (fun p => (XStr (fst p), snd p)) (sv_dict rn fs l)) (dv_dict rn fs l)
               /\ forallb (fun p => wf (fst p) && wf (snd p) && sig_eqb (vsig (fst p)) SStr && sig_eqb (vsig (snd p)) SVariant)
                    (dv_dict rn fs l) = true
               /\ forallb (fun p => enc_form (fst p) && enc_form (snd p)) (dv_dict rn fs l) = true).
  { revert l Ht. induction HF as [|[n [opt t]] fs Hq HFs IH]; intros l Ht.
    - destruct l; [|discriminate]. repeat split; constructor.
    - cbn [forallb] in Hok. apply andb_true_iff in Hok as [Hf Hok]. unfold ok_dfield in Hf. cbn [fst snd] in Hf, Hq.
      apply andb_true_iff in Hf as [Hf _]. apply andb_true_iff in Hf as [Hf H255]. apply andb_true_iff in Hf as [Hokt Hkey].
      destruct l as [|y l]; [discriminate|]. cbn [ty_dict] in Ht. apply andb_true_iff in Ht as [Hy Hl].
      specialize (IH Hok (fun f Hin => Ho f (or_intror Hin)) l Hl). destruct IH as (A & B & C).
      destruct (Hq Hokt) as [[Hs1 Hs2] Hx].
      assert (Hone : forall z, typed t z = true ->
                Forall2 (fun x p => okw o (fst x) (fst p) true true /\ okw o (snd x) (snd p) true false)
                  (map (fun p => (XStr (fst p), snd p)) ((dict_key rn n, as_value (sig_of t) (sval_of_shape t z)) :: sv_dict rn fs l))
                  ((VStr (dict_key rn n), VVariant (dval_of_shape t z)) :: dv_dict rn fs l)
                /\ forallb (fun p => wf (fst p) && wf (snd p) && sig_eqb (vsig (fst p)) SStr && sig_eqb (vsig (snd p)) SVariant)
                     ((VStr (dict_key rn n), VVariant (dval_of_shape t z)) :: dv_dict rn fs l) = true
                /\ forallb (fun p => enc_form (fst p) && enc_form (snd p)) ((VStr (dict_key rn n), VVariant (dval_of_shape t z)) :: dv_dict rn fs l) = true).
      { intros z Hz. destruct (Hx z Hz) as [(F1 & F2 & F3) Hk].
        cbn [map forallb fst snd wf vsig enc_form sig_eqb]. rewrite Hkey, F1, F2, F3, Hs1, H255, B, C. repeat split.
        constructor; [|exact A]. cbn [fst snd]. split.
        - exact (okw_dyn o (VStr (dict_key rn n)) true true eq_refl).
        - unfold as_value. rewrite <- F2. eapply okw_weaken; [apply variantx_ok|reflexivity|discriminate].
          eapply okw_oaa; [eapply okw_weaken; [exact Hk|discriminate|discriminate]|].
          apply (Ho (n, (opt, t))). now left. }
      cbn [sv_dict dv_dict]. destruct opt.
      + destruct y; try discriminate Hy; [exact (conj A (conj B C))|]. now apply Hone.
      + now apply Hone. }
  destruct HG as (A & B & C). split.
  - unfold vfacts. cbn [wf vsig enc_form sig_of is_basic single_ok]. rewrite B, C. repeat split.
  - cbn [dep_clean sig_clean]. eapply okw_ext; [intros st Hs; exact (named_as_map _ st SStr SVariant Hs)|]. now apply mapx_ok.
Qed.
