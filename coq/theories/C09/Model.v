(* C09/Model.v — the Rust side of "a type with a D-Bus signature", as executable descriptions.
   [tshape]        a Rust type definition, as far as zvariant_derive's Type derive, serde's derive and zvariant's
                   Type impls for std types distinguish it;
   [rval]          a value of such a type;
   [sig_of]        mirror of zvariant_derive/src/type.rs (expand_derive, impl_struct, signature_for_struct,
                   impl_unit_struct, impl_empty_struct, impl_enum, signature_for_variant) and of the library impls
                   zvariant/src/type/{libstd.rs,net.rs,time.rs}, zvariant/src/basic.rs;
   [sval_of_shape] what serde's derive (and std's / serde_repr's / zvariant's SerializeDict Serialize impls) feed
                   the serializer: the serde data-model tree consumed by DBus/Ser.v's [ser].
   No proofs in this file. *)
From ZV Require Import Base.Bytes Base.Res Base.Sig DBus.Val DBus.Spec DBus.Ser.

Inductive prim := PBool | PU8 | PI8 | PI16 | PU16 | PI32 | PU32 | PI64 | PU64 | PF32 | PF64 | PUsize | PIsize | PChar | PStr.
Inductive repr := RU8 | RU16 | RU32 | RU64 | RI8 | RI16 | RI32 | RI64.
(* syn::Fields of an enum variant: Unnamed (tuple-like; one field = newtype variant) or Named *)
Inductive vkind := KUnnamed | KNamed.
(* #[zvariant(rename_all = "...")] on a dict-struct (zvariant_derive/src/utils.rs rename_identifier) *)
Inductive rename := RnNone | RnLower | RnUpper | RnPascal | RnCamel | RnSnake | RnKebab.

Inductive tshape :=
| TPrim (p : prim)
| TUnit                                              (* () and `struct U;` *)
| TPhantom (t : tshape)                              (* std::marker::PhantomData<T> *)
| TSeq (t : tshape)                                  (* Vec<T>, VecDeque<T>, LinkedList<T>, [T], BTreeSet<T>, ... *)
| TMap (k v : tshape)                                (* BTreeMap<K, V>, HashMap<K, V> *)
| TOption (t : tshape)                               (* Option<T>, feature option-as-array *)
| TTuple (ts : list tshape)                          (* (T1,..,Tn), `struct S(T1,..,Tn);` with n >= 2, [T; N] with N >= 1 *)
| TNewtype (t : tshape)                              (* `struct W(T);`, Wrapping<T>, Reverse<T>, Box<T>, Cell<T>, ... *)
| TStruct (fs : list (bytes * tshape))               (* `struct S { f1: T1, .. }`; [] is `struct S {}` (and [T; 0]) *)
| TUnitEnum (r : option repr) (ds : list Z)          (* unit-only enum, discriminants; Some r: #[repr(r)] + serde_repr *)
| TStrEnum (names : list bytes)                      (* unit-only enum with #[zvariant(signature = "s")] *)
| TEnum (vs : list (vkind * list (bytes * tshape)))  (* data-carrying enum *)
| TDict (rn : rename) (fs : list (bytes * (bool * tshape)))   (* #[zvariant(signature = "dict")] + SerializeDict; bool: Option<T> field *)
| TIpAddr.                                           (* std::net::IpAddr: Type impl (u32, &[u8]) vs serde's newtype variant of octets *)

Inductive rval :=
| RBool (b : bool) | RInt (z : Z) | RF64 (bits : N) | RStr (s : bytes) | RUnit
| RList (l : list rval)                              (* sequences; fields of tuples / structs in declaration order *)
| RMap (l : list (rval * rval))
| RNone | RSome (x : rval)
| REnum (i : nat) (l : list rval).                   (* variant number i (declaration order) and its fields *)

(* ---------------- signatures ---------------- *)
(* impl Basic / Type for primitives (zvariant/src/basic.rs); usize/isize: impl_type_with_repr in type/libstd.rs *)
Definition prim_sig (p : prim) : sig :=
  match p with
  | PBool => SBool | PU8 => SU8 | PI8 | PI16 => SI16 | PU16 => SU16 | PI32 => SI32 | PU32 => SU32
  | PI64 | PIsize => SI64 | PU64 | PUsize => SU64 | PF32 | PF64 => SF64 | PChar | PStr => SStr
  end.
Definition repr_prim (r : repr) : prim :=
  match r with RU8 => PU8 | RU16 => PU16 | RU32 => PU32 | RU64 => PU64 | RI8 => PI8 | RI16 => PI16 | RI32 => PI32 | RI64 => PI64 end.

(* signature_for_struct(fields, zv, insert_enum_variant): [unnamed] = Fields::Unnamed, [gs] = the fields' signatures *)
Definition struct_sig (unnamed : bool) (gs : list sig) (insert_enum_variant : bool) : sig :=
  let signature := match unnamed, gs with
                   | true, [g] => g                      (* new_type *)
                   | _, _ => SStruct gs
                   end in
  if insert_enum_variant then SStruct [SU32; signature] else signature.
Definition is_unnamed (k : vkind) : bool := match k with KUnnamed => true | KNamed => false end.

Fixpoint sig_of (sh : tshape) : sig :=
  let tsigs := fix go (ts : list tshape) : list sig :=
      match ts with [] => [] | t :: r => sig_of t :: go r end in
  let fsigs := fix go (fs : list (bytes * tshape)) : list sig :=
      match fs with [] => [] | (_, t) :: r => sig_of t :: go r end in
  match sh with
  | TPrim p => prim_sig p
  | TUnit => SUnit                                              (* impl Type for (); impl_unit_struct *)
  | TPhantom t => sig_of t                                      (* impl<T> Type for PhantomData<T> *)
  | TSeq t => SArray (sig_of t)                                 (* array_type! *)
  | TMap k v => SDict (sig_of k) (sig_of v)                     (* map_impl! *)
  | TOption t => SArray (sig_of t)                              (* cfg(feature = "option-as-array") *)
  | TTuple ts => SStruct (tsigs ts)                             (* tuple_impls!, [T; N], impl_struct on Fields::Unnamed *)
  | TNewtype t => sig_of t                                      (* new_type; impl_type_for_wrapper!, deref_impl! *)
  | TStruct fs => match fs with
                  | [] => SU8                                   (* impl_empty_struct; [T; 0] *)
                  | _ => struct_sig false (fsigs fs) false
                  end
  | TUnitEnum r _ => match r with Some r => prim_sig (repr_prim r) | None => SU32 end   (* signature_for_variant, Fields::Unit *)
  | TStrEnum _ => SStr                                          (* #[zvariant(signature = "s")] *)
  | TEnum vs =>                                                 (* impl_enum: all_signatures.pop() — the last variant *)
      (fix last (vs : list (vkind * list (bytes * tshape))) : sig :=
         match vs with
         | [] => SUnit
         | [(k, fs)] => struct_sig (is_unnamed k) (fsigs fs) true
         | _ :: r => last r
         end) vs
  | TDict _ _ => SDict SStr SVariant                            (* "dict" => Signature::dict(Str, Variant) *)
  | TIpAddr => SStruct [SU32; SArray SU8]                       (* IpAddr => (u32, &[u8]) *)
  end.

(* the signature of each variant (impl_enum compares their token strings and rejects the enum when they differ) *)
Definition variant_sig (v : vkind * list (bytes * tshape)) : sig :=
  struct_sig (is_unnamed (fst v)) (map (fun f => sig_of (snd f)) (snd v)) true.

(* ---------------- renaming of dict keys (zvariant_utils/src/case.rs) ---------------- *)
Definition to_upper (c : byte) : byte := if is_lower c then nb (bn c - 32) else c.
Definition to_lower (c : byte) : byte := if is_upper c then nb (bn c + 32) else c.
Definition is_sep (c : byte) : bool := beq c "_"%byte || beq c "-"%byte.

(* pascal_or_camel_case *)
Fixpoint pascal_camel (s : bytes) (capitalize first is_pascal : bool) : bytes :=
  match s with
  | [] => []
  | c :: r =>
      if is_sep c then pascal_camel r true false is_pascal
      else if capitalize then to_upper c :: pascal_camel r false false is_pascal
      else if first && negb is_pascal then to_lower c :: pascal_camel r false false is_pascal
      else c :: pascal_camel r false false is_pascal
  end.
(* snake_or_kebab_case; [acc_empty]: result.is_empty() *)
Fixpoint snake_kebab (s : bytes) (acc_empty : bool) (sepc : byte) : bytes :=
  match s with
  | [] => []
  | c :: r =>
      let pre := if is_upper c && negb acc_empty then [sepc] else [] in
      if is_sep c then pre ++ sepc :: snake_kebab r false sepc
      else pre ++ to_lower c :: snake_kebab r false sepc
  end.
Definition dict_key (rn : rename) (ident : bytes) : bytes :=
  match rn with
  | RnNone => ident
  | RnLower => map to_lower ident
  | RnUpper => map to_upper ident
  | RnPascal => pascal_camel ident true true true
  | RnCamel => pascal_camel ident false true false
  | RnSnake => snake_kebab ident true "_"%byte
  | RnKebab => snake_kebab ident true "-"%byte
  end.

(* ---------------- serde data model ---------------- *)
Definition prim_sval (p : prim) (x : rval) : sval :=
  match p, x with
  | PBool, RBool b => XBool b
  | PU8, RInt z => XU8 (Z.to_N z) | PI8, RInt z => XI8 z | PI16, RInt z => XI16 z | PU16, RInt z => XU16 (Z.to_N z)
  | PI32, RInt z => XI32 z | PU32, RInt z => XU32 (Z.to_N z) | PI64, RInt z => XI64 z | PU64, RInt z => XU64 (Z.to_N z)
  | PUsize, RInt z => XU64 (Z.to_N z)              (* serde: usize as u64 *)
  | PIsize, RInt z => XI64 z                        (* serde: isize as i64 *)
  | PF32, RF64 b => XF64 b                          (* serialize_f32 = write_f64(v as f64); the value is given by its f64 image *)
  | PF64, RF64 b => XF64 b
  | PChar, RStr s => XStr s                         (* serialize_char = serialize_str(&v.to_string()) *)
  | PStr, RStr s => XStr s
  | _, _ => XUnit
  end.

(* as_value::Serialize: serialize_struct("Variant", 2) { signature: T::SIGNATURE, value } *)
Definition as_value (g : sig) (y : sval) : sval := XStruct [(B "signature", XStr (show g)); (B "value", y)].

Fixpoint sval_of_shape (sh : tshape) (x : rval) {struct sh} : sval :=
  let tup := fix go (ts : list tshape) (l : list rval) : list sval :=
      match ts, l with t :: ts', y :: l' => sval_of_shape t y :: go ts' l' | _, _ => [] end in
  let nam := fix go (fs : list (bytes * tshape)) (l : list rval) : list (bytes * sval) :=
      match fs, l with (n, t) :: fs', y :: l' => (n, sval_of_shape t y) :: go fs' l' | _, _ => [] end in
  match sh with
  | TPrim p => prim_sval p x
  | TUnit => XUnit                                  (* serialize_unit / serialize_unit_struct *)
  | TPhantom _ => XUnit                             (* serde: PhantomData<T> => serialize_unit_struct("PhantomData") *)
  | TSeq t => match x with RList l => XSeq (map (sval_of_shape t) l) | _ => XUnit end
  | TMap k v => match x with
                | RMap l => XMap (map (fun p => (sval_of_shape k (fst p), sval_of_shape v (snd p))) l)
                | _ => XUnit
                end
  | TOption t => match x with RNone => XNone | RSome y => XSome (sval_of_shape t y) | _ => XUnit end
  | TTuple ts => match x with RList l => XTuple (tup ts l) | _ => XUnit end
  | TNewtype t => sval_of_shape t x                 (* serialize_newtype_struct = value.serialize(self) *)
  | TStruct fs => match x with RList l => XStruct (nam fs l) | _ => XUnit end
  | TUnitEnum r ds =>
      match x with
      | REnum i _ => match r with
                     | None => XUnitVariant (N.of_nat i) []            (* serde derive: serialize_unit_variant(name, i, variant) *)
                     | Some r => prim_sval (repr_prim r) (RInt (nth i ds 0%Z))   (* Serialize_repr: the discriminant as the repr type *)
                     end
      | _ => XUnit
      end
  | TStrEnum names => match x with REnum i _ => XUnitVariant (N.of_nat i) (nth i names []) | _ => XUnit end
  | TEnum vs =>
      match x with
      | REnum i l =>
          (fix pick (vs : list (vkind * list (bytes * tshape))) (k : nat) : sval :=
             match vs, k with
             | (kd, fs) :: _, O =>
                 match kd with
                 | KNamed => XStructVariant (N.of_nat i) (nam fs l)
                 | KUnnamed =>
                     match fs with
                     | [(_, t)] => match l with y :: _ => XNewtypeVariant (N.of_nat i) (sval_of_shape t y) | [] => XUnit end
                     | _ => XTupleVariant (N.of_nat i) (map snd (nam fs l))
                     end
                 end
             | _ :: r, S k' => pick r k'
             | [], _ => XUnit
             end) vs i
      | _ => XUnit
      end
  | TDict rn fs =>
      (* SerializeDict: helper struct, every field `with = as_value`, Option fields skipped when None *)
      match x with
      | RList l =>
          XStruct ((fix go (fs : list (bytes * (bool * tshape))) (l : list rval) : list (bytes * sval) :=
                      match fs, l with
                      | (n, (opt, t)) :: fs', y :: l' =>
                          if opt then
                            match y with
                            | RSome z => (dict_key rn n, as_value (sig_of t) (sval_of_shape t z)) :: go fs' l'
                            | _ => go fs' l'
                            end
                          else (dict_key rn n, as_value (sig_of t) (sval_of_shape t y)) :: go fs' l'
                      | _, _ => []
                      end) fs l)
      | _ => XUnit
      end
  | TIpAddr =>
      (* serde (not human readable): serialize_newtype_variant("IpAddr", 0|1, "V4"|"V6", &octets-as-tuple) *)
      match x with
      | REnum i [RList o] => XNewtypeVariant (N.of_nat i) (XTuple (map (prim_sval PU8) o))
      | _ => XUnit
      end
  end.

(* ---------------- library impls as compositions (zvariant/src/type/{libstd,net,time}.rs + serde's impls) ---------------- *)
Definition TDuration : tshape := TStruct [(B "secs", TPrim PU64); (B "nanos", TPrim PU32)].          (* Duration => (u64, u32) *)
Definition TSystemTime : tshape := TStruct [(B "secs_since_epoch", TPrim PU64); (B "nanos_since_epoch", TPrim PU32)].
Definition TIpv4 : tshape := TTuple (repeat (TPrim PU8) 4).                                           (* Ipv4Addr => [u8; 4] *)
Definition TIpv6 : tshape := TTuple (repeat (TPrim PU8) 16).                                          (* Ipv6Addr => [u8; 16] *)
Definition TSockV4 : tshape := TTuple [TIpv4; TPrim PU16].                                            (* SocketAddrV4 => (Ipv4Addr, u16) *)
Definition TSockV6 : tshape := TTuple [TIpv6; TPrim PU16].
Definition TRange (t : tshape) : tshape := TStruct [(B "start", t); (B "end", t)].                    (* Range<Idx> => (Idx, Idx) *)
Definition TRangeInclusive (t : tshape) : tshape := TStruct [(B "start", t); (B "end", t)].
Definition TRangeFrom (t : tshape) : tshape := TStruct [(B "start", t)].                              (* RangeFrom<Idx> => (Idx,) *)
Definition TRangeTo (t : tshape) : tshape := TStruct [(B "end", t)].
Definition TArrayN (n : nat) (t : tshape) : tshape := match n with O => TStruct [] | _ => TTuple (repeat t n) end.   (* [T; N] *)
