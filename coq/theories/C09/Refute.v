(* C09/Refute.v — the full statement fails on the faithful model: one witness per class; the classes lie outside the
   proved fragment; concrete instances of the fragment (non-vacuity). *)
From ZV Require Import Base.Bytes Base.Res Base.Sig Base.SigParse DBus.Val DBus.Spec DBus.Ser DBus.De DBus.SerFacts DBus.SerProofs
  C09.Model C09.Spec C09.Facts C09.Comb C09.Unfold C09.Proofs C09.Main C09.Top.
From Coq Require Import Lia.
Local Open Scope N_scope.

Definition cfg_oaa : cfg := {| c_gv := false; c_oaa := true |}.
Definition u8 := TPrim PU8.
Definition u32 := TPrim PU32.
Definition str := TPrim PStr.

(* a value of a compilable type definition on which serialization does not produce the marshalling of the denoted value *)
Definition refutes (sh : tshape) (x : rval) : Prop :=
  shape_wf sh = true /\ typed sh x = true /\ within_limits (dval_of_shape sh x) = true /\
  len (marshal_top LE 0 (dval_of_shape sh x)) < 2 ^ 32 /\
  ser_top cfg_oaa LE 0 (sig_of sh) (sval_of_shape sh x) <> Ok (marshal_top LE 0 (dval_of_shape sh x), []).
Lemma refutes_statement sh x : refutes sh x -> ~ C09_statement sh.
Proof.
  intros (Hwf & Ht & Hl & Hlen & Hne) (_ & _ & H).
  destruct (H cfg_oaa LE 0 x Ht (fun _ => eq_refl) Hl Hlen) as (_ & _ & E). exact (Hne E).
Qed.

(* 1. newtype variant whose payload is a struct: `enum E { V0(S) }  struct S { a: u8, b: u8 }` — unreachable!() *)
Definition sh_nt_struct : tshape := TEnum [(KUnnamed, [(B "_", TStruct [(B "a", u8); (B "b", u8)])])].
Definition x_nt_struct : rval := REnum 0 [RList [RInt 1; RInt 2]].
Lemma nt_struct_panics :
  ser_top cfg_oaa LE 0 (sig_of sh_nt_struct) (sval_of_shape sh_nt_struct x_nt_struct) = Panic PUnreachable.
Proof. vm_compute. reflexivity. Qed.
Lemma nt_struct_refutes : refutes sh_nt_struct x_nt_struct.
Proof. repeat split; try (vm_compute; reflexivity). rewrite nt_struct_panics. discriminate. Qed.
(* same with `struct S { a: u32, b: String }`: Error::SignatureMismatch *)
Definition sh_nt_struct2 : tshape := TEnum [(KUnnamed, [(B "_", TStruct [(B "a", u32); (B "b", str)])])].
Lemma nt_struct2_errs :
  ser_top cfg_oaa LE 0 (sig_of sh_nt_struct2) (sval_of_shape sh_nt_struct2 (REnum 0 [RList [RInt 1; RStr (B "x")]])) = Err ESigMismatch.
Proof. vm_compute. reflexivity. Qed.

(* 2. an enum with tuple / struct variants as sequence element: the second element meets the inner struct's signature *)
Definition sh_enum_seq : tshape := TSeq (TEnum [(KUnnamed, [(B "_", u32); (B "_", u32)])]).
Definition x_enum_seq : rval := RList [REnum 0 [RInt 1; RInt 2]; REnum 0 [RInt 3; RInt 4]].
Lemma enum_seq_errs : ser_top cfg_oaa LE 0 (sig_of sh_enum_seq) (sval_of_shape sh_enum_seq x_enum_seq) = Err ESigMismatch.
Proof. vm_compute. reflexivity. Qed.
Lemma enum_seq_refutes : refutes sh_enum_seq x_enum_seq.
Proof. repeat split; try (vm_compute; reflexivity). rewrite enum_seq_errs. discriminate. Qed.
(* one element is fine *)
Lemma enum_seq_one_ok :
  ser_top cfg_oaa LE 0 (sig_of sh_enum_seq) (sval_of_shape sh_enum_seq (RList [REnum 0 [RInt 1; RInt 2]]))
  = Ok (marshal_top LE 0 (dval_of_shape sh_enum_seq (RList [REnum 0 [RInt 1; RInt 2]])), []).
Proof. vm_compute. reflexivity. Qed.

(* 3. newtype variants never call end(): the struct depth leaks by one per element — 33 elements exceed the limit of 32 *)
Definition sh_leak : tshape := TSeq (TEnum [(KUnnamed, [(B "_", u32)])]).
Definition x_leak : rval := RList (repeat (REnum 0 [RInt 7]) 33).
Lemma leak_errs : ser_top cfg_oaa LE 0 (sig_of sh_leak) (sval_of_shape sh_leak x_leak) = Err (EDepth DStruct).
Proof. vm_compute. reflexivity. Qed.
Lemma leak_refutes : refutes sh_leak x_leak.
Proof. repeat split; try (vm_compute; reflexivity). rewrite leak_errs. discriminate. Qed.
(* the library type: Vec<IpAddr> with 33 addresses *)
Definition x_leak_ip : rval := RList (repeat (REnum 0 [RList [RInt 127; RInt 0; RInt 0; RInt 1]]) 33).
Lemma leak_ip_errs : ser_top cfg_oaa LE 0 (sig_of (TSeq TIpAddr)) (sval_of_shape (TSeq TIpAddr) x_leak_ip) = Err (EDepth DStruct).
Proof. vm_compute. reflexivity. Qed.
Lemma leak_ip_refutes : refutes (TSeq TIpAddr) x_leak_ip.
Proof. repeat split; try (vm_compute; reflexivity). rewrite leak_ip_errs. discriminate. Qed.

(* 4. Vec<()>: the declared signature "a" is not a D-Bus signature *)
Lemma unit_seq_refutes : ~ C09_statement (TSeq TUnit).
Proof. intros (_ & H & _). vm_compute in H. discriminate H. Qed.
Lemma unit_seq_signature : show (sig_of (TSeq TUnit)) = B "a" /\ parse_sig false (show (sig_of (TSeq TUnit))) = None.
Proof. split; vm_compute; reflexivity. Qed.

(* 5. PhantomData<T> declares T's signature and writes nothing: `struct S { a: u32, p: PhantomData<u64> }` is "(ut)", 4 bytes *)
Definition sh_phantom : tshape := TStruct [(B "a", u32); (B "p", TPhantom (TPrim PU64))].
Definition x_phantom : rval := RList [RInt 3; RUnit].
Lemma phantom_bytes :
  show (sig_of sh_phantom) = B "(ut)" /\
  ser_top cfg_oaa LE 0 (sig_of sh_phantom) (sval_of_shape sh_phantom x_phantom) = Ok (enc LE 4 3, []) /\
  de_struct_top cfg_oaa LE 0 (sig_of sh_phantom) (enc LE 4 3) [] = Err EBounds.
Proof. repeat split; vm_compute; reflexivity. Qed.
Lemma phantom_refutes : ~ C09_statement sh_phantom.
Proof. intros (H & _). vm_compute in H. discriminate H. Qed.

Theorem full_statement_refuted : ~ C09_full_statement.
Proof. intros H. apply (refutes_statement _ _ nt_struct_refutes). apply H. vm_compute. reflexivity. Qed.

(* ---------- every type definition of a known class lies outside the proved fragment ---------- *)
Lemma any_fields_local P fs :
  (fix go (fs : list (bytes * tshape)) : bool := match fs with [] => false | (_, t) :: r => anywhere P t || go r end) fs
  = existsb (fun f => anywhere P (snd f)) fs.
Proof. induction fs as [|[n t] r IH]; [reflexivity|]. cbn [existsb snd]. now rewrite IH. Qed.
Lemma any_struct P fs : anywhere P (TStruct fs) = P (TStruct fs) || existsb (fun f => anywhere P (snd f)) fs.
Proof. cbn [anywhere]. now rewrite any_fields_local. Qed.
Lemma any_enum P vs : anywhere P (TEnum vs) = P (TEnum vs) || existsb (fun v : variant => existsb (fun f => anywhere P (snd f)) (snd v)) vs.
Proof.
  cbn [anywhere]. f_equal. induction vs as [|[k fs] r IH]; [reflexivity|]. cbn [existsb snd]. now rewrite <- IH, any_fields_local.
Qed.
Lemma any_dict P rn fs : anywhere P (TDict rn fs) = P (TDict rn fs) || existsb (fun f : dfield => anywhere P (snd (snd f))) fs.
Proof. cbn [anywhere]. f_equal. induction fs as [|[n [o t]] r IH]; [reflexivity|]. cbn [existsb snd]. now rewrite <- IH. Qed.

Lemma existsb_false {A} (f : A -> bool) l : (forall a, In a l -> f a = false) -> existsb f l = false.
Proof. intros H. induction l as [|a l IH]; [reflexivity|]. cbn. rewrite (H a (or_introl eq_refl)), IH; [reflexivity|]. intros b Hb. apply H. now right. Qed.

Lemma anywhere_ok P : (forall sh, P sh = true -> shape_ok sh = false) -> forall sh, shape_ok sh = true -> anywhere P sh = false.
Proof.
  intros HP. assert (HP' : forall sh, shape_ok sh = true -> P sh = false).
  { intros sh Hok. destruct (P sh) eqn:E; [|reflexivity]. rewrite (HP sh E) in Hok. discriminate. }
  induction sh using tshape_ind'; intros Hok; try (cbn [anywhere]; rewrite (HP' _ Hok); reflexivity); try discriminate Hok.
  - cbn [anywhere]. rewrite (HP' _ Hok). cbn [shape_ok] in Hok. apply andb_true_iff in Hok as [Hok _]. apply andb_true_iff in Hok as [Hok _]. now apply IHsh.
  - cbn [anywhere]. rewrite (HP' _ Hok). cbn [shape_ok] in Hok.
    apply andb_true_iff in Hok as [Hok _]. apply andb_true_iff in Hok as [Hok Hv].
    apply andb_true_iff in Hok as [Hok _]. apply andb_true_iff in Hok as [Hok _]. apply andb_true_iff in Hok as [Hk _].
    now rewrite IHsh1, IHsh2.
  - cbn [anywhere]. rewrite (HP' _ Hok). cbn [shape_ok] in Hok. now apply IHsh.
  - change (anywhere P (TTuple ts)) with (P (TTuple ts) || existsb (anywhere P) ts). rewrite (HP' _ Hok). rewrite ok_tuple in Hok.
    apply andb_true_iff in Hok as [_ Hok]. unfold ok_list in Hok. rewrite forallb_forall in Hok. rewrite Forall_forall in H.
    apply existsb_false. intros t Hin. apply H; auto.
  - cbn [anywhere]. rewrite (HP' _ Hok). cbn [shape_ok] in Hok. now apply IHsh.
  - rewrite any_struct, (HP' _ Hok). rewrite ok_struct in Hok. unfold ok_fields in Hok. rewrite forallb_forall in Hok. rewrite Forall_forall in H.
    apply existsb_false. intros f Hin. apply H; auto.
  - rewrite any_enum, (HP' _ Hok). rewrite ok_enum in Hok. apply andb_true_iff in Hok as [_ Hok]. rewrite forallb_forall in Hok.
    rewrite Forall_forall in H. apply existsb_false. intros v Hin. specialize (Hok v Hin). unfold ok_variant in Hok.
    apply andb_true_iff in Hok as [Hok _]. apply andb_true_iff in Hok as [Hok _]. apply andb_true_iff in Hok as [_ Hok].
    unfold ok_fields in Hok. rewrite forallb_forall in Hok. specialize (H v Hin). rewrite Forall_forall in H.
    apply existsb_false. intros f Hf. apply H; auto.
  - rewrite any_dict, (HP' _ Hok). rewrite ok_dict in Hok. rewrite forallb_forall in Hok. rewrite Forall_forall in H.
    apply existsb_false. intros f Hin. specialize (Hok f Hin). unfold ok_dfield in Hok.
    apply andb_true_iff in Hok as [Hok _]. apply andb_true_iff in Hok as [Hok _]. apply andb_true_iff in Hok as [Hok _]. apply H; auto.
Qed.

Lemma unit_sig_not_ok t : unit_sig t = true -> shape_ok t = false.
Proof.
  intros Hu. destruct (shape_ok t) eqn:E; [|reflexivity]. destruct (signature_ok t E) as [_ Hs]. unfold unit_sig in Hu.
  destruct (sig_of t) as [| | | | | | | | | | | | | | | | | [|? ?] |]; try discriminate Hu; discriminate Hs.
Qed.

Lemma known_not_ok sh : Known_C09 sh -> shape_ok sh = false.
Proof.
  intros Hk. destruct (shape_ok sh) eqn:E; [|reflexivity]. exfalso. apply Hk. unfold known_class.
  rewrite (anywhere_ok k_phantom); [|intros t H; destruct t; try discriminate H; reflexivity|exact E].
  rewrite (anywhere_ok k_unit_in_container); [| |exact E].
  2:{ intros t H. destruct t; try discriminate H; cbn [k_unit_in_container] in H.
      - cbn [shape_ok]. now rewrite (unit_sig_not_ok _ H).
      - cbn [shape_ok]. apply orb_true_iff in H as [H|H]; rewrite (unit_sig_not_ok _ H); rewrite ?andb_false_r; reflexivity.
      - cbn [shape_ok]. now rewrite (unit_sig_not_ok _ H).
      - apply andb_true_iff in H as [Hne H]. rewrite ok_tuple. destruct ts as [|t ts]; [discriminate|].
        cbn [forallb] in H. apply andb_true_iff in H as [H _]. cbn [ok_list forallb]. now rewrite (unit_sig_not_ok _ H).
      - apply andb_true_iff in H as [Hne H]. rewrite ok_struct. destruct fs as [|[n t] fs]; [discriminate|].
        cbn [forallb snd] in H. apply andb_true_iff in H as [H _]. cbn [ok_fields forallb snd]. now rewrite (unit_sig_not_ok _ H). }
  rewrite (anywhere_ok k_newtype_struct_payload); [| |exact E].
  2:{ intros t H. destruct t; try discriminate H. cbn [k_newtype_struct_payload] in H. apply existsb_exists in H as (v & Hin & Hv).
      rewrite ok_enum. destruct (forallb (ok_variant (sig_of (TEnum vs))) vs) eqn:Ea; [|now rewrite andb_false_r].
      rewrite forallb_forall in Ea. specialize (Ea v Hin). unfold ok_variant in Ea.
      destruct v as [[|] [|[n t] [|? ?]]]; try discriminate Hv. cbn [fst snd] in Ea. rewrite Hv in Ea. cbn in Ea.
      rewrite !andb_false_r in Ea. discriminate Ea. }
  rewrite (anywhere_ok k_enum_in_seq); [| |exact E].
  2:{ intros t H. destruct t; try discriminate H. cbn [k_enum_in_seq] in H. apply negb_true_iff in H. cbn [shape_ok]. rewrite H.
      now rewrite andb_false_r. }
  rewrite (anywhere_ok k_depth_leak); [| |exact E].
  2:{ intros t H. destruct t; try discriminate H; cbn [k_depth_leak] in H; apply negb_true_iff in H; cbn [shape_ok]; rewrite H;
      now rewrite ?andb_false_r. }
  reflexivity.
Qed.

(* ---------- non-vacuity: concrete members of the fragment ---------- *)
Definition ex_shape : tshape :=
  TStruct [(B "id", u8);
           (B "e", TEnum [(KUnnamed, [(B "_", u32); (B "_", str)]); (KNamed, [(B "x", u32); (B "y", str)])]);
           (B "opt", TOption (TEnum [(KUnnamed, [(B "_", TSeq str)])]));
           (B "d", TDict RnPascal [(B "foo_bar", (false, TSeq (TTuple [u8; str]))); (B "k", (true, TPrim PI64))]);
           (B "m", TMap str (TEnum [(KNamed, [(B "a", TPrim PF64)])]));
           (B "ip", TIpAddr); (B "t", TDuration); (B "u", TUnitEnum (Some RI16) [(-5)%Z; 300%Z]); (B "s", TStrEnum [B "Alpha"; B "Beta"])].
Definition ex_value : rval :=
  RList [RInt 7; REnum 1 [RInt 5; RStr (B "hi")]; RSome (REnum 0 [RList [RStr (B "a"); RStr (B "bc")]]);
         RList [RList [RList [RInt 1; RStr (B "x")]]; RSome (RInt (-9))];
         RMap [(RStr (B "k"), REnum 0 [RF64 4609434218613702656])];
         REnum 1 [RList (repeat (RInt 1) 16)]; RList [RInt 5; RInt 999999999]; REnum 1 []; REnum 0 []].
Example ex_in_fragment : shape_ok ex_shape = true /\ typed ex_shape ex_value = true /\ known_class ex_shape = None
  /\ within_limits (dval_of_shape ex_shape ex_value) = true /\ len (marshal_top BE 3 (dval_of_shape ex_shape ex_value)) < 2 ^ 32.
Proof. repeat split; vm_compute; reflexivity. Qed.
Example ex_bytes :
  ser_top cfg_oaa BE 3 (sig_of ex_shape) (sval_of_shape ex_shape ex_value) = Ok (marshal_top BE 3 (dval_of_shape ex_shape ex_value), []).
Proof.
  destruct ex_in_fragment as (H1 & H2 & _ & H4 & H5). exact (conforms cfg_oaa BE 3 ex_shape ex_value H1 H2 (fun _ => eq_refl) H4 H5).
Qed.

(* the library impls are members of the fragment *)
Definition library_shapes : list tshape :=
  [TPrim PUsize; TPrim PIsize; TPrim PChar; TPrim PI8; TPrim PF32; TDuration; TSystemTime; TIpv4; TIpv6; TIpAddr; TSockV4; TSockV6;
   TRange u32; TRangeInclusive u8; TRangeFrom (TPrim PI64); TRangeTo (TPrim PU16); TArrayN 0 u8; TArrayN 5 str;
   TNewtype (TPrim PU16) (* Wrapping<u16>, Reverse<u16>, Box<u16>, RefCell<u16> *);
   TSeq (TPrim PU8); TMap str u32; TOption str; TTuple [u8; str; TPrim PU64]].
Lemma library_in_fragment : forallb shape_ok library_shapes = true.
Proof. vm_compute. reflexivity. Qed.
