(* C09/Facts.v — generalisations of the serializer lemmas of DBus/SerProofs.v from [sval_of v] to an arbitrary data-model
   tree [x] that is known to drive [ser] like the dynamic value [v]:
     okw o x v dc sc  :  from every admissible state, [ser x] succeeds and the result agrees with [after st v] on the
                         bytes, descriptors, configuration and variant cursor; if [dc] also on the depth counters; if [sc]
                         also on the signature cursor.  [o]: the tree contains an Option (needs option-as-array). *)
From ZV Require Import Base.Bytes Base.Res Base.Sig Base.SigParse Base.SigParseFacts DBus.Val DBus.Spec DBus.Ser DBus.SerFacts DBus.SerProofs.
From Coq Require Import Lia.
Local Open Scope N_scope.

Definition weq (a b : sstate) : Prop :=
  s_cfg a = s_cfg b /\ s_e a = s_e b /\ s_pos0 a = s_pos0 b /\ s_out a = s_out b /\ s_vsign a = s_vsign b /\ s_fds a = s_fds b.
Lemma weq_refl a : weq a a. Proof. repeat split. Qed.
Lemma weq_eq a b : weq a b -> s_sig a = s_sig b -> s_dep a = s_dep b -> a = b.
Proof. intros (H1 & H2 & H3 & H4 & H5 & H6) H7 H8. apply sstate_ext; assumption. Qed.
Lemma back_from_weq st a b : weq a b -> back_from st a = back_from st b.
Proof. intros (H1 & H2 & H3 & H4 & H5 & H6). unfold back_from. rewrite H4, H5, H6. reflexivity. Qed.
Lemma weq_trans a b c : weq a b -> weq b c -> weq a c.
Proof. unfold weq. intuition congruence. Qed.
Lemma weq_set_sig a g : weq (set_sig a g) a. Proof. repeat split. Qed.
Lemma weq_set_dep a d : weq (set_dep a d) a. Proof. repeat split. Qed.

Definition okw (o : bool) (x : sval) (v : dval) (dc sc : bool) : Prop :=
  forall st, wf v = true -> s_sig st = vsig v -> s_vsign st = None -> fits (s_dep st) v ->
             nfd st + nfds v < 2 ^ 32 ->
             len (marshal (s_e st) ByOccurrence v (abs_pos st) (nfd st)) < 2 ^ 32 ->
             (o = true -> c_oaa (s_cfg st) = true) ->
             exists st', ser x st = Ok st' /\ weq st' (after st v)
                         /\ (dc = true -> s_dep st' = s_dep st) /\ (sc = true -> s_sig st' = s_sig st).

Lemma okw_exact o x v st : okw o x v true true ->
  wf v = true -> s_sig st = vsig v -> s_vsign st = None -> fits (s_dep st) v -> nfd st + nfds v < 2 ^ 32 ->
  len (marshal (s_e st) ByOccurrence v (abs_pos st) (nfd st)) < 2 ^ 32 -> (o = true -> c_oaa (s_cfg st) = true) ->
  ser x st = Ok (after st v).
Proof.
  intros H H1 H2 H3 H4 H5 H6 H7. destruct (H st H1 H2 H3 H4 H5 H6 H7) as (st' & E & W & D & S).
  rewrite E. f_equal. apply weq_eq; [assumption|rewrite (S eq_refl)|rewrite (D eq_refl)]; reflexivity.
Qed.
Lemma okw_of_exact o x v : (forall st, wf v = true -> s_sig st = vsig v -> s_vsign st = None -> fits (s_dep st) v ->
     nfd st + nfds v < 2 ^ 32 -> len (marshal (s_e st) ByOccurrence v (abs_pos st) (nfd st)) < 2 ^ 32 ->
     (o = true -> c_oaa (s_cfg st) = true) -> ser x st = Ok (after st v)) -> forall dc sc, okw o x v dc sc.
Proof.
  intros H dc sc st H1 H2 H3 H4 H5 H6 H7. exists (after st v). split; [now apply H|]. split; [apply weq_refl|]. split; reflexivity.
Qed.
Lemma okw_weaken o x v dc sc dc' sc' : okw o x v dc sc -> (dc' = true -> dc = true) -> (sc' = true -> sc = true) -> okw o x v dc' sc'.
Proof.
  intros H Hd Hs st H1 H2 H3 H4 H5 H6 H7. destruct (H st H1 H2 H3 H4 H5 H6 H7) as (st' & E & W & D & S).
  exists st'. split; [exact E|]. split; [exact W|]. split; auto.
Qed.
Lemma okw_oaa (o o' : bool) x v dc sc : okw o x v dc sc -> (o = true -> o' = true) -> okw o' x v dc sc.
Proof. intros H Ho st H1 H2 H3 H4 H5 H6 H7. apply H; auto. Qed.
(* dynamic values themselves *)
Lemma okw_dyn o v dc sc : enc_form v = true -> okw o (sval_of v) v dc sc.
Proof. intros He. apply okw_of_exact. intros st H1 H2 H3 H4 H5 H6 _. now apply ser_good. Qed.

(* ---------- padding ---------- *)
Lemma padn_idem p al : al <> 0 -> padn (p + padn p al) al = 0.
Proof.
  intros Hal. destruct (padn_spec p al Hal) as [_ H]. unfold padn at 1. rewrite H, N.sub_0_r. now apply N.mod_same.
Qed.
Lemma padded_idem st al : al <> 0 -> padded (padded st al) al = padded st al.
Proof.
  intros Hal. rewrite (padded_grow (padded st al)).
  assert (E : pad (abs_pos (padded st al)) al = []).
  { rewrite padded_grow, abs_pos_grow. unfold pad. rewrite len_zeros, padn_idem by assumption. reflexivity. }
  rewrite E. apply grow_nil.
Qed.

(* ---------- sequences ---------- *)
Lemma seq_begin_ok st child al d' :
  ((s_sig st = SArray child /\ align_of child = Ok al) \/ (exists v, s_sig st = SDict child v /\ al = 8)) ->
  inc_array (s_dep st) = Ok d' ->
  let p0 := pad (abs_pos st) 4 in
  let p1 := pad (abs_pos st + len p0 + 4) al in
  seq_begin st = Ok (set_dep (set_sig (grow st (p0 ++ enc (s_e st) 4 0 ++ p1) []) child) d',
                     written st + len p0 + 4 + len p1, len p1, s_sig st).
Proof.
  intros Hsig Hinc p0 p1.
  unfold seq_begin. rewrite padded_grow, wr_u32_grow, grow_grow, e_grow. rewrite sig_grow.
  assert (Hm : (match s_sig st with
                | SArray c => let* a := align_of c in Ok (a, c)
                | SDict k _ => Ok (8, k)
                | _ => Err ESigMismatch
                end) = Ok (al, child)).
  { destruct Hsig as [[-> ->]|(v & -> & ->)]; reflexivity. }
  rewrite Hm. cbn [bind]. unfold add_padding.
  set (stA := set_sig (grow st (pad (abs_pos st) 4 ++ enc (s_e st) 4 0) ([] ++ [])) child).
  assert (Hp : abs_pos stA = abs_pos st + len p0 + 4).
  { subst stA. destruct st. unfold abs_pos, written. proj. rewrite !len_app, len_enc. unfold p0, abs_pos, written. proj. lia. }
  rewrite Hp. rewrite wr_grow.
  change (s_dep (grow stA (zeros (padn (abs_pos st + len p0 + 4) al)) [])) with (s_dep st).
  rewrite Hinc. cbn [bind]. f_equal.
  assert (E1 : set_dep (grow stA (zeros (padn (abs_pos st + len p0 + 4) al)) []) d'
               = set_dep (set_sig (grow st (p0 ++ enc (s_e st) 4 0 ++ p1) []) child) d').
  { subst stA. destruct st. unfold p1, p0, pad. proj. cbn [app]. rewrite ?add_fds_nil, <- ?app_assoc. reflexivity. }
  assert (E2 : written (grow stA (zeros (padn (abs_pos st + len p0 + 4) al)) []) = written st + len p0 + 4 + len p1).
  { rewrite written_grow. subst stA. destruct st. unfold written. proj. rewrite !len_app, len_enc, len_zeros.
    unfold p1, p0, pad. rewrite !len_zeros. unfold abs_pos, written. proj. lia. }
  assert (E3 : padn (abs_pos st + len p0 + 4) al = len p1) by (unfold p1, pad; now rewrite len_zeros).
  rewrite E1, E2, E3. reflexivity.
Qed.

(* seq_end only reads the bytes written, and overwrites the signature cursor *)
Lemma seq_end_weq a b start fp asig : weq a b ->
  seq_end a start fp asig =
  match seq_end b start fp asig with
  | Ok r => Ok (set_dep r (dec_array (s_dep a)))
  | Err e => Err e
  | Panic p => Panic p
  end.
Proof.
  intros (H1 & H2 & H3 & H4 & H5 & H6). unfold seq_end, written. rewrite H4, H2.
  destruct (negb (len (s_out b) - start <? 2 ^ 32)); [reflexivity|]. f_equal.
  apply sstate_ext; cbn; congruence.
Qed.

Lemma seq_end_ok st child al d' body hs :
  ((s_sig st = SArray child /\ align_of child = Ok al) \/ (exists v, s_sig st = SDict child v /\ al = 8)) ->
  inc_array (s_dep st) = Ok d' -> dec_array d' = s_dep st ->
  let p0 := pad (abs_pos st) 4 in
  let p1 := pad (abs_pos st + len p0 + 4) al in
  let st' := set_dep (set_sig (grow st (p0 ++ enc (s_e st) 4 0 ++ p1) []) child) d' in
  len body < 2 ^ 32 ->
  seq_end (grow st' body hs) (written st + len p0 + 4 + len p1) (len p1) (s_sig st)
  = Ok (grow st (p0 ++ enc (s_e st) 4 (len body) ++ p1 ++ body) hs).
Proof.
  intros Hsig Hinc Hdec p0 p1 st' Hlen.
  pose proof (seq_wrap st child al d' (fun s => Ok (grow s body hs)) body hs Hsig Hinc Hdec eq_refl Hlen) as H.
  cbv zeta in H. rewrite (seq_begin_ok st child al d' Hsig Hinc) in H. cbn [bind] in H. exact H.
Qed.

(* a sequence whose body [f] behaves like the marshalling of the elements, up to the cursors *)
Lemma seq_wrap_w st child al d' (f : sstate -> res cerr sstate) body hs st2 :
  ((s_sig st = SArray child /\ align_of child = Ok al) \/ (exists v, s_sig st = SDict child v /\ al = 8)) ->
  inc_array (s_dep st) = Ok d' -> dec_array d' = s_dep st ->
  let p0 := pad (abs_pos st) 4 in
  let p1 := pad (abs_pos st + len p0 + 4) al in
  let st' := set_dep (set_sig (grow st (p0 ++ enc (s_e st) 4 0 ++ p1) []) child) d' in
  f st' = Ok st2 -> weq st2 (grow st' body hs) -> len body < 2 ^ 32 ->
  exists r, (let* (st1, start, fp, asig) := seq_begin st in let* s2 := f st1 in seq_end s2 start fp asig) = Ok r
            /\ weq r (grow st (p0 ++ enc (s_e st) 4 (len body) ++ p1 ++ body) hs)
            /\ s_sig r = s_sig st /\ (s_dep st2 = d' -> s_dep r = s_dep st).
Proof.
  intros Hsig Hinc Hdec p0 p1 st' Hf Hw Hlen.
  pose proof (seq_begin_ok st child al d' Hsig Hinc) as Hb. cbv zeta in Hb. rewrite Hb. cbn [bind].
  pose proof (seq_end_ok st child al d' body hs Hsig Hinc Hdec Hlen) as He. cbv zeta in He.
  subst st' p0 p1. rewrite Hf. cbn [bind].
  rewrite (seq_end_weq _ _ _ _ _ Hw). rewrite He.
  eexists. split; [reflexivity|]. split; [apply weq_set_dep|]. split; [reflexivity|].
  intros E. cbn [s_dep set_dep]. rewrite E. exact Hdec.
Qed.

(* ---------- depth monotonicity ---------- *)
Lemma depth_ok_mono v : forall ds da dv ds' da' dv', ds' <= ds -> da' <= da -> dv' <= dv ->
  depth_ok ds da dv v = true -> depth_ok ds' da' dv' v = true.
Proof.
  induction v using dval_ind'; intros ds da dv ds' da' dv' H1 H2 H3 Hd.
  - destruct v; try contradiction; reflexivity.
  - cbn [depth_ok] in *. apply andb_true_iff in Hd as [Ha Hb]. apply N.leb_le in Ha.
    apply andb_true_iff. split; [apply N.leb_le; lia|]. eapply IHv; [| | |exact Hb]; lia.
  - cbn [depth_ok] in *. apply andb_true_iff in Hd as [Ha Hc]. apply andb_true_iff in Ha as [Ha Hb].
    apply N.leb_le in Ha, Hb. rewrite !andb_true_iff. repeat split; try (apply N.leb_le; lia).
    rewrite forallb_forall in *. rewrite Forall_forall in H. intros x Hin. eapply (H x Hin); [| | |exact (Hc x Hin)]; lia.
  - cbn [depth_ok] in *. apply andb_true_iff in Hd as [Ha Hc]. apply andb_true_iff in Ha as [Ha Hb].
    apply N.leb_le in Ha, Hb. rewrite !andb_true_iff. repeat split; try (apply N.leb_le; lia).
    rewrite forallb_forall in *. rewrite Forall_forall in H. intros x Hin. specialize (Hc x Hin). specialize (H x Hin).
    apply andb_true_iff in Hc as [Hc1 Hc2]. destruct H as [Hk Hv]. apply andb_true_iff. split.
    + eapply Hk; [| | |exact Hc1]; lia.
    + eapply Hv; [| | |exact Hc2]; lia.
  - cbn [depth_ok] in *. apply andb_true_iff in Hd as [Ha Hc]. apply andb_true_iff in Ha as [Ha Hb].
    apply N.leb_le in Ha, Hb. rewrite !andb_true_iff. repeat split; try (apply N.leb_le; lia).
    rewrite forallb_forall in *. rewrite Forall_forall in H. intros x Hin. eapply (H x Hin); [| | |exact (Hc x Hin)]; lia.
Qed.
