(* C09/Top.v — top-level statements: to_bytes / serialized_size of a typed value, the in-message step, no descriptors. *)
From ZV Require Import Base.Bytes Base.Res Base.Sig Base.SigParse Base.SigParseFacts DBus.Val DBus.Spec DBus.Ser DBus.SerFacts DBus.SerProofs
  C09.Model C09.Spec C09.Facts C09.Comb C09.Unfold C09.Proofs C09.Main.
From Coq Require Import Lia.
Local Open Scope N_scope.

(* ---------- the denoted values carry no file descriptors ---------- *)
Lemma concat_map_nil {A} (f : A -> dval) l : (forall y, fds_of (f y) = []) -> concat (map fds_of (map f l)) = [].
Proof. intros H. induction l as [|y l IH]; [reflexivity|]. cbn [map concat]. now rewrite H, IH. Qed.

Definition NF (t : tshape) : Prop := forall x, fds_of (dval_of_shape t x) = [].

Lemma nofd_tup ts : Forall NF ts -> forall l, concat (map fds_of (dv_tup ts l)) = [].
Proof.
  induction 1 as [|t ts Ht Hts IH]; intros l; [destruct l; reflexivity|].
  destruct l as [|y l]; [reflexivity|]. cbn [dv_tup map concat]. now rewrite Ht, IH.
Qed.
Lemma nofd_nam fs : Forall (fun f => NF (snd f)) fs -> forall l, concat (map fds_of (dv_nam fs l)) = [].
Proof.
  induction 1 as [|[n t] fs Ht Hts IH]; intros l; [destruct l; reflexivity|].
  destruct l as [|y l]; [reflexivity|]. cbn [dv_nam map concat]. cbn [snd] in Ht. now rewrite Ht, IH.
Qed.
Lemma nofd_prim p x : fds_of (prim_dval p x) = [].
Proof. destruct p, x; reflexivity. Qed.

Lemma nofd_all : forall t, NF t.
Proof.
  induction t using tshape_ind'; intros x.
  - apply nofd_prim.
  - reflexivity.
  - reflexivity.
  - destruct x; try reflexivity. cbn [dval_of_shape fds_of]. now apply concat_map_nil.
  - destruct x; try reflexivity. cbn [dval_of_shape fds_of].
    induction l as [|[a b] l IH]; [reflexivity|]. cbn [map concat fst snd]. now rewrite IHt1, IHt2, IH.
  - destruct x; try reflexivity. cbn [dval_of_shape fds_of map concat]. now rewrite IHt.
  - destruct x; try reflexivity. rewrite dval_tuple. cbn [fds_of]. now apply nofd_tup.
  - apply IHt.
  - destruct fs as [|f fs]; [reflexivity|]. destruct x; try reflexivity. rewrite dval_struct. cbn [fds_of]. now apply nofd_nam.
  - destruct x; try reflexivity. cbn [dval_of_shape]. destruct r; [apply nofd_prim|reflexivity].
  - destruct x; reflexivity.
  - destruct x; try reflexivity. rewrite dval_enum. destruct (nth_error vs i) as [v|] eqn:En; [|reflexivity].
    assert (Hv : Forall (fun f => NF (snd f)) (snd v)).
    { rewrite Forall_forall in H. apply H. eapply nth_error_In. exact En. }
    destruct v as [k fs]. unfold variant_dval. cbn [fst snd] in *.
    assert (G : fds_of (VStruct [VU32 (N.of_nat i); VStruct (dv_nam fs l)]) = []).
    { cbn [fds_of map concat]. rewrite (nofd_nam fs Hv l). reflexivity. }
    destruct k; [|exact G]. destruct fs as [|[n t] [|f2 fr]]; try exact G.
    destruct l as [|y l']; [reflexivity|]. cbn [fds_of map concat]. inversion Hv as [|? ? Ht _]; subst. cbn [snd] in Ht. now rewrite Ht.
  - destruct x; try reflexivity. rewrite dval_dict. cbn [fds_of].
    revert l. induction H as [|[n [o t]] fs Ht Hfs IH]; intros l; [destruct l; reflexivity|].
    destruct l as [|y l]; [reflexivity|]. cbn [dv_dict snd] in *.
    destruct o; [destruct y|]; try apply IH; cbn [map concat fst snd fds_of]; now rewrite Ht, IH.
  - destruct x; try reflexivity. cbn [dval_of_shape]. destruct l as [|[| | | | |o| | | |] [|? ?]]; try reflexivity.
    cbn [fds_of map concat]. rewrite (concat_map_nil (prim_dval PU8) o (nofd_prim PU8)). reflexivity.
Qed.

(* ---------- the facts about signatures and values ---------- *)
Theorem signature_ok sh : shape_ok sh = true -> sig_of sh = dsig sh /\ single_ok (sig_of sh) = true.
Proof. intros H. destruct (Q_all sh H) as [[H1 H2] _]. split; assumption. Qed.

Theorem value_ok sh x : shape_ok sh = true -> typed sh x = true ->
  wf (dval_of_shape sh x) = true /\ vsig (dval_of_shape sh x) = sig_of sh /\ enc_form (dval_of_shape sh x) = true
  /\ fds_of (dval_of_shape sh x) = [].
Proof.
  intros H Ht. destruct (Q_all sh H) as [_ Hx]. destruct (Hx x Ht) as [(F1 & F2 & F3) _].
  repeat split; try assumption. apply nofd_all.
Qed.

(* ---------- the general step: in the middle of a message ---------- *)
Theorem step sh x st :
  shape_ok sh = true -> typed sh x = true ->
  s_sig st = sig_of sh -> s_vsign st = None -> fits (s_dep st) (dval_of_shape sh x) -> nfd st < 2 ^ 32 ->
  len (marshal (s_e st) ByOccurrence (dval_of_shape sh x) (abs_pos st) (nfd st)) < 2 ^ 32 ->
  (has_option sh = true -> c_oaa (s_cfg st) = true) ->
  exists st', ser (sval_of_shape sh x) st = Ok st'
    /\ s_out st' = s_out st ++ marshal (s_e st) ByOccurrence (dval_of_shape sh x) (abs_pos st) (nfd st)
    /\ s_fds st' = s_fds st /\ s_vsign st' = None /\ s_cfg st' = s_cfg st /\ s_e st' = s_e st /\ s_pos0 st' = s_pos0 st
    /\ (dep_clean sh = true -> s_dep st' = s_dep st) /\ (sig_clean sh = true -> s_sig st' = s_sig st).
Proof.
  intros Hok Ht Hs Hv Hf Hn Hl Ho. destruct (Q_all sh Hok) as [_ Hx]. destruct (Hx x Ht) as [(F1 & F2 & F3) Hk].
  pose proof (nofd_all sh x) as Hnf.
  destruct (Hk st F1 ltac:(congruence) Hv Hf ltac:(unfold nfds; rewrite Hnf; cbn; lia) Hl Ho) as (st' & E & W & D & S).
  exists st'. destruct W as (W1 & W2 & W3 & W4 & W5 & W6). unfold after in *. rewrite Hnf in *.
  split; [exact E|]. split; [exact W4|]. split; [rewrite W6; cbn; apply add_fds_nil|].
  split; [rewrite W5; exact Hv|]. repeat split; assumption.
Qed.

(* ---------- to_bytes / serialized_size ---------- *)
Theorem conforms c e pos sh x :
  shape_ok sh = true -> typed sh x = true -> (has_option sh = true -> c_oaa c = true) ->
  within_limits (dval_of_shape sh x) = true -> len (marshal_top e pos (dval_of_shape sh x)) < 2 ^ 32 ->
  ser_top c e pos (sig_of sh) (sval_of_shape sh x) = Ok (marshal_top e pos (dval_of_shape sh x), []).
Proof.
  intros Hok Ht Ho Hlim Hlen. unfold ser_top.
  destruct (step sh x (init_state c e pos (sig_of sh) (FdsMode [])) Hok Ht eq_refl eq_refl) as (st' & E & O & F & _).
  - split; [unfold dep_ok; cbn; lia|exact Hlim].
  - cbn. lia.
  - rewrite abs_pos_init, nfd_init_fds. exact Hlen.
  - exact Ho.
  - rewrite E. cbn [bind]. rewrite O, F. rewrite abs_pos_init, nfd_init_fds. reflexivity.
Qed.

Theorem size_conforms c e pos sh x :
  shape_ok sh = true -> typed sh x = true -> (has_option sh = true -> c_oaa c = true) ->
  within_limits (dval_of_shape sh x) = true -> len (marshal_top e pos (dval_of_shape sh x)) < 2 ^ 32 ->
  size_top c e pos (sig_of sh) (sval_of_shape sh x) = Ok (len (marshal_top e pos (dval_of_shape sh x)), 0).
Proof.
  intros Hok Ht Ho Hlim Hlen. unfold size_top.
  destruct (step sh x (init_state c e pos (sig_of sh) (NumMode 0)) Hok Ht eq_refl eq_refl) as (st' & E & O & F & _).
  - split; [unfold dep_ok; cbn; lia|exact Hlim].
  - cbn. lia.
  - rewrite abs_pos_init, nfd_init_num. exact Hlen.
  - exact Ho.
  - rewrite E. cbn [bind]. unfold written. rewrite O, F. rewrite abs_pos_init, nfd_init_num. reflexivity.
Qed.
