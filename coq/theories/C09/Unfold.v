(* C09/Unfold.v — induction principle for [tshape] and standalone versions of the local fixpoints of
   sig_of / dsig / sval_of_shape / dval_of_shape / typed / shape_ok / has_option, with their unfolding equations. *)
From ZV Require Import Base.Bytes Base.Res Base.Sig DBus.Val DBus.Spec DBus.Ser C09.Model C09.Spec.
From Coq Require Import Lia.

Notation variant := (vkind * list (bytes * tshape))%type (only parsing).
Notation dfield := (bytes * (bool * tshape))%type (only parsing).

Section TshapeInd.
  Variable P : tshape -> Prop.
  Hypothesis Hprim : forall p, P (TPrim p).
  Hypothesis Hunit : P TUnit.
  Hypothesis Hph : forall t, P t -> P (TPhantom t).
  Hypothesis Hseq : forall t, P t -> P (TSeq t).
  Hypothesis Hmap : forall k v, P k -> P v -> P (TMap k v).
  Hypothesis Hopt : forall t, P t -> P (TOption t).
  Hypothesis Htup : forall ts, Forall P ts -> P (TTuple ts).
  Hypothesis Hnt : forall t, P t -> P (TNewtype t).
  Hypothesis Hst : forall fs, Forall (fun f => P (snd f)) fs -> P (TStruct fs).
  Hypothesis Huenum : forall r ds, P (TUnitEnum r ds).
  Hypothesis Hsenum : forall names, P (TStrEnum names).
  Hypothesis Henum : forall vs, Forall (fun v : variant => Forall (fun f => P (snd f)) (snd v)) vs -> P (TEnum vs).
  Hypothesis Hdict : forall rn fs, Forall (fun f : dfield => P (snd (snd f))) fs -> P (TDict rn fs).
  Hypothesis Hip : P TIpAddr.

  Fixpoint tshape_ind' (sh : tshape) : P sh :=
    let flds := fix go (fs : list (bytes * tshape)) : Forall (fun f => P (snd f)) fs :=
        match fs with
        | [] => Forall_nil _
        | (n, t) :: r => Forall_cons (n, t) (tshape_ind' t) (go r)
        end in
    match sh with
    | TPrim p => Hprim p
    | TUnit => Hunit
    | TPhantom t => Hph t (tshape_ind' t)
    | TSeq t => Hseq t (tshape_ind' t)
    | TMap k v => Hmap k v (tshape_ind' k) (tshape_ind' v)
    | TOption t => Hopt t (tshape_ind' t)
    | TTuple ts => Htup ts ((fix go (ts : list tshape) : Forall P ts :=
                               match ts with [] => Forall_nil _ | t :: r => Forall_cons t (tshape_ind' t) (go r) end) ts)
    | TNewtype t => Hnt t (tshape_ind' t)
    | TStruct fs => Hst fs (flds fs)
    | TUnitEnum r ds => Huenum r ds
    | TStrEnum names => Hsenum names
    | TEnum vs => Henum vs ((fix go (vs : list variant) : Forall (fun v : variant => Forall (fun f => P (snd f)) (snd v)) vs :=
                               match vs with
                               | [] => Forall_nil _
                               | (k, fs) :: r => Forall_cons (k, fs) (flds fs) (go r)
                               end) vs)
    | TDict rn fs => Hdict rn fs ((fix go (fs : list dfield) : Forall (fun f : dfield => P (snd (snd f))) fs :=
                                     match fs with
                                     | [] => Forall_nil _
                                     | (n, (o, t)) :: r => Forall_cons (n, (o, t)) (tshape_ind' t) (go r)
                                     end) fs)
    | TIpAddr => Hip
    end.
End TshapeInd.

(* ---------- signatures of lists ---------- *)
Definition fsigs (fs : list (bytes * tshape)) : list sig := map (fun f => sig_of (snd f)) fs.
Definition fdsigs (fs : list (bytes * tshape)) : list sig := map (fun f => dsig (snd f)) fs.

Lemma sig_tuple ts : sig_of (TTuple ts) = SStruct (map sig_of ts).
Proof. reflexivity. Qed.
Lemma sig_fsigs_local fs :
  (fix go (fs : list (bytes * tshape)) : list sig := match fs with [] => [] | (_, t) :: r => sig_of t :: go r end) fs = fsigs fs.
Proof. induction fs as [|[n t] r IH]; [reflexivity|]. cbn [fsigs map snd]. now rewrite IH. Qed.
Lemma sig_struct fs : sig_of (TStruct fs) = match fs with [] => SU8 | _ => SStruct (fsigs fs) end.
Proof. destruct fs as [|[n t] r]; [reflexivity|]. cbn [sig_of]. unfold struct_sig. rewrite sig_fsigs_local. reflexivity. Qed.
Fixpoint last_variant_sig (vs : list variant) : sig :=
  match vs with
  | [] => SUnit
  | [v] => variant_sig v
  | _ :: r => last_variant_sig r
  end.
Lemma sig_enum vs : sig_of (TEnum vs) = last_variant_sig vs.
Proof.
  cbn [sig_of]. induction vs as [|[k fs] r IH]; [reflexivity|].
  destruct r as [|v2 r2].
  - cbn [last_variant_sig]. unfold variant_sig. cbn [fst snd]. rewrite sig_fsigs_local. reflexivity.
  - change (last_variant_sig ((k, fs) :: v2 :: r2)) with (last_variant_sig (v2 :: r2)). exact IH.
Qed.

Lemma dsig_tuple ts : dsig (TTuple ts) = SStruct (map dsig ts).
Proof. reflexivity. Qed.
Lemma dsig_fsigs_local fs :
  (fix go (fs : list (bytes * tshape)) : list sig := match fs with [] => [] | (_, t) :: r => dsig t :: go r end) fs = fdsigs fs.
Proof. induction fs as [|[n t] r IH]; [reflexivity|]. cbn [fdsigs map snd]. now rewrite IH. Qed.
Lemma dsig_struct fs : dsig (TStruct fs) = match fs with [] => SU8 | _ => SStruct (fdsigs fs) end.
Proof. destruct fs as [|[n t] r]; [reflexivity|]. cbn [dsig]. rewrite dsig_fsigs_local. reflexivity. Qed.
Definition first_variant_dsig (vs : list variant) : sig :=
  match vs with
  | (KUnnamed, [(_, t)]) :: _ => SStruct [SU32; dsig t]
  | (_, fs) :: _ => SStruct [SU32; SStruct (fdsigs fs)]
  | [] => SUnit
  end.
Lemma dsig_enum vs : dsig (TEnum vs) = first_variant_dsig vs.
Proof.
  destruct vs as [|[k fs] r]; [reflexivity|].
  destruct k.
  - destruct fs as [|[n t] fr]; [cbn [dsig first_variant_dsig]; reflexivity|]. destruct fr as [|f2 fr]; [reflexivity|].
    unfold first_variant_dsig. rewrite <- dsig_fsigs_local. reflexivity.
  - unfold first_variant_dsig. rewrite <- dsig_fsigs_local. reflexivity.
Qed.

(* ---------- data-model trees and values of lists ---------- *)
Fixpoint sv_tup (ts : list tshape) (l : list rval) : list sval :=
  match ts, l with t :: ts', y :: l' => sval_of_shape t y :: sv_tup ts' l' | _, _ => [] end.
Fixpoint sv_nam (fs : list (bytes * tshape)) (l : list rval) : list (bytes * sval) :=
  match fs, l with (n, t) :: fs', y :: l' => (n, sval_of_shape t y) :: sv_nam fs' l' | _, _ => [] end.
Fixpoint dv_tup (ts : list tshape) (l : list rval) : list dval :=
  match ts, l with t :: ts', y :: l' => dval_of_shape t y :: dv_tup ts' l' | _, _ => [] end.
Fixpoint dv_nam (fs : list (bytes * tshape)) (l : list rval) : list dval :=
  match fs, l with (_, t) :: fs', y :: l' => dval_of_shape t y :: dv_nam fs' l' | _, _ => [] end.
Fixpoint ty_tup (ts : list tshape) (l : list rval) : bool :=
  match ts, l with [], [] => true | t :: ts', y :: l' => typed t y && ty_tup ts' l' | _, _ => false end.
Fixpoint ty_nam (fs : list (bytes * tshape)) (l : list rval) : bool :=
  match fs, l with [], [] => true | (_, t) :: fs', y :: l' => typed t y && ty_nam fs' l' | _, _ => false end.

Lemma sval_tuple ts l : sval_of_shape (TTuple ts) (RList l) = XTuple (sv_tup ts l). Proof. reflexivity. Qed.
Lemma sval_struct fs l : sval_of_shape (TStruct fs) (RList l) = XStruct (sv_nam fs l). Proof. reflexivity. Qed.
Lemma dval_tuple ts l : dval_of_shape (TTuple ts) (RList l) = VStruct (dv_tup ts l). Proof. reflexivity. Qed.
Lemma dval_struct f fs l : dval_of_shape (TStruct (f :: fs)) (RList l) = VStruct (dv_nam (f :: fs) l). Proof. reflexivity. Qed.
Lemma typed_tuple ts l : typed (TTuple ts) (RList l) = ty_tup ts l. Proof. reflexivity. Qed.
Lemma typed_struct fs l : typed (TStruct fs) (RList l) = ty_nam fs l. Proof. reflexivity. Qed.

(* enum variants *)
Definition variant_sval (i : nat) (v : variant) (l : list rval) : sval :=
  match fst v with
  | KNamed => XStructVariant (N.of_nat i) (sv_nam (snd v) l)
  | KUnnamed =>
      match snd v with
      | [(_, t)] => match l with y :: _ => XNewtypeVariant (N.of_nat i) (sval_of_shape t y) | [] => XUnit end
      | fs => XTupleVariant (N.of_nat i) (map snd (sv_nam fs l))
      end
  end.
Definition variant_dval (i : nat) (v : variant) (l : list rval) : dval :=
  match fst v, snd v with
  | KUnnamed, [(_, t)] => match l with y :: _ => VStruct [VU32 (N.of_nat i); dval_of_shape t y] | [] => VStruct [] end
  | _, fs => VStruct [VU32 (N.of_nat i); VStruct (dv_nam fs l)]
  end.
Lemma sval_enum_aux i l vs k :
  (fix pick (vs : list variant) (k : nat) : sval :=
     match vs, k with
     | (kd, fs) :: _, O =>
         match kd with
         | KNamed => XStructVariant (N.of_nat i) (sv_nam fs l)
         | KUnnamed =>
             match fs with
             | [(_, t)] => match l with y :: _ => XNewtypeVariant (N.of_nat i) (sval_of_shape t y) | [] => XUnit end
             | _ => XTupleVariant (N.of_nat i) (map snd (sv_nam fs l))
             end
         end
     | _ :: r, S k' => pick r k'
     | [], _ => XUnit
     end) vs k = match nth_error vs k with Some v => variant_sval i v l | None => XUnit end.
Proof.
  revert k. induction vs as [|[kd fs] r IH]; intros k; [destruct k; reflexivity|].
  destruct k as [|k']; [|cbn [nth_error]; apply IH].
  cbn [nth_error]. unfold variant_sval. cbn [fst snd]. destruct kd; [|reflexivity].
  destruct fs as [|[n t] [|f2 fr]]; reflexivity.
Qed.
Lemma sval_enum vs i l :
  sval_of_shape (TEnum vs) (REnum i l) = match nth_error vs i with Some v => variant_sval i v l | None => XUnit end.
Proof. exact (sval_enum_aux i l vs i). Qed.
Lemma dval_enum_aux i l vs k :
  (fix pick (vs : list variant) (k : nat) : dval :=
     match vs, k with
     | (kd, fs) :: _, O =>
         match kd, fs with
         | KUnnamed, [(_, t)] => match l with y :: _ => VStruct [VU32 (N.of_nat i); dval_of_shape t y] | [] => VStruct [] end
         | _, _ => VStruct [VU32 (N.of_nat i); VStruct (dv_nam fs l)]
         end
     | _ :: r, S k' => pick r k'
     | [], _ => VStruct []
     end) vs k = match nth_error vs k with Some v => variant_dval i v l | None => VStruct [] end.
Proof.
  revert k. induction vs as [|[kd fs] r IH]; intros k; [destruct k; reflexivity|].
  destruct k as [|k']; [|cbn [nth_error]; apply IH].
  cbn [nth_error]. unfold variant_dval. cbn [fst snd]. destruct kd; [|reflexivity].
  destruct fs as [|[n t] [|f2 fr]]; reflexivity.
Qed.
Lemma dval_enum vs i l :
  dval_of_shape (TEnum vs) (REnum i l) = match nth_error vs i with Some v => variant_dval i v l | None => VStruct [] end.
Proof. exact (dval_enum_aux i l vs i). Qed.
Lemma typed_enum vs i l :
  typed (TEnum vs) (REnum i l) = match nth_error vs i with Some v => ty_nam (snd v) l | None => false end.
Proof.
  cbn [typed]. revert i. induction vs as [|[kd fs] r IH]; intros i; [destruct i; reflexivity|].
  destruct i as [|i']; [reflexivity|]. cbn [nth_error]. apply IH.
Qed.

(* dict-structs *)
Fixpoint sv_dict (rn : rename) (fs : list dfield) (l : list rval) : list (bytes * sval) :=
  match fs, l with
  | (n, (opt, t)) :: fs', y :: l' =>
      if opt then match y with
                  | RSome z => (dict_key rn n, as_value (sig_of t) (sval_of_shape t z)) :: sv_dict rn fs' l'
                  | _ => sv_dict rn fs' l'
                  end
      else (dict_key rn n, as_value (sig_of t) (sval_of_shape t y)) :: sv_dict rn fs' l'
  | _, _ => []
  end.
Fixpoint dv_dict (rn : rename) (fs : list dfield) (l : list rval) : list (dval * dval) :=
  match fs, l with
  | (n, (opt, t)) :: fs', y :: l' =>
      if opt then match y with
                  | RSome z => (VStr (dict_key rn n), VVariant (dval_of_shape t z)) :: dv_dict rn fs' l'
                  | _ => dv_dict rn fs' l'
                  end
      else (VStr (dict_key rn n), VVariant (dval_of_shape t y)) :: dv_dict rn fs' l'
  | _, _ => []
  end.
Fixpoint ty_dict (fs : list dfield) (l : list rval) : bool :=
  match fs, l with
  | [], [] => true
  | (_, (opt, t)) :: fs', y :: l' =>
      (if opt then match y with RNone => true | RSome z => typed t z | _ => false end else typed t y) && ty_dict fs' l'
  | _, _ => false
  end.
Lemma sval_dict rn fs l : sval_of_shape (TDict rn fs) (RList l) = XStruct (sv_dict rn fs l).
Proof.
  cbn [sval_of_shape]. f_equal. revert l. induction fs as [|[n [o t]] r IH]; intros l; [destruct l; reflexivity|].
  destruct l as [|y l']; [reflexivity|]. cbn [sv_dict]. destruct o; [destruct y|]; rewrite <- ?IH; reflexivity.
Qed.
Lemma dval_dict rn fs l : dval_of_shape (TDict rn fs) (RList l) = VDict SStr SVariant (dv_dict rn fs l).
Proof.
  cbn [dval_of_shape]. f_equal. revert l. induction fs as [|[n [o t]] r IH]; intros l; [destruct l; reflexivity|].
  destruct l as [|y l']; [reflexivity|]. cbn [dv_dict]. destruct o; [destruct y|]; rewrite <- ?IH; reflexivity.
Qed.
Lemma typed_dict rn fs l : typed (TDict rn fs) (RList l) = ty_dict fs l.
Proof.
  reflexivity.
Qed.

(* ---------- shape_ok / has_option of lists ---------- *)
Definition ok_list (ts : list tshape) : bool := forallb shape_ok ts.
Definition ok_fields (fs : list (bytes * tshape)) : bool := forallb (fun f => shape_ok (snd f)) fs.
Lemma ok_tuple ts : shape_ok (TTuple ts) = nonempty ts && ok_list ts.
Proof. reflexivity. Qed.
Lemma ok_fields_local fs :
  (fix go (fs : list (bytes * tshape)) : bool := match fs with [] => true | (_, t) :: r => shape_ok t && go r end) fs = ok_fields fs.
Proof. induction fs as [|[n t] r IH]; [reflexivity|]. cbn [ok_fields forallb snd]. now rewrite IH. Qed.
Lemma ok_struct fs : shape_ok (TStruct fs) = ok_fields fs.
Proof. cbn [shape_ok]. apply ok_fields_local. Qed.
Definition ok_variant (g : sig) (v : variant) : bool :=
  nonempty (snd v) && ok_fields (snd v)
  && (match fst v, snd v with KUnnamed, [(_, t)] => negb (is_struct_sig (sig_of t)) | _, _ => true end)
  && sig_eqb (variant_sig v) g.
Lemma ok_enum vs : shape_ok (TEnum vs) = nonempty vs && (N.of_nat (length vs) <? 4294967296)%N && forallb (ok_variant (sig_of (TEnum vs))) vs.
Proof.
  cbn [shape_ok]. f_equal. generalize (sig_of (TEnum vs)) as g. intros g.
  induction vs as [|[k fs] r IH]; [reflexivity|]. cbn [forallb]. rewrite <- IH. unfold ok_variant. cbn [fst snd].
  rewrite ok_fields_local. reflexivity.
Qed.
Definition ok_dfield (rn : rename) (f : dfield) : bool :=
  shape_ok (snd (snd f)) && str_ok (dict_key rn (fst f)) && (len (show (sig_of (snd (snd f)))) <=? 255)%N
  && (fst (snd f) || negb (match snd (snd f) with TOption _ => true | _ => false end)).
Lemma ok_dict rn fs : shape_ok (TDict rn fs) = forallb (ok_dfield rn) fs.
Proof.
  cbn [shape_ok]. induction fs as [|[n [o t]] r IH]; [reflexivity|]. cbn [forallb]. rewrite <- IH. reflexivity.
Qed.

Lemma opt_tuple ts : has_option (TTuple ts) = existsb has_option ts.
Proof. reflexivity. Qed.
Definition opt_fields (fs : list (bytes * tshape)) : bool := existsb (fun f => has_option (snd f)) fs.
Lemma opt_fields_local fs :
  (fix go (fs : list (bytes * tshape)) : bool := match fs with [] => false | (_, t) :: r => has_option t || go r end) fs = opt_fields fs.
Proof. induction fs as [|[n t] r IH]; [reflexivity|]. cbn [opt_fields existsb snd]. now rewrite IH. Qed.
Lemma opt_struct fs : has_option (TStruct fs) = opt_fields fs.
Proof. cbn [has_option]. apply opt_fields_local. Qed.
Lemma opt_enum vs : has_option (TEnum vs) = existsb (fun v : variant => opt_fields (snd v)) vs.
Proof.
  cbn [has_option]. induction vs as [|[k fs] r IH]; [reflexivity|]. cbn [existsb snd]. rewrite <- IH, opt_fields_local. reflexivity.
Qed.
Lemma opt_dict rn fs : has_option (TDict rn fs) = existsb (fun f : dfield => has_option (snd (snd f))) fs.
Proof. cbn [has_option]. induction fs as [|[n [o t]] r IH]; [reflexivity|]. cbn [existsb snd]. now rewrite <- IH. Qed.
