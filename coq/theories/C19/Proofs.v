(* C19/Proofs.v — the theorems of C19 (statements repeated in Properties/C19.v). *)
From ZV Require Import Base.Bytes Base.Res C19.Broadcast C19.BroadcastFacts C19.Model C19.Steps C19.Invariants.
From Coq Require Import Lia.

(* ------------------------------------------------------------------ C19_match *)
Definition serials_distinct (cs : list (ckind * N)) : Prop := NoDup (map snd cs).

Lemma serials_of_ident cs (l : list caller) : map ident l = cs -> map c_serial l = map snd cs.
Proof. intros <-. rewrite map_map. reflexivity. Qed.

Lemma nodup_nth {A} (l : list A) i j x : NoDup l -> nth_error l i = Some x -> nth_error l j = Some x -> i = j.
Proof.
  intros Hnd Hi Hj. eapply NoDup_nth_error; [exact Hnd | | congruence]. apply nth_error_Some. congruence.
Qed.

Theorem match_own cs cap t tr s i r c :
  reach cs cap t tr s -> In (i, r) (done_log s) -> nth_error (callers s) i = Some c ->
  match r with
  | ROk m => m_rs m = Some (c_serial c) /\ m_type m = TReturn /\
             (serials_distinct cs -> forall j c', j <> i -> nth_error (callers s) j = Some c' -> answers m (c_serial c') = false)
  | RMethodErr m => m_rs m = Some (c_serial c) /\ m_type m = TError /\
             (serials_distinct cs -> forall j c', j <> i -> nth_error (callers s) j = Some c' -> answers m (c_serial c') = false)
  | _ => True
  end.
Proof.
  intros Hr Hin Hc. destruct (done_inv _ _ _ _ _ Hr) as [_ Hd]. apply Hd in Hin. unfold st_at in Hin. rewrite Hc in Hin.
  cbn in Hin. inversion Hin as [Hst]. pose proof (own_inv _ _ _ _ _ Hr i c Hc) as Ho. rewrite Hst in Ho.
  assert (Hother : forall m, answers m (c_serial c) = true -> m_rs m = Some (c_serial c) /\
            (serials_distinct cs -> forall j c', j <> i -> nth_error (callers s) j = Some c' -> answers m (c_serial c') = false)).
  { intros m Ha. unfold answers in Ha. apply andb_true_iff in Ha. destruct Ha as [Ha _].
    destruct (m_rs m) as [x|] eqn:Em; [|discriminate]. apply N.eqb_eq in Ha. subst x. split; [reflexivity|].
    intros Hnd j c' Hne Hc'. unfold answers. rewrite Em. destruct (N.eqb (c_serial c) (c_serial c')) eqn:E; [|reflexivity].
    apply N.eqb_eq in E. exfalso. apply Hne. pose proof (serials_of_ident _ _ (kinds_inv _ _ _ _ _ Hr)) as Hs.
    unfold serials_distinct in Hnd. rewrite <- Hs in Hnd.
    eapply (nodup_nth (map c_serial (callers s)) j i (c_serial c)); [exact Hnd | |].
    - rewrite nth_error_map, Hc'. cbn. congruence.
    - rewrite nth_error_map, Hc. reflexivity. }
  destruct r; try exact I; destruct Ho as [Ha Ht]; destruct (Hother _ Ha) as [H1 H2]; auto.
Qed.

(* ------------------------------------------------------------------ C19_once *)
Theorem once cs cap t tr s : reach cs cap t tr s ->
  NoDup (map fst (done_log s)) /\ (forall i r, In (i, r) (done_log s) <-> st_at s i = Some (CDone r)).
Proof. apply done_inv. Qed.

(* ------------------------------------------------------------------ C19_sees *)
Theorem nothing_missed cs cap t tr s i c p q m :
  reach cs cap t tr s -> nth_error (callers s) i = Some c -> (c_st c = CWaiting \/ c_st c = CWritten) -> cursor (ch s) i = Some p ->
  nth_error (log (ch s)) q = Some (IMsg m) -> answers m (c_serial c) = true -> p <= q.
Proof.
  intros Hr Hc Hst Hcur Hn Ha. destruct (le_lt_dec p q) as [|Hlt]; [assumption|].
  rewrite (seen_inv _ _ _ _ _ Hr i c p q m Hc Hst Hcur Hlt Hn) in Ha. discriminate.
Qed.

(* a caller that subscribed is never without cursor before it completes: its stream can always be polled *)
Theorem waiting_has_cursor cs cap t tr s i c :
  reach cs cap t tr s -> nth_error (callers s) i = Some c -> c_st c = CWaiting -> exists p, cursor (ch s) i = Some p /\ p <= tail (ch s).
Proof.
  intros Hr Hc Hst. pose proof (rcv_inv _ _ _ _ _ Hr i) as H. unfold has_cursor, active_at in H. rewrite Hc, Hst in H. cbn in H.
  destruct (cursor (ch s) i) as [p|] eqn:E; [|discriminate]. exists p. split; [reflexivity|]. eapply curle_inv; eassumption.
Qed.

Theorem written_has_cursor cs cap t tr s i c :
  reach cs cap t tr s -> nth_error (callers s) i = Some c -> c_st c = CWritten -> exists p, cursor (ch s) i = Some p /\ p <= tail (ch s).
Proof.
  intros Hr Hc Hst. pose proof (rcv_inv _ _ _ _ _ Hr i) as H. unfold has_cursor, active_at in H. rewrite Hc, Hst in H. cbn in H.
  destruct (cursor (ch s) i) as [p|] eqn:E; [|discriminate]. exists p. split; [reflexivity|]. eapply curle_inv; eassumption.
Qed.

Definition is_recv (i : nat) (l : label) : bool := match l with LRecv j => Nat.eqb i j | _ => false end.
Definition is_timeout (i : nat) (l : label) : bool := match l with LTimeout j => Nat.eqb i j | _ => false end.
Definition count_recv (i : nat) (tr : list label) : nat := length (filter (is_recv i) tr).

(* the items between the cursor and position q are messages that do not answer this serial *)
Definition clean_until (l : list item) (p q : nat) (serial : N) : Prop :=
  forall j, p <= j < q -> exists m, nth_error l j = Some (IMsg m) /\ answers m serial = false.

(* what other tasks do does not touch a waiting caller: its state and cursor stay, the log only grows *)
Lemma frame s l s' i c : tstep s l s' -> is_recv i l = false -> is_timeout i l = false ->
  nth_error (callers s) i = Some c -> c_st c = CWaiting ->
  nth_error (callers s') i = Some c /\ cursor (ch s') i = cursor (ch s) i /\ exists ext, log (ch s') = log (ch s) ++ ext.
Proof.
  intros H Hnr Hnt Hc Hst.
  assert (Hupd : forall j c0 st, nth_error (callers s) j = Some c0 -> c_st c0 <> CWaiting ->
            nth_error (upd (callers s) j (set_st c0 st)) i = Some c /\ j <> i).
  { intros j c0 st Hj Hne. assert (j <> i) by (intros ->; rewrite Hc in Hj; inversion Hj; subst; congruence).
    split; [now rewrite nth_error_upd_other by congruence | assumption]. }
  assert (Hupdw : forall j c0 st, nth_error (callers s) j = Some c0 -> j <> i ->
            nth_error (upd (callers s) j (set_st c0 st)) i = Some c).
  { intros j c0 st Hj Hne. now rewrite nth_error_upd_other by congruence. }
  assert (Hnil : forall (l0 : list item), exists ext, l0 = l0 ++ ext) by (intros l0; exists []; now rewrite app_nil_r).
  destruct H; cbn [callers ch with_ch with_callers with_wlock with_wire with_reader with_socket finish];
    rewrite ?log_subscribe, ?log_drop, ?log_close, ?cursor_close; cbn [is_recv is_timeout] in Hnr, Hnt.
  - destruct (Hupd i0 c0 CSubscribed H ltac:(congruence)) as [E Hne]. repeat split; [exact E | | apply Hnil].
    rewrite cursor_subscribe. destruct (cursor (ch s) i); [reflexivity|].
    now replace (Nat.eqb i0 i) with false by (symmetry; apply Nat.eqb_neq; congruence).
  - destruct (Hupd i0 c0 CSending H ltac:(congruence)) as [E Hne]. repeat split; [exact E | apply Hnil].
  - destruct (Hupd i0 c0 (CDone RNoReply) H ltac:(congruence)) as [E Hne]. repeat split; [exact E | | apply Hnil].
    apply cursor_drop_other; congruence.
  - destruct (Hupd i0 c0 CWaiting H ltac:(congruence)) as [E Hne]. repeat split; [exact E | apply Hnil].
  - destruct (Hupd i0 c0 (CDone RSendFail) H ltac:(congruence)) as [E Hne]. repeat split; [exact E | | apply Hnil].
    apply cursor_drop_other; congruence.
  - assert (Hne : i0 <> i) by (intros ->; rewrite Nat.eqb_refl in Hnr; discriminate).
    apply try_recv_got in H1. destruct H1 as (p0 & Hc0 & Hn0 & Hl & Hcl & Hci & Hco).
    repeat split; [now apply Hupdw | | rewrite Hl; apply Hnil]. rewrite cursor_drop_other by congruence. apply Hco. congruence.
  - assert (Hne : i0 <> i) by (intros ->; rewrite Nat.eqb_refl in Hnr; discriminate).
    apply try_recv_got in H1. destruct H1 as (p0 & Hc0 & Hn0 & Hl & Hcl & Hci & Hco).
    repeat split; [assumption | | rewrite Hl; apply Hnil]. apply Hco. congruence.
  - assert (Hne : i0 <> i) by (intros ->; rewrite Nat.eqb_refl in Hnr; discriminate).
    apply try_recv_got in H1. destruct H1 as (p0 & Hc0 & Hn0 & Hl & Hcl & Hci & Hco).
    repeat split; [now apply Hupdw | | rewrite Hl; apply Hnil]. rewrite cursor_drop_other by congruence. apply Hco. congruence.
  - assert (Hne : i0 <> i) by (intros ->; rewrite Nat.eqb_refl in Hnr; discriminate).
    repeat split; [now apply Hupdw | | apply Hnil]. apply cursor_drop_other; congruence.
  - assert (Hne : i0 <> i) by (intros ->; rewrite Nat.eqb_refl in Hnt; discriminate).
    repeat split; [now apply Hupdw | | apply Hnil]. apply cursor_drop_other; congruence.
  - repeat split; [assumption | apply Hnil].
  - apply try_push_pushed in H0. destruct H0 as (Hl & Hr & _). repeat split; [assumption | | exists [it]; exact Hl].
    unfold cursor. now rewrite Hr.
  - repeat split; [assumption | apply Hnil].
  - repeat split; [assumption | apply Hnil].
  - repeat split; [assumption | apply Hnil].
  - repeat split; [assumption | apply Hnil].
  - rewrite hijack_callers, hijack_cursor, hijack_log. repeat split; [assumption | apply Hnil].
  - destruct (Hupd i0 c0 CWritten H ltac:(congruence)) as [E Hne]. repeat split; [exact E | apply Hnil].
  - destruct (Hupd i0 c0 (CDone RNoReply) H ltac:(congruence)) as [E Hne]. repeat split; [exact E | | apply Hnil].
    apply cursor_drop_other; congruence.
  - destruct (Hupd i0 c0 CWaiting H ltac:(congruence)) as [E Hne]. repeat split; [exact E | apply Hnil].
Qed.

Lemma nth_error_ext {A} (l ext : list A) j x : nth_error l j = Some x -> nth_error (l ++ ext) j = Some x.
Proof. intros H. rewrite nth_error_app1; [assumption|]. apply nth_error_Some. congruence. Qed.

Lemma clean_ext l ext p q serial : clean_until l p q serial -> clean_until (l ++ ext) p q serial.
Proof. intros H j Hj. destruct (H j Hj) as (m & Hn & Ha). exists m. split; [now apply nth_error_ext | assumption]. Qed.

(* the first answer behind... in front of the cursor is reached after q - p + 1 items, whatever else happens in between *)
Theorem sees_progress : forall tr' s s' i c p q m,
  nth_error (callers s) i = Some c -> c_st c = CWaiting -> cursor (ch s) i = Some p -> p <= q ->
  nth_error (log (ch s)) q = Some (IMsg m) -> answers m (c_serial c) = true ->
  clean_until (log (ch s)) p q (c_serial c) ->
  exec tr' s = Some s' -> existsb (is_timeout i) tr' = false -> q - p < count_recv i tr' ->
  st_at s' i = Some (CDone (res_of m)).
Proof.
  induction tr' as [|l tr' IH]; intros s s' i c p q m Hc Hst Hcur Hpq Hq Ha Hcl He Hnt Hcnt.
  - cbn in Hcnt. lia.
  - cbn [exec] in He. destruct (step l s) as [s1|] eqn:Es; [|discriminate]. cbn [existsb] in Hnt.
    apply orb_false_iff in Hnt. destruct Hnt as [Hnt1 Hnt].
    pose proof (step_tstep _ _ _ Es) as Ht. unfold count_recv in Hcnt. cbn [filter] in Hcnt.
    destruct (is_recv i l) eqn:Er.
    + (* the caller takes one item *)
      destruct l; cbn in Er; try discriminate. apply Nat.eqb_eq in Er. subst i0. cbn [length] in Hcnt. clear Ht.
      unfold step in Es. rewrite Hc, Hst in Es. unfold try_recv in Es. rewrite Hcur in Es.
      destruct (Nat.eq_dec p q) as [->|Hne].
      * (* the answer itself *)
        rewrite Hq, Ha in Es. inversion Es; subst s1. eapply done_exec; [eassumption|].
        unfold st_at. cbn [callers finish with_ch]. erewrite nth_error_upd_same by eassumption.
        cbn. unfold res_of. reflexivity.
      * (* not an answer: one step closer *)
        destruct (Hcl p ltac:(lia)) as (m' & Hm' & Ha'). rewrite Hm', Ha' in Es. inversion Es; subst s1.
        apply (IH (with_ch s (with_rcv (ch s) (set_cursor (rcv (ch s)) i (S p)))) s' i c (S p) q m); cbn [callers ch with_ch log with_rcv];
          [exact Hc | exact Hst | | lia | exact Hq | exact Ha | | exact He | exact Hnt | unfold count_recv; lia].
        -- unfold cursor, with_rcv. cbn [rcv]. eapply cursor_in_set_same. exact Hcur.
        -- intros j Hj. apply Hcl. lia.
    + destruct (frame _ _ _ i c Ht Er Hnt1 Hc Hst) as (Hc1 & Hcur1 & ext & Hl1).
      eapply (IH s1 s' i c p q m); try eassumption.
      * now rewrite Hcur1.
      * rewrite Hl1. now apply nth_error_ext.
      * rewrite Hl1. now apply clean_ext.
Qed.

(* ------------------------------------------------------------------ C19_noreply *)
Theorem noreply_completes s i c : nth_error (callers s) i = Some c -> c_st c = CSending -> c_kind c = KNoReply ->
  exists s', step (LSend i true) s = Some s' /\ st_at s' i = Some (CDone RNoReply).
Proof.
  intros Hc Hst Hk. unfold step. rewrite Hc, Hst, Hk. eexists. split; [reflexivity|].
  unfold st_at. cbn [callers finish]. cbn [callers with_wire with_wlock]. erewrite nth_error_upd_same by eassumption. reflexivity.
Qed.

(* ------------------------------------------------------------------ C19_fail *)
Lemma stopped_frame s l s' : tstep s l s' -> reader s = RStopped -> closed (ch s) = true ->
  reader s' = RStopped /\ closed (ch s') = true /\ log (ch s') = log (ch s).
Proof.
  intros H Hr Hcl.
  destruct H; cbn [reader ch with_ch with_callers with_wlock with_wire with_reader with_socket finish];
    rewrite ?log_subscribe, ?log_drop, ?closed_subscribe, ?closed_drop; try congruence; try (repeat split; assumption).
  - apply try_recv_got in H1. destruct H1 as (p0 & _ & _ & Hl & Hc & _). repeat split; congruence.
  - apply try_recv_got in H1. destruct H1 as (p0 & _ & _ & Hl & Hc & _). repeat split; congruence.
  - apply try_recv_got in H1. destruct H1 as (p0 & _ & _ & Hl & Hc & _). repeat split; congruence.
Qed.

Theorem fail_progress : forall tr' s s' i c p,
  reader s = RStopped -> closed (ch s) = true ->
  nth_error (callers s) i = Some c -> c_st c = CWaiting -> cursor (ch s) i = Some p -> p <= tail (ch s) ->
  exec tr' s = Some s' -> tail (ch s) - p < count_recv i tr' -> exists r, st_at s' i = Some (CDone r).
Proof.
  induction tr' as [|l tr' IH]; intros s s' i c p Hrd Hcl Hc Hst Hcur Hle He Hcnt.
  - cbn in Hcnt. lia.
  - cbn [exec] in He. destruct (step l s) as [s1|] eqn:Es; [|discriminate].
    pose proof (step_tstep _ _ _ Es) as Ht. destruct (stopped_frame _ _ _ Ht Hrd Hcl) as (Hrd1 & Hcl1 & Hl1).
    unfold count_recv in Hcnt. cbn [filter] in Hcnt.
    assert (Hdone : forall r, st_at s1 i = Some (CDone r) -> exists r', st_at s' i = Some (CDone r')).
    { intros r Hd. exists r. eapply done_exec; eassumption. }
    destruct (is_recv i l) eqn:Er.
    + destruct l; cbn in Er; try discriminate. apply Nat.eqb_eq in Er. subst i0. cbn [length] in Hcnt. clear Ht.
      unfold step in Es. rewrite Hc, Hst in Es. unfold try_recv in Es. rewrite Hcur in Es.
      assert (Hfin : forall sx r, finish sx i c r = s1 -> callers sx = callers s -> exists r', st_at s' i = Some (CDone r')).
      { intros sx r <- Ecs. eapply Hdone. unfold st_at. cbn [callers finish]. rewrite Ecs.
        erewrite nth_error_upd_same by eassumption. reflexivity. }
      destruct (nth_error (log (ch s)) p) as [x|] eqn:En.
      * destruct x as [m|e].
        -- destruct (answers m (c_serial c)); inversion Es as [E1]; [eapply Hfin; [exact E1 | reflexivity]|].
           assert (p < length (log (ch s))) by (apply nth_error_Some; congruence).
           subst s1.
           apply (IH (with_ch s (with_rcv (ch s) (set_cursor (rcv (ch s)) i (S p)))) s' i c (S p)); cbn [callers ch with_ch reader log with_rcv closed];
             [exact Hrd | exact Hcl | exact Hc | exact Hst | | | exact He | ].
           ++ unfold cursor, with_rcv. cbn [rcv]. eapply cursor_in_set_same. exact Hcur.
           ++ unfold tail, with_rcv. cbn [log]. lia.
           ++ unfold tail, with_rcv in *. cbn [log]. unfold count_recv. lia.
        -- inversion Es as [E1]. eapply Hfin; [exact E1 | reflexivity].
      * rewrite Hcl in Es. inversion Es as [E1]. eapply Hfin; [exact E1 | reflexivity].
    + destruct (is_timeout i l) eqn:Et.
      * destruct l; cbn in Et; try discriminate. apply Nat.eqb_eq in Et. subst i0. clear Ht.
        unfold step in Es. rewrite Hc, Hst in Es. destruct (c_kind c); try discriminate; (destruct (tmo s); [|discriminate]);
          inversion Es as [E1]; eapply Hdone; rewrite <- E1; unfold st_at; cbn [callers finish]; erewrite nth_error_upd_same by eassumption; reflexivity.
      * destruct (frame _ _ _ i c Ht Er Et Hc Hst) as (Hc1 & Hcur1 & _).
        eapply (IH s1 s' i c p); try eassumption.
        -- now rewrite Hcur1.
        -- unfold tail. rewrite Hl1. exact Hle.
        -- unfold tail in *. now rewrite Hl1.
Qed.

Theorem fail_completes cs cap t tr s tr' s' i c :
  reach cs cap t tr s -> reader s = RStopped -> nth_error (callers s) i = Some c -> c_st c = CWaiting ->
  exec tr' s = Some s' -> length (log (ch s)) < count_recv i tr' -> exists r, st_at s' i = Some (CDone r).
Proof.
  intros Hr Hrd Hc Hst He Hcnt. destruct (waiting_has_cursor _ _ _ _ _ i c Hr Hc Hst) as (p & Hcur & Hle).
  eapply fail_progress; try eassumption.
  - eapply stopped_inv; eassumption.
  - unfold tail. lia.
Qed.

(* every item can be taken: a waiting caller with something unread, or a closed channel, is never stuck *)
Theorem recv_enabled cs cap t tr s i c :
  reach cs cap t tr s -> nth_error (callers s) i = Some c -> c_st c = CWaiting ->
  (exists p, cursor (ch s) i = Some p /\ (p < tail (ch s) \/ closed (ch s) = true)) -> exists s', step (LRecv i) s = Some s'.
Proof.
  intros Hr Hc Hst (p & Hcur & Hp). unfold step. rewrite Hc, Hst. unfold try_recv. rewrite Hcur.
  destruct (nth_error (log (ch s)) p) as [x|] eqn:En.
  - destruct x as [m|e]; [destruct (answers m (c_serial c))|]; eexists; reflexivity.
  - destruct Hp as [Hp|Hp].
    + apply nth_error_None in En. unfold tail in Hp. lia.
    + rewrite Hp. eexists; reflexivity.
Qed.

(* ------------------------------------------------------------------ C19_timeout: with a timeout configured, the timer of every
   waiting call — Connection::call_method, Proxy::call and (since commit 3eb91a8f) Proxy::call_with_flags alike — can fire and
   completes the call with TimedOut *)
Theorem timeout_full cs cap t tr s i c :
  reach cs cap t tr s -> tmo s = true -> nth_error (callers s) i = Some c -> c_st c = CWaiting ->
  exists s', step (LTimeout i) s = Some s' /\ st_at s' i = Some (CDone RTimedOut).
Proof.
  intros Hr Ht Hc Hst. pose proof (noreply_inv _ _ _ _ _ Hr i c Hc) as Hn.
  destruct (c_kind c) eqn:Ek; [| |exfalso; now apply Hn];
    (unfold step; rewrite Hc, Hst, Ek, Ht; eexists; split; [reflexivity|];
     unfold st_at; cbn [callers finish]; erewrite nth_error_upd_same by eassumption; reflexivity).
Qed.

(* without a configured timeout no timer exists: LTimeout is never enabled *)
Theorem no_timeout_without_config cs cap t tr s i : reach cs cap t tr s -> t = false -> step (LTimeout i) s = None.
Proof.
  intros Hr ->. assert (Ht : tmo s = false).
  { clear i. induction Hr as [|tr s l s' Hr IH Hs]; [reflexivity|]. apply step_tstep in Hs. destruct Hs; try exact IH. }
  unfold step. destruct (nth_error (callers s) i) as [c|]; [|reflexivity]. destruct (c_st c); try reflexivity.
  destruct (c_kind c); try reflexivity; now rewrite Ht.
Qed.

(* ------------------------------------------------------------------ the reply reaches the channel — unless the application has
   subscribed to exactly the rule under which Connection::new registered the method-return channel (LHijack) *)
Definition is_hijack (l : label) : bool := match l with LHijack _ => true | _ => false end.
Definition has_hijack (tr : list label) : bool := existsb is_hijack tr.

Lemma has_hijack_app tr l : has_hijack (tr ++ [l]) = has_hijack tr || is_hijack l.
Proof. unfold has_hijack. rewrite existsb_app. cbn. now rewrite orb_false_r. Qed.

(* both entries are in place as long as nobody has taken one *)
Lemma keys_inv cs cap t tr s : reach cs cap t tr s -> has_hijack tr = false -> kret s = true /\ kerr s = true.
Proof.
  induction 1 as [|tr s l s' Hr IH Hs]; [split; reflexivity|]. rewrite has_hijack_app. intros Hh. apply orb_false_iff in Hh. destruct Hh as [Hh Hl].
  specialize (IH Hh). apply step_tstep in Hs. destruct Hs; try exact IH. discriminate.
Qed.

(* the channel is closed only when the reader has failed or both entries are gone *)
Lemma closed_inv cs cap t tr s : reach cs cap t tr s -> closed (ch s) = true -> reader s = RStopped \/ (kret s = false /\ kerr s = false).
Proof.
  induction 1 as [|tr s l s' Hr IH Hs]; [discriminate|]. apply step_tstep in Hs.
  destruct Hs; cbn [ch reader kret kerr with_ch with_callers with_wlock with_wire with_reader with_socket finish];
    rewrite ?closed_subscribe, ?closed_drop; try exact IH;
    try (intros Hc; destruct (IH Hc) as [Hx|Hx]; [congruence | right; exact Hx]).
  - apply try_recv_got in H1. destruct H1 as (p0 & _ & _ & _ & Hcl & _). rewrite Hcl. exact IH.
  - apply try_recv_got in H1. destruct H1 as (p0 & _ & _ & _ & Hcl & _). rewrite Hcl. exact IH.
  - apply try_recv_got in H1. destruct H1 as (p0 & _ & _ & _ & Hcl & _). rewrite Hcl. exact IH.
  - apply try_push_pushed in H0. destruct H0 as (_ & _ & _ & Hcl & Hf). rewrite Hcl, Hf. discriminate.
  - intros _. now left.
  - (* hijack *) unfold hijack. cbn [ch reader kret kerr]. destruct e.
    + cbn [orb]. rewrite orb_false_r. destruct (kret s) eqn:Ek; [|intros _; right; split; reflexivity].
      intros Hc. destruct (IH Hc) as [Hx|[Hx _]]; congruence.
    + cbn [orb]. destruct (kerr s) eqn:Ek; [|intros _; right; split; reflexivity].
      intros Hc. destruct (IH Hc) as [Hx|[Hx _]]; congruence.
Qed.

Definition delivery_statement (only_without_hijack : bool) : Prop :=
  forall cs cap0 t tr s i c m rest, reach cs cap0 t tr s -> (only_without_hijack = true -> has_hijack tr = false) ->
    reader s = RIdle -> socket s = IMsg m :: rest ->
    nth_error (callers s) i = Some c -> (c_st c = CWaiting \/ c_st c = CWritten) -> answers m (c_serial c) = true -> qlen (ch s) < cap (ch s) ->
    exists s', exec [LRead; LPush; LNext] s = Some s' /\ log (ch s') = log (ch s) ++ [IMsg m] /\ reader s' = RIdle /\ socket s' = rest.

Theorem delivery_partial : delivery_statement true.
Proof.
  intros cs cap0 t tr s i c m rest Hr Hh Hrd Hso Hc Hst Ha Hroom. destruct (keys_inv _ _ _ _ _ Hr (Hh eq_refl)) as [Hkr Hke].
  assert (Hcur' : exists p, cursor (ch s) i = Some p).
  { destruct Hst as [Hst|Hst]; [destruct (waiting_has_cursor _ _ _ _ _ i c Hr Hc Hst) as (p & Hp & _) | destruct (written_has_cursor _ _ _ _ _ i c Hr Hc Hst) as (p & Hp & _)]; eauto. }
  destruct Hcur' as (p & Hcur).
  assert (Hncl : closed (ch s) = false).
  { destruct (closed (ch s)) eqn:E; [|reflexivity]. destruct (closed_inv _ _ _ _ _ Hr E) as [Hx|[Hx _]]; congruence. }
  assert (Hfan : fanout s (IMsg m) = 1).
  { unfold answers in Ha. apply andb_true_iff in Ha. destruct Ha as [_ Hrep]. unfold fanout. destruct (m_type m); try discriminate; [now rewrite Hkr | now rewrite Hke]. }
  cbn [exec]. unfold step at 1. rewrite Hrd, Hso, Hfan.
  unfold step at 1. cbn [reader with_reader with_socket ch]. unfold try_push. rewrite Hncl.
  pose proof (cursor_some_rcv _ (ch s) i p Hcur) as Hrcv. destruct (rcv (ch s)) as [|r0 rs] eqn:Er; [congruence|].
  assert (Hfull : (cap (ch s) <=? qlen (ch s)) = false) by (apply Nat.leb_gt; exact Hroom). rewrite Hfull.
  unfold step at 1. cbn [reader with_reader with_ch]. eexists. split; [reflexivity|]. cbn. repeat split; reflexivity.
Qed.

(* the witness: one call written, the application subscribes to type='method_return', the reply arrives *)
Definition hijack_cs : list (ckind * N) := [(KCall, 1%N)].
Definition hijack_reply : msg := {| m_id := 0; m_type := TReturn; m_rs := Some 1%N |}.
Definition hijack_trace : list label := [LSub 0; LLock 0; LSend 0 true; LHijack false; LArrive (IMsg hijack_reply)].
Definition hijack_witness : sys := match exec hijack_trace (init hijack_cs 8 false) with Some s => s | None => init hijack_cs 8 false end.

Lemma hijack_witness_exec : exec hijack_trace (init hijack_cs 8 false) = Some hijack_witness.
Proof. vm_compute. reflexivity. Qed.

(* ------------------------------------------------------------------ the replay of the correspondence check stays inside the relation *)
Lemma exec_reach_gen cs cap t : forall tr tr0 s0 s, reach cs cap t tr0 s0 -> exec tr s0 = Some s -> reach cs cap t (tr0 ++ tr) s.
Proof.
  induction tr as [|l tr IH]; intros tr0 s0 s Hr He; cbn [exec] in He.
  - inversion He; subst. now rewrite app_nil_r.
  - destruct (step l s0) as [s1|] eqn:E; [|discriminate].
    replace (tr0 ++ l :: tr) with ((tr0 ++ [l]) ++ tr) by (now rewrite <- app_assoc).
    apply (IH _ s1); [econstructor; eassumption | assumption].
Qed.
Theorem exec_reach cs cap t tr s : exec tr (init cs cap t) = Some s -> reach cs cap t tr s.
Proof. intros H. apply (exec_reach_gen cs cap t tr [] (init cs cap t) s); [constructor | assumption]. Qed.

(* ---- the refutation of the full statement, and what it means: after the hijack no METHOD_RETURN ever enters the channel ---- *)
Lemma hijack_witness_reach : reach hijack_cs 8 false hijack_trace hijack_witness.
Proof. apply exec_reach. exact hijack_witness_exec. Qed.

Theorem hijack_refuted : ~ delivery_statement false.
Proof.
  intros H.
  destruct (H hijack_cs 8 false hijack_trace hijack_witness 0 {| c_kind := KCall; c_serial := 1%N; c_st := CWaiting |} hijack_reply []
              hijack_witness_reach) as (s' & He & _); try reflexivity; try discriminate; try (left; reflexivity).
  vm_compute. lia.
Qed.

Definition ret_dead (s : sys) : Prop := kret s = false /\ forall m n, reader s = RPush (IMsg m) (S n) -> m_type m <> TReturn.

Lemma hijack_ret_dead s s' : step (LHijack false) s = Some s' -> ret_dead s'.
Proof.
  intros H. apply step_tstep in H. inversion H; subst. split; [reflexivity|]. intros m n Hrd. rewrite hijack_reader in Hrd. congruence.
Qed.

Lemma ret_dead_step s l s' : tstep s l s' -> ret_dead s ->
  ret_dead s' /\ forall m, In (IMsg m) (log (ch s')) -> m_type m = TReturn -> In (IMsg m) (log (ch s)).
Proof.
  intros H [Hk Hrd].
  destruct H; unfold ret_dead; cbn [ch reader kret with_ch with_callers with_wlock with_wire with_reader with_socket finish];
    rewrite ?log_subscribe, ?log_drop, ?log_close;
    try (split; [split; [exact Hk | exact Hrd] | intros m0 Hin _; exact Hin]).
  - apply try_recv_got in H1. destruct H1 as (p0 & _ & _ & Hl & _). rewrite Hl. split; [split; [exact Hk | exact Hrd] | intros m0 Hin _; exact Hin].
  - apply try_recv_got in H1. destruct H1 as (p0 & _ & _ & Hl & _). rewrite Hl. split; [split; [exact Hk | exact Hrd] | intros m0 Hin _; exact Hin].
  - apply try_recv_got in H1. destruct H1 as (p0 & _ & _ & Hl & _). rewrite Hl. split; [split; [exact Hk | exact Hrd] | intros m0 Hin _; exact Hin].
  - (* read *) split; [|intros m0 Hin _; exact Hin]. split; [exact Hk|]. intros m n E. inversion E; subst it. intros Ht.
    unfold fanout in H3. rewrite Ht, Hk in H3. discriminate.
  - (* push *) apply try_push_pushed in H0. destruct H0 as (Hl & _). split.
    + split; [exact Hk|]. intros m n0 E. inversion E; subst. eapply Hrd. exact H.
    + intros m0 Hin Ht. rewrite Hl in Hin. apply in_app_iff in Hin. destruct Hin as [Hin|[E|[]]]; [exact Hin|]. subst it.
      exfalso. exact (Hrd _ _ H Ht).
  - (* push skipped *) split; [|intros m0 Hin _; exact Hin]. split; [exact Hk|]. intros m n0 E. inversion E; subst. eapply Hrd. exact H.
  - split; [|intros m0 Hin _; exact Hin]. split; [exact Hk|]. intros m0 n E. discriminate.
  - split; [|intros m0 Hin _; exact Hin]. split; [exact Hk|]. intros m0 n E. discriminate.
  - (* another hijack *) rewrite hijack_log. split; [|intros m0 Hin _; exact Hin]. split.
    + unfold hijack. cbn [kret]. destruct e; [exact Hk | reflexivity].
    + intros m n E. rewrite hijack_reader in E. congruence.
Qed.

Theorem returns_lost_for_ever : forall tr' s s', ret_dead s -> exec tr' s = Some s' ->
  ret_dead s' /\ forall m, In (IMsg m) (log (ch s')) -> m_type m = TReturn -> In (IMsg m) (log (ch s)).
Proof.
  induction tr' as [|l tr' IH]; intros s s' Hd He; cbn [exec] in He.
  - inversion He; subst. split; [exact Hd | auto].
  - destruct (step l s) as [s1|] eqn:Es; [|discriminate]. apply step_tstep in Es. destruct (ret_dead_step _ _ _ Es Hd) as [Hd1 Hl1].
    destruct (IH _ _ Hd1 He) as [Hd' Hl']. split; [exact Hd'|]. intros m Hin Ht. apply Hl1; [|exact Ht]. apply Hl'; assumption.
Qed.

(* the forms stated in Properties/C19.v *)
Theorem delivery_partial_stated :
  forall cs cap0 t tr s i c m rest, reach cs cap0 t tr s -> has_hijack tr = false ->
    reader s = RIdle -> socket s = IMsg m :: rest ->
    nth_error (callers s) i = Some c -> (c_st c = CWaiting \/ c_st c = CWritten) -> answers m (c_serial c) = true -> qlen (ch s) < cap (ch s) ->
    exists s', exec [LRead; LPush; LNext] s = Some s' /\ log (ch s') = log (ch s) ++ [IMsg m] /\ reader s' = RIdle /\ socket s' = rest.
Proof. intros cs cap0 t tr s i c m rest Hr Hk. exact (delivery_partial cs cap0 t tr s i c m rest Hr (fun _ => Hk)). Qed.

Theorem hijack_refuted_stated :
  ~ (forall cs cap0 t tr s i c m rest, reach cs cap0 t tr s ->
       reader s = RIdle -> socket s = IMsg m :: rest ->
       nth_error (callers s) i = Some c -> (c_st c = CWaiting \/ c_st c = CWritten) -> answers m (c_serial c) = true -> qlen (ch s) < cap (ch s) ->
       exists s', exec [LRead; LPush; LNext] s = Some s' /\ log (ch s') = log (ch s) ++ [IMsg m] /\ reader s' = RIdle /\ socket s' = rest).
Proof. intros H. apply hijack_refuted. intros cs cap0 t tr s i c m rest Hr _. exact (H cs cap0 t tr s i c m rest Hr). Qed.

Theorem hijacked_returns_lost : forall s0 s tr' s',
  step (LHijack false) s0 = Some s -> exec tr' s = Some s' ->
  forall m, In (IMsg m) (log (ch s')) -> m_type m = TReturn -> In (IMsg m) (log (ch s)).
Proof. intros s0 s tr' s' Hh He. exact (proj2 (returns_lost_for_ever tr' s s' (hijack_ret_dead s0 s Hh) He)). Qed.

(* NoReplyExpected when the write completes before send() returns: complete at the return *)
Theorem noreply_completes_late s i c : nth_error (callers s) i = Some c -> c_st c = CWritten -> c_kind c = KNoReply ->
  exists s', step (LRet i) s = Some s' /\ st_at s' i = Some (CDone RNoReply).
Proof.
  intros Hc Hst Hk. unfold step. rewrite Hc, Hst, Hk. eexists. split; [reflexivity|].
  unfold st_at. cbn [callers finish]. cbn [callers with_wlock]. erewrite nth_error_upd_same by eassumption. reflexivity.
Qed.

(* the interleaving a "send first, subscribe afterwards" variant of call_method_raw loses: the call's bytes are out, the peer's
   reply arrives and is handled completely by the socket reader BEFORE send() returns to the caller, no other call is pending.
   The receiver was activated before the send, so the reply is in the channel and the caller gets it. *)
Definition early_cs : list (ckind * N) := [(KCall, 1%N)].
Definition early_reply : msg := {| m_id := 0; m_type := TReturn; m_rs := Some 1%N |}.
Definition early_trace : list label := [LSub 0; LLock 0; LWire 0; LArrive (IMsg early_reply); LRead; LPush; LNext; LRet 0; LRecv 0].
Lemma early_reply_received :
  exists s, exec early_trace (init early_cs 8 false) = Some s /\ st_at s 0 = Some (CDone (ROk early_reply)) /\ done_log s = [(0, ROk early_reply)].
Proof. eexists. split; [vm_compute; reflexivity|]. vm_compute. split; reflexivity. Qed.

(* ------------------------------------------------------------------ non-vacuity: three callers, replies out of order, one of them
   queued before its caller ever polls, a stray, a failure at the end *)
Definition demo_cs : list (ckind * N) := [(KCall, 11%N); (KCall, 12%N); (KNoReply, 13%N)].
Definition ret (k : nat) (r : N) : item := IMsg {| m_id := k; m_type := TReturn; m_rs := Some r |}.
Definition err (k : nat) (r : N) : item := IMsg {| m_id := k; m_type := TError; m_rs := Some r |}.
Definition demo_tr : list label :=
  [LSub 0; LLock 0; LSend 0 true; LSub 1; LLock 1; LSend 1 true; LSub 2; LLock 2; LSend 2 true;
   LArrive (err 0 12); LArrive (ret 1 99); LArrive (ret 2 11); LRead; LPush; LNext; LRead; LPush; LNext; LRead; LPush; LNext;
   LRecv 0; LRecv 0; LRecv 0; LRecv 1; LArrive (IFail EEof); LRead; LPush; LPush; LNext].

Example demo_run : exists s, exec demo_tr (init demo_cs 8 false) = Some s /\ serials_distinct demo_cs /\
  done_log s = [(2, RNoReply); (0, ROk {| m_id := 2; m_type := TReturn; m_rs := Some 11%N |});
                (1, RMethodErr {| m_id := 0; m_type := TError; m_rs := Some 12%N |})] /\
  reader s = RStopped /\ closed (ch s) = true.
Proof.
  eexists. split; [vm_compute; reflexivity|]. split; [|repeat split].
  unfold serials_distinct, demo_cs. cbn. repeat constructor; cbn; intuition discriminate.
Qed.

(* a waiting caller whose answer is two items ahead: the hypotheses of sees_progress hold and three polls suffice *)
Example demo_sees : exists s c, exec (firstn 21 demo_tr) (init demo_cs 8 false) = Some s /\
  nth_error (callers s) 0 = Some c /\ c_st c = CWaiting /\ cursor (ch s) 0 = Some 0 /\
  nth_error (log (ch s)) 2 = Some (ret 2 11) /\ answers {| m_id := 2; m_type := TReturn; m_rs := Some 11%N |} (c_serial c) = true /\
  clean_until (log (ch s)) 0 2 (c_serial c).
Proof.
  eexists. eexists. split; [vm_compute; reflexivity|]. repeat split.
  intros j Hj. destruct j as [|[|j]]; [| |lia]; eexists; split; reflexivity.
Qed.

(* a reply that arrives after the reader has failed is never read: the caller still completes (BrokenPipe / the error) *)
Example demo_fail : exists s s', exec [LSub 0; LLock 0; LSend 0 true; LArrive (IFail EOther); LRead; LPush; LPush; LNext] (init [(KCall, 5%N)] 8 false) = Some s /\
  reader s = RStopped /\ exec [LRecv 0] s = Some s' /\ st_at s' 0 = Some (CDone (RFail EOther)).
Proof. eexists. eexists. split; [vm_compute; reflexivity|]. repeat split. Qed.
