(* C19/BroadcastFacts.v — elementary facts about the channel model. *)
From Coq Require Import List Arith Bool Lia.
Import ListNotations.
From ZV Require Import C19.Broadcast.

Lemma cursor_in_app l id id' p :
  cursor_in (l ++ [(id', p)]) id =
  match cursor_in l id with Some q => Some q | None => if Nat.eqb id' id then Some p else None end.
Proof.
  induction l as [|[i q] l IH]; cbn [app cursor_in].
  - reflexivity.
  - destruct (Nat.eqb i id); [reflexivity | exact IH].
Qed.

Lemma cursor_in_set_same l id p q : cursor_in l id = Some q -> cursor_in (set_cursor l id p) id = Some p.
Proof.
  induction l as [|[i r] l IH]; cbn [cursor_in set_cursor]; [discriminate|].
  destruct (Nat.eqb i id) eqn:E; cbn [cursor_in]; rewrite E; [reflexivity | exact IH].
Qed.

Lemma cursor_in_set_other l id id' p : id' <> id -> cursor_in (set_cursor l id p) id' = cursor_in l id'.
Proof.
  intros Hne. induction l as [|[i r] l IH]; cbn [cursor_in set_cursor]; [reflexivity|].
  destruct (Nat.eqb i id) eqn:E; cbn [cursor_in].
  - apply Nat.eqb_eq in E. subst i. now replace (Nat.eqb id id') with false by (symmetry; apply Nat.eqb_neq; congruence).
  - destruct (Nat.eqb i id'); [reflexivity | exact IH].
Qed.

Lemma cursor_in_del_same l id : cursor_in (del_cursor l id) id = None.
Proof.
  induction l as [|[i r] l IH]; cbn [cursor_in del_cursor]; [reflexivity|].
  destruct (Nat.eqb i id) eqn:E; [exact IH|]. cbn [cursor_in]. rewrite E. exact IH.
Qed.

Lemma cursor_in_del_other l id id' : id' <> id -> cursor_in (del_cursor l id) id' = cursor_in l id'.
Proof.
  intros Hne. induction l as [|[i r] l IH]; cbn [cursor_in del_cursor]; [reflexivity|].
  destruct (Nat.eqb i id) eqn:E.
  - apply Nat.eqb_eq in E. subst i. replace (Nat.eqb id id') with false by (symmetry; apply Nat.eqb_neq; congruence). exact IH.
  - cbn [cursor_in]. destruct (Nat.eqb i id'); [reflexivity | exact IH].
Qed.

Section ChanFacts.
Variable A : Type.
Implicit Types c : chan A.

Lemma cursor_subscribe c id id' :
  cursor (subscribe id c) id' = match cursor c id' with Some q => Some q | None => if Nat.eqb id id' then Some (tail c) else None end.
Proof. unfold cursor, subscribe, with_rcv. cbn [rcv]. apply cursor_in_app. Qed.

Lemma cursor_drop_same c id : cursor (drop_rcv id c) id = None.
Proof. unfold cursor, drop_rcv, with_rcv. cbn [rcv]. apply cursor_in_del_same. Qed.

Lemma cursor_drop_other c id id' : id' <> id -> cursor (drop_rcv id c) id' = cursor c id'.
Proof. intros H. unfold cursor, drop_rcv, with_rcv. cbn [rcv]. now apply cursor_in_del_other. Qed.

Lemma log_subscribe c id : log (subscribe id c) = log c.  Proof. reflexivity. Qed.
Lemma log_drop c id : log (drop_rcv id c) = log c.  Proof. reflexivity. Qed.
Lemma log_close c : log (close c) = log c.  Proof. reflexivity. Qed.
Lemma closed_subscribe c id : closed (subscribe id c) = closed c.  Proof. reflexivity. Qed.
Lemma closed_drop c id : closed (drop_rcv id c) = closed c.  Proof. reflexivity. Qed.
Lemma cursor_close c id : cursor (close c) id = cursor c id.  Proof. reflexivity. Qed.

(* try_push: the log grows by the pushed element, cursors and flags stay *)
Lemma try_push_pushed x c c' : try_push x c = Pushed c' ->
  log c' = log c ++ [x] /\ rcv c' = rcv c /\ cap c' = cap c /\ closed c' = closed c /\ closed c = false.
Proof.
  unfold try_push. destruct (closed c) eqn:Ec; [discriminate|]. destruct (rcv c) eqn:Er; [discriminate|].
  destruct (cap c <=? qlen c); [discriminate|]. intros H. inversion H; subst c'. cbn. repeat split; reflexivity.
Qed.

Lemma try_recv_got id c x c' : try_recv id c = Got x c' ->
  exists p, cursor c id = Some p /\ nth_error (log c) p = Some x /\ log c' = log c /\ closed c' = closed c /\
            cursor c' id = Some (S p) /\ (forall id', id' <> id -> cursor c' id' = cursor c id').
Proof.
  unfold try_recv. destruct (cursor c id) as [p|] eqn:Ec; [|discriminate].
  destruct (nth_error (log c) p) as [y|] eqn:En; [|destruct (closed c); discriminate].
  intros H. inversion H; subst x c'. exists p. repeat split; try assumption; try reflexivity.
  - unfold cursor, with_rcv. cbn [rcv]. unfold cursor in Ec. eapply cursor_in_set_same. exact Ec.
  - intros id' Hne. unfold cursor, with_rcv. cbn [rcv]. now apply cursor_in_set_other.
Qed.

Lemma try_recv_closed id c : try_recv id c = RClosed ->
  exists p, cursor c id = Some p /\ nth_error (log c) p = None /\ closed c = true.
Proof.
  unfold try_recv. destruct (cursor c id) as [p|] eqn:Ec; [|discriminate].
  destruct (nth_error (log c) p) eqn:En; [discriminate|]. destruct (closed c) eqn:Ecl; [|discriminate]. intros _.
  exists p. repeat split; assumption.
Qed.

Lemma try_recv_some id c p x : cursor c id = Some p -> nth_error (log c) p = Some x ->
  exists c', try_recv id c = Got x c'.
Proof. intros Hc Hn. unfold try_recv. rewrite Hc, Hn. eexists. reflexivity. Qed.

Lemma try_recv_end_closed id c p : cursor c id = Some p -> nth_error (log c) p = None -> closed c = true ->
  try_recv id c = RClosed.
Proof. intros Hc Hn Hcl. unfold try_recv. now rewrite Hc, Hn, Hcl. Qed.

End ChanFacts.

(* ---- more facts (used by C20) ---- *)
Section ChanFacts2.
Variable A : Type.
Implicit Types c : chan A.

Lemma cursor_grow c n id : cursor (grow n c) id = cursor c id.  Proof. reflexivity. Qed.
Lemma log_grow c n : log (grow n c) = log c.  Proof. reflexivity. Qed.
Lemma closed_grow c n : closed (grow n c) = closed c.  Proof. reflexivity. Qed.
Lemma rcv_grow c n : rcv (grow n c) = rcv c.  Proof. reflexivity. Qed.
Lemma rcv_close c : rcv (close c) = rcv c.  Proof. reflexivity. Qed.
Lemma closed_close c : closed (close c) = true.  Proof. reflexivity. Qed.
Lemma tail_subscribe c id : tail (subscribe id c) = tail c.  Proof. reflexivity. Qed.
Lemma tail_drop c id : tail (drop_rcv id c) = tail c.  Proof. reflexivity. Qed.
Lemma tail_grow c n : tail (grow n c) = tail c.  Proof. reflexivity. Qed.
Lemma tail_close c : tail (close c) = tail c.  Proof. reflexivity. Qed.

Lemma log_clone c a b : log (clone_rcv a b c) = log c.
Proof. unfold clone_rcv. now destruct (cursor c a). Qed.
Lemma closed_clone c a b : closed (clone_rcv a b c) = closed c.
Proof. unfold clone_rcv. now destruct (cursor c a). Qed.
Lemma cursor_clone c a b id : cursor (clone_rcv a b c) id =
  match cursor c id with Some q => Some q | None => if Nat.eqb b id then cursor c a else None end.
Proof.
  unfold clone_rcv. destruct (cursor c a) as [p|] eqn:E.
  - unfold cursor, with_rcv. cbn [rcv]. rewrite cursor_in_app. reflexivity.
  - destruct (cursor c id); [reflexivity|]. now destruct (Nat.eqb b id).
Qed.

Lemma cursor_in_none_nil l id : l = [] -> cursor_in l id = None.
Proof. intros ->. reflexivity. Qed.
Lemma cursor_some_rcv c id p : cursor c id = Some p -> rcv c <> [].
Proof. unfold cursor. intros H E. rewrite E in H. discriminate. Qed.

Lemma try_push_noreceiver x c : try_push x c = PNoRecv -> rcv c = [].
Proof. unfold try_push. destruct (closed c); [discriminate|]. destruct (rcv c); [reflexivity|]. destruct (cap c <=? qlen c); discriminate. Qed.
Lemma try_push_closed x c : try_push x c = PClosed -> closed c = true.
Proof. unfold try_push. destruct (closed c); [reflexivity|]. destruct (rcv c); [discriminate|]. destruct (cap c <=? qlen c); discriminate. Qed.

Lemma unread_push c c' x id p : cursor c id = Some p -> p <= tail c -> log c' = log c ++ [x] -> rcv c' = rcv c ->
  unread c' id = unread c id ++ [x].
Proof.
  intros Hc Hp Hl Hr. unfold unread, cursor in *. rewrite Hr, Hc, Hl. unfold tail in Hp. now rewrite skipn_app, (proj2 (Nat.sub_0_le _ _) Hp).
Qed.

End ChanFacts2.

(* a non-empty queue has a receiver that has not read everything *)
Lemma min_cursor_attained (l : list (nat * nat)) d : min_cursor l d = d \/ exists id p, In (id, p) l /\ p = min_cursor l d.
Proof.
  induction l as [|[i q] l IH]; cbn; [now left|]. destruct IH as [E|(id & p & Hin & E)].
  - rewrite E. destruct (Nat.min_spec q d) as [[_ Em]|[_ Em]]; rewrite Em; [right; exists i, q; split; [now left | reflexivity] | now left].
  - destruct (Nat.min_spec q (min_cursor l d)) as [[_ Em]|[_ Em]]; rewrite Em.
    + right. exists i, q. split; [now left | reflexivity].
    + right. exists id, p. split; [now right | assumption].
Qed.

Lemma cursor_in_first (l : list (nat * nat)) id p : In (id, p) l -> exists q, cursor_in l id = Some q.
Proof.
  induction l as [|[i q] l IH]; cbn; [tauto|]. intros [H|H].
  - inversion H; subst. rewrite Nat.eqb_refl. eauto.
  - destruct (Nat.eqb i id); eauto.
Qed.

Lemma qlen_pos_receiver {A} (c : chan A) : 0 < qlen c -> exists id p, In (id, p) (rcv c) /\ p < tail c.
Proof.
  unfold qlen, head. intros H. destruct (min_cursor_attained (rcv c) (tail c)) as [E|(id & p & Hin & E)]; [rewrite E in H; lia|].
  exists id, p. split; [assumption | lia].
Qed.

Lemma cursor_in_none_iff (l : list (nat * nat)) id : cursor_in l id = None <-> ~ In id (map fst l).
Proof.
  induction l as [|[i q] l IH]; cbn; [tauto|]. destruct (Nat.eqb i id) eqn:E.
  - apply Nat.eqb_eq in E. subst. split; [discriminate | tauto].
  - apply Nat.eqb_neq in E. rewrite IH. tauto.
Qed.
Lemma map_fst_set_cursor (l : list (nat * nat)) id p : map fst (set_cursor l id p) = map fst l.
Proof. induction l as [|[i q] l IH]; cbn; [reflexivity|]. destruct (Nat.eqb i id); cbn; [reflexivity | now rewrite IH]. Qed.
Lemma in_del_cursor (l : list (nat * nat)) id x : In x (map fst (del_cursor l id)) -> In x (map fst l).
Proof.
  induction l as [|[i q] l IH]; cbn; [tauto|]. destruct (Nat.eqb i id); cbn; [tauto|]. intros [H|H]; [tauto | right; now apply IH].
Qed.
Lemma nodup_del_cursor (l : list (nat * nat)) id : NoDup (map fst l) -> NoDup (map fst (del_cursor l id)).
Proof.
  induction l as [|[i q] l IH]; cbn; intros H; [constructor|]. inversion H; subst. destruct (Nat.eqb i id); [now apply IH|].
  cbn. constructor; [|now apply IH]. intros Hin. apply H2. eapply in_del_cursor; eassumption.
Qed.
Lemma cursor_in_nodup (l : list (nat * nat)) id p : NoDup (map fst l) -> In (id, p) l -> cursor_in l id = Some p.
Proof.
  induction l as [|[i q] l IH]; cbn; intros Hnd Hin; [tauto|]. inversion Hnd; subst. destruct Hin as [H|H].
  - inversion H; subst. now rewrite Nat.eqb_refl.
  - destruct (Nat.eqb i id) eqn:E; [|now apply IH]. apply Nat.eqb_eq in E. subst. exfalso. apply H1. apply in_map_iff. exists (id, p). tauto.
Qed.

Lemma try_recv_got_shape {A} id (c : chan A) x c' : try_recv id c = Got x c' -> cap c' = cap c /\ map fst (rcv c') = map fst (rcv c).
Proof.
  unfold try_recv. destruct (cursor c id) as [p|]; [|discriminate]. destruct (nth_error (log c) p); [|destruct (closed c); discriminate].
  intros H. inversion H; subst. cbn. split; [reflexivity | apply map_fst_set_cursor].
Qed.
Lemma try_push_pushed_cap {A} (x : A) c c' : try_push x c = Pushed c' -> cap c' = cap c /\ rcv c' = rcv c.
Proof.
  unfold try_push. destruct (closed c); [discriminate|]. destruct (rcv c) eqn:Er; [discriminate|]. destruct (cap c <=? qlen c); [discriminate|].
  intros H. inversion H; subst. cbn. split; reflexivity.
Qed.
