(* C19/Run.v — two-phase line driver:  <case> TAB <observation>  ->  model TAB spec TAB class
   case         K <tmo|-> <calls> <steps>          (see harness/hcalls/src/main.rs)
   observation  cap=<n>,<step>=<what happened>@<queue length>.<receivers>[c],...   ("|" marks where the harness started to drain)
   model field: replay of the recorded history through Model.step — every poll of a caller, every run of the socket reader and
                every message of the peer must do exactly what the model does (results, which items the reader took, how many
                receivers were active when a call was written, queue length / receiver count / closed flag after every step);
   spec field : Spec.spec_check on the history alone;
   class      : return_rule_hijack when the application subscribes to type='method_return' / type='error' (steps Y / W). *)
From ZV Require Import Base.Bytes Base.Res C19.Broadcast C19.Model C19.Spec.

Fixpoint split_fast_aux (sep : byte) (l cur : bytes) : list bytes :=
  match l with
  | [] => [rev_append cur []]
  | c :: r => if beq c sep then rev_append cur [] :: split_fast_aux sep r [] else split_fast_aux sep r (c :: cur)
  end.
Definition split_fast (sep : byte) (l : bytes) : list bytes := split_fast_aux sep l [].

Fixpoint parse_all {A B} (f : A -> option B) (l : list A) : option (list B) :=
  match l with
  | [] => Some []
  | x :: r => match f x, parse_all f r with Some y, Some ys => Some (y :: ys) | _, _ => None end
  end.

Definition nat_of_dec (s : bytes) : option nat := option_map N.to_nat (N_of_dec s).
Definition dec_of_nat (n : nat) : bytes := dec_of_N (N.of_nat n).

(* ---- the case ---- *)
(* how the call's sendmsg behaves: fails / answers Pending n times, then accepts / lets the bytes out and returns at the next poll *)
Inductive wscript := WsFail | WsPend (n : nat) | WsLate.
Definition parse_call (s : bytes) : option (okind * wscript) :=
  match s with
  | k :: r =>
      let kind := if beq k "m"%byte || beq k "p"%byte then Some OKCall
                  else if beq k "f"%byte then Some OKFlags
                  else if beq k "n"%byte then Some OKNoReply else None in
      let wd := if lbeq r (B "x") then Some WsFail else if lbeq r (B "L") then Some WsLate else option_map WsPend (nat_of_dec r) in
      match kind, wd with Some k', Some w => Some (k', w) | _, _ => None end
  | [] => None
  end.

(* ---- the observation ---- *)
Definition parse_wev (s : bytes) : option wev :=
  match s with
  | c :: r => match nat_of_dec r with
              | Some n => if beq c "s"%byte then Some (WPend n) else if beq c "w"%byte then Some (WDone n)
                          else if beq c "x"%byte then Some (WFail n) else if beq c "l"%byte then Some (WLate n) else None
              | None => None
              end
  | [] => None
  end.

Definition parse_own (s : bytes) : option (nat * bool) :=
  match rev s with
  | c :: r => match nat_of_dec (rev r) with
              | Some k => if beq c "+"%byte then Some (k, true) else if beq c "!"%byte then Some (k, false) else None
              | None => None
              end
  | [] => None
  end.

Definition parse_pres (s : bytes) : option pres :=
  if lbeq s (B "P") then Some PPending else if lbeq s (B "N") then Some PNone
  else if lbeq s (B "Ie") then Some (PIo IoEof) else if lbeq s (B "Ip") then Some (PIo IoPipe)
  else if lbeq s (B "Io") then Some (PIo IoOther)
  else if lbeq s (B "It1") then Some (PTimeout true) else if lbeq s (B "It0") then Some (PTimeout false)
  else if lbeq s (B "D") then Some PAlready
  else match s with
       | c :: r => if beq c "O"%byte then match parse_own r with Some (k, o) => Some (POk k o) | None => Some POther end
                   else if beq c "M"%byte then match parse_own r with Some (k, o) => Some (PMErr k o) | None => Some POther end
                   else Some POther
       | [] => None
       end.

Definition parse_rdev (s : bytes) : option rdev :=
  if lbeq s (B "w") then Some RvWait else if lbeq s (B "rE") then Some RvEof else if lbeq s (B "rX") then Some RvErr
  else match s with
       | c :: r => if beq c "r"%byte then option_map RvItem (nat_of_dec r) else None
       | [] => None
       end.

Definition parse_ptok (s : bytes) : option ptok :=
  match s with
  | c :: r =>
      let tgt := nat_of_dec r in
      if beq c "R"%byte then option_map PkRet tgt else if beq c "Q"%byte then option_map PkErr tgt
      else if beq c "H"%byte then option_map PkSigRs tgt else if beq c "J"%byte then option_map PkCallRs tgt
      else match r with
           | [] => if beq c "U"%byte then Some PkStrayRet else if beq c "V"%byte then Some PkStrayErr
                   else if beq c "G"%byte then Some PkSig else if beq c "E"%byte then Some PkEof
                   else if beq c "X"%byte then Some PkIoErr else None
           | _ => None
           end
  | [] => None
  end.

Definition parse_ures (s : bytes) : option ures :=
  if lbeq s (B "ok") then Some UOk else if lbeq s (B "P") then Some UPending else if lbeq s (B "-") then Some USkip
  else match s with c :: _ => if beq c "E"%byte then Some UErr else None | [] => None end.

Definition parse_snap (s : bytes) : option (nat * nat * bool) :=
  let (s', c) := match rev s with
                 | x :: r => if beq x "c"%byte then (rev r, true) else (s, false)
                 | [] => (s, false)
                 end in
  match split_fast "."%byte s' with
  | [q; n] => match nat_of_dec q, nat_of_dec n with Some q', Some n' => Some (q', n', c) | _, _ => None end
  | _ => None
  end.

(* one token  <step>=<res>@<snap>  ->  (the step token, the line) *)
Definition parse_line (t : bytes) : option (bytes * oline) :=
  match split_fast "="%byte t with
  | [stp; rest] =>
      match split_fast "@"%byte rest with
      | [res; snap] =>
          match parse_snap snap with
          | None => None
          | Some (q, n, c) =>
              let mk e := Some (stp, {| o_ev := e; o_q := q; o_n := n; o_closed := c |}) in
              match stp with
              | k :: r =>
                  if beq k "c"%byte then
                    match nat_of_dec r with
                    | Some i =>
                        let parts := split_fast "."%byte res in
                        match rev parts with
                        | last :: ws => match parse_pres last, parse_all parse_wev (rev ws) with
                                        | Some p, Some w => mk (OPoll i w p)
                                        | _, _ => None
                                        end
                        | [] => None
                        end
                    | None => None
                    end
                  else if beq k "t"%byte then
                    if lbeq res (B "0") then mk (OTick false [])
                    else match res with
                         | a :: b :: evs =>
                             if beq a "1"%byte && beq b ":"%byte then
                               match evs with
                               | [] => mk (OTick true [])
                               | _ => match parse_all parse_rdev (split_fast "."%byte evs) with
                                      | Some l => mk (OTick true l)
                                      | None => None
                                      end
                               end
                             else None
                         | _ => None
                         end
                  else if beq k "Z"%byte then mk OSleep
                  else if beq k "Y"%byte then match parse_ures res with Some u => mk (OUser false u) | None => None end
                  else if beq k "W"%byte then match parse_ures res with Some u => mk (OUser true u) | None => None end
                  else if beq k "y"%byte then
                    match split_fast "/"%byte res with
                    | [a; b] => match parse_ures a, parse_ures b with Some x, Some y => mk (OUserPoll x y) | _, _ => None end
                    | _ => None
                    end
                  else if beq k "D"%byte then mk OUserDrop
                  else match parse_ptok stp with
                       | Some p =>
                           if lbeq res (B "-") then mk (OPeer p None)
                           else match res with
                                | x :: d => if beq x "k"%byte then
                                              match d with
                                              | [] => mk (OPeer p (Some 0))
                                              | _ => match nat_of_dec d with Some n' => mk (OPeer p (Some n')) | None => None end
                                              end
                                            else None
                                | [] => None
                                end
                       | None => None
                       end
              | [] => None
              end
          end
      | _ => None
      end
  | _ => None
  end.

(* ---- replay through the model ---- *)
Fixpoint indexed {A} (n : nat) (l : list A) : list (nat * A) :=
  match l with [] => [] | x :: r => (n, x) :: indexed (S n) r end.

Record mst := { ms_sys : sys; ms_wd : list wscript; ms_next : nat }.

Definition serial_of (i : nat) : N := N.of_nat (S i).
Definition stray_serial : N := 0%N.

Definition conv (r : result) : pres :=
  match r with
  | ROk m => POk (m_id m) true
  | RMethodErr m => PMErr (m_id m) true
  | RNoReply => PNone
  | RFail EEof => PIo IoEof
  | RFail EOther => PIo IoOther
  | RBrokenPipe => PIo IoPipe
  | RTimedOut => PTimeout true
  | RSendFail => PIo IoOther
  end.

Definition st_of (s : sys) (i : nat) : option cstate := option_map c_st (nth_error (callers s) i).

Inductive verdict {A} := Good (a : A) | Bad (why : bytes).
Arguments verdict A : clear implicits.

(* the receiving part of a poll *)
Definition poll_recv (i : nat) (s : sys) : verdict (sys * pres) :=
  match exec (recv_labels (S (tail (ch s))) i s) s with
  | None => Bad (B "model-stuck")
  | Some s' => match st_of s' i with
               | Some (CDone r) => Good (s', conv r)
               | Some CWaiting => Good (s', PPending)
               | _ => Bad (B "model-stuck")
               end
  end.

(* the sending part: sendmsg answers Pending wd times, then accepts (or fails) *)
(* send_message returns after the bytes had gone out at an earlier poll *)
Definition poll_ret (i : nat) (k : ckind) (st : mst) (s : sys) : verdict (mst * list wev * pres) :=
  let n := nrecv (ch s) in
  match step (LRet i) s with
  | None => Bad (B "model-stuck")
  | Some s' =>
      match k with
      | KNoReply => Good ({| ms_sys := s'; ms_wd := ms_wd st; ms_next := ms_next st |}, [WDone n], PNone)
      | _ => match poll_recv i s' with
             | Good (s2, p) => Good ({| ms_sys := s2; ms_wd := ms_wd st; ms_next := ms_next st |}, [WDone n], p)
             | Bad w => Bad w
             end
      end
  end.

Definition poll_send (i : nat) (k : ckind) (st : mst) (s : sys) : verdict (mst * list wev * pres) :=
  let n := nrecv (ch s) in
  match nth i (ms_wd st) (WsPend 0) with
  | WsLate => match step (LWire i) s with
              | Some s' => Good ({| ms_sys := s'; ms_wd := ms_wd st; ms_next := ms_next st |}, [WLate n], PPending)
              | None => Bad (B "model-stuck")
              end
  | WsFail => match step (LSend i false) s with
            | Some s' => Good ({| ms_sys := s'; ms_wd := ms_wd st; ms_next := ms_next st |}, [WFail n], PIo IoOther)
            | None => Bad (B "model-stuck")
            end
  | WsPend (S d) => Good ({| ms_sys := s; ms_wd := upd (ms_wd st) i (WsPend d); ms_next := ms_next st |}, [WPend n], PPending)
  | WsPend O => match step (LSend i true) s with
              | None => Bad (B "model-stuck")
              | Some s' =>
                  match k with
                  | KNoReply => Good ({| ms_sys := s'; ms_wd := ms_wd st; ms_next := ms_next st |}, [WDone n], PNone)
                  | _ => match poll_recv i s' with
                         | Good (s2, p) => Good ({| ms_sys := s2; ms_wd := ms_wd st; ms_next := ms_next st |}, [WDone n], p)
                         | Bad w => Bad w
                         end
                  end
              end
  end.

(* somebody else holds the write mutex, or stands in line for it: a poll may then come back without a sendmsg
   (async_lock::Mutex hands the lock to a waiter that has been starved for 0.5 ms before newcomers: time-dependent) *)
Definition lock_contended (s : sys) (i : nat) : bool :=
  match wlock s with
  | Some _ => true
  | None => existsb (fun p => negb (Nat.eqb (fst p) i) && match c_st (snd p) with CSubscribed => true | _ => false end)
                    (indexed 0 (callers s))
  end.

(* [ws] = the sendmsg events that were observed in this poll: they tell whether the write mutex was obtained *)
Definition poll_model (i : nat) (ws : list wev) (st : mst) : verdict (mst * list wev * pres) :=
  let s := ms_sys st in
  match nth_error (callers s) i with
  | None => Bad (B "no-such-caller")
  | Some c =>
      let try_lock (s1 : sys) :=
        match ws with
        | [] => if lock_contended s1 i
                then Good ({| ms_sys := s1; ms_wd := ms_wd st; ms_next := ms_next st |}, [], PPending)
                else Bad (B "write-mutex-free-and-nobody-in-line-but-no-sendmsg")
        | _ => match step (LLock i) s1 with
               | Some s2 => poll_send i (c_kind c) st s2
               | None => Bad (B "sendmsg-while-another-call-holds-the-write-mutex")
               end
        end in
      match c_st c with
      | CDone _ => Good (st, [], PAlready)
      | CInit => match step (LSub i) s with Some s1 => try_lock s1 | None => Bad (B "model-stuck") end
      | CSubscribed => try_lock s
      | CSending => poll_send i (c_kind c) st s
      | CWritten => poll_ret i (c_kind c) st s
      | CWaiting => match poll_recv i s with
                    | Good (s', p) => Good ({| ms_sys := s'; ms_wd := ms_wd st; ms_next := ms_next st |}, [], p)
                    | Bad w => Bad w
                    end
      end
  end.

Definition wev_eqb (a b : wev) : bool :=
  match a, b with
  | WPend x, WPend y | WDone x, WDone y | WFail x, WFail y | WLate x, WLate y => Nat.eqb x y
  | _, _ => false
  end.
Fixpoint list_eqb {A} (f : A -> A -> bool) (a b : list A) : bool :=
  match a, b with
  | [], [] => true
  | x :: a', y :: b' => f x y && list_eqb f a' b'
  | _, _ => false
  end.
Definition ioclass_eqb (a b : ioclass) : bool :=
  match a, b with IoEof, IoEof | IoPipe, IoPipe | IoOther, IoOther => true | _, _ => false end.
Definition pres_eqb (a b : pres) : bool :=
  match a, b with
  | PPending, PPending | PNone, PNone | PAlready, PAlready => true
  | POk k o, POk k' o' | PMErr k o, PMErr k' o' => Nat.eqb k k' && Bool.eqb o o'
  | PIo x, PIo y => ioclass_eqb x y
  | PTimeout x, PTimeout y => Bool.eqb x y
  | _, _ => false
  end.
Definition rdev_eqb (a b : rdev) : bool :=
  match a, b with
  | RvItem x, RvItem y => Nat.eqb x y
  | RvEof, RvEof | RvErr, RvErr | RvWait, RvWait => true
  | _, _ => false
  end.

Definition rdev_of (it : item) : rdev :=
  match it with IMsg m => RvItem (m_id m) | IFail EEof => RvEof | IFail EOther => RvErr end.

(* what the read half logs while the reader task runs these labels *)
Fixpoint reader_events (ls : list label) (s : sys) : option (sys * list rdev) :=
  match ls with
  | [] => Some (s, match reader s, socket s with RIdle, [] => [RvWait] | _, _ => [] end)
  | l :: r =>
      match step l s with
      | None => None
      | Some s' =>
          match reader_events r s' with
          | None => None
          | Some (s2, ev) => Some (s2, match l, socket s with LRead, it :: _ => rdev_of it :: ev | _, _ => ev end)
          end
      end
  end.

Definition written (s : sys) (i : nat) : bool :=
  match st_of s i with Some CWaiting | Some (CDone _) => true | _ => false end.
(* a call whose write failed is "done" but was never on the wire: the harness cannot answer it *)
Definition on_wire (s : sys) (i : nat) : bool := existsb (N.eqb (serial_of i)) (wire s).

Definition peer_item (p : ptok) (k : nat) : option (item * option nat) :=
  let mk t rs tgt := Some (IMsg {| m_id := k; m_type := t; m_rs := rs |}, tgt) in
  match p with
  | PkRet i => mk TReturn (Some (serial_of i)) (Some i)
  | PkErr i => mk TError (Some (serial_of i)) (Some i)
  | PkStrayRet => mk TReturn (Some stray_serial) None
  | PkStrayErr => mk TError (Some stray_serial) None
  | PkSig => mk TSignal None None
  | PkSigRs i => mk TSignal (Some (serial_of i)) (Some i)
  | PkCallRs i => mk TCall (Some (serial_of i)) (Some i)
  | PkEof => Some (IFail EEof, None)
  | PkIoErr => Some (IFail EOther, None)
  end.

Definition is_fail_tok (p : ptok) : bool := match p with PkEof | PkIoErr => true | _ => false end.

(* the application's add_match for the rule of an internal entry, polled once: done (the entry is replaced), waiting (only while
   the reader holds msg_senders), refused (only after the reader has failed) *)
Definition user_model (e : bool) (r : ures) (st : mst) : verdict mst :=
  let s := ms_sys st in
  match r with
  | USkip => Good st
  | UOk => match step (LHijack e) s with
           | Some s' => Good {| ms_sys := s'; ms_wd := ms_wd st; ms_next := ms_next st |}
           | None => Bad (B "add_match-completed-although-the-model-has-msg_senders-locked-or-the-reader-stopped")
           end
  | UPending => match reader s with RPush _ _ => Good st | _ => Bad (B "add_match-waits-although-msg_senders-is-free") end
  | UErr => match reader s with RStopped => Good st | _ => Bad (B "add_match-failed-although-the-reader-is-alive") end
  end.

Definition step_model (o : oline) (st : mst) : verdict mst :=
  let s := ms_sys st in
  match o_ev o with
  | OPoll i ws r =>
      match poll_model i ws st with
      | Bad w => Bad w
      | Good (st', ws', r') =>
          if negb (list_eqb wev_eqb ws ws') then Bad (B "write-events-differ(receivers-active-at-sendmsg)")
          else if pres_eqb r r' then Good st'
          else match r, r' with
               | PTimeout _, PPending =>
                   (* the timer fired: allowed whenever the model has the call waiting with a timer armed *)
                   match step (LTimeout i) (ms_sys st') with
                   | Some s2 => Good {| ms_sys := s2; ms_wd := ms_wd st'; ms_next := ms_next st' |}
                   | None => Bad (B "timeout-not-enabled-in-the-model")
                   end
               | _, _ => Bad (B "poll-result-differs")
               end
      end
  | OTick ran evs =>
      let ls := reader_labels (3 * length (socket s) + 6) s in
      if ran then
        match reader_events ls s with
        | None => Bad (B "model-stuck")
        | Some (s', evs') =>
            if list_eqb rdev_eqb evs evs' then Good {| ms_sys := s'; ms_wd := ms_wd st; ms_next := ms_next st |}
            else match evs with
                 | [] => Good st            (* the task ran but did not get to the socket: a wake-up without progress *)
                 | _ => Bad (B "reader-events-differ")
                 end
        end
      else match ls with
           | [] => Good st
           | _ => Bad (B "nothing-runnable-although-the-reader-can-proceed(lost-wakeup)")
           end
  | OPeer p kopt =>
      match peer_item p (ms_next st) with
      | None => Bad (B "bad-peer-token")
      | Some (it, tgt) =>
          let sendable := match tgt with Some i => on_wire s i | None => true end in
          match kopt with
          | None => if sendable then Bad (B "peer-step-skipped-although-the-call-is-on-the-wire") else Good st
          | Some k =>
              if negb sendable then Bad (B "peer-answered-a-call-that-is-not-on-the-wire")
              else if negb (is_fail_tok p) && negb (Nat.eqb k (ms_next st)) then Bad (B "item-number-differs")
              else match step (LArrive it) s with
                   | Some s' => Good {| ms_sys := s'; ms_wd := ms_wd st;
                                        ms_next := if is_fail_tok p then ms_next st else S (ms_next st) |}
                   | None => Bad (B "arrival-not-causal")
                   end
          end
      end
  | OSleep | OUserDrop => Good st
  | OUser e r => user_model e r st
  | OUserPoll a b => match user_model false a st with Good st1 => user_model true b st1 | Bad w => Bad w end
  end.

Definition snap_ok (o : oline) (s : sys) : bool :=
  Nat.eqb (o_q o) (qlen (ch s)) && Nat.eqb (o_n o) (nrecv (ch s)) && Bool.eqb (o_closed o) (closed (ch s)).

Fixpoint replay (n : nat) (h : list oline) (st : mst) : bytes :=
  match h with
  | [] => B "OK"
  | o :: r =>
      match step_model o st with
      | Bad w => B "step-" ++ dec_of_nat n ++ B ":" ++ w
      | Good st' => if snap_ok o (ms_sys st') then replay (S n) r st'
                    else B "step-" ++ dec_of_nat n ++ B ":channel-state-differs(queue-length/receivers/closed)"
      end
  end.

Definition ckind_of (k : okind) : ckind := match k with OKCall => KCall | OKFlags => KFlags | OKNoReply => KNoReply end.

Fixpoint is_prefix (a b : list bytes) : bool :=
  match a, b with
  | [], _ => true
  | x :: a', y :: b' => lbeq x y && is_prefix a' b'
  | _ :: _, [] => false
  end.

Definition run_case (line : bytes) : outp :=
  match split_fast tab line with
  | [case; obs] =>
      match split_fast sp case with
      | [k; tmo_s; calls_s; steps_s] =>
          let tmo := negb (lbeq tmo_s (B "-")) in
          let calls := if lbeq calls_s (B "-") then Some [] else parse_all parse_call (split_fast ","%byte calls_s) in
          let toks := filter (fun t => negb (lbeq t (B "|"))) (split_fast ","%byte obs) in
          match calls, toks with
          | Some cs, capt :: rest =>
              match split_fast "="%byte capt, parse_all parse_line rest with
              | [c; capn], Some ls =>
                  match nat_of_dec capn with
                  | Some capacity =>
                      if negb (lbeq k (B "K")) || negb (lbeq c (B "cap")) then bad_case else
                      let steps := if lbeq steps_s (B "-") then [] else split_fast ","%byte steps_s in
                      let h := map snd ls in
                      let s0 := init (map (fun p => (ckind_of (fst (snd p)), serial_of (fst p))) (indexed 0 cs)) capacity tmo in
                      let model :=
                        if negb (is_prefix steps (map fst ls)) then B "the-recorded-steps-are-not-the-steps-of-the-case"
                        else if Nat.eqb capacity 0 then B "capacity-0"
                        else replay 0 h {| ms_sys := s0; ms_wd := map snd cs; ms_next := 0 |} in
                      let spec := spec_check tmo (map (fun p => (fst p, match snd p with WsFail => true | _ => false end)) cs) h in
                      let cls := if existsb (fun t => match t with c :: _ => beq c "Y"%byte || beq c "W"%byte | [] => false end) steps
                                 then B "return_rule_hijack" else dash in
                      {| o_model := model; o_spec := spec; o_class := cls |}
                  | None => bad_case
                  end
              | _, _ => bad_case
              end
          | _, _ => bad_case
          end
      | _ => bad_case
      end
  | _ => bad_case
  end.

Definition run (line : bytes) : bytes := render (run_case line).
