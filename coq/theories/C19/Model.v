(* C19/Model.v — executable mirror, as a small-step system, of
     zbus/src/connection/mod.rs
        Connection::call_method_raw     let msg = builder.build(body)?;                       (serial taken here)
                                        let msg_receiver = self.inner.method_return_receiver.activate_cloned();      LSub i
                                        self.send(&msg).await?;       socket_write.lock().await                      LLock i
                                                                      write.send_message(msg).await  (guard dropped)  LSend i ok
                                        if flags.contains(NoReplyExpected) { Ok(None) } else { Ok(Some(PendingMethodCall{..})) }
        Connection::call_method         timeout(method, tout) if method_timeout is configured, else method.await     LTimeout i
        Proxy::call_with_flags          call_method_raw(..).await? { Some(reply) => match conn.method_timeout() {
                                            Some(tout) => timeout(reply, tout).await?, None => reply.await? }, None => Ok(None) }   LTimeout i
        PendingMethodCall::poll_before  loop { match stream.poll_next_before(..) {                                   LRecv i
                                          Item(Ok(msg))  => if msg.reply_serial() != Some(serial) { continue }
                                                            match msg.message_type() { Error => Err(msg.into()), MethodReturn => Ok(msg),
                                                                                       _ => continue }
                                          Item(Err(e))   => return Err(e),
                                          Terminated     => return None  (=> Err(InputOutput(BrokenPipe "socket closed"))),
                                          Pending        => return Pending } }
        Connection::new                 one channel (capacity DEFAULT_MAX_METHOD_RETURN_QUEUED) registered in msg_senders under BOTH
                                        `type='method_return'` and `type='error'`
        Connection::add_match           (MessageStream::for_match_rule with exactly one of these two rules)              LHijack e
                                        Vacant(e) => { ..; msg_senders.lock().await.insert(Some(rule), sender) }  — HashMap::insert
                                        replaces the connection's own sender under that key
     zbus/src/connection/socket_reader.rs
        SocketReader::receive_msg       loop { let msg = self.read_socket().await;                                   LRead
                                               for (rule, sender) in &*senders { if matches { sender.broadcast_direct(msg.clone()).await } }
                                                                                                                     LPush (waits while full)
                                               if msg.is_err() { senders.clear(); return } }                         LNext
   The peer and the transport are the label LArrive (any message or failure, at any time) — with one restriction, the
   environment assumption of this property: a message that carries reply_serial = s, s the serial of one of our calls, only
   arrives after that call has been written to the wire (the peer learns serials from the calls it receives).
   Any number of callers; the history (list of labels) is the scheduler, the peer, the transport and the timer.
   Receiver ids on the channel are caller indices.  Not modelled: the unfiltered channel and rule channels (no receiver of
   theirs exists in a pure method-call scenario; the fan-out to them fails at once with `Inactive`), message building,
   the write mutex (C18), real time (LTimeout is "the timer of caller i fires").
   No proofs in this file. *)
From ZV Require Import Base.Bytes Base.Res C19.Broadcast.

Inductive mtype := TCall | TReturn | TError | TSignal.
(* m_id: which message of the peer this is (its position in what the peer sent); m_rs: the REPLY_SERIAL header field *)
Record msg := { m_id : nat; m_type : mtype; m_rs : option N }.
Inductive ioerr := EEof | EOther.
(* what flows through the channel: Result<Message> *)
Inductive item := IMsg (m : msg) | IFail (e : ioerr).

Inductive ckind :=
  | KCall        (* Connection::call_method, Proxy::call, Proxy::call_method *)
  | KFlags       (* Proxy::call_with_flags with flags other than NoReplyExpected *)
  | KNoReply.    (* Proxy::call_noreply / call_with_flags(NoReplyExpected) *)
Inductive result :=
  | ROk (m : msg) | RMethodErr (m : msg) | RNoReply
  | RFail (e : ioerr)      (* the socket reader's error, broadcast to every channel *)
  | RBrokenPipe            (* channel closed and drained: "socket closed" *)
  | RTimedOut
  | RSendFail.             (* send() failed *)
(* CSubscribed: receiver active, waiting for the write mutex; CSending: holds the write mutex, sendmsg in progress;
   CWritten: the bytes have left (the peer can see the call) but sendmsg / send() has not returned to the caller yet — on a
   multi-threaded executor, or with a transport whose write completes asynchronously, anything can happen in between *)
Inductive cstate := CInit | CSubscribed | CSending | CWritten | CWaiting | CDone (r : result).
Record caller := { c_kind : ckind; c_serial : N; c_st : cstate }.

(* the socket reader: between messages / holding a message that still has to go to n sender entries / finished *)
Inductive rstate := RIdle | RPush (it : item) (n : nat) | RStopped.

Record sys := {
  callers : list caller;
  ch : chan item;                     (* the method-return channel *)
  reader : rstate;
  socket : list item;                 (* arrived, not yet read by the socket reader *)
  wire : list N;                      (* serials of the calls written so far *)
  wlock : option nat;                 (* socket_write: which caller holds it *)
  tmo : bool;                         (* Builder::method_timeout configured *)
  kret : bool;                        (* msg_senders[type='method_return'] still is the connection's own sender *)
  kerr : bool;                        (* msg_senders[type='error'] still is the connection's own sender *)
  done_log : list (nat * result)      (* ghost: completions, in order *)
}.

Definition init (cs : list (ckind * N)) (capacity : nat) (t : bool) : sys :=
  {| callers := map (fun p => {| c_kind := fst p; c_serial := snd p; c_st := CInit |}) cs;
     ch := new_chan capacity; reader := RIdle; socket := []; wire := []; wlock := None; tmo := t; kret := true; kerr := true; done_log := [] |}.

Definition is_reply (t : mtype) : bool := match t with TReturn | TError => true | _ => false end.
(* PendingMethodCall's test *)
Definition answers (m : msg) (serial : N) : bool :=
  match m_rs m with Some r => N.eqb r serial | None => false end && is_reply (m_type m).
(* how many entries of msg_senders lead to the method-return channel for this item *)
Definition b2n (b : bool) : nat := if b then 1 else 0.

Fixpoint upd {A} (l : list A) (i : nat) (x : A) : list A :=
  match l, i with
  | [], _ => []
  | _ :: r, O => x :: r
  | y :: r, S j => y :: upd r j x
  end.

Definition set_st (c : caller) (st : cstate) : caller := {| c_kind := c_kind c; c_serial := c_serial c; c_st := st |}.

Definition with_callers (s : sys) (cs : list caller) : sys :=
  {| callers := cs; ch := ch s; reader := reader s; socket := socket s; wire := wire s; wlock := wlock s; tmo := tmo s; kret := kret s; kerr := kerr s; done_log := done_log s |}.
Definition with_ch (s : sys) (c : chan item) : sys :=
  {| callers := callers s; ch := c; reader := reader s; socket := socket s; wire := wire s; wlock := wlock s; tmo := tmo s; kret := kret s; kerr := kerr s; done_log := done_log s |}.
Definition with_reader (s : sys) (r : rstate) : sys :=
  {| callers := callers s; ch := ch s; reader := r; socket := socket s; wire := wire s; wlock := wlock s; tmo := tmo s; kret := kret s; kerr := kerr s; done_log := done_log s |}.
Definition with_socket (s : sys) (k : list item) : sys :=
  {| callers := callers s; ch := ch s; reader := reader s; socket := k; wire := wire s; wlock := wlock s; tmo := tmo s; kret := kret s; kerr := kerr s; done_log := done_log s |}.
Definition with_wire (s : sys) (w : list N) : sys :=
  {| callers := callers s; ch := ch s; reader := reader s; socket := socket s; wire := w; wlock := wlock s; tmo := tmo s; kret := kret s; kerr := kerr s; done_log := done_log s |}.
Definition with_wlock (s : sys) (h : option nat) : sys :=
  {| callers := callers s; ch := ch s; reader := reader s; socket := socket s; wire := wire s; wlock := h; tmo := tmo s; kret := kret s; kerr := kerr s; done_log := done_log s |}.

(* the call's future returns r: its stream (receiver) is dropped with it *)
Definition finish (s : sys) (i : nat) (c : caller) (r : result) : sys :=
  {| callers := upd (callers s) i (set_st c (CDone r)); ch := drop_rcv i (ch s); reader := reader s; socket := socket s;
     wire := wire s; wlock := wlock s; tmo := tmo s; kret := kret s; kerr := kerr s; done_log := done_log s ++ [(i, r)] |}.

(* how many entries of msg_senders lead to the method-return channel for this item: Connection::new registers the one sender
   under the two rules type='method_return' and type='error'; an entry is lost when the application subscribes to exactly
   that rule (LHijack) *)
Definition fanout (s : sys) (it : item) : nat :=
  match it with
  | IMsg m => match m_type m with TReturn => b2n (kret s) | TError => b2n (kerr s) | _ => 0 end
  | IFail _ => b2n (kret s) + b2n (kerr s)
  end.

(* MessageStream::for_match_rule("type='method_return'") (e = false) / ("type='error'") (e = true): Connection::add_match finds
   no subscription for the rule (Vacant) and does msg_senders.insert(Some(rule), sender) — under the key of the connection's
   own entry, whose sender is dropped; when both are gone the channel has lost its last sender and closes *)
Definition hijack (s : sys) (e : bool) : sys :=
  let r := if e then kret s else false in
  let x := if e then false else kerr s in
  {| callers := callers s; ch := if r || x then ch s else close (ch s); reader := reader s; socket := socket s; wire := wire s;
     wlock := wlock s; tmo := tmo s; kret := r; kerr := x; done_log := done_log s |}.

Inductive label :=
  | LSub (i : nat)               (* activate_cloned *)
  | LLock (i : nat)              (* socket_write.lock() succeeds *)
  | LSend (i : nat) (ok : bool)  (* send_message returns Ok / Err; the guard is dropped *)
  | LRecv (i : nat)              (* one item taken from the caller's stream *)
  | LTimeout (i : nat)           (* the call's timer fires *)
  | LRead                        (* read_socket() returns the next item *)
  | LPush                        (* one broadcast_direct completes (or fails at once) *)
  | LNext                        (* the for loop over the senders is over *)
  | LArrive (it : item)          (* the transport has one more item for us *)
  | LHijack (e : bool)           (* the application's add_match for the rule of an internal entry inserts its sender *)
  | LWire (i : nat)              (* the call's bytes are out; send_message has not returned yet *)
  | LRet (i : nat).              (* ... now it returns Ok; the guard is dropped (LSend i true = LWire i; LRet i in one step) *)

Definition not_sent (st : cstate) : bool := match st with CInit | CSubscribed | CSending => true | _ => false end.
(* some call of ours with serial r has not been written yet *)
Definition unsent (s : sys) (r : N) : bool := existsb (fun c => N.eqb (c_serial c) r && not_sent (c_st c)) (callers s).
Definition causal_ok (s : sys) (it : item) : bool :=
  match it with
  | IMsg m => match m_rs m with Some r => negb (unsent s r) | None => true end
  | IFail _ => true
  end.

(* None = the label is not enabled in this state *)
Definition step (l : label) (s : sys) : option sys :=
  match l with
  | LSub i =>
      match nth_error (callers s) i with
      | Some c => match c_st c with
                  | CInit => Some (with_ch (with_callers s (upd (callers s) i (set_st c CSubscribed))) (subscribe i (ch s)))
                  | _ => None
                  end
      | None => None
      end
  | LLock i =>
      match nth_error (callers s) i, wlock s with
      | Some c, None => match c_st c with
                        | CSubscribed => Some (with_wlock (with_callers s (upd (callers s) i (set_st c CSending))) (Some i))
                        | _ => None
                        end
      | _, _ => None
      end
  | LSend i ok =>
      match nth_error (callers s) i with
      | Some c => match c_st c with
                  | CSending =>
                      let s := with_wlock s None in
                      if ok then
                        let s1 := with_wire s (wire s ++ [c_serial c]) in
                        match c_kind c with
                        | KNoReply => Some (finish s1 i c RNoReply)
                        | _ => Some (with_callers s1 (upd (callers s1) i (set_st c CWaiting)))
                        end
                      else Some (finish s i c RSendFail)
                  | _ => None
                  end
      | None => None
      end
  | LRecv i =>
      match nth_error (callers s) i with
      | Some c => match c_st c with
                  | CWaiting =>
                      match try_recv i (ch s) with
                      | Got (IMsg m) ch' =>
                          if answers m (c_serial c)
                          then Some (finish (with_ch s ch') i c (match m_type m with TError => RMethodErr m | _ => ROk m end))
                          else Some (with_ch s ch')
                      | Got (IFail e) ch' => Some (finish (with_ch s ch') i c (RFail e))
                      | RClosed => Some (finish s i c RBrokenPipe)
                      | REmpty | RNoSuch => None
                      end
                  | _ => None
                  end
      | None => None
      end
  | LTimeout i =>
      match nth_error (callers s) i with
      | Some c => match c_st c, c_kind c with
                  | CWaiting, (KCall | KFlags) => if tmo s then Some (finish s i c RTimedOut) else None
                  | _, _ => None
                  end
      | None => None
      end
  | LRead =>
      match reader s, socket s with
      | RIdle, it :: rest => Some (with_reader (with_socket s rest) (RPush it (fanout s it)))
      | _, _ => None
      end
  | LPush =>
      match reader s with
      | RPush it (S n) =>
          match try_push it (ch s) with
          | Pushed ch' => Some (with_reader (with_ch s ch') (RPush it n))
          | PFull => None
          | PNoRecv | PClosed => Some (with_reader s (RPush it n))
          end
      | _ => None
      end
  | LNext =>
      match reader s with
      | RPush (IMsg _) O => Some (with_reader s RIdle)
      | RPush (IFail _) O => Some (with_reader (with_ch s (close (ch s))) RStopped)
      | _ => None
      end
  | LArrive it => if causal_ok s it then Some (with_socket s (socket s ++ [it])) else None
  | LHijack e =>
      (* add_match needs msg_senders (not while the reader is in its fan-out) and refuses once the reader has failed *)
      match reader s with
      | RIdle => if (if e then kerr s else kret s) then Some (hijack s e) else None
      | _ => None
      end
  | LWire i =>
      match nth_error (callers s) i with
      | Some c => match c_st c with
                  | CSending => Some (with_callers (with_wire s (wire s ++ [c_serial c])) (upd (callers s) i (set_st c CWritten)))
                  | _ => None
                  end
      | None => None
      end
  | LRet i =>
      match nth_error (callers s) i with
      | Some c => match c_st c with
                  | CWritten =>
                      let s := with_wlock s None in
                      match c_kind c with
                      | KNoReply => Some (finish s i c RNoReply)
                      | _ => Some (with_callers s (upd (callers s) i (set_st c CWaiting)))
                      end
                  | _ => None
                  end
      | None => None
      end
  end.

Fixpoint exec (tr : list label) (s : sys) : option sys :=
  match tr with
  | [] => Some s
  | l :: r => match step l s with Some s' => exec r s' | None => None end
  end.

(* ------------------------------------------------------------------ what a task does when it is polled once:
   it runs until it would wait.  These produce the fine-grained labels; the states come from [step] alone. *)

(* a waiting caller polled once: it takes items until it is done or nothing is left *)
Fixpoint recv_labels (fuel : nat) (i : nat) (s : sys) : list label :=
  match fuel with
  | O => []
  | S f => match step (LRecv i) s with
           | Some s' => LRecv i :: match nth_error (callers s') i with
                                   | Some c => match c_st c with CWaiting => recv_labels f i s' | _ => [] end
                                   | None => []
                                   end
           | None => []
           end
  end.

(* the socket reader task polled once *)
Fixpoint reader_labels (fuel : nat) (s : sys) : list label :=
  match fuel with
  | O => []
  | S f =>
      match reader s with
      | RIdle => match step LRead s with Some s' => LRead :: reader_labels f s' | None => [] end
      | RPush _ (S _) => match step LPush s with Some s' => LPush :: reader_labels f s' | None => [] end
      | RPush _ O => match step LNext s with Some s' => LNext :: reader_labels f s' | None => [] end
      | RStopped => []
      end
  end.

(* ------------------------------------------------------------------ reachable states: the history is the scheduler, the
   peer, the transport and the timer *)
Inductive reach (cs : list (ckind * N)) (capacity : nat) (t : bool) : list label -> sys -> Prop :=
  | reach_init : reach cs capacity t [] (init cs capacity t)
  | reach_step tr s l s' : reach cs capacity t tr s -> step l s = Some s' -> reach cs capacity t (tr ++ [l]) s'.

Definition st_at (s : sys) (i : nat) : option cstate := option_map c_st (nth_error (callers s) i).
Definition serial_at (s : sys) (i : nat) : option N := option_map c_serial (nth_error (callers s) i).
Definition kind_at (s : sys) (i : nat) : option ckind := option_map c_kind (nth_error (callers s) i).
