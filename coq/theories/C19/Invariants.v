(* C19/Invariants.v — invariants of every reachable state of the call system (any scheduler, any causal peer). *)
From ZV Require Import Base.Bytes Base.Res C19.Broadcast C19.BroadcastFacts C19.Model C19.Steps.
From Coq Require Import Lia.

(* the caller state machine *)
Inductive allowed : cstate -> cstate -> Prop :=
  | al_sub : allowed CInit CSubscribed
  | al_lock : allowed CSubscribed CSending
  | al_sent : allowed CSending CWaiting
  | al_send_done r : allowed CSending (CDone r)
  | al_wait_done r : allowed CWaiting (CDone r).

Lemma tstep_callers s l s' : tstep s l s' ->
  callers s' = callers s \/
  exists i c st', nth_error (callers s) i = Some c /\ callers s' = upd (callers s) i (set_st c st') /\ allowed (c_st c) st'.
Proof.
  intros H; destruct H; cbn [callers with_ch with_callers with_wlock with_wire with_reader with_socket finish];
    try (left; reflexivity);
    right; exists i, c; eexists; (split; [eassumption|]); (split; [reflexivity|]);
    match goal with E : c_st ?x = _ |- _ => rewrite E end; constructor.
Qed.

Lemma st_at_upd_same s i c st : nth_error (callers s) i = Some c ->
  option_map c_st (nth_error (upd (callers s) i (set_st c st)) i) = Some st.
Proof. intros H. erewrite nth_error_upd_same by eassumption. reflexivity. Qed.

(* ------------------------------------------------------------------ kinds and serials never change *)
Definition ident (c : caller) : ckind * N := (c_kind c, c_serial c).

Lemma kinds_step s l s' : tstep s l s' -> map ident (callers s') = map ident (callers s).
Proof.
  intros H. destruct (tstep_callers _ _ _ H) as [E|(i & c & st' & Hn & E & _)]; rewrite E; [reflexivity|].
  eapply map_upd; [eassumption | reflexivity].
Qed.

Lemma kinds_inv cs cap t tr s : reach cs cap t tr s -> map ident (callers s) = cs.
Proof.
  induction 1 as [|tr s l s' Hr IH Hs].
  - cbn. rewrite map_map. cbn. induction cs as [|[k n] cs IH]; cbn; [reflexivity | now rewrite IH].
  - apply step_tstep in Hs. now rewrite (kinds_step _ _ _ Hs).
Qed.

(* ------------------------------------------------------------------ a finished call stays finished *)
Lemma done_step s l s' i r : tstep s l s' -> st_at s i = Some (CDone r) -> st_at s' i = Some (CDone r).
Proof.
  intros H Hd. unfold st_at in *. destruct (tstep_callers _ _ _ H) as [E|(j & c & st' & Hn & E & Ha)]; rewrite E; [exact Hd|].
  destruct (Nat.eq_dec i j) as [->|Hne].
  - rewrite Hn in Hd. cbn in Hd. inversion Hd as [Hd']. rewrite Hd' in Ha. inversion Ha.
  - now rewrite nth_error_upd_other.
Qed.

Lemma done_exec tr : forall s s' i r, exec tr s = Some s' -> st_at s i = Some (CDone r) -> st_at s' i = Some (CDone r).
Proof.
  induction tr as [|l tr IH]; intros s s' i r He Hd; cbn in He.
  - now inversion He; subst.
  - destruct (step l s) as [s1|] eqn:Es; [|discriminate]. eapply IH; [eassumption|]. eapply done_step; [|eassumption].
    apply step_tstep. exact Es.
Qed.

(* ------------------------------------------------------------------ completions: the log and the states agree *)
Lemma tstep_done s l s' : tstep s l s' ->
  (done_log s' = done_log s /\ forall j r, st_at s' j = Some (CDone r) <-> st_at s j = Some (CDone r)) \/
  (exists i c r, nth_error (callers s) i = Some c /\ (forall r', c_st c <> CDone r') /\
                 callers s' = upd (callers s) i (set_st c (CDone r)) /\ done_log s' = done_log s ++ [(i, r)]).
Proof.
  intros H.
  assert (Hkeep : forall i c st', nth_error (callers s) i = Some c -> (forall r, c_st c <> CDone r) -> (forall r, st' <> CDone r) ->
            forall j r, option_map c_st (nth_error (upd (callers s) i (set_st c st')) j) = Some (CDone r) <-> st_at s j = Some (CDone r)).
  { intros i c st' Hn Hc Hst j r. unfold st_at. destruct (Nat.eq_dec j i) as [->|Hne].
    - erewrite nth_error_upd_same by eassumption. rewrite Hn. cbn. split; intros E; inversion E; congruence.
    - now rewrite nth_error_upd_other. }
  destruct H;
    try (left; split; [reflexivity | intros j r; unfold st_at; cbn; tauto]);
    try (left; split; [reflexivity|]; unfold st_at at 1; cbn [callers with_ch with_callers with_wlock with_wire];
         apply Hkeep; [assumption | intros r; congruence | intros r; discriminate]);
    right; exists i, c; eexists; (split; [eassumption|]); (split; [intros r'; congruence|]); split; reflexivity.
Qed.

Lemma NoDup_app_one {A} (l : list A) x : NoDup l -> ~ In x l -> NoDup (l ++ [x]).
Proof.
  induction 1 as [|y l Hy Hl IH]; intros Hx; cbn.
  - constructor; [tauto | constructor].
  - constructor.
    + rewrite in_app_iff. cbn. intros [H|[H|[]]]; [tauto | subst; apply Hx; now left].
    + apply IH. intros H. apply Hx. now right.
Qed.

Lemma done_inv cs cap t tr s : reach cs cap t tr s ->
  NoDup (map fst (done_log s)) /\ forall i r, In (i, r) (done_log s) <-> st_at s i = Some (CDone r).
Proof.
  induction 1 as [|tr s l s' Hr [IHn IHd] Hs].
  - split; [constructor|]. intros i r. cbn. split; [tauto|]. unfold st_at, init. cbn. rewrite nth_error_map.
    destruct (nth_error cs i); cbn; discriminate.
  - apply step_tstep in Hs. destruct (tstep_done _ _ _ Hs) as [[El Es]|(i & c & r & Hn & Hnd & Ec & El)].
    + rewrite El. split; [assumption|]. intros j r. rewrite IHd. symmetry. apply Es.
    + rewrite El. split.
      * rewrite map_app. cbn. apply NoDup_app_one; [assumption|]. intros Hin. apply in_map_iff in Hin.
        destruct Hin as ([j r0] & Ej & Hin). cbn in Ej. subst j. apply IHd in Hin. unfold st_at in Hin. rewrite Hn in Hin.
        cbn in Hin. inversion Hin as [E]. exact (Hnd _ E).
      * intros j r0. rewrite in_app_iff. cbn. unfold st_at. rewrite Ec. destruct (Nat.eq_dec j i) as [->|Hne].
        -- erewrite nth_error_upd_same by eassumption. cbn. split.
           ++ intros [Hin|[E|[]]].
              ** apply IHd in Hin. unfold st_at in Hin. rewrite Hn in Hin. cbn in Hin. inversion Hin as [E]. destruct (Hnd _ E).
              ** now inversion E.
           ++ intros E. inversion E. right. now left.
        -- rewrite nth_error_upd_other by assumption. rewrite IHd. unfold st_at. split; [|tauto].
           intros [Hin|[E|[]]]; [assumption | inversion E; congruence].
Qed.

(* ------------------------------------------------------------------ who has a receiver: exactly the calls between
   activate_cloned and completion *)
Definition active (st : cstate) : bool := match st with CSubscribed | CSending | CWaiting => true | _ => false end.
Definition active_at (s : sys) (i : nat) : bool :=
  match nth_error (callers s) i with Some c => active (c_st c) | None => false end.
Definition has_cursor (s : sys) (i : nat) : bool := match cursor (ch s) i with Some _ => true | None => false end.

Lemma active_upd_same s i c st : nth_error (callers s) i = Some c ->
  match nth_error (upd (callers s) i (set_st c st)) i with Some c' => active (c_st c') | None => false end = active st.
Proof. intros H. erewrite nth_error_upd_same by eassumption. reflexivity. Qed.

Lemma rcv_step s l s' : tstep s l s' -> (forall i, has_cursor s i = active_at s i) -> forall j, has_cursor s' j = active_at s' j.
Proof.
  intros H IH j. unfold has_cursor, active_at in *.
  destruct H; cbn [callers ch with_ch with_callers with_wlock with_wire with_reader with_socket finish];
    try apply IH.
  - (* sub *) rewrite cursor_subscribe. destruct (Nat.eq_dec j i) as [->|Hne].
    + erewrite nth_error_upd_same by eassumption. cbn. rewrite Nat.eqb_refl. now destruct (cursor (ch s) i).
    + rewrite nth_error_upd_other by assumption. replace (Nat.eqb i j) with false by (symmetry; apply Nat.eqb_neq; congruence).
      specialize (IH j). now destruct (cursor (ch s) j).
  - (* lock *) destruct (Nat.eq_dec j i) as [->|Hne].
    + erewrite nth_error_upd_same by eassumption. cbn. specialize (IH i). rewrite H in IH. rewrite H0 in IH. exact IH.
    + rewrite nth_error_upd_other by assumption. apply IH.
  - (* send noreply *) destruct (Nat.eq_dec j i) as [->|Hne].
    + rewrite cursor_drop_same. erewrite nth_error_upd_same by eassumption. reflexivity.
    + rewrite cursor_drop_other, nth_error_upd_other by assumption. apply IH.
  - (* send ok *) destruct (Nat.eq_dec j i) as [->|Hne].
    + erewrite nth_error_upd_same by eassumption. cbn. specialize (IH i). rewrite H in IH. rewrite H0 in IH. exact IH.
    + rewrite nth_error_upd_other by assumption. apply IH.
  - (* send fail *) destruct (Nat.eq_dec j i) as [->|Hne].
    + rewrite cursor_drop_same. erewrite nth_error_upd_same by eassumption. reflexivity.
    + rewrite cursor_drop_other, nth_error_upd_other by assumption. apply IH.
  - (* recv answer *) apply try_recv_got in H1. destruct H1 as (p & Hc & Hn & Hl & Hcl & Hci & Hco).
    destruct (Nat.eq_dec j i) as [->|Hne].
    + rewrite cursor_drop_same. erewrite nth_error_upd_same by eassumption. reflexivity.
    + rewrite cursor_drop_other, nth_error_upd_other by assumption. rewrite Hco by assumption. apply IH.
  - (* recv skip *) apply try_recv_got in H1. destruct H1 as (p & Hc & Hn & Hl & Hcl & Hci & Hco).
    destruct (Nat.eq_dec j i) as [->|Hne].
    + rewrite Hci. specialize (IH i). now rewrite Hc in IH.
    + rewrite Hco by assumption. apply IH.
  - (* recv fail *) apply try_recv_got in H1. destruct H1 as (p & Hc & Hn & Hl & Hcl & Hci & Hco).
    destruct (Nat.eq_dec j i) as [->|Hne].
    + rewrite cursor_drop_same. erewrite nth_error_upd_same by eassumption. reflexivity.
    + rewrite cursor_drop_other, nth_error_upd_other by assumption. rewrite Hco by assumption. apply IH.
  - (* recv closed *) destruct (Nat.eq_dec j i) as [->|Hne].
    + rewrite cursor_drop_same. erewrite nth_error_upd_same by eassumption. reflexivity.
    + rewrite cursor_drop_other, nth_error_upd_other by assumption. apply IH.
  - (* timeout *) destruct (Nat.eq_dec j i) as [->|Hne].
    + rewrite cursor_drop_same. erewrite nth_error_upd_same by eassumption. reflexivity.
    + rewrite cursor_drop_other, nth_error_upd_other by assumption. apply IH.
  - (* push *) apply try_push_pushed in H0. destruct H0 as (_ & Hr & _). unfold cursor. rewrite Hr. apply IH.
Qed.

Lemma rcv_inv cs cap t tr s : reach cs cap t tr s -> forall i, has_cursor s i = active_at s i.
Proof.
  induction 1 as [|tr s l s' Hr IH Hs].
  - intros i. unfold has_cursor, active_at, init. cbn. rewrite nth_error_map. now destruct (nth_error cs i).
  - apply step_tstep in Hs. now apply (rcv_step _ _ _ Hs).
Qed.

(* ------------------------------------------------------------------ cursors never pass the tail *)
Lemma curle_step s l s' : tstep s l s' -> (forall i p, cursor (ch s) i = Some p -> p <= tail (ch s)) ->
  forall j p, cursor (ch s') j = Some p -> p <= tail (ch s').
Proof.
  intros H IH j q.
  assert (Hdrop : forall i (c0 : chan item), (forall k p, cursor c0 k = Some p -> p <= tail c0) -> cursor (drop_rcv i c0) j = Some q -> q <= tail c0).
  { intros i c0 Hc0 Hq. destruct (Nat.eq_dec j i) as [->|Hne]; [now rewrite cursor_drop_same in Hq|].
    rewrite cursor_drop_other in Hq by assumption. eauto. }
  assert (Hrecv : forall i x ch', try_recv i (ch s) = Got x ch' -> forall k p, cursor ch' k = Some p -> p <= tail ch').
  { intros i x ch' Hg k p Hk. apply try_recv_got in Hg. destruct Hg as (p0 & Hc & Hn & Hl & Hcl & Hci & Hco).
    unfold tail. rewrite Hl. destruct (Nat.eq_dec k i) as [->|Hne].
    - rewrite Hci in Hk. inversion Hk; subst p.
      assert (Hlt : p0 < length (log (ch s))) by (apply nth_error_Some; congruence). lia.
    - rewrite Hco in Hk by assumption. apply IH in Hk. exact Hk. }
  destruct H; cbn [ch with_ch with_callers with_wlock with_wire with_reader with_socket finish]; try apply IH.
  - rewrite cursor_subscribe. destruct (cursor (ch s) j) as [p0|] eqn:E.
    + intros Hq; inversion Hq; subst. apply (IH _ _ E).
    + destruct (Nat.eqb i j); [|discriminate]. intros Hq; inversion Hq. unfold tail. cbn. lia.
  - intros Hq. eapply (Hdrop i (ch s)); eauto.
  - intros Hq. eapply (Hdrop i (ch s)); eauto.
  - intros Hq. unfold tail. rewrite log_drop. eapply (Hdrop i ch'); eauto.
  - intros Hq. eapply Hrecv; eauto.
  - intros Hq. unfold tail. rewrite log_drop. eapply (Hdrop i ch'); eauto.
  - intros Hq. eapply (Hdrop i (ch s)); eauto.
  - intros Hq. eapply (Hdrop i (ch s)); eauto.
  - apply try_push_pushed in H0. destruct H0 as (Hl & Hr & _). unfold cursor, tail. rewrite Hr, Hl, app_length. cbn.
    intros Hq. apply IH in Hq. unfold tail in Hq. lia.
Qed.

Lemma curle_inv cs cap t tr s : reach cs cap t tr s -> forall i p, cursor (ch s) i = Some p -> p <= tail (ch s).
Proof.
  induction 1 as [|tr s l s' Hr IH Hs].
  - intros i p. unfold init, cursor. cbn. discriminate.
  - apply step_tstep in Hs. now apply (curle_step _ _ _ Hs).
Qed.
