(* C19/Invariants.v — invariants of every reachable state of the call system (any scheduler, any causal peer). *)
From ZV Require Import Base.Bytes Base.Res C19.Broadcast C19.BroadcastFacts C19.Model C19.Steps.
From Coq Require Import Lia.

(* the caller state machine *)
Inductive allowed : cstate -> cstate -> Prop :=
  | al_sub : allowed CInit CSubscribed
  | al_lock : allowed CSubscribed CSending
  | al_sent : allowed CSending CWaiting
  | al_send_done r : allowed CSending (CDone r)
  | al_wire : allowed CSending CWritten
  | al_ret : allowed CWritten CWaiting
  | al_ret_done r : allowed CWritten (CDone r)
  | al_wait_done r : allowed CWaiting (CDone r).

Lemma tstep_callers s l s' : tstep s l s' ->
  callers s' = callers s \/
  exists i c st', nth_error (callers s) i = Some c /\ callers s' = upd (callers s) i (set_st c st') /\ allowed (c_st c) st'.
Proof.
  intros H; destruct H; cbn [callers with_ch with_callers with_wlock with_wire with_reader with_socket finish];
    try (left; reflexivity);
    right; exists i, c; eexists; (split; [eassumption|]); (split; [reflexivity|]);
    match goal with E : c_st ?x = _ |- _ => rewrite E end; constructor.
Qed.

Lemma st_at_upd_same s i c st : nth_error (callers s) i = Some c ->
  option_map c_st (nth_error (upd (callers s) i (set_st c st)) i) = Some st.
Proof. intros H. erewrite nth_error_upd_same by eassumption. reflexivity. Qed.

(* ------------------------------------------------------------------ kinds and serials never change *)
Definition ident (c : caller) : ckind * N := (c_kind c, c_serial c).

Lemma kinds_step s l s' : tstep s l s' -> map ident (callers s') = map ident (callers s).
Proof.
  intros H. destruct (tstep_callers _ _ _ H) as [E|(i & c & st' & Hn & E & _)]; rewrite E; [reflexivity|].
  eapply map_upd; [eassumption | reflexivity].
Qed.

Lemma kinds_inv cs cap t tr s : reach cs cap t tr s -> map ident (callers s) = cs.
Proof.
  induction 1 as [|tr s l s' Hr IH Hs].
  - cbn. rewrite map_map. cbn. induction cs as [|[k n] cs IH]; cbn; [reflexivity | now rewrite IH].
  - apply step_tstep in Hs. now rewrite (kinds_step _ _ _ Hs).
Qed.

(* ------------------------------------------------------------------ a finished call stays finished *)
Lemma done_step s l s' i r : tstep s l s' -> st_at s i = Some (CDone r) -> st_at s' i = Some (CDone r).
Proof.
  intros H Hd. unfold st_at in *. destruct (tstep_callers _ _ _ H) as [E|(j & c & st' & Hn & E & Ha)]; rewrite E; [exact Hd|].
  destruct (Nat.eq_dec i j) as [->|Hne].
  - rewrite Hn in Hd. cbn in Hd. inversion Hd as [Hd']. rewrite Hd' in Ha. inversion Ha.
  - now rewrite nth_error_upd_other.
Qed.

Lemma done_exec tr : forall s s' i r, exec tr s = Some s' -> st_at s i = Some (CDone r) -> st_at s' i = Some (CDone r).
Proof.
  induction tr as [|l tr IH]; intros s s' i r He Hd; cbn in He.
  - now inversion He; subst.
  - destruct (step l s) as [s1|] eqn:Es; [|discriminate]. eapply IH; [eassumption|]. eapply done_step; [|eassumption].
    apply step_tstep. exact Es.
Qed.

(* ------------------------------------------------------------------ completions: the log and the states agree *)
Lemma tstep_done s l s' : tstep s l s' ->
  (done_log s' = done_log s /\ forall j r, st_at s' j = Some (CDone r) <-> st_at s j = Some (CDone r)) \/
  (exists i c r, nth_error (callers s) i = Some c /\ (forall r', c_st c <> CDone r') /\
                 callers s' = upd (callers s) i (set_st c (CDone r)) /\ done_log s' = done_log s ++ [(i, r)]).
Proof.
  intros H.
  assert (Hkeep : forall i c st', nth_error (callers s) i = Some c -> (forall r, c_st c <> CDone r) -> (forall r, st' <> CDone r) ->
            forall j r, option_map c_st (nth_error (upd (callers s) i (set_st c st')) j) = Some (CDone r) <-> st_at s j = Some (CDone r)).
  { intros i c st' Hn Hc Hst j r. unfold st_at. destruct (Nat.eq_dec j i) as [->|Hne].
    - erewrite nth_error_upd_same by eassumption. rewrite Hn. cbn. split; intros E; inversion E; congruence.
    - now rewrite nth_error_upd_other. }
  destruct H;
    try (left; split; [reflexivity | intros j r; unfold st_at; cbn; tauto]);
    try (left; split; [reflexivity|]; unfold st_at at 1; cbn [callers with_ch with_callers with_wlock with_wire];
         apply Hkeep; [assumption | intros r; congruence | intros r; discriminate]);
    right; exists i, c; eexists; (split; [eassumption|]); (split; [intros r'; congruence|]); split; reflexivity.
Qed.

Lemma NoDup_app_one {A} (l : list A) x : NoDup l -> ~ In x l -> NoDup (l ++ [x]).
Proof.
  induction 1 as [|y l Hy Hl IH]; intros Hx; cbn.
  - constructor; [tauto | constructor].
  - constructor.
    + rewrite in_app_iff. cbn. intros [H|[H|[]]]; [tauto | subst; apply Hx; now left].
    + apply IH. intros H. apply Hx. now right.
Qed.

Lemma done_inv cs cap t tr s : reach cs cap t tr s ->
  NoDup (map fst (done_log s)) /\ forall i r, In (i, r) (done_log s) <-> st_at s i = Some (CDone r).
Proof.
  induction 1 as [|tr s l s' Hr [IHn IHd] Hs].
  - split; [constructor|]. intros i r. cbn. split; [tauto|]. unfold st_at, init. cbn. rewrite nth_error_map.
    destruct (nth_error cs i); cbn; discriminate.
  - apply step_tstep in Hs. destruct (tstep_done _ _ _ Hs) as [[El Es]|(i & c & r & Hn & Hnd & Ec & El)].
    + rewrite El. split; [assumption|]. intros j r. rewrite IHd. symmetry. apply Es.
    + rewrite El. split.
      * rewrite map_app. cbn. apply NoDup_app_one; [assumption|]. intros Hin. apply in_map_iff in Hin.
        destruct Hin as ([j r0] & Ej & Hin). cbn in Ej. subst j. apply IHd in Hin. unfold st_at in Hin. rewrite Hn in Hin.
        cbn in Hin. inversion Hin as [E]. exact (Hnd _ E).
      * intros j r0. rewrite in_app_iff. cbn. unfold st_at. rewrite Ec. destruct (Nat.eq_dec j i) as [->|Hne].
        -- erewrite nth_error_upd_same by eassumption. cbn. split.
           ++ intros [Hin|[E|[]]].
              ** apply IHd in Hin. unfold st_at in Hin. rewrite Hn in Hin. cbn in Hin. inversion Hin as [E]. destruct (Hnd _ E).
              ** now inversion E.
           ++ intros E. inversion E. right. now left.
        -- rewrite nth_error_upd_other by assumption. rewrite IHd. unfold st_at. split; [|tauto].
           intros [Hin|[E|[]]]; [assumption | inversion E; congruence].
Qed.

(* ------------------------------------------------------------------ who has a receiver: exactly the calls between
   activate_cloned and completion *)
Definition active (st : cstate) : bool := match st with CSubscribed | CSending | CWritten | CWaiting => true | _ => false end.
Definition active_at (s : sys) (i : nat) : bool :=
  match nth_error (callers s) i with Some c => active (c_st c) | None => false end.
Definition has_cursor (s : sys) (i : nat) : bool := match cursor (ch s) i with Some _ => true | None => false end.

Lemma active_upd_same s i c st : nth_error (callers s) i = Some c ->
  match nth_error (upd (callers s) i (set_st c st)) i with Some c' => active (c_st c') | None => false end = active st.
Proof. intros H. erewrite nth_error_upd_same by eassumption. reflexivity. Qed.

Lemma rcv_step s l s' : tstep s l s' -> (forall i, has_cursor s i = active_at s i) -> forall j, has_cursor s' j = active_at s' j.
Proof.
  intros H IH j. unfold has_cursor, active_at in *.
  destruct H; cbn [callers ch with_ch with_callers with_wlock with_wire with_reader with_socket finish];
    try apply IH.
  - (* sub *) rewrite cursor_subscribe. destruct (Nat.eq_dec j i) as [->|Hne].
    + erewrite nth_error_upd_same by eassumption. cbn. rewrite Nat.eqb_refl. now destruct (cursor (ch s) i).
    + rewrite nth_error_upd_other by assumption. replace (Nat.eqb i j) with false by (symmetry; apply Nat.eqb_neq; congruence).
      specialize (IH j). now destruct (cursor (ch s) j).
  - (* lock *) destruct (Nat.eq_dec j i) as [->|Hne].
    + erewrite nth_error_upd_same by eassumption. cbn. specialize (IH i). rewrite H in IH. rewrite H0 in IH. exact IH.
    + rewrite nth_error_upd_other by assumption. apply IH.
  - (* send noreply *) destruct (Nat.eq_dec j i) as [->|Hne].
    + rewrite cursor_drop_same. erewrite nth_error_upd_same by eassumption. reflexivity.
    + rewrite cursor_drop_other, nth_error_upd_other by assumption. apply IH.
  - (* send ok *) destruct (Nat.eq_dec j i) as [->|Hne].
    + erewrite nth_error_upd_same by eassumption. cbn. specialize (IH i). rewrite H in IH. rewrite H0 in IH. exact IH.
    + rewrite nth_error_upd_other by assumption. apply IH.
  - (* send fail *) destruct (Nat.eq_dec j i) as [->|Hne].
    + rewrite cursor_drop_same. erewrite nth_error_upd_same by eassumption. reflexivity.
    + rewrite cursor_drop_other, nth_error_upd_other by assumption. apply IH.
  - (* recv answer *) apply try_recv_got in H1. destruct H1 as (p & Hc & Hn & Hl & Hcl & Hci & Hco).
    destruct (Nat.eq_dec j i) as [->|Hne].
    + rewrite cursor_drop_same. erewrite nth_error_upd_same by eassumption. reflexivity.
    + rewrite cursor_drop_other, nth_error_upd_other by assumption. rewrite Hco by assumption. apply IH.
  - (* recv skip *) apply try_recv_got in H1. destruct H1 as (p & Hc & Hn & Hl & Hcl & Hci & Hco).
    destruct (Nat.eq_dec j i) as [->|Hne].
    + rewrite Hci. specialize (IH i). now rewrite Hc in IH.
    + rewrite Hco by assumption. apply IH.
  - (* recv fail *) apply try_recv_got in H1. destruct H1 as (p & Hc & Hn & Hl & Hcl & Hci & Hco).
    destruct (Nat.eq_dec j i) as [->|Hne].
    + rewrite cursor_drop_same. erewrite nth_error_upd_same by eassumption. reflexivity.
    + rewrite cursor_drop_other, nth_error_upd_other by assumption. rewrite Hco by assumption. apply IH.
  - (* recv closed *) destruct (Nat.eq_dec j i) as [->|Hne].
    + rewrite cursor_drop_same. erewrite nth_error_upd_same by eassumption. reflexivity.
    + rewrite cursor_drop_other, nth_error_upd_other by assumption. apply IH.
  - (* timeout *) destruct (Nat.eq_dec j i) as [->|Hne].
    + rewrite cursor_drop_same. erewrite nth_error_upd_same by eassumption. reflexivity.
    + rewrite cursor_drop_other, nth_error_upd_other by assumption. apply IH.
  - (* push *) apply try_push_pushed in H0. destruct H0 as (_ & Hr & _). unfold cursor. rewrite Hr. apply IH.
  - (* hijack *) rewrite hijack_cursor, hijack_callers. apply IH.
  - (* wire *) destruct (Nat.eq_dec j i) as [->|Hne].
    + erewrite nth_error_upd_same by eassumption. cbn. specialize (IH i). rewrite H in IH. rewrite H0 in IH. exact IH.
    + rewrite nth_error_upd_other by assumption. apply IH.
  - (* ret, noreply *) destruct (Nat.eq_dec j i) as [->|Hne].
    + rewrite cursor_drop_same. erewrite nth_error_upd_same by eassumption. reflexivity.
    + rewrite cursor_drop_other, nth_error_upd_other by assumption. apply IH.
  - (* ret *) destruct (Nat.eq_dec j i) as [->|Hne].
    + erewrite nth_error_upd_same by eassumption. cbn. specialize (IH i). rewrite H in IH. rewrite H0 in IH. exact IH.
    + rewrite nth_error_upd_other by assumption. apply IH.
Qed.

Lemma rcv_inv cs cap t tr s : reach cs cap t tr s -> forall i, has_cursor s i = active_at s i.
Proof.
  induction 1 as [|tr s l s' Hr IH Hs].
  - intros i. unfold has_cursor, active_at, init. cbn. rewrite nth_error_map. now destruct (nth_error cs i).
  - apply step_tstep in Hs. now apply (rcv_step _ _ _ Hs).
Qed.

(* ------------------------------------------------------------------ cursors never pass the tail *)
Lemma curle_step s l s' : tstep s l s' -> (forall i p, cursor (ch s) i = Some p -> p <= tail (ch s)) ->
  forall j p, cursor (ch s') j = Some p -> p <= tail (ch s').
Proof.
  intros H IH j q.
  assert (Hdrop : forall i (c0 : chan item), (forall k p, cursor c0 k = Some p -> p <= tail c0) -> cursor (drop_rcv i c0) j = Some q -> q <= tail c0).
  { intros i c0 Hc0 Hq. destruct (Nat.eq_dec j i) as [->|Hne]; [now rewrite cursor_drop_same in Hq|].
    rewrite cursor_drop_other in Hq by assumption. eauto. }
  assert (Hrecv : forall i x ch', try_recv i (ch s) = Got x ch' -> forall k p, cursor ch' k = Some p -> p <= tail ch').
  { intros i x ch' Hg k p Hk. apply try_recv_got in Hg. destruct Hg as (p0 & Hc & Hn & Hl & Hcl & Hci & Hco).
    unfold tail. rewrite Hl. destruct (Nat.eq_dec k i) as [->|Hne].
    - rewrite Hci in Hk. inversion Hk; subst p.
      assert (Hlt : p0 < length (log (ch s))) by (apply nth_error_Some; congruence). lia.
    - rewrite Hco in Hk by assumption. apply IH in Hk. exact Hk. }
  destruct H; cbn [ch with_ch with_callers with_wlock with_wire with_reader with_socket finish]; try apply IH.
  - rewrite cursor_subscribe. destruct (cursor (ch s) j) as [p0|] eqn:E.
    + intros Hq; inversion Hq; subst. apply (IH _ _ E).
    + destruct (Nat.eqb i j); [|discriminate]. intros Hq; inversion Hq. unfold tail. cbn. lia.
  - intros Hq. eapply (Hdrop i (ch s)); eauto.
  - intros Hq. eapply (Hdrop i (ch s)); eauto.
  - intros Hq. unfold tail. rewrite log_drop. eapply (Hdrop i ch'); eauto.
  - intros Hq. eapply Hrecv; eauto.
  - intros Hq. unfold tail. rewrite log_drop. eapply (Hdrop i ch'); eauto.
  - intros Hq. eapply (Hdrop i (ch s)); eauto.
  - intros Hq. eapply (Hdrop i (ch s)); eauto.
  - apply try_push_pushed in H0. destruct H0 as (Hl & Hr & _). unfold cursor, tail. rewrite Hr, Hl, app_length. cbn.
    intros Hq. apply IH in Hq. unfold tail in Hq. lia.
  - rewrite hijack_cursor, hijack_tail. apply IH.
  - (* ret, noreply *) intros Hq. eapply (Hdrop i (ch s)); eauto.
Qed.

Lemma curle_inv cs cap t tr s : reach cs cap t tr s -> forall i p, cursor (ch s) i = Some p -> p <= tail (ch s).
Proof.
  induction 1 as [|tr s l s' Hr IH Hs].
  - intros i p. unfold init, cursor. cbn. discriminate.
  - apply step_tstep in Hs. now apply (curle_step _ _ _ Hs).
Qed.

(* ------------------------------------------------------------------ what a finished call holds *)
Definition holds_own (s : sys) (i : nat) : Prop :=
  forall c, nth_error (callers s) i = Some c ->
    match c_st c with
    | CDone (ROk m) => answers m (c_serial c) = true /\ m_type m = TReturn
    | CDone (RMethodErr m) => answers m (c_serial c) = true /\ m_type m = TError
    | _ => True
    end.

Lemma res_of_own m serial : answers m serial = true ->
  match res_of m with
  | ROk m' => answers m' serial = true /\ m_type m' = TReturn
  | RMethodErr m' => answers m' serial = true /\ m_type m' = TError
  | _ => True
  end.
Proof.
  intros Ha. unfold res_of. pose proof Ha as Ha'. unfold answers in Ha'. apply andb_true_iff in Ha'. destruct Ha' as [_ Hr].
  destruct (m_type m) eqn:Et; cbn in Hr; try discriminate; split; auto.
Qed.

Lemma own_step s l s' : tstep s l s' -> (forall i, holds_own s i) -> forall j, holds_own s' j.
Proof.
  intros H IH j c' Hc'.
  assert (Hupd : forall i c st, nth_error (callers s) i = Some c -> nth_error (upd (callers s) i (set_st c st)) j = Some c' ->
            (j = i /\ c' = set_st c st) \/ (j <> i /\ nth_error (callers s) j = Some c')).
  { intros i c st Hn Hj. destruct (Nat.eq_dec j i) as [->|Hne].
    - erewrite nth_error_upd_same in Hj by eassumption. inversion Hj. now left.
    - rewrite nth_error_upd_other in Hj by assumption. now right. }
  destruct H; cbn [callers with_ch with_callers with_wlock with_wire with_reader with_socket finish] in Hc';
    try (apply (IH j c' Hc'));
    try (destruct (Hupd _ _ _ H Hc') as [[-> ->]|[Hne Hj]]; [cbn; try exact I | apply (IH j c' Hj)]).
  apply res_of_own. assumption.
Qed.

Lemma own_inv cs cap t tr s : reach cs cap t tr s -> forall i, holds_own s i.
Proof.
  induction 1 as [|tr s l s' Hr IH Hs].
  - intros i c Hc. unfold init in Hc. cbn in Hc. rewrite nth_error_map in Hc. destruct (nth_error cs i); [|discriminate].
    cbn in Hc. inversion Hc. exact I.
  - apply step_tstep in Hs. now apply (own_step _ _ _ Hs).
Qed.

(* ------------------------------------------------------------------ causality: nothing that carries the serial of an unsent
   call is anywhere in the system *)
Definition in_hand (s : sys) : list item := match reader s with RPush it _ => [it] | _ => [] end.
Definition items (s : sys) : list item := log (ch s) ++ in_hand s ++ socket s.

Lemma unsent_intro s i c : nth_error (callers s) i = Some c -> not_sent (c_st c) = true -> unsent s (c_serial c) = true.
Proof.
  intros Hn Hs. unfold unsent. apply existsb_exists. exists c. split; [eapply nth_error_In; eassumption|].
  now rewrite N.eqb_refl, Hs.
Qed.

Lemma unsent_mono s l s' r : tstep s l s' -> unsent s' r = true -> unsent s r = true.
Proof.
  intros H Hu. destruct (tstep_callers _ _ _ H) as [E|(i & c & st' & Hn & E & Ha)]; unfold unsent in *; rewrite E in Hu; [exact Hu|].
  apply existsb_exists in Hu. destruct Hu as (x & Hin & Hx). apply existsb_exists.
  apply In_nth_error in Hin. destruct Hin as [j Hj]. destruct (Nat.eq_dec j i) as [->|Hne].
  - erewrite nth_error_upd_same in Hj by eassumption. inversion Hj; subst x. cbn in Hx. exists c. split.
    + eapply nth_error_In; eassumption.
    + apply andb_true_iff in Hx. destruct Hx as [Hx1 Hx2]. rewrite Hx1. cbn. destruct Ha; cbn in *; congruence.
  - rewrite nth_error_upd_other in Hj by assumption. exists x. split; [eapply nth_error_In; eassumption | exact Hx].
Qed.

Lemma items_step s l s' x : tstep s l s' -> In x (items s') -> In x (items s) \/ (l = LArrive x /\ causal_ok s x = true).
Proof.
  intros H. unfold items, in_hand.
  destruct H; cbn [ch reader socket with_ch with_callers with_wlock with_wire with_reader with_socket finish];
    rewrite ?log_subscribe, ?log_drop, ?log_close; try (intros Hin; left; exact Hin).
  - apply try_recv_got in H1. destruct H1 as (p & _ & _ & Hl & _). rewrite Hl. tauto.
  - apply try_recv_got in H1. destruct H1 as (p & _ & _ & Hl & _). rewrite Hl. tauto.
  - apply try_recv_got in H1. destruct H1 as (p & _ & _ & Hl & _). rewrite Hl. tauto.
  - rewrite H, H0. cbn. rewrite !in_app_iff. cbn. tauto.
  - apply try_push_pushed in H0. destruct H0 as (Hl & _). rewrite H, Hl. rewrite !in_app_iff. cbn. tauto.
  - rewrite H. rewrite !in_app_iff. cbn. tauto.
  - rewrite H. rewrite !in_app_iff. cbn. tauto.
  - rewrite H. rewrite !in_app_iff. cbn. tauto.
  - rewrite !in_app_iff. cbn. intros [Hi|[Hi|[Hi|[E|[]]]]]; [tauto | tauto | tauto |]. subst it. right. split; [reflexivity | assumption].
  - rewrite hijack_log, hijack_reader, hijack_socket. intros Hin; left; exact Hin.
Qed.

Definition causal (s : sys) : Prop := forall m r, In (IMsg m) (items s) -> m_rs m = Some r -> unsent s r = false.

Lemma causal_inv cs cap t tr s : reach cs cap t tr s -> causal s.
Proof.
  induction 1 as [|tr s l s' Hr IH Hs].
  - intros m r Hin. unfold items, init in Hin. cbn in Hin. destruct Hin.
  - apply step_tstep in Hs. intros m r Hin Hrs.
    destruct (unsent s' r) eqn:Eu; [|reflexivity]. pose proof (unsent_mono _ _ _ r Hs Eu) as Eu0.
    destruct (items_step _ _ _ _ Hs Hin) as [Hin0|[_ Hc]].
    + rewrite (IH _ _ Hin0 Hrs) in Eu0. discriminate.
    + unfold causal_ok in Hc. rewrite Hrs, Eu0 in Hc. discriminate.
Qed.

(* ------------------------------------------------------------------ a waiting caller has missed nothing: no answer to it lies
   behind its cursor *)
Definition seen_ok (s : sys) : Prop :=
  forall i c p q m, nth_error (callers s) i = Some c -> (c_st c = CWaiting \/ c_st c = CWritten) -> cursor (ch s) i = Some p -> q < p ->
                    nth_error (log (ch s)) q = Some (IMsg m) -> answers m (c_serial c) = false.

Lemma seen_step s l s' : tstep s l s' -> causal s -> (forall i p, cursor (ch s) i = Some p -> p <= tail (ch s)) ->
  seen_ok s -> seen_ok s'.
Proof.
  intros H Hca Hle IH j c' p q m Hc' Hst Hcur Hq Hn.
  assert (Hupd : forall i c st, nth_error (callers s) i = Some c -> nth_error (upd (callers s) i (set_st c st)) j = Some c' ->
            (j = i /\ c' = set_st c st) \/ (j <> i /\ nth_error (callers s) j = Some c')).
  { intros i c st Hn0 Hj. destruct (Nat.eq_dec j i) as [->|Hne].
    - erewrite nth_error_upd_same in Hj by eassumption. inversion Hj. now left.
    - rewrite nth_error_upd_other in Hj by assumption. now right. }
  destruct H; cbn [callers ch with_ch with_callers with_wlock with_wire with_reader with_socket finish] in *;
    rewrite ?log_subscribe, ?log_drop, ?log_close, ?cursor_close in *.
  - (* sub *) destruct (Hupd _ _ _ H Hc') as [[-> ->]|[Hne Hj]]; [destruct Hst; discriminate|].
    rewrite cursor_subscribe in Hcur. destruct (cursor (ch s) j) as [p0|] eqn:E.
    + inversion Hcur; subst p0. eapply IH; eauto.
    + pose proof (rcv_step s (LSub i) _ (TSub s i c H H0)) as _. clear - E Hcur Hne. destruct (Nat.eqb i j) eqn:Eb; [|discriminate].
      apply Nat.eqb_eq in Eb. congruence.
  - (* lock *) destruct (Hupd _ _ _ H Hc') as [[-> ->]|[Hne Hj]]; [destruct Hst; discriminate | eapply IH; eauto].
  - (* send noreply *) destruct (Hupd _ _ _ H Hc') as [[-> ->]|[Hne Hj]]; [destruct Hst; discriminate|].
    rewrite cursor_drop_other in Hcur by assumption. eapply IH; eauto.
  - (* send ok: the call is on the wire from now on; before, nothing could answer it *)
    destruct (Hupd _ _ _ H Hc') as [[-> ->]|[Hne Hj]]; [|eapply IH; eauto].
    cbn [c_serial set_st]. unfold answers. destruct (m_rs m) as [r|] eqn:Er; [|reflexivity].
    destruct (N.eqb r (c_serial c)) eqn:Eq; [|reflexivity]. apply N.eqb_eq in Eq. subst r. exfalso.
    assert (Hu : unsent s (c_serial c) = true) by (eapply unsent_intro; [eassumption | now rewrite H0]).
    rewrite (Hca m (c_serial c)) in Hu; [discriminate | | assumption].
    unfold items. apply in_app_iff. left. eapply nth_error_In; eassumption.
  - (* send fail *) destruct (Hupd _ _ _ H Hc') as [[-> ->]|[Hne Hj]]; [destruct Hst; discriminate|].
    rewrite cursor_drop_other in Hcur by assumption. eapply IH; eauto.
  - (* recv answer *) apply try_recv_got in H1. destruct H1 as (p0 & Hc0 & Hn0 & Hl & Hcl & Hci & Hco).
    destruct (Hupd _ _ _ H Hc') as [[-> ->]|[Hne Hj]]; [destruct Hst; discriminate|].
    rewrite cursor_drop_other in Hcur by assumption. rewrite Hco in Hcur by assumption. rewrite Hl in Hn. eapply IH; eauto.
  - (* recv skip *) apply try_recv_got in H1. destruct H1 as (p0 & Hc0 & Hn0 & Hl & Hcl & Hci & Hco). rewrite Hl in Hn.
    destruct (Nat.eq_dec j i) as [->|Hne].
    + rewrite Hci in Hcur. inversion Hcur; subst p. rewrite H in Hc'. inversion Hc'; subst c'.
      destruct (Nat.eq_dec q p0) as [->|Hqp].
      * rewrite Hn0 in Hn. inversion Hn; subst m0. assumption.
      * eapply IH; eauto. lia.
    + rewrite Hco in Hcur by assumption. eapply IH; eauto.
  - (* recv fail *) apply try_recv_got in H1. destruct H1 as (p0 & Hc0 & Hn0 & Hl & Hcl & Hci & Hco).
    destruct (Hupd _ _ _ H Hc') as [[-> ->]|[Hne Hj]]; [destruct Hst; discriminate|].
    rewrite cursor_drop_other in Hcur by assumption. rewrite Hco in Hcur by assumption. rewrite Hl in Hn. eapply IH; eauto.
  - (* recv closed *) destruct (Hupd _ _ _ H Hc') as [[-> ->]|[Hne Hj]]; [destruct Hst; discriminate|].
    rewrite cursor_drop_other in Hcur by assumption. eapply IH; eauto.
  - (* timeout *) destruct (Hupd _ _ _ H Hc') as [[-> ->]|[Hne Hj]]; [destruct Hst; discriminate|].
    rewrite cursor_drop_other in Hcur by assumption. eapply IH; eauto.
  - eapply IH; eauto.
  - (* push: behind the cursors nothing changes *)
    apply try_push_pushed in H0. destruct H0 as (Hl & Hr & _). unfold cursor in Hcur. rewrite Hr in Hcur. fold (cursor (ch s) j) in Hcur.
    rewrite Hl in Hn. pose proof (Hle _ _ Hcur) as Hp. unfold tail in Hp. rewrite nth_error_app1 in Hn by lia. eapply IH; eauto.
  - eapply IH; eauto.
  - eapply IH; eauto.
  - eapply IH; eauto.
  - eapply IH; eauto.
  - rewrite hijack_callers in Hc'. rewrite hijack_cursor in Hcur. rewrite hijack_log in Hn. eapply IH; eauto.
  - (* wire: the call is on the wire from now on; before, nothing could answer it *)
    destruct (Hupd _ _ _ H Hc') as [[-> ->]|[Hne Hj]]; [|eapply IH; eauto].
    cbn [c_serial set_st]. unfold answers. destruct (m_rs m) as [r|] eqn:Er; [|reflexivity].
    destruct (N.eqb r (c_serial c)) eqn:Eq; [|reflexivity]. apply N.eqb_eq in Eq. subst r. exfalso.
    assert (Hu : unsent s (c_serial c) = true) by (eapply unsent_intro; [eassumption | now rewrite H0]).
    rewrite (Hca m (c_serial c)) in Hu; [discriminate | | assumption].
    unfold items. apply in_app_iff. left. eapply nth_error_In; eassumption.
  - (* ret, noreply *) destruct (Hupd _ _ _ H Hc') as [[-> ->]|[Hne Hj]]; [destruct Hst; discriminate|].
    rewrite cursor_drop_other in Hcur by assumption. eapply IH; eauto.
  - (* ret: nothing was missed while send() was returning *)
    destruct (Hupd _ _ _ H Hc') as [[-> ->]|[Hne Hj]]; [|eapply IH; eauto].
    cbn [c_serial set_st]. eapply (IH i c p q m H (or_intror H0)); eauto.
Qed.

Lemma seen_inv cs cap t tr s : reach cs cap t tr s -> seen_ok s.
Proof.
  induction 1 as [|tr s l s' Hr IH Hs].
  - intros i c p q m _ _ Hc. unfold init, cursor in Hc. cbn in Hc. discriminate.
  - pose proof (causal_inv _ _ _ _ _ Hr). pose proof (curle_inv _ _ _ _ _ Hr). apply step_tstep in Hs.
    eapply seen_step; eauto.
Qed.

(* ------------------------------------------------------------------ NoReplyExpected calls never wait *)
Lemma noreply_inv cs cap t tr s : reach cs cap t tr s ->
  forall i c, nth_error (callers s) i = Some c -> c_kind c = KNoReply -> c_st c <> CWaiting.
Proof.
  induction 1 as [|tr s l s' Hr IH Hs].
  - intros i c Hc _. unfold init in Hc. cbn in Hc. rewrite nth_error_map in Hc. destruct (nth_error cs i); [|discriminate].
    inversion Hc. cbn. discriminate.
  - apply step_tstep in Hs. intros j c' Hc' Hk.
    assert (Hupd : forall i c st, nth_error (callers s) i = Some c -> nth_error (upd (callers s) i (set_st c st)) j = Some c' ->
              (j = i /\ c' = set_st c st) \/ (j <> i /\ nth_error (callers s) j = Some c')).
    { intros i c st Hn0 Hj. destruct (Nat.eq_dec j i) as [->|Hne].
      - erewrite nth_error_upd_same in Hj by eassumption. inversion Hj. now left.
      - rewrite nth_error_upd_other in Hj by assumption. now right. }
    destruct Hs; cbn [callers with_ch with_callers with_wlock with_wire with_reader with_socket finish] in Hc';
      try (eapply IH; eassumption);
      try (destruct (Hupd _ _ _ H Hc') as [[-> ->]|[Hne Hj]]; [cbn; try discriminate | eapply IH; eassumption]).
    all: cbn in Hk; congruence.
Qed.

(* ------------------------------------------------------------------ once the reader has failed, the channel is closed *)
Lemma stopped_inv cs cap t tr s : reach cs cap t tr s -> reader s = RStopped -> closed (ch s) = true.
Proof.
  induction 1 as [|tr s l s' Hr IH Hs]; [discriminate|].
  apply step_tstep in Hs.
  destruct Hs; cbn [ch reader with_ch with_callers with_wlock with_wire with_reader with_socket finish];
    rewrite ?closed_subscribe, ?closed_drop; try exact IH; try discriminate; try reflexivity.
  - apply try_recv_got in H1. destruct H1 as (p0 & _ & _ & _ & Hcl & _). now rewrite Hcl.
  - apply try_recv_got in H1. destruct H1 as (p0 & _ & _ & _ & Hcl & _). now rewrite Hcl.
  - apply try_recv_got in H1. destruct H1 as (p0 & _ & _ & _ & Hcl & _). now rewrite Hcl.
  - rewrite hijack_reader. congruence.
Qed.
