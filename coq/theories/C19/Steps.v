(* C19/Steps.v — the step function of C19/Model.v as a relation with one constructor per way a label can fire,
   so that every invariant proof is one [inversion]. *)
From ZV Require Import Base.Bytes Base.Res C19.Broadcast C19.BroadcastFacts C19.Model.
From Coq Require Import Lia.

Definition res_of (m : msg) : result := match m_type m with TError => RMethodErr m | _ => ROk m end.

Inductive tstep (s : sys) : label -> sys -> Prop :=
  | TSub i c : nth_error (callers s) i = Some c -> c_st c = CInit ->
      tstep s (LSub i) (with_ch (with_callers s (upd (callers s) i (set_st c CSubscribed))) (subscribe i (ch s)))
  | TLock i c : nth_error (callers s) i = Some c -> c_st c = CSubscribed -> wlock s = None ->
      tstep s (LLock i) (with_wlock (with_callers s (upd (callers s) i (set_st c CSending))) (Some i))
  | TSendNoReply i c : nth_error (callers s) i = Some c -> c_st c = CSending -> c_kind c = KNoReply ->
      tstep s (LSend i true) (finish (with_wire (with_wlock s None) (wire s ++ [c_serial c])) i c RNoReply)
  | TSendOk i c : nth_error (callers s) i = Some c -> c_st c = CSending -> c_kind c <> KNoReply ->
      tstep s (LSend i true)
        (with_callers (with_wire (with_wlock s None) (wire s ++ [c_serial c])) (upd (callers s) i (set_st c CWaiting)))
  | TSendFail i c : nth_error (callers s) i = Some c -> c_st c = CSending ->
      tstep s (LSend i false) (finish (with_wlock s None) i c RSendFail)
  | TRecvAns i c m ch' : nth_error (callers s) i = Some c -> c_st c = CWaiting ->
      try_recv i (ch s) = Got (IMsg m) ch' -> answers m (c_serial c) = true ->
      tstep s (LRecv i) (finish (with_ch s ch') i c (res_of m))
  | TRecvSkip i c m ch' : nth_error (callers s) i = Some c -> c_st c = CWaiting ->
      try_recv i (ch s) = Got (IMsg m) ch' -> answers m (c_serial c) = false ->
      tstep s (LRecv i) (with_ch s ch')
  | TRecvFail i c e ch' : nth_error (callers s) i = Some c -> c_st c = CWaiting ->
      try_recv i (ch s) = Got (IFail e) ch' ->
      tstep s (LRecv i) (finish (with_ch s ch') i c (RFail e))
  | TRecvClosed i c : nth_error (callers s) i = Some c -> c_st c = CWaiting -> try_recv i (ch s) = RClosed ->
      tstep s (LRecv i) (finish s i c RBrokenPipe)
  | TTimeout i c : nth_error (callers s) i = Some c -> c_st c = CWaiting -> c_kind c <> KNoReply -> tmo s = true ->
      tstep s (LTimeout i) (finish s i c RTimedOut)
  | TRead it rest : reader s = RIdle -> socket s = it :: rest ->
      tstep s LRead (with_reader (with_socket s rest) (RPush it (fanout s it)))
  | TPushOk it n ch' : reader s = RPush it (S n) -> try_push it (ch s) = Pushed ch' ->
      tstep s LPush (with_reader (with_ch s ch') (RPush it n))
  | TPushSkip it n : reader s = RPush it (S n) -> (try_push it (ch s) = PNoRecv \/ try_push it (ch s) = PClosed) ->
      tstep s LPush (with_reader s (RPush it n))
  | TNextMsg m : reader s = RPush (IMsg m) O -> tstep s LNext (with_reader s RIdle)
  | TNextFail e : reader s = RPush (IFail e) O -> tstep s LNext (with_reader (with_ch s (close (ch s))) RStopped)
  | TArrive it : causal_ok s it = true -> tstep s (LArrive it) (with_socket s (socket s ++ [it]))
  | THijack (e : bool) : reader s = RIdle -> (if e then kerr s else kret s) = true -> tstep s (LHijack e) (hijack s e)
  | TWire i c : nth_error (callers s) i = Some c -> c_st c = CSending ->
      tstep s (LWire i) (with_callers (with_wire s (wire s ++ [c_serial c])) (upd (callers s) i (set_st c CWritten)))
  | TRetNoReply i c : nth_error (callers s) i = Some c -> c_st c = CWritten -> c_kind c = KNoReply ->
      tstep s (LRet i) (finish (with_wlock s None) i c RNoReply)
  | TRetOk i c : nth_error (callers s) i = Some c -> c_st c = CWritten -> c_kind c <> KNoReply ->
      tstep s (LRet i) (with_callers (with_wlock s None) (upd (callers s) i (set_st c CWaiting))).

Lemma step_tstep l s s' : step l s = Some s' -> tstep s l s'.
Proof.
  unfold step. destruct l as [i|i|i ok|i|i| | | |it|e|i|i].
  - destruct (nth_error (callers s) i) as [c|] eqn:Ec; [|discriminate]. destruct (c_st c) eqn:Est; try discriminate.
    intros H. inversion H; subst s'. now apply TSub.
  - destruct (nth_error (callers s) i) as [c|] eqn:Ec; [|discriminate]. destruct (wlock s) eqn:Ew; [discriminate|].
    destruct (c_st c) eqn:Est; try discriminate. intros H. inversion H; subst s'. now apply TLock.
  - destruct (nth_error (callers s) i) as [c|] eqn:Ec; [|discriminate]. destruct (c_st c) eqn:Est; try discriminate.
    destruct ok.
    + destruct (c_kind c) eqn:Ek; intros H; inversion H; subst s'.
      * apply TSendOk; try assumption. congruence.
      * apply TSendOk; try assumption. congruence.
      * now apply TSendNoReply.
    + intros H; inversion H; subst s'. now apply TSendFail.
  - destruct (nth_error (callers s) i) as [c|] eqn:Ec; [|discriminate]. destruct (c_st c) eqn:Est; try discriminate.
    destruct (try_recv i (ch s)) as [x ch'| | |] eqn:Er; try discriminate.
    + destruct x as [m|e].
      * destruct (answers m (c_serial c)) eqn:Ea; intros H; inversion H; subst s'.
        -- now apply TRecvAns.
        -- now eapply TRecvSkip; eauto.
      * intros H; inversion H; subst s'. now apply TRecvFail.
    + intros H; inversion H; subst s'. now apply TRecvClosed.
  - destruct (nth_error (callers s) i) as [c|] eqn:Ec; [|discriminate].
    destruct (c_st c) eqn:Est; try discriminate. destruct (c_kind c) eqn:Ek; try discriminate.
    + destruct (tmo s) eqn:Et; [|discriminate]. intros H; inversion H; subst s'. apply TTimeout; try assumption. congruence.
    + destruct (tmo s) eqn:Et; [|discriminate]. intros H; inversion H; subst s'. apply TTimeout; try assumption. congruence.
  - destruct (reader s) eqn:Er; try discriminate. destruct (socket s) as [|it rest] eqn:Es; [discriminate|].
    intros H; inversion H; subst s'. now apply TRead.
  - destruct (reader s) as [|it [|n]|] eqn:Er; try discriminate.
    destruct (try_push it (ch s)) eqn:Ep; try discriminate; intros H; inversion H; subst s'.
    + eapply TPushOk; eauto.
    + eapply TPushSkip; eauto.
    + eapply TPushSkip; eauto.
  - destruct (reader s) as [|[m|e] [|n]|] eqn:Er; try discriminate; intros H; inversion H; subst s'.
    + eapply TNextMsg; eauto.
    + eapply TNextFail; eauto.
  - destruct (causal_ok s it) eqn:Ec; [|discriminate]. intros H; inversion H; subst s'. now apply TArrive.
  - destruct (reader s) eqn:Er; try discriminate. destruct (if e then kerr s else kret s) eqn:Ek; [|discriminate].
    intros H; inversion H; subst s'. now apply THijack.
  - destruct (nth_error (callers s) i) as [c|] eqn:Ec; [|discriminate]. destruct (c_st c) eqn:Est; try discriminate.
    intros H; inversion H; subst s'. now apply TWire.
  - destruct (nth_error (callers s) i) as [c|] eqn:Ec; [|discriminate]. destruct (c_st c) eqn:Est; try discriminate.
    destruct (c_kind c) eqn:Ek; intros H; inversion H; subst s'.
    + apply TRetOk; try assumption. congruence.
    + apply TRetOk; try assumption. congruence.
    + now apply TRetNoReply.
Qed.

(* ---- list update ---- *)
Lemma nth_error_upd_same {A} (l : list A) i x y : nth_error l i = Some y -> nth_error (upd l i x) i = Some x.
Proof.
  revert i; induction l as [|a l IH]; intros [|i] H; cbn in *; try discriminate; [reflexivity | now apply IH].
Qed.
Lemma nth_error_upd_other {A} (l : list A) i j x : j <> i -> nth_error (upd l i x) j = nth_error l j.
Proof.
  revert i j; induction l as [|a l IH]; intros [|i] [|j] H; cbn; try reflexivity; try lia. apply IH. lia.
Qed.
Lemma map_upd {A B} (f : A -> B) (l : list A) i x y : nth_error l i = Some y -> f x = f y -> map f (upd l i x) = map f l.
Proof.
  revert i; induction l as [|a l IH]; intros [|i] H E; cbn in *; try discriminate; try reflexivity.
  - inversion H; subst. now rewrite E.
  - f_equal. now apply IH.
Qed.
Lemma length_upd {A} (l : list A) i x : length (upd l i x) = length l.
Proof. revert i; induction l as [|a l IH]; intros [|i]; cbn; try reflexivity. now rewrite IH. Qed.

(* ---- what LHijack leaves alone ---- *)
Lemma hijack_callers s e : callers (hijack s e) = callers s.  Proof. reflexivity. Qed.
Lemma hijack_reader s e : reader (hijack s e) = reader s.  Proof. reflexivity. Qed.
Lemma hijack_socket s e : socket (hijack s e) = socket s.  Proof. reflexivity. Qed.
Lemma hijack_wire s e : wire (hijack s e) = wire s.  Proof. reflexivity. Qed.
Lemma hijack_wlock s e : wlock (hijack s e) = wlock s.  Proof. reflexivity. Qed.
Lemma hijack_tmo s e : tmo (hijack s e) = tmo s.  Proof. reflexivity. Qed.
Lemma hijack_done s e : done_log (hijack s e) = done_log s.  Proof. reflexivity. Qed.
Lemma hijack_ch s e : ch (hijack s e) = ch s \/ ch (hijack s e) = close (ch s).
Proof. unfold hijack. cbn [ch]. destruct (_ || _); [now left | now right]. Qed.
Lemma hijack_log s e : log (ch (hijack s e)) = log (ch s).
Proof. destruct (hijack_ch s e) as [-> | ->]; reflexivity. Qed.
Lemma hijack_cursor s e i : cursor (ch (hijack s e)) i = cursor (ch s) i.
Proof. destruct (hijack_ch s e) as [-> | ->]; reflexivity. Qed.
Lemma hijack_tail s e : tail (ch (hijack s e)) = tail (ch s).
Proof. destruct (hijack_ch s e) as [-> | ->]; reflexivity. Qed.
Lemma hijack_rcv s e : rcv (ch (hijack s e)) = rcv (ch s).
Proof. destruct (hijack_ch s e) as [-> | ->]; reflexivity. Qed.
Lemma hijack_closed s e : closed (ch s) = true -> closed (ch (hijack s e)) = true.
Proof. destruct (hijack_ch s e) as [-> | ->]; [auto | reflexivity]. Qed.
