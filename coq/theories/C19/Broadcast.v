(* C19/Broadcast.v — the contract of the `async-broadcast` channel (0.7) as zbus uses it, as an explicit executable model.
   zbus never enables overflow mode and sets `await_active(false)` on every channel.

   A channel is an append-only log of everything that was ever accepted, one cursor (absolute position in the log)
   per ACTIVE receiver, a capacity and the closed flag.  The real queue (`VecDeque<(T, waiters)>`, `head_pos`) is the part
   of the log from the smallest cursor on: an element leaves the queue when every receiver that existed when it was sent
   has read it or has been dropped (waiters = number of active receivers whose cursor is <= its position; cursors only
   grow; a receiver that is dropped "reads" everything that is left for it).

     activate_cloned / new receiver      cursor = tail (head_pos + queue.len())                 [subscribe]
     Receiver::clone                     same cursor as the original                              [clone_rcv]
     try_broadcast / broadcast_direct    closed -> Err(Closed); no active receiver -> Err(Inactive), which with
                                         await_active(false) makes broadcast_direct fail at once; queue.len() = capacity ->
                                         Full (broadcast_direct waits); otherwise appended                 [try_push]
     try_recv / poll_next                next element at the cursor, else Closed if closed, else Empty    [try_recv]
     drop(Receiver)                      the cursor disappears                                             [drop_rcv]
     last Sender dropped                 closed; receivers drain what is left, then end                    [close]
     set_capacity(n), n > capacity       capacity := n                                                     [grow]
   No proofs in this file. *)
From Coq Require Import List Arith Bool.
Import ListNotations.

Section Chan.
Variable A : Type.

Record chan := { log : list A; rcv : list (nat * nat); cap : nat; closed : bool }.

Definition new_chan (c : nat) : chan := {| log := []; rcv := []; cap := c; closed := false |}.

Definition tail (c : chan) : nat := length (log c).

Fixpoint min_cursor (l : list (nat * nat)) (d : nat) : nat :=
  match l with
  | [] => d
  | (_, p) :: r => Nat.min p (min_cursor r d)
  end.
(* position of the front of the queue; with no active receiver the queue is empty *)
Definition head (c : chan) : nat := min_cursor (rcv c) (tail c).
Definition qlen (c : chan) : nat := tail c - head c.
Definition nrecv (c : chan) : nat := length (rcv c).

Fixpoint cursor_in (l : list (nat * nat)) (id : nat) : option nat :=
  match l with
  | [] => None
  | (i, p) :: r => if Nat.eqb i id then Some p else cursor_in r id
  end.
Definition cursor (c : chan) (id : nat) : option nat := cursor_in (rcv c) id.

Fixpoint set_cursor (l : list (nat * nat)) (id p : nat) : list (nat * nat) :=
  match l with
  | [] => []
  | (i, q) :: r => if Nat.eqb i id then (i, p) :: r else (i, q) :: set_cursor r id p
  end.
Fixpoint del_cursor (l : list (nat * nat)) (id : nat) : list (nat * nat) :=
  match l with
  | [] => []
  | (i, q) :: r => if Nat.eqb i id then del_cursor r id else (i, q) :: del_cursor r id
  end.

Definition with_rcv (c : chan) (r : list (nat * nat)) : chan :=
  {| log := log c; rcv := r; cap := cap c; closed := closed c |}.

Definition subscribe (id : nat) (c : chan) : chan := with_rcv c (rcv c ++ [(id, tail c)]).
Definition clone_rcv (src id : nat) (c : chan) : chan :=
  match cursor c src with Some p => with_rcv c (rcv c ++ [(id, p)]) | None => c end.
Definition drop_rcv (id : nat) (c : chan) : chan := with_rcv c (del_cursor (rcv c) id).
Definition close (c : chan) : chan := {| log := log c; rcv := rcv c; cap := cap c; closed := true |}.
Definition grow (n : nat) (c : chan) : chan :=
  {| log := log c; rcv := rcv c; cap := Nat.max n (cap c); closed := closed c |}.

Inductive push_res := Pushed (c : chan) | PFull | PNoRecv | PClosed.
Definition try_push (x : A) (c : chan) : push_res :=
  if closed c then PClosed
  else match rcv c with
       | [] => PNoRecv
       | _ => if cap c <=? qlen c then PFull
              else Pushed {| log := log c ++ [x]; rcv := rcv c; cap := cap c; closed := closed c |}
       end.

Inductive recv_res := Got (x : A) (c : chan) | REmpty | RClosed | RNoSuch.
Definition try_recv (id : nat) (c : chan) : recv_res :=
  match cursor c id with
  | None => RNoSuch
  | Some p =>
      match nth_error (log c) p with
      | Some x => Got x (with_rcv c (set_cursor (rcv c) id (S p)))
      | None => if closed c then RClosed else REmpty
      end
  end.

(* what receiver id has not read yet *)
Definition unread (c : chan) (id : nat) : list A :=
  match cursor c id with Some p => skipn p (log c) | None => [] end.

End Chan.

Arguments log {A} c. Arguments rcv {A} c. Arguments cap {A} c. Arguments closed {A} c.
Arguments new_chan {A} c. Arguments tail {A} c. Arguments head {A} c. Arguments qlen {A} c. Arguments nrecv {A} c.
Arguments cursor {A} c id. Arguments with_rcv {A} c r. Arguments subscribe {A} id c. Arguments clone_rcv {A} src id c.
Arguments drop_rcv {A} id c. Arguments close {A} c. Arguments grow {A} n c. Arguments try_push {A} x c.
Arguments try_recv {A} id c. Arguments unread {A} c id.
Arguments Pushed {A} c. Arguments PFull {A}. Arguments PNoRecv {A}. Arguments PClosed {A}.
Arguments Got {A} x c. Arguments REmpty {A}. Arguments RClosed {A}. Arguments RNoSuch {A}.
