(* C19/Spec.v — "every method call receives its own reply and only its own reply", stated on what can be SEEN of a run:
   the history of a case as the harness recorded it (which caller was polled and what came back, what the peer sent and when,
   what the socket reader took from the socket).  Nothing here refers to the model of the code (Model.step).

   The statement, per call i of a finished history (finished = the harness drained: everybody was polled until nothing moved,
   and, if a method timeout is configured, the timeout was allowed to pass and everybody was polled again):
     own      a completed call returned a METHOD_RETURN (Ok) or ERROR (Err(MethodError)) message that the peer sent in answer
              to call i, whose reply_serial equals i's serial — never anything else;
     noreply  a NoReplyExpected call completes, with Ok(None), in the very poll in which its message is written; other calls never;
     answered if the peer answered call i before the stream failed, the call completed with one of those answers (or, with a
              timeout configured, with TimedOut once the time has passed);
     failure  if the stream failed (EOF / read error) and the call was not answered before, it completed with an error;
              an I/O error is reported only if the stream did fail (or the call's own write failed);
     timeout  TimedOut only if a timeout is configured and not before that much time has passed since the call was written;
              with a timeout configured no written call is left pending at the end;
     pending  without timeout, a call is left pending only if it was neither answered nor the stream failed;
     once     a call completes at most once (a completed future is never Ready again). *)
From ZV Require Import Base.Bytes Base.Res.

(* ---- the recorded history ---- *)
Inductive okind := OKCall | OKFlags | OKNoReply.          (* m/p | f | n *)
(* sendmsg: Pending / returned Ok / failed / the bytes went out but sendmsg has not returned yet; n = receivers active *)
Inductive wev := WPend (n : nat) | WDone (n : nat) | WFail (n : nat) | WLate (n : nat).
Inductive ioclass := IoEof | IoPipe | IoOther.
Inductive pres :=
  | PPending | PNone | POk (k : nat) (own : bool) | PMErr (k : nat) (own : bool) | PIo (e : ioclass)
  | PTimeout (late : bool) | POther | PAlready.
Inductive ures := UOk | UPending | UErr | USkip.
Inductive rdev := RvItem (k : nat) | RvEof | RvErr | RvWait.
Inductive ptok :=
  | PkRet (i : nat) | PkErr (i : nat) | PkStrayRet | PkStrayErr | PkSig | PkSigRs (i : nat) | PkCallRs (i : nat)
  | PkEof | PkIoErr.
Inductive oev :=
  | OPoll (i : nat) (ws : list wev) (r : pres)
  | OTick (ran : bool) (rs : list rdev)
  | OPeer (p : ptok) (k : option nat)        (* k = the item number it got; None = skipped (call not on the wire yet) *)
  | OSleep
  (* the application makes a MessageStream of its own for the rule type='method_return' (e = false) / type='error' (e = true),
     polls those creations again, drops those streams.  The statement about the calls does not depend on any of this. *)
  | OUser (e : bool) (r : ures)
  | OUserPoll (a b : ures)
  | OUserDrop.
Record oline := { o_ev : oev; o_q : nat; o_n : nat; o_closed : bool }.   (* + method-return channel: queue length, receivers, closed *)

(* ---- what the oracle remembers while walking through the history ---- *)
Record cinfo := {
  ci_kind : okind;
  ci_wfail : bool;            (* its sendmsg was scripted to fail *)
  ci_written : bool;
  ci_rets : list nat;         (* items the peer sent as METHOD_RETURN to it, before any failure item *)
  ci_errs : list nat;         (* ... as ERROR *)
  ci_done : option pres;
  ci_bad : bool               (* something that must never happen was seen *)
}.
Record ost := {
  os_calls : list cinfo;
  os_fail_sent : bool;        (* the peer side has put EOF / an error on the stream *)
  os_fail_read : bool;        (* the socket reader has seen it *)
  os_bad : bool
}.

Fixpoint upd_nth {A} (l : list A) (i : nat) (f : A -> A) : list A :=
  match l, i with
  | [], _ => []
  | x :: r, O => f x :: r
  | x :: r, S j => x :: upd_nth r j f
  end.

Definition mem_nat (k : nat) (l : list nat) : bool := existsb (Nat.eqb k) l.
Definition is_done (c : cinfo) : bool := match ci_done c with Some _ => true | None => false end.

Definition has_wdone (ws : list wev) : bool := existsb (fun w => match w with WDone _ => true | _ => false end) ws.
Definition has_wlate (ws : list wev) : bool := existsb (fun w => match w with WLate _ => true | _ => false end) ws.
Definition has_wfail (ws : list wev) : bool := existsb (fun w => match w with WFail _ => true | _ => false end) ws.

(* is this result acceptable at the moment it is returned? *)
Definition result_ok (tmo : bool) (st : ost) (c : cinfo) (ws : list wev) (r : pres) : bool :=
  match r with
  | PPending => negb (match ci_kind c with OKNoReply => has_wdone ws | _ => false end)       (* noreply never waits after the write *)
  | PNone => match ci_kind c with OKNoReply => has_wdone ws | _ => false end
  | POk k own => own && mem_nat k (ci_rets c) && negb (match ci_kind c with OKNoReply => true | _ => false end)
  | PMErr k own => own && mem_nat k (ci_errs c) && negb (match ci_kind c with OKNoReply => true | _ => false end)
  | PIo IoOther => os_fail_read st || (ci_wfail c && has_wfail ws)
  | PIo _ => os_fail_read st
  | PTimeout late => tmo && late && (ci_written c || has_wdone ws) && match ci_kind c with OKNoReply => false | _ => true end
  | POther => false
  | PAlready => is_done c
  end.

Definition walk1 (tmo : bool) (st : ost) (o : oline) : ost :=
  match o_ev o with
  | OPoll i ws r =>
      match nth_error (os_calls st) i with
      | None => {| os_calls := os_calls st; os_fail_sent := os_fail_sent st; os_fail_read := os_fail_read st; os_bad := true |}
      | Some c =>
          let ok := result_ok tmo st c ws r && (negb (is_done c) || match r with PAlready => true | _ => false end) in
          let c' := {| ci_kind := ci_kind c; ci_wfail := ci_wfail c; ci_written := ci_written c || has_wdone ws || has_wlate ws;
                       ci_rets := ci_rets c; ci_errs := ci_errs c;
                       ci_done := match r with PPending | PAlready => ci_done c | _ => Some r end;
                       ci_bad := ci_bad c || negb ok |} in
          {| os_calls := upd_nth (os_calls st) i (fun _ => c'); os_fail_sent := os_fail_sent st;
             os_fail_read := os_fail_read st; os_bad := os_bad st |}
      end
  | OTick _ rs =>
      let f := existsb (fun e => match e with RvEof | RvErr => true | _ => false end) rs in
      {| os_calls := os_calls st; os_fail_sent := os_fail_sent st; os_fail_read := os_fail_read st || f; os_bad := os_bad st |}
  | OPeer p (Some k) =>
      match p with
      | PkRet i => if os_fail_sent st then st else
          {| os_calls := upd_nth (os_calls st) i (fun c => {| ci_kind := ci_kind c; ci_wfail := ci_wfail c; ci_written := ci_written c;
                                                            ci_rets := k :: ci_rets c; ci_errs := ci_errs c; ci_done := ci_done c;
                                                            ci_bad := ci_bad c |});
             os_fail_sent := os_fail_sent st; os_fail_read := os_fail_read st; os_bad := os_bad st |}
      | PkErr i => if os_fail_sent st then st else
          {| os_calls := upd_nth (os_calls st) i (fun c => {| ci_kind := ci_kind c; ci_wfail := ci_wfail c; ci_written := ci_written c;
                                                            ci_rets := ci_rets c; ci_errs := k :: ci_errs c; ci_done := ci_done c;
                                                            ci_bad := ci_bad c |});
             os_fail_sent := os_fail_sent st; os_fail_read := os_fail_read st; os_bad := os_bad st |}
      | PkEof | PkIoErr =>
          {| os_calls := os_calls st; os_fail_sent := true; os_fail_read := os_fail_read st; os_bad := os_bad st |}
      | _ => st
      end
  | OPeer _ None => st
  | OSleep | OUser _ _ | OUserPoll _ _ | OUserDrop => st
  end.

(* the verdict on one call at the end of a drained history *)
Definition final_ok (tmo : bool) (st : ost) (c : cinfo) : bool :=
  negb (ci_bad c) &&
  match ci_done c with
  | Some r =>
      match r with
      (* answered before the stream failed: the answer (or the timeout) it is — not an I/O error *)
      | PIo _ => match ci_rets c, ci_errs c with [], [] => true | _, _ => ci_wfail c end
      | _ => true
      end
  | None =>
      (* still pending (or never polled to the point of writing) *)
      if ci_written c then
        match ci_rets c, ci_errs c with
        | [], [] => negb (os_fail_sent st) && negb tmo
        | _, _ => false
        end
      else true
  end.

Definition reason (tmo : bool) (st : ost) : bytes :=
  if os_bad st then B "poll-of-unknown-caller"
  else if existsb ci_bad (os_calls st) then B "a-call-returned-what-it-must-not"
  else if forallb (final_ok tmo st) (os_calls st) then B "OK"
  else if existsb (fun c => negb (is_done c) && ci_written c && tmo &&
                            match ci_rets c, ci_errs c with [], [] => negb (os_fail_sent st) | _, _ => false end) (os_calls st)
       then B "pending-after-the-method-timeout"
  else if existsb (fun c => negb (is_done c)) (os_calls st) then B "a-call-that-was-answered-or-whose-connection-failed-never-completed"
  else B "io-error-although-answered".

Definition spec_check (tmo : bool) (calls : list (okind * bool)) (h : list oline) : bytes :=
  let st0 := {| os_calls := map (fun p => {| ci_kind := fst p; ci_wfail := snd p; ci_written := false; ci_rets := []; ci_errs := [];
                                              ci_done := None; ci_bad := false |}) calls;
                os_fail_sent := false; os_fail_read := false; os_bad := false |} in
  reason tmo (fold_left (walk1 tmo) h st0).
