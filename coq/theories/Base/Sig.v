(* Base/Sig.v — parsed signatures (zvariant_utils::signature::Signature) as plain trees.
   (The Static/Dynamic representation tag only matters for C06's Eq/Hash/Ord laws and lives there.) *)
From ZV Require Import Base.Bytes.

Inductive sig :=
| SUnit | SU8 | SBool | SI16 | SU16 | SI32 | SU32 | SI64 | SU64 | SF64
| SStr | SSig | SObjPath | SVariant | SFd
| SArray (c : sig)
| SDict (k v : sig)
| SStruct (fs : list sig)
| SMaybe (c : sig).

(* induction principle with Forall on struct fields *)
Section SigInd.
  Variable P : sig -> Prop.
  Hypothesis Hunit : P SUnit. Hypothesis Hu8 : P SU8. Hypothesis Hbool : P SBool.
  Hypothesis Hi16 : P SI16. Hypothesis Hu16 : P SU16. Hypothesis Hi32 : P SI32. Hypothesis Hu32 : P SU32.
  Hypothesis Hi64 : P SI64. Hypothesis Hu64 : P SU64. Hypothesis Hf64 : P SF64.
  Hypothesis Hstr : P SStr. Hypothesis Hsig : P SSig. Hypothesis Hop : P SObjPath.
  Hypothesis Hvar : P SVariant. Hypothesis Hfd : P SFd.
  Hypothesis Harr : forall c, P c -> P (SArray c).
  Hypothesis Hdict : forall k v, P k -> P v -> P (SDict k v).
  Hypothesis Hstruct : forall fs, Forall P fs -> P (SStruct fs).
  Hypothesis Hmaybe : forall c, P c -> P (SMaybe c).
  Fixpoint sig_ind' (s : sig) : P s :=
    match s with
    | SUnit => Hunit | SU8 => Hu8 | SBool => Hbool | SI16 => Hi16 | SU16 => Hu16 | SI32 => Hi32 | SU32 => Hu32
    | SI64 => Hi64 | SU64 => Hu64 | SF64 => Hf64 | SStr => Hstr | SSig => Hsig | SObjPath => Hop
    | SVariant => Hvar | SFd => Hfd
    | SArray c => Harr c (sig_ind' c)
    | SDict k v => Hdict k v (sig_ind' k) (sig_ind' v)
    | SStruct fs => Hstruct fs ((fix go (l : list sig) : Forall P l :=
                                   match l with [] => Forall_nil P | x :: r => Forall_cons x (sig_ind' x) (go r) end) fs)
    | SMaybe c => Hmaybe c (sig_ind' c)
    end.
End SigInd.

Fixpoint sig_eqb (a b : sig) {struct a} : bool :=
  match a, b with
  | SUnit, SUnit | SU8, SU8 | SBool, SBool | SI16, SI16 | SU16, SU16 | SI32, SI32 | SU32, SU32
  | SI64, SI64 | SU64, SU64 | SF64, SF64 | SStr, SStr | SSig, SSig | SObjPath, SObjPath
  | SVariant, SVariant | SFd, SFd => true
  | SArray x, SArray y => sig_eqb x y
  | SMaybe x, SMaybe y => sig_eqb x y
  | SDict k v, SDict k' v' => sig_eqb k k' && sig_eqb v v'
  | SStruct l, SStruct l' =>
      (fix go (l l' : list sig) {struct l} : bool :=
         match l, l' with
         | [], [] => true
         | x :: r, y :: r' => sig_eqb x y && go r r'
         | _, _ => false
         end) l l'
  | _, _ => false
  end.

(* Display for Signature (zvariant_utils/src/signature/mod.rs: write_as_string) *)
Fixpoint show (s : sig) : bytes :=
  match s with
  | SUnit => [] | SU8 => B "y" | SBool => B "b" | SI16 => B "n" | SU16 => B "q" | SI32 => B "i" | SU32 => B "u"
  | SI64 => B "x" | SU64 => B "t" | SF64 => B "d" | SStr => B "s" | SSig => B "g" | SObjPath => B "o"
  | SVariant => B "v" | SFd => B "h"
  | SArray c => B "a" ++ show c
  | SDict k v => B "a{" ++ show k ++ show v ++ B "}"
  | SStruct fs => B "(" ++ concat (map show fs) ++ B ")"
  | SMaybe c => B "m" ++ show c
  end.

Definition show_noparens (s : sig) : bytes :=
  match s with SStruct fs => concat (map show fs) | _ => show s end.

(* D-Bus alignment (Signature::alignment(Format::DBus)) *)
Definition align_dbus (s : sig) : N :=
  match s with
  | SU8 | SSig | SVariant => 1
  | SI16 | SU16 => 2
  | SBool | SI32 | SU32 | SFd | SStr | SObjPath | SArray _ | SDict _ _ => 4
  | SI64 | SU64 | SF64 | SUnit | SStruct _ => 8
  | SMaybe _ => 1 (* unreachable!() in the code for D-Bus; modelled where it matters *)
  end.

Definition is_basic (s : sig) : bool :=
  match s with
  | SU8 | SBool | SI16 | SU16 | SI32 | SU32 | SI64 | SU64 | SF64 | SStr | SSig | SObjPath | SFd => true
  | _ => false
  end.
