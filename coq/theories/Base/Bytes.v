(* Base/Bytes.v — byte strings, character classes, hex and decimal codecs, tokenising.
   Executable definitions only (used by every model and by the line protocol). *)
From Coq Require Export Strings.Byte Strings.String.
From Coq Require Export List NArith ZArith Bool Lia.  (* List after String: [length], [++] are the list ones *)
Export ListNotations.

Definition bytes := list byte.

Definition bn (b : byte) : N := Byte.to_N b.
Definition nb (n : N) : byte :=
  match Byte.of_N (n mod 256) with Some b => b | None => x00 end.

Definition B (s : string) : bytes := list_byte_of_string s.
Arguments B s%string.

Definition beq (a b : byte) : bool := Byte.eqb a b.

Fixpoint lbeq (a b : bytes) : bool :=
  match a, b with
  | [], [] => true
  | x :: a', y :: b' => beq x y && lbeq a' b'
  | _, _ => false
  end.

(* ---- character classes (ASCII) ---- *)
Definition in_range (lo hi : N) (c : byte) : bool := (lo <=? bn c)%N && (bn c <=? hi)%N.
Definition is_digit (c : byte) : bool := in_range 48 57 c.
Definition is_upper (c : byte) : bool := in_range 65 90 c.
Definition is_lower (c : byte) : bool := in_range 97 122 c.
Definition is_alpha (c : byte) : bool := is_upper c || is_lower c.
Definition is_alphanum (c : byte) : bool := is_alpha c || is_digit c.
Definition is_hexdigit (c : byte) : bool :=
  is_digit c || in_range 65 70 c || in_range 97 102 c.
Definition is_ascii_ws (c : byte) : bool :=
  (* Rust's u8::is_ascii_whitespace: space, \t, \n, \x0C, \r *)
  match bn c with 32 | 9 | 10 | 12 | 13 => true | _ => false end%N.

(* ---- hex ---- *)
Definition hexdigit (n : N) : byte :=
  if (n <? 10)%N then nb (48 + n) else nb (87 + n).
Definition hexval (c : byte) : option N :=
  if is_digit c then Some (bn c - 48)%N
  else if in_range 97 102 c then Some (bn c - 87)%N
  else if in_range 65 70 c then Some (bn c - 55)%N
  else None.

Fixpoint hex_of_bytes (l : bytes) : bytes :=
  match l with
  | [] => []
  | c :: r => hexdigit (bn c / 16) :: hexdigit (bn c mod 16) :: hex_of_bytes r
  end.

Fixpoint bytes_of_hex (l : bytes) : option bytes :=
  match l with
  | [] => Some []
  | a :: b :: r =>
      match hexval a, hexval b, bytes_of_hex r with
      | Some x, Some y, Some t => Some (nb (16 * x + y) :: t)
      | _, _, _ => None
      end
  | _ => None
  end.

(* ---- decimal ---- *)
Fixpoint dec_aux (fuel : nat) (n : N) (acc : bytes) : bytes :=
  match fuel with
  | O => acc
  | S f =>
      let acc' := nb (48 + n mod 10) :: acc in
      if (n <? 10)%N then acc' else dec_aux f (n / 10) acc'
  end.
Definition dec_of_N (n : N) : bytes := dec_aux (S (N.size_nat n)) n [].
Definition dec_of_Z (z : Z) : bytes :=
  if (z <? 0)%Z then B "-" ++ dec_of_N (Z.to_N (- z)) else dec_of_N (Z.to_N z).

Fixpoint N_of_dec_aux (l : bytes) (acc : N) : option N :=
  match l with
  | [] => Some acc
  | c :: r => if is_digit c then N_of_dec_aux r (10 * acc + (bn c - 48))%N else None
  end.
Definition N_of_dec (l : bytes) : option N :=
  match l with [] => None | _ => N_of_dec_aux l 0%N end.
Definition Z_of_dec (l : bytes) : option Z :=
  match l with
  | c :: r => if beq c "-"%byte then option_map (fun n => (- Z.of_N n)%Z) (N_of_dec r)
              else option_map Z.of_N (N_of_dec l)
  | [] => None
  end.

(* ---- splitting ---- *)
Fixpoint split_on_aux (sep : byte) (l cur : bytes) : list bytes :=
  match l with
  | [] => [rev cur]
  | c :: r => if beq c sep then rev cur :: split_on_aux sep r [] else split_on_aux sep r (c :: cur)
  end.
(* like Rust's str::split(sep): always at least one piece *)
Definition split_on (sep : byte) (l : bytes) : list bytes := split_on_aux sep l [].

Definition sp : byte := " "%byte.
Definition tab : byte := x09.
Definition words (l : bytes) : list bytes := filter (fun w => negb (lbeq w [])) (split_on sp l).

Fixpoint join (sep : bytes) (l : list bytes) : bytes :=
  match l with
  | [] => []
  | [x] => x
  | x :: r => x ++ sep ++ join sep r
  end.

Fixpoint starts_with (p l : bytes) : bool :=
  match p, l with
  | [], _ => true
  | a :: p', b :: l' => beq a b && starts_with p' l'
  | _ :: _, [] => false
  end.

Definition len (l : bytes) : N := N.of_nat (List.length l).

Definition dropN {A} (n : N) (l : list A) : list A := skipn (N.to_nat n) l.
Definition takeN {A} (n : N) (l : list A) : list A := firstn (N.to_nat n) l.

Definition bool_tok (b : bool) : bytes := if b then B "T" else B "F".

(* ---- the result line of every model driver:  model <TAB> spec <TAB> class ---- *)
Record outp := { o_model : bytes; o_spec : bytes; o_class : bytes }.
Definition dash : bytes := B "-".
Definition render (o : outp) : bytes := o_model o ++ [tab] ++ o_spec o ++ [tab] ++ o_class o.
Definition bad_case : outp := {| o_model := B "BADCASE"; o_spec := B "BADCASE"; o_class := dash |}.
