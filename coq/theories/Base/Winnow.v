(* Base/Winnow.v — executable mirror of the winnow 0.7 combinators zbus uses for validators:
   one_of, take_while(min.., set), literal, sequence, alt, separated(min.., p, sep), Parser::parse.
   A parser consumes a prefix and returns the rest, or fails (Backtrack); outputs are unit. *)
From ZV Require Import Base.Bytes.

Definition parser := bytes -> option bytes.

Definition one_of (f : byte -> bool) : parser :=
  fun inp => match inp with c :: r => if f c then Some r else None | [] => None end.

Fixpoint drop_while (f : byte -> bool) (inp : bytes) : bytes :=
  match inp with c :: r => if f c then drop_while f r else inp | [] => [] end.

Definition take_while0 (f : byte -> bool) : parser := fun inp => Some (drop_while f inp).
Definition take_while1 (f : byte -> bool) : parser :=
  fun inp => match inp with c :: r => if f c then Some (drop_while f r) else None | [] => None end.

Fixpoint lit (s : bytes) : parser :=
  fun inp => match s with
             | [] => Some inp
             | a :: s' => match inp with b :: r => if beq a b then lit s' r else None | [] => None end
             end.

Definition pseq (p q : parser) : parser :=
  fun inp => match p inp with Some r => q r | None => None end.
Definition palt (p q : parser) : parser :=
  fun inp => match p inp with Some r => Some r | None => q inp end.

(* separated(min.., elem, sep) — see winnow/src/combinator/multi.rs separated0_/separated_m_n_:
   after the first element, loop { checkpoint; sep; elem }; a failure of sep or of the element
   after it resets to the checkpoint and stops; fewer than [min] elements is a failure. *)
Fixpoint sep_loop (fuel min count : nat) (elem sepp : parser) (inp : bytes) : option bytes :=
  match fuel with
  | O => None
  | S f =>
      match sepp inp with
      | None => if Nat.ltb count min then None else Some inp
      | Some r1 =>
          match elem r1 with
          | None => if Nat.ltb count min then None else Some inp
          | Some r2 => sep_loop f min (S count) elem sepp r2
          end
      end
  end.
Definition separated (min : nat) (elem sepp : parser) : parser :=
  fun inp => match elem inp with
             | None => if Nat.eqb min 0 then Some inp else None
             | Some r => sep_loop (S (length r)) min 1 elem sepp r
             end.

(* Parser::parse = run then require eof *)
Definition parse_all (p : parser) (inp : bytes) : bool :=
  match p inp with Some [] => true | _ => false end.
