(* Base/SigParse.v — executable mirror of zvariant_utils::signature::parse (winnow grammar):
     parse_signature := alt(simple_type, dict, array, structure, maybe[gvariant], 'h')
     many            := repeat(1.., parse_signature)   (top level: one -> itself, several -> Structure)
     signature       := alt(eof -> Unit, many(top_level)) followed by eof
   No key/depth/length limits are enforced by this grammar (that is what the code does). *)
From ZV Require Import Base.Bytes Base.Sig.

Definition simple_of (c : byte) : option sig :=
  match c with
  | "y"%byte => Some SU8 | "b"%byte => Some SBool | "n"%byte => Some SI16 | "q"%byte => Some SU16
  | "i"%byte => Some SI32 | "u"%byte => Some SU32 | "x"%byte => Some SI64 | "t"%byte => Some SU64
  | "d"%byte => Some SF64 | "s"%byte => Some SStr | "g"%byte => Some SSig | "o"%byte => Some SObjPath
  | "v"%byte => Some SVariant
  | _ => None
  end.

Fixpoint parse_one (fuel : nat) (gv : bool) (inp : bytes) {struct fuel} : option (sig * bytes) :=
  match fuel with
  | O => None
  | S f =>
      match inp with
      | [] => None
      | c :: r =>
          match simple_of c with
          | Some s => Some (s, r)
          | None =>
              if beq c "a"%byte then
                match r with
                | c' :: r1 =>
                    if beq c' "{"%byte then
                      (* dict; if it fails, the array alternative fails too: "{" starts no type *)
                      match parse_one f gv r1 with
                      | Some (k, r2) =>
                          match parse_one f gv r2 with
                          | Some (v, c4 :: r4) => if beq c4 "}"%byte then Some (SDict k v, r4) else None
                          | _ => None
                          end
                      | None => None
                      end
                    else match parse_one f gv r with
                         | Some (c0, r') => Some (SArray c0, r')
                         | None => None
                         end
                | [] => None
                end
              else if beq c "("%byte then
                match parse_many f gv r with
                | (x :: l, c4 :: r') => if beq c4 ")"%byte then Some (SStruct (x :: l), r') else None
                | _ => None
                end
              else if beq c "m"%byte then
                if gv then match parse_one f gv r with
                           | Some (c0, r') => Some (SMaybe c0, r')
                           | None => None
                           end
                else None
              else if beq c "h"%byte then Some (SFd, r)
              else None
          end
      end
  end
with parse_many (fuel : nat) (gv : bool) (inp : bytes) {struct fuel} : list sig * bytes :=
  match fuel with
  | O => ([], inp)
  | S f =>
      match parse_one f gv inp with
      | None => ([], inp)
      | Some (s, r) => let '(l, r') := parse_many f gv r in (s :: l, r')
      end
  end.

Definition sig_fuel (s : bytes) : nat := 2 * length s + 2.

Definition parse_sig (gv : bool) (s : bytes) : option sig :=
  match s with
  | [] => Some SUnit
  | _ =>
      match parse_many (sig_fuel s) gv s with
      | ([x], []) => Some x
      | (x :: y :: l, []) => Some (SStruct (x :: y :: l))
      | _ => None
      end
  end.

(* nesting depth of the parser's recursion on a given input (for stack-depth statements) *)
Fixpoint sig_depth (s : sig) : nat :=
  match s with
  | SArray c | SMaybe c => S (sig_depth c)
  | SDict k v => S (Nat.max (sig_depth k) (sig_depth v))
  | SStruct fs => S (fold_right (fun x acc => Nat.max (sig_depth x) acc) 0 fs)
  | _ => 0
  end.
