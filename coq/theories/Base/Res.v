(* Base/Res.v — three-way outcomes: a Rust panic is a value of the model. *)
From ZV Require Import Base.Bytes.

Inductive panic := PIndex | PSlice | PArith | PUnwrap | PAssert | PUnreachable | PStack.

Inductive res (E A : Type) := Ok (a : A) | Err (e : E) | Panic (p : panic).
Arguments Ok {E A} a.
Arguments Err {E A} e.
Arguments Panic {E A} p.

Definition bind {E A B} (r : res E A) (f : A -> res E B) : res E B :=
  match r with Ok a => f a | Err e => Err e | Panic p => Panic p end.
Notation "'let*' x ':=' r 'in' k" := (bind r (fun x => k)) (at level 200, x pattern, right associativity).

Definition is_ok {E A} (r : res E A) : bool := match r with Ok _ => true | _ => false end.
Definition is_panic {E A} (r : res E A) : bool := match r with Panic _ => true | _ => false end.
