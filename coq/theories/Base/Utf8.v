(* Base/Utf8.v — well-formed UTF-8 (Unicode Table 3-7), the acceptance set of Rust's str::from_utf8. *)
From ZV Require Import Base.Bytes.

Definition cont (c : byte) : bool := in_range 128 191 c.

Fixpoint utf8_valid (l : bytes) : bool :=
  match l with
  | [] => true
  | a :: r =>
      let x := bn a in
      if (x <? 128)%N then utf8_valid r
      else if in_range 194 223 a then
        match r with b :: r' => cont b && utf8_valid r' | _ => false end
      else if (x =? 224)%N then
        match r with b :: c :: r' => in_range 160 191 b && cont c && utf8_valid r' | _ => false end
      else if in_range 225 236 a || in_range 238 239 a then
        match r with b :: c :: r' => cont b && cont c && utf8_valid r' | _ => false end
      else if (x =? 237)%N then
        match r with b :: c :: r' => in_range 128 159 b && cont c && utf8_valid r' | _ => false end
      else if (x =? 240)%N then
        match r with b :: c :: d :: r' => in_range 144 191 b && cont c && cont d && utf8_valid r' | _ => false end
      else if in_range 241 243 a then
        match r with b :: c :: d :: r' => cont b && cont c && cont d && utf8_valid r' | _ => false end
      else if (x =? 244)%N then
        match r with b :: c :: d :: r' => in_range 128 143 b && cont c && cont d && utf8_valid r' | _ => false end
      else false
  end.
