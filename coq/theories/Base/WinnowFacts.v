(* Base/WinnowFacts.v — what `separated(min.., first_then f g, one_of sep)` followed by eof accepts:
   exactly the strings whose split on [sep] has at least [min] pieces, every piece matching f g*. *)
From ZV Require Import Base.Bytes Base.Winnow.
From Coq Require Import Lia.

Lemma beq_refl c : beq c c = true.
Proof. unfold beq. apply Byte.byte_dec_lb. reflexivity. Qed.
Lemma beq_eq a b : beq a b = true -> a = b.
Proof. unfold beq. apply Byte.byte_dec_bl. Qed.
Lemma beq_neq a b : beq a b = false -> a <> b.
Proof. intros H E. subst. rewrite beq_refl in H. discriminate. Qed.
Lemma lbeq_eq a : forall b, lbeq a b = true <-> a = b.
Proof.
  induction a as [|x a IH]; intros [|y b]; cbn; split; intro H; try reflexivity; try discriminate.
  - apply andb_true_iff in H as [H1 H2]. apply beq_eq in H1. apply IH in H2. congruence.
  - inversion H; subst. rewrite beq_refl. cbn. apply IH. reflexivity.
Qed.

(* ---- split_on ---- *)
Lemma split_on_aux_spec sep l : forall cur,
  split_on_aux sep l cur =
  match split_on_aux sep l [] with p :: ps => (rev cur ++ p) :: ps | [] => [] end.
Proof.
  induction l as [|c l IH]; intros cur; cbn.
  - now rewrite app_nil_r.
  - destruct (beq c sep).
    + now rewrite app_nil_r.
    + rewrite (IH (c :: cur)), (IH [c]). destruct (split_on_aux sep l []); [reflexivity|].
      cbn. now rewrite <- app_assoc.
Qed.

Lemma split_on_nil sep : split_on sep [] = [[]].
Proof. reflexivity. Qed.

Lemma split_on_cons sep c l :
  split_on sep (c :: l) =
  if beq c sep then [] :: split_on sep l
  else match split_on sep l with p :: ps => (c :: p) :: ps | [] => [] end.
Proof.
  unfold split_on. cbn. destruct (beq c sep); [reflexivity|].
  rewrite split_on_aux_spec. reflexivity.
Qed.

Lemma split_on_nonempty sep l : split_on sep l <> [].
Proof.
  induction l as [|c l IH]; [discriminate|]. rewrite split_on_cons.
  destruct (beq c sep); [discriminate|]. destruct (split_on sep l); [contradiction|discriminate].
Qed.

Definition no_sep (sep : byte) (w : bytes) : Prop := Forall (fun c => beq c sep = false) w.

Lemma split_on_word sep w r : no_sep sep w ->
  split_on sep (w ++ r) = match split_on sep r with p :: ps => (w ++ p) :: ps | [] => [] end.
Proof.
  induction 1 as [|c w Hc Hw IH]; cbn [app].
  - destruct (split_on sep r); reflexivity.
  - rewrite split_on_cons, Hc, IH. destruct (split_on sep r); reflexivity.
Qed.

Lemma join_split sep l : join [sep] (split_on sep l) = l.
Proof.
  induction l as [|c l IH]; [reflexivity|]. rewrite split_on_cons.
  destruct (beq c sep) eqn:E.
  - apply beq_eq in E. subst c. pose proof (split_on_nonempty sep l) as Hn.
    destruct (split_on sep l) as [|p ps] eqn:Es; [contradiction|]. cbn in *. now rewrite IH.
  - pose proof (split_on_nonempty sep l) as Hn.
    destruct (split_on sep l) as [|p ps] eqn:Es; [contradiction|].
    destruct ps; cbn in *; now rewrite <- IH.
Qed.

Lemma split_join sep es : es <> [] -> Forall (no_sep sep) es -> split_on sep (join [sep] es) = es.
Proof.
  induction es as [|e es IH]; [contradiction|]. intros _ H. inversion H as [|? ? He Hes]; subst.
  destruct es as [|e2 es].
  - cbn [join]. pose proof (split_on_word sep e [] He) as Hw. rewrite app_nil_r in Hw. rewrite Hw. cbn.
    now rewrite app_nil_r.
  - change (join [sep] (e :: e2 :: es)) with (e ++ [sep] ++ join [sep] (e2 :: es)).
    rewrite split_on_word by assumption. cbn [app]. rewrite split_on_cons, beq_refl.
    rewrite IH by (try discriminate; assumption). now rewrite app_nil_r.
Qed.

(* ---- element parsers: first char in f, then greedily chars in g ---- *)
Definition first_then (f g : byte -> bool) : parser := pseq (one_of f) (take_while0 g).

Lemma take_while1_first_then g inp : take_while1 g inp = first_then g g inp.
Proof. destruct inp as [|c r]; cbn; [reflexivity|]. unfold first_then, pseq, one_of. destruct (g c); reflexivity. Qed.

Definition okb (f g : byte -> bool) (e : bytes) : bool :=
  match e with c :: r => f c && forallb g r | [] => false end.

Lemma drop_while_spec g inp :
  exists w, inp = w ++ drop_while g inp /\ forallb g w = true /\
            match drop_while g inp with [] => True | d :: _ => g d = false end.
Proof.
  induction inp as [|c r IH]; cbn.
  - exists []. auto.
  - destruct (g c) eqn:E.
    + destruct IH as (w & H1 & H2 & H3). exists (c :: w). cbn. rewrite E, H2. split; [now rewrite <- H1|auto].
    + exists []. cbn. auto.
Qed.

Lemma first_then_some f g inp r : first_then f g inp = Some r ->
  exists c w, inp = c :: w ++ r /\ f c = true /\ forallb g w = true /\
              match r with [] => True | d :: _ => g d = false end.
Proof.
  unfold first_then, pseq, one_of, take_while0. destruct inp as [|c t]; [discriminate|].
  destruct (f c) eqn:E; [|discriminate]. intros H. inversion H; subst.
  destruct (drop_while_spec g t) as (w & H1 & H2 & H3). exists c, w. rewrite <- H1. auto.
Qed.

Lemma first_then_none f g inp : first_then f g inp = None ->
  match inp with [] => True | d :: _ => f d = false end.
Proof.
  unfold first_then, pseq, one_of, take_while0. destruct inp as [|c t]; [auto|].
  destruct (f c); [discriminate|auto].
Qed.

Section Separated.
  Variables (f g : byte -> bool) (sep : byte).
  Hypothesis f_sep : f sep = false.
  Hypothesis g_sep : g sep = false.
  Let E := first_then f g.
  Let S := one_of (fun x => beq x sep).
  Let ok := okb f g.

  Lemma not_sep_f c : f c = true -> beq c sep = false.
  Proof. intros H. destruct (beq c sep) eqn:Eq; [|reflexivity]. apply beq_eq in Eq. subst. congruence. Qed.
  Lemma not_sep_g w : forallb g w = true -> no_sep sep w.
  Proof.
    induction w as [|c w IH]; cbn; [constructor|]. intros H. apply andb_true_iff in H as [H1 H2].
    constructor; [|now apply IH]. destruct (beq c sep) eqn:Eq; [|reflexivity]. apply beq_eq in Eq. subst. congruence.
  Qed.

  Lemma ok_no_sep e : ok e = true -> no_sep sep e.
  Proof.
    destruct e as [|c r]; [discriminate|]. cbn. intros H. apply andb_true_iff in H as [H1 H2].
    constructor; [now apply not_sep_f|now apply not_sep_g].
  Qed.

  (* what remains after an element decides the rest of the parse *)
  Definition tailok (min count : nat) (inp : bytes) : bool :=
    match inp with
    | [] => Nat.leb min count
    | c :: rest => beq c sep && forallb ok (split_on sep rest)
                   && Nat.leb min (count + length (split_on sep rest))
    end.

  Lemma elem_none rest : E rest = None -> forallb ok (split_on sep rest) = false.
  Proof.
    intros H. apply first_then_none in H. destruct rest as [|d t]; [reflexivity|].
    rewrite split_on_cons. destruct (beq d sep) eqn:Ed; [reflexivity|].
    pose proof (split_on_nonempty sep t) as Hn. destruct (split_on sep t); [contradiction|].
    cbn. now rewrite H.
  Qed.

  Lemma elem_some rest r2 min count : E rest = Some r2 ->
    forallb ok (split_on sep rest) && Nat.leb min (count + length (split_on sep rest))
    = tailok min (Datatypes.S count) r2.
  Proof.
    intros H. apply first_then_some in H as (c & w & -> & Hc & Hw & Hr).
    change (c :: w ++ r2) with ((c :: w) ++ r2).
    assert (Hns : no_sep sep (c :: w)) by (constructor; [now apply not_sep_f|now apply not_sep_g]).
    rewrite split_on_word by assumption.
    destruct r2 as [|d r3].
    - cbn. rewrite app_nil_r. cbn. rewrite Hc, Hw. cbn. f_equal. lia.
    - rewrite split_on_cons. cbn [tailok]. destruct (beq d sep) eqn:Ed.
      + cbn [app forallb length]. rewrite app_nil_r. cbn [ok okb]. fold ok. rewrite Hc, Hw. cbn.
        f_equal. f_equal. lia.
      + pose proof (split_on_nonempty sep r3) as Hn. destruct (split_on sep r3) as [|p ps]; [contradiction|].
        cbn [forallb]. replace (ok ((c :: w) ++ d :: p)) with false; [reflexivity|].
        cbn. rewrite forallb_app. cbn. rewrite Hr. now rewrite !andb_false_r.
  Qed.

  Lemma sep_loop_spec : forall fuel min count inp, length inp < fuel ->
    match sep_loop fuel min count E S inp with Some [] => true | _ => false end = tailok min count inp.
  Proof.
    induction fuel as [|fuel IH]; intros min count inp Hf; [lia|].
    cbn [sep_loop]. destruct inp as [|c rest].
    - unfold S, one_of. cbn [tailok].
      destruct (Nat.ltb_spec count min); destruct (Nat.leb_spec min count); try lia; reflexivity.
    - unfold S at 1. cbn [one_of tailok]. destruct (beq c sep) eqn:Ec.
      + destruct (E rest) as [r2|] eqn:Ee.
        * rewrite IH.
          -- cbn [andb]. symmetry. now apply elem_some.
          -- apply first_then_some in Ee as (c1 & w & -> & _). cbn in Hf. rewrite app_length in Hf. cbn. lia.
        * rewrite (elem_none _ Ee). cbn [andb]. destruct (Nat.ltb count min); reflexivity.
      + cbn [andb]. destruct (Nat.ltb count min); reflexivity.
  Qed.

  (* min >= 1 : accepted strings = splits with >= min ok pieces *)
  Theorem separated_spec min s : 1 <= min ->
    parse_all (separated min E S) s
    = forallb ok (split_on sep s) && Nat.leb min (length (split_on sep s)).
  Proof.
    intros Hm. unfold parse_all, separated. destruct (E s) as [r|] eqn:Ee.
    - rewrite sep_loop_spec by lia. symmetry. now apply (elem_some s r min 0).
    - rewrite (elem_none _ Ee). destruct min; [lia|]. reflexivity.
  Qed.

  (* min = 0 : additionally the empty string *)
  Theorem separated0_spec s :
    parse_all (separated 0 E S) s
    = match s with [] => true | _ => forallb ok (split_on sep s) end.
  Proof.
    unfold parse_all, separated. destruct (E s) as [r|] eqn:Ee.
    - rewrite sep_loop_spec by lia. rewrite <- (elem_some s r 0 0 Ee). cbn [Nat.leb]. rewrite andb_true_r.
      destruct s; [discriminate Ee|reflexivity].
    - cbn. rewrite (elem_none _ Ee). destruct s; reflexivity.
  Qed.
End Separated.
