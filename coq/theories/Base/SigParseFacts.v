(* Base/SigParseFacts.v — the signature parser reads back what [show] prints, for every signature that is
   a single complete type (no unit, no maybe, non-empty structs): parse_sig gv (show g) = Some g. *)
From ZV Require Import Base.Bytes Base.Sig Base.SigParse.
From Coq Require Import Lia.

(* signatures whose textual form is a single complete type *)
Fixpoint printable (s : sig) : bool :=
  match s with
  | SUnit | SMaybe _ => false
  | SArray c => printable c
  | SDict k v => printable k && printable v
  | SStruct fs => (match fs with [] => false | _ => true end) && forallb printable fs
  | _ => true
  end.

(* fuel needed by parse_one / parse_many *)
Fixpoint pf (s : sig) : nat :=
  match s with
  | SArray c | SMaybe c => S (pf c)
  | SDict k v => S (Nat.max (pf k) (pf v))
  | SStruct fs => S ((fix pfs (l : list sig) : nat := match l with [] => 0 | x :: r => S (Nat.max (pf x) (pfs r)) end) fs)
  | _ => 1
  end.
Fixpoint pfs (l : list sig) : nat := match l with [] => 0 | x :: r => S (Nat.max (pf x) (pfs r)) end.
Lemma pf_struct fs : pf (SStruct fs) = S (pfs fs).
Proof. reflexivity. Qed.

Definition stops (rest : bytes) : Prop := rest = [] \/ exists t, rest = ")"%byte :: t.

Lemma parse_one_stop f gv rest : stops rest -> parse_one f gv rest = None.
Proof. intros [->|[t ->]]; destruct f; reflexivity. Qed.

Lemma show_head g : printable g = true ->
  exists ch t, show g = ch :: t /\ ch <> "{"%byte.
Proof.
  destruct g; cbn; intros H; try discriminate; try (eexists; eexists; split; [reflexivity|discriminate]).
Qed.

Lemma basic_simple g : is_basic g = true -> g <> SFd ->
  exists ch, show g = [ch] /\ simple_of ch = Some g.
Proof. destruct g; cbn; intros H N; try discriminate; try (eexists; split; reflexivity). congruence. Qed.

Section RoundTrip.
  Variable gv : bool.

  Lemma parse_show_mutual :
    forall g, printable g = true -> forall f rest, pf g <= f -> parse_one f gv (show g ++ rest) = Some (g, rest).
  Proof.
    induction g using sig_ind'; intros Hp f rest Hf; try discriminate Hp;
      try (destruct f; [cbn in Hf; lia|reflexivity]).
    - (* array *)
      cbn [printable] in Hp. destruct f as [|f]; [cbn in Hf; lia|]. cbn [pf] in Hf.
      destruct (show_head g Hp) as (ch & t & Hs & Hne).
      change (show (SArray g) ++ rest) with ("a"%byte :: show g ++ rest).
      cbn [parse_one simple_of]. rewrite Hs. cbn [app].
      destruct ch; try congruence; rewrite <- ?app_comm_cons;
        match goal with |- context [parse_one f gv (?c :: t ++ rest)] =>
          change (c :: t ++ rest) with ((c :: t) ++ rest); rewrite <- Hs; rewrite IHg by (assumption || lia); reflexivity end.
    - (* dict *)
      cbn [printable] in Hp. apply andb_true_iff in Hp as [Hk Hv].
      destruct f as [|f]; [cbn in Hf; lia|]. cbn [pf] in Hf.
      change (show (SDict g1 g2) ++ rest) with ("a"%byte :: "{"%byte :: (show g1 ++ show g2 ++ B "}") ++ rest).
      cbn [parse_one simple_of]. rewrite <- app_assoc. rewrite IHg1 by (assumption || lia).
      rewrite <- app_assoc. rewrite IHg2 by (assumption || lia). reflexivity.
    - (* struct *)
      cbn [printable] in Hp. apply andb_true_iff in Hp as [Hne Hall].
      destruct f as [|f]; [cbn in Hf; lia|]. rewrite pf_struct in Hf.
      change (show (SStruct fs) ++ rest) with ("("%byte :: (concat (map show fs) ++ B ")") ++ rest).
      cbn [parse_one simple_of]. rewrite <- app_assoc.
      assert (Hm : forall l, Forall (fun g => printable g = true -> forall f rest, pf g <= f -> parse_one f gv (show g ++ rest) = Some (g, rest)) l ->
                   forallb printable l = true -> forall f r, stops r -> pfs l <= f ->
                   parse_many f gv (concat (map show l) ++ r) = (l, r)).
      { induction l as [|x l IHl]; intros HF Hpl f0 r Hr Hf0.
        - cbn. destruct f0; [reflexivity|]. cbn [parse_many]. now rewrite parse_one_stop.
        - inversion HF as [|? ? Hx HFl]; subst. cbn [forallb] in Hpl. apply andb_true_iff in Hpl as [Hpx Hpl].
          cbn [pfs] in Hf0. destruct f0 as [|f0]; [lia|]. cbn [map concat]. rewrite <- app_assoc.
          cbn [parse_many]. rewrite Hx by (assumption || lia). rewrite IHl by (assumption || lia). reflexivity. }
      rewrite (Hm fs H Hall f (B ")" ++ rest)) by ((right; eexists; reflexivity) || lia).
      destruct fs; [discriminate Hne|]. reflexivity.
  Qed.

  Lemma pf_bound g : printable g = true -> pf g <= 2 * length (show g).
  Proof.
    induction g using sig_ind'; intros Hp; try discriminate Hp; try (cbn; lia).
    - cbn [printable] in Hp. specialize (IHg Hp). cbn [pf show]. rewrite app_length. cbn. lia.
    - cbn [printable] in Hp. apply andb_true_iff in Hp as [Hk Hv]. specialize (IHg1 Hk). specialize (IHg2 Hv).
      cbn [pf show]. rewrite !app_length. cbn. lia.
    - cbn [printable] in Hp. apply andb_true_iff in Hp as [_ Hall]. rewrite pf_struct. cbn [show]. rewrite !app_length. cbn.
      assert (Hb : pfs fs <= 2 * length (concat (map show fs)) + 1).
      { clear - H Hall. induction fs as [|x r IH]; [cbn; lia|].
        inversion H as [|? ? Hx Hr]; subst. cbn [forallb] in Hall. apply andb_true_iff in Hall as [Hpx Hpr].
        specialize (IH Hr Hpr). specialize (Hx Hpx). cbn [pfs map concat]. rewrite app_length.
        destruct (show_head x Hpx) as (ch & t & Hs & _). rewrite Hs in *. cbn [length] in *. lia. }
      lia.
  Qed.

  Theorem parse_show g : printable g = true -> parse_sig gv (show g) = Some g.
  Proof.
    intros Hp. unfold parse_sig. destruct (show_head g Hp) as (ch & t & Hs & _).
    rewrite Hs. rewrite <- Hs. unfold sig_fuel.
    pose proof (pf_bound g Hp) as Hb.
    assert (H1 : parse_many (2 * length (show g) + 2) gv (show g) = ([g], [])).
    { replace (2 * length (show g) + 2) with (S (2 * length (show g) + 1)) by lia. cbn [parse_many].
      pose proof (parse_show_mutual g Hp (2 * length (show g) + 1) [] ltac:(lia)) as Hx.
      rewrite app_nil_r in Hx. rewrite Hx.
      assert (Hn : forall k, parse_many k gv [] = ([], [])) by (intros [|[|k]]; reflexivity).
      now rewrite Hn. }
    rewrite H1. reflexivity.
  Qed.
End RoundTrip.
