(* C36/Model.v — executable mirror of the well-known-name bookkeeping of a *bus* connection
   (zbus/src/connection/mod.rs: request_name_with_flags 616-769, release_name 779-806, the two monitor tasks
   665-757; zbus/src/fdo/dbus.rs: RequestNameFlags / RequestNameReply / ReleaseNameReply) as it is.  No proofs here.

   State: `registered_names : HashMap<WellKnownName, NameStatus>` is a function name -> option nstat.  The tasks owned
   by a NameStatus are part of the status:
     Owner(Some(task))  = Owner true    a "monitor_name_lost" task reads lost_stream
     Owner(None)        = Owner false
     Queued(task)       = Queued allow k    a "monitor_name_acquired" task reads acquired_stream; it holds
                          name_lost_fut (with lost_stream inside, subscribed since before the RequestName call, unread)
                          iff `allow` (AllowReplacement was given); k = NameLost signals buffered in that stream.
   Dropping a NameStatus cancels its task (async_task::Task::drop), so a removed or replaced entry has no monitor.

   Which signals reach a monitor is decided by the rule it subscribed with and MatchRule::matches — the model of
   C21 (C21/Model.v [matches_b], tied to the code there) applied to the rule built by `fdo_signal_builder(member)
   .arg(0, name)` (match_rule/mod.rs:326-339).  Note BusName::try_from tries the unique-name grammar first and that
   grammar accepts the literal "org.freedesktop.DBus" (C10/Model.v [validate_unique]), so the rule's sender IS compared.

   Assumed (docs/C36.md): one step at a time, the executor runs until idle between steps (monitors have consumed what
   was delivered); fewer than 64 NameLost signals are buffered for one queued name (capacity of the broadcast channel);
   every call the connection makes is answered (no transport failure, AddMatch succeeds). *)
From Coq Require Import List NArith Bool.
From ZV Require Import Base.Bytes Base.Res C10.Model C21.Model.
Import ListNotations.
Open Scope N_scope.

Definition name := bytes.

Definition driver : bytes := B "org.freedesktop.DBus".
Definition driver_path : bytes := B "/org/freedesktop/DBus".
Definition our_unique : bytes := B ":1.42".
Definition member_of (acquired : bool) : bytes := if acquired then B "NameAcquired" else B "NameLost".

(* ------------------------------------------------------------------ fdo/dbus.rs *)
Inductive rq_reply := RPrimary | RInQueue | RExists | RAlready.
(* #[repr(u32)] Deserialize_repr: exactly the four discriminants *)
Definition decode_rq (c : N) : option rq_reply :=
  match c with 1 => Some RPrimary | 2 => Some RInQueue | 3 => Some RExists | 4 => Some RAlready | _ => None end.
Inductive rl_reply := LReleased | LNonExistent | LNotOwner.
Definition decode_rl (c : N) : option rl_reply :=
  match c with 1 => Some LReleased | 2 => Some LNonExistent | 3 => Some LNotOwner | _ => None end.
(* RequestNameFlags: AllowReplacement = 0x01, ReplaceExisting = 0x02, DoNotQueue = 0x04; BitFlags::default() = all three *)
Definition allows_replacement (flags : N) : bool := N.testbit flags 0.
Definition default_flags : N := 7.

(* what the bus sends back to a method call: a u32 body, or an error message *)
Inductive answer := AnsCode (c : N) | AnsError.

(* ------------------------------------------------------------------ the signals and what the monitors subscribe to *)
Record sigmsg := { s_sender : option bytes; s_acquired : bool; s_name : name }.

Definition sig_msg (s : sigmsg) : msg :=
  {| m_type := Signal; m_sender := s_sender s; m_interface := Some driver; m_member := Some (member_of (s_acquired s));
     m_path := Some driver_path; m_destination := Some (BUnique our_unique); m_body := [AStr (s_name s)] |}.

(* MatchRule::fdo_signal_builder(member).arg(0, name).unwrap().build()   (mod.rs 642-650) *)
Definition monitor_rule (acquired : bool) (n : name) : res merr rule :=
  build [OType Signal; OSender driver; OInterface driver; OMember (member_of acquired); OArg 0 n].

(* the socket reader hands a message to the subscription iff rule.matches(msg) = Ok(true) (socket_reader.rs 58-70) *)
Definition delivered (acquired : bool) (n : name) (s : sigmsg) : bool :=
  match monitor_rule acquired n with
  | Ok r => matches_b r (sig_msg s)
  | _ => false
  end.

(* ------------------------------------------------------------------ the state *)
Inductive nstat := Owner (mon : bool) | Queued (allow : bool) (lost_buf : nat).
Definition names := name -> option nstat.
Definition no_names : names := fun _ => None.
Definition upd (st : names) (n : name) (v : option nstat) : names := fun m => if lbeq m n then v else st m.

(* one incoming signal, then the executor runs until idle.
   Owner true:   the lost monitor gets it: registered_names.remove(name); break            (677-690)
   Queued:       the acquired monitor gets it: names.get_mut(name) is Some (the entry owns this very task):
                 *status = Owner(name_lost_fut.map(spawn)) (727-738); a lost monitor spawned now first reads what
                 lost_stream buffered since the request: a stale NameLost removes the name at once.
                 A NameLost meanwhile just sits in lost_stream (if there is one). *)
Definition on_signal (st : names) (s : sigmsg) : names :=
  fun n =>
    match st n with
    | None => None
    | Some (Owner mon) => if mon && delivered false n s then None else Some (Owner mon)
    | Some (Queued allow k) =>
        if delivered true n s then
          (if allow then (match k with O => Some (Owner true) | S _ => None end) else Some (Owner false))
        else if allow && delivered false n s then Some (Queued allow (S k))
        else Some (Queued allow k)
    end.

(* ------------------------------------------------------------------ request_name_with_flags *)
Inductive req_result :=
| RR (r : rq_reply)       (* Ok(reply) *)
| RNameTaken              (* Err(Error::NameTaken) *)
| RMethodError            (* Err(Error::MethodError) : the bus answered with an error message *)
| RBadReply               (* the u32 is not a RequestNameReply: deserialization error *)
| RPanic.                 (* an `.unwrap()` on the rule builder failed *)

Record req_out := { ro_state : names; ro_result : req_result; ro_asked : option N (* flags the bus saw *) }.

Definition request (st : names) (n : name) (flags : N) (ans : answer) : req_out :=
  match st n with
  | Some (Owner _) => {| ro_state := st; ro_result := RR RAlready; ro_asked := None |}      (* 630-634: no bus traffic *)
  | Some (Queued _ _) => {| ro_state := st; ro_result := RR RInQueue; ro_asked := None |}
  | None =>
      match monitor_rule true n, monitor_rule false n with
      | Ok _, Ok _ =>
          let allow := allows_replacement flags in
          match ans with
          | AnsError => {| ro_state := st; ro_result := RMethodError; ro_asked := Some flags |}       (* `.await?` 660 *)
          | AnsCode c =>
              match decode_rq c with
              | None => {| ro_state := st; ro_result := RBadReply; ro_asked := Some flags |}          (* 662 *)
              | Some RInQueue =>
                  {| ro_state := upd st n (Some (Queued allow 0)); ro_result := RR RInQueue; ro_asked := Some flags |}
              | Some RExists => {| ro_state := st; ro_result := RNameTaken; ro_asked := Some flags |} (* 763 *)
              | Some r =>                                                                             (* 758-762 *)
                  {| ro_state := upd st n (Some (Owner allow)); ro_result := RR r; ro_asked := Some flags |}
              end
          end
      | _, _ => {| ro_state := st; ro_result := RPanic; ro_asked := None |}
      end
  end.

(* ------------------------------------------------------------------ release_name *)
Inductive rel_result := RelOk (b : bool) | RelBadReply.
Record rel_out := { lo_state : names; lo_result : rel_result; lo_asked : bool }.

Definition release (st : names) (n : name) (code : N) : rel_out :=
  match st n with
  | None => {| lo_state := st; lo_result := RelOk false; lo_asked := false |}                       (* 787-789 *)
  | Some _ =>
      {| lo_state := upd st n None;                                                                    (* removed first *)
         lo_result := match decode_rl code with
                      | Some LReleased => RelOk true | Some _ => RelOk false | None => RelBadReply end;
         lo_asked := true |}
  end.

(* ------------------------------------------------------------------ histories *)
Inductive step :=
| SRequest (n : name) (flags : N) (ans : answer) (post : list sigmsg)
    (* ans / post are what the bus does IF the call reaches it: post = signals sent right behind the reply *)
| SRelease (n : name) (code : N)
| SSignal (s : sigmsg).

(* what the connection reports for a name: what a further request_name would return without asking the bus *)
Inductive verdict := VOwner | VQueued | VNone.
Definition view (st : names) (n : name) : verdict :=
  match st n with Some (Owner _) => VOwner | Some (Queued _ _) => VQueued | None => VNone end.

Inductive result := ResReq (r : req_result) | ResRel (r : rel_result) | ResSig.
(* o_bus: was the bus asked, and for which name / with which flags *)
Record sobs := { o_res : result; o_bus : option (name * N); o_views : list verdict }.

Definition exec (st : names) (s : step) : names * result * option (name * N) :=
  match s with
  | SRequest n flags ans post =>
      let o := request st n flags ans in
      match ro_asked o with
      | Some f => (fold_left on_signal post (ro_state o), ResReq (ro_result o), Some (n, f))
      | None => (ro_state o, ResReq (ro_result o), None)
      end
  | SRelease n code =>
      let o := release st n code in
      (lo_state o, ResRel (lo_result o), if lo_asked o then Some (n, 0) else None)
  | SSignal s => (on_signal st s, ResSig, None)
  end.

Fixpoint run_from (probes : list name) (st : names) (h : list step) : list sobs * names :=
  match h with
  | [] => ([], st)
  | s :: r =>
      let '(st1, res, bus) := exec st s in
      let '(os, stf) := run_from probes st1 r in
      ({| o_res := res; o_bus := bus; o_views := map (view st1) probes |} :: os, stf)
  end.

Definition run (probes : list name) (h : list step) : list sobs := fst (run_from probes no_names h).
Definition final (h : list step) : names := snd (run_from [] no_names h).
