(* C36/Proofs.v — the name bookkeeping follows the bus: invariant between the model's state and the bus transcript. *)
From Coq Require Import List NArith Bool Lia.
From ZV Require Import Base.Bytes Base.Res Base.WinnowFacts C10.Model C21.Model C36.Model C36.Spec.
Import ListNotations.
Open Scope N_scope.

(* ------------------------------------------------------------------ small facts *)
Lemma lbeq_refl a : lbeq a a = true.
Proof. apply lbeq_eq. reflexivity. Qed.

Lemma lbeq_false a b : a <> b -> lbeq a b = false.
Proof.
  intro H. destruct (lbeq a b) eqn:E; [|reflexivity]. apply lbeq_eq in E. contradiction.
Qed.

Lemma lbeq_sym a b : lbeq a b = lbeq b a.
Proof.
  destruct (lbeq a b) eqn:E.
  - apply lbeq_eq in E. subst. symmetry. apply lbeq_refl.
  - destruct (lbeq b a) eqn:F; [|reflexivity]. apply lbeq_eq in F. subst. rewrite lbeq_refl in E. discriminate.
Qed.

(* ------------------------------------------------------------------ what the monitors' rules let through *)
Lemma monitor_rule_ok acq n :
  monitor_rule acq n =
  Ok {| r_type := Some Signal; r_sender := Some (BUnique driver); r_interface := Some driver;
        r_member := Some (member_of acq); r_path := None; r_destination := None;
        r_args := [(0, n)]; r_arg_paths := []; r_arg0ns := None |}.
Proof. destruct acq; reflexivity. Qed.

Lemma member_eq a b : lbeq (member_of a) (member_of b) = Bool.eqb a b.
Proof. destruct a, b; reflexivity. Qed.

(* a signal reaches the monitor of (kind, n) iff the driver sent it, it is of that kind and it is about n *)
Lemma delivered_spec acq n s :
  delivered acq n s = genuine s && Bool.eqb acq (s_acquired s) && lbeq n (s_name s).
Proof.
  unfold delivered. rewrite monitor_rule_ok.
  unfold matches_b, chk_type, chk_sender, chk_interface, chk_member, chk_destination, chk_path, chk_arg0ns, chk_args,
    sig_msg, genuine; cbn [r_type r_sender r_interface r_member r_path r_destination r_args r_arg_paths r_arg0ns
    m_type m_sender m_interface m_member m_path m_destination m_body mtype_eqb is_nil andb body_fields forallb
    chk_arg fst snd N.to_nat nth_error].
  rewrite member_eq, lbeq_refl.
  destruct (s_sender s) as [x|]; cbn [opt_beq].
  - rewrite (lbeq_sym driver x). destruct (lbeq x driver), (Bool.eqb acq (s_acquired s)), (lbeq n (s_name s)); reflexivity.
  - reflexivity.
Qed.

Lemma delivered_exclusive n s : delivered true n s = true -> delivered false n s = true -> False.
Proof.
  rewrite !delivered_spec. destruct (s_acquired s), (genuine s), (lbeq n (s_name s)); cbn; congruence.
Qed.

(* ------------------------------------------------------------------ only the driver's signals change the state *)
Lemma forged_inert st s : genuine s = false -> forall n, on_signal st s n = st n.
Proof.
  intros G n. unfold on_signal. rewrite !delivered_spec, G. cbn.
  destruct (st n) as [[m|a k]|]; try reflexivity.
  - rewrite andb_false_r. reflexivity.
  - rewrite andb_false_r. reflexivity.
Qed.

(* a signal about another name changes nothing for this one *)
Lemma other_name_inert st s n : lbeq n (s_name s) = false -> on_signal st s n = st n.
Proof.
  intros G. unfold on_signal. rewrite !delivered_spec, G, !andb_false_r.
  destruct (st n) as [[m|a k]|]; try reflexivity; rewrite ?andb_false_r; reflexivity.
Qed.

(* ------------------------------------------------------------------ the bus's own state and the verdict *)
Lemma bus_state_app tr evs n : bus_state (tr ++ evs) n = fold_left (fun b e => bus_step b e n) evs (bus_state tr n).
Proof. unfold bus_state. apply fold_left_app. Qed.

Lemma bus_state_snoc tr e n : bus_state (tr ++ [e]) n = bus_step (bus_state tr n) e n.
Proof. rewrite bus_state_app. reflexivity. Qed.

Lemma says_step b e n :
  b_v (bus_step b e n) = match says e n with Some v => v | None => b_v b end.
Proof.
  destruct e as [m f [c|]|m c|s]; cbn [bus_step says].
  - destruct (lbeq n m); [|reflexivity]. destruct (decode_rq c) as [[| | |]|]; reflexivity.
  - reflexivity.
  - destruct (lbeq n m); reflexivity.
  - destruct (genuine s && lbeq n (s_name s)); [destruct (s_acquired s)|]; reflexivity.
Qed.

Lemma verdict_is_bus_state tr n : verdict_of tr n = b_v (bus_state tr n).
Proof.
  unfold verdict_of, bus_state.
  change VNone with (b_v bnone) at 1. generalize bnone.
  induction tr as [|e tr IH]; intro b; cbn [fold_left]; [reflexivity|].
  rewrite <- says_step. apply IH.
Qed.

Lemma verdict_snoc tr e n :
  verdict_of (tr ++ [e]) n = match says e n with Some v => v | None => verdict_of tr n end.
Proof. unfold verdict_of. rewrite fold_left_app. reflexivity. Qed.

(* ------------------------------------------------------------------ the invariant *)
Definition agree1 (x : option nstat) (b : bstate) : Prop :=
  match x with
  | None => b_v b = VNone
  | Some (Owner m) => b = {| b_v := VOwner; b_allow := m |}
  | Some (Queued a k) => k = 0%nat /\ b = {| b_v := VQueued; b_allow := a |}
  end.
Definition agree (st : names) (tr : list bus_event) : Prop := forall n, agree1 (st n) (bus_state tr n).

Lemma agree_view st tr : agree st tr -> forall n, view st n = verdict_of tr n.
Proof.
  intros A n. rewrite verdict_is_bus_state. specialize (A n). unfold view, agree1 in *.
  destruct (st n) as [[m|a k]|].
  - rewrite A. reflexivity.
  - destruct A as [_ A]. rewrite A. reflexivity.
  - symmetry. exact A.
Qed.

Lemma agree_init : agree no_names [].
Proof. intro n. reflexivity. Qed.

(* one signal *)
Lemma agree_signal st tr s :
  agree st tr -> deviates (bus_state tr (s_name s)) (BSig s) = None ->
  agree (on_signal st s) (tr ++ [BSig s]).
Proof.
  intros A D n. rewrite bus_state_snoc. cbn [bus_step].
  destruct (genuine s) eqn:G; cbn [andb].
  2:{ rewrite forged_inert by exact G. apply A. }
  destruct (lbeq n (s_name s)) eqn:E.
  2:{ rewrite other_name_inert by exact E. apply A. }
  apply lbeq_eq in E. subst n.
  specialize (A (s_name s)). unfold on_signal. rewrite !delivered_spec, G, lbeq_refl. cbn [andb].
  unfold deviates in D. rewrite G in D.
  unfold agree1 in *.
  destruct (st (s_name s)) as [[m|a k]|].
  - rewrite A in *. cbn [b_v b_allow] in *. destruct (s_acquired s); cbn [Bool.eqb andb].
    + rewrite andb_false_r. reflexivity.
    + destruct m; cbn [andb]; [reflexivity|discriminate].
  - destruct A as [K A]. rewrite A in *. subst k. cbn [b_v b_allow] in *.
    destruct (s_acquired s); cbn [Bool.eqb andb].
    + destruct a; reflexivity.
    + discriminate.
  - rewrite A in D. destruct (s_acquired s); [discriminate|reflexivity].
Qed.

Lemma known_from_app tr a b :
  known_from tr (a ++ b) = None <-> known_from tr a = None /\ known_from (tr ++ a) b = None.
Proof.
  revert tr. induction a as [|e a IH]; intro tr; cbn [app known_from].
  - rewrite app_nil_r. tauto.
  - destruct (deviates (bus_state tr (event_name e)) e).
    + split; [discriminate|]. intros [H _]. discriminate.
    + rewrite IH. rewrite <- app_assoc. reflexivity.
Qed.

Lemma agree_signals post : forall st tr,
  agree st tr -> known_from tr (map BSig post) = None ->
  agree (fold_left on_signal post st) (tr ++ map BSig post).
Proof.
  induction post as [|s post IH]; intros st tr A K; cbn [map fold_left].
  - rewrite app_nil_r. exact A.
  - cbn [map known_from event_name] in K.
    destruct (deviates (bus_state tr (s_name s)) (BSig s)) eqn:D; [discriminate|].
    change (tr ++ BSig s :: map BSig post) with (tr ++ [BSig s] ++ map BSig post). rewrite app_assoc.
    apply IH; [|exact K]. apply agree_signal; assumption.
Qed.

(* changing one entry of the map and appending one request/release event *)
Lemma agree_upd st tr e n x :
  agree st tr -> event_name e = n -> (forall m, lbeq m n = false -> bus_step (bus_state tr m) e m = bus_state tr m) ->
  agree1 x (bus_step (bus_state tr n) e n) ->
  agree (upd st n x) (tr ++ [e]).
Proof.
  intros A _ O X m. rewrite bus_state_snoc. unfold upd.
  destruct (lbeq m n) eqn:E.
  - apply lbeq_eq in E. subst m. exact X.
  - rewrite O by exact E. apply A.
Qed.

Lemma agree_same st tr e :
  agree st tr -> (forall m, agree1 (st m) (bus_state tr m) -> agree1 (st m) (bus_step (bus_state tr m) e m)) ->
  agree st (tr ++ [e]).
Proof. intros A O m. rewrite bus_state_snoc. apply O, A. Qed.

Lemma monitor_rules_ok n : exists r1 r2, monitor_rule true n = Ok r1 /\ monitor_rule false n = Ok r2.
Proof. eexists; eexists; split; apply monitor_rule_ok. Qed.

(* what request does, by the bus's verdict *)
Lemma request_spec st tr n flags ans :
  agree st tr ->
  let o := request st n flags ans in
  match verdict_of tr n with
  | VOwner => ro_asked o = None /\ ro_result o = RR RAlready /\ ro_state o = st
  | VQueued => ro_asked o = None /\ ro_result o = RR RInQueue /\ ro_state o = st
  | VNone => ro_asked o = Some flags /\ ro_result o = relay ans /\ agree (ro_state o) (tr ++ [BRequest n flags ans])
  end.
Proof.
  intros A o. rewrite <- (agree_view st tr A n). unfold view. subst o. unfold request.
  pose proof (A n) as An. unfold agree1 in An.
  destruct (st n) as [[m|a k]|] eqn:S.
  - auto.
  - auto.
  - rewrite !monitor_rule_ok.
    destruct ans as [c|]; cbn [relay].
    + destruct (decode_rq c) as [r|] eqn:Dc.
      * destruct r; cbn [ro_asked ro_result ro_state]; (split; [reflexivity|split; [reflexivity|]]).
        -- apply agree_upd; auto.
           ++ intros m E. cbn [bus_step]. rewrite E. reflexivity.
           ++ cbn [bus_step]. rewrite lbeq_refl, Dc. reflexivity.
        -- apply agree_upd; auto.
           ++ intros m E. cbn [bus_step]. rewrite E. reflexivity.
           ++ cbn [bus_step]. rewrite lbeq_refl, Dc. cbn. auto.
        -- apply agree_same; [exact A|]. intros m Am. cbn [bus_step]. rewrite Dc.
           destruct (lbeq m n) eqn:E; [|exact Am]. apply lbeq_eq in E. subst m. rewrite S. reflexivity.
        -- apply agree_upd; auto.
           ++ intros m E. cbn [bus_step]. rewrite E. reflexivity.
           ++ cbn [bus_step]. rewrite lbeq_refl, Dc. reflexivity.
      * cbn [ro_asked ro_result ro_state]. split; [reflexivity|split; [reflexivity|]].
        apply agree_same; [exact A|]. intros m Am. cbn [bus_step]. rewrite Dc.
        destruct (lbeq m n); exact Am.
    + cbn [ro_asked ro_result ro_state]. split; [reflexivity|split; [reflexivity|]].
      apply agree_same; [exact A|]. intros m Am. exact Am.
Qed.

(* what release does, by the bus's verdict *)
Lemma release_spec st tr n code :
  agree st tr -> decode_rl code <> None ->
  let o := release st n code in
  if held (verdict_of tr n)
  then lo_asked o = true /\ lo_result o = RelOk (released code) /\ agree (lo_state o) (tr ++ [BRelease n code])
  else lo_asked o = false /\ lo_result o = RelOk false /\ lo_state o = st.
Proof.
  intros A Dc o. rewrite <- (agree_view st tr A n). unfold view. subst o. unfold release.
  assert (R : forall x : option nstat, agree (upd st n None) (tr ++ [BRelease n code])).
  { intros _. apply agree_upd; auto.
    - intros m E. cbn [bus_step]. rewrite E. reflexivity.
    - cbn [bus_step]. rewrite lbeq_refl. reflexivity. }
  assert (Q : match decode_rl code with Some LReleased => RelOk true | Some _ => RelOk false | None => RelBadReply end
              = RelOk (released code)).
  { unfold released. destruct (decode_rl code) as [[| |]|]; try reflexivity. contradiction Dc; reflexivity. }
  destruct (st n) as [[m|a k]|]; cbn [held lo_asked lo_result lo_state]; auto.
Qed.

(* ------------------------------------------------------------------ whole histories *)
Fixpoint final_from (st : names) (h : list step) : names :=
  match h with
  | [] => st
  | s :: r => final_from (fst (fst (exec st s))) r
  end.

Lemma run_from_final probes : forall h st, snd (run_from probes st h) = final_from st h.
Proof.
  induction h as [|s h IH]; intro st; cbn [run_from final_from]; [reflexivity|].
  destruct (exec st s) as [[st1 res] bus]. specialize (IH st1).
  destruct (run_from probes st1 h) as [os stf]. exact IH.
Qed.

Lemma final_is_final_from h : final h = final_from no_names h.
Proof. apply run_from_final. Qed.

(* codes the scripted bus may answer ReleaseName with *)
Definition release_code_ok (s : step) : Prop :=
  match s with SRelease _ code => decode_rl code <> None | _ => True end.

Lemma exec_agree st tr s :
  agree st tr -> release_code_ok s ->
  let '(st1, res, bus) := exec st s in
  known_from tr (step_events s bus) = None ->
  agree st1 (tr ++ step_events s bus) /\ step_ok tr s {| o_res := res; o_bus := bus; o_views := [] |} = true.
Proof.
  intros A RC. destruct s as [n flags ans post|n code|g]; cbn [exec].
  - pose proof (request_spec st tr n flags ans A) as R. cbv zeta in R.
    cbn [step_ok o_bus o_res].
    destruct (verdict_of tr n) eqn:V.
    + destruct R as (Ra & Rr & Rs). rewrite Ra, Rr, Rs. cbn [step_events]. intros _. rewrite app_nil_r. auto.
    + destruct R as (Ra & Rr & Rs). rewrite Ra, Rr, Rs. cbn [step_events]. intros _. rewrite app_nil_r. auto.
    + destruct R as (Ra & Rr & Rs). rewrite Ra, Rr. cbn [step_events]. intros K.
      change (BRequest n flags ans :: map BSig post) with ([BRequest n flags ans] ++ map BSig post) in *.
      apply known_from_app in K. destruct K as [_ K]. rewrite app_assoc.
      split; [apply agree_signals; assumption|].
      rewrite lbeq_refl. cbn [andb]. destruct (relay ans) as [[| | |]| | | |]; reflexivity.
  - pose proof (release_spec st tr n code A RC) as R. cbv zeta in R.
    cbn [step_ok o_bus o_res].
    destruct (held (verdict_of tr n)) eqn:V.
    + destruct R as (Ra & Rr & Rs). rewrite Ra, Rr. cbn [step_events]. intros _. split; [exact Rs|].
      rewrite lbeq_refl. cbn [andb]. apply eqb_reflx.
    + destruct R as (Ra & Rr & Rs). rewrite Ra, Rr, Rs. cbn [step_events]. intros _. rewrite app_nil_r. auto.
  - cbn [step_events known_from event_name step_ok o_bus o_res].
    destruct (deviates (bus_state tr (s_name g)) (BSig g)) eqn:D; [discriminate|]. intros _.
    split; [apply agree_signal; assumption|reflexivity].
Qed.

Lemma views_ok_map st tr : agree st tr -> forall probes, views_ok tr probes (map (view st) probes) = true.
Proof.
  intros A. induction probes as [|n ps IH]; cbn [map views_ok]; [reflexivity|].
  rewrite (agree_view st tr A n), IH. destruct (verdict_of tr n); reflexivity.
Qed.

Lemma step_ok_views tr s res bus vs :
  step_ok tr s {| o_res := res; o_bus := bus; o_views := vs |} = step_ok tr s {| o_res := res; o_bus := bus; o_views := [] |}.
Proof. destruct s; reflexivity. Qed.

Lemma run_agree probes : forall h st tr,
  agree st tr -> Forall release_code_ok h -> known_from tr (transcript_from st h) = None ->
  agree (final_from st h) (tr ++ transcript_from st h) /\ conforms probes tr h (fst (run_from probes st h)) = true.
Proof.
  induction h as [|s h IH]; intros st tr A RC K; cbn [transcript_from final_from run_from].
  - rewrite app_nil_r. cbn. auto.
  - inversion RC as [|? ? RC1 RC2]; subst.
    pose proof (exec_agree st tr s A RC1) as E.
    cbn [transcript_from] in K.
    destruct (exec st s) as [[st1 res] bus] eqn:X. cbn [fst].
    apply known_from_app in K. destruct K as [K1 K2].
    destruct (E K1) as [A1 S1].
    destruct (IH st1 (tr ++ step_events s bus) A1 RC2 K2) as [A2 C2].
    destruct (run_from probes st1 h) as [os stf] eqn:Y. cbn [fst] in *.
    split; [rewrite app_assoc; exact A2|].
    cbn [conforms o_bus o_views]. rewrite step_ok_views, S1, C2, (views_ok_map st1 _ A1). reflexivity.
Qed.

(* ------------------------------------------------------------------ the theorems *)
Definition well_scripted (h : list step) : Prop := Forall release_code_ok h.

Theorem status_partial h :
  well_scripted h -> known (transcript h) = None ->
  forall n, view (final h) n = verdict_of (transcript h) n.
Proof.
  intros W K n. rewrite final_is_final_from.
  destruct (run_agree [] h no_names [] agree_init W K) as [A _].
  apply (agree_view _ _ A).
Qed.

Theorem conforms_partial probes h :
  well_scripted h -> known (transcript h) = None ->
  conforms probes [] h (run probes h) = true.
Proof. intros W K. apply (run_agree probes h no_names [] agree_init W K). Qed.

Lemma observed_is_transcript probes : forall h st,
  observed_transcript h (fst (run_from probes st h)) = transcript_from st h.
Proof.
  induction h as [|s h IH]; intro st; cbn [run_from transcript_from observed_transcript]; [reflexivity|].
  destruct (exec st s) as [[st1 res] bus]. specialize (IH st1).
  destruct (run_from probes st1 h) as [os stf]. cbn [fst] in *. cbn [observed_transcript o_bus]. rewrite IH. reflexivity.
Qed.

Theorem request_partial h n flags ans :
  well_scripted h -> known (transcript h) = None ->
  let o := request (final h) n flags ans in
  match verdict_of (transcript h) n with
  | VOwner => ro_asked o = None /\ ro_result o = RR RAlready
  | VQueued => ro_asked o = None /\ ro_result o = RR RInQueue
  | VNone => ro_asked o = Some flags /\ ro_result o = relay ans
  end.
Proof.
  intros W K. rewrite final_is_final_from. unfold transcript in *.
  destruct (run_agree [] h no_names [] agree_init W K) as [A _]. cbn [app] in A.
  pose proof (request_spec _ _ n flags ans A) as R. cbv zeta in *.
  destruct (verdict_of (transcript_from no_names h) n); destruct R as (R1 & R2 & _); split; assumption.
Qed.

Theorem release_partial h n code :
  well_scripted h -> known (transcript h) = None -> decode_rl code <> None ->
  let o := release (final h) n code in
  lo_asked o = held (verdict_of (transcript h) n) /\
  lo_result o = RelOk (held (verdict_of (transcript h) n) && released code).
Proof.
  intros W K Dc. rewrite final_is_final_from. unfold transcript in *.
  destruct (run_agree [] h no_names [] agree_init W K) as [A _]. cbn [app] in A.
  pose proof (release_spec _ _ n code A Dc) as R. cbv zeta in *.
  destruct (held (verdict_of (transcript_from no_names h) n)); cbn [andb]; destruct R as (R1 & R2 & _); split; assumption.
Qed.

(* a bus that answers Released whenever it had granted or queued the name: success iff held or queued *)
Corollary release_coherent h n code :
  well_scripted h -> known (transcript h) = None -> decode_rl code <> None ->
  (held (verdict_of (transcript h) n) = true -> released code = true) ->
  lo_result (release (final h) n code) = RelOk (held (verdict_of (transcript h) n)).
Proof.
  intros W K Dc Co. destruct (release_partial h n code W K Dc) as [_ R]. cbv zeta in R. rewrite R.
  destruct (held (verdict_of (transcript h) n)); cbn [andb]; [|reflexivity].
  rewrite (Co eq_refl). reflexivity.
Qed.

Theorem forged_change_nothing st s :
  s_sender s <> Some driver -> forall n, on_signal st s n = st n.
Proof.
  intros G. apply forged_inert. unfold genuine. destruct (s_sender s) as [x|]; [|reflexivity].
  apply lbeq_false. intro E. apply G. rewrite E. reflexivity.
Qed.

(* the `.unwrap()`s on the rule builder in request_name_with_flags never fire *)
Theorem request_never_panics st n flags ans : ro_result (request st n flags ans) <> RPanic.
Proof.
  unfold request. destruct (st n) as [[m|a k]|]; try discriminate.
  rewrite !monitor_rule_ok. destruct ans as [c|]; [|discriminate].
  destruct (decode_rq c) as [[| | |]|]; discriminate.
Qed.

(* ------------------------------------------------------------------ the full statement and its refutation *)
Definition full_statement : Prop :=
  forall h, well_scripted h -> forall n, view (final h) n = verdict_of (transcript h) n.

Definition nA : name := B "org.zbus.A".
Definition gsig (acq : bool) (n : name) : sigmsg := {| s_sender := Some driver; s_acquired := acq; s_name := n |}.
Definition fsig (acq : bool) (n : name) : sigmsg := {| s_sender := Some (B ":1.66"); s_acquired := acq; s_name := n |}.

(* owner without allow-replacement, then the bus takes the name away: the connection still says "already owner" *)
Definition w_lost : list step := [SRequest nA 0 (AnsCode 1) []; SSignal (gsig false nA)].
(* replaced (allow-replacement), later given the name back: the connection does not notice *)
Definition w_acquired : list step := [SRequest nA 1 (AnsCode 1) []; SSignal (gsig false nA); SSignal (gsig true nA)].
(* queued with allow-replacement, a NameLost while queued is buffered and kills the later acquisition *)
Definition w_stale : list step := [SRequest nA 1 (AnsCode 2) []; SSignal (gsig false nA); SSignal (gsig true nA)].

Lemma lost_unmonitored_refuted :
  well_scripted w_lost /\ known (transcript w_lost) = Some KLostUnmonitored /\
  view (final w_lost) nA = VOwner /\ verdict_of (transcript w_lost) nA = VNone.
Proof. split; [repeat constructor|]. vm_compute. auto. Qed.

Lemma acquired_unmonitored_refuted :
  well_scripted w_acquired /\ known (transcript w_acquired) = Some KAcquiredUnmonitored /\
  view (final w_acquired) nA = VNone /\ verdict_of (transcript w_acquired) nA = VOwner.
Proof. split; [repeat constructor|]. vm_compute. auto. Qed.

Lemma stale_lost_refuted :
  well_scripted w_stale /\ known (transcript w_stale) = Some KLostUnmonitored /\
  view (final w_stale) nA = VNone /\ verdict_of (transcript w_stale) nA = VOwner.
Proof. split; [repeat constructor|]. vm_compute. auto. Qed.

Lemma full_refuted : ~ full_statement.
Proof.
  intro F. destruct lost_unmonitored_refuted as (W & _ & V1 & V2).
  specialize (F w_lost W nA). rewrite V1, V2 in F. discriminate.
Qed.

(* the same NameLost, about a name held with a lost-monitor: forged -> nothing, genuine -> the name is gone *)
Example forged_vs_genuine :
  let st := upd no_names nA (Some (Owner true)) in
  on_signal st (fsig false nA) nA = Some (Owner true) /\
  on_signal st {| s_sender := None; s_acquired := false; s_name := nA |} nA = Some (Owner true) /\
  on_signal st (gsig false nA) nA = None.
Proof. vm_compute. auto. Qed.

(* ------------------------------------------------------------------ non-vacuity: a history with every kind of step,
   both names, forged signals, replacement and re-acquisition from the queue, outside the known classes *)
Definition nB : name := B "org.zbus.B".
Definition ex_history : list step :=
  [ SRequest nA 1 (AnsCode 1) [];            (* owner, replaceable *)
    SSignal (fsig false nA);                 (* forged NameLost *)
    SRequest nB 4 (AnsCode 3) [];            (* Exists *)
    SRequest nB 0 (AnsCode 2) [gsig true nB];(* queued, acquired right behind the reply *)
    SRequest nA 7 (AnsCode 2) [];            (* answered from memory *)
    SSignal (gsig false nA);                 (* replaced *)
    SRelease nA 1;                           (* not held any more: no bus traffic *)
    SRequest nA 1 AnsError [];
    SRequest nA 1 (AnsCode 2) [];
    SSignal (fsig true nA);
    SSignal (gsig true nA);
    SRelease nB 1 ].

Example ex_history_ok :
  well_scripted ex_history /\ known (transcript ex_history) = None /\
  view (final ex_history) nA = VOwner /\ view (final ex_history) nB = VNone /\
  List.length (transcript ex_history) = 11%nat.
Proof. split; [repeat constructor; discriminate|]. vm_compute. auto. Qed.
