(* C36/Run.v — line driver (two-phase): "N <p0|p1> <step>* TAB <observation>"  (formats: harness/hbus/src/main.rs).
   model field: OK when the observation is what the model of the code predicts (results, what the bus was asked with
                which flags, the view of both names after every step);
   spec field:  OK when the observation conforms to the bus's verdicts read off the OBSERVED transcript
                ([Spec.conforms]); else SPEC:step<k> (first step whose result or views do not);
   class field: the known-deviation class of the transcript up to that step (or of the whole transcript), or "-". *)
From Coq Require Import List NArith Bool.
From ZV Require Import Base.Bytes Base.Res C36.Model C36.Spec.
Import ListNotations.
Open Scope N_scope.

Definition name0 : name := B "org.zbus.A".
Definition name1 : name := B "org.zbus.B".
Definition probes2 : list name := [name0; name1].
Definition peer : bytes := B ":1.66".

Definition first_tab_split (l : bytes) : bytes * bytes :=
  match split_on tab l with
  | [a] => (a, [])
  | a :: b :: _ => (a, b)
  | [] => ([], [])
  end.

(* ---- parsing the case *)
Definition parse_idx (c : byte) : option name :=
  if beq c "0" then Some name0 else if beq c "1" then Some name1 else None.

Definition parse_sig (t : bytes) : option sigmsg :=
  match t with
  | [k; i] =>
      match parse_idx i with
      | None => None
      | Some n =>
          if beq k "A" then Some {| s_sender := Some driver; s_acquired := true; s_name := n |}
          else if beq k "L" then Some {| s_sender := Some driver; s_acquired := false; s_name := n |}
          else if beq k "a" then Some {| s_sender := Some peer; s_acquired := true; s_name := n |}
          else if beq k "l" then Some {| s_sender := Some peer; s_acquired := false; s_name := n |}
          else if beq k "b" then Some {| s_sender := None; s_acquired := true; s_name := n |}
          else if beq k "m" then Some {| s_sender := None; s_acquired := false; s_name := n |}
          else None
      end
  | _ => None
  end.

Fixpoint parse_sigs (ts : list bytes) : option (list sigmsg) :=
  match ts with
  | [] => Some []
  | t :: r => match parse_sig t, parse_sigs r with Some s, Some l => Some (s :: l) | _, _ => None end
  end.

Definition parse_answer (c : byte) : option answer :=
  if beq c "1" then Some (AnsCode 1) else if beq c "2" then Some (AnsCode 2) else if beq c "3" then Some (AnsCode 3)
  else if beq c "4" then Some (AnsCode 4) else if beq c "E" then Some AnsError else if beq c "G" then Some (AnsCode 9)
  else None.

(* (step, plain) : plain = the step goes through `request_name`, which returns () *)
Definition parse_step (w : bytes) : option (step * bool) :=
  match w with
  | k :: rest =>
      if beq k "q" then
        match split_on "+"%byte rest with
        | [i; f; r] :: sigs =>
            match parse_idx i, parse_answer r, parse_sigs sigs with
            | Some n, Some a, Some post =>
                if beq f "d" then Some (SRequest n default_flags a post, true)
                else if is_digit f && (bn f <=? 55) then Some (SRequest n (bn f - 48) a post, false)
                else None
            | _, _, _ => None
            end
        | _ => None
        end
      else if beq k "r" then
        match rest with
        | [i; c] => match parse_idx i with
                    | Some n => if is_digit c && (49 <=? bn c) && (bn c <=? 51) then Some (SRelease n (bn c - 48), false) else None
                    | None => None
                    end
        | _ => None
        end
      else option_map (fun s => (SSignal s, false)) (parse_sig w)
  | [] => None
  end.

Fixpoint parse_steps (ws : list bytes) : option (list (step * bool)) :=
  match ws with
  | [] => Some []
  | w :: r => match parse_step w, parse_steps r with Some s, Some l => Some (s :: l) | _, _ => None end
  end.

Definition parse_case (c : bytes) : option (bool * list (step * bool)) :=
  match words c with
  | t :: p :: ws =>
      if lbeq t (B "N") then
        match (if lbeq p (B "p1") then Some true else if lbeq p (B "p0") then Some false else None), parse_steps ws with
        | Some every, Some l => Some (every, l)
        | _, _ => None
        end
      else None
  | _ => None
  end.

(* ---- rendering what the model predicts *)
Definition verdict_tok (v : verdict) : byte := match v with VOwner => "O" | VQueued => "Q" | VNone => "N" end%byte.
Definition idx_tok (n : name) : bytes := if lbeq n name0 then B "0" else if lbeq n name1 then B "1" else B "?".

Definition res_tok (plain : bool) (r : result) : bytes :=
  match r with
  | ResReq (RR RExists) => B "?exists"
  | ResReq (RR x) => if plain then B "U" else match x with RPrimary => B "P" | RInQueue => B "Q" | _ => B "A" end
  | ResReq RNameTaken => B "X"
  | ResReq RMethodError => B "E:method"
  | ResReq RBadReply => B "E:variant"
  | ResReq RPanic => B "PANIC"
  | ResRel (RelOk true) => B "T"
  | ResRel (RelOk false) => B "F"
  | ResRel RelBadReply => B "E:variant"
  | ResSig => B "-"
  end.

Definition bus_tok (s : step) (b : option (name * N)) : bytes :=
  match b, s with
  | None, _ => B "-"
  | Some (n, f), SRequest _ _ _ _ => idx_tok n ++ dec_of_N f
  | Some (n, _), _ => idx_tok n
  end.

Definition slash : bytes := B "/".
Definition obs_tok (every : bool) (sp : step * bool) (o : sobs) : bytes :=
  res_tok (snd sp) (o_res o) ++ slash ++ bus_tok (fst sp) (o_bus o) ++ slash ++
  (if every then map verdict_tok (o_views o) else B "--").

Fixpoint zip_toks (every : bool) (l : list (step * bool)) (os : list sobs) : list bytes :=
  match l, os with
  | sp :: lr, o :: orr => obs_tok every sp o :: zip_toks every lr orr
  | _, _ => []
  end.

Definition predict (every : bool) (l : list (step * bool)) : bytes :=
  let h := map fst l in
  let '(os, stf) := run_from probes2 no_names h in
  join (B " ") (zip_toks every l os ++ [B "end/" ++ map (fun n => verdict_tok (view stf n)) probes2]).

(* ---- reading the observation back *)
Definition parse_verdict (c : byte) : option verdict :=
  if beq c "O" then Some VOwner else if beq c "Q" then Some VQueued else if beq c "N" then Some VNone else None.
Fixpoint parse_views (l : bytes) : option (list verdict) :=
  match l with
  | [] => Some []
  | c :: r => match parse_verdict c, parse_views r with Some v, Some vs => Some (v :: vs) | _, _ => None end
  end.

Definition parse_res (s : step) (t : bytes) : option result :=
  match s with
  | SRequest _ _ _ _ =>
      if lbeq t (B "P") then Some (ResReq (RR RPrimary)) else if lbeq t (B "Q") then Some (ResReq (RR RInQueue))
      else if lbeq t (B "A") then Some (ResReq (RR RAlready)) else if lbeq t (B "X") then Some (ResReq RNameTaken)
      else if lbeq t (B "E:method") then Some (ResReq RMethodError)
      else if lbeq t (B "E:variant") then Some (ResReq RBadReply)
      else None
  | SRelease _ _ =>
      if lbeq t (B "T") then Some (ResRel (RelOk true)) else if lbeq t (B "F") then Some (ResRel (RelOk false)) else None
  | SSignal _ => if lbeq t (B "-") then Some ResSig else None
  end.

Definition parse_bus (s : step) (t : bytes) : option (option (name * N)) :=
  if lbeq t (B "-") then Some None
  else match s, t with
       | SRequest _ _ _ _, i :: f => match parse_idx i, N_of_dec f with Some n, Some k => Some (Some (n, k)) | _, _ => None end
       | SRelease _ _, [i] => match parse_idx i with Some n => Some (Some (n, 0)) | None => None end
       | _, _ => None
       end.

(* a plain request_name only shows success: the reply it hides is the one the spec prescribes when that is a success *)
Definition parse_obs_tok (every : bool) (tr : list bus_event) (sp : step * bool) (t : bytes) : option sobs :=
  match split_on "/"%byte t with
  | [r; b; v] =>
      match parse_bus (fst sp) b with
      | None => None
      | Some bus =>
          let res :=
            if snd sp && lbeq r (B "U") then
              match fst sp, bus with
              | SRequest n _ ans _, None => Some (ResReq (RR (match verdict_of tr n with VQueued => RInQueue | _ => RAlready end)))
              | SRequest n _ ans _, Some _ => match relay ans with RR x => Some (ResReq (RR x)) | _ => None end
              | _, _ => None
              end
            else parse_res (fst sp) r in
          match res, (if every then parse_views v else if lbeq v (B "--") then Some [] else None) with
          | Some rr, Some vs => Some {| o_res := rr; o_bus := bus; o_views := vs |}
          | _, _ => None
          end
      end
  | _ => None
  end.

(* walk the observation: Some k = first step that does not conform (1-based), with the transcript up to it *)
Fixpoint walk (every : bool) (k : N) (tr : list bus_event) (l : list (step * bool)) (ts : list bytes)
  : option (N * list bus_event) * list bus_event :=
  match l, ts with
  | [], _ => (None, tr)
  | sp :: lr, t :: tr_toks =>
      match parse_obs_tok every tr sp t with
      | None => (Some (k, tr), tr)
      | Some o =>
          let tr' := tr ++ step_events (fst sp) (o_bus o) in
          if step_ok tr (fst sp) o && views_ok tr' (if every then probes2 else []) (o_views o)
          then walk every (k + 1) tr' lr tr_toks
          else (Some (k, tr'), tr')
      end
  | _ :: _, [] => (Some (k, tr), tr)
  end.

Definition klass_tok (k : option klass) : bytes :=
  match k with
  | None => dash
  | Some KLostUnmonitored => B "lost_unmonitored"
  | Some KAcquiredUnmonitored => B "acquired_unmonitored"
  end.

Definition end_views (t : bytes) : option (list verdict) :=
  match split_on "/"%byte t with
  | [e; v] => if lbeq e (B "end") then parse_views v else None
  | _ => None
  end.

Definition run_case (line : bytes) : outp :=
  let '(c, obstr) := first_tab_split line in
  match parse_case c with
  | None => bad_case
  | Some (every, l) =>
      let pred := predict every l in
      let toks := words obstr in
      let n := List.length l in
      let step_toks := firstn n toks in
      let rest := skipn n toks in
      let '(bad, tr) := walk every 1 [] l step_toks in
      let '(sp, kl) :=
        match bad with
        | Some (k, trk) => (B "SPEC:step" ++ dec_of_N k, known trk)
        | None =>
            match rest with
            | [e] => match end_views e with
                     | Some vs => if views_ok tr probes2 vs then (B "OK", known tr) else (B "SPEC:end", known tr)
                     | None => (B "SPEC:unreadable-observation", None)
                     end
            | _ => (B "SPEC:unreadable-observation", None)
            end
        end in
      {| o_model := if lbeq pred obstr then B "OK" else B "MODEL-PREDICTS:" ++ pred;
         o_spec := sp; o_class := klass_tok kl |}
  end.

Definition run (line : bytes) : bytes := render (run_case line).
