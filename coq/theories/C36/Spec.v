(* C36/Spec.v — "well-known name bookkeeping follows the bus", stated on the BUS's side of the conversation.

   The bus's transcript is the list of things the bus did, in order: answered a RequestName, answered a ReleaseName,
   or a signal was delivered to the connection (by the driver, or by somebody else).  The bus's last verdict on a name
   is read off that transcript alone (a dozen lines, no reference to the connection's state).  The property says: at
   every point the connection reports exactly that verdict; a call is answered from the connection's memory exactly
   when the verdict is "owner" or "queued"; release reports success exactly when the name was held or queued (and the
   bus confirms); signals not sent by the driver change nothing. *)
From Coq Require Import List NArith Bool.
From ZV Require Import Base.Bytes Base.Res C36.Model.
Import ListNotations.
Open Scope N_scope.

Inductive bus_event :=
| BRequest (n : name) (flags : N) (ans : answer)     (* the bus answered RequestName(n, flags) with ans *)
| BRelease (n : name) (code : N)                     (* the bus answered ReleaseName(n) with code *)
| BSig (s : sigmsg).                                 (* a NameAcquired / NameLost signal reached the connection *)

(* only the message bus driver speaks for the bus *)
Definition genuine (s : sigmsg) : bool :=
  match s_sender s with Some x => lbeq x driver | None => false end.

(* what an event says about name n, if anything *)
Definition says (e : bus_event) (n : name) : option verdict :=
  match e with
  | BRequest m _ (AnsCode c) =>
      if lbeq n m then
        match decode_rq c with
        | Some RPrimary | Some RAlready => Some VOwner
        | Some RInQueue => Some VQueued
        | Some RExists => Some VNone    (* neither owner nor queued *)
        | None => None                  (* not a reply code: nothing was said *)
        end
      else None
  | BRequest _ _ AnsError => None       (* the request failed: nothing changed *)
  | BRelease m _ => if lbeq n m then Some VNone else None     (* Released / NonExistent / NotOwner: not held any more *)
  | BSig s =>
      if genuine s && lbeq n (s_name s) then Some (if s_acquired s then VOwner else VNone) else None
  end.

Definition verdict_of (tr : list bus_event) (n : name) : verdict :=
  fold_left (fun v e => match says e n with Some v' => v' | None => v end) tr VNone.

Definition released (code : N) : bool := match decode_rl code with Some LReleased => true | _ => false end.
Definition held (v : verdict) : bool := match v with VNone => false | _ => true end.
Definition verdict_eqb (a b : verdict) : bool :=
  match a, b with VOwner, VOwner | VQueued, VQueued | VNone, VNone => true | _, _ => false end.

(* ------------------------------------------------------------------ the executable form used as oracle
   [conforms probes tr h obs]: the observations [obs] of the steps [h], starting after transcript [tr], are what the
   property prescribes.  The transcript is extended with what the bus was OBSERVED to be asked (o_bus), so the oracle
   runs on the implementation's own output. *)
Definition relay (ans : answer) : req_result :=
  match ans with
  | AnsError => RMethodError
  | AnsCode c => match decode_rq c with
                 | Some RExists => RNameTaken | Some r => RR r | None => RBadReply end
  end.

Definition req_result_eqb (a b : req_result) : bool :=
  match a, b with
  | RR RPrimary, RR RPrimary | RR RInQueue, RR RInQueue | RR RExists, RR RExists | RR RAlready, RR RAlready
  | RNameTaken, RNameTaken | RMethodError, RMethodError | RBadReply, RBadReply | RPanic, RPanic => true
  | _, _ => false
  end.

Definition step_events (s : step) (bus : option (name * N)) : list bus_event :=
  match s, bus with
  | SRequest _ _ ans post, Some (m, f) => BRequest m f ans :: map BSig post
  | SRelease _ code, Some (m, _) => [BRelease m code]
  | SSignal g, _ => [BSig g]
  | _, None => []
  end.

Definition step_ok (tr : list bus_event) (s : step) (o : sobs) : bool :=
  match s with
  | SRequest n _ ans _ =>
      match verdict_of tr n, o_bus o, o_res o with
      | VOwner, None, ResReq r => req_result_eqb r (RR RAlready)
      | VQueued, None, ResReq r => req_result_eqb r (RR RInQueue)
      | VNone, Some (m, _), ResReq r => lbeq m n && req_result_eqb r (relay ans)
      | _, _, _ => false
      end
  | SRelease n code =>
      match held (verdict_of tr n), o_bus o, o_res o with
      | true, Some (m, _), ResRel (RelOk b) => lbeq m n && Bool.eqb b (released code)
      | false, None, ResRel (RelOk b) => negb b
      | _, _, _ => false
      end
  | SSignal _ => match o_bus o, o_res o with None, ResSig => true | _, _ => false end
  end.

Fixpoint views_ok (tr : list bus_event) (probes : list name) (vs : list verdict) : bool :=
  match probes, vs with
  | [], [] => true
  | n :: ps, v :: r => verdict_eqb v (verdict_of tr n) && views_ok tr ps r
  | _, _ => false
  end.

Fixpoint conforms (probes : list name) (tr : list bus_event) (h : list step) (obs : list sobs) : bool :=
  match h, obs with
  | [], [] => true
  | s :: hr, o :: orr =>
      let tr' := tr ++ step_events s (o_bus o) in
      step_ok tr s o && views_ok tr' probes (o_views o) && conforms probes tr' hr orr
  | _, _ => false
  end.

(* ------------------------------------------------------------------ known deviations of the pinned code
   A conforming bus revokes a name only from an owner that allowed replacement, and announces an acquisition only to
   somebody it has queued.  The pinned zbus relies on that: it listens for NameLost only while it is an owner that
   allowed replacement, and for NameAcquired only while queued.  The two classes name the first event of a transcript
   where the bus does something else; [b_allow] is the flag of the request the current verdict answers. *)
Inductive klass := KLostUnmonitored | KAcquiredUnmonitored.

Record bstate := { b_v : verdict; b_allow : bool }.
Definition bnone : bstate := {| b_v := VNone; b_allow := false |}.

Definition bus_step (b : bstate) (e : bus_event) (n : name) : bstate :=
  match e with
  | BRequest m flags (AnsCode c) =>
      if lbeq n m then
        match decode_rq c with
        | Some RPrimary | Some RAlready => {| b_v := VOwner; b_allow := allows_replacement flags |}
        | Some RInQueue => {| b_v := VQueued; b_allow := allows_replacement flags |}
        | Some RExists => bnone
        | None => b
        end
      else b
  | BRequest _ _ AnsError => b
  | BRelease m _ => if lbeq n m then bnone else b
  | BSig s =>
      if genuine s && lbeq n (s_name s) then
        (if s_acquired s then {| b_v := VOwner; b_allow := b_allow b |} else bnone)
      else b
  end.

Definition bus_state (tr : list bus_event) (n : name) : bstate :=
  fold_left (fun b e => bus_step b e n) tr bnone.

Definition deviates (b : bstate) (e : bus_event) : option klass :=
  match e with
  | BSig s =>
      if genuine s then
        if s_acquired s then
          match b_v b with VNone => Some KAcquiredUnmonitored | _ => None end
        else
          match b_v b, b_allow b with
          | VOwner, true => None
          | VNone, _ => None
          | _, _ => Some KLostUnmonitored
          end
      else None
  | _ => None
  end.

Definition event_name (e : bus_event) : name :=
  match e with BRequest n _ _ => n | BRelease n _ => n | BSig s => s_name s end.

(* the first deviating event of [evs], after the transcript [tr] *)
Fixpoint known_from (tr evs : list bus_event) : option klass :=
  match evs with
  | [] => None
  | e :: r =>
      match deviates (bus_state tr (event_name e)) e with
      | Some k => Some k
      | None => known_from (tr ++ [e]) r
      end
  end.
Definition known (tr : list bus_event) : option klass := known_from [] tr.

(* the transcript the model's run produces *)
Fixpoint transcript_from (st : names) (h : list step) : list bus_event :=
  match h with
  | [] => []
  | s :: r => let '(st1, _, bus) := exec st s in step_events s bus ++ transcript_from st1 r
  end.
Definition transcript (h : list step) : list bus_event := transcript_from no_names h.

(* the transcript the observations show *)
Fixpoint observed_transcript (h : list step) (obs : list sobs) : list bus_event :=
  match h, obs with
  | s :: hr, o :: orr => step_events s (o_bus o) ++ observed_transcript hr orr
  | _, _ => []
  end.
